import AldorVerif.Driver.Dnf
/-! `driver <module>`: reads request lines on stdin, prints one result line each. -/

def dispatch (mod : String) : Option (List String → String) :=
  match mod with
  | "dnf" => some AldorVerif.Driver.Dnf.line
  | _ => none

partial def loop (h : IO.FS.Stream) (out : IO.FS.Stream) (f : List String → String) : IO Unit := do
  let l ← h.getLine
  if l.isEmpty then return ()
  let toks := (l.trimAscii.toString.splitOn " ").filter (· ≠ "")
  out.putStrLn (f toks)
  loop h out f

def main (args : List String) : IO UInt32 := do
  match args with
  | [m] =>
    match dispatch m with
    | some f =>
      let out ← IO.getStdout
      loop (← IO.getStdin) out f
      out.flush
      return 0
    | none => IO.eprintln s!"unknown module {m}"; return 2
  | _ => IO.eprintln "usage: driver <module>"; return 2
