import AldorVerif.Model.Dnf
import AldorVerif.Lemmas.Dnf
import AldorVerif.Props.C20Dnf
