import AldorVerif.Model.Scan
import AldorVerif.Model.Exit
import AldorVerif.Model.IfState
/-! line protocol for the `scan` module (driver side; not part of the model)

`S <hex of the text>`  → the model's token list, one blank-separated item per token:
`I:<hex>` id, `B:<hex>` blank, `K:<tag>` keyword, `S:<hex>` string, `O` unterminated string,
`E` bad character, `C:/P:/Q:<hex>` comment / pre-doc / post-doc, `N` newline, `NUM` (the model
stops: scanNumber), `FAULT` (keyIx subscripted out of range).
`X <errors>` → exit status. -/
namespace AldorVerif.Driver.Scan
open AldorVerif.Scan

def hexDigit (c : Char) : Option Nat :=
  if '0' ≤ c ∧ c ≤ '9' then some (c.toNat - 48)
  else if 'a' ≤ c ∧ c ≤ 'f' then some (c.toNat - 87)
  else none

partial def unhex : List Char → Option (List Nat)
  | [] => some []
  | a :: b :: r => do
    let x ← hexDigit a; let y ← hexDigit b; let t ← unhex r
    pure ((x * 16 + y) :: t)
  | _ => none

def hexOf (bs : List Nat) : String :=
  let d (n : Nat) : Char := if n < 10 then Char.ofNat (48 + n) else Char.ofNat (87 + n)
  String.ofList (bs.flatMap fun b => [d (b / 16), d (b % 16)])

def showTok : Tok → String
  | .id w => "I:" ++ hexOf (cstr w)
  | .blank w => "B:" ++ hexOf (cstr w)
  | .kw t _ => "K:" ++ toString t
  | .special t _ => "K:" ++ toString t
  | .fault _ _ => "FAULT"
  | .faultL _ _ => "FAULT"
  | .badChar _ _ => "E"
  | .str s => "S:" ++ hexOf (cstr s)
  | .openString _ => "O"
  | .comment s => "C:" ++ hexOf (cstr s)
  | .preDoc s => "P:" ++ hexOf (cstr s)
  | .postDoc s => "Q:" ++ hexOf (cstr s)
  | .newline => "N"
  | .number => "NUM"

def tagTok : Tok → String
  | .id w => if w.any (· ≥ 128) then "id-high" else "id"
  | .blank _ => "blank"
  | .kw _ _ => "kw-word"
  | .special _ _ => "kw-special"
  | .fault _ _ => "oob"
  | .faultL _ _ => "oob-longest"
  | .badChar v _ => if v then "badchar-special" else "badchar"
  | .str _ => "string"
  | .openString _ => "openstring"
  | .comment _ => "comment"
  | .preDoc _ => "predoc"
  | .postDoc _ => "postdoc"
  | .newline => "nl"
  | .number => "number"

/-- `I <line>*` with lines `t<id> if<p> ei<p> el en as<p> un<p>` → the includer model's events -/
def parseLine (t : String) : Option AldorVerif.IfState.Line :=
  let num (k : Nat) : Option Nat := (t.drop k).toString.toNat?
  if t == "el" then some .elseD
  else if t == "en" then some .endifD
  else if t.startsWith "if" then (num 2).map .ifD
  else if t.startsWith "ei" then (num 2).map .elseifD
  else if t.startsWith "as" then (num 2).map .assertD
  else if t.startsWith "un" then (num 2).map .unassertD
  else if t.startsWith "t" then (num 1).map .text
  else none

def showEv : AldorVerif.IfState.Ev → String
  | .line i => "L" ++ toString i
  | .ifEof => "EOF"
  | .unbalElse => "UELSE"
  | .unbalElseif => "UELSEIF"
  | .unbalEndif => "UENDIF"

def line (toks : List String) : String :=
  match toks with
  | "I" :: ls =>
    match ls.mapM parseLine with
    | some lines =>
      let evs := AldorVerif.IfState.runFile [] lines
      let d := AldorVerif.IfState.depthAtEof 0 lines
      " ".intercalate (evs.map showEv) ++ "\tdepth=" ++ (match d with | some k => toString k | none => "stray-endif")
    | none => "bad-op"
  | ["S", h] =>
    match unhex h.toList with
    | some src =>
      let ts := scan src
      " ".intercalate (ts.map showTok) ++ "\t" ++ " ".intercalate (ts.map tagTok).eraseDups
    | none => "bad-op"
  | ["S"] => "\t"
  | ["X", n] =>
    match n.toNat? with
    | some e => toString (AldorVerif.Exit.exitStatus e) ++ "\t" ++ (if e ≥ 256 then "saturated" else "exact")
    | none => "bad-op"
  | _ => "bad-op"

end AldorVerif.Driver.Scan
