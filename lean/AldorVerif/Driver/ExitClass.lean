import AldorVerif.Model.ExitClass
/-! line protocol for the exit model: `<route> <kind> [<halt operand, decimal, possibly negative>]`
→ `extra=… flushed=… stderr=… status=…<TAB>tags` -/
namespace AldorVerif.Driver.ExitClass
open AldorVerif.ExitClass

def showExtra : StdoutExtra → String
  | .none => "none"
  | .backtrace => "backtrace"
  | .faultMessage m => "fault:" ++ m.replace " " "_"

def showStderr : StderrClass → String
  | .none => "none"
  | .runtimeError m => "rt:" ++ m.replace " " "_"
  | .userException => "user"

def showStatus : Status → String
  | .exit n => s!"exit:{n}"
  | .killed => "killed"
  | .continues => "continues"

def showClass : Option Bool → String
  | some true => "ok"
  | some false => "fail"
  | none => "continues"

def showOutcome (o : Outcome) : String :=
  s!"extra={showExtra o.stdoutExtra} errextra={showExtra o.stderrExtra} flushed={if o.flushed then 1 else 0} stderr={showStderr o.stderr} status={showStatus o.status} class={showClass (successClass o)}"

def parseKind : List String → Option TerminationKind
  | ["normal"] => some .normal
  | ["uncaught"] => some .uncaught
  | ["divzero"] => some .divZero
  | ["segv"] => some .storageFault
  | ["halt", n] => n.toInt?.map fun i => .halt (BitVec.ofInt 64 i)
  | _ => none

def tagOf : TerminationKind → String
  | .normal => "normal"
  | .uncaught => "uncaught"
  | .divZero => "divzero"
  | .storageFault => "segv"
  | .halt c =>
    match enumName gen (int32 c) with
    | some n => "halt:" ++ n
    | none => if (cHaltMsg gen c).isNone then "halt:silent" else "halt:default"

def line (toks : List String) : String :=
  match toks with
  | "interp" :: r => match parseKind r with
    | some k => showOutcome (interpRoute gen k) ++ "\t" ++ tagOf k
    | none => "bad-op"
  | "c" :: r => match parseKind r with
    | some k => showOutcome (cRoute gen k) ++ "\t" ++ tagOf k
    | none => "bad-op"
  | _ => "bad-op"

end AldorVerif.Driver.ExitClass
