import AldorVerif.Model.Mangle
import AldorVerif.Model.CSplit
import AldorVerif.Model.CLit
/-! line protocol for the `mangle` part (driver side; not part of the model).
Requests as in harness/mangle_drv.c. -/
namespace AldorVerif.Driver.Mangle
open AldorVerif.Mangle AldorVerif.CSplit

def hexVal (c : Char) : Option Nat :=
  if '0' ≤ c ∧ c ≤ '9' then some (c.toNat - 48)
  else if 'a' ≤ c ∧ c ≤ 'f' then some (c.toNat - 87)
  else if 'A' ≤ c ∧ c ≤ 'F' then some (c.toNat - 55)
  else none

partial def unhexL : List Char → Option (List Char)
  | [] => some []
  | a :: b :: r => do
    let x ← hexVal a
    let y ← hexVal b
    let rest ← unhexL r
    pure (Char.ofNat (16 * x + y) :: rest)
  | _ => none

def unhex (s : String) : Option (List Char) :=
  if s = "-" then some [] else unhexL s.toList

def str (l : List Char) : String := String.ofList l

def hexDigit (n : Nat) : Char := if n < 10 then Char.ofNat (48 + n) else Char.ofNat (87 + n)
def hex2 (n : Nat) : String := String.ofList [hexDigit (n / 16 % 16), hexDigit (n % 16)]

def b01 (b : Bool) : String := if b then "1" else "0"

def classOf (s : List Char) : String :=
  let sp := s.any (fun c => (specLookup Gen.SpecChar.table c).isSome)
  let dr := s.any (fun c => emit c == [])
  "special=" ++ b01 sp ++ " dropped=" ++ b01 dr

def showIdx (l : List Nat) : String := ",".intercalate (l.map toString)

/-- last write to a name wins; result sorted by name -/
def finalFiles (ws : List (List Char × Nat)) : List (String × Nat) :=
  let m := ws.foldl (fun (acc : List (String × Nat)) w =>
    let n := str w.1
    (acc.filter (fun e => e.1 ≠ n)) ++ [(n, w.2)]) []
  m.mergeSort (fun a b => a.1 ≤ b.1)

def line (toks : List String) : String :=
  match toks with
  | ["hash", h] =>
    match unhex h with
    | some s => toString (strHash s) ++ " =" ++ str (idHash s) ++ "\tndig=" ++ toString (idHash s).length
    | none => "bad-op"
  | ["valid", n, h] =>
    match n.toInt?, unhex h with
    | some n, some s =>
      let idlen := setIdLen n
      "=" ++ str (validIdFrom idlen 0 s) ++ "\tcut=" ++ b01 (validIdCut idlen 0 s) ++ " " ++ classOf s
        ++ " unlimited=" ++ b01 (idlen == 0)
    | _, _ => "bad-op"
  | ["global", n, ih, h] =>
    match n.toInt?, ih.toInt?, unhex h with
    | some n, some ih, some s =>
      let idlen := setIdLen n
      let g := multVarId idlen (ih ≠ 0) ['G'] 0 s
      let pg := multVarId idlen (ih ≠ 0) ['p', 'G'] 0 s
      let pos := 2 + (if ih ≠ 0 then (idHash s).length + 1 else 0)
      "=" ++ str g ++ " =" ++ str pg ++ "\tgcut=" ++ b01 (validIdCut idlen pos s)
        ++ " pgcut=" ++ b01 (validIdCut idlen (pos + 1) s) ++ " idhash=" ++ b01 (ih ≠ 0) ++ " " ++ classOf s
    | _, _, _ => "bad-op"
  | ["local", n, k, i, h] =>
    match n.toInt?, unhex k, i.toNat?, unhex h with
    | some n, some k, some i, some s =>
      let idlen := setIdLen n
      let kind := if isGlobalKind k then "global" else
        match k with
        | [c] => if c.isAlpha then "letter" else if c.isDigit then "digit" else "generic"
        | [] => "empty"
        | c :: _ => if c.isDigit then "digit" else "generic"
      "=" ++ str (multVarId idlen true k i s) ++ " =" ++ str (varId idlen k i)
        ++ "\tkind=" ++ kind ++ " bempty=" ++ b01 (s == [])
    | _, _, _, _ => "bad-op"
  | ["lit", sd, qk, h] =>
    match sd.toNat?, unhex h with
    | some sd, some s =>
      let std := sd ≠ 0
      let q := if qk = "c" then '\'' else '"'
      let out := CLit.printLit std q s
      let hex := String.join (out.map (fun c => hex2 c.toNat))
      let den := CLit.denote q (CLit.escapeLit std s)
      hex ++ "\tstd=" ++ b01 std ++ " kind=" ++ qk ++ " roundtrip=" ++ b01 (den == some s)
        ++ " qmark=" ++ b01 (s.contains '?') ++ " octal=" ++ b01 (s.any (fun c => !CLit.isPrint c && (CLit.escChar std c).length > 2))
    | _, _ => "bad-op"
  | "inits" :: n :: sm :: uh :: imps =>
    match n.toInt?, sm.toInt?, unhex uh, imps.mapM unhex with
    | some n, some sm, some unit, some imps =>
      let idlen := setIdLen n
      let smax := setSMax sm
      let cl := codeList smax [2, 1, 1] 0
      let over := overSMax smax (guessStmts [2, 1, 1] 0)
      let parts := if over then cl.length - 2 else 0
      let own := (List.range (parts + 1)).map (fun k =>
        if k = 0 then siteDefinition idlen unit true parts else siteDefinition idlen unit false k)
      let decls := (List.range parts).map (fun k => siteBrotherDecl idlen unit (k + 1))
      let calls := (List.range parts).map (fun k => siteBrotherCall idlen unit (k + 1))
      let imp := (imps ++ ["rtexns".toList]).map (siteImport idlen)
      let all := (own ++ decls ++ calls ++ imp).map str
      let main := [siteMainDecl idlen unit, siteMainCall idlen unit].map str
      let norm (l : List String) : String := " ".intercalate ((l.eraseDups).mergeSort (· ≤ ·))
      norm all ++ " ; " ++ norm main ++ "\tparts=" ++ toString parts ++ " unitcut=" ++ b01 (validIdCut idlen 8 unit)
        ++ " clash=" ++ b01 (all.eraseDups.length < (own ++ imp).length)
    | _, _, _, _ => "bad-op"
  | op :: sm :: ng :: bh :: bs =>
    if op ≠ "split" ∧ op ≠ "splitS" then "bad-op" else
    match sm.toInt?, ng.toNat?, unhex bh, bs.mapM (·.toNat?) with
    | some sm, some ng, some base, some bodies =>
      if bodies = [] then "bad-op" else
      let smax := setSMax sm
      let cl := codeList smax bodies ng
      let files := finalFiles (fileWrites base cl.length)
      let r := split smax bodies ng
      let over := overSMax smax (guessStmts bodies ng)
      let elem (i : Nat) : String :=
        showIdx (cl.getD i []) ++ "/" ++ (match initIndex over cl.length i with | some k => toString k | none => "")
      toString cl.length ++ " " ++ " ".intercalate ((List.range cl.length).map (fun i => "[" ++ elem i ++ "]")) ++ " ; "
        ++ " ".intercalate (files.map (fun f => f.1 ++ "=" ++ elem f.2))
        ++ "\tover=" ++ b01 over ++ " dialect=" ++ (if op = "splitS" then "standard" else "old")
        ++ " parts1000=" ++ b01 (decide (cl.length > 1001))
        ++ " emptyparts=" ++ b01 (r.1.any (· == []))
        ++ " lastempty=" ++ b01 (r.2 == [])
        ++ " nameclash=" ++ b01 (files.length ≠ (fileWrites base cl.length).length)
    | _, _, _, _ => "bad-op"
  | _ => "bad-op"

end AldorVerif.Driver.Mangle
