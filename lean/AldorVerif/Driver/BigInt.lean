import AldorVerif.Model.BigInt
/-! line protocol for the `bigint` module (driver side; not part of the model) -/
namespace AldorVerif.Driver.BigInt
open AldorVerif.BigInt

def hexVal (c : Char) : Option Nat :=
  if '0' ≤ c && c ≤ '9' then some (c.toNat - 48)
  else if 'a' ≤ c && c ≤ 'f' then some (c.toNat - 87)
  else none

def parseHexNat (s : List Char) : Option Nat :=
  if s.isEmpty then none
  else s.foldl (fun acc c => do let a ← acc; let d ← hexVal c; pure (a * 16 + d)) (some 0)

partial def natDigits (n : Nat) : List Nat := if n = 0 then [] else (n % R) :: natDigits (n / R)

/-- operand token `[-]hex` → the BInt `bintFrPlacev` builds from its digit vector -/
def parseOperand (t : String) : Option BInt :=
  let cs := t.toList
  let (neg, cs) := match cs with
    | '-' :: r => (true, r)
    | r => (false, r)
  (parseHexNat cs).map fun n => bintFrPlacev neg (natDigits n)

def hexNat (n : Nat) : String := String.ofList (Nat.toDigits 16 n)

def showInt (v : Int) : String := (if v < 0 then "-" else "") ++ hexNat v.natAbs

/-- `sign hex / representation` -/
def showB : BInt → String
  | .imm v => showInt v ++ "/i"
  | .big neg ds => (if neg then "-" else "") ++ hexNat (natVal ds) ++ "/b" ++ toString ds.length

def b01 (b : Bool) : String := if b then "1" else "0"
def rep : BInt → String
  | .imm _ => "i"
  | .big _ _ => "b"
def sg (b : BInt) : String := if bintIsNeg b then "n" else "p"

def pathTag : DPath → String
  | .single => "div=single"
  | .less => "div=less"
  | .knuth d tr =>
    "div=knuth" ++ (if d = 1 then " d=1" else " d>1")
      ++ (if tr.ujEq > 0 then " uj0=v1" else "")
      ++ (if tr.corr > 0 then " D3-corrected" else "")
      ++ (if tr.corr > 1 then " D3-corrected-twice" else "")
      ++ (if tr.addBack > 0 then " addback" else "")
      ++ (if tr.third > 0 then " D3-third-pass" else "")

def mpathTag : MPath → String
  | .immDivisor => "mod=imm"
  | .wordDivisor => "mod=word"
  | .divide p => "mod=divide " ++ pathTag p

def spathTag : SPath → String
  | .bad => "scan=bad"
  | .small => "scan=small"
  | .chunks => "scan=chunks"

def ioTag (ins : List BInt) (out : BInt) : String :=
  let i := String.join (ins.map rep)
  let sw := if ins.all (fun b => rep b = "i") && rep out = "b" then " immed→stored"
            else if ins.any (fun b => rep b = "b") && rep out = "i" then " stored→immed" else ""
  "in=" ++ i ++ " sg=" ++ String.join (ins.map sg) ++ " out=" ++ rep out ++ sw

def untok (t : String) : List Char := t.toList.map fun c => if c = '_' then ' ' else c

def bin (f : BInt → BInt → BInt) (x y : String) (extra : BInt → BInt → String := fun _ _ => "") : String :=
  match parseOperand x, parseOperand y with
  | some a, some b => let r := f a b; showB r ++ "\t" ++ ioTag [a, b] r ++ extra a b
  | _, _ => "bad-op"

def un (f : BInt → BInt) (x : String) : String :=
  match parseOperand x with
  | some a => let r := f a; showB r ++ "\t" ++ ioTag [a] r
  | _ => "bad-op"

def plusTag (a b : BInt) : String :=
  if (plusFast a b).isSome then " plus=fast" else " plus=stored"

def minusTag (a b : BInt) : String :=
  if (minusFast a b).isSome then " minus=fast" else " minus=stored"

def timesTag (a b : BInt) : String :=
  if (timesHalf a b).isSome then " times=half"
  else if (timesUnit a b).isSome || (timesUnit b a).isSome then " times=unit" else " times=gen"

/-- one request line → `result<TAB>tags` -/
partial def line (toks : List String) : String :=
  match toks with
  | ["consts"] =>
    s!"lg={LG} radix={hexNat R} long=64 maximm={showInt MAXI} minimm={showInt MINI} maxhalf={showInt MAXH}"
  | ["new", n] =>
    match n.toInt? with
    | some v => let r := bintNew (BitVec.ofInt 64 v); showB r ++ "\tout=" ++ rep r
    | none => "bad-op"
  | ["rt", n] =>
    match n.toInt? with
    | some v =>
      let r := fiSIntToBInt (BitVec.ofInt 64 v)
      toString (fiBIntToSInt r).toInt ++ " " ++ showB r ++ "\tout=" ++ rep r
    | none => "bad-op"
  | ["tosint", x] =>
    match parseOperand x with
    | some a => toString (fiBIntToSInt a).toInt ++ "\tin=" ++ rep a
    | none => "bad-op"
  | ["small", x] =>
    match parseOperand x with
    | some a => b01 (bintIsSmall a) ++ " " ++ toString (bintSmall a) ++ "\tin=" ++ rep a
    | none => "bad-op"
  | ["cmp", x, y] =>
    match parseOperand x, parseOperand y with
    | some a, some b => b01 (bintEQ a b) ++ b01 (bintLT a b) ++ b01 (bintGT a b) ++ "\tin=" ++ rep a ++ rep b ++ " sg=" ++ sg a ++ sg b
    | _, _ => "bad-op"
  | ["sgn", x] =>
    match parseOperand x with
    | some a => b01 (bintIsZero a) ++ b01 (bintIsNeg a) ++ b01 (bintIsPos a) ++ "\tin=" ++ rep a
    | none => "bad-op"
  | ["neg", x] => un bintNegate x
  | ["abs", x] => un bintAbs x
  | ["plus", x, y] => bin bintPlus x y plusTag
  | ["minus", x, y] => bin bintMinus x y minusTag
  | ["times", x, y] => bin bintTimes x y timesTag
  | ["self", "plus", x] => bin bintPlus x x plusTag
  | ["self", "minus", x] => bin bintMinus x x minusTag
  | ["self", "times", x] => bin bintTimes x x timesTag
  | ["self", "cmp", x] => line ["cmp", x, x]
  | ["self", "div", x] => line ["div", x, x]
  | ["tplus", x, y, z] =>
    match parseOperand x, parseOperand y, parseOperand z with
    | some a, some b, some c => let r := fiBIntTimesPlus a b c; showB r ++ "\t" ++ ioTag [a, b, c] r
    | _, _, _ => "bad-op"
  | ["div", x, y] =>
    match parseOperand x, parseOperand y with
    | some a, some b =>
      if bintIsZero b then "div-by-zero"
      else
        let r := bintDivideT a b
        showB r.1 ++ " " ++ showB r.2.1 ++ "\t" ++ ioTag [a, b] r.1 ++ " " ++ pathTag r.2.2
    | _, _ => "bad-op"
  | ["mod", x, y] =>
    match parseOperand x, parseOperand y with
    | some a, some b =>
      if bintIsZero b then "div-by-zero"
      else
        let r := bintModT a b
        let sz := match b with
          | .imm v => if v.natAbs < R then " modi=short" else " modi=long"
          | _ => if bintLength b < 64 then " modi=long" else ""
        showB r.1 ++ "\t" ++ ioTag [a, b] r.1 ++ " " ++ mpathTag r.2 ++ sz
    | _, _ => "bad-op"
  | ["gcd", x, y] =>
    match parseOperand x, parseOperand y with
    | some a, some b =>
      let r := fiBIntGcdT a b
      showB r.1 ++ "\t" ++ ioTag [a, b] r.1 ++ " gcd-steps=" ++ (if r.2 = 0 then "0" else if r.2 < 4 then "1-3" else if r.2 < 32 then "4-31" else "32+")
    | _, _ => "bad-op"
  | ["sipow", x, n] =>
    match parseOperand x, n.toInt? with
    | some a, some e =>
      if e < 0 then "negative-power"
      else let r := fiBIntSIPower a (BitVec.ofInt 64 e); showB r ++ "\t" ++ ioTag [a] r
    | _, _ => "bad-op"
  | ["bipow", x, y] =>
    match parseOperand x, parseOperand y with
    | some a, some b =>
      if bintIsNeg b then "negative-power"
      else let r := fiBIntBIPower a b; showB r ++ "\t" ++ ioTag [a, b] r
    | _, _ => "bad-op"
  | ["powmod", x, y, z] =>
    match parseOperand x, parseOperand y, parseOperand z with
    | some a, some b, some c =>
      if bintIsZero c then "div-by-zero"
      else if bintIsNeg b && !(bintIsZero (bintMod a c)) then "negative-power"
      else let r := fiBIntPowerMod a b c; showB r ++ "\t" ++ ioTag [a, b, c] r
    | _, _, _ => "bad-op"
  | ["len", x] =>
    match parseOperand x with
    | some a => toString (bintLength a) ++ " " ++ b01 (fiBIntIsSingle a) ++ "\tin=" ++ rep a
    | none => "bad-op"
  | ["bit", x, i] =>
    match parseOperand x, i.toNat? with
    | some a, some i => b01 (bintBit a i) ++ "\tin=" ++ rep a
    | _, _ => "bad-op"
  | ["shift", x, n] =>
    match parseOperand x, n.toInt? with
    | some a, some n =>
      let r := bintShift a n
      showB r ++ "\t" ++ ioTag [a] r ++ (if n < 0 then " shift=right" else if n > 0 then " shift=left" else " shift=0")
        ++ (if (bintLength a : Int) + n ≤ 0 then " shift=out" else "")
    | _, _ => "bad-op"
  | ["shrem", x, n] =>
    match parseOperand x, n.toNat? with
    | some a, some n => let r := bintShiftRem a n; showB r ++ "\t" ++ ioTag [a] r
    | _, _ => "bad-op"
  | ["tos", x] =>
    match parseOperand x with
    | some a => String.ofList (bintToString a) ++ "\tin=" ++ rep a
    | none => "bad-op"
  | ["frs", s] =>
    let r := bintRadixScan (untok s)
    showB r.1 ++ " " ++ toString r.2.1 ++ "\tout=" ++ rep r.1 ++ " " ++ spathTag r.2.2
  | ["scan", s] =>
    let r := bintScan (untok s)
    showB r.1 ++ " " ++ toString r.2.1 ++ "\tout=" ++ rep r.1 ++ " " ++ spathTag r.2.2
  | ["xmd", nh, nl, d] =>
    match parseHexNat nh.toList, parseHexNat nl.toList, parseHexNat d.toList with
    | some nh, some nl, some d =>
      if d = 0 then "div-by-zero" else hexNat (xxModDouble nh nl d) ++ "\t" ++ (if d = 1 then "xmd=1" else if d < R then "xmd=short" else "xmd=long")
    | _, _, _ => "bad-op"
  | ["ulen", u] =>
    match parseHexNat u.toList with
    | some u => toString (uintLength u)
    | none => "bad-op"
  | _ => "bad-op"

end AldorVerif.Driver.BigInt
