import AldorVerif.Gen.JMap
import AldorVerif.Model.JSpec
/-! line protocol for the `jmap` module (driver side; not part of the model)

request  `<Builtin> <int>*`   (booleans as 0/1; `@Math_isOdd`-style names address foamj methods)
answer   `<Gen.JMap result>\tspec=<Spec32 result or -> kind=<emission method>`  -/
namespace AldorVerif.Driver.JMap
open AldorVerif AldorVerif.JSpec AldorVerif.Gen

def i32 (x : Int) : BitVec 32 := BitVec.ofInt 32 x
def i16 (x : Int) : BitVec 16 := BitVec.ofInt 16 x
def i8 (x : Int) : BitVec 8 := BitVec.ofInt 8 x
def bo (x : Int) : Bool := decide (x ≠ 0)
def sS {w : Nat} (x : BitVec w) : String := toString x.toInt
def sU {w : Nat} (x : BitVec w) : String := toString x.toNat
def sB (b : Bool) : String := if b then "T" else "F"
def sO {α : Type} (f : α → String) : Option α → String
  | some x => f x
  | none => "throw"

/-- the 32-bit meaning, rendered like `Gen.JMap.eval` renders the Java result -/
def spec32 (name : String) (args : List Int) : Option String :=
  match name, args with
  | "BoolFalse", [] => some (sB Spec.BoolFalse)
  | "BoolTrue", [] => some (sB Spec.BoolTrue)
  | "BoolNot", [a] => some (sB (Spec.BoolNot (bo a)))
  | "BoolAnd", [a, b] => some (sB (Spec.BoolAnd (bo a) (bo b)))
  | "BoolOr", [a, b] => some (sB (Spec.BoolOr (bo a) (bo b)))
  | "BoolEQ", [a, b] => some (sB (Spec.BoolEQ (bo a) (bo b)))
  | "BoolNE", [a, b] => some (sB (Spec.BoolNE (bo a) (bo b)))
  | "CharEQ", [a, b] => some (sB (Spec.CharEQ (i16 a) (i16 b)))
  | "CharNE", [a, b] => some (sB (Spec.CharNE (i16 a) (i16 b)))
  | "CharLT", [a, b] => some (sB (Spec.CharLT (i16 a) (i16 b)))
  | "CharLE", [a, b] => some (sB (Spec.CharLE (i16 a) (i16 b)))
  | "CharOrd", [a] => some (sS (Spec.CharOrd 32 (i16 a)))
  | "CharNum", [a] => some (sU (Spec.CharNum 16 (i32 a)))
  | "SInt0", [] => some (sS (Spec.SInt0 : BitVec 32))
  | "SInt1", [] => some (sS (Spec.SInt1 : BitVec 32))
  | "SIntMin", [] => some (sS (Spec.SIntMin : BitVec 32))
  | "SIntMax", [] => some (sS (Spec.SIntMax : BitVec 32))
  | "SIntIsZero", [a] => some (sB (Spec.SIntIsZero (i32 a)))
  | "SIntIsNeg", [a] => some (sB (Spec.SIntIsNeg (i32 a)))
  | "SIntIsPos", [a] => some (sB (Spec.SIntIsPos (i32 a)))
  | "SIntIsEven", [a] => some (sB (Spec.SIntIsEven (i32 a)))
  | "SIntIsOdd", [a] => some (sB (Spec.SIntIsOdd (i32 a)))
  | "SIntEQ", [a, b] => some (sB (Spec.SIntEQ (i32 a) (i32 b)))
  | "SIntNE", [a, b] => some (sB (Spec.SIntNE (i32 a) (i32 b)))
  | "SIntLT", [a, b] => some (sB (Spec.SIntLT (i32 a) (i32 b)))
  | "SIntLE", [a, b] => some (sB (Spec.SIntLE (i32 a) (i32 b)))
  | "SIntNegate", [a] => some (sS (Spec.SIntNegate (i32 a)))
  | "SIntPrev", [a] => some (sS (Spec.SIntPrev (i32 a)))
  | "SIntNext", [a] => some (sS (Spec.SIntNext (i32 a)))
  | "SIntPlus", [a, b] => some (sS (Spec.SIntPlus (i32 a) (i32 b)))
  | "SIntMinus", [a, b] => some (sS (Spec.SIntMinus (i32 a) (i32 b)))
  | "SIntTimes", [a, b] => some (sS (Spec.SIntTimes (i32 a) (i32 b)))
  | "SIntTimesPlus", [a, b, c] => some (sS (Spec.SIntTimesPlus (i32 a) (i32 b) (i32 c)))
  | "SIntMod", [a, b] => some (sO sS (Spec.SIntMod (i32 a) (i32 b)))
  | "SIntQuo", [a, b] => some (sO sS (Spec.SIntQuo (i32 a) (i32 b)))
  | "SIntRem", [a, b] => some (sO sS (Spec.SIntRem (i32 a) (i32 b)))
  | "SIntPlusMod", [a, b, c] => some (sO sS (Spec.SIntPlusMod (i32 a) (i32 b) (i32 c)))
  | "SIntMinusMod", [a, b, c] => some (sO sS (Spec.SIntMinusMod (i32 a) (i32 b) (i32 c)))
  | "SIntTimesMod", [a, b, c] => some (sO sS (Spec.SIntTimesMod (i32 a) (i32 b) (i32 c)))
  -- the meaning of shifts and bit tests is stated for counts 0..31 (and `2 ^ count` is not
  -- computable for the counts 2^32-1 etc. that the probe also sends)
  | "SIntShiftUp", [a, b] => if 0 ≤ b ∧ b < 32 then some (sS (Spec.SIntShiftUp (i32 a) (i32 b))) else none
  | "SIntShiftDn", [a, b] => if 0 ≤ b ∧ b < 32 then some (sS (Spec.SIntShiftDn (i32 a) (i32 b))) else none
  | "SIntBit", [a, b] => if 0 ≤ b ∧ b < 32 then some (sB (Spec.SIntBit (i32 a) (i32 b))) else none
  | "SIntNot", [a] => some (sS (Spec.SIntNot (i32 a)))
  | "SIntAnd", [a, b] => some (sS (Spec.SIntAnd (i32 a) (i32 b)))
  | "SIntOr", [a, b] => some (sS (Spec.SIntOr (i32 a) (i32 b)))
  | "SIntXOr", [a, b] => some (sS (Spec.SIntXOr (i32 a) (i32 b)))
  | "Byte0", [] => some (sU Spec.Byte0)
  | "Byte1", [] => some (sU Spec.Byte1)
  | "ByteMin", [] => some (sU Spec.ByteMin)
  | "ByteMax", [] => some (sU Spec.ByteMax)
  | "HInt0", [] => some (sS Spec.HInt0)
  | "HInt1", [] => some (sS Spec.HInt1)
  | "HIntMin", [] => some (sS Spec.HIntMin)
  | "HIntMax", [] => some (sS Spec.HIntMax)
  | "ByteToSInt", [a] => some (sS (Spec.ByteToSInt (i8 a) : BitVec 32))
  | "SIntToByte", [a] => some (sU (Spec.SIntToByte (i32 a)))
  | "HIntToSInt", [a] => some (sS (Spec.HIntToSInt (i16 a) : BitVec 32))
  | "SIntToHInt", [a] => some (sS (Spec.SIntToHInt (i32 a)))
  | _, _ => none

def kindOf (name : String) : String :=
  match JMap.table.find? (fun r => r.name == name) with
  | some r => r.method
  | none => if name.startsWith "@" then "foamj-method" else "?"

def showLit : JMap.BIntLit → String
  | .zero => "ZERO"
  | .one => "ONE"
  | .valueOf p => "valueOf:" ++ toString p
  | .string d => "string:" ++ toString d

/-- one request line → `result<TAB>tags`; `bintlit <v>` asks for the form `gj0BInt` emits for `v` -/
def line (toks : List String) : String :=
  match toks with
  | ["bintlit", v] =>
    match v.toInt? with
    | some x => showLit (JMap.bintLit x) ++ "\tkind=gj0BInt"
    | none => "bad-op"
  | name :: rest =>
    match rest.mapM String.toInt? with
    | some args =>
      let j := (JMap.eval name args).getD "untranslated"
      let s := (spec32 name args).getD "-"
      j ++ "\tspec=" ++ s ++ " kind=" ++ kindOf name
    | none => "bad-op"
  | [] => "bad-op"

end AldorVerif.Driver.JMap
