import AldorVerif.Model.Linear
/-! line protocol for the `linear` module (driver side; not part of the model)

* `T`                → `tag:opener:closer:follower …` for every tag of `enum tokenTag`
* `L <loop> tok …`   → tok = `tag.line.col.id`; answers `tag.line.col.id … | err=<n>` TAB branch tags

The branch tags come from an instrumented copy of the 2-D rule functions below; the copy's tree is
compared with the model's (`TRACE-MISMATCH` if they differ), so the tags describe the path the
model took. -/
namespace AldorVerif.Driver.Linear
open AldorVerif.Linear

def b01 (b : Bool) : String := if b then "1" else "0"

def table : String :=
  " ".intercalate ((List.range (tkLimit - tkStart)).map fun i =>
    let k := i + tkStart
    s!"{k}:{b01 (isOpener k)}:{b01 (isCloser k)}:{b01 (isFollower k)}")

def parseTok (s : String) : Option Tok :=
  match s.splitOn "." with
  | [a, b, c, d] => do
    let tag ← a.toNat?
    let line ← b.toNat?
    let col ← c.toNat?
    if tag < tkStart || tag ≥ tkLimit then none
    else pure { tag := tag, text := d, line := line, col := col }
  | _ => none

def showTok (t : Tok) : String :=
  s!"{t.tag}.{t.line}.{t.col}.{if t.text.isEmpty then "0" else t.text}"

/-! instrumented copy of the 2-D rules -/

abbrev Log := List String

partial def joinLoopT : LNode → Bool → LNode → List LNode → Log → LNode × Bool × Log
  | lnt, had, _, [], lg => (lnt, had, lg)
  | lnt, had, t0, t1 :: rest, lg =>
    let lg := s!"bs{backSetRule t0 t1}" :: lg
    if isBackSetRequired t0 t1 then joinLoopT (lntSeparate lnt kwBackSet t1) true t1 rest lg
    else joinLoopT (lntConcat (some lnt) t1) had t1 rest lg

def joinUpT (context : Option LNode) (tll : List LNode) (lg : Log) : LNode × Log :=
  match tll with
  | [] => (.nodes Has.none mootIndentation [], "join-empty" :: lg)
  | first :: rest =>
    let (lnt, had, lg) := joinLoopT first false first rest lg
    if had then (lntWrap kwSetTab lnt kwBackTab, "wrapB" :: lg)
    else if isPileRequired context then (lntWrap kwSetTab lnt kwBackTab, "wrapK" :: lg)
    else (lnt, (if context.isSome then "join1" else "join0") :: lg)

mutual
partial def pile0T (context : Option LNode) (lst : List LNode) (lg : Log) : LNode × List LNode × Log :=
  match lst with
  | [] => (.nodes Has.none mootIndentation [], [], "emptypile" :: lg)
  | first :: _ =>
    let (sofar, rest, lg) := pile0LoopT first.indent [] lst lg
    let (j, lg) := joinUpT context sofar.reverse lg
    (lntConcat context j, rest, lg)
partial def pile0LoopT (indentS : Int) (sofar : List LNode) (lst : List LNode) (lg : Log) :
    List LNode × List LNode × Log :=
  match lst with
  | [] => (sofar, [], lg)
  | lnt0 :: rest =>
    if lnt0.isBlank then pile0LoopT indentS (lnt0 :: sofar) rest ("blank" :: lg)
    else if lnt0.indent == mootIndentation then pile0LoopT indentS (lnt0 :: sofar) rest ("moot" :: lg)
    else if lnt0.indent < indentS then (sofar, lst, "out" :: lg)
    else if lnt0.indent == indentS then pile0LoopT indentS (lnt0 :: sofar) rest ("same" :: lg)
    else
      match sofar with
      | [] => (sofar, [], "setcar-null" :: lg)
      | s :: ss =>
        let (r, rest', lg) := pile0T (some s) lst ("deeper" :: lg)
        pile0LoopT indentS (r :: ss) rest' lg
end

partial def pileOutdentsT (rnt : LNode) (lst : List LNode) (lg : Log) : LNode × Log :=
  match lst with
  | [] => (rnt, lg)
  | _ :: _ =>
    let (rnt', rest, lg) := pile0T (some rnt) lst ("outdent" :: lg)
    pileOutdentsT rnt' rest lg

def rulesPileT (cs : List LNode) (lg : Log) : LNode × Log :=
  let mid := pileMid cs
  let lg := (if (cs.getLast?.bind LNode.tok1?).any (fun t => t.line == 0 && t.col == 0) then "endpile+" else "endpile") :: lg
  let (rnt, rest, lg) := pile0T none mid ("pile" :: lg)
  pileOutdentsT rnt rest lg

mutual
partial def rulesT (n : LNode) (lg : Log) : LNode × Log :=
  match n with
  | .tok1 t => (.tok1 t, lg)
  | .ntok h i ts => (.ntok h i ts, lg)
  | .nodes h i cs => let (cs, lg) := rulesLT cs lg; (.nodes h i cs, lg)
  | .pile _ _ cs => let (cs, lg) := rulesLT cs lg; rulesPileT cs lg
partial def rulesLT (cs : List LNode) (lg : Log) : List LNode × Log :=
  match cs with
  | [] => ([], lg)
  | c :: cs => let (c, lg) := rulesT c lg; let (cs, lg) := rulesLT cs lg; (c :: cs, lg)
end

/-- structural equality of trees, including `has` and `indent` -/
partial def beqNode : LNode → LNode → Bool
  | .tok1 a, .tok1 b => a == b
  | .ntok h i ts, .ntok h' i' ts' => h == h' && i == i' && ts == ts'
  | .nodes h i cs, .nodes h' i' cs' => h == h' && i == i' && beqL cs cs'
  | .pile h i cs, .pile h' i' cs' => h == h' && i == i' && beqL cs cs'
  | _, _ => false
where beqL : List LNode → List LNode → Bool
  | [], [] => true
  | a :: as, b :: bs => beqNode a b && beqL as bs
  | _, _ => false

partial def hasFuelTok : LNode → Bool
  | .tok1 t => t.tag == 0
  | .ntok _ _ ts => ts.any (·.tag == 0)
  | .nodes _ _ cs => cs.any hasFuelTok
  | .pile _ _ cs => cs.any hasFuelTok

/-- labels `@ id` at the start of a line inside the tree builder cannot be seen from the tree;
count the `@` tokens instead -/
def countTag (k : Tag) (tl : List Tok) : Nat := (tl.filter (·.tag == k)).length

def hist (lg : Log) : String :=
  let keys := ["pile", "endpile", "endpile+", "emptypile", "same", "deeper", "out", "outdent", "blank",
               "moot", "bs0", "bs1", "bs2", "bs3", "bs5", "wrapB", "wrapK", "join0", "join1",
               "join-empty", "setcar-null"]
  " ".intercalate (keys.filterMap fun k =>
    let n := (lg.filter (· == k)).length
    if n == 0 then none else some s!"{k}={n}")

def line (toks : List String) : String :=
  match toks with
  | ["T"] => table
  | "L" :: lp :: r =>
    match r.mapM parseTok with
    | none => "bad-op"
    | some tl =>
      let loopMode := lp == "1"
      let out := linearizeMode loopMode tl
      let err := linearizeErrors loopMode tl
      -- tags
      let pre := prepare loopMode tl
      let tree := frTokenList pre
      let model := rules tree
      let (traced, lg) := rulesT tree []
      let flat := xTokens kwNewLine (toTokenList model)
      let ins := iSepAfterDontPiles flat
      let lead := xSepLeading ins
      let fin := xSepGo lead
      let extra : List String :=
        (if beqNode traced model then [] else ["TRACE-MISMATCH"]) ++
        (if hasFuelTok tree || hasFuelTok model then ["FUEL"] else []) ++
        (if loopMode then ["loop=1"] else []) ++
        (if tl.length != (xTokens tkComment tl).length then ["comments=1"] else []) ++
        (if (xTokens tkComment tl).length != (xBlankLines (xTokens tkComment tl)).length then ["blanklines=1"] else []) ++
        (if countTag kwAt pre != 0 then ["at=1"] else []) ++
        (if err != 0 then ["unbalanced=1"] else []) ++
        (if ins.length != flat.length then [s!"semi+={ins.length - flat.length}"] else []) ++
        (if lead.length != ins.length then [s!"semiL={ins.length - lead.length}"] else []) ++
        (if fin.length != lead.length then [s!"semi-={lead.length - fin.length}"] else [])
      " ".intercalate (out.map showTok) ++ (if out.isEmpty then "" else " ") ++ s!"| err={err}" ++ "\t"
        ++ " ".intercalate (extra ++ [hist lg])
  | _ => "bad-op"

end AldorVerif.Driver.Linear
