import AldorVerif.Model.Table
/-! line protocol for the `table` module (driver side; not part of the model).

One history per line: `H <m> op op …` with hash function `k mod m`, starting from `tblNew`.
ops: `s:k:e` tblSetElt, `g:k` tblElt (default 4294967295), `d:k` tblDrop, `z` tblSize,
`i` iteration order, `b` bucket layout, `m` tblNMap (e ↦ 2e+1), `r` tblRemoveIf (e mod 3 = 0),
`c` tblCopy (continue with the copy).  Answer: the results joined by `;`. -/
namespace AldorVerif.Driver.Table
open AldorVerif.Table

def dflt : Nat := 4294967295

def showSlot (s : Slot) : String := toString s.key ++ "=" ++ toString s.elt
def showChain (c : List Slot) : String := ",".intercalate (c.map showSlot)

def showBuckets (t : Table) : String :=
  let parts := (t.buckv.toList.zipIdx).filterMap (fun (c, i) =>
    if c.isEmpty then none else some (toString i ++ ":" ++ showChain c))
  toString t.buckc ++ "|" ++ "|".intercalate parts

/-- where in its chain the search for `k` ends (branch tag) -/
def searchTag (hf : Nat → Nat) (t : Table) (k : Nat) : String :=
  let h := hf k
  let c := t.chain (h % t.buckc)
  match c.findIdx? (fun b => b.hash = h ∧ b.key = k) with
  | none => if c.isEmpty then "miss-empty" else "miss-chain"
  | some 0 => if c.length = 1 then "hit-single" else "hit-head"
  | some i => if i + 1 = c.length then "hit-tail" else "hit-mid"

structure St where
  t : Table
  out : Array String
  tags : Array String

def mapf (e : Nat) : Nat := 2 * e + 1
def testf (e : Nat) : Bool := e % 3 == 0

def step (hf : Nat → Nat) (s : St) (tok : String) : St :=
  let ⟨t, out, tags⟩ := s
  match tok.splitOn ":" with
  | ["s", k, e] =>
    match k.toNat?, e.toNat? with
    | some k, some e =>
      let tg := "set-" ++ searchTag hf t k
      let oldc := t.buckc
      let t' := tblSetElt hf t k e
      let tags := if t'.buckc ≠ oldc then (tags.push tg).push ("enlarge-" ++ toString t'.buckc) else tags.push tg
      { t := t', out := out.push (toString e), tags := tags }
    | _, _ => { t, tags, out := out.push "bad-op" }
  | ["g", k] =>
    match k.toNat? with
    | some k =>
      let tg := "get-" ++ searchTag hf t k
      let (t', r) := tblElt hf t k dflt
      { t := t', out := out.push (toString r), tags := tags.push tg }
    | none => { t, tags, out := out.push "bad-op" }
  | ["d", k] =>
    match k.toNat? with
    | some k =>
      let tg := "drop-" ++ searchTag hf t k
      let t' := tblDrop hf t k
      { t := t', out := out.push (toString (tblSize t')), tags := tags.push tg }
    | none => { t, tags, out := out.push "bad-op" }
  | ["z"] => { t, tags, out := out.push (toString (tblSize t)) }
  | ["i"] => { t, tags, out := out.push (showChain (tblIter t)) }
  | ["b"] => { t, tags, out := out.push (showBuckets t) }
  | ["m"] => { t := tblNMap mapf t, tags, out := out.push "m" }
  | ["r"] => { t := tblRemoveIf testf t, tags, out := out.push "r" }
  | ["c"] => { t := tblCopy t, tags, out := out.push "c" }
  | _ => { t, tags, out := out.push "bad-op" }

def bump (acc : List (String × Nat)) (t : String) : List (String × Nat) :=
  match acc with
  | [] => [(t, 1)]
  | (u, n) :: rest => if u = t then (u, n + 1) :: rest else (u, n) :: bump rest t

def histogram (tags : Array String) : String :=
  let groups := (tags.foldl bump []).toArray.qsort (fun a b => a.1 < b.1)
  " ".intercalate (groups.toList.map (fun (u, n) => u ++ "=" ++ toString n))

def line (toks : List String) : String :=
  match toks with
  | "H" :: m :: ops =>
    match m.toNat? with
    | some m =>
      if m = 0 then "bad-op" else
      let hf := fun k => k % m
      let s := ops.foldl (step hf) { t := tblNew, out := #[], tags := #[] }
      ";".intercalate s.out.toList ++ "\t" ++ histogram s.tags
    | none => "bad-op"
  | _ => "bad-op"

end AldorVerif.Driver.Table
