import AldorVerif.Gen.JMap
/-! line protocol for the `jprint` module (driver side; not part of the model)

request  a tree in Polish notation over the operation names of `Gen.JMap.binOps`, leaves = names / numbers
answer   the tokens `JPrint.print` writes, blank-separated, `<TAB>` tags (`n/a` for trees with unary operators) -/
namespace AldorVerif.Driver.JPrint
open AldorVerif AldorVerif.JPrint AldorVerif.Gen

partial def parse : List String → Option (Tree × List String)
  | [] => none
  | t :: r =>
    match JMap.binOps.find? (fun o => o.name == t) with
    | some o => do
      let (a, r) ← parse r
      let (b, r) ← parse r
      pure (.bin o a b, r)
    | none => if t == "Not" || t == "Negate" then none else some (.leaf t, r)

def depth : Tree → Nat
  | .leaf _ => 0
  | .bin _ l r => max (depth l) (depth r) + 1

def line (toks : List String) : String :=
  match parse toks with
  | some (t, []) =>
    let ts := print t
    " ".intercalate (ts.map showTok) ++ "\tparens=" ++ toString (ts.filter (· == Tok.lp)).length
      ++ " depth=" ++ toString (depth t)
  | _ => "n/a\tunary"

end AldorVerif.Driver.JPrint
