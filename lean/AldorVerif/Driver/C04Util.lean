import AldorVerif.Model.CSem
/-! token parsing / result printing for the c04 driver (driver side; not part of any model).
Integers travel as unsigned decimals of the bit pattern, floats as the decimal of their IEEE bit
pattern ("nan" for every NaN), big integers as signed decimals. -/
namespace AldorVerif.Driver.C04Util
open AldorVerif.CSem

def pBool (s : String) : Option Bool :=
  if s == "1" then some true else if s == "0" then some false else none
def pBV (n : Nat) (s : String) : Option (BitVec n) := (s.toInt?).map (BitVec.ofInt n)
def pF32 (s : String) : Option Float32 := (s.toNat?).map (fun n => Float32.ofBits (UInt32.ofNat n))
def pF64 (s : String) : Option Float := (s.toNat?).map (fun n => Float.ofBits (UInt64.ofNat n))
def pInt (s : String) : Option Int := s.toInt?
def pStr (s : String) : Option String := some (if s == "\"\"" then "" else s)
def pPtr (s : String) : Option UInt64 := (s.toNat?).map UInt64.ofNat

def sBool (b : Bool) : String := if b then "1" else "0"
def sBV {n : Nat} (a : BitVec n) : String := toString a.toNat
def sF32 (x : Float32) : String := if x.isNaN then "nan" else toString x.toBits.toNat
def sF64 (x : Float) : String := if x.isNaN then "nan" else toString x.toBits.toNat
def sInt (a : Int) : String := toString a
def sStr (s : String) : String := s
def sPtr (p : UInt64) : String := toString p.toNat

def sRes {α : Type} (f : α → String) : CRes α → String
  | .val a => "v:" ++ f a
  | .undef => "undef"
  | .trap => "trap"
/-- Bool result: truth value and the raw C value -/
def sRaw : CRes (BitVec 64) → String
  | .val a => "v:" ++ (if a != 0#64 then "1" else "0") ++ ":" ++ toString a.toNat
  | .undef => "undef"
  | .trap => "trap"
def sOpt {α : Type} (f : α → String) : Option α → String
  | some a => "v:" ++ f a
  | none => "none"
def join (xs : List (String × String)) : String :=
  " ".intercalate (xs.map fun (k, v) => k ++ "=" ++ v)

end AldorVerif.Driver.C04Util
