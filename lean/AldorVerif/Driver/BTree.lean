import AldorVerif.Model.BTree
/-! line protocol for the `btree` module (driver side; not part of the model).

`H t=<t> ; op ; op ; …` — one history per line, answers joined by `;`:
`ins k e` → `+`, `del k` → `-e` / `absent` (guarded by `btreeSearchEQ` as in store.c; deleting an
absent key is undefined in C), `eq k`/`ge k`/`min`/`max` → `k:e` / `none`, `check` → the
`btreeCheck` code, `dump` → the whole tree (`[k:e …]` leaf, `(sub k:e sub … sub)` interior),
`nodes` → number of nodes, `size` → number of pairs, `rekey k k2` → `ok` / `absent` (overwrites the
key of the slot `btreeSearchEQ k` finds, as store.c does to reuse an entry; the tree may then be
out of order and `check` exercises the failure codes of `btreeCheck0`).
Second column: branch tags `name=count` of the paths taken by the model. -/
namespace AldorVerif.Driver.BTree
open AldorVerif.BTree

def showKV (kv : KV) : String := toString kv.1 ++ ":" ++ toString kv.2

def inter : List String → List String → String
  | c :: cs, k :: ks => c ++ " " ++ k ++ " " ++ inter cs ks
  | c :: _, [] => c
  | [], _ => ""

partial def dump : Node → String
  | .leaf kvs => "[" ++ " ".intercalate (kvs.map showKV) ++ "]"
  | .node kvs kids => "(" ++ inter (kids.map dump) (kvs.map showKV) ++ ")"

partial def nodes : Node → Nat
  | .leaf _ => 1
  | .node _ kids => kids.foldl (fun a c => a + nodes c) 1

partial def size : Node → Nat
  | .leaf kvs => kvs.length
  | .node kvs kids => kids.foldl (fun a c => a + size c) kvs.length

/-- overwrite the key in the slot that `searchEQ` finds -/
partial def rekey (x : Node) (k k2 : Key) : Node :=
  let i := scanL x.kvs k
  if hitAt x.kvs i k then x.like (setAt x.kvs i (k2, (kvAt x.kvs i).2)) x.kids
  else match x with
    | .leaf _ => x
    | .node kvs kids => .node kvs (setAt kids i (rekey (kid kids i) k k2))

def showOpt : Option KV → String
  | some kv => showKV kv
  | none => "none"

/-- branch tags of the insertion path (same decisions as `insertNonFull`, built from the
    model's own steps) -/
partial def insTags (t : Nat) (x : Node) (k : Key) (acc : Array String) : Array String :=
  match x with
  | .leaf kvs =>
    let i := scanR kvs k
    acc.push (if kvs.isEmpty then "ins-leaf-empty" else if i = kvs.length then "ins-leaf-append"
              else if i = 0 then "ins-leaf-front" else "ins-leaf-mid")
  | .node kvs kids =>
    let i := scanR kvs k
    if (kid kids i).nKeys = 2 * t - 1 then
      let x' := splitChild t (.node kvs kids) i
      let m := (kvAt x'.kvs i).1
      let i' := if m < k then i + 1 else i
      let acc := acc.push (if (kid kids i).isLeaf then "split-leaf" else "split-interior")
      let acc := acc.push (if m < k then "split-go-right" else if m = k then "split-go-left-eq" else "split-go-left")
      insTags t (kid x'.kids i') k acc
    else insTags t (kid kids i) k (acc.push "ins-descend")

/-- branch tags of the deletion path (same decisions as `delete0`) -/
partial def delTags (t : Nat) (f : Nat) (x : Node) (k : Key) (acc : Array String) : Array String :=
  match f, x with
  | _, .leaf kvs =>
    acc.push (if hitAt kvs (scanL kvs k) k then "del-leaf" else "del-leaf-absent")
  | 0, .node _ _ => acc.push "del-nofuel"
  | f + 1, .node kvs kids =>
    let i := scanL kvs k
    if hitAt kvs i k then
      if t - 1 < (kid kids i).nKeys then
        let ok := ((searchMax f (kid kids i)).getD (0, 0)).1
        delTags t f (kid kids i) ok (acc.push "del-pred")
      else if t - 1 < (kid kids (i + 1)).nKeys then
        let ok := ((searchMin f (kid kids (i + 1))).getD (0, 0)).1
        delTags t f (kid kids (i + 1)) ok (acc.push "del-succ")
      else
        let x' := unsplitChild (.node kvs kids) i
        delTags t f (kid x'.kids i) k (acc.push "del-merge-hit")
    else
      let x : Node := .node kvs kids
      let acc :=
        if (kid kids i).nKeys = t - 1 then
          if i < kvs.length ∧ t - 1 < (kid kids (i + 1)).nKeys then
            acc.push (if (kid kids i).isLeaf then "rotate-left-leaf" else "rotate-left-interior")
          else if 0 < i ∧ t - 1 < (kid kids (i - 1)).nKeys then
            acc.push (if (kid kids i).isLeaf then "rotate-right-leaf" else "rotate-right-interior")
          else
            let acc := acc.push (if i = kvs.length then "merge-last" else "merge")
            acc.push (if (kid kids i).isLeaf then "merge-leaf" else "merge-interior")
        else acc.push "del-descend"
      let p := fixChild t x i
      delTags t f (kid p.1.kids p.2) k acc

structure St where
  b : BTree
  tags : Array String := #[]
  out : Array String := #[]

def stepOp (s : St) (op : List String) : Option St :=
  let b := s.b
  match op with
  | ["ins", ks, es] => do
    let k ← ks.toNat?; let e ← es.toNat?
    let tg := s.tags
    let tg := if (b.searchEQ k).isSome then tg.push "ins-dup" else tg
    let tg := if b.root.nKeys = 2 * b.t - 1 then tg.push "root-split" else tg
    let b' := b.insert k e
    let tg := insTags b.t (if b.root.nKeys = 2 * b.t - 1 then splitChild b.t (.node [] [b.root]) 0 else b.root) k tg
    pure { b := b', tags := tg, out := s.out.push "+" }
  | ["del", ks] => do
    let k ← ks.toNat?
    match b.searchEQ k with
    | none => pure { s with out := s.out.push "absent", tags := s.tags.push "del-absent" }
    | some _ =>
      let r := b.delete k
      let tg := delTags b.t b.h b.root k s.tags
      let tg := if r.1.h < b.h then tg.push "root-collapse" else tg
      pure { b := r.1, tags := tg, out := s.out.push (match r.2 with | some e => "-" ++ toString e | none => "-?") }
  | ["delq", ks] => do
    let k ← ks.toNat?
    match b.searchEQ k with
    | none => pure { s with out := s.out.push "absent", tags := s.tags.push "del-absent" }
    | some _ =>
      let r := b.delete k
      let tg := delTags b.t b.h b.root k s.tags
      let tg := if r.1.h < b.h then tg.push "root-collapse" else tg
      pure { b := r.1, tags := tg, out := s.out.push "-" }
  | ["rekey", ks, k2s] => do
    let k ← ks.toNat?; let k2 ← k2s.toNat?
    match b.searchEQ k with
    | none => pure { s with out := s.out.push "absent" }
    | some _ => pure { s with b := { b with root := rekey b.root k k2 }, out := s.out.push "ok",
                              tags := s.tags.push "rekey" }
  | ["eq", ks] => do
    let k ← ks.toNat?
    let r := b.searchEQ k
    pure { s with out := s.out.push (showOpt r), tags := s.tags.push (if r.isSome then "eq-hit" else "eq-miss") }
  | ["ge", ks] => do
    let k ← ks.toNat?
    let r := b.searchGE k
    pure { s with out := s.out.push (showOpt r),
                  tags := s.tags.push (match r with | some kv => if kv.1 = k then "ge-exact" else "ge-above" | none => "ge-none") }
  | ["min"] => pure { s with out := s.out.push (showOpt b.searchMin) }
  | ["max"] => pure { s with out := s.out.push (showOpt b.searchMax) }
  | ["check"] => pure { s with out := s.out.push (toString b.check),
                               tags := s.tags.push ("check:" ++ toString b.check) }
  | ["dump"] => pure { s with out := s.out.push (dump b.root) }
  | ["nodes"] => pure { s with out := s.out.push (toString (nodes b.root)) }
  | ["size"] => pure { s with out := s.out.push (toString (size b.root)) }
  | ["height"] => pure { s with out := s.out.push (toString b.h) }
  | _ => none

/-- split the token list at `;` -/
def splitOps (toks : List String) : List (List String) :=
  let r := toks.foldr (fun tk (acc : List String × List (List String)) =>
    if tk = ";" then ([], acc.1 :: acc.2) else (tk :: acc.1, acc.2)) ([], [])
  r.1 :: r.2

def bump (tg : String) : List (String × Nat) → List (String × Nat)
  | [] => [(tg, 1)]
  | (g, n) :: rest => if g = tg then (g, n + 1) :: rest else (g, n) :: bump tg rest

/-- `name=count` for the few distinct tags (no sorting of the long tag array) -/
def countTags (tags : Array String) : String :=
  let groups := tags.foldl (fun acc tg => bump tg acc) []
  let sorted := groups.toArray.qsort (fun a b => a.1 < b.1)
  " ".intercalate (sorted.toList.map (fun (g, n) => g ++ "=" ++ toString n))

/-- one request line → `result<TAB>tags` -/
def line (toks : List String) : String :=
  match splitOps toks with
  | ["H", ts] :: ops =>
    match (if ts.startsWith "t=" then (ts.drop 2).toNat? else none) with
    | some t =>
      if t < 2 then "bad-op" else
      let rec go (s : St) : List (List String) → Option St
        | [] => some s
        | op :: rest => match stepOp s op with
          | some s' => go s' rest
          | none => none
      match go { b := BTree.new t } ops with
      | some s => ";".intercalate s.out.toList ++ "\t" ++ countTags s.tags
      | none => "bad-op"
    | none => "bad-op"
  | _ => "bad-op"

end AldorVerif.Driver.BTree
