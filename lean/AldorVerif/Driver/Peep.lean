import AldorVerif.Model.Peep
/-! line protocol for the `peep` module (driver side; not part of the model); the syntax is
that of harness/optdrv.c -/
namespace AldorVerif.Driver.Peep
open AldorVerif.Peep

def tyOf : String → Option Ty
  | "B" => some .bool | "C" => some .char | "S" => some .sint | "W" => some .word | _ => none
def tyName : Ty → String
  | .bool => "B" | .char => "C" | .sint => "S" | .word => "W"

def op0Of : String → Option Op0
  | "BoolFalse" => some .boolFalse | "BoolTrue" => some .boolTrue | _ => none
def op1Of : String → Option Op1
  | "BoolNot" => some .boolNot | "SIntNegate" => some .sintNegate | "SIntNext" => some .sintNext
  | "SIntPrev" => some .sintPrev | "SIntIsZero" => some .sintIsZero | "SIntIsPos" => some .sintIsPos
  | "SIntIsNeg" => some .sintIsNeg | "SIntNot" => some .sintNot | _ => none
def op2Of : String → Option Op2
  | "BoolAnd" => some .boolAnd | "BoolOr" => some .boolOr | "BoolEQ" => some .boolEQ | "BoolNE" => some .boolNE
  | "SIntPlus" => some .sintPlus | "SIntMinus" => some .sintMinus | "SIntTimes" => some .sintTimes
  | "SIntGcd" => some .sintGcd | "SIntEQ" => some .sintEQ | "SIntNE" => some .sintNE | "SIntLT" => some .sintLT
  | "SIntLE" => some .sintLE | "SIntShiftUp" => some .sintShiftUp | "SIntAnd" => some .sintAnd | _ => none
def op0Name : Op0 → String
  | .boolFalse => "BoolFalse" | .boolTrue => "BoolTrue"
def op1Name : Op1 → String
  | .boolNot => "BoolNot" | .sintNegate => "SIntNegate" | .sintNext => "SIntNext" | .sintPrev => "SIntPrev"
  | .sintIsZero => "SIntIsZero" | .sintIsPos => "SIntIsPos" | .sintIsNeg => "SIntIsNeg" | .sintNot => "SIntNot"
def op2Name : Op2 → String
  | .boolAnd => "BoolAnd" | .boolOr => "BoolOr" | .boolEQ => "BoolEQ" | .boolNE => "BoolNE"
  | .sintPlus => "SIntPlus" | .sintMinus => "SIntMinus" | .sintTimes => "SIntTimes" | .sintGcd => "SIntGcd"
  | .sintEQ => "SIntEQ" | .sintNE => "SIntNE" | .sintLT => "SIntLT" | .sintLE => "SIntLE"
  | .sintShiftUp => "SIntShiftUp" | .sintAnd => "SIntAnd"

partial def parse : List String → Option (Expr × List String)
  | "T" :: r => some (.bool true, r)
  | "F" :: r => some (.bool false, r)
  | "call" :: k :: t :: r => do
    let k ← k.toNat?; let t ← tyOf t; let (a, r) ← parse r; pure (.call k t a, r)
  | "cast" :: t :: r => do
    let t ← tyOf t; let (a, r) ← parse r; pure (.cast t a, r)
  | tok :: r =>
    if tok.startsWith "#" then do
      let v ← (tok.drop 1).toString.toInt?
      pure (.sint (BitVec.ofInt 64 v), r)
    else if tok.startsWith "v" then do
      let i ← (tok.drop 1).toString.toNat?
      pure (.loc i, r)
    else match op0Of tok, op1Of tok, op2Of tok with
      | some o, _, _ => some (.b0 o, r)
      | _, some o, _ => do let (a, r) ← parse r; pure (.b1 o a, r)
      | _, _, some o => do let (a, r) ← parse r; let (b, r) ← parse r; pure (.b2 o a b, r)
      | _, _, _ => none
  | [] => none

partial def showE : Expr → String
  | .bool true => "T"
  | .bool false => "F"
  | .sint v => "#" ++ toString v.toInt
  | .loc i => "v" ++ toString i
  | .call k t a => "call " ++ toString k ++ " " ++ tyName t ++ " " ++ showE a
  | .b0 o => op0Name o
  | .b1 o a => op1Name o ++ " " ++ showE a
  | .b2 o a b => op2Name o ++ " " ++ showE a ++ " " ++ showE b
  | .cast t e => "cast " ++ tyName t ++ " " ++ showE e

def showS : Stmt → String
  | .ret e => "ret " ++ showE e
  | .ifgoto c l => "if " ++ showE c ++ " " ++ toString l
  | .select e ls => "sel " ++ showE e ++ String.join (ls.map fun l => " " ++ toString l)
  | .goto l => "goto " ++ toString l
  | .nop => "nop"
  | .oobRead => "OOB-READ"

def parseS : List String → Option Stmt
  | "ret" :: r => match parse r with
    | some (e, []) => some (.ret e)
    | _ => none
  | "if" :: r => match parse r with
    | some (e, [l]) => l.toNat?.map (Stmt.ifgoto e)
    | _ => none
  | "sel" :: r => match parse r with
    | some (e, ls) => (ls.mapM String.toNat?).map (Stmt.select e)
    | _ => none
  | _ => none

/-- which rule fires at the root of a node whose operands are done -/
def ruleTag (_oob : Oob) (fast : Bool) (e : Expr) : String :=
  match e with
  | .b0 _ => "b0"
  | .b1 .boolNot a =>
    match a with
    | .b1 .boolNot _ => "notnot"
    | _ => if (negate fast a).isSome then "not-dual" else "?"
  | .b1 _ _ => "inverse"
  | .b2 .boolAnd l r => if (andOr true l r).isSome then "and" else "?"
  | .b2 .boolOr l r => if (andOr false l r).isSome then "or" else "?"
  | .b2 op l r =>
    match info2 op with
    | none => "?"
    | some (t, p) =>
      if (p = .plus ∨ p = .minus) ∧ (additive fast t (p = .plus) l r).isSome then
        (if p = .plus ∧ (positive fast l).isSome then "add-swap" else "add")
      else if p = .times ∧ (timesOp t l r).isSome then "shift"
      else "tab:" ++ (reprStr (chooseOp t p l r).1).replace " " "" |>.replace "AldorVerif.Peep." ""
  | .cast t x => match castRule t x with
    | some (.cast _ _) => "cast-chain"
    | some _ => "cast-drop"
    | none => "?"
  | _ => "?"

/-- `peepAux` again, recording the rules that fire (must give the result of the model) -/
partial def peepTr (oob : Oob) (fast : Bool) : Nat → Expr → Expr × List String
  | 0, e => (e, ["fuel0"])
  | n + 1, e =>
    let (e1, t1) := match e with
      | .call k t a => let (a', ts) := peepTr oob fast n a; (Expr.call k t a', ts)
      | .b1 op a => let (a', ts) := peepTr oob fast n a; (Expr.b1 op a', ts)
      | .b2 op a b => let (a', ts) := peepTr oob fast n a; let (b', us) := peepTr oob fast n b; (Expr.b2 op a' b', ts ++ us)
      | .cast t x => let (x', ts) := peepTr oob fast n x; (Expr.cast t x', ts)
      | x => (x, [])
    match rule oob fast e1 with
    | some r => let (r', ts) := peepTr oob fast n r; (r', t1 ++ ["r=" ++ ruleTag oob fast e1] ++ ts)
    | none =>
      let refused : Bool := match e1 with
        | .b2 op l r => (match info2 op with
          | some (t, p) => (chooseOp t p l r).1 != .none
          | none => false)
        | _ => false
      (e1, if refused then t1 ++ ["refused"] else t1)

/-- one request line → `result<TAB>tags` -/
def line (toks : List String) : String :=
  match toks with
  | f :: m :: rest =>
    match f.toNat?, m.toNat?, parseS rest with
    | some f, some m, some s =>
      let fast := f != 0
      let oob : Oob := ⟨m % 2 = 1, (m / 2) % 2 = 1, (m / 4) % 2 = 1⟩
      let e := match s with
        | .ret e => e | .ifgoto e _ => e | .select e _ => e | _ => .bool true
      let fuel := 6 * e.size + 40
      let r := peepStmt oob fast fuel s
      let re := match r with
        | .ret e => e | .ifgoto e _ => e | .select e _ => e | _ => .bool true
      let done := normal oob fast re
      let tags := (if done then ["fix"] else ["NOFIX"]) ++
                  (if sideFx e then ["impure"] else ["pure"]) ++
                  (if (typeOf e).isSome then ["wt"] else ["illtyped"]) ++
                  (if r = s then ["same"] else ["changed"]) ++
                  (match r with | .goto _ => ["s=goto"] | .nop => ["s=nop"] | .oobRead => ["s=oob"] | _ => []) ++
                  (if (peepTr oob fast fuel e).1 = peepAux oob fast fuel e then [] else ["TRACE-MISMATCH"]) ++
                  (peepTr oob fast fuel e).2.eraseDups
      (if done then showS r else "DIVERGES") ++ "\t" ++ " ".intercalate tags
    | _, _, _ => "bad-op"
  | _ => "bad-op"

end AldorVerif.Driver.Peep
