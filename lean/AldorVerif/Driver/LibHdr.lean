import AldorVerif.Model.LibHdr
/-! line protocol for the `libhdr` module (driver side; not part of the model) -/
namespace AldorVerif.Driver.LibHdr
open AldorVerif.LibHdr

def hexVal (c : Char) : Nat :=
  if '0' ≤ c ∧ c ≤ '9' then c.toNat - 48
  else if 'a' ≤ c ∧ c ≤ 'f' then c.toNat - 87
  else if 'A' ≤ c ∧ c ≤ 'F' then c.toNat - 55 else 0

partial def unhexL : List Char → List Nat
  | a :: b :: r => (hexVal a * 16 + hexVal b) :: unhexL r
  | _ => []

def unhex (s : String) : List Nat := if s = "-" then [] else unhexL s.toList

def hexDigit (n : Nat) : Char := if n < 10 then Char.ofNat (48 + n) else Char.ofNat (87 + n)
def hex2 (n : Nat) : String := String.ofList [hexDigit (n / 16 % 16), hexDigit (n % 16)]
def hexOf (l : List Nat) : String := String.join (l.map hex2)

def showVerdict : Verdict → String
  | .ok => "ok" | .badMagic => "badMagic" | .badVersion => "badVersion" | .badNumSect => "badNumSect"
  | .badSectName => "badSectName" | .dupSect => "dupSect" | .badSectHdr => "badSectHdr"

def showHdr (h : Hdr) : String :=
  "hdr " ++ toString h.magic ++ " " ++ toString h.verMajor ++ " " ++ toString h.verMinor ++ " " ++ toString h.numSect
   ++ " T" ++ String.join ((List.range hdrLimit).map fun i =>
        let s := h.sectAt i; " " ++ toString s.name ++ ":" ++ toString s.offset ++ ":" ++ toString s.length)
   ++ " I" ++ String.join ((List.range hdrLimit).map fun n => " " ++ toString (h.index n))

/-- what `drv_strAlloc` leaves in a fresh string: s[0] = 0, then the junk byte -/
def junkOf (j : Nat) (n : Nat) : List Nat := 0 :: List.replicate n (j % 256)

def showRefusal : Refusal → String
  | .shortRead => "badSectHdr"          -- the diagnostic libBadFile is given for a short header read
  | .verdict v => showVerdict v
  | .outOfBounds => "badOffset"

def showSect (file : List Nat) (h : Hdr) (name j : Nat) : String × String :=
  if hasSection h name && decide (sectLength h name > 65536) then ("toolarge", "big")
  else match getSection file h name (junkOf j (sectLength h name)) with
    | none => ("fatal badOffset", "shortsection")
    | some none => ("none", "absent")
    | some (some r) => ("want=" ++ toString r.want ++ " data=" ++ hexOf r.data, "exact")

def showClass : TruncClass → String
  | .header => "header" | .table => "table" | .section i => "section:" ++ toString i | .beyond => "beyond"

def line (toks : List String) : String :=
  match toks with
  | ["consts"] =>
    "magic=" ++ toString hdrMagic ++ " major=" ++ toString majorVersion ++ " minor=" ++ toString minorVersion
      ++ " namelimit=" ++ toString nameLimit ++ " hdrlimit=" ++ toString hdrLimit ++ " fixed=" ++ toString fixedSize
      ++ " sectsize=" ++ toString sectSize ++ " hdrsize=" ++ toString hdrSize ++ "\tconsts"
  | ["G", hx, j] =>
    let file := unhex hx
    let jn := junkOf j.toNat! hdrSize
    match getHeaderE file jn with
    | .error r => "fatal " ++ showRefusal r ++ "\trefused=" ++ showRefusal r
                    ++ (if file.length < hdrSize then " shortfile" else " fullhdr")
    | .ok h => showHdr h ++ " V " ++ showVerdict (chk h) ++ "\taccepted"
                    ++ (if endOf h = file.length then " exactfit" else " trailing")
  | ["S", hx, j, nm] =>
    let file := unhex hx
    let jn := junkOf j.toNat! hdrSize
    let name := nm.toNat!
    if name ≥ hdrLimit then "bad-op" else
    match getHeaderE file jn with
    | .error r => "fatal " ++ showRefusal r ++ "\trefused=" ++ showRefusal r
    | .ok h =>
      let (r, t) := showSect file h name j.toNat!
      r ++ "\t" ++ t
  | ["C", hx, n] =>
    -- truncation class of cutting the (intact) file at n
    let file := unhex hx
    let h := readHeader file []
    showClass (truncClass h n.toNat!) ++ "\tcls"
  | _ => "bad-op"

end AldorVerif.Driver.LibHdr

