import AldorVerif.Model.LibHdr
import AldorVerif.Model.Archive
/-! line protocol for the `libhdr` and `archive` modules (driver side; not part of the model) -/
namespace AldorVerif.Driver.LibHdr
open AldorVerif.LibHdr

def hexVal (c : Char) : Nat :=
  if '0' ≤ c ∧ c ≤ '9' then c.toNat - 48
  else if 'a' ≤ c ∧ c ≤ 'f' then c.toNat - 87
  else if 'A' ≤ c ∧ c ≤ 'F' then c.toNat - 55 else 0

partial def unhexL : List Char → List Nat
  | a :: b :: r => (hexVal a * 16 + hexVal b) :: unhexL r
  | _ => []

def unhex (s : String) : List Nat := if s = "-" then [] else unhexL s.toList

def hexDigit (n : Nat) : Char := if n < 10 then Char.ofNat (48 + n) else Char.ofNat (87 + n)
def hex2 (n : Nat) : String := String.ofList [hexDigit (n / 16 % 16), hexDigit (n % 16)]
def hexOf (l : List Nat) : String := String.join (l.map hex2)

def showVerdict : Verdict → String
  | .ok => "ok" | .badMagic => "badMagic" | .badVersion => "badVersion" | .badNumSect => "badNumSect"
  | .badSectName => "badSectName" | .bugIndex => "bugIndex" | .badSectHdr => "badSectHdr"

def showHdr (h : Hdr) : String :=
  "hdr " ++ toString h.magic ++ " " ++ toString h.verMajor ++ " " ++ toString h.verMinor ++ " " ++ toString h.numSect
   ++ " T" ++ String.join ((List.range hdrLimit).map fun i =>
        let s := h.sectAt i; " " ++ toString s.name ++ ":" ++ toString s.offset ++ ":" ++ toString s.length)
   ++ " I" ++ String.join ((List.range hdrLimit).map fun n => " " ++ toString (h.index n))

/-- what `drv_strAlloc` leaves in a fresh string: s[0] = 0, then the junk byte -/
def junkOf (j : Nat) (n : Nat) : List Nat := 0 :: List.replicate n (j % 256)

def showSect (file : List Nat) (h : Hdr) (name j : Nat) : String × String :=
  if hasSection h name && decide (sectLength h name > 65536) then ("toolarge", "big")
  else match getSection file h name (junkOf j (sectLength h name)) with
    | none => ("none", "absent")
    | some r => ("want=" ++ toString r.want ++ " data=" ++ hexOf r.data,
                 if r.got < r.want then "short" else "exact")

def showClass : TruncClass → String
  | .header => "header" | .table => "table" | .section i => "section:" ++ toString i | .beyond => "beyond"

def line (toks : List String) : String :=
  match toks with
  | ["consts"] =>
    "magic=" ++ toString hdrMagic ++ " major=" ++ toString majorVersion ++ " minor=" ++ toString minorVersion
      ++ " namelimit=" ++ toString nameLimit ++ " hdrlimit=" ++ toString hdrLimit ++ " fixed=" ++ toString fixedSize
      ++ " sectsize=" ++ toString sectSize ++ " hdrsize=" ++ toString hdrSize ++ "\tconsts"
  | ["G", hx, j] =>
    let file := unhex hx
    let jn := junkOf j.toNat! hdrSize
    let h := getHeader file jn
    let v := chk h
    let fixed := match getHeaderChecked file jn with
      | none => "fatal"
      | some h' => showHdr h' ++ " V ok"
    (if v = .badVersion then "fatal badVersion" else showHdr h ++ " V " ++ showVerdict v)
      ++ "\tv=" ++ showVerdict v ++ (if file.length < hdrSize then " shortfile" else " fullhdr")
      ++ (if v = .ok then (if endOf h ≤ file.length then " inbounds" else " OUTOFBOUNDS") else "")
      ++ "\t" ++ fixed
  | ["S", hx, j, nm] =>
    let file := unhex hx
    let jn := junkOf j.toNat! hdrSize
    let h := getHeader file jn
    let name := nm.toNat!
    if name ≥ hdrLimit then "bad-op" else
    if chk h = .badVersion then "fatal badVersion\tbadVersion\tfatal" else
    let (r, t) := showSect file h name j.toNat!
    let fixed := match getHeaderChecked file jn with
      | none => "fatal"
      | some h' => (showSect file h' name j.toNat!).1
    r ++ "\t" ++ t ++ "\t" ++ fixed
  | ["C", hx, n] =>
    -- truncation class of cutting the (intact) file at n
    let file := unhex hx
    let h := getHeader file []
    showClass (truncClass h n.toNat!) ++ "\tcls"
  | _ => "bad-op"

end AldorVerif.Driver.LibHdr

namespace AldorVerif.Driver.Archive
open AldorVerif.Archive

def showName (n : List Nat) : String :=
  if n.isEmpty then "''" else AldorVerif.Driver.LibHdr.hexOf n

def line (toks : List String) : String :=
  match toks with
  | ["consts"] =>
    "arhdr=" ++ toString memberHdrSize ++ " first=" ++ toString firstPos ++ " align=" ++ toString align
      ++ " magic=" ++ AldorVerif.Driver.LibHdr.hexOf magicArch ++ "\tconsts"
  | ["A", hx] =>
    let file := AldorVerif.Driver.LibHdr.unhex hx
    if !isArch file then "notarch\tnotarch" else
    let (ms, o, nb) := walk (file.length + 2) file firstPos
    let body := "members" ++ String.join (ms.map fun m => " " ++ showName m.name ++ "@" ++ toString m.dataPos)
                  ++ " bad=" ++ toString nb
    let tag := match o with
      | .finished => "finished" | .shortHeader => "shortHeader" | .special => "special" | .outOfFuel => "LOOP"
    body ++ "\t" ++ tag ++ " n=" ++ toString ms.length ++ (if nb > 0 then " badnum" else "")
  | _ => "bad-op"

end AldorVerif.Driver.Archive
