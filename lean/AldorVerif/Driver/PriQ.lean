import AldorVerif.Model.PriQ
/-! line protocol for the `priq` module (driver side; not part of the model).

One history per line: `Q <argcGuess> op op …` starting from `priqNew(argcGuess)`.
ops: `i:k:e` priqInsert (key `k` may be negative) → `.` · `x` priqExtractMin → `k:e` (or `empty`:
the C driver does not call the function on an empty queue) · `p` priqPeekMin → `k:e`/`empty`
`n` priqCount · `z` allocated size · `k` priqCheck → 1 (0 = the C code calls `bug` and aborts)
`m` priqMap (pre-order) · `d` the used slots in array order.  Answer: results joined by `;`. -/
namespace AldorVerif.Driver.PriQ
open AldorVerif.PriQ

def showPart (p : Part) : String := toString p.1 ++ ":" ++ toString p.2
def showParts (l : List Part) : String := ",".intercalate (l.map showPart)

structure St where
  q : PriQ
  out : Array String
  tags : Array String

def step (s : St) (tok : String) : St :=
  let ⟨q, out, tags⟩ := s
  match tok.splitOn ":" with
  | ["i", k, e] =>
    match k.toInt?, e.toNat? with
    | some k, some e =>
      let n := q.argc
      let grow := q.size = n
      let oldRoot := q.argv.getD 0 (0, 0)
      let dup := n > 0 ∧ oldRoot.1 = k
      let q' := priqInsert q k e
      let where_ := if n = 0 then "ins-first" else if q'.argv.getD 0 (0, 0) = (k, e) ∧ oldRoot ≠ (k, e) then "ins-to-root"
                    else if q'.argv.getD n (0, 0) = (k, e) then "ins-stays-leaf" else "ins-mid"
      let tags := tags.push where_
      let tags := if grow then tags.push ("grow-" ++ toString q'.size) else tags
      let tags := if dup then tags.push "ins-equals-min" else tags
      { q := q', out := out.push ".", tags := tags }
    | _, _ => { q, tags, out := out.push "bad-op" }
  | ["x"] =>
    let n := q.argc
    let last := q.argv.getD (n - 1) (0, 0)
    if n = 0 then { q, out := out.push "empty", tags := tags.push "ext-empty" } else
    match priqExtractMin q with       -- `q` must not be referenced below (keeps the array unshared)
    | some (p, q') =>
      let tg := if n = 1 then "ext-last" else if n = 2 then "ext-two"
                else if q'.argv.getD 0 (0, 0) = last then "ext-moved-stays-root" else "ext-sift"
      { q := q', out := out.push (showPart p), tags := tags.push tg }
    | none => { q := priqNew 0, out := out.push "empty", tags := tags.push "ext-empty" }
  | ["p"] =>
    match priqPeekMin q with
    | some p => { q, tags, out := out.push (showPart p) }
    | none => { q, tags, out := out.push "empty" }
  | ["n"] => { q, tags, out := out.push (toString q.argc) }
  | ["z"] => { q, tags, out := out.push (toString q.size) }
  | ["k"] =>
    let c := priqCheck q
    { q, out := out.push (if c then "1" else "0"), tags := tags.push (if c then "check-ok" else "check-bug") }
  | ["m"] => { q, tags, out := out.push (showParts (priqMap q)) }
  | ["d"] => { q, tags, out := out.push (showParts q.argv.toList) }
  | _ => { q, tags, out := out.push "bad-op" }

def bump (acc : List (String × Nat)) (t : String) : List (String × Nat) :=
  match acc with
  | [] => [(t, 1)]
  | (u, n) :: rest => if u = t then (u, n + 1) :: rest else (u, n) :: bump rest t

def histogram (tags : Array String) : String :=
  let groups := (tags.foldl bump []).toArray.qsort (fun a b => a.1 < b.1)
  " ".intercalate (groups.toList.map (fun (u, n) => u ++ "=" ++ toString n))

def line (toks : List String) : String :=
  match toks with
  | "Q" :: g :: ops =>
    match g.toNat? with
    | some g =>
      let s := ops.foldl step { q := priqNew g, out := #[], tags := #[] }
      ";".intercalate s.out.toList ++ "\t" ++ histogram s.tags
    | none => "bad-op"
  | _ => "bad-op"

end AldorVerif.Driver.PriQ
