import AldorVerif.Model.MiniAldor.Syntax
import AldorVerif.Model.MiniAldor.Value
import AldorVerif.Model.MiniAldor.Eval
import AldorVerif.Model.MiniAldor.Expand
import AldorVerif.Model.MiniAldor.Typecheck
import AldorVerif.Model.MiniAldor.Effects
import AldorVerif.Model.MiniAldor.Render
import AldorVerif.Model.MiniAldor.Lex
/-! line protocol for the `miniald` module (driver side; not part of the model)

request : `( req <fuel> <topExnVal 0|1> ( layout <indent> <tabs 0|1> <seed> ) ( prog <top>… ) )`
answer  : one JSON object (see `vlib/miniald.py`) -/
namespace AldorVerif.Driver.MiniAldor
open AldorVerif.MiniAldor

inductive Sexp where
  | atom (s : String)
  | list (l : List Sexp)
  deriving Inhabited

partial def parseSexp : List String → Except String (Sexp × List String)
  | [] => .error "unexpected end"
  | "(" :: r => parseList r []
  | ")" :: _ => .error "unexpected )"
  | t :: r => .ok (.atom t, r)
where
  parseList : List String → List Sexp → Except String (Sexp × List String)
  | [], _ => .error "missing )"
  | ")" :: r, acc => .ok (.list acc.reverse, r)
  | ts, acc => do
      let (s, r) ← parseSexp ts
      parseList r (s :: acc)

def hexVal (c : Char) : Nat :=
  if c.isDigit then c.toNat - '0'.toNat
  else if 'a' ≤ c ∧ c ≤ 'f' then c.toNat - 'a'.toNat + 10 else 0

def unhex (s : String) : String :=
  let rec go : List Char → List Char
    | a :: b :: r => Char.ofNat (hexVal a * 16 + hexVal b) :: go r
    | _ => []
  String.ofList (go s.toList)

abbrev P := Except String

def atomOf : Sexp → P String
  | .atom s => pure s
  | .list _ => throw "atom expected"

def listOf : Sexp → P (List Sexp)
  | .list l => pure l
  | .atom a => throw s!"list expected, got {a}"

def intOf (s : Sexp) : P Int := do
  let a ← atomOf s
  match a.toInt? with
  | some i => pure i
  | none => throw s!"integer expected, got {a}"

def textOf (s : Sexp) : P String := do
  let a ← atomOf s
  if a.startsWith "s:" then pure (unhex (a.drop 2).toString) else throw "hex text expected"

partial def toTy : Sexp → P Ty
  | .atom "mi" => pure .mi
  | .atom "int" => pure .int
  | .atom "bool" => pure .bool
  | .atom "str" => pure .str
  | .atom "unit" => pure .unit
  | .atom "exit" => pure .exit
  | .list [.atom "list", t] => do pure (.list (← toTy t))
  | .list [.atom "arr", t] => do pure (.arr (← toTy t))
  | .list [.atom "gen", t] => do pure (.gen (← toTy t))
  | .list [.atom "named", .atom n] => pure (.named n)
  | .list [.atom "fn", a, r] => do pure (.fn (← toTy a) (← toTy r))
  | .list [.atom "pair", a, b] => do pure (.pair (← toTy a) (← toTy b))
  | _ => throw "bad type"

def toBinOp : String → P BinOp
  | "add" => pure .add | "sub" => pure .sub | "mul" => pure .mul | "quo" => pure .quo
  | "rem" => pure .rem | "mod" => pure .mod | "pow" => pure .pow | "eq" => pure .eq
  | "ne" => pure .ne | "lt" => pure .lt | "le" => pure .le | "gt" => pure .gt | "ge" => pure .ge
  | "and" => pure .and | "or" => pure .or | "concat" => pure .concat | "max" => pure .max
  | "min" => pure .min | "cons" => pure .cons
  | s => throw s!"bad binary operator {s}"

def toUnOp : String → P UnOp
  | "neg" => pure .neg | "abs" => pure .abs | "not" => pure .not | "len" => pure .len
  | "toint" => pure .toInt | "tomi" => pure .toMI | "first" => pure .first | "rest" => pure .rest
  | "isempty" => pure .isEmpty | "reverse" => pure .reverse
  | s => throw s!"bad unary operator {s}"

def toParams (s : Sexp) : P (List (String × Ty)) := do
  let l ← listOf s
  l.mapM (fun p => match p with
    | .list [.atom x, t] => do pure (x, ← toTy t)
    | _ => throw "bad parameter")

def toNames (s : Sexp) : P (List String) := do (← listOf s).mapM atomOf

partial def toExpr : Sexp → P Expr
  | .list (.atom tag :: args) =>
    match tag, args with
    | "mi", [v] => do pure (.litMI (← intOf v))
    | "int", [v] => do pure (.litInt (← intOf v))
    | "bool", [v] => do pure (.litBool ((← intOf v) ≠ 0))
    | "strlit", [t] => do pure (.litStr (← textOf t))
    | "unit", [] => pure .unitLit
    | "nl", [] => pure .newline
    | "var", [.atom x] => pure (.var x)
    | "bin", [.atom op, a, b] => do pure (.bin (← toBinOp op) (← toExpr a) (← toExpr b))
    | "un", [.atom op, a] => do pure (.un (← toUnOp op) (← toExpr a))
    | "if", [c, t, e] => do pure (.ite (← toExpr c) (← toExpr t) (← toExpr e))
    | "seq", ss => do pure (.seq (← ss.mapM toExpr))
    | "exit", [c, v] => do pure (.exit (← toExpr c) (← toExpr v))
    | "decl", [.atom x, t, e] => do pure (.decl x (← toTy t) (← toExpr e))
    | "assign", [.atom x, e] => do pure (.assign x (← toExpr e))
    | "call", [.atom f, sg, r, as] => do
        pure (.call f (← (← listOf sg).mapM toTy) (← toTy r) (← (← listOf as).mapM toExpr))
    | "app", [f, as] => do pure (.app (← toExpr f) (← (← listOf as).mapM toExpr))
    | "lam", [ps, r, fr, b] => do pure (.lam (← toParams ps) (← toTy r) (← toNames fr) (← toExpr b))
    | "mcall", [.atom m, as] => do pure (.mcall m (← (← listOf as).mapM toExpr))
    | "dcall", [.atom d, da, .atom m, r, as] => do
        pure (.dcall d (← toExpr da) m (← toTy r) (← (← listOf as).mapM toExpr))
    | "self", [.atom m, r, as] => do pure (.selfcall m (← toTy r) (← (← listOf as).mapM toExpr))
    | "list", [t, es] => do pure (.listLit (← toTy t) (← (← listOf es).mapM toExpr))
    | "arr", [t, es] => do pure (.arrLit (← toTy t) (← (← listOf es).mapM toExpr))
    | "arrnew", [t, n, v] => do pure (.arrNew (← toTy t) (← toExpr n) (← toExpr v))
    | "index", [a, i] => do pure (.index (← toExpr a) (← toExpr i))
    | "setidx", [a, i, v] => do pure (.setIdx (← toExpr a) (← toExpr i) (← toExpr v))
    | "rec", [.atom tn, es] => do pure (.recLit tn (← (← listOf es).mapM toExpr))
    | "field", [r, .atom f] => do pure (.field (← toExpr r) f)
    | "setfield", [r, .atom f, v] => do pure (.setField (← toExpr r) f (← toExpr v))
    | "uni", [.atom tn, .atom tg, e] => do pure (.uniLit tn tg (← toExpr e))
    | "case", [u, .atom tg] => do pure (.ucase (← toExpr u) tg)
    | "uget", [u, .atom tg] => do pure (.uget (← toExpr u) tg)
    | "while", [c, b] => do pure (.while (← toExpr c) (← toExpr b))
    | "for", [.atom x, lo, hi, st, b] => do
        pure (.forRange x (← toExpr lo) (← toExpr hi) (← intOf st) (← toExpr b))
    | "forin", [.atom x, l, b] => do pure (.forIn x (← toExpr l) (← toExpr b))
    | "forgen", [.atom x, g, b] => do pure (.forGen x (← toExpr g) (← toExpr b))
    | "break", [] => pure .brk
    | "iterate", [] => pure .iter
    | "ret", [e] => do pure (.ret (← toExpr e))
    | "generate", [t, b] => do pure (.generate (← toTy t) (← toExpr b))
    | "yield", [e] => do pure (.yield (← toExpr e))
    | "throw", [.atom ex, as] => do pure (.throw ex (← (← listOf as).mapM toExpr))
    | "try", [b, .atom ev, hs, ca, fin] => do
        let hl ← (← listOf hs).mapM (fun h => match h with
          | .list [.atom en, e] => do pure (en, ← toExpr e)
          | _ => throw "bad handler")
        pure (.tryCatch (← toExpr b) ev hl (← toOpt ca) (← toOpt fin))
    | "exnval", [.atom ev] => pure (.exnVal ev)
    | "error", [t] => do pure (.error (← textOf t))
    | "print", [es] => do pure (.print (← (← listOf es).mapM toExpr))
    | _, _ => throw s!"bad expression ({tag} …)"
  | _ => throw "bad expression"
where
  toOpt : Sexp → P (Option Expr)
  | .list [.atom "none"] => pure none
  | s => do pure (some (← toExpr s))

def toFunDef : Sexp → P FunDef
  | .list [.atom "fn", .atom n, ps, r, fr, b] => do
      pure ⟨n, ← toParams ps, ← toTy r, ← toNames fr, ← toExpr b⟩
  | _ => throw "bad function definition"

def toTop : Sexp → P Top
  | .list (.atom tag :: args) =>
    match tag, args with
    | "fn", _ => do pure (.fn (← toFunDef (.list (.atom tag :: args))))
    | "const", [.atom x, t, e] => do pure (.const x (← toTy t) (← toExpr e))
    | "var", [.atom x, t, e] => do pure (.var x (← toTy t) (← toExpr e))
    | "macro", [.atom n, ps, b] => do pure (.macro n (← toNames ps) (← toExpr b))
    | "recdef", [.atom n, fs] => do pure (.recDef n (← toParams fs))
    | "unidef", [.atom n, fs] => do pure (.uniDef n (← toParams fs))
    | "exn", [.atom n, .list [.atom "none"]] => pure (.exn n none)
    | "exn", [.atom n, t] => do pure (.exn n (some (← toTy t)))
    | "cat", [.atom n, ss, ds] => do
        let sigs ← (← listOf ss).mapM (fun s => match s with
          | .list [.atom m, as, r] => do pure (⟨m, ← (← listOf as).mapM toTy, ← toTy r⟩ : MethSig)
          | _ => throw "bad signature")
        pure (.cat n sigs (← (← listOf ds).mapM toFunDef))
    | "dom", [.atom n, .atom p, t, .atom c, ms] => do
        pure (.dom n p (← toTy t) c (← (← listOf ms).mapM toFunDef))
    | "stmt", [e] => do pure (.stmt (← toExpr e))
    | _, _ => throw s!"bad top-level form ({tag} …)"
  | _ => throw "bad top-level form"

def toProg : Sexp → P Prog
  | .list (.atom "prog" :: ts) => do pure ⟨← ts.mapM toTop⟩
  | _ => throw "bad program"

/-! ### JSON output -/

def jsonEscape (s : String) : String :=
  String.join (s.toList.map (fun c =>
    if c = '"' then "\\\"" else if c = '\\' then "\\\\" else if c = '\n' then "\\n"
    else if c = '\t' then "\\t" else if c = '\r' then "\\r"
    else if c.toNat < 32 then "\\u00" ++ String.ofList [(Nat.toDigits 16 (c.toNat / 16)).getD 0 '0', (Nat.toDigits 16 (c.toNat % 16)).getD 0 '0']
    else String.singleton c))

def jstr (s : String) : String := "\"" ++ jsonEscape s ++ "\""
def jbool (b : Bool) : String := if b then "true" else "false"
def jobj (kv : List (String × String)) : String :=
  "{" ++ ", ".intercalate (kv.map (fun (k, v) => jstr k ++ ": " ++ v)) ++ "}"
def jarr (vs : List String) : String := "[" ++ ", ".intercalate vs ++ "]"

def exitStr : ExitClass → String
  | .normal => "ok"
  | .uncaught n => "exception:" ++ n
  | .failure m => "failure:" ++ m
  | .undefined w => "undefined:" ++ w
  | .stuck w => "stuck:" ++ w

def rulesJson (counts : List Nat) : String :=
  jobj ((Rule.all.zip counts).filterMap (fun (r, c) => if c = 0 then none else some (r.name, toString c)))

def sameOutcome (a b : Option Outcome) : Bool :=
  match a, b with
  | some x, some y => x.stdout == y.stdout && x.exit == y.exit
  | none, none => true
  | _, _ => false

def answer (fuel : Nat) (topExnVal : Bool) (lay : Layout) (p : Prog) : String :=
  let braced := render { lay with piled := false } p
  let piled := render { lay with piled := true } p
  let fs := forms p
  let tokok := tokensOK (linesOf false p) && tokensOK (linesOf true p)
  let lexok := lexChars (renderChars { lay with piled := false } p) == expectedLex { lay with piled := false } (linesOf false p)
            && lexChars (renderChars { lay with piled := true } p) == expectedLex { lay with piled := true } (linesOf true p)
  let common := [("braced", jstr braced), ("piled", jstr piled), ("forms", jarr (fs.map jstr)),
                 ("tokok", jbool tokok), ("lexok", jbool lexok), ("size", toString ((p.tops.map (fun t => match t with
                    | .fn d => d.body.size | .const _ _ e => e.size | .var _ _ e => e.size | .stmt e => e.size
                    | _ => 1)).foldl (· + ·) 0))]
  match typecheckWith topExnVal p with
  | .error e => jobj ([("ok", "false"), ("reject", jstr ("type: " ++ e))] ++ common)
  | .ok _ =>
    if !orderIndependentB p then jobj ([("ok", "false"), ("reject", jstr "order-dependent")] ++ common)
    else
      let q := expand p
      let o1 := evalProg fuel q
      match o1 with
      | none => jobj ([("ok", "false"), ("reject", jstr "timeout")] ++ common)
      | some o =>
        let o2 := evalWith (fun _ => true) fuel q
        let oc := if sameOutcome o1 o2 then "same" else "differs"
        let good := match o.exit with
          | .normal | .uncaught _ | .failure _ => true
          | _ => false
        jobj ([("ok", jbool good), ("reject", jstr (if good then "" else exitStr o.exit)),
               ("stdout", jstr o.stdout), ("exit", jstr (exitStr o.exit)),
               ("rules", rulesJson o.counts), ("order_check", jstr oc)] ++ common)

def line (toks : List String) : String :=
  match parseSexp toks with
  | .error e => jobj [("ok", "false"), ("reject", jstr ("parse: " ++ e))]
  | .ok (.list [.atom "req", .atom fuel, .atom tev, .list [.atom "layout", .atom ind, .atom tabs, .atom seed], prog], []) =>
    match toProg prog with
    | .error e => jobj [("ok", "false"), ("reject", jstr ("parse: " ++ e))]
    | .ok p =>
      answer (fuel.toNat?.getD 100000) (tev = "1")
        { indent := ind.toNat?.getD 4, tabs := tabs = "1", seed := seed.toNat?.getD 0 } p
  | .ok _ => jobj [("ok", "false"), ("reject", jstr "parse: bad request")]

end AldorVerif.Driver.MiniAldor
