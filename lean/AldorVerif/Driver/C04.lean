import AldorVerif.Gen.Dispatch
/-! `driver c04`: one request `X a0 a1 ..` per line; the answer lists the value of the builtin
under each generated evaluator model and under `Spec` (see Gen/Dispatch.lean, generated). -/
namespace AldorVerif.Driver.C04
def line (toks : List String) : String := AldorVerif.Gen.Dispatch.line toks
end AldorVerif.Driver.C04
