import AldorVerif.Model.Foam.Codec
import AldorVerif.Gen.FoamInfo
/-! line protocol for the `codec` part (driver side; not part of the model).

requests
  `consts`                      constants of the model
  `table`                       the generated table, one `idx:name:argc:argf` per row
  `R <int64>`                   foamSIntReduce: expression and its value
  `T<lf> <tree>`                foamToBuffer with labelFmt = lf, then foamFrBuffer with labelFmt = lf
tree syntax (prefix): `Name argc arg…`, arg = `i<int>` | `s<hex bytes>` | `f<8 hex>` | `d<16 hex>` |
                      `n<decimal>` | tree
answers of `T`: `<hex>|<labelFmt after>|<decoded tree>` or `ABORT`. -/
namespace AldorVerif.Driver.Codec
open AldorVerif.Foam

def T : Table := AldorVerif.Gen.FoamInfo.table

/-! ### concrete external float format (IEEE native side), after xfloat.c -/
def beBytes (n : Nat) : Nat → List UInt8
  | 0 => []
  | k + 1 => byteOf (n / 256 ^ k % 256) :: beBytes n k

def ofBe (bs : List UInt8) : Nat := bs.foldl (fun a b => a * 256 + b.toNat) 0

def leadingZeros (w : Nat) (x : Nat) : Nat := w - x.log2 - 1   -- x ≠ 0, x < 2^w

def xfEnc (ebits fbits : Nat) (bits : Nat) : List UInt8 :=
  let w := 1 + ebits + fbits
  let sign := bits / 2 ^ (w - 1)
  let e := bits / 2 ^ fbits % 2 ^ ebits
  let frac := bits % 2 ^ fbits
  let pb := frac * 2 ^ (w - fbits)
  let bias : Int := 2 ^ (ebits - 1) - 1
  let emax := 2 ^ ebits - 1
  let mk (x : Int) (pb : Nat) : List UInt8 :=
    let w0 := sign * 32768 + ((x + 0x3ffe) % 32768).toNat
    [byteOf (w0 / 256), byteOf (w0 % 256)] ++ beBytes pb (w / 8)
  if e = emax then mk 16385 pb
  else if e = 0 ∧ frac = 0 then mk (-0x3ffe) pb
  else if e = 0 then
    let ix1 := leadingZeros w pb
    mk (-bias - (ix1 + 1)) (pb * 2 ^ (ix1 + 1) % 2 ^ w)
  else mk (e - bias) pb

def xfDec (ebits fbits : Nat) (bs : List UInt8) : Option (Nat × List UInt8) :=
  let w := 1 + ebits + fbits
  let nb := 2 + w / 8
  if bs.length < nb then none else
  let hd := bs.take nb
  let rest := bs.drop nb
  let w0 := ofBe (hd.take 2)
  let pb := ofBe (hd.drop 2)
  let sign := w0 / 32768
  let x : Int := (w0 % 32768 : Nat) - 0x3ffe
  let bias : Int := 2 ^ (ebits - 1) - 1
  let emax := 2 ^ ebits - 1
  let asm (e : Nat) (pb : Nat) : Nat := sign * 2 ^ (w - 1) + e * 2 ^ fbits + pb / 2 ^ (w - fbits)
  if x = 16385 then some (asm emax pb, rest)
  else if x ≥ bias + 1 then some (asm emax 0, rest)
  else if x = -0x3ffe ∧ pb = 0 then some (asm 0 0, rest)
  else if x ≤ -bias then
    let n := (-bias - x).toNat
    let pb' := if n = 0 then pb else (pb / 2 + 2 ^ (w - 1)) / 2 ^ (n - 1)
    some (asm 0 pb', rest)
  else some (asm (x + bias).toNat pb, rest)

def X : XF where
  encSF b := xfEnc 8 23 b.toNat
  decSF bs := (xfDec 8 23 bs).map fun (n, r) => (BitVec.ofNat 32 n, r)
  encDF b := xfEnc 11 52 b.toNat
  decDF bs := (xfDec 11 52 bs).map fun (n, r) => (BitVec.ofNat 64 n, r)

/-! ### text -/
def hexDigit (n : Nat) : Char := "0123456789abcdef".toList.getD n '?'
def hexByte (b : UInt8) : String := String.ofList [hexDigit (b.toNat / 16), hexDigit (b.toNat % 16)]
def hexOf (bs : List UInt8) : String := String.join (bs.map hexByte)
def hexN (n : Nat) (digits : Nat) : String :=
  String.ofList ((List.range digits).reverse.map fun k => hexDigit (n / 16 ^ k % 16))

def hexVal (c : Char) : Option Nat :=
  if '0' ≤ c ∧ c ≤ '9' then some (c.toNat - '0'.toNat)
  else if 'a' ≤ c ∧ c ≤ 'f' then some (c.toNat - 'a'.toNat + 10)
  else if 'A' ≤ c ∧ c ≤ 'F' then some (c.toNat - 'A'.toNat + 10)
  else none

def parseHexNat (cs : List Char) : Option Nat :=
  cs.foldlM (fun a c => (hexVal c).map (a * 16 + ·)) 0

def parseHexBytes : List Char → Option (List UInt8)
  | [] => some []
  | a :: b :: r => do
    let x ← hexVal a; let y ← hexVal b
    let rs ← parseHexBytes r
    pure (byteOf (x * 16 + y) :: rs)
  | _ => none

def tagByName (name : String) : Option Nat :=
  (T.infos.findIdx? (·.name == name)).map (· + T.start)

mutual
partial def parseTree : List String → Option (Foam × List String)
  | name :: n :: r => do
    let tag ← tagByName name
    let argc ← n.toNat?
    let (args, r) ← parseArgs argc r
    pure (.node tag args, r)
  | _ => none
partial def parseArgs : Nat → List String → Option (List Arg × List String)
  | 0, r => some ([], r)
  | k + 1, tok :: r =>
    match tok.toList with
    | 'i' :: cs => do
      let v ← (String.ofList cs).toInt?
      let (as, r) ← parseArgs k r
      pure (.int v :: as, r)
    | 's' :: cs => do
      let bs ← parseHexBytes cs
      let (as, r) ← parseArgs k r
      pure (.str bs :: as, r)
    | 'f' :: cs => do
      let v ← parseHexNat cs
      let (as, r) ← parseArgs k r
      pure (.sflo (BitVec.ofNat 32 v) :: as, r)
    | 'd' :: cs => do
      let v ← parseHexNat cs
      let (as, r) ← parseArgs k r
      pure (.dflo (BitVec.ofNat 64 v) :: as, r)
    | 'n' :: cs => do
      let v ← (String.ofList cs).toInt?
      let (as, r) ← parseArgs k r
      pure (.bint v :: as, r)
    | _ => do
      let (f, r) ← parseTree (tok :: r)
      let (as, r) ← parseArgs k r
      pure (.sub f :: as, r)
  | _, [] => none
end

mutual
partial def showTree : Foam → List String
  | .node tag args => (T.info tag).name :: toString args.length :: showArgs args
partial def showArgs : List Arg → List String
  | [] => []
  | .int v :: as => ("i" ++ toString v) :: showArgs as
  | .str bs :: as => ("s" ++ hexOf bs) :: showArgs as
  | .sflo b :: as => ("f" ++ hexN b.toNat 8) :: showArgs as
  | .dflo b :: as => ("d" ++ hexN b.toNat 16) :: showArgs as
  | .bint v :: as => ("n" ++ toString v) :: showArgs as
  | .sub f :: as => showTree f ++ showArgs as
end

/-- does every argument have the kind its format letter asks for (the C driver cannot build
anything else)? -/
def kindOK (c : Fmt) (a : Arg) : Bool :=
  match c, a with
  | .s, .str _ => true
  | .f, .sflo _ => true
  | .d, .dflo _ => true
  | .n, .bint _ => true
  | .C, .sub _ => true
  | .s, _ | .f, _ | .d, _ | .n, _ | .C, _ => false
  | .star, _ | .bad, _ => true       -- whatever: the encoder stops in bug()
  | _, .int _ => true
  | _, _ => false

mutual
partial def kinds : Foam → Bool
  | .node tag args => kindsArgs (T.info tag).argf .bad args
partial def kindsArgs : List Fmt → Fmt → List Arg → Bool
  | _, _, [] => true
  | argf, prev, a :: as =>
    let nf := nextFmt argf prev
    kindOK nf.1 a && (match a with | .sub f => kinds f | _ => true) &&
      (if nf.1 = .f ∨ nf.1 = .d ∨ nf.1 = .star ∨ nf.1 = .bad then true else kindsArgs nf.2 nf.1 as)
end

/-! ### branch tags -/
def fmtBranch (tag : Nat) : String :=
  if tag < T.indexStart then (if tag < T.ffoOrigin then "plain" else "vec")
  else if tag = T.tRec ∨ tag = T.tDEnv ∨ tag = T.tDFluid then "rec"
  else if tag < T.indexLimit then "idx"
  else if (T.info tag).argc.isNone then "nary"
  else "multi"

mutual
partial def tagsOf : Foam → List String
  | .node tag args =>
    let fa := tagFormat T tag args
    (fmtBranch tag ++ toString fa.1) :: (if fa.2 then ["fmtbug"] else []) ++
      tagsArgs (T.info tag).argf .bad args
partial def tagsArgs : List Fmt → Fmt → List Arg → List String
  | _, _, [] => []
  | argf, prev, a :: as =>
    let nf := nextFmt argf prev
    ("l" ++ String.ofList [nf.1.toChar]) ::
      ((match a with | .sub f => tagsOf f | _ => []) ++ tagsArgs nf.2 nf.1 as)
end

def showRed : Red → String
  | .lit v => toString v.toNat
  | .shiftOr hi lo => "(so " ++ showRed hi ++ " " ++ toString lo.toNat ++ ")"
  | .neg e => "(neg " ++ showRed e ++ ")"

def infoLine (k : Nat) (i : Info) : String :=
  toString k ++ ":" ++ i.name ++ ":" ++ (match i.argc with | some n => toString n | none => "-1") ++ ":" ++
    String.ofList (i.argf.map Fmt.toChar)

def line (toks : List String) : String :=
  match toks with
  | ["consts"] =>
    s!"STD_FORMS={STD_FORMS} IMMED_FORMS={IMMED_FORMS} MAX_BYTE={MAX_BYTE} MAX_HINT={MAX_HINT} " ++
    s!"SINT_BYTES={SINT_BYTES} HINT_BYTES={HINT_BYTES} XSFLOAT_BYTES={(X.encSF 0).length} XDFLOAT_BYTES={(X.encDF 0).length} " ++
    s!"FFO_ORIGIN={T.ffoOrigin} FFO_SPAN={T.span} FOAM_LIMIT={T.limit} FOAM_INDEX_START={T.indexStart} " ++
    s!"FOAM_INDEX_LIMIT={T.indexLimit} FOAM_START={T.start} FOAM_BVAL_START={T.bvalStart} FOAM_PROTO_START={T.protoStart} " ++
    s!"TAG_LIMIT={T.ffoOrigin + 5 * T.span} SIZEOF_LONG=8 CHAR_SIGNED=1 O_BYTES=2 BINT_PLACE_BITS=32 " ++
    s!"SIntNegate={T.bvNegate} SIntShiftUp={T.bvShiftUp} SIntOr={T.bvOr}"
  | ["table"] => " ".intercalate ((List.range T.infos.length).zip T.infos |>.map fun (k, i) => infoLine (k + T.start) i)
  | ["R", v] =>
    match v.toInt? with
    | some x =>
      let r := sintReduce (BitVec.ofInt 64 x)
      showRed r ++ " = " ++ toString r.eval.toInt ++ "\t" ++
        (match r with | .neg _ => "neg " | _ => "") ++
        (if isInt32 x then "small" else "big")
    | none => "bad-op"
  | op :: rest =>
    if op = "T0" ∨ op = "T1" then
      let lf : Int := if op = "T1" then 1 else 0
      match parseTree rest with
      | some (f, []) =>
        if !kinds f then "bad-op" else
        let g := preReduce T f
        let e := encF T X 0 lf g
        let tg := " ".intercalate ((tagsOf g).eraseDups) ++ (if wfF T lf g |>.isSome then " wf" else " nwf")
        if e.2.2 then "ABORT\t" ++ tg ++ " abort"
        else
          let dec := match decode T X lf e.1 with
            | some (d, [], lf') => " ".intercalate (showTree d) ++ "|" ++ toString lf'
            | some (d, r, lf') => " ".intercalate (showTree d) ++ "|" ++ toString lf' ++ "|left=" ++ toString r.length
            | none => "NONE"
          hexOf e.1 ++ "|" ++ toString e.2.1 ++ "|" ++ dec ++ "\t" ++ tg
      | _ => "bad-op"
    else "bad-op"
  | _ => "bad-op"

end AldorVerif.Driver.Codec
