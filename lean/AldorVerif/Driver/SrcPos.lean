import AldorVerif.Model.SrcPos
import AldorVerif.Model.ComsgReport
/-! line protocol for the `srcpos` module (driver side; not part of the model) -/
namespace AldorVerif.Driver.SrcPos
open AldorVerif.SrcPos
open AldorVerif.ComsgReport

def hex (n : Nat) : String := String.ofList (Nat.toDigits 16 n)
def hx (b : BitVec 64) : String := hex b.toNat
def dec (b : BitVec 64) : String := toString b.toNat

def num? (s : String) : Option (BitVec 64) := s.toNat?.map (BitVec.ofNat 64)

def fnm : Option String → String
  | some f => f
  | none => "-"

def showPos (t : Table) (p : SrcPos) : String :=
  hx p ++ ":" ++ dec (sposGlobalLine p) ++ ":" ++ fnm (sposFile t p) ++ ":" ++ dec (sposLine t p)
    ++ ":" ++ dec (sposChar p)

def showTable (t : Table) : String :=
  let ents := if t.isEmpty then ["0,-,0"] else t.map (fun e => dec e.glno ++ "," ++ e.fn ++ "," ++ dec e.flno)
  "T" ++ toString t.length ++ "/" ++ toString (max 1 t.length) ++ "[" ++ " ".intercalate ents ++ "]"

def flagsLine (p : SrcPos) : String :=
  hx p ++ " " ++ dec (sposGlobalLine p) ++ " " ++ dec (sposChar p) ++ " " ++ dec (sposIsMacroExpanded p)

def b01 (b : Bool) : String := if b then "1" else "0"

/-- tags for a (line, col [, delta]) request: which fields are out of range -/
def rangeTags (l c : BitVec 64) (d : Int) : String :=
  let cc : Int := c.toNat + d
  (if c.toNat < 2 ^ SPOS_CNO_NBITS then "col-ok" else "col-over") ++ " " ++
  (if l.toNat < 2 ^ SPOS_LNO_NBITS then "line-ok" else "line-over") ++ " " ++
  (if d == 0 then "nodelta" else if cc < 0 then "borrow" else if cc < 2 ^ SPOS_CNO_NBITS then "delta-in" else "carry")

structure HState where
  t : Table := []
  cur : SrcPos := sposNone
  poss : List SrcPos := []     -- newest first
  out : List String := []      -- newest first
  tags : List String := []
  bad : Bool := false

/-- split at ";" tokens -/
def splitOps (toks : List String) : List (List String) :=
  let (cur, acc) := toks.foldl (fun (ca : List String × List (List String)) tk =>
    if tk == ";" then ([], ca.1.reverse :: ca.2) else (tk :: ca.1, ca.2)) ([], [])
  (cur.reverse :: acc).reverse.filter (· ≠ [])

def hstep (s : HState) (op : List String) : HState :=
  match op with
  | ["new", f, a, b, c] =>
    match num? a, num? b, num? c with
    | some flno, some glno, some cno =>
      let fn := if f == "-" then none else some f
      let r := sposNew s.t fn flno glno cno
      let tag := match fn with
        | none => "null"
        | some g => (if sposNewGrows s.t g glno then "grow" else "nogrow") ++
                    (if sposNewStale s.t g flno glno then "-stale" else "")
      { s with t := r.1, cur := r.2, poss := r.2 :: s.poss, out := showPos r.1 r.2 :: s.out, tags := tag :: s.tags }
    | _, _, _ => { s with bad := true }
  | ["grow", f, a, b] =>
    match num? a, num? b with
    | some flno, some glno => { s with t := sposGrow s.t f flno glno, tags := "growtbl" :: s.tags }
    | _, _ => { s with bad := true }
  | ["pos", a, b] =>
    match num? a, num? b with
    | some glno, some cno =>
      let p := sposGet glno cno
      { s with cur := p, poss := p :: s.poss, out := showPos s.t p :: s.out }
    | _, _ => { s with bad := true }
  | ["off", d] =>
    match d.toInt? with
    | some dd =>
      let p := sposOffset s.cur dd
      { s with cur := p, poss := p :: s.poss, out := showPos s.t p :: s.out, tags := "off" :: s.tags }
    | none => { s with bad := true }
  | _ => { s with bad := true }

def history (toks : List String) : String :=
  let s := (splitOps toks).foldl hstep {}
  if s.bad then "bad-op"
  else
    let body := String.join (s.out.reverse.map (· ++ " ")) ++ showTable s.t ++
      String.join (s.poss.reverse.map (fun p => " " ++ showPos s.t p))
    body ++ "\t" ++ " ".intercalate s.tags.reverse

partial def parseEvs : List String → Option (List Ev)
  | [] => some []
  | "line" :: r => (parseEvs r).map (.line :: ·)
  | "lines" :: n :: r => do
      let k ← n.toNat?
      let rest ← parseEvs r
      pure (List.replicate k .line ++ rest)
  | "ifz" :: r => (parseEvs r).map (.line :: ·)
  | "endif" :: r => (parseEvs r).map (.line :: ·)
  | "skip" :: r => (parseEvs r).map (.skip :: ·)
  | "hl" :: n :: f :: r => do
      let k ← n.toInt?
      let rest ← parseEvs r
      pure (.hashLine k (if f == "-" then none else some f) :: rest)
  | "inc" :: f :: r => (parseEvs r).map (.incl f :: ·)
  | "close" :: r => (parseEvs r).map (.close :: ·)
  | _ => none

def includer (toks : List String) : String :=
  match toks with
  | "open" :: f :: r =>
    match parseEvs r with
    | some evs =>
      let s := run (start f) evs
      -- (text, agrees with the includer's own bookkeeping) per source line
      let showM (m : Mark) : String × Bool :=
        let fl := sposFile s.table m.pos
        let ln := sposLine s.table m.pos
        (dec (sposGlobalLine m.pos) ++ ":" ++ fnm fl ++ ":" ++ dec ln ++ ":" ++ dec (sposChar m.pos) ++ " ",
         fl == some m.file && ln == BitVec.ofInt 64 m.line)
      let shown := s.marks.reverse.map showM
      let agree := shown.all (·.2)
      String.join (shown.map (·.1)) ++ showTable s.table ++ " total=" ++ toString s.serial
        ++ "\tstale=" ++ b01 s.stale ++ " bookagree=" ++ b01 agree
        ++ (if evs.any (fun e => match e with | .incl _ => true | _ => false) then " incl" else "")
        ++ (if evs.any (fun e => match e with | .hashLine _ _ => true | _ => false) then " hashline" else "")
        ++ (if evs.any (· == .skip) then " skip" else "")
    | none => "bad-op"
  | _ => "bad-op"

structure ErrReq where
  mark : Nat
  d : Int
  id : String
  prio : Int

/-- events plus the `err <d> <id> <prio>` requests, each tied to the source line made last -/
partial def parseR (toks : List String) (nmark : Nat) : Option (List Ev × List ErrReq) :=
  match toks with
  | [] => some ([], [])
  | "line" :: r => (parseR r (nmark + 1)).map (fun (e, q) => (.line :: e, q))
  | "ifz" :: r => (parseR r (nmark + 1)).map (fun (e, q) => (.line :: e, q))
  | "endif" :: r => (parseR r (nmark + 1)).map (fun (e, q) => (.line :: e, q))
  | "lines" :: n :: r => do
      let k ← n.toNat?
      let (e, q) ← parseR r (nmark + k)
      pure (List.replicate k .line ++ e, q)
  | "skip" :: r => (parseR r nmark).map (fun (e, q) => (.skip :: e, q))
  | "hl" :: n :: f :: r => do
      let k ← n.toInt?
      let (e, q) ← parseR r nmark
      pure (.hashLine k (if f == "-" then none else some f) :: e, q)
  | "inc" :: f :: r => (parseR r (nmark + 1)).map (fun (e, q) => (.incl f :: e, q))
  | "close" :: r => (parseR r nmark).map (fun (e, q) => (.close :: e, q))
  | "err" :: d :: id :: p :: r => do
      let dd ← d.toInt?
      let pp ← p.toInt?
      let (e, q) ← parseR r nmark
      pure (e, if nmark > 0 then ⟨nmark - 1, dd, id, pp⟩ :: q else q)
  | _ => none

def reporter (toks : List String) : String :=
  match toks with
  | "open" :: f :: r =>
    match parseR r 0 with
    | some (evs, errs) =>
      let s := run (start f) evs
      let marks := s.marks.reverse.toArray
      let sorted := errs.mergeSort (fun a b => a.prio ≤ b.prio)     -- stable
      -- comsgError in that order: `messages` is consed, newest first
      let msgs : List CoMsg := sorted.foldl (fun acc e =>
        match marks[e.mark]? with
        | some m => ⟨sposOffset m.pos e.d, acc.length + 1, "m" ++ e.id⟩ :: acc
        | none => acc) []
      let rep := reportFile true msgs
      let showG (g : Group) : String :=
        "H:" ++ fnm (sposFile s.table g.first) ++ ":" ++ dec (sposLine s.table g.first) ++ " " ++
        String.join (g.shown.map (fun e => "M:" ++ dec (sposLine s.table e.pos) ++ ":" ++ dec (sposChar e.pos) ++ ":"
          ++ toString e.serial ++ ":" ++ e.text ++ " "))
      let nshown := (rep.map (·.shown.length)).foldl (· + ·) 0
      let dropped := msgs.length - nshown
      String.join (rep.map showG) ++ "n=" ++ toString nshown
        ++ "\tgroups=" ++ toString rep.length ++ (if dropped > 0 then " dup-dropped" else " no-dup")
        ++ (if rep.any (fun g => g.all.length > 1) then " multi" else " single")
        ++ (if s.stale then " stale=1" else "")
    | none => "bad-op"
  | _ => "bad-op"

/-- one request line → `result<TAB>tags` -/
def line (toks : List String) : String :=
  match toks with
  | ["consts"] =>
    s!"stk={SPOS_STK_NBITS} mac={SPOS_MAC_NBITS} cno={SPOS_CNO_NBITS} lno={SPOS_LNO_NBITS} macshift={SPOS_MAC_SHIFT} cnoshift={SPOS_CNO_SHIFT} lnoshift={SPOS_LNO_SHIFT} ulong={ULONG_BITS} macmask={hx SPOS_MAC_MASK} cnomask={hx SPOS_CNO_MASK} lnomask={hx SPOS_LNO_MASK} none={hx sposNone} top={hx sposTop} end={hx sposEnd}" ++ "\tconsts"
  | ["pack", a, b] =>
    match num? a, num? b with
    | some l, some c => flagsLine (sposGet l c) ++ "\t" ++ rangeTags l c 0
    | _, _ => "bad-op"
  | ["offset", a, b, d] =>
    match num? a, num? b, d.toInt? with
    | some l, some c, some dd => flagsLine (sposOffset (sposGet l c) dd) ++ "\t" ++ rangeTags l c dd
    | _, _, _ => "bad-op"
  | ["mac", a, b, d] =>
    match num? a, num? b, d.toInt? with
    | some l, some c, some dd => flagsLine (sposOffset (sposMacroExpanded (sposGet l c)) dd) ++ "\t" ++ rangeTags l c dd ++ " mac"
    | _, _, _ => "bad-op"
  | ["cmp", a, b, c, d] =>
    match num? a, num? b, num? c, num? d with
    | some l1, some c1, some l2, some c2 =>
      let p := sposGet l1 c1
      let q := sposGet l2 c2
      toString (sposCmp p q) ++ " " ++ b01 (sposEqual p q) ++ " " ++ hx (sposMin p q) ++ " " ++ hx (sposMax p q)
        ++ "\tcmp" ++ toString (sposCmp p q)
    | _, _, _, _ => "bad-op"
  | ["special", a, b] =>
    match num? a, num? b with
    | some l, some c => b01 (sposIsSpecial (sposGet l c)) ++ "\tspecial" ++ b01 (sposIsSpecial (sposGet l c))
    | _, _ => "bad-op"
  | "H" :: r => history r
  | "I" :: r => includer r
  | "R" :: r => reporter r
  | _ => "bad-op"

end AldorVerif.Driver.SrcPos
