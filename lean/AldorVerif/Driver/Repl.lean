import AldorVerif.Model.Repl
/-! line protocol for the `repl` module (driver side; not part of the model):
`S <hex line> …` → one digit per line (`scanIsContinued` from the initial state), TAB, branch tags. -/
namespace AldorVerif.Driver.Repl
open AldorVerif.Repl

def hexv (c : Char) : Option Nat :=
  if '0' ≤ c ∧ c ≤ '9' then some (c.toNat - '0'.toNat)
  else if 'a' ≤ c ∧ c ≤ 'f' then some (c.toNat - 'a'.toNat + 10)
  else if 'A' ≤ c ∧ c ≤ 'F' then some (c.toNat - 'A'.toNat + 10)
  else none

partial def unhex : List Char → Option (List Char)
  | [] => some []
  | a :: b :: r => do
    let x ← hexv a
    let y ← hexv b
    if x = 0 ∧ y = 0 then none
    let rest ← unhex r
    pure (Char.ofNat (x * 16 + y) :: rest)
  | _ => none

def decode (t : String) : Option (Option (List Char)) :=
  if t = "-" then some none
  else if t = "." then some (some [])
  else (unhex t.toList).map some

/-- the stateful form (one line per request), for a driver loop that keeps the state -/
def init : ContState := .init
def step (st : ContState) (toks : List String) : ContState × String :=
  match toks with
  | [t] =>
    match decode t with
    | some l => let r := contStepB st l; (r.1, (if r.2.1 then "1" else "0") ++ "\t" ++ r.2.2.name)
    | none => (st, "e")
  | _ => (st, "bad-op")

/-- one request = one whole session from the initial state → `digits<TAB>tags` -/
def line (toks : List String) : String :=
  match toks with
  | "S" :: ts =>
    let rec go (st : ContState) (ts : List String) (ds : String) (tags : List String) : String × List String :=
      match ts with
      | [] => (ds, tags.reverse)
      | t :: r =>
        match decode t with
        | some l => let x := contStepB st l; go x.1 r (ds ++ (if x.2.1 then "1" else "0")) (x.2.2.name :: tags)
        | none => go st r (ds ++ "e") tags
    let (ds, tags) := go .init ts "" []
    ds ++ "\t" ++ " ".intercalate tags
  | _ => "bad-op"

end AldorVerif.Driver.Repl
