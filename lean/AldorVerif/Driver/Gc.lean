import AldorVerif.Model.Gc
/-! line protocol for the `gc` module (driver side; not part of the model).
One request line is one whole history `H op ; op ; ...`; the answer is the answers of the operations
joined by ` ; `, then a TAB and the tags of the operations joined the same way.  The state is the
model machine's `State` (registers = the 16 root slots of `harness/gc_drv.c`); piece id = index of the
block in the model heap. -/
namespace AldorVerif.Driver.Gc
open AldorVerif.Gc

abbrev St := State

def nroot : Nat := 16
def init : St := State.init nroot

/-- address of word `off` of piece `id` (`off = -1`: last header word of a mixed piece) -/
def addrOf (s : St) (id : Nat) (off : Int) : Option Nat :=
  match s.heap[id]? with
  | none => none
  | some b =>
    let a : Int := (b.base + b.hdr : Nat) + off
    if a < 0 then none else some a.toNat

def parseVal (s : St) : List String → Option Nat
  | ["V", n] => do let v ← n.toNat?; if v < heapBase && v ≠ newFill && v ≠ poison then some v else none
  | ["P", t, off] => do
      let t ← t.toNat?; let off ← off.toInt?
      let b ← s.heap[t]?
      if off < -1 || off ≥ (b.words.length : Int) then none else addrOf s t off
  | _ => none

def showWord (s : St) (v : Nat) : String :=
  if v = newFill then "n"
  else if v < heapBase then toString v
  else match pointee s.heap v with
    | none => s!"?{v}"
    | some t =>
      match s.heap[t]? with
      | none => s!"?{v}"
      | some b =>
        let off : Int := (v : Int) - ((b.base + b.hdr : Nat) : Int)
        if off < 0 then s!"p{t}{off}" else s!"p{t}+{off}"

/-- run-length form: runs of 4 or more equal tokens are written `tok*count` -/
def rle (ts : List String) : List String :=
  let runs : List (String × Nat) := ts.foldr (fun t acc =>
    match acc with
    | (u, n) :: rest => if t = u then (u, n + 1) :: rest else (t, 1) :: acc
    | [] => [(t, 1)]) []
  runs.flatMap (fun p => if p.2 ≥ 4 then [s!"{p.1}*{p.2}"] else List.replicate p.2 p.1)

def showBlock (s : St) (id : Nat) (b : Block) : String :=
  s!"{id}:" ++ ",".intercalate (rle (b.words.map (showWord s)))

def enum {α : Type} (l : List α) : List (Nat × α) := (List.range l.length).zip l

def report (s : St) (before : Heap) : String :=
  let live := (enum s.heap).filter (fun p => p.2.busy)
  let nfreed := ((before.zip s.heap).filter (fun p => p.1.busy && !p.2.busy)).length
  let nmixed := (live.filter (fun p => p.2.hdr ≠ 0)).length
  let nnoptr := (live.filter (fun p => noPtr p.2.kind)).length
  " ".intercalate (live.map (fun p => showBlock s p.1 p.2))
    ++ s!"\tlive={live.length} freed={nfreed} mixed={nmixed} noptr={nnoptr}"

def step (s : St) (toks : List String) : St × String :=
  match toks with
  | ["A", code, n] =>
    match code.toNat?, n.toNat? with
    | some c, some n =>
      if n = 0 then (s, "bad-op")
      else (doAlloc false s 0 n (c % 32), "a\t" ++ (if hdrFor n = 0 then "fixed" else "mixed"))
    | _, _ => (s, "bad-op")
  | "W" :: id :: i :: v =>
    match id.toNat?, i.toNat?, parseVal s v with
    | some id, some i, some v =>
      match addrOf s id 0 with
      | none => (s, "bad-op")
      | some a =>
        match access s.heap a i with
        | .ok bi off _ => ({ s with heap := setWord s.heap bi off v }, "w")
        | .freed => (s, "w!dead")
        | .bad => (s, "bad-op")
    | _, _, _ => (s, "bad-op")
  | "R" :: slot :: v =>
    match slot.toNat?, parseVal s v with
    | some slot, some v => if slot < nroot then (s.setReg slot v, "r") else (s, "bad-op")
    | _, _ => (s, "bad-op")
  | ["G"] =>
    let s' := { s with heap := collect s.heap s.regs }
    (s', report s' s.heap)
  | ["C"] => (s, report s s.heap)
  | _ => (s, "bad-op")

/-- split a token list at the `;` tokens -/
def splitOps (toks : List String) : List (List String) :=
  let (cur, acc) := toks.foldr (fun t (p : List String × List (List String)) =>
    if t = ";" then ([], p.1 :: p.2) else (t :: p.1, p.2)) ([], [])
  cur :: acc

def line (toks : List String) : String :=
  match toks with
  | "H" :: rest =>
    let (_, outs) := (splitOps rest).foldl (fun (p : St × Array String) op =>
      let (s', r) := step p.1 op
      (s', p.2.push r)) (init, #[])
    let parts := outs.toList.map (fun r => match r.splitOn "\t" with
      | [a, b] => (a, b)
      | _ => (r, ""))
    " ; ".intercalate (parts.map (·.1)) ++ "\t" ++ " ; ".intercalate (parts.map (·.2))
  | _ => "bad-op"

end AldorVerif.Driver.Gc
