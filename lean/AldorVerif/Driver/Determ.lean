import AldorVerif.Model.TableOrder
import AldorVerif.Model.PtrAllow
/-! line protocol for the `determ` module (C08; driver side, not part of the model)

  T <E|N|P> <nk> <h_0> .. <h_{nk-1}> <c_0> .. <c_{nk-1}> <op> ...
      one whole table history.  Keys are 0..nk-1; key i hashes to h_i; mode E: eqFun(a,b) =
      (c_a == c_b); modes N and P: eqFun == 0 (P: hashFun == 0 too, the key pointer IS h_i).
      ops: s<k>:<e> (tblSetElt)  g<k> (tblElt)  d<k> (tblDrop)
      answer: c=<count> b=<buckc> o=<key:elt,...> g=<elt|-,...>
  H <hex bytes>          strHash of the bytes (no NUL inside)
  S <h_0> <h_1> ...      libCodeSort on codev = 0..n-1 with symeHash(symev[i]) = h_i
  P                      status of every site of Gen/PtrTables.lean against Model/PtrAllow.lean
-/
namespace AldorVerif.Driver.Determ
open AldorVerif.TableOrder

def parseOp (tok : String) : Option (Op Nat) :=
  match tok.toList with
  | 's' :: r =>
    match (String.ofList r).splitOn ":" with
    | [k, e] => do let k ← k.toNat?; let e ← e.toNat?; pure ⟨.set, k, e⟩
    | _ => none
  | 'g' :: r => do let k ← (String.ofList r).toNat?; pure ⟨.get, k, 0⟩
  | 'd' :: r => do let k ← (String.ofList r).toNat?; pure ⟨.drop, k, 0⟩
  | _ => none

def showBranch : Branch → String
  | .miss => "miss" | .hitFront => "hit" | .hitMoved => "mtf" | .insert => "insert"
  | .insertEnlarge => "enlarge" | .dropFront => "drop" | .dropMoved => "drop-mtf"

def hexVal (c : Char) : Option Nat :=
  if '0' ≤ c ∧ c ≤ '9' then some (c.toNat - '0'.toNat)
  else if 'a' ≤ c ∧ c ≤ 'f' then some (c.toNat - 'a'.toNat + 10)
  else if 'A' ≤ c ∧ c ≤ 'F' then some (c.toNat - 'A'.toNat + 10)
  else none

def parseHex : List Char → Option (List UInt8)
  | [] => some []
  | a :: b :: r => do
    let x ← hexVal a; let y ← hexVal b; let t ← parseHex r
    pure (UInt8.ofNat (x * 16 + y) :: t)
  | _ => none

def tableLine (mode : String) (rest : List String) : String :=
  match rest with
  | nk :: r =>
    match nk.toNat? with
    | none => "bad-op"
    | some n =>
      let hs := (r.take n).filterMap String.toNat?
      let cs := ((r.drop n).take n).filterMap String.toNat?
      let ops := ((r.drop (2 * n)).map parseOp)
      if hs.length ≠ n ∨ cs.length ≠ n ∨ ops.any Option.isNone then "bad-op"
      else
        let ops := ops.filterMap id
        if ops.any (fun o => o.key ≥ n) then "bad-op" else
        let P : Params Nat :=
          { hash := fun k => hs.getD k 0,
            eq := if mode == "E" then (fun a b => cs.getD a 0 == cs.getD b 0) else (fun _ _ => true) }
        let r := run P ops
        let o := ",".intercalate ((iterSlots r.tbl).map (fun s => s!"{s.key}:{s.elt}"))
        let g := ",".intercalate (r.gets.reverse.map (fun v => match v with | some e => toString e | none => "-"))
        let tags := " ".intercalate (r.tags.reverse.map showBranch)
        s!"c={r.tbl.count} b={r.tbl.buckc} o={o} g={g}\t{tags}"
  | _ => "bad-op"

def line (toks : List String) : String :=
  match toks with
  | "T" :: mode :: rest => tableLine mode rest
  | ["H"] => toString (strHash []) ++ "\tlen=0"
  | ["H", hex] =>
    match parseHex hex.toList with
    | some bs => toString (strHash bs) ++ s!"\tlen={bs.length}" ++ (if bs.any (· ≥ 128) then " high" else "")
    | none => "bad-op"
  | "S" :: hs =>
    let hv := hs.filterMap String.toNat?
    if hv.length ≠ hs.length then "bad-op"
    else
      let res := codeSort (fun i => hv.getD i 0) (List.range hv.length)
      let ties := hv.length - hv.eraseDups.length
      " ".intercalate (res.map toString) ++ s!"\tn={hv.length} ties={ties}" ++ (if hv.any (· ≥ 2 ^ 31) then " big" else "")
  | ["P"] =>
    ";".intercalate (AldorVerif.Gen.PtrTables.sites.map (fun s =>
      s!"{s.file}|{s.func}|{s.storedIn}|{s.hash}={AldorVerif.PtrAllow.status s}")) ++ "\tsites"
  | _ => "bad-op"

end AldorVerif.Driver.Determ
