import AldorVerif.Model.Archive
import AldorVerif.Driver.LibHdr
/-! line protocol for the `archive` module (driver side; not part of the model) -/
namespace AldorVerif.Driver.Archive
open AldorVerif.Archive

def showName (n : List Nat) : String :=
  if n.isEmpty then "''" else AldorVerif.Driver.LibHdr.hexOf n

def line (toks : List String) : String :=
  match toks with
  | ["consts"] =>
    "arhdr=" ++ toString memberHdrSize ++ " first=" ++ toString firstPos ++ " align=" ++ toString align
      ++ " magic=" ++ AldorVerif.Driver.LibHdr.hexOf magicArch ++ "\tconsts"
  | ["A", hx] =>
    let file := AldorVerif.Driver.LibHdr.unhex hx
    if !isArch file then "notarch\tnotarch" else
    let (ms, o, nb) := walk (file.length + 2) file firstPos
    let body := "members" ++ String.join (ms.map fun m => " " ++ showName m.name ++ "@" ++ toString m.dataPos)
                  ++ " bad=" ++ toString nb
    let tag := match o with
      | .finished => "finished" | .shortHeader => "shortHeader" | .special => "special" | .outOfFuel => "LOOP"
    body ++ "\t" ++ tag ++ " n=" ++ toString ms.length ++ (if nb > 0 then " badnum" else "")
  | _ => "bad-op"

end AldorVerif.Driver.Archive
