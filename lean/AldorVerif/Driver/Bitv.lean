import AldorVerif.Model.Bitv
/-! line protocol for the `bitv` module (driver side; not part of the model).

One history per line: `V <nbits> op op …` on four registers 0..3 of class `nbits`, all cleared.
ops (answer `.` unless stated):
`sa:r` bitvSetAll · `ca:r` bitvClearAll · `s:r:i` bitvSet · `c:r:i` bitvClear · `t:r:i` bitvTest → 0/1
`cp:r:a` bitvCopy · `n:r:a` bitvNot · `&:r:a:b` bitvAnd · `|:r:a:b` bitvOr · `-:r:a:b` bitvMinus
`=:a:b` bitvEqual → 0/1 · `mx:a` bitvMax · `ct:a` bitvCount · `cto:a:n` bitvCountTo
`u:a:org:lim` bitvUnique1IndexInRange · `fi:r:n` bitvFromInt (padding zeroed) · `ti:a` bitvToInt
`p:a` bitvToString · `w:a` raw words (hex) · `rs:n` bitvResize of every register to class n
(fresh words zeroed).  Answer: the results joined by `;`. -/
namespace AldorVerif.Driver.Bitv
open AldorVerif.Bitv

structure St where
  c : BClass
  regs : Array Bitv
  out : Array String
  tags : Array String

def hex (w : Word) : String := String.ofList (Nat.toDigits 16 w.toNat)

def reg (s : St) (i : Nat) : Bitv := s.regs.getD i []

def emit (s : St) (r : String) (tag : String := "") : St :=
  { s with out := s.out.push r, tags := if tag = "" then s.tags else s.tags.push tag }

def setReg (s : St) (i : Nat) (v : Bitv) (tag : String) : St :=
  { s with regs := s.regs.setIfInBounds i v, out := s.out.push ".", tags := s.tags.push tag }

def b01 (b : Bool) : String := if b then "1" else "0"

def padTag (c : BClass) : String := if c.nbits % 64 = 0 then "aligned" else "padded"

def step (s : St) (tok : String) : St :=
  let f := tok.splitOn ":"
  let nums := (f.drop 1).map String.toNat?
  if nums.any Option.isNone then emit s "bad-op" else
  let a := (nums.map (·.getD 0))
  let c := s.c
  let okr (l : List Nat) : Bool := l.all (· < 4)
  match f.head!, a with
  | "sa", [r] => if okr [r] then setReg s r (setAll c) "setAll" else emit s "bad-op"
  | "ca", [r] => if okr [r] then setReg s r (clearAll c) "clearAll" else emit s "bad-op"
  | "s", [r, i] => if okr [r] ∧ i < c.nbits then setReg s r (set c (reg s r) i) "set" else emit s "bad-op"
  | "c", [r, i] => if okr [r] ∧ i < c.nbits then setReg s r (clear c (reg s r) i) "clear" else emit s "bad-op"
  | "t", [r, i] => if okr [r] ∧ i < c.nbits then emit s (b01 (test c (reg s r) i)) "test" else emit s "bad-op"
  | "cp", [r, x] => if okr [r, x] then setReg s r (copy c (reg s x)) "copy" else emit s "bad-op"
  | "n", [r, x] => if okr [r, x] then setReg s r (AldorVerif.Bitv.not c (reg s x)) "not" else emit s "bad-op"
  | "&", [r, x, y] => if okr [r, x, y] then setReg s r (AldorVerif.Bitv.and c (reg s x) (reg s y)) "and" else emit s "bad-op"
  | "|", [r, x, y] => if okr [r, x, y] then setReg s r (AldorVerif.Bitv.or c (reg s x) (reg s y)) "or" else emit s "bad-op"
  | "-", [r, x, y] => if okr [r, x, y] then setReg s r (minus c (reg s x) (reg s y)) "minus" else emit s "bad-op"
  | "=", [x, y] =>
    if okr [x, y] then
      let e := equal c (reg s x) (reg s y)
      let raw := (reg s x).take c.nwords == (reg s y).take c.nwords
      emit s (b01 e) ("equal-" ++ padTag c ++ (if c.nwords = 0 then "-empty" else if e then (if raw then "-same" else "-padding-differs") else "-no"))
    else emit s "bad-op"
  | "mx", [x] => if okr [x] then emit s (toString (AldorVerif.Bitv.max c (reg s x))) "max" else emit s "bad-op"
  | "ct", [x] => if okr [x] then emit s (toString (count c (reg s x))) "count" else emit s "bad-op"
  | "cto", [x, n] => if okr [x] ∧ n ≤ c.nbits then emit s (toString (countTo c (reg s x) n)) "countTo" else emit s "bad-op"
  | "u", [x, org, lim] =>
    if okr [x] ∧ lim ≤ c.nbits then
      let r := unique1IndexInRange c (reg s x) org lim
      emit s (toString r) (if r < 0 then "unique-none" else "unique-one")
    else emit s "bad-op"
  | "fi", [r, n] =>
    if okr [r] ∧ c.nbits < 32 ∧ n < 2147483648 then setReg s r (fromInt c n (clearAll c)) "fromInt" else emit s "bad-op"
  | "ti", [x] => if okr [x] ∧ c.nbits < 32 then emit s (toString (toInt c (reg s x))) "toInt" else emit s "bad-op"
  | "p", [x] => if okr [x] then emit s (AldorVerif.Bitv.toString c (reg s x)) else emit s "bad-op"
  | "w", [x] => if okr [x] then emit s (",".intercalate (((reg s x).take c.nwords).map hex)) else emit s "bad-op"
  | "rs", [n] =>
    let nc := classCreate n
    let tag := if c.nwords ≥ nc.nwords then "resize-inplace" else "resize-realloc"
    { c := nc, regs := s.regs.map (fun b => resize nc c b (clearAll nc)), out := s.out.push ".", tags := s.tags.push tag }
  | _, _ => emit s "bad-op"

def bump (acc : List (String × Nat)) (t : String) : List (String × Nat) :=
  match acc with
  | [] => [(t, 1)]
  | (u, n) :: rest => if u = t then (u, n + 1) :: rest else (u, n) :: bump rest t

def histogram (tags : Array String) : String :=
  let groups := (tags.foldl bump []).toArray.qsort (fun a b => a.1 < b.1)
  " ".intercalate (groups.toList.map (fun (u, n) => u ++ "=" ++ toString n))

def line (toks : List String) : String :=
  match toks with
  | "V" :: n :: ops =>
    match n.toNat? with
    | some n =>
      let c := classCreate n
      let s := ops.foldl step { c := c, regs := Array.replicate 4 (clearAll c), out := #[], tags := #[] }
      ";".intercalate s.out.toList ++ "\t" ++ histogram s.tags
    | none => "bad-op"
  | _ => "bad-op"

end AldorVerif.Driver.Bitv
