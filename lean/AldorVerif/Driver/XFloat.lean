import AldorVerif.Model.XFloat
/-! line protocol for the `xfloat` module (driver side; not part of the model).
Requests and answer formats: see harness/xfloat_drv.c. -/
namespace AldorVerif.Driver.XFloat
open AldorVerif.XFloat

def hexDigit (c : Char) : Option Nat :=
  if '0' ≤ c ∧ c ≤ '9' then some (c.toNat - '0'.toNat)
  else if 'a' ≤ c ∧ c ≤ 'f' then some (c.toNat - 'a'.toNat + 10)
  else if 'A' ≤ c ∧ c ≤ 'F' then some (c.toNat - 'A'.toNat + 10)
  else none

def parseHex (s : String) (maxdig : Nat) : Option Nat :=
  let cs := s.toList
  if cs.isEmpty ∨ cs.length > maxdig then none
  else cs.foldlM (fun acc c => do let d ← hexDigit c; pure (acc * 16 + d)) 0

def parseBytesAux : List Char → Option (List Byte)
  | [] => some []
  | [_] => none
  | a :: b :: r => do
    let x ← hexDigit a
    let y ← hexDigit b
    let t ← parseBytesAux r
    pure (BitVec.ofNat 8 (x * 16 + y) :: t)

def parseBytes (s : String) (max : Nat := 64) : Option (List Byte) :=
  if s = "-" then some []
  else do
    let l ← parseBytesAux s.toList
    if l.length > max then none else pure l

def parseBit (s : String) : Option Bool :=
  if s = "0" then some false else if s = "1" then some true else none

def parseDec (s : String) : Option Int := s.toInt?

def hexChar (n : Nat) : Char := if n < 10 then Char.ofNat (48 + n) else Char.ofNat (87 + n)

def hexFixed (digits : Nat) (v : Nat) : String :=
  String.ofList ((List.range digits).reverse.map fun i => hexChar (v / 16 ^ i % 16))

def showBytes (l : List Byte) : String :=
  if l.isEmpty then "-" else String.join (l.map fun b => hexFixed 2 b.toNat)

def b01 (b : Bool) : String := if b then "1" else "0"

def clsName : FloatCase → String
  | .norm => "norm" | .denorm => "denorm" | .zero => "zero" | .nan => "nan" | .inf => "inf"

def showFmt (n : String) (F : Fmt) : String :=
  s!"{n} {F.size} {b01 F.hasNANs} {b01 F.hasNorm1} {F.lgLgBase} {F.excess} {F.fracOff}"

def constsLine : String :=
  showFmt "SF" SF ++ " " ++ showFmt "DF" DF ++ " " ++ showFmt "XSF" XSF ++ " " ++ showFmt "XDF" XDF
    ++ s!" min/nan {SF.exponMin} {SF.exponNAN} {DF.exponMin} {DF.exponNAN} {XSF.exponMin} {XSF.exponNAN} {XDF.exponMin} {XDF.exponNAN}"
    ++ s!" bytes {XSFLOAT_BYTES} {XDFLOAT_BYTES}"
    ++ s!" word {(wordBytes 0).length} sflo {SF.size} float {SF.size} ushort {USHORT_BIT / CHAR_BIT} charbit {CHAR_BIT}"
    ++ " order " ++ String.join ((sfBytes 0x01020304#32).map fun b => toString b.toNat)
    ++ " " ++ toString ((dfBytes 0x0102030405060708#64).getD 0 0).toNat ++ toString ((dfBytes 0x0102030405060708#64).getD 7 0).toNat

def fnvStep (h : UInt64) (b : UInt64) : UInt64 := (h ^^^ b) * 0x100000001b3

def fnvBytes (h : UInt64) (l : List Byte) : UInt64 := l.foldl (fun h b => fnvStep h (UInt64.ofNat b.toNat)) h

def fnvWord (h : UInt64) (w : Nat) (nbytes : Nat) : UInt64 :=
  (List.range nbytes).reverse.foldl (fun h i => fnvStep h (UInt64.ofNat (w / 256 ^ i % 256))) h

def splitmix (st : UInt64) : UInt64 × UInt64 :=
  let s := st + 0x9e3779b97f4a7c15
  let z := (s ^^^ (s >>> 30)) * 0xbf58476d1ce4e5b9
  let z := (z ^^^ (z >>> 27)) * 0x94d049bb133111eb
  (s, z ^^^ (z >>> 31))

partial def hash32Loop (v hi st : Nat) (h : UInt64) (cnt : Nat) : UInt64 × Nat :=
  if v ≥ hi then (h, cnt)
  else
    let b := BitVec.ofNat 32 v
    let x := xsfFrNative b
    let r := xsfToNative x
    hash32Loop (v + st) hi st (fnvWord (fnvBytes h x) r.toNat 4) (cnt + 1)

partial def hash64Loop (st : UInt64) (n : Nat) (h : UInt64) : UInt64 :=
  if n = 0 then h
  else
    let (st, v) := splitmix st
    let b := BitVec.ofNat 64 v.toNat
    let x := xdfFrNative b
    let r := xdfToNative x
    hash64Loop st (n - 1) (fnvWord (fnvBytes h x) r.toNat 8)

/-- the executable property, as the C `sweep32` request evaluates it, on the model -/
partial def sweep32Loop (v hi : Nat) (cnt nfail first : Nat) : Nat × Nat × Nat :=
  if v ≥ hi then (cnt, nfail, first)
  else
    let b := BitVec.ofNat 32 v
    let r := xsfToNative (xsfFrNative b)
    let d := sfDissemble b
    let a := sfAssemble d.1 d.2.1 d.2.2
    let ok := if decide (sfIsNaN b) then decide (sfIsNaN r) && decide (sfIsNaN a) else r == b && a == b
    sweep32Loop (v + 1) hi (cnt + 1) (if ok then nfail else nfail + 1) (if ¬ ok ∧ nfail = 0 then v else first)

/-! `atof` and the C cast for the literal requests: the model (`cfoldArrToSFlo`, `fiArrToSFlo`, …)
takes them as parameters; the driver supplies correctly rounded ones. -/

/-- nearest-even rounding of the non-negative rational `num/den` to a binary format with
precision `p` bits, unit in the last place of the smallest subnormal `2^eminUlp`, exponent field
of infinity `expInf`; returns the bit pattern without sign -/
def roundRat (num den : Nat) (p : Nat) (eminUlp : Int) (expInf : Nat) : Nat :=
  if num = 0 ∨ den = 0 then 0 else
  let L : Int := (Nat.log2 num : Int) - (Nat.log2 den : Int)
  let qOf (e2 : Int) : Nat × Nat × Nat :=
    let N := num * 2 ^ (-e2).toNat
    let D := den * 2 ^ e2.toNat
    (N / D, N % D, D)
  let e2 : Int := L - ((p : Int) - 1)
  let e2 := if (qOf e2).1 < 2 ^ (p - 1) then e2 - 1 else e2
  let e2 := if e2 < eminUlp then eminUlp else e2
  let (q, r, D) := qOf e2
  let q := if 2 * r > D ∨ (2 * r = D ∧ q % 2 = 1) then q + 1 else q
  let bits := (e2 - eminUlp).toNat * 2 ^ (p - 1) + q
  if bits ≥ expInf * 2 ^ (p - 1) then expInf * 2 ^ (p - 1) else bits

def digitsVal (l : List Char) : Nat := l.foldl (fun a c => a * 10 + (c.toNat - 48)) 0

/-- `atof` on a plain decimal literal `[+-]digits[.digits][(e|E)[+-]digits]`: the correctly
rounded binary64, as sign and 63 remaining bits -/
def atofBits (s : List Nat) : Nat :=
  let cs := s.map Char.ofNat
  let (neg, cs) := match cs with
    | '-' :: r => (true, r)
    | '+' :: r => (false, r)
    | r => (false, r)
  let ip := cs.takeWhile Char.isDigit
  let cs := cs.dropWhile Char.isDigit
  let (fp, cs) := match cs with
    | '.' :: r => (r.takeWhile Char.isDigit, r.dropWhile Char.isDigit)
    | r => ([], r)
  let ex : Int := match cs with
    | c :: r =>
      if c = 'e' ∨ c = 'E' then
        match r with
        | '-' :: d => if d.takeWhile Char.isDigit = [] then 0 else -(digitsVal (d.takeWhile Char.isDigit) : Int)
        | '+' :: d => (digitsVal (d.takeWhile Char.isDigit) : Int)
        | d => (digitsVal (d.takeWhile Char.isDigit) : Int)
      else 0
    | [] => 0
  let mant := digitsVal (ip ++ fp)
  let e10 : Int := ex - fp.length
  let num := mant * 10 ^ e10.toNat
  let den := 10 ^ (-e10).toNat
  (if neg then 2 ^ 63 else 0) + roundRat num den 53 (-1074) 2047

/-- the C cast `(float) d` on bit patterns (round to nearest even; finite inputs) -/
def castToSingle (d : Nat) : Nat :=
  let sign := d / 2 ^ 63
  let e := d / 2 ^ 52 % 2048
  let f := d % 2 ^ 52
  let body :=
    if e = 2047 then (if f = 0 then 255 * 2 ^ 23 else 255 * 2 ^ 23 + 2 ^ 22 + f / 2 ^ 29)
    else
      -- value = m * 2^(x), m = f (+2^52 if normal), x = max e 1 - 1075
      let m := if e = 0 then f else f + 2 ^ 52
      let x : Int := (max e 1 : Nat) - 1075
      roundRat (m * 2 ^ x.toNat) (2 ^ (-x).toNat) 24 (-149) 255
  sign * 2 ^ 31 + body

def tagsOfShift (nsh nb : Nat) (al : Bool) : String :=
  s!"xbyte={if nsh / 8 = 0 then "0" else if nsh / 8 < nb then "mid" else "ge"} xbit={if nsh % 8 = 0 then "0" else "n"} al={b01 al}"

/-- one request line → `result<TAB>tags` -/
def line (toks : List String) : String :=
  match toks with
  | ["consts"] => constsLine
  | ["xsf", h] =>
    match parseHex h 8 with
    | some v =>
      let b := BitVec.ofNat 32 v
      let fr := xFrNative XSF SF (sfBytes b)
      let to := xToNative XSF SF fr.1
      s!"{showBytes fr.1} {hexFixed 8 (sfOfBytes to.1).toNat}\tsfr={fr.2} sto={to.2} scls={clsName (sfClassify b)}"
    | none => "bad-op"
  | ["xdf", h] =>
    match parseHex h 16 with
    | some v =>
      let b := BitVec.ofNat 64 v
      let fr := xFrNative XDF DF (dfBytes b)
      let to := xToNative XDF DF fr.1
      s!"{showBytes fr.1} {hexFixed 16 (dfOfBytes to.1).toNat}\tdfr={fr.2} dto={to.2} dcls={clsName (dfClassify b)}"
    | none => "bad-op"
  | ["sfdis", h] =>
    match parseHex h 8 with
    | some v =>
      let b := BitVec.ofNat 32 v
      let d := fiSFloDissemble b 0
      let g := fiSFloAssemble d.1 d.2.1 d.2.2
      s!"{b01 d.1} {d.2.1} {hexFixed 16 d.2.2.toNat} {b01 (natIsZero SF (sfBytes b))} {clsName (sfClassify b)} {hexFixed 8 g.toNat}\tsdis={clsName (sfClassify b)}"
    | none => "bad-op"
  | ["dfdis", h] =>
    match parseHex h 16 with
    | some v =>
      let b := BitVec.ofNat 64 v
      let d := fiDFloDissemble b 0
      let g := fiDFloAssemble d.1 d.2.1 d.2.2.1 d.2.2.2
      s!"{b01 d.1} {d.2.1} {hexFixed 16 d.2.2.1.toNat} {b01 (natIsZero DF (dfBytes b))} {clsName (dfClassify b)} {hexFixed 16 g.toNat}\tddis={clsName (dfClassify b)}"
    | none => "bad-op"
  | "buf" :: items =>
    let rec parse : List String → Option (List (Bool × Nat))
      | [] => some []
      | "s" :: h :: r => do let v ← parseHex h 8; let t ← parse r; pure ((false, v) :: t)
      | "d" :: h :: r => do let v ← parseHex h 16; let t ← parse r; pure ((true, v) :: t)
      | _ => none
    match parse items with
    | some (it :: its) =>
      let all := it :: its
      let b := all.foldl (fun b (p : Bool × Nat) =>
        if p.1 then bufWrDFloat b (BitVec.ofNat 64 p.2) else bufWrSFloat b (BitVec.ofNat 32 p.2)) bufNew
      let bytes := b.data.take b.pos
      let rd := all.foldl (fun (acc : String × Buf) (p : Bool × Nat) =>
        if p.1 then let r := bufRdDFloat acc.2; (acc.1 ++ " " ++ hexFixed 16 r.1.toNat, r.2)
        else let r := bufRdSFloat acc.2; (acc.1 ++ " " ++ hexFixed 8 r.1.toNat, r.2)) ("", bufStart b)
      s!"{showBytes bytes}{rd.1}\tbuf={all.length}"
    | _ => "bad-op"
  | ["shup", bs, nsh, bF, al] =>
    match parseBytes bs, nsh.toNat?, parseBit bF, parseBit al with
    | some bv, some nsh, some bF, some al =>
      s!"{showBytes (bfShiftUp bv.length bv nsh bF al)}\tup:{tagsOfShift nsh bv.length al} bF={b01 bF}"
    | _, _, _, _ => "bad-op"
  | ["shdn", bs, nsh, b0, b1, al] =>
    match parseBytes bs, nsh.toNat?, parseBit b0, parseBit b1, parseBit al with
    | some bv, some nsh, some b0, some b1, some al =>
      s!"{showBytes (bfShiftDn bv.length bv nsh b0 b1 al)}\tdn:{tagsOfShift nsh bv.length al} b0={b01 b0} b1={b01 b1}"
    | _, _, _, _, _ => "bad-op"
  | ["first1", bs] =>
    match parseBytes bs with
    | some bv => let r := bfFirst1 bv.length bv; s!"{r}\tfirst1={if r < 0 then "none" else if r < 8 then "byte0" else "later"}"
    | none => "bad-op"
  | ["norm", e, bs] =>
    match parseDec e, parseBytes bs with
    | some e, some bv =>
      let r := fracNormalize e bv.length bv
      s!"{r.1} {showBytes r.2}\tnorm={if r.1 = e then "none" else "shift"}"
    | _, _ => "bad-op"
  | ["denorm", e, emin, bs, lglg, h1] =>
    match parseDec e, parseDec emin, parseBytes bs, lglg.toNat?, parseBit h1 with
    | some e, some emin, some bv, some lglg, some h1 =>
      if lglg > 3 then "bad-op" else
      let r := fracDenormalize e emin bv.length bv lglg h1
      s!"{r.1} {showBytes r.2}\tdenorm={if e > emin then "none" else "shift"} h1={b01 h1}"
    | _, _, _, _, _ => "bad-op"
  | ["hash32", lo, hi, st] =>
    match parseHex lo 9, parseHex hi 9, parseHex st 9 with
    | some lo, some hi, some st =>
      if st = 0 ∨ hi > 0x100000000 then "bad-op" else
      let (h, cnt) := hash32Loop lo hi st 0xcbf29ce484222325 0
      s!"{cnt} {hexFixed 16 h.toNat}"
    | _, _, _ => "bad-op"
  | [op, s, e, bs] =>
    match parseBit s, parseDec e, parseBytes bs 16 with
    | some s, some e, some fr =>
      if op = "sfasm" ∧ fr.length = 4 then hexFixed 8 (sfAssemble s e fr).toNat ++ "\tsfasm"
      else if op = "dfasm" ∧ fr.length = 8 then hexFixed 16 (dfAssemble s e fr).toNat ++ "\tdfasm"
      else if op = "xsfasm" ∧ fr.length = 4 then showBytes (xsfAssemble s e fr) ++ "\txsfasm"
      else if op = "xdfasm" ∧ fr.length = 8 then showBytes (xdfAssemble s e fr) ++ "\txdfasm"
      else "bad-op"
    | _, _, _ => "bad-op"
  | [op, bs] =>
    match parseBytes bs 16 with
    | some x =>
      if op = "xsfdis" ∧ x.length = 6 then
        let d := xsfDissemble x
        s!"{b01 d.1} {d.2.1} {showBytes d.2.2} {clsName (xsfClassify x)}\txsdis={clsName (xsfClassify x)}"
      else if op = "xdfdis" ∧ x.length = 10 then
        let d := xdfDissemble x
        s!"{b01 d.1} {d.2.1} {showBytes d.2.2} {clsName (xdfClassify x)}\txddis={clsName (xdfClassify x)}"
      else if op = "xsfto" ∧ x.length = 6 then
        let r := xToNative XSF SF x
        s!"{hexFixed 8 (sfOfBytes r.1).toNat}\txsto={r.2}"
      else if op = "xdfto" ∧ x.length = 10 then
        let r := xToNative XDF DF x
        s!"{hexFixed 16 (dfOfBytes r.1).toNat}\txdto={r.2}"
      else "bad-op"
    | none => "bad-op"
  | ["sweep32", lo, hi] =>
    match parseHex lo 9, parseHex hi 9 with
    | some lo, some hi =>
      if hi > 0x100000000 then "bad-op" else
      let (cnt, nfail, first) := sweep32Loop lo hi 0 0 0
      if nfail = 0 then s!"{cnt} 0 none" else s!"{cnt} {nfail} {hexFixed 8 first}"
    | _, _ => "bad-op"
  | ["lit", k, str] =>
    -- the FOAM character array holds the characters of the literal (no terminator)
    let eltv := str.toList.map Char.toNat
    if k = "s" then
      let folded := cfoldArrToSFlo atofBits castToSingle eltv
      let rt := fiArrToSFlo atofBits castToSingle (rtArray eltv)
      s!"{hexFixed 8 folded} {hexFixed 8 rt}\tlit=s"
    else if k = "d" then
      let folded := cfoldArrToDFlo atofBits eltv
      let rt := fiArrToDFlo atofBits (rtArray eltv)
      s!"{hexFixed 16 folded} {hexFixed 16 rt}\tlit=d"
    else "bad-op"
  | ["hash64", seed, cnt] =>
    match parseHex seed 16, cnt.toNat? with
    | some seed, some cnt => s!"{cnt} {hexFixed 16 (hash64Loop (UInt64.ofNat seed) cnt 0xcbf29ce484222325).toNat}"
    | _, _ => "bad-op"
  | _ => "bad-op"

end AldorVerif.Driver.XFloat
