import AldorVerif.Model.Store
import Std.Data.HashMap
/-! line protocol for the `store` module (driver side; not part of the model).

`consts` → the model's constants in the C driver's format.
`H <op>…` → one history on a fresh allocator.  Ops as for harness/store_drv.c, with the inputs
recorded from the real run added:
  a <code> <n> <grant>     r <id> <n> <grant>     f <id>    c <id> <code>    d <id>
  g <freed ids, comma separated, or ->
Block ids are the 0-based index of the allocating op. -/
namespace AldorVerif.Driver.Store
open AldorVerif.Store

def commas (l : List Nat) : String := ",".intercalate (l.map toString)

def constsLine : String :=
  s!"ptr={ptrSize} fixed={commas fixedSizes} fmax={fixedSizeMax} mq={mixedQuantum} pg={pgSize} " ++
  s!"shead={sectHead} mhead={mxHead} qinfo={qmInfoSize} fxgrp={fixedPgGroup} mxgrp={mixedPgGroup} " ++
  s!"codemask={codeMask} align={ptrSize}"

structure DS where
  s : State
  ptr : Std.HashMap Nat Nat      -- id ↦ pointer of the live block
  out : Array String
  tags : Array String

def showBlock (s : State) (p : Nat) : String :=
  match s.blockAt p with
  | some (sc, x, c) =>
    let k := match sc.cls with | some _ => "F" | none => "M"
    s!"p={p} u={x.n - sc.hdr} c={c} s={sc.base}:{sc.pages}:{k}:{sc.qm}"
  | none => "p=? (not a live block in the model)"

def digest (s : State) : String :=
  let fl := commas (s.fl.map List.length)
  let tb := (s.tree.map (fun e => e.1 * e.2.length)).sum
  let fr := match s.frontier with | some f => toString f | none => "-"
  s!"fl={fl} tree={tb} front={fr} ns={s.sects.length}"

def DS.emit (d : DS) (s : State) (o : String) : DS :=
  { d with s := { s with log := [] }, out := d.out.push o, tags := d.tags ++ s.log.reverse.toArray }

def DS.fail (d : DS) (o : String) : DS := { d with out := d.out.push o }

partial def go (d : DS) (step : Nat) : List String → DS
  | [] => d
  | "a" :: c :: n :: g :: rest =>
    match c.toNat?, n.toNat?, g.toNat? with
    | some c, some n, some g =>
      match alloc d.s c n g with
      | some (s', p) => go ({ d with ptr := d.ptr.insert step p }.emit s' (showBlock s' p)) (step + 1) rest
      | none => d.fail "model-refuses"
    | _, _, _ => d.fail "bad-op"
  | "f" :: i :: rest =>
    match i.toNat?.bind (fun i => (d.ptr.get? i).map (fun p => (i, p))) with
    | some (i, p) =>
      match free d.s p with
      | some s' => go ({ d with ptr := d.ptr.erase i }.emit s' "ok") (step + 1) rest
      | none => d.fail "model-refuses"
    | none => d.fail "bad-op"
  | "r" :: i :: n :: g :: rest =>
    match i.toNat?.bind (fun i => (d.ptr.get? i).map (fun p => (i, p))), n.toNat?, g.toNat? with
    | some (i, p), some n, some g =>
      let ouse := (d.s.usable p).getD 0
      match resize d.s p n g with
      | some (s', q) =>
        let keep := if q = p then ouse else min n ouse
        go ({ d with ptr := d.ptr.insert i q }.emit s' (showBlock s' q ++ s!" keep={keep}")) (step + 1) rest
      | none => d.fail "model-refuses"
    | _, _, _ => d.fail "bad-op"
  | "c" :: i :: c :: rest =>
    match i.toNat?.bind (fun i => d.ptr.get? i), c.toNat? with
    | some p, some c =>
      match recode d.s p c with
      | some s' => go (d.emit s' s!"c={(s'.code p).getD 0}") (step + 1) rest
      | none => d.fail "model-refuses"
    | _, _ => d.fail "bad-op"
  | "d" :: i :: rest =>
    match i.toNat?.bind (fun i => d.ptr.get? i) with
    | some _ => go (d.emit d.s "ok") (step + 1) rest
    | none => d.fail "bad-op"
  | "g" :: fr :: rest =>
    let freed := if fr = "-" then [] else (fr.splitOn ",").filterMap String.toNat?
    let ptr := freed.foldl (fun m i => m.erase i) d.ptr
    let surv := ptr.fold (fun l _ p => p :: l) []
    match sweep d.s surv with
    | some s' => go ({ d with ptr := ptr }.emit s' ("gc " ++ digest s')) (step + 1) rest
    | none => d.fail "model-refuses"
  | _ => d.fail "bad-op"

def line (toks : List String) : String :=
  match toks with
  | ["consts"] => constsLine
  | "H" :: ops =>
    let d := go ⟨init, {}, #[], #[]⟩ 0 ops
    " ; ".intercalate (d.out.toList ++ ["end " ++ digest d.s]) ++ "\t" ++ " ".intercalate d.tags.toList
  | _ => "bad-op"

end AldorVerif.Driver.Store
