import AldorVerif.Model.Dnf
/-! line protocol for the `dnf` module (driver side; not part of the model) -/
namespace AldorVerif.Driver.Dnf
open AldorVerif.Dnf

partial def parse : List String → Option (Form × List String)
  | "T" :: r => some (.tt, r)
  | "F" :: r => some (.ff, r)
  | "~" :: r => do let (f, r) ← parse r; pure (.not f, r)
  | "&" :: r => do let (f, r) ← parse r; let (g, r) ← parse r; pure (.and f g, r)
  | "|" :: r => do let (f, r) ← parse r; let (g, r) ← parse r; pure (.or f g, r)
  | t :: r => do let a ← t.toInt?; if a = 0 then none else pure (.atom a, r)
  | [] => none

def showConj (c : Conj) : String := "[" ++ " ".intercalate (c.map toString) ++ "]"
def showDnf (d : DNF) : String := "DNF{" ++ " ".intercalate (d.map showConj) ++ "}"

def b01 (b : Bool) : String := if b then "1" else "0"

/-- one request line → `result<TAB>tags` -/
def line (toks : List String) : String :=
  match toks with
  | "B" :: r =>
    match parse r with
    | some (f, []) => showDnf f.toDnf ++ "\tmulti=" ++ b01 f.multi
    | _ => "bad-op"
  | "I" :: r =>
    match parse r with
    | some (f, ";" :: r2) =>
      match parse r2 with
      | some (g, []) => b01 (dnfImplies f.toDnf g.toDnf) ++ " " ++ showDnf f.toDnf ++ " " ++ showDnf g.toDnf
                          ++ "\tmulti=" ++ b01 (f.multi || g.multi)
      | _ => "bad-op"
    | _ => "bad-op"
  | "E" :: r =>
    match parse r with
    | some (f, ";" :: r2) =>
      match parse r2 with
      | some (g, []) => b01 (dnfEqual f.toDnf g.toDnf) ++ " " ++ showDnf f.toDnf ++ " " ++ showDnf g.toDnf
                          ++ "\tmulti=" ++ b01 (f.multi || g.multi)
      | _ => "bad-op"
    | _ => "bad-op"
  | _ => "bad-op"

end AldorVerif.Driver.Dnf
