import AldorVerif.Model.MiniTy
import AldorVerif.Model.EmitGate
/-! line protocol for the `minity` module (driver side; not part of the model)

request  `P <ndecls> decl…`  (prefix form, blank separated), see `pDecl`:
  expr `L ty n` | `V x` | `A f q|- nargs nkeys key… arg…` (the last nkeys args are the keyword ones)
  stmt `c x ty e` | `v x ty e` | `a x e` | `r e` | `e e` (body value) | `x c e` (`c => e`)
  param `name ty dflt|-`;  sig `name anon nparams param… res`;  def `name bare nparams param… res nstmts stmt…`
answer   records separated by U+001E, fields by `|`, newlines of program text as U+001F:
  record 0: `ok|<distinct 0/1>` or `err|<kind>|<site>|<distinct>`
  record 1: rendered text of the program
  one record per eligible (kind, site):
    `M|<kind>|<params>|<site>|<expected error kind>|<model verdict kind>|<model verdict site>|`
    `<l1> <c1> <l2> <c2>|<statement span>|<definition span>|<family constraints hold 0/1>|<text of the mutant>`
request  `X <errors> <-F name…>`: the output decision model (Model/EmitGate.lean); answers which of
         `asy ao fm lsp java c o` are written (`-` if none). -/
namespace AldorVerif.Driver.MiniTy
open AldorVerif.MiniTy


def pTy : List String → Option (BTy × List String)
  | "m" :: r => some (.mint, r)
  | "i" :: r => some (.int, r)
  | "b" :: r => some (.bool, r)
  | "s" :: r => some (.str, r)
  | _ => none

def pNat : List String → Option (Nat × List String)
  | t :: r => t.toNat?.map (·, r)
  | [] => none

def pName : List String → Option (String × List String)
  | t :: r => some (t, r)
  | [] => none

partial def pMany {α : Type} (f : List String → Option (α × List String)) :
    Nat → List String → Option (List α × List String)
  | 0, r => some ([], r)
  | n + 1, r => do
    let (x, r) ← f r
    let (xs, r) ← pMany f n r
    pure (x :: xs, r)

partial def pExpr : List String → Option (Expr × List String)
  | "L" :: r => do
    let (t, r) ← pTy r
    let (n, r) ← pNat r
    pure (.lit t n, r)
  | "V" :: x :: r => some (.var x, r)
  | "A" :: f :: q :: r => do
    let (n, r) ← pNat r
    let (nk, r) ← pNat r
    let (keys, r) ← pMany pName nk r
    let (args, r) ← pMany pExpr n r
    pure (.app f (if q == "-" then none else some q) args keys, r)
  | _ => none

def pStmt : List String → Option (Stmt × List String)
  | "c" :: x :: r => do
    let (t, r) ← pTy r
    let (e, r) ← pExpr r
    pure (.defConst x t e, r)
  | "v" :: x :: r => do
    let (t, r) ← pTy r
    let (e, r) ← pExpr r
    pure (.defVar x t e, r)
  | "a" :: x :: r => do
    let (e, r) ← pExpr r
    pure (.assign x e, r)
  | "r" :: r => do
    let (e, r) ← pExpr r
    pure (.ret e, r)
  | "e" :: r => do
    let (e, r) ← pExpr r
    pure (.value e, r)
  | "x" :: c :: r => do
    let (e, r) ← pExpr r
    pure (.exit c e, r)
  | _ => none

def pParam (r : List String) : Option (Param × List String) := do
  let (x, r) ← pName r
  let (t, r) ← pTy r
  let (d, r) ← pName r
  pure (⟨x, t, d.toNat?⟩, r)

def pSig (r : List String) : Option (Sig × List String) := do
  let (name, r) ← pName r
  let (anon, r) ← pNat r
  let (n, r) ← pNat r
  let (ps, r) ← pMany pParam n r
  let (res, r) ← pTy r
  pure (⟨name, ps, res, anon == 1⟩, r)

def pDef (r : List String) : Option (FunDef × List String) := do
  let (name, r) ← pName r
  let (bare, r) ← pNat r
  let (n, r) ← pNat r
  let (ps, r) ← pMany pParam n r
  let (res, r) ← pTy r
  let (k, r) ← pNat r
  let (body, r) ← pMany pStmt k r
  pure (⟨name, ps, res, body, bare == 1⟩, r)

def pDecl : List String → Option (Decl × List String)
  | "C" :: n :: r => do
    let (k, r) ← pNat r
    let (sigs, r) ← pMany pSig k r
    pure (.cat n sigs, r)
  | "D" :: n :: c :: r => do
    let (k, r) ← pNat r
    let (defs, r) ← pMany pDef k r
    pure (.dom n c defs, r)
  | "F" :: n :: t :: pc :: c :: r => do
    let (k, r) ← pNat r
    let (defs, r) ← pMany pDef k r
    pure (.functor n t pc c defs, r)
  | "U" :: r => do
    let (d, r) ← pDef r
    pure (.func d, r)
  | "I" :: d :: r => some (.imp d, r)
  | "S" :: r => do
    let (s, r) ← pStmt r
    pure (.stmt s, r)
  | _ => none

def pProg (r : List String) : Option Prog := do
  let (n, r) ← pNat r
  let (ds, r) ← pMany pDecl n r
  if r.isEmpty then pure ds else none

def showSite (s : Site) : String := if s.isEmpty then "-" else ".".intercalate (s.map toString)

def showErrKind : ErrKind → String
  | .wrongArgType => "wrongArgType" | .wrongArgCount => "wrongArgCount"
  | .undefinedName => "undefinedName" | .ambiguous => "ambiguous" | .assignConst => "assignConst"
  | .wrongReturnType => "wrongReturnType" | .missingExport => "missingExport"
  | .paramLacksOp => "paramLacksOp" | .unknownKeyword => "unknownKeyword"
  | .duplicateArg => "duplicateArg" | .keywordClash => "keywordClash" | .typeMismatch => "typeMismatch"
  | .notAssignable => "notAssignable" | .misplacedReturn => "misplacedReturn"
  | .missingReturn => "missingReturn" | .internal => "internal"

def tyCode : BTy → String
  | .mint => "m" | .int => "i" | .bool => "b" | .str => "s"

def showKind : Kind → String × String
  | .wrongArgType a t => ("wrongArgType", s!"{a} {tyCode t}")
  | .wrongArgCount m => ("wrongArgCount", if m then "more" else "less")
  | .undefinedName y => ("undefinedName", y)
  | .ambiguous => ("ambiguous", "")
  | .assignConst c => ("assignConst", c)
  | .wrongReturnType t => ("wrongReturnType", tyCode t)
  | .missingExport d => ("missingExport", toString d)
  | .paramLacksOp g => ("paramLacksOp", g)
  | .unknownKeyword y => ("unknownKeyword", y)
  | .tooManyPositional => ("tooManyPositional", "")
  | .keywordDupPositional => ("keywordDupPositional", "")
  | .omitRequired => ("omitRequired", "")

def showSpan : Option Span → String
  | some s => s!"{s.l1} {s.c1} {s.l2} {s.c2}"
  | none => "?"

def nl : String := "\u001f"
def rs : String := "\u001e"

def showText (p : Prog) : String := nl.intercalate p.render

/-- the parameter values tried at every site: a finite superset of what can be eligible -/
def kindCandidates (p : Prog) : List Kind :=
  let g := globalEnv p
  let consts := (g.vals ++ p.funDefs.flatMap FunDef.locals).filter (·.const) |>.map (·.name)
  let ops := (g.cats.flatMap (fun c => c.2.map (·.name))).eraseDups
  let maxDefs := p.foldl (fun n d => match d with
    | .dom _ _ ds => max n ds.length | .functor _ _ _ _ ds => max n ds.length | _ => n) 0
  (List.range 5).flatMap (fun a => BTy.all.map (Kind.wrongArgType a)) ++
  [.wrongArgCount true, .wrongArgCount false, .undefinedName "zzUndef", .ambiguous,
   .unknownKeyword "zzKw", .tooManyPositional, .keywordDupPositional, .omitRequired] ++
  consts.eraseDups.map Kind.assignConst ++ BTy.all.map Kind.wrongReturnType ++
  (List.range maxDefs).map Kind.missingExport ++ (ops ++ ["zzNoOp"]).map Kind.paramLacksOp

def showVerdict : Except TypeErr Unit → String
  | .ok () => "ok|-"
  | .error e => showErrKind e.kind ++ "|" ++ showSite e.site

def mutantRecords (p : Prog) : List String :=
  let ks := kindCandidates p
  p.sites.flatMap (fun s => ks.filterMap (fun k =>
    match mutate k s p with
    | some p' =>
      let (kn, kp) := showKind k
      some ("|".intercalate ["M", kn, kp, showSite s, showErrKind (expectedKind k),
        showVerdict (typecheck p'), showSpan (p'.spanAt s), showSpan (p'.spanAt (p'.stmtSite s)),
        showSpan (p'.spanAt (p'.defSite s)), (if p'.familyOk then "1" else "0"),
        showText p'])
    | none => none))

def ftOf : String → Option AldorVerif.EmitGate.FType
  | "ai" => some .included | "ap" => some .absyn | "ax" => some .oldabsyn | "ao" => some .intermed
  | "fm" => some .foamexpr | "asy" => some .symeexpr | "abn" => some .annabs | "lsp" => some .lisp
  | "c" => some .c | "java" => some .java | "c++" => some .cpp | "o" => some .object
  | "x" => some .exec | "main" => some .axlmainc
  | _ => none

def b01 (b : Bool) : String := if b then "1" else "0"

def line (toks : List String) : String :=
  match toks with
  | "P" :: r =>
    match pProg r with
    | some p =>
      let d := b01 p.familyOk
      match typecheck p with
      | .ok () =>
        let ms := mutantRecords p
        rs.intercalate (["ok|" ++ d, showText p] ++ ms) ++ s!"\tok mutants={ms.length}"
      | .error e =>
        rs.intercalate ["err|" ++ showErrKind e.kind ++ "|" ++ showSite e.site ++ "|" ++ d, showText p]
          ++ "\terr"
    | none => "bad-op"
  | "X" :: n :: flags =>
    match n.toNat? with
    | some n =>
      let fts := flags.filterMap ftOf
      if fts.length != flags.length then "bad-op" else
      let o : AldorVerif.EmitGate.Opts := { emitDo := fun ft => fts.contains ft }
      let out := ["asy", "ao", "fm", "lsp", "java", "c", "o"].filter (fun f =>
        match ftOf f with
        | some ft => AldorVerif.EmitGate.emitted n o ft
        | none => false)
      (if out.isEmpty then "-" else " ".intercalate out) ++ "\t" ++
        (if AldorVerif.EmitGate.moreAfterSyntax n false o then "gate-open" else "gate-closed")
    | none => "bad-op"
  | _ => "bad-op"

end AldorVerif.Driver.MiniTy
