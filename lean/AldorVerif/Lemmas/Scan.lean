import AldorVerif.Model.Scan

/-! Lemmas about the scan model: every movement leaves a suffix of the text; the bytes of a
scanned word come from the text; without the escape character `scIsEscaped` stays false. -/
namespace AldorVerif.Scan

theorem adv1_suffix : ∀ (r : List Nat) (m : Nat), (adv1 m r).1 <:+ r := by
  intro r
  induction r with
  | nil => intro m; match m with
    | 0 => simp [adv1]
    | 1 => simp [adv1]
    | _ + 2 => simp [adv1]
  | cons c r ih =>
    intro m
    match m with
    | 0 =>
      simp only [adv1]; split
      · exact (ih 1).trans (List.suffix_cons c r)
      · exact List.suffix_refl _
    | 1 =>
      simp only [adv1]; split
      · exact (ih 2).trans (List.suffix_cons c r)
      · exact List.suffix_refl _
    | _ + 2 =>
      simp only [adv1]; split
      · exact (ih 2).trans (List.suffix_cons c r)
      · split
        · exact (ih 1).trans (List.suffix_cons c r)
        · exact List.suffix_refl _

theorem adv_suffix (s : St) (c : Bool) : (s.adv c).rest <:+ s.rest := by
  unfold St.adv
  split
  · exact List.tail_suffix _
  · exact (adv1_suffix _ 0).trans (List.tail_suffix _)

theorem skipSpace_suffix : ∀ (n : Nat) (s : St), (skipSpace n s).rest <:+ s.rest := by
  intro n
  induction n with
  | zero => intro s; simp [skipSpace]
  | succ n ih =>
    intro s
    simp only [skipSpace]
    split
    · exact List.suffix_refl _
    · split
      · exact (ih _).trans (adv_suffix s false)
      · exact List.suffix_refl _

theorem peek_mem (s : St) : s.peek ∈ s.rest ∨ s.peek = 0 := by
  unfold St.peek
  cases s.rest with
  | nil => right; rfl
  | cons c r => left; simp

theorem wordLoop_spec : ∀ (n : Nat) (s : St) (acc : List Nat),
    (wordLoop n s acc).2.rest <:+ s.rest ∧
    (∀ b ∈ (wordLoop n s acc).1, b ∈ acc ∨ b ∈ s.rest ∨ b = 0) ∧
    acc.reverse <+: (wordLoop n s acc).1 := by
  intro n
  induction n with
  | zero =>
    intro s acc
    simp only [wordLoop]
    exact ⟨List.suffix_refl _, fun b hb => Or.inl (List.mem_reverse.mp hb), List.prefix_refl _⟩
  | succ n ih =>
    intro s acc
    simp only [wordLoop]
    split
    · exact ⟨List.suffix_refl _, fun b hb => Or.inl (List.mem_reverse.mp hb), List.prefix_refl _⟩
    · obtain ⟨h1, h2, h3⟩ := ih s.adv (s.peek :: acc)
      refine ⟨h1.trans (adv_suffix s false), ?_, ?_⟩
      · intro b hb
        rcases h2 b hb with h | h | h
        · rcases List.mem_cons.mp h with h | h
          · subst h
            rcases peek_mem s with h | h
            · exact Or.inr (Or.inl h)
            · exact Or.inr (Or.inr h)
          · exact Or.inl h
        · exact Or.inr (Or.inl ((adv_suffix s false).subset h))
        · exact Or.inr (Or.inr h)
      · simp only [List.reverse_cons] at h3
        exact (List.prefix_append _ _).trans h3

/-- what every token scanner guarantees -/
structure StepOK (s : St) (r : Tok × St) : Prop where
  suffix : r.2.rest <:+ s.rest
  bytes : ∀ w, r.1.word? = some w → ∀ b ∈ w, b ∈ s.rest ∨ b = 0
  head : ∀ w, r.1.word? = some w → (isNormal s.peek = true ∨ s.esc = true) → w.head? = some s.peek

theorem wordLoop_head (s : St) (n : Nat) (h : isNormal s.peek = true ∨ s.esc = true) :
    (wordLoop (n + 1) s []).1.head? = some s.peek := by
  have hc : ¬ ((!isNormal s.peek && !s.esc) = true) := by
    rcases h with h | h <;> simp [h]
  simp only [wordLoop, if_neg hc]
  have := (wordLoop_spec n s.adv [s.peek]).2.2
  simp only [List.reverse_cons, List.reverse_nil, List.nil_append] at this
  obtain ⟨t, ht⟩ := this
  rw [← ht]; rfl

theorem scanWord_ok (s : St) : StepOK s (scanWord s) := by
  have hs := wordLoop_spec (s.rest.length + 2) s []
  have hh := wordLoop_head s (s.rest.length + 1)
  unfold scanWord
  generalize wordLoop (s.rest.length + 2) s [] = p at hs hh
  obtain ⟨w, s'⟩ := p
  simp only at hs hh ⊢
  have hb : ∀ b ∈ w, b ∈ s.rest ∨ b = 0 := fun b hb => by
    rcases hs.2.1 b hb with h | h
    · simp at h
    · exact h
  cases keyTag w with
  | oob idx =>
    exact ⟨hs.1, fun w' hw => by simp [Tok.word?] at hw; subst hw; exact hb,
           fun w' hw h => by simp [Tok.word?] at hw; subst hw; exact hh h⟩
  | tag kno =>
    simp only
    split
    · exact ⟨hs.1, fun w' hw => by simp [Tok.word?] at hw; subst hw; exact hb,
             fun w' hw h => by simp [Tok.word?] at hw; subst hw; exact hh h⟩
    · split
      · exact ⟨hs.1, fun w' hw => by simp [Tok.word?] at hw; subst hw; exact hb,
               fun w' hw h => by simp [Tok.word?] at hw; subst hw; exact hh h⟩
      · exact ⟨hs.1, fun w' hw => by simp [Tok.word?] at hw; subst hw; exact hb,
               fun w' hw h => by simp [Tok.word?] at hw; subst hw; exact hh h⟩

/-- a scanner that never produces a word token -/
theorem stepOK_of_noword {s : St} {r : Tok × St} (h1 : r.2.rest <:+ s.rest) (h2 : r.1.word? = none) : StepOK s r :=
  ⟨h1, fun w hw => (by rw [h2] at hw; cases hw), fun w hw _ => (by rw [h2] at hw; cases hw)⟩

theorem stringLoop_spec : ∀ (n : Nat) (s : St) (acc : List Nat),
    (stringLoop n s acc).2.rest <:+ s.rest ∧ (stringLoop n s acc).1.word? = none := by
  intro n
  induction n with
  | zero => intro s acc; simp [stringLoop, Tok.word?]
  | succ n ih =>
    intro s acc
    simp only [stringLoop]
    split
    · exact ⟨adv_suffix s false, rfl⟩
    · split
      · exact ⟨List.suffix_refl _, rfl⟩
      · exact ⟨(ih _ _).1.trans (adv_suffix s false), (ih _ _).2⟩

theorem scanString_ok (s : St) : StepOK s (scanString s) := by
  unfold scanString
  exact stepOK_of_noword ((stringLoop_spec _ _ _).1.trans (adv_suffix s false)) (stringLoop_spec _ _ _).2

theorem commentLoop_suffix : ∀ (r acc : List Nat), (commentLoop r acc).2 <:+ r := by
  intro r
  induction r with
  | nil => intro acc; simp [commentLoop]
  | cons c r ih =>
    intro acc
    simp only [commentLoop]
    split
    · exact List.suffix_refl _
    · exact (ih _).trans (List.suffix_cons c r)

theorem scanComment_ok (s : St) : StepOK s (scanComment s) := by
  unfold scanComment
  refine stepOK_of_noword ?_ rfl
  exact (commentLoop_suffix _ _).trans ((adv_suffix _ true).trans (adv_suffix s true))

theorem scanDoc_ok (s : St) : StepOK s (scanDoc s) := by
  unfold scanDoc
  have h2 : ((s.adv true).adv true).rest <:+ s.rest := (adv_suffix _ true).trans (adv_suffix s true)
  refine stepOK_of_noword ?_ ?_
  · simp only
    split
    · exact (commentLoop_suffix _ _).trans ((adv_suffix _ true).trans h2)
    · exact (commentLoop_suffix _ _).trans h2
  · simp only; split <;> rfl

theorem scanError_ok (v : Bool) (s : St) : StepOK s (scanError v s) :=
  stepOK_of_noword (adv_suffix s false) rfl

theorem advN_suffix : ∀ (n : Nat) (s : St), (advN n s).rest <:+ s.rest := by
  intro n
  induction n with
  | zero => intro s; exact List.suffix_refl _
  | succ n ih => intro s; exact (ih _).trans (adv_suffix s false)

theorem scanSpecial_ok (s : St) : StepOK s (scanSpecial s) := by
  unfold scanSpecial
  cases keyLongest s.rest with
  | oob idx => exact stepOK_of_noword (List.suffix_refl _) rfl
  | tag kno =>
    simp only
    split
    · exact scanError_ok true s
    · exact stepOK_of_noword (advN_suffix _ _) rfl

/-- `scanTokenCases`: where the token comes from -/
theorem scanTokenCases_ok (fs0 : FloatState) (s0 : St) (t : Tok) (s' : St)
    (h : scanTokenCases fs0 s0 = (some t, s')) :
    s'.rest <:+ s0.rest ∧
    ∀ w, t.word? = some w →
      (∀ b ∈ w, b ∈ s0.rest ∨ b = 0) ∧
      ∃ fs, dispatch (skipSpace (s0.rest.length + 1) s0).peek (skipSpace (s0.rest.length + 1) s0).next
              (skipSpace (s0.rest.length + 1) s0).esc fs = .word ∧
        ((isNormal (skipSpace (s0.rest.length + 1) s0).peek = true ∨ (skipSpace (s0.rest.length + 1) s0).esc = true) →
          w.head? = some (skipSpace (s0.rest.length + 1) s0).peek) := by
  have hsk := skipSpace_suffix (s0.rest.length + 1) s0
  unfold scanTokenCases at h
  simp only at h
  generalize skipSpace (s0.rest.length + 1) s0 = s at h hsk ⊢
  generalize (if crossedLine s0 s = true then FloatState.anyFloat else fs0) = fs at h
  have key : ∀ r : Tok × St, StepOK s r → (some r.1, r.2) = (some t, s') → r.1.word? = none →
      s'.rest <:+ s0.rest ∧ ∀ w, t.word? = some w → (∀ b ∈ w, b ∈ s0.rest ∨ b = 0) ∧
        ∃ fs, dispatch s.peek s.next s.esc fs = .word ∧ ((isNormal s.peek = true ∨ s.esc = true) → w.head? = some s.peek) := by
    intro r hr he hn
    simp only [Prod.mk.injEq, Option.some.injEq] at he
    obtain ⟨h1, h2⟩ := he
    subst h1; subst h2
    exact ⟨hr.suffix.trans hsk, fun w hw => by rw [hn] at hw; cases hw⟩
  split at h
  · cases h
  · simp only [Prod.mk.injEq, Option.some.injEq] at h
    obtain ⟨h1, h2⟩ := h
    subst h1; subst h2
    exact ⟨(adv_suffix s false).trans hsk, fun w hw => by cases hw⟩
  · rename_i hd
    simp only [Prod.mk.injEq, Option.some.injEq] at h
    obtain ⟨h1, h2⟩ := h
    have hr := scanWord_ok s
    subst h1; subst h2
    refine ⟨hr.suffix.trans hsk, fun w hw => ⟨fun b hb => ?_, fs, hd, hr.head w hw⟩⟩
    rcases hr.bytes w hw b hb with hb | hb
    · exact Or.inl (hsk.subset hb)
    · exact Or.inr hb
  · simp only [Prod.mk.injEq, Option.some.injEq] at h
    obtain ⟨h1, h2⟩ := h
    subst h1; subst h2
    exact ⟨hsk, fun w hw => by cases hw⟩
  · refine key _ (scanString_ok s) h ?_
    unfold scanString; exact (stringLoop_spec _ _ _).2
  · exact key _ (scanComment_ok s) h rfl
  · refine key _ (scanDoc_ok s) h ?_
    unfold scanDoc; simp only; split <;> rfl
  · refine key _ (scanSpecial_ok s) h ?_
    unfold scanSpecial
    cases keyLongest s.rest with
    | oob idx => rfl
    | tag kno => simp only; split <;> rfl
  · exact key _ (scanError_ok false s) h rfl

/-- the tokens of `scanLoop` come from `scanTokenCases` steps; `Q` is any invariant of the state -/
theorem scanLoop_words (Q : St → Prop) (P : List Nat → Prop)
    (hstep : ∀ fs s t s', Q s → scanTokenCases fs s = (some t, s') → Q s' ∧ ∀ w, t.word? = some w → P w) :
    ∀ (n : Nat) (fs : FloatState) (s : St), Q s → ∀ t ∈ scanLoop n fs s, ∀ w, t.word? = some w → P w := by
  intro n
  induction n with
  | zero => intro fs s _ t ht; simp [scanLoop] at ht
  | succ n ih =>
    intro fs s hq t ht w hw
    simp only [scanLoop] at ht
    split at ht
    · simp at ht
    · rename_i t' s' heq
      have hs := hstep fs s t' s' hq heq
      split at ht
      · simp only [List.mem_singleton] at ht; subst ht; exact hs.2 w hw
      · simp only [List.mem_singleton] at ht; subst ht; exact hs.2 w hw
      · simp only [List.mem_singleton] at ht; subst ht; exact hs.2 w hw
      · rcases List.mem_cons.mp ht with h | h
        · subst h; exact hs.2 w hw
        · exact ih _ s' hs.1 t h w hw

theorem dropIndent_suffix : ∀ (l : List Nat), dropIndent l <:+ l := by
  intro l
  induction l with
  | nil => simp [dropIndent]
  | cons c r ih =>
    simp only [dropIndent]
    split
    · exact ih.trans (List.suffix_cons c r)
    · exact List.suffix_refl _

/-- every byte of every string handed to `keyTag` is a byte of the text (or the terminating 0
    that an escape at the very end of the text makes `scanWord` collect) -/
theorem scan_word_bytes (src : List Nat) : ∀ t ∈ scan src, ∀ w, t.word? = some w → ∀ b ∈ w, b ∈ src ∨ b = 0 := by
  unfold scan
  simp only
  refine scanLoop_words (fun s => s.rest <:+ src) (fun w => ∀ b ∈ w, b ∈ src ∨ b = 0) ?_ _ _ _ (dropIndent_suffix src)
  intro fs s t s' hq h
  have := scanTokenCases_ok fs s t s' h
  refine ⟨this.1.trans hq, fun w hw b hb => ?_⟩
  rcases (this.2 w hw).1 b hb with h | h
  · exact Or.inl (hq.subset h)
  · exact Or.inr h

/-! ### without the escape character `scIsEscaped` stays false -/

theorem adv_noesc (s : St) (c : Bool) (h : ESC ∉ s.rest) : (s.adv c).esc = false := by
  unfold St.adv
  split
  · rfl
  · have ht : ESC ∉ s.rest.tail := fun hm => h (List.mem_of_mem_tail hm)
    cases hr : s.rest.tail with
    | nil => simp [adv1]
    | cons a r =>
      rw [hr] at ht
      have : a ≠ ESC := fun e => ht (by simp [e])
      simp [adv1, this]

theorem noesc_of_suffix {a b : List Nat} (h : a <:+ b) (hb : ESC ∉ b) : ESC ∉ a := fun hm => hb (h.subset hm)

theorem skipSpace_noesc : ∀ (n : Nat) (s : St), s.esc = false → ESC ∉ s.rest → (skipSpace n s).esc = false := by
  intro n
  induction n with
  | zero => intro s h _; simpa [skipSpace] using h
  | succ n ih =>
    intro s h hn
    simp only [skipSpace]
    split
    · exact h
    · split
      · exact ih _ (adv_noesc s false hn) (noesc_of_suffix (adv_suffix s false) hn)
      · exact h

theorem wordLoop_noesc : ∀ (n : Nat) (s : St) (acc : List Nat), s.esc = false → ESC ∉ s.rest →
    (wordLoop n s acc).2.esc = false := by
  intro n
  induction n with
  | zero => intro s acc h _; simpa [wordLoop] using h
  | succ n ih =>
    intro s acc h hn
    simp only [wordLoop]
    split
    · exact h
    · exact ih _ _ (adv_noesc s false hn) (noesc_of_suffix (adv_suffix s false) hn)

theorem stringLoop_noesc : ∀ (n : Nat) (s : St) (acc : List Nat), s.esc = false → ESC ∉ s.rest →
    (stringLoop n s acc).2.esc = false := by
  intro n
  induction n with
  | zero => intro s acc h _; simpa [stringLoop] using h
  | succ n ih =>
    intro s acc h hn
    simp only [stringLoop]
    split
    · exact adv_noesc s false hn
    · split
      · exact h
      · exact ih _ _ (adv_noesc s false hn) (noesc_of_suffix (adv_suffix s false) hn)

theorem advN_noesc : ∀ (n : Nat) (s : St), s.esc = false → ESC ∉ s.rest → (advN n s).esc = false := by
  intro n
  induction n with
  | zero => intro s h _; exact h
  | succ n ih => intro s h hn; exact ih _ (adv_noesc s false hn) (noesc_of_suffix (adv_suffix s false) hn)

theorem scanTokenCases_noesc (fs0 : FloatState) (s0 : St) (t : Tok) (s' : St)
    (he : s0.esc = false) (hn : ESC ∉ s0.rest) (h : scanTokenCases fs0 s0 = (some t, s')) :
    s'.esc = false ∧ (skipSpace (s0.rest.length + 1) s0).esc = false := by
  have hsk := skipSpace_suffix (s0.rest.length + 1) s0
  have hse := skipSpace_noesc (s0.rest.length + 1) s0 he hn
  refine ⟨?_, hse⟩
  unfold scanTokenCases at h
  simp only at h
  generalize skipSpace (s0.rest.length + 1) s0 = s at h hsk hse
  have hsn : ESC ∉ s.rest := noesc_of_suffix hsk hn
  generalize (if crossedLine s0 s = true then FloatState.anyFloat else fs0) = fs at h
  split at h
  · cases h
  all_goals (simp only [Prod.mk.injEq, Option.some.injEq] at h; obtain ⟨_, h2⟩ := h; subst h2)
  · exact adv_noesc s false hsn
  · unfold scanWord
    have := wordLoop_noesc (s.rest.length + 2) s [] hse hsn
    generalize wordLoop (s.rest.length + 2) s [] = p at this
    obtain ⟨w, s2⟩ := p
    simp only at this ⊢
    cases keyTag w with
    | oob idx => exact this
    | tag kno => simp only; split; exact this; split <;> exact this
  · exact hse
  · unfold scanString
    exact stringLoop_noesc _ _ _ (adv_noesc s false hsn) (noesc_of_suffix (adv_suffix s false) hsn)
  · rfl
  · rfl
  · unfold scanSpecial
    cases keyLongest s.rest with
    | oob idx => exact hse
    | tag kno =>
      simp only
      split
      · exact adv_noesc s false hsn
      · exact advN_noesc _ s hse hsn
  · exact adv_noesc s false hsn

theorem dispatch_word_unescaped (c cn : Nat) (fs : FloatState) (h : dispatch c cn false fs = .word) :
    (isAlpha c || c == 37 || c == 63) = true := by
  unfold dispatch at h
  split at h; · cases h
  split at h; · cases h
  split at h
  · rename_i hc; simpa using hc
  all_goals (repeat (first | cases h | split at h))

theorem isNormal_of_start (c : Nat) (h : (isAlpha c || c == 37 || c == 63) = true) : isNormal c = true := by
  unfold isNormal isAlnum
  simp only [Bool.or_eq_true] at h ⊢
  rcases h with (h | h) | h
  · exact Or.inl (Or.inl (Or.inl (Or.inl h)))
  · exact Or.inl (Or.inl (Or.inr h))
  · exact Or.inr h

/-- without the escape character only ASCII letters, `%` and `?` start the strings handed to `keyTag` -/
theorem scan_word_start_unescaped (src : List Nat) (hn : ESC ∉ src) :
    ∀ t ∈ scan src, ∀ w, t.word? = some w →
      ∃ c, w.head? = some c ∧ (isAlpha c || c == 37 || c == 63) = true := by
  unfold scan
  simp only
  refine scanLoop_words (fun s => s.esc = false ∧ ESC ∉ s.rest)
    (fun w => ∃ c, w.head? = some c ∧ (isAlpha c || c == 37 || c == 63) = true) ?_ _ _ _
    ⟨rfl, noesc_of_suffix (dropIndent_suffix src) hn⟩
  intro fs s t s' hq h
  have h1 := scanTokenCases_ok fs s t s' h
  have h2 := scanTokenCases_noesc fs s t s' hq.1 hq.2 h
  refine ⟨⟨h2.1, noesc_of_suffix h1.1 hq.2⟩, fun w hw => ?_⟩
  obtain ⟨_, fs', hd, hh⟩ := h1.2 w hw
  rw [h2.2] at hd
  have hc := dispatch_word_unescaped _ _ _ hd
  exact ⟨_, hh (Or.inl (isNormal_of_start _ hc)), hc⟩

end AldorVerif.Scan
