import AldorVerif.Model.Linear
/-!
Helper lemmas for Props/C14.lean: `linearize` commutes with re-positioning of the tokens
(`Tok.re φ h`: column `c ↦ φ c`, line `l ↦ h l`) when `φ` is strictly increasing and fixes 0.
Core Lean only.
-/
namespace AldorVerif.Linear

/-- move a token: column `c ↦ φ c`, line `l ↦ h l` (tag and text stay) -/
def Tok.re (φ h : Nat → Nat) (t : Tok) : Tok := { t with col := φ t.col, line := h t.line }

/-- the same on `indent` values: `MootIndentation` (negative) stays -/
def reI (φ : Nat → Nat) (i : Int) : Int := if i < 0 then i else (φ i.toNat : Int)

mutual
def LNode.re (φ h : Nat → Nat) : LNode → LNode
  | .tok1 t => .tok1 (t.re φ h)
  | .ntok hs i ts => .ntok hs (reI φ i) (ts.map (Tok.re φ h))
  | .nodes hs i cs => .nodes hs (reI φ i) (reL φ h cs)
  | .pile hs i cs => .pile hs (reI φ i) (reL φ h cs)
def reL (φ h : Nat → Nat) : List LNode → List LNode
  | [] => []
  | c :: cs => c.re φ h :: reL φ h cs
end

def StrictMonoNat (φ : Nat → Nat) : Prop := ∀ a b, a < b → φ a < φ b

/-- the hypotheses on a re-positioning -/
structure Good (φ h : Nat → Nat) : Prop where
  mono : StrictMonoNat φ
  col0 : φ 0 = 0
  line0 : h 0 = 0

section
variable {φ h : Nat → Nat}

@[simp] theorem Tok.re_tag (t : Tok) : (t.re φ h).tag = t.tag := rfl
@[simp] theorem Tok.re_col (t : Tok) : (t.re φ h).col = φ t.col := rfl
@[simp] theorem Tok.re_text (t : Tok) : (t.re φ h).text = t.text := rfl
@[simp] theorem Tok.re_line (t : Tok) : (t.re φ h).line = h t.line := rfl

theorem reL_eq_map (cs : List LNode) : reL φ h cs = cs.map (LNode.re φ h) := by
  induction cs with
  | nil => rfl
  | cons c cs ih => simp [reL, ih]

theorem Tok.kw_re (g : Good φ h) (o : Option Tok) (k : Tag) :
    Tok.kw (o.map (Tok.re φ h)) k = (Tok.kw o k).re φ h := by
  cases o with
  | none => simp [Tok.kw, Tok.re, g.col0, g.line0]
  | some t => simp [Tok.kw, Tok.re]

theorem fuelTok_re (g : Good φ h) : fuelTok.re φ h = fuelTok := by
  simp [fuelTok, Tok.re, g.col0, g.line0]

/-! ### `reI` is strictly increasing -/

theorem reI_nonneg {i : Int} (hi : 0 ≤ i) : reI φ i = (φ i.toNat : Int) := by
  unfold reI; rw [if_neg (by omega)]

theorem reI_neg {i : Int} (hi : i < 0) : reI φ i = i := by
  unfold reI; rw [if_pos hi]

@[simp] theorem reI_moot : reI φ mootIndentation = mootIndentation := by
  simp [reI, mootIndentation]

@[simp] theorem reI_natCast (n : Nat) : reI φ (n : Int) = (φ n : Int) := by
  rw [reI_nonneg (by omega)]; simp

theorem reI_zero (g : Good φ h) : reI φ 0 = 0 := by
  have := reI_natCast (φ := φ) 0
  simpa [g.col0] using this

theorem reI_lt (g : Good φ h) {a b : Int} : reI φ a < reI φ b ↔ a < b := by
  by_cases ha : a < 0 <;> by_cases hb : b < 0
  · rw [reI_neg ha, reI_neg hb]
  · rw [reI_neg ha, reI_nonneg (by omega)]; omega
  · rw [reI_nonneg (by omega), reI_neg hb]; omega
  · rw [reI_nonneg (by omega), reI_nonneg (by omega)]
    constructor
    · intro hlt
      by_cases hab : a < b
      · exact hab
      · exfalso
        have : b.toNat ≤ a.toNat := by omega
        rcases Nat.lt_or_ge b.toNat a.toNat with h1 | h1
        · have := g.mono _ _ h1; omega
        · have : b.toNat = a.toNat := by omega
          rw [this] at hlt; omega
    · intro hab
      have : a.toNat < b.toNat := by omega
      have := g.mono _ _ this; omega

theorem reI_eq (g : Good φ h) {a b : Int} : reI φ a = reI φ b ↔ a = b := by
  constructor
  · intro he
    rcases Int.lt_trichotomy a b with h1 | h1 | h1
    · have := (reI_lt g).2 h1; omega
    · exact h1
    · have := (reI_lt g).2 h1; omega
  · intro he; rw [he]


/-! ### the list passes -/

theorem xTokens_re (k : Tag) (tl : List Tok) :
    xTokens k (tl.map (Tok.re φ h)) = (xTokens k tl).map (Tok.re φ h) := by
  simp [xTokens, List.filter_map, Function.comp_def]

theorem xBlankLinesGo_re (skip : Bool) (tl : List Tok) :
    xBlankLinesGo skip (tl.map (Tok.re φ h)) = (xBlankLinesGo skip tl).map (Tok.re φ h) := by
  induction tl generalizing skip with
  | nil => rfl
  | cons t r ih =>
    by_cases hc : t.tag = kwNewLine <;> cases skip <;> simp [xBlankLinesGo, hc, ih]

theorem xBlankLines_re (tl : List Tok) :
    xBlankLines (tl.map (Tok.re φ h)) = (xBlankLines tl).map (Tok.re φ h) :=
  xBlankLinesGo_re true tl

theorem prepare_re (g : Good φ h) (m : Bool) (tl : List Tok) :
    prepare m (tl.map (Tok.re φ h)) = (prepare m tl).map (Tok.re φ h) := by
  unfold prepare
  simp only [xTokens_re, xBlankLines_re]
  cases m
  · simp
  · have := (Tok.kw_re g none kwStartPile).symm
    simp only [Option.map_none] at this
    simp [this]

theorem iSepAfterDontPiles_re (tl : List Tok) :
    iSepAfterDontPiles (tl.map (Tok.re φ h)) = (iSepAfterDontPiles tl).map (Tok.re φ h) := by
  induction tl with
  | nil => rfl
  | cons t r ih =>
    cases r with
    | nil => by_cases hc : t.tag = kwCCurly <;> simp [iSepAfterDontPiles, hc]
    | cons u r' =>
      by_cases hc : t.tag = kwCCurly <;> by_cases hs : u.tag = kwSemicolon <;>
        simp [iSepAfterDontPiles, hc, hs, Tok.kw, Tok.re] at ih ⊢ <;> simp [ih]

theorem xSepLeading_re (tl : List Tok) :
    xSepLeading (tl.map (Tok.re φ h)) = (xSepLeading tl).map (Tok.re φ h) := by
  induction tl with
  | nil => rfl
  | cons t r ih =>
    by_cases hc : t.tag = kwSemicolon <;> simp [xSepLeading, hc, ih]

theorem xSepGo_re (tl : List Tok) :
    xSepGo (tl.map (Tok.re φ h)) = (xSepGo tl).map (Tok.re φ h) := by
  fun_induction xSepGo tl <;> simp_all [xSepGo]

theorem useNeededSep_re (tl : List Tok) :
    useNeededSep (tl.map (Tok.re φ h)) = (useNeededSep tl).map (Tok.re φ h) := by
  simp [useNeededSep, xSep, iSepAfterDontPiles_re, xSepLeading_re, xSepGo_re]


/-! ### tree accessors -/

@[simp] theorem LNode.re_has (n : LNode) : (n.re φ h).has = n.has := by
  cases n <;> simp [LNode.re, LNode.has]

theorem LNode.re_indent (n : LNode) : (n.re φ h).indent = reI φ n.indent := by
  cases n <;> simp [LNode.re, LNode.indent]

@[simp] theorem LNode.re_isBlank (n : LNode) : (n.re φ h).isBlank = n.isBlank := by
  simp [LNode.isBlank]

@[simp] theorem LNode.re_isCom (n : LNode) : (n.re φ h).isCom = n.isCom := by
  simp [LNode.isCom]

@[simp] theorem LNode.re_isTok1 (n : LNode) : (n.re φ h).isTok1 = n.isTok1 := by
  cases n <;> simp [LNode.re, LNode.isTok1]

@[simp] theorem LNode.re_tok1? (n : LNode) : (n.re φ h).tok1? = n.tok1?.map (Tok.re φ h) := by
  cases n <;> simp [LNode.re, LNode.tok1?]

@[simp] theorem LNode.re_isKW (n : LNode) (k : Tag) : (n.re φ h).isKW k = n.isKW k := by
  cases n <;> simp [LNode.re, LNode.isKW]

theorem hasOfList_re (cs : List LNode) : hasOfList (cs.map (LNode.re φ h)) = hasOfList cs := by
  unfold hasOfList
  generalize Has.none = a
  induction cs generalizing a with
  | nil => rfl
  | cons c cs ih => simp [List.foldl_cons, ih]

mutual
theorem firstTok_re : ∀ n : LNode, firstTok (n.re φ h) = (firstTok n).map (Tok.re φ h)
  | .tok1 t => by simp [LNode.re, firstTok]
  | .ntok _ _ ts => by cases ts <;> simp [LNode.re, firstTok]
  | .nodes _ _ cs => by simp [LNode.re, firstTok, firstTokL_re cs]
  | .pile _ _ cs => by simp [LNode.re, firstTok, firstTokL_re cs]
theorem firstTokL_re : ∀ cs : List LNode, firstTokL (reL φ h cs) = (firstTokL cs).map (Tok.re φ h)
  | [] => by simp [reL, firstTokL]
  | c :: _ => by simp [reL, firstTokL, firstTok_re c]
end

mutual
theorem lastTok_re : ∀ n : LNode, lastTok (n.re φ h) = (lastTok n).map (Tok.re φ h)
  | .tok1 t => by simp [LNode.re, lastTok]
  | .ntok _ _ ts => by simp [LNode.re, lastTok, List.getLast?_map]
  | .nodes _ _ cs => by simp [LNode.re, lastTok, lastTokL_re cs]
  | .pile _ _ cs => by simp [LNode.re, lastTok, lastTokL_re cs]
theorem lastTokL_re : ∀ cs : List LNode, lastTokL (reL φ h cs) = (lastTokL cs).map (Tok.re φ h)
  | [] => by simp [reL, lastTokL]
  | [c] => by simp [reL, lastTokL, lastTok_re c]
  | _ :: c :: cs => by
    have := lastTokL_re (c :: cs)
    simp [reL, lastTokL] at this ⊢
    exact this
end

theorem lastNonNL_re (ts : List Tok) :
    lastNonNL (ts.map (Tok.re φ h)) = (lastNonNL ts).map (Tok.re φ h) := by
  induction ts with
  | nil => rfl
  | cons t r ih =>
    simp only [List.map_cons, lastNonNL, ih]
    cases lastNonNL r with
    | some u => simp
    | none => by_cases hc : t.tag = kwNewLine <;> simp [hc]

mutual
theorem lastTokLessNL_re : ∀ n : LNode, lastTokLessNL (n.re φ h) = (lastTokLessNL n).map (Tok.re φ h)
  | .tok1 t => by by_cases hc : t.tag = kwNewLine <;> simp [LNode.re, lastTokLessNL, hc]
  | .ntok _ _ ts => by simp [LNode.re, lastTokLessNL, lastNonNL_re]
  | .nodes _ _ cs => by simp [LNode.re, lastTokLessNL, lastTokLessNLL_re cs]
  | .pile _ _ cs => by simp [LNode.re, lastTokLessNL, lastTokLessNLL_re cs]
theorem lastTokLessNLL_re : ∀ cs : List LNode,
    lastTokLessNLL (reL φ h cs) = (lastTokLessNLL cs).map (Tok.re φ h)
  | [] => by simp [reL, lastTokLessNLL]
  | c :: cs => by
    simp only [reL, lastTokLessNLL, lastTokLessNLL_re cs, lastTokLessNL_re c]
    cases lastTokLessNLL cs <;> simp
end


/-! ### node constructors and the 2-D rules -/

theorem lntConcat_re (l : Option LNode) (r : LNode) :
    lntConcat (l.map (LNode.re φ h)) (r.re φ h) = (lntConcat l r).re φ h := by
  cases l with
  | none => rfl
  | some l => simp [lntConcat, LNode.re, reL, LNode.re_indent]

theorem lntSeparate_re (g : Good φ h) (l : LNode) (k : Tag) (r : LNode) :
    lntSeparate (l.re φ h) k (r.re φ h) = (lntSeparate l k r).re φ h := by
  simp [lntSeparate, LNode.re, reL, LNode.re_indent, lastTok_re, Tok.kw_re g]

theorem lntWrap_re (g : Good φ h) (o : Tag) (l : LNode) (c : Tag) :
    lntWrap o (l.re φ h) c = (lntWrap o l c).re φ h := by
  simp [lntWrap, LNode.re, reL, LNode.re_indent, lastTok_re, firstTok_re, Tok.kw_re g]

theorem isPileRequired_re (c : Option LNode) :
    isPileRequired (c.map (LNode.re φ h)) = isPileRequired c := by
  cases c with
  | none => rfl
  | some n =>
    simp only [isPileRequired, Option.map_some, Option.bind_some, lastTokLessNL_re]
    cases lastTokLessNL n <;> simp

theorem backSetRule_re (l1 l2 : LNode) :
    backSetRule (l1.re φ h) (l2.re φ h) = backSetRule l1 l2 := by
  simp only [backSetRule, LNode.re_isCom, LNode.re_isBlank, lastTokLessNL_re, firstTok_re]
  cases lastTokLessNL l1 <;> cases firstTok l2 <;> simp

theorem isBackSetRequired_re (l1 l2 : LNode) :
    isBackSetRequired (l1.re φ h) (l2.re φ h) = isBackSetRequired l1 l2 := by
  simp [isBackSetRequired, backSetRule_re]

theorem joinLoop_re (g : Good φ h) (lnt : LNode) (had : Bool) (t0 : LNode) (rest : List LNode) :
    joinLoop (lnt.re φ h) had (t0.re φ h) (rest.map (LNode.re φ h)) =
      ((joinLoop lnt had t0 rest).1.re φ h, (joinLoop lnt had t0 rest).2) := by
  induction rest generalizing lnt had t0 with
  | nil => simp [joinLoop]
  | cons t1 rest ih =>
    simp only [List.map_cons, joinLoop, isBackSetRequired_re]
    split
    · rw [lntSeparate_re g, ih]
    · have := lntConcat_re (φ := φ) (h := h) (some lnt) t1
      simp only [Option.map_some] at this
      rw [this, ih]

theorem joinUp_re (g : Good φ h) (c : Option LNode) (tll : List LNode) :
    joinUp (c.map (LNode.re φ h)) (tll.map (LNode.re φ h)) = (joinUp c tll).re φ h := by
  cases tll with
  | nil => simp [joinUp, LNode.re, reL]
  | cons first rest =>
    simp only [List.map_cons, joinUp, joinLoop_re g, isPileRequired_re]
    split
    · rw [lntWrap_re g]
    · rfl

theorem pile0_re (g : Good φ h) : ∀ fuel : Nat,
    (∀ (c : Option LNode) (lst : List LNode),
      pile0 fuel (c.map (LNode.re φ h)) (lst.map (LNode.re φ h)) =
        ((pile0 fuel c lst).1.re φ h, (pile0 fuel c lst).2.map (LNode.re φ h))) ∧
    (∀ (indentS : Int) (sofar lst : List LNode),
      pile0Loop fuel (reI φ indentS) (sofar.map (LNode.re φ h)) (lst.map (LNode.re φ h)) =
        ((pile0Loop fuel indentS sofar lst).1.map (LNode.re φ h),
         (pile0Loop fuel indentS sofar lst).2.map (LNode.re φ h))) := by
  intro fuel
  induction fuel with
  | zero =>
    constructor
    · intro c lst; simp [pile0, LNode.re, fuelTok_re g]
    · intro i sofar lst; simp [pile0Loop, LNode.re, fuelTok_re g]
  | succ n ih =>
    obtain ⟨ih1, ih2⟩ := ih
    constructor
    · intro c lst
      cases lst with
      | nil => simp [pile0, LNode.re, reL]
      | cons first rest =>
        simp only [List.map_cons, pile0, LNode.re_indent]
        have := ih2 first.indent [] (first :: rest)
        simp only [List.map_nil, List.map_cons] at this
        rw [this]
        simp only [← List.map_reverse, joinUp_re g, lntConcat_re]
    · intro indentS sofar lst
      cases lst with
      | nil => simp [pile0Loop]
      | cons lnt0 rest =>
        simp only [List.map_cons, pile0Loop, LNode.re_isBlank, LNode.re_indent]
        have hm : (reI φ lnt0.indent == mootIndentation) = (lnt0.indent == mootIndentation) := by
          have := reI_eq g (a := lnt0.indent) (b := mootIndentation)
          simp only [reI_moot] at this
          rw [Bool.eq_iff_iff]; simp only [beq_iff_eq]; exact this
        have hlt : (reI φ lnt0.indent < reI φ indentS) = (lnt0.indent < indentS) :=
          propext (reI_lt g)
        have heq : (reI φ lnt0.indent == reI φ indentS) = (lnt0.indent == indentS) := by
          rw [Bool.eq_iff_iff]; simp only [beq_iff_eq]; exact reI_eq g
        simp only [hm, hlt, heq]
        split
        · have := ih2 indentS (lnt0 :: sofar) rest
          simp only [List.map_cons] at this
          rw [this]
        · split
          · simp
          · split
            · have := ih2 indentS (lnt0 :: sofar) rest
              simp only [List.map_cons] at this
              rw [this]
            · cases sofar with
              | nil => simp
              | cons s ss =>
                simp only [List.map_cons]
                have h1 := ih1 (some s) (lnt0 :: rest)
                simp only [Option.map_some, List.map_cons] at h1
                rw [h1]
                have h2 := ih2 indentS ((pile0 n (some s) (lnt0 :: rest)).1 :: ss) (pile0 n (some s) (lnt0 :: rest)).2
                simp only [List.map_cons] at h2
                rw [h2]


theorem pileOutdents_re (g : Good φ h) (fuel : Nat) (rnt : LNode) (lst : List LNode) :
    pileOutdents fuel (rnt.re φ h) (lst.map (LNode.re φ h)) = (pileOutdents fuel rnt lst).re φ h := by
  induction fuel generalizing rnt lst with
  | zero => simp [pileOutdents]
  | succ n ih =>
    cases lst with
    | nil => simp [pileOutdents]
    | cons a r =>
      simp only [List.map_cons, pileOutdents, List.length_cons, List.length_map]
      have := (pile0_re g (3 * (r.length + 1) + 4)).1 (some rnt) (a :: r)
      simp only [Option.map_some, List.map_cons] at this
      rw [this, ih]

theorem pileMid_re (cs : List LNode) :
    pileMid (cs.map (LNode.re φ h)) = (pileMid cs).map (LNode.re φ h) := by
  have h1 : (cs.map (LNode.re φ h)).head?.any (·.isKW kwStartPile) = cs.head?.any (·.isKW kwStartPile) := by
    cases cs <;> simp
  have h2 : (cs.map (LNode.re φ h)).getLast?.any (·.isKW kwEndPile) = cs.getLast?.any (·.isKW kwEndPile) := by
    rw [List.getLast?_map]; cases cs.getLast? <;> simp
  simp only [pileMid, h1, h2, List.length_map, List.map_take, List.map_drop]

theorem rulesPile_re (g : Good φ h) (cs : List LNode) :
    rulesPile (cs.map (LNode.re φ h)) = (rulesPile cs).re φ h := by
  simp only [rulesPile, pileMid_re, rulesPileMid, List.length_map]
  have := (pile0_re g (3 * (pileMid cs).length + 4)).1 none (pileMid cs)
  simp only [Option.map_none] at this
  rw [this, pileOutdents_re g]

mutual
theorem rules_re (g : Good φ h) : ∀ n : LNode, rules (n.re φ h) = (rules n).re φ h
  | .tok1 t => by simp [LNode.re, rules]
  | .ntok _ _ ts => by simp [LNode.re, rules]
  | .nodes _ _ cs => by simp [LNode.re, rules, rulesL_re g cs]
  | .pile _ _ cs => by
    simp only [LNode.re, rules]
    rw [rulesL_re g cs, reL_eq_map]
    exact rulesPile_re g _
theorem rulesL_re (g : Good φ h) : ∀ cs : List LNode, rulesL (reL φ h cs) = reL φ h (rulesL cs)
  | [] => by simp [reL, rulesL]
  | c :: cs => by simp [reL, rulesL, rules_re g c, rulesL_re g cs]
end

/-! ### tree → tokens -/

theorem consNL_re (g : Good φ h) (r : List Tok) :
    consNL (r.map (Tok.re φ h)) = (consNL r).map (Tok.re φ h) := by
  have := Tok.kw_re g r.head? kwNewLine
  cases r with
  | nil => simp only [List.head?_nil, Option.map_none] at this; simp [consNL, ← this]
  | cons a r => simp only [List.head?_cons, Option.map_some] at this; simp [consNL, ← this]

mutual
theorem toTokenList0_re (g : Good φ h) : ∀ (n : LNode) (r : List Tok),
    toTokenList0 (n.re φ h) (r.map (Tok.re φ h)) = (toTokenList0 n r).map (Tok.re φ h)
  | .tok1 t, r => by simp [LNode.re, toTokenList0]
  | .ntok _ _ ts, r => by simp [LNode.re, toTokenList0, List.map_reverse]
  | .nodes _ _ cs, r => by simp [LNode.re, toTokenList0, toTokenListL_re g cs r]
  | .pile _ _ cs, r => by simp [LNode.re, toTokenList0, toTokenListP_re g cs r]
theorem toTokenListL_re (g : Good φ h) : ∀ (cs : List LNode) (r : List Tok),
    toTokenListL (reL φ h cs) (r.map (Tok.re φ h)) = (toTokenListL cs r).map (Tok.re φ h)
  | [], r => by simp [reL, toTokenListL]
  | c :: cs, r => by
    simp only [reL, toTokenListL, toTokenList0_re g c r]
    exact toTokenListL_re g cs _
theorem toTokenListP_re (g : Good φ h) : ∀ (cs : List LNode) (r : List Tok),
    toTokenListP (reL φ h cs) (r.map (Tok.re φ h)) = (toTokenListP cs r).map (Tok.re φ h)
  | [], r => by simp [reL, toTokenListP]
  | [c], r => by simp [reL, toTokenListP, toTokenList0_re g c r]
  | c :: c' :: cs, r => by
    have := toTokenListP_re g (c' :: cs) (consNL (toTokenList0 c r))
    simp only [reL, toTokenListP, toTokenList0_re g c r, consNL_re g] at this ⊢
    exact this
end

theorem toTokenList_re (g : Good φ h) (n : LNode) :
    toTokenList (n.re φ h) = (toTokenList n).map (Tok.re φ h) := by
  have := toTokenList0_re g n []
  simp only [List.map_nil] at this
  simp [toTokenList, this, List.map_reverse]


/-! ### tokens → tree -/

theorem linIndentation_re (tl : List Tok) :
    linIndentation (tl.map (Tok.re φ h)) = reI φ (linIndentation tl) := by
  have key : ∀ l : List Tok,
      (match l.map (Tok.re φ h) with
        | t :: _ => if t.tag == kwNewLine then mootIndentation else (t.col : Int)
        | [] => mootIndentation) =
      reI φ (match l with
        | t :: _ => if t.tag == kwNewLine then mootIndentation else (t.col : Int)
        | [] => mootIndentation) := by
    intro l
    cases l with
    | nil => simp
    | cons t r => by_cases hc : t.tag = kwNewLine <;> simp [hc]
  cases tl with
  | nil => simp [linIndentation]
  | cons t r =>
    by_cases hc : t.tag = kwAt
    · have := key (r.drop 1)
      simp only [List.map_drop] at this
      simp only [linIndentation, List.map_cons, Tok.re_tag, hc, beq_self_eq_true, if_true]
      exact this
    · have := key (t :: r)
      simp only [List.map_cons] at this
      have hc' : (t.tag == kwAt) = false := by simp [hc]
      simp only [linIndentation, List.map_cons, Tok.re_tag, hc']
      exact this

theorem filterMap_tok1?_re (cs : List LNode) :
    (cs.map (LNode.re φ h)).filterMap LNode.tok1? = (cs.filterMap LNode.tok1?).map (Tok.re φ h) := by
  induction cs with
  | nil => rfl
  | cons c cs ih =>
    simp only [List.map_cons, List.filterMap_cons, LNode.re_tok1?, ih]
    cases c.tok1? <;> simp

theorem all_isTok1_re (cs : List LNode) :
    (cs.map (LNode.re φ h)).all LNode.isTok1 = cs.all LNode.isTok1 := by
  induction cs with
  | nil => rfl
  | cons c cs ih => simp [ih]

theorem makeLine_re (cs : List LNode) (in0 : Int) :
    makeLine (cs.map (LNode.re φ h)) (reI φ in0) = (makeLine cs in0).re φ h := by
  have gen : ∀ cs : List LNode,
      (if (cs.map (LNode.re φ h)).all LNode.isTok1
        then LNode.ntok (hasOfList (cs.map (LNode.re φ h))) (reI φ in0)
              ((cs.map (LNode.re φ h)).filterMap LNode.tok1?)
        else LNode.nodes (hasOfList (cs.map (LNode.re φ h))) (reI φ in0) (cs.map (LNode.re φ h))) =
      (if cs.all LNode.isTok1 then LNode.ntok (hasOfList cs) in0 (cs.filterMap LNode.tok1?)
        else LNode.nodes (hasOfList cs) in0 cs).re φ h := by
    intro cs
    rw [all_isTok1_re, hasOfList_re, filterMap_tok1?_re]
    split <;> simp [LNode.re, reL_eq_map]
  match cs with
  | [] => exact gen []
  | [c] => simp [makeLine]
  | c :: c' :: r => exact gen (c :: c' :: r)

theorem mkPile_re (cs : List LNode) (in0 : Int) :
    mkPile (cs.map (LNode.re φ h)) (reI φ in0) = (mkPile cs in0).re φ h := by
  simp [mkPile, LNode.re, hasOfList_re, reL_eq_map]

theorem mkNodes_re (cs : List LNode) (in0 : Int) :
    mkNodes (cs.map (LNode.re φ h)) (reI φ in0) = (mkNodes cs in0).re φ h := by
  simp [mkNodes, LNode.re, hasOfList_re, reL_eq_map]

theorem closePile_re (g : Good φ h) (ll : List LNode) (r : List Tok) :
    closePile (ll.map (LNode.re φ h)) (r.map (Tok.re φ h)) =
      ((closePile ll r).1.map (LNode.re φ h), (closePile ll r).2.map (Tok.re φ h)) := by
  cases r with
  | nil =>
    have hk := Tok.kw_re g none kwEndPile
    simp only [Option.map_none] at hk
    simp [closePile, LNode.re, ← hk]
  | cons e r' => simp [closePile, LNode.re]

theorem closeDont_re (o : Tok) (body : LNode) (r : List Tok) :
    closeDont (o.re φ h) (body.re φ h) (r.map (Tok.re φ h)) =
      ((closeDont o body r).1.map (LNode.re φ h), (closeDont o body r).2.map (Tok.re φ h)) := by
  cases r with
  | nil => simp [closeDont, LNode.re]
  | cons c r' => by_cases hc : c.tag = kwCCurly <;> simp [closeDont, LNode.re, hc]

theorem fr_re (g : Good φ h) : ∀ fuel : Nat,
    (∀ (dDo dDont : Nat) (tl : List Tok),
      frDoPile fuel dDo dDont (tl.map (Tok.re φ h)) =
        ((frDoPile fuel dDo dDont tl).1.re φ h, (frDoPile fuel dDo dDont tl).2.map (Tok.re φ h))) ∧
    (∀ (dDo dDont : Nat) (ll : List LNode) (tl : List Tok),
      frDoPileLoop fuel dDo dDont (ll.map (LNode.re φ h)) (tl.map (Tok.re φ h)) =
        ((frDoPileLoop fuel dDo dDont ll tl).1.map (LNode.re φ h),
         (frDoPileLoop fuel dDo dDont ll tl).2.map (Tok.re φ h))) ∧
    (∀ (dDo dDont : Nat) (tl : List Tok),
      frDoLine fuel dDo dDont (tl.map (Tok.re φ h)) =
        ((frDoLine fuel dDo dDont tl).1.re φ h, (frDoLine fuel dDo dDont tl).2.map (Tok.re φ h))) ∧
    (∀ (dDo dDont : Nat) (ll : List LNode) (tl : List Tok),
      frDoLineLoop fuel dDo dDont (ll.map (LNode.re φ h)) (tl.map (Tok.re φ h)) =
        ((frDoLineLoop fuel dDo dDont ll tl).1.map (LNode.re φ h),
         (frDoLineLoop fuel dDo dDont ll tl).2.map (Tok.re φ h))) ∧
    (∀ (dDo dDont : Nat) (tl : List Tok),
      frDontPile fuel dDo dDont (tl.map (Tok.re φ h)) =
        ((frDontPile fuel dDo dDont tl).1.re φ h, (frDontPile fuel dDo dDont tl).2.map (Tok.re φ h))) ∧
    (∀ (dDo dDont : Nat) (st : Bool) (tl : List Tok),
      frDontLine fuel dDo dDont st (tl.map (Tok.re φ h)) =
        ((frDontLine fuel dDo dDont st tl).1.re φ h, (frDontLine fuel dDo dDont st tl).2.map (Tok.re φ h))) ∧
    (∀ (dDo dDont : Nat) (st : Bool) (depth : Nat) (ll : List LNode) (tl : List Tok),
      frDontLineLoop fuel dDo dDont st depth (ll.map (LNode.re φ h)) (tl.map (Tok.re φ h)) =
        ((frDontLineLoop fuel dDo dDont st depth ll tl).1.map (LNode.re φ h),
         (frDontLineLoop fuel dDo dDont st depth ll tl).2.map (Tok.re φ h))) := by
  intro fuel
  induction fuel with
  | zero =>
    refine ⟨?_, ?_, ?_, ?_, ?_, ?_, ?_⟩ <;> intros <;>
      simp [frDoPile, frDoPileLoop, frDoLine, frDoLineLoop, frDontPile, frDontLine, frDontLineLoop,
        LNode.re, fuelTok_re g]
  | succ n ih =>
    obtain ⟨iDoPile, iDoPileLoop, iDoLine, iDoLineLoop, iDontPile, iDontLine, iDontLineLoop⟩ := ih
    refine ⟨?_, ?_, ?_, ?_, ?_, ?_, ?_⟩
    · -- frDoPile
      intro dDo dDont tl
      cases tl with
      | nil => simp [frDoPile, LNode.re, fuelTok_re g]
      | cons p r =>
        have h1 := iDoPileLoop (dDo + 1) dDont [.tok1 p] r
        simp only [List.map_cons, List.map_nil, LNode.re] at h1
        have hin := linIndentation_re (φ := φ) (h := h) (p :: r)
        simp only [List.map_cons] at hin
        simp only [List.map_cons, frDoPile, h1, hin, closePile_re g, ← List.map_reverse, mkPile_re]
    · -- frDoPileLoop
      intro dDo dDont ll tl
      cases tl with
      | nil => simp [frDoPileLoop]
      | cons t r =>
        by_cases hc : t.tag = kwEndPile
        · simp [frDoPileLoop, hc]
        · have h1 := iDoLine dDo dDont (t :: r)
          simp only [List.map_cons] at h1
          have h2 := iDoPileLoop dDo dDont ((frDoLine n dDo dDont (t :: r)).1 :: ll) (frDoLine n dDo dDont (t :: r)).2
          simp only [List.map_cons] at h2
          simp [frDoPileLoop, hc, h1, h2]
    · -- frDoLine
      intro dDo dDont tl
      cases tl with
      | nil => simp [frDoLine, LNode.re, reI_zero g]
      | cons t r =>
        have h1 := iDoLineLoop dDo dDont [] (t :: r)
        simp only [List.map_cons, List.map_nil] at h1
        have hin := linIndentation_re (φ := φ) (h := h) (t :: r)
        simp only [List.map_cons] at hin
        simp only [List.map_cons, frDoLine, h1, hin, ← List.map_reverse, makeLine_re]
    · -- frDoLineLoop
      intro dDo dDont ll tl
      cases tl with
      | nil => simp [frDoLineLoop]
      | cons t r =>
        have hp := iDoPile dDo dDont (t :: r)
        have hd := iDontPile dDo dDont (t :: r)
        simp only [List.map_cons] at hp hd
        have l1 := iDoLineLoop dDo dDont ((frDoPile n dDo dDont (t :: r)).1 :: ll) (frDoPile n dDo dDont (t :: r)).2
        have l2 := iDoLineLoop dDo dDont ((frDontPile n dDo dDont (t :: r)).1 :: ll) (frDontPile n dDo dDont (t :: r)).2
        have l3 := iDoLineLoop dDo dDont (.tok1 t :: ll) r
        simp only [List.map_cons, LNode.re] at l1 l2 l3
        simp only [List.map_cons, frDoLineLoop, Tok.re_tag, hp, hd, l1, l2, l3]
        split
        · rfl
        · split
          · rfl
          · split
            · simp
            · split
              · simp [LNode.re]
              · split
                · simp [LNode.re]
                · rfl
    · -- frDontPile
      intro dDo dDont tl
      cases tl with
      | nil => simp [frDontPile, LNode.re, fuelTok_re g]
      | cons o r =>
        have h1 := iDontLine dDo (dDont + 1) true r
        have hin := linIndentation_re (φ := φ) (h := h) (o :: r)
        simp only [List.map_cons] at hin
        simp only [List.map_cons, frDontPile, h1, hin, closeDont_re, mkNodes_re]
    · -- frDontLine
      intro dDo dDont st tl
      cases tl with
      | nil => simp [frDontLine, LNode.re, reI_zero g]
      | cons t r =>
        have h1 := iDontLineLoop dDo dDont st 0 [] (t :: r)
        simp only [List.map_cons, List.map_nil] at h1
        have hin := linIndentation_re (φ := φ) (h := h) (t :: r)
        simp only [List.map_cons] at hin
        simp only [List.map_cons, frDontLine, h1, hin, ← List.map_reverse, makeLine_re]
    · -- frDontLineLoop
      intro dDo dDont st depth ll tl
      cases tl with
      | nil => simp [frDontLineLoop]
      | cons t r =>
        have hp := iDoPile dDo dDont (t :: r)
        simp only [List.map_cons] at hp
        have l1 := iDontLineLoop dDo dDont st depth ((frDoPile n dDo dDont (t :: r)).1 :: ll) (frDoPile n dDo dDont (t :: r)).2
        have l2 := iDontLineLoop dDo dDont st (depth + 1) (.tok1 t :: ll) r
        have l3 := iDontLineLoop dDo dDont st (depth - 1) (.tok1 t :: ll) r
        have l4 := iDontLineLoop dDo dDont st depth (.tok1 t :: ll) r
        simp only [List.map_cons, LNode.re] at l1 l2 l3 l4
        simp only [List.map_cons, frDontLineLoop, Tok.re_tag, hp, l1, l2, l3, l4]
        split
        · rfl
        · split
          · rfl
          · split
            · split
              · simp
              · rfl
            · rfl

theorem frTokenList_re (g : Good φ h) (tl : List Tok) :
    frTokenList (tl.map (Tok.re φ h)) = (frTokenList tl).re φ h := by
  simp [frTokenList, frFuel, (fr_re g _).2.2.2.2.2.1]

/-- `linearize` commutes with re-positioning. -/
theorem linearizeMode_re (g : Good φ h) (m : Bool) (tl : List Tok) :
    linearizeMode m (tl.map (Tok.re φ h)) = (linearizeMode m tl).map (Tok.re φ h) := by
  simp only [linearizeMode, prepare_re g, frTokenList_re g, rules_re g, toTokenList_re g, xTokens_re,
    useNeededSep_re]

end

/-! ## token lists without `#pile`: the tree is flat and the 2-D rules do nothing -/

theorem frDontLineLoop_nopile (dDo dDont depth : Nat) :
    ∀ (tl : List Tok) (fuel : Nat) (ll : List LNode),
      (∀ t ∈ tl, t.tag ≠ kwStartPile) → tl.length < fuel →
      frDontLineLoop fuel dDo dDont false depth ll tl = ((tl.map LNode.tok1).reverse ++ ll, []) := by
  intro tl
  induction tl with
  | nil =>
    intro fuel ll _ hf
    cases fuel with
    | zero => simp at hf
    | succ n => simp [frDontLineLoop]
  | cons t r ih =>
    intro fuel ll hp hf
    cases fuel with
    | zero => simp at hf
    | succ n =>
      have ht : (t.tag == kwStartPile) = false := by
        have := hp t (by simp); simp [this]
      simp only [frDontLineLoop, ht, Bool.false_and]
      rw [ih n (.tok1 t :: ll) (fun u hu => hp u (by simp [hu])) (by simp at hf; omega)]
      simp

theorem rules_makeLine_toks (tl : List Tok) (in0 : Int) :
    toTokenList (rules (makeLine (tl.map LNode.tok1) in0)) = tl := by
  have hall : ∀ l : List Tok, (l.map LNode.tok1).all LNode.isTok1 = true := by
    intro l
    induction l with
    | nil => rfl
    | cons t r ih => simp only [List.map_cons, List.all_cons, LNode.isTok1, ih, Bool.and_self]
  have hfm : ∀ l : List Tok, (l.map LNode.tok1).filterMap LNode.tok1? = l := by
    intro l
    induction l with
    | nil => rfl
    | cons t r ih => simp only [List.map_cons, List.filterMap_cons, LNode.tok1?, ih]
  have hall := hall tl
  have hfm := hfm tl
  match tl with
  | [] => simp [makeLine, rules, toTokenList, toTokenList0]
  | [t] => simp [makeLine, rules, toTokenList, toTokenList0]
  | t :: u :: r =>
    have : makeLine ((t :: u :: r).map LNode.tok1) in0 =
        .ntok (hasOfList ((t :: u :: r).map LNode.tok1)) in0 (t :: u :: r) := by
      simp only [makeLine, List.map_cons]
      simp only [List.map_cons] at hall hfm
      rw [if_pos hall, hfm]
    rw [this]
    simp [rules, toTokenList, toTokenList0]

theorem frTokenList_nopile (tl : List Tok) (hp : ∀ t ∈ tl, t.tag ≠ kwStartPile) :
    toTokenList (rules (frTokenList tl)) = tl := by
  cases tl with
  | nil => simp [frTokenList, frFuel, frDontLine, rules, toTokenList, toTokenList0]
  | cons t r =>
    have hl := frDontLineLoop_nopile 0 0 0 (t :: r) (6 * (t :: r).length + 15) [] hp
      (by simp; omega)
    simp only [frTokenList, frFuel, frDontLine, hl, List.append_nil, List.reverse_reverse]
    exact rules_makeLine_toks (t :: r) _

/-- no `#pile` in the input (and a batch compile): `linearize` is the chain of the list passes. -/
theorem linearize_nopile (tl : List Tok) (hp : ∀ t ∈ tl, t.tag ≠ kwStartPile) :
    linearize tl =
      useNeededSep (xTokens kwNewLine (xBlankLines (xTokens tkComment tl))) := by
  have hp' : ∀ t ∈ prepare false tl, t.tag ≠ kwStartPile := by
    intro t ht
    have : t ∈ tl := by
      have sub : ∀ (skip : Bool) (l : List Tok), ∀ x ∈ xBlankLinesGo skip l, x ∈ l := by
        intro skip l
        induction l generalizing skip with
        | nil => simp [xBlankLinesGo]
        | cons a r ih =>
          intro x hx
          simp only [xBlankLinesGo] at hx
          split at hx
          · split at hx
            · exact List.mem_cons_of_mem _ (ih _ x hx)
            · rcases List.mem_cons.1 hx with h1 | h1
              · simp [h1]
              · exact List.mem_cons_of_mem _ (ih _ x h1)
          · rcases List.mem_cons.1 hx with h1 | h1
            · simp [h1]
            · exact List.mem_cons_of_mem _ (ih _ x h1)
      have h1 := sub true _ t (by simpa [prepare, xBlankLines] using ht)
      simp [xTokens] at h1
      exact h1.1
    exact hp t this
  simp only [linearize, linearizeMode, frTokenList_nopile _ hp']
  simp [prepare]

/-! ### the list passes look at tags only -/

/-- same token up to its position -/
def SameTok (a b : Tok) : Prop := a.tag = b.tag ∧ a.text = b.text

/-- two token lists that agree token by token up to the positions -/
inductive SameToks : List Tok → List Tok → Prop
  | nil : SameToks [] []
  | cons {a b : Tok} {r r' : List Tok} : SameTok a b → SameToks r r' → SameToks (a :: r) (b :: r')

theorem SameTok.kw {a b : Tok} (hab : SameTok a b) (k : Tag) :
    SameTok (Tok.kw (some a) k) (Tok.kw (some b) k) := by
  simp [SameTok, Tok.kw, hab.2]

theorem xTokens_same (k : Tag) {l l' : List Tok} (hl : SameToks l l') :
    SameToks (xTokens k l) (xTokens k l') := by
  induction hl with
  | nil => exact .nil
  | @cons a b r r' hab _ ih =>
    simp only [xTokens, List.filter_cons] at ih ⊢
    rw [← hab.1]
    split
    · exact .cons hab ih
    · exact ih

theorem xBlankLinesGo_same (skip : Bool) {l l' : List Tok} (hl : SameToks l l') :
    SameToks (xBlankLinesGo skip l) (xBlankLinesGo skip l') := by
  induction hl generalizing skip with
  | nil => exact .nil
  | @cons a b r r' hab _ ih =>
    simp only [xBlankLinesGo]
    rw [← hab.1]
    split
    · split
      · exact ih _
      · exact .cons hab (ih _)
    · exact .cons hab (ih _)

theorem iSep_cons_cons (a u : Tok) (q : List Tok) :
    iSepAfterDontPiles (a :: u :: q) =
      if a.tag == kwCCurly then
        (if u.tag == kwSemicolon then a :: iSepAfterDontPiles (u :: q)
         else a :: Tok.kw (some a) kwSemicolon :: iSepAfterDontPiles (u :: q))
      else a :: iSepAfterDontPiles (u :: q) := by
  rw [iSepAfterDontPiles]

theorem iSep_single (a : Tok) : iSepAfterDontPiles [a] = [a] := by
  rw [iSepAfterDontPiles]; split <;> rfl

theorem iSepAfterDontPiles_same {l l' : List Tok} (hl : SameToks l l') :
    SameToks (iSepAfterDontPiles l) (iSepAfterDontPiles l') := by
  induction hl with
  | nil => exact .nil
  | @cons a b r r' hab hr ih =>
    cases hr with
    | nil => rw [iSep_single, iSep_single]; exact .cons hab .nil
    | @cons u u' q q' huu hq =>
      rw [iSep_cons_cons, iSep_cons_cons, ← hab.1, ← huu.1]
      split
      · split
        · exact .cons hab ih
        · exact .cons hab (.cons (hab.kw _) ih)
      · exact .cons hab ih

theorem xSepLeading_same {l l' : List Tok} (hl : SameToks l l') :
    SameToks (xSepLeading l) (xSepLeading l') := by
  induction hl with
  | nil => exact .nil
  | @cons a b r r' hab hr ih =>
    simp only [xSepLeading]
    rw [← hab.1]
    split
    · exact ih
    · exact .cons hab hr

theorem xSepGo_same : ∀ {l l' : List Tok}, SameToks l l' →
    SameToks (xSepGo l) (xSepGo l')
  | [], _, h => by cases h; exact .nil
  | [t], _, h => by
    cases h with
    | cons hab hr => cases hr; simp only [xSepGo]; exact .cons hab .nil
  | t :: s :: rest, _, h => by
    cases h with
    | @cons _ t' _ _ hab hr =>
      cases hr with
      | @cons _ s' _ rest' hss hrest =>
        simp only [xSepGo]
        rw [← hss.1]
        split
        · exact .cons hab (xSepGo_same (.cons hss hrest))
        · cases hrest with
          | nil => exact .cons hab .nil
          | @cons u u' q q' huu hq =>
            simp only []
            rw [← huu.1]
            split
            · exact .cons hab (xSepGo_same (.cons huu hq))
            · exact .cons hab (xSepGo_same (.cons hss (.cons huu hq)))

theorem nopile_of_same {l l' : List Tok} (hl : SameToks l l')
    (hp : ∀ t ∈ l, t.tag ≠ kwStartPile) : ∀ t ∈ l', t.tag ≠ kwStartPile := by
  induction hl with
  | nil => simp
  | @cons a b r r' hab _ ih =>
    intro t ht
    rcases List.mem_cons.1 ht with h1 | h1
    · rw [h1, ← hab.1]; exact hp a (by simp)
    · exact ih (fun u hu => hp u (by simp [hu])) t h1

end AldorVerif.Linear
