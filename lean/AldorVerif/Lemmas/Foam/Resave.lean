import AldorVerif.Lemmas.Foam.Codec
/-! helper lemmas for Props/C05.lean: saving again what was read back (`norm f`) writes the same bytes. -/
namespace AldorVerif.Foam

/-- what `tagFormat` and the leaf cases can see of an argument without following a pointer -/
def sameHead (a b : Arg) : Prop := a.data = b.data ∧ a.strLen = b.strLen ∧ a.placec = b.placec

theorem sameHead_refl (a : Arg) : sameHead a a := ⟨rfl, rfl, rfl⟩
theorem sameHead_sub (f g : Foam) : sameHead (.sub f) (.sub g) := ⟨rfl, rfl, rfl⟩

inductive Sim : List Arg → List Arg → Prop
  | nil : Sim [] []
  | cons {a b : Arg} {as bs : List Arg} : sameHead a b → Sim as bs → Sim (a :: as) (b :: bs)

theorem Sim.length {a b : List Arg} (h : Sim a b) : a.length = b.length := by
  induction h with
  | nil => rfl
  | cons _ _ ih => simp [ih]

theorem Sim.argN {a b : List Arg} (h : Sim a b) (k : Nat) : sameHead (argN a k) (argN b k) := by
  induction h generalizing k with
  | nil => exact sameHead_refl _
  | cons hd _ ih =>
    cases k with
    | zero => simpa [AldorVerif.Foam.argN] using hd
    | succ k => simpa [AldorVerif.Foam.argN] using ih k

theorem Sim.recFormat {a b : List Arg} (h : Sim a b) (f : Int) : recFormat f a = recFormat f b := by
  induction h generalizing f with
  | nil => rfl
  | cons hd _ ih =>
    simp only [AldorVerif.Foam.recFormat, hd.1, ih]

theorem tagFormat_congr (T : Table) (tag : Nat) {a b : List Arg} (h : Sim a b) :
    tagFormat T tag a = tagFormat T tag b := by
  have hd : ∀ k, (argN a k).data = (argN b k).data := fun k => (h.argN k).1
  have hs : ∀ k, (argN a k).strLen = (argN b k).strLen := fun k => (h.argN k).2.1
  have hp : ∀ k, (argN a k).placec = (argN b k).placec := fun k => (h.argN k).2.2
  simp only [tagFormat, h.length, hd, hs, hp, h.recFormat]


/-- no argument of the walk gets the letter `X`: none in `argf`, and a leading `*` does not
repeat a previous `X` -/
def NoX (argf : List Fmt) (prev : Fmt) : Prop :=
  Fmt.X ∉ argf ∧ (prev = Fmt.X → ∀ t, argf ≠ Fmt.star :: t)

theorem nextFmt_noX {argf : List Fmt} {prev : Fmt} (h : NoX argf prev) :
    (nextFmt argf prev).1 ≠ Fmt.X ∧ NoX (nextFmt argf prev).2 (nextFmt argf prev).1 := by
  obtain ⟨h1, h2⟩ := h
  cases argf with
  | nil => simp [nextFmt, NoX]
  | cons c r =>
    have hc : c ≠ Fmt.X := fun e => h1 (by simp [e])
    have hr : Fmt.X ∉ r := fun e => h1 (by simp [e])
    by_cases hs : c = Fmt.star
    · subst hs
      have hp : prev ≠ Fmt.X := fun e => h2 e r rfl
      simp only [nextFmt]
      exact ⟨hp, h1, fun e => absurd e hp⟩
    · have e : nextFmt (c :: r) prev = (c, r) := by cases c <;> first | rfl | exact absurd rfl hs
      rw [e]
      exact ⟨hc, hr, fun e => absurd e hc⟩

theorem zeroXArgs_length (T : Table) (args : List Arg) : ∀ argf prev, (zeroXArgs T argf prev args).length = args.length := by
  induction args with
  | nil => intro argf prev; simp [zeroXArgs]
  | cons a as ih =>
    intro argf prev
    rw [zeroXArgs.eq_def]
    simp only
    split <;> simp [ih]

theorem zeroXArgs_sim (T : Table) (args : List Arg) :
    ∀ argf prev, NoX argf prev → Sim (zeroXArgs T argf prev args) args := by
  induction args with
  | nil => intro argf prev _; rw [zeroXArgs]; exact Sim.nil
  | cons a as ih =>
    intro argf prev h
    obtain ⟨h1, h2⟩ := nextFmt_noX h
    rw [zeroXArgs.eq_def]
    simp only
    split
    · rename_i heq; exact absurd heq h1
    · exact Sim.cons (sameHead_sub _ _) (ih _ _ h2)
    · exact Sim.cons (sameHead_refl _) (ih _ _ h2)


structure XOK (T : Table) : Prop where
  noX : ∀ tag, tag ≠ T.tProg → Fmt.X ∉ (T.info tag).argf
  progFmt : ∀ a b : List Arg, a.length = b.length → (argN a 3).data = (argN b 3).data →
    tagFormat T T.tProg a = tagFormat T T.tProg b
  progArgf : ∃ r, (T.info T.tProg).argf = Fmt.X :: r ∧ NoX r Fmt.X

theorem leafBytes_sub (T : Table) (fmt lf : Int) (af : Fmt) (f g : Foam) :
    leafBytes T fmt lf af (.sub f) = leafBytes T fmt lf af (.sub g) := by
  cases af <;> rfl

def PB (T : Table) (X : XF) (g : Foam) : Prop := ∀ pos lf, encF T X pos lf (zeroX T g) = encF T X pos lf g
def QB (T : Table) (X : XF) (args : List Arg) : Prop := ∀ fmt pos lf off argf prev,
  encArgs T X fmt pos lf off argf prev (zeroXArgs T argf prev args) = encArgs T X fmt pos lf off argf prev args

theorem QB_nil (T : Table) (X : XF) : QB T X [] := by
  intro fmt pos lf off argf prev; rw [zeroXArgs]

theorem QB_cons (T : Table) (X : XF) (a : Arg) (as : List Arg)
    (ha : ∀ f, a = .sub f → PB T X f) (ih : QB T X as) : QB T X (a :: as) := by
  intro fmt pos lf off argf prev
  unfold QB at ih
  rw [zeroXArgs.eq_def]
  simp only
  generalize hnf : nextFmt argf prev = nf
  obtain ⟨l, r⟩ := nf
  simp only
  split
  next heq =>
    rw [encArgs.eq_def]; conv => rhs; rw [encArgs.eq_def]
    simp only [hnf, ih]
  next f hne =>
    have hf := ha f rfl
    unfold PB at hf
    rw [encArgs.eq_def]; conv => rhs; rw [encArgs.eq_def]
    simp only [hnf]
    cases l <;> simp only [ih, hf, leafBytes_sub T fmt lf _ (zeroX T f) f, Arg.data]
  next hne hns =>
    rw [encArgs.eq_def]; conv => rhs; rw [encArgs.eq_def]
    simp only [hnf]
    cases l <;> simp only [ih]

theorem PB_node (T : Table) (X : XF) (hx : XOK T) (tag : Nat) (args : List Arg) (hq : QB T X args) :
    PB T X (.node tag args) := by
  intro pos lf
  unfold QB at hq
  have hlen := zeroXArgs_length T args (T.info tag).argf .bad
  have htf : tagFormat T tag (zeroXArgs T (T.info tag).argf .bad args) = tagFormat T tag args := by
    by_cases hp : tag = T.tProg
    · subst hp
      obtain ⟨r, hr, hnx⟩ := hx.progArgf
      refine hx.progFmt _ _ hlen ?_
      cases args with
      | nil => rw [zeroXArgs]
      | cons a as =>
        rw [hr, zeroXArgs.eq_def]
        simp only [nextFmt]
        have hs := (zeroXArgs_sim T as r Fmt.X hnx).argN 2
        simpa [argN] using hs.1
    · exact tagFormat_congr T tag (zeroXArgs_sim T args _ _ ⟨hx.noX tag hp, fun e => by cases e⟩)
  rw [zeroX, encF, encF, htf, hlen, hq]

theorem PB_all (T : Table) (X : XF) (hx : XOK T) (g : Foam) : PB T X g :=
  Foam.rec (motive_1 := fun f => PB T X f)
    (motive_2 := fun a => ∀ f, a = .sub f → PB T X f)
    (motive_3 := fun l => QB T X l)
    (fun tag args ih => PB_node T X hx tag args ih)
    (fun _ _ h => by cases h) (fun _ _ h => by cases h) (fun _ _ h => by cases h)
    (fun _ _ h => by cases h) (fun _ _ h => by cases h)
    (fun f ih g h => by cases h; exact ih)
    (QB_nil T X)
    (fun a as iha ihas => QB_cons T X a as iha ihas)
    g

/-! ### a tree that has been through `preReduce` is not changed by it again -/
mutual
def NoBig (T : Table) : Foam → Prop
  | .node tag args => reduceNode T tag args = none ∧ NoBigArgs T args
def NoBigArgs (T : Table) : List Arg → Prop
  | [] => True
  | .sub f :: as => NoBig T f ∧ NoBigArgs T as
  | _ :: as => NoBigArgs T as
end

theorem NoBigArgs_cons_nonsub (T : Table) (a : Arg) (as : List Arg) (h : ∀ f, a ≠ .sub f) :
    NoBigArgs T (a :: as) = NoBigArgs T as := by
  cases a <;> first | rfl | exact absurd rfl (h _)

def PA (T : Table) (g : Foam) : Prop := NoBig T g → preReduce T g = g
def QA' (T : Table) (args : List Arg) : Prop := NoBigArgs T args → preReduceArgs T args = args

theorem PA_all (T : Table) (g : Foam) : PA T g :=
  Foam.rec (motive_1 := fun f => PA T f)
    (motive_2 := fun a => ∀ f, a = .sub f → PA T f)
    (motive_3 := fun l => QA' T l)
    (fun tag args ih h => by
      rw [NoBig] at h
      rw [preReduce, h.1]
      simp only
      rw [ih h.2])
    (fun _ _ h => by cases h) (fun _ _ h => by cases h) (fun _ _ h => by cases h)
    (fun _ _ h => by cases h) (fun _ _ h => by cases h)
    (fun f ih g h => by cases h; exact ih)
    (fun _ => by rw [preReduceArgs])
    (fun a as iha ihas h => by
      cases a with
      | sub f =>
        rw [NoBigArgs] at h
        rw [preReduceArgs, iha f rfl h.1, ihas h.2]
      | int v => rw [NoBigArgs] at h; rw [preReduceArgs, ihas h]; all_goals (intro f hf; cases hf)
      | str v => rw [NoBigArgs] at h; rw [preReduceArgs, ihas h]; all_goals (intro f hf; cases hf)
      | sflo v => rw [NoBigArgs] at h; rw [preReduceArgs, ihas h]; all_goals (intro f hf; cases hf)
      | dflo v => rw [NoBigArgs] at h; rw [preReduceArgs, ihas h]; all_goals (intro f hf; cases hf)
      | bint v => rw [NoBigArgs] at h; rw [preReduceArgs, ihas h]; all_goals (intro f hf; cases hf))
    g

theorem NoBigArgs_tail (T : Table) (a : Arg) (as : List Arg) (h : NoBigArgs T (a :: as)) : NoBigArgs T as := by
  cases a with
  | sub f => rw [NoBigArgs] at h; exact h.2
  | int v => rw [NoBigArgs_cons_nonsub T _ _ (fun f hf => by cases hf)] at h; exact h
  | str v => rw [NoBigArgs_cons_nonsub T _ _ (fun f hf => by cases hf)] at h; exact h
  | sflo v => rw [NoBigArgs_cons_nonsub T _ _ (fun f hf => by cases hf)] at h; exact h
  | dflo v => rw [NoBigArgs_cons_nonsub T _ _ (fun f hf => by cases hf)] at h; exact h
  | bint v => rw [NoBigArgs_cons_nonsub T _ _ (fun f hf => by cases hf)] at h; exact h

theorem zeroXArgs_cons (T : Table) (argf : List Fmt) (prev : Fmt) (a : Arg) (as : List Arg) :
    ∃ h, zeroXArgs T argf prev (a :: as) = h :: zeroXArgs T (nextFmt argf prev).2 (nextFmt argf prev).1 as ∧
      (h = .int 0 ∨ (∃ f, a = .sub f ∧ h = .sub (zeroX T f)) ∨ ((∀ f, a ≠ .sub f) ∧ h = a)) := by
  rw [zeroXArgs.eq_def]
  simp only
  split
  · exact ⟨_, rfl, Or.inl rfl⟩
  · exact ⟨_, rfl, Or.inr (Or.inl ⟨_, rfl, rfl⟩)⟩
  · rename_i hns _
    exact ⟨_, rfl, Or.inr (Or.inr ⟨fun f hf => hns f hf, rfl⟩)⟩

theorem reduceNode_zeroX (T : Table) (tag : Nat) (args : List Arg) (argf : List Fmt) (prev : Fmt)
    (h : reduceNode T tag args = none) : reduceNode T tag (zeroXArgs T argf prev args) = none := by
  unfold reduceNode at h ⊢
  by_cases ht : tag = T.tSInt
  · simp only [if_pos ht] at h ⊢
    cases args with
    | nil => rw [zeroXArgs]
    | cons a as =>
      obtain ⟨hd, he, hc⟩ := zeroXArgs_cons T argf prev a as
      rw [he]
      rcases hc with rfl | ⟨f, _, rfl⟩ | ⟨_, rfl⟩
      · simp [isInt32]
      · rfl
      · cases hd <;> first | exact h | rfl
  · simp only [if_neg ht]

theorem PZ_all (T : Table) (g : Foam) : NoBig T g → NoBig T (zeroX T g) :=
  Foam.rec (motive_1 := fun f => NoBig T f → NoBig T (zeroX T f))
    (motive_2 := fun a => ∀ f, a = .sub f → NoBig T f → NoBig T (zeroX T f))
    (motive_3 := fun l => ∀ argf prev, NoBigArgs T l → NoBigArgs T (zeroXArgs T argf prev l))
    (fun tag args ih h => by
      rw [NoBig] at h
      rw [zeroX, NoBig]
      exact ⟨reduceNode_zeroX T tag args _ _ h.1, ih _ _ h.2⟩)
    (fun _ _ h => by cases h) (fun _ _ h => by cases h) (fun _ _ h => by cases h)
    (fun _ _ h => by cases h) (fun _ _ h => by cases h)
    (fun f ih g h => by cases h; exact ih)
    (fun _ _ _ => by rw [zeroXArgs]; trivial)
    (fun a as iha ihas argf prev h => by
      obtain ⟨hd, he, hc⟩ := zeroXArgs_cons T argf prev a as
      rw [he]
      have ht := ihas (nextFmt argf prev).2 (nextFmt argf prev).1 (NoBigArgs_tail T a as h)
      rcases hc with rfl | ⟨f, rfl, rfl⟩ | ⟨hns, rfl⟩
      · rw [NoBigArgs_cons_nonsub T _ _ (fun f hf => by cases hf)]; exact ht
      · rw [NoBigArgs] at h ⊢
        exact ⟨iha f rfl h.1, ht⟩
      · rw [NoBigArgs_cons_nonsub T _ _ hns]; exact ht)
    g

/-! ### `preReduce` leaves nothing to reduce -/
def RedSmall : Red → Prop
  | .lit v => isInt32 v.toInt = true
  | .shiftOr hi lo => RedSmall hi ∧ isInt32 lo.toInt = true
  | .neg e => RedSmall e

theorem part_small (n : BitVec 64) (k : Nat) : isInt32 (part n k).toInt = true := by
  have hlt : (part n k).toNat < 2147483648 := by
    have h : part n k = (n.sshiftRight (31 * k)) &&& 0x7fffffff#64 := rfl
    rw [h, BitVec.toNat_and]
    exact Nat.lt_of_le_of_lt Nat.and_le_right (by decide)
  have : (part n k).toInt = ((part n k).toNat : Int) := by
    rw [BitVec.toInt_eq_toNat_cond]
    simp only [show (2 * (part n k).toNat < 2 ^ 64) by omega, if_true]
  rw [this, isInt32_iff]
  omega

theorem sintReduce_small (x : BitVec 64) : RedSmall (sintReduce x) := by
  unfold sintReduce
  simp only
  split
  · rename_i h
    simp only [Bool.not_eq_true', Bool.not_eq_false', Bool.and_eq_true, decide_eq_true_eq] at h
    rw [RedSmall, isInt32_iff]; exact h
  · have key : ∀ n : BitVec 64,
        RedSmall (if part n 2 ≠ 0 then Red.shiftOr (.shiftOr (.lit (part n 2)) (part n 1)) (part n 0)
          else if part n 1 ≠ 0 then Red.shiftOr (.lit (part n 1)) (part n 0) else .lit (part n 0)) := by
      intro n
      split
      · exact ⟨⟨part_small n 2, part_small n 1⟩, part_small n 0⟩
      · split
        · exact ⟨part_small n 1, part_small n 0⟩
        · exact part_small n 0
    split
    · rw [RedSmall]; exact key _
    · exact key _

theorem sintLeaf_noBig (T : Table) (v : Int) (h : isInt32 v = true) : NoBig T (sintLeaf T v) := by
  rw [sintLeaf, NoBig]
  refine ⟨?_, ?_⟩
  · simp [reduceNode, h]
  · rw [NoBigArgs_cons_nonsub T _ _ (fun f hf => by cases hf)]; trivial

theorem toFoam_noBig (T : Table) (hne : T.tBCall ≠ T.tSInt) (r : Red) (h : RedSmall r) : NoBig T (r.toFoam T) := by
  induction r with
  | lit v => exact sintLeaf_noBig T _ h
  | shiftOr hi lo ih =>
    obtain ⟨h1, h2⟩ := h
    have e : ∀ args, reduceNode T T.tBCall args = none := by intro args; simp [reduceNode, hne]
    simp only [Red.toFoam, NoBig, NoBigArgs, e, true_and, and_true]
    exact ⟨⟨ih h1, sintLeaf_noBig T 31 (by decide)⟩, sintLeaf_noBig T _ h2⟩
  | neg e ih =>
    have e' : ∀ args, reduceNode T T.tBCall args = none := by intro args; simp [reduceNode, hne]
    simp only [Red.toFoam, NoBig, NoBigArgs, e', true_and, and_true]
    exact ih h

theorem reduceNode_some (T : Table) (tag : Nat) (args : List Arg) (g : Foam) (h : reduceNode T tag args = some g) :
    ∃ r, RedSmall r ∧ g = r.toFoam T := by
  unfold reduceNode at h
  split at h
  · split at h
    · split at h
      · cases h
      · simp only [Option.some.injEq] at h
        exact ⟨_, sintReduce_small _, h.symm⟩
    · cases h
  · cases h

theorem reduceNode_preReduceArgs (T : Table) (tag : Nat) (args : List Arg) :
    reduceNode T tag (preReduceArgs T args) = reduceNode T tag args := by
  unfold reduceNode
  split
  · cases args with
    | nil => rw [preReduceArgs]
    | cons a as => cases a <;> rw [preReduceArgs] <;> first | rfl | (intro f hf; cases hf)
  · rfl

theorem PN_all (T : Table) (hne : T.tBCall ≠ T.tSInt) (g : Foam) : NoBig T (preReduce T g) :=
  Foam.rec (motive_1 := fun f => NoBig T (preReduce T f))
    (motive_2 := fun a => ∀ f, a = .sub f → NoBig T (preReduce T f))
    (motive_3 := fun l => NoBigArgs T (preReduceArgs T l))
    (fun tag args ih => by
      rw [preReduce]
      cases hr : reduceNode T tag args with
      | some g =>
        obtain ⟨r, hs, rfl⟩ := reduceNode_some T tag args g hr
        exact toFoam_noBig T hne r hs
      | none =>
        simp only
        rw [NoBig, reduceNode_preReduceArgs, hr]
        exact ⟨rfl, ih⟩)
    (fun _ _ h => by cases h) (fun _ _ h => by cases h) (fun _ _ h => by cases h)
    (fun _ _ h => by cases h) (fun _ _ h => by cases h)
    (fun f ih g h => by cases h; exact ih)
    (by rw [preReduceArgs]; trivial)
    (fun a as iha ihas => by
      cases a with
      | sub f => rw [preReduceArgs, NoBigArgs]; exact ⟨iha f rfl, ihas⟩
      | int v => rw [preReduceArgs, NoBigArgs_cons_nonsub T _ _ (fun f hf => by cases hf)]; exact ihas; all_goals (intro f hf; cases hf)
      | str v => rw [preReduceArgs, NoBigArgs_cons_nonsub T _ _ (fun f hf => by cases hf)]; exact ihas; all_goals (intro f hf; cases hf)
      | sflo v => rw [preReduceArgs, NoBigArgs_cons_nonsub T _ _ (fun f hf => by cases hf)]; exact ihas; all_goals (intro f hf; cases hf)
      | dflo v => rw [preReduceArgs, NoBigArgs_cons_nonsub T _ _ (fun f hf => by cases hf)]; exact ihas; all_goals (intro f hf; cases hf)
      | bint v => rw [preReduceArgs, NoBigArgs_cons_nonsub T _ _ (fun f hf => by cases hf)]; exact ihas; all_goals (intro f hf; cases hf))
    g

/-- saving again what was read back writes the same bytes -/
theorem resave_same (T : Table) (X : XF) (hx : XOK T) (hne : T.tBCall ≠ T.tSInt) (lf : Int) (f : Foam) :
    encode T X lf (norm T f) = encode T X lf f := by
  rw [encode, encode, norm]
  rw [PA_all T _ (PZ_all T _ (PN_all T hne f))]
  exact PB_all T X hx _ 0 lf

end AldorVerif.Foam
