import AldorVerif.Model.Foam.Codec
/-! helper lemmas for Props/C05.lean: the buffer primitives read back what they wrote. -/
namespace AldorVerif.Foam

theorem byteOf_toNat (n : Nat) : (byteOf n).toNat = n % 256 := by
  simp [byteOf]

theorem getByte_putByte (v : Int) (r : List UInt8) :
    getByte (putByte v ++ r) = some ((v % 256).toNat, r) := by
  simp only [putByte, getByte, List.cons_append, List.nil_append, byteOf_toNat]
  refine congrArg some (Prod.ext ?_ rfl)
  show _ = _
  omega

theorem getHInt_putHInt (v : Int) (r : List UInt8) :
    getHInt (putHInt v ++ r) = some ((v % 65536).toNat, r) := by
  simp only [putHInt, getHInt, List.cons_append, List.nil_append, byteOf_toNat]
  refine congrArg some (Prod.ext ?_ rfl)
  show _ = _
  omega

theorem getSIntU_putSInt (v : Int) (r : List UInt8) :
    getSIntU (putSInt v ++ r) = some ((v % 4294967296).toNat, r) := by
  simp only [putSInt, getSIntU, List.cons_append, List.nil_append, byteOf_toNat]
  refine congrArg some (Prod.ext ?_ rfl)
  show _ = _
  omega

theorem putSInt_length (v : Int) : (putSInt v).length = 4 := by simp [putSInt]
theorem putByte_length (v : Int) : (putByte v).length = 1 := by simp [putByte]
theorem putHInt_length (v : Int) : (putHInt v).length = 2 := by simp [putHInt]

theorem isInt32_iff (v : Int) : isInt32 v = true ↔ (-2147483648 ≤ v ∧ v < 2147483648) := by
  rw [isInt32, Bool.and_eq_true, decide_eq_true_eq, decide_eq_true_eq]

theorem getSInt_putSInt (v : Int) (r : List UInt8) (h : isInt32 v = true) :
    getSInt (putSInt v ++ r) = some (v, r) := by
  rw [isInt32_iff] at h
  simp only [getSInt, getSIntU_putSInt, wrap32]
  refine congrArg some (Prod.ext ?_ rfl)
  show _ = _
  omega

/-- whatever was written, `getSInt` consumes exactly the four bytes -/
theorem getSInt_putSInt_any (v : Int) (r : List UInt8) :
    ∃ w, getSInt (putSInt v ++ r) = some (w, r) := by
  simp only [getSInt, getSIntU_putSInt]; exact ⟨_, rfl⟩

theorem getSInt_four (a b c d : UInt8) (r : List UInt8) :
    ∃ w, getSInt (a :: b :: c :: d :: r) = some (w, r) := by
  simp only [getSInt, getSIntU]; exact ⟨_, rfl⟩

theorem fits_zero (v : Int) : fits 0 v = isInt32 v := by simp [fits]
theorem fits_one (v : Int) : fits 1 v = (decide (0 ≤ v) && decide (v ≤ 255)) := by simp [fits]

theorem getInt_putInt (fmt v : Int) (r : List UInt8) (h : fits fmt v = true) :
    getInt fmt (putInt fmt v ++ r) = some (v, r) := by
  rw [fits] at h
  rw [getInt, putInt]
  by_cases h0 : fmt = 0
  · simp only [h0, if_true] at h ⊢
    exact getSInt_putSInt v r h
  · by_cases h1 : fmt = 1
    · subst h1
      simp only [show ¬ ((1 : Int) = 0) by omega, if_false, if_true] at h ⊢
      simp only [Bool.and_eq_true, decide_eq_true_eq] at h
      rw [getByte_putByte]
      refine congrArg some (Prod.ext ?_ rfl)
      show ((v % 256).toNat : Int) = v
      omega
    · simp only [if_neg h0, if_neg h1] at h ⊢
      simp only [decide_eq_true_eq] at h
      simp [STD_FORMS, h]

/-! ### digits -/
theorem digits16_lt (fuel n : Nat) : ∀ d ∈ digits16 fuel n, d < 65536 := by
  induction fuel generalizing n with
  | zero => simp [digits16]
  | succ k ih =>
    intro d hd
    unfold digits16 at hd
    by_cases h : n < 65536
    · simp only [if_pos h, List.mem_singleton] at hd; omega
    · simp only [if_neg h, List.mem_cons] at hd
      rcases hd with hd | hd
      · omega
      · exact ih _ d hd

theorem fromDigits16_digits16 (fuel n : Nat) (h : n < 65536 ^ fuel) :
    fromDigits16 (digits16 fuel n) = n := by
  induction fuel generalizing n with
  | zero => simp at h; subst h; simp [digits16, fromDigits16]
  | succ k ih =>
    unfold digits16
    by_cases hn : n < 65536
    · simp [if_pos hn, fromDigits16]
    · simp only [if_neg hn, fromDigits16]
      have : n / 65536 < 65536 ^ k := by
        rw [Nat.div_lt_iff_lt_mul (by decide)]
        rw [Nat.pow_succ] at h; exact h
      rw [ih _ this]; omega

theorem lt_pow_succ (n : Nat) : n < 65536 ^ (n + 1) := by
  have h1 : n < 2 ^ n := Nat.lt_two_pow_self
  have h2 : 2 ^ n ≤ 65536 ^ n := Nat.pow_le_pow_left (by decide) n
  have h3 : 65536 ^ n ≤ 65536 ^ (n + 1) := Nat.pow_le_pow_right (by decide) (by omega)
  omega

theorem fromDigits16_bintDigits (n : Nat) : fromDigits16 (bintDigits n) = n :=
  fromDigits16_digits16 _ _ (lt_pow_succ n)

theorem bintDigits_lt (n : Nat) : ∀ d ∈ bintDigits n, d < 65536 := digits16_lt _ _

theorem toDigits16_flatMap (ds : List Nat) (r : List UInt8) (h : ∀ d ∈ ds, d < 65536) :
    toDigits16 ds.length (ds.flatMap (fun (d : Nat) => putHInt (d : Int)) ++ r) = some (ds, r) := by
  induction ds with
  | nil => simp [toDigits16]
  | cons d ds ih =>
    have hd : d < 65536 := h d (by simp)
    have ht : ∀ x ∈ ds, x < 65536 := fun x hx => h x (by simp [hx])
    simp only [List.flatMap_cons, List.length_cons, toDigits16, List.append_assoc, getHInt_putHInt]
    rw [ih ht]
    simp only
    have e : ((d : Int) % 65536).toNat = d := by omega
    rw [e]

/-! ### one leaf argument -/
theorem inRange_iff (lo hi v : Int) : inRange lo hi v = true ↔ (lo ≤ v ∧ v ≤ hi) := by
  rw [inRange, Bool.and_eq_true, decide_eq_true_eq, decide_eq_true_eq]

theorem some_int_eq {a b : Int} {r : List UInt8} (h : a = b) : some (Arg.int a, r) = some (Arg.int b, r) := by
  rw [h]

theorem take_append_len {α} (l r : List α) (n : Nat) (h : n = l.length) : (l ++ r).take n = l := by
  subst h; simp
theorem drop_append_len {α} (l r : List α) (n : Nat) (h : n = l.length) : (l ++ r).drop n = r := by
  subst h; simp

theorem leaf_roundtrip (T : Table) (fmt lf : Int) (af : Fmt) (a : Arg)
    (h : wfLeaf T fmt lf af a = true) :
    ∃ b, leafBytes T fmt lf af a = some (b, false) ∧
      ∀ rest, leafRead T fmt lf af (b ++ rest) = some (a, rest) := by
  cases af <;> cases a <;> simp only [wfLeaf] at h <;> try (exact absurd h (by decide))
  case t.int v =>
    rw [inRange_iff] at h
    refine ⟨_, rfl, fun rest => ?_⟩
    simp only [leafRead, Arg.data, getByte_putByte]
    exact some_int_eq (by omega)
  case o.int v =>
    rw [inRange_iff] at h
    refine ⟨_, rfl, fun rest => ?_⟩
    simp only [leafRead, Arg.data, getHInt_putHInt]
    exact some_int_eq (by omega)
  case p.int v =>
    rw [inRange_iff] at h
    refine ⟨_, rfl, fun rest => ?_⟩
    simp only [leafRead, Arg.data, getByte_putByte]
    exact some_int_eq (by omega)
  case D.int v =>
    rw [inRange_iff] at h
    refine ⟨_, rfl, fun rest => ?_⟩
    simp only [leafRead, Arg.data, getByte_putByte]
    exact some_int_eq (by omega)
  case b.int v =>
    rw [inRange_iff] at h
    refine ⟨_, rfl, fun rest => ?_⟩
    simp only [leafRead, Arg.data, getByte_putByte, wrap8]
    exact some_int_eq (by omega)
  case h.int v =>
    rw [inRange_iff] at h
    refine ⟨_, rfl, fun rest => ?_⟩
    simp only [leafRead, Arg.data, getHInt_putHInt]
    exact some_int_eq (by omega)
  case w.int v =>
    refine ⟨_, by simp only [leafBytes, Arg.data, h]; rfl, fun rest => ?_⟩
    simp only [leafRead, getSInt_putSInt v rest h]
  case L.int v =>
    refine ⟨_, rfl, fun rest => ?_⟩
    simp only [leafRead, Arg.data, getInt_putInt lf v rest h]
  case i.int v =>
    refine ⟨_, rfl, fun rest => ?_⟩
    simp only [leafRead, Arg.data, getInt_putInt fmt v rest h]
  case s.str bs =>
    simp only [Bool.and_eq_true] at h
    refine ⟨_, rfl, fun rest => ?_⟩
    simp only [leafRead, List.append_assoc, getInt_putInt fmt _ _ h.1]
    have hl : ¬ ((bs.length : Int) < 0 ∨ (bs ++ rest).length < (bs.length : Int).toNat) := by
      simp only [List.length_append]; omega
    simp only [if_neg hl]
    rw [take_append_len _ _ _ (by omega), drop_append_len _ _ _ (by omega)]
  case n.bint v =>
    refine ⟨_, rfl, fun rest => ?_⟩
    simp only [leafRead, encBInt, List.append_assoc, getByte_putByte, getInt_putInt fmt _ _ h]
    have hl : ¬ (((bintDigits v.natAbs).length : Int) < 0) := by omega
    simp only [if_neg hl, Int.toNat_natCast, toDigits16_flatMap _ _ (bintDigits_lt _), fromDigits16_bintDigits]
    by_cases hv : v < 0
    · have e : -(v.natAbs : Int) = v := by omega
      rw [if_pos hv, if_pos (by decide), e]
    · have e : (v.natAbs : Int) = v := by omega
      rw [if_neg hv, if_neg (by decide), e]

/-! ### the tag byte -/
theorem tag_roundtrip (T : Table) (tag : Nat) (fmt : Int)
    (h1 : T.ffoOrigin < T.limit) (h2 : T.ffoOrigin + 5 * T.span ≤ 256)
    (ht : tag < T.limit) (hf0 : 0 ≤ fmt) (hf4 : fmt ≤ 4) (hfo : fmt = 0 ∨ T.ffoOrigin ≤ tag) :
    ((tagFmtOf T (((tag : Int) + fmt * T.span) % 256).toNat : Nat) : Int) = fmt ∧
    tagOf T (((tag : Int) + fmt * T.span) % 256).toNat = tag := by
  obtain ⟨k, rfl⟩ : ∃ k : Nat, fmt = k := ⟨fmt.toNat, by omega⟩
  have hspan : T.span = T.limit - T.ffoOrigin := rfl
  have hk : k ≤ 4 := by omega
  have hb : (((tag : Int) + (k : Int) * T.span) % 256).toNat = tag + k * T.span := by
    have : k * T.span ≤ 4 * T.span := Nat.mul_le_mul_right _ hk
    have : ((tag : Int) + (k : Int) * T.span) = ((tag + k * T.span : Nat) : Int) := by simp
    rw [this]; omega
  rw [hb]
  have key : tagFmtOf T (tag + k * T.span) = k := by
    rw [tagFmtOf]
    by_cases hk0 : k = 0
    · subst hk0
      simp only [Nat.zero_mul, Nat.add_zero]
      by_cases hlt : tag < T.ffoOrigin
      · simp [hlt]
      · simp only [if_neg hlt]
        exact Nat.div_eq_of_lt (by omega)
    · have hge : T.ffoOrigin ≤ tag := by
        rcases hfo with h | h
        · omega
        · exact h
      have hnl : ¬ (tag + k * T.span < T.ffoOrigin) := by omega
      simp only [if_neg hnl]
      have : tag + k * T.span - T.ffoOrigin = (tag - T.ffoOrigin) + k * T.span := by omega
      rw [this, Nat.add_mul_div_right _ _ (by omega), Nat.div_eq_of_lt (by omega)]
      omega
  refine ⟨by rw [key], ?_⟩
  rw [tagOf, key]; omega

/-! ### the round trip, by induction over the tree -/
structure TOK (T : Table) : Prop where
  h1 : T.ffoOrigin < T.limit
  h2 : T.ffoOrigin + 5 * T.span ≤ 256

def PF (T : Table) (X : XF) (f : Foam) : Prop :=
  ∀ pos lf lf' fuel rest, wfF T lf f = some lf' → depth f ≤ fuel →
    (encF T X pos lf f).2.1 = lf' ∧ (encF T X pos lf f).2.2 = false ∧
    decF T X fuel lf ((encF T X pos lf f).1 ++ rest) = some (zeroX T f, rest, lf') ∧
    depth f ≤ (encF T X pos lf f).1.length

def QA (T : Table) (X : XF) (args : List Arg) : Prop :=
  ∀ fmt pos lf off argf prev lf' fuel rest,
    wfArgs T fmt lf argf prev args = some lf' → depthArgs args ≤ fuel →
    (encArgs T X fmt pos lf off argf prev args).2.1 = lf' ∧
    (encArgs T X fmt pos lf off argf prev args).2.2.1 = off ∧
    (encArgs T X fmt pos lf off argf prev args).2.2.2 = false ∧
    decArgs T X (decF T X fuel) fmt args.length argf prev lf
      ((encArgs T X fmt pos lf off argf prev args).1 ++ rest) = some (zeroXArgs T argf prev args, rest, lf') ∧
    depthArgs args ≤ (encArgs T X fmt pos lf off argf prev args).1.length

theorem wfHead_iff (T : Table) (tag : Nat) (args : List Arg) (h : wfHead T tag args = true) :
    (tagFormat T tag args).2 = false ∧ tag < T.limit ∧ 0 ≤ (tagFormat T tag args).1 ∧ (tagFormat T tag args).1 ≤ 4 ∧
    ((tagFormat T tag args).1 = 0 ∨ T.ffoOrigin ≤ tag) ∧
    (match (T.info tag).argc with
        | some k => decide (args.length = k)
        | none => fits (tagFormat T tag args).1 args.length) = true := by
  simp only [wfHead, Bool.and_eq_true, Bool.or_eq_true, decide_eq_true_eq, Bool.not_eq_true'] at h
  obtain ⟨⟨⟨⟨⟨a, b⟩, c⟩, d⟩, e⟩, f⟩ := h
  exact ⟨a, b, c, d, e, f⟩

/-- header of a node: tag byte + argc are read back -/
theorem head_roundtrip (T : Table) (hT : TOK T) (tag : Nat) (args : List Arg) (rest : List UInt8)
    (h : wfHead T tag args = true) :
    ∃ b, getByte (encHead T tag (tagFormat T tag args).1 args.length ++ rest) =
        some (b, (if (T.info tag).argc.isNone then putInt (tagFormat T tag args).1 args.length else []) ++ rest) ∧
      tagOf T b = tag ∧ ((tagFmtOf T b : Nat) : Int) = (tagFormat T tag args).1 ∧
      decArgc T tag (tagFormat T tag args).1
        ((if (T.info tag).argc.isNone then putInt (tagFormat T tag args).1 args.length else []) ++ rest) = some (args.length, rest) := by
  obtain ⟨_, h2, h3, h4, h5, h6⟩ := wfHead_iff T tag args h
  have tr := tag_roundtrip T tag (tagFormat T tag args).1 hT.h1 hT.h2 h2 h3 h4 h5
  refine ⟨_, ?_, tr.2, tr.1, ?_⟩
  · rw [encHead, List.append_assoc, getByte_putByte]
  · rw [decArgc]
    cases hc : (T.info tag).argc with
    | some k =>
      rw [hc] at h6
      simp only [decide_eq_true_eq] at h6
      simp [h6]
    | none =>
      rw [hc] at h6
      simp only [Option.isNone_none, if_true]
      rw [getInt_putInt _ _ _ h6]
      simp


theorem depthArgs_cons_le (a : Arg) (as : List Arg) : depthArgs as ≤ depthArgs (a :: as) := by
  cases a <;> simp only [depthArgs] <;> omega

theorem depthArgs_sub_le (f : Foam) (as : List Arg) : depth f ≤ depthArgs (.sub f :: as) := by
  simp only [depthArgs]; omega

theorem QA_nil (T : Table) (X : XF) : QA T X [] := by
  intro fmt pos lf off argf prev lf' fuel rest hwf _
  simp only [wfArgs, Option.some.injEq] at hwf
  subst hwf
  simp [encArgs, decArgs, zeroXArgs, depthArgs]

theorem QA_cons (T : Table) (X : XF) (hX : X.OK) (a : Arg) (as : List Arg)
    (ha : ∀ f, a = .sub f → PF T X f) (ih : QA T X as) : QA T X (a :: as) := by
  intro fmt pos lf off argf prev lf' fuel rest hwf hd
  have hd' : depthArgs as ≤ fuel := Nat.le_trans (depthArgs_cons_le a as) hd
  rw [wfArgs.eq_def] at hwf
  rw [encArgs.eq_def, List.length_cons, decArgs.eq_def, zeroXArgs.eq_def]
  simp only at hwf ⊢
  cases haf : (nextFmt argf prev).1 <;> simp only [haf] at hwf ⊢
  case X => exact absurd hwf (by simp)
  case star => exact absurd hwf (by simp)
  case bad => exact absurd hwf (by simp)
  case F =>
    cases a <;> simp only at hwf ⊢ <;> try (solve | simp at hwf)
    rename_i v
    by_cases hv : isInt32 v = true
    · rw [if_pos hv] at hwf
      have hw : wrap32 v = v := by
        rw [isInt32_iff] at hv; simp only [wrap32]; omega
      obtain ⟨i1, i2, i3, i4, i5⟩ := ih fmt (pos + 4) (fmtFor v) off _ Fmt.F lf' fuel rest hwf hd'
      simp only [Arg.data, hw, consE, List.append_assoc, getSInt_putSInt v _ hv, i1, i2, i3, i4, consD, Bool.false_or]
      refine ⟨trivial, trivial, trivial, trivial, ?_⟩
      simp only [depthArgs, List.length_append]; omega
    · rw [if_neg hv] at hwf; exact absurd hwf (by simp)
  case f =>
    cases a <;> simp only at hwf ⊢ <;> try (solve | simp at hwf)
    rename_i b
    cases as with
    | nil =>
      simp only [List.isEmpty_nil, if_true, Option.some.injEq] at hwf
      subst hwf
      simp [hX.sf, zeroXArgs, depthArgs]
    | cons _ _ => simp at hwf
  case d =>
    cases a <;> simp only at hwf ⊢ <;> try (solve | simp at hwf)
    rename_i b
    cases as with
    | nil =>
      simp only [List.isEmpty_nil, if_true, Option.some.injEq] at hwf
      subst hwf
      simp [hX.df, zeroXArgs, depthArgs]
    | cons _ _ => simp at hwf
  case C =>
    cases a <;> simp only at hwf ⊢ <;> try (solve | simp at hwf)
    rename_i f
    cases hf : wfF T lf f with
    | none => rw [hf] at hwf; exact absurd hwf (by simp)
    | some lf1 =>
      rw [hf] at hwf
      simp only at hwf
      have hdf : depth f ≤ fuel := Nat.le_trans (depthArgs_sub_le f as) hd
      obtain ⟨p1, p2, p3, p4⟩ := ha f rfl pos lf lf1 fuel ((encArgs T X fmt (pos + (encF T X pos lf f).1.length) (encF T X pos lf f).2.1 off (nextFmt argf prev).2 Fmt.C as).1 ++ rest) hf hdf
      rw [p1] at p3 ⊢
      obtain ⟨i1, i2, i3, i4, i5⟩ := ih fmt (pos + (encF T X pos lf f).1.length) lf1 off _ Fmt.C lf' fuel rest hwf hd'
      simp only [consE, List.append_assoc, p3, p2, i1, i2, i3, i4, consD, Bool.false_or]
      refine ⟨trivial, trivial, trivial, trivial, ?_⟩
      simp only [depthArgs, List.length_append]; omega
  all_goals (
    split at hwf
    next hw =>
      obtain ⟨b, hb, hr⟩ := leaf_roundtrip T fmt lf _ a hw
      obtain ⟨i1, i2, i3, i4, i5⟩ := ih fmt (pos + b.length) lf off _ _ lf' fuel rest hwf hd'
      simp only [hb, consE, List.append_assoc, hr, i1, i2, i3, i4, consD, Bool.false_or]
      refine ⟨trivial, trivial, trivial, ?_, ?_⟩
      · cases a <;> simp_all [wfLeaf]
      · have : depthArgs (a :: as) = depthArgs as := by cases a <;> simp_all [wfLeaf, depthArgs]
        rw [this, List.length_append]; omega
    next => simp at hwf)

theorem patchAt_zero (v w tl : List UInt8) (h : v.length = w.length) :
    patchAt (v ++ tl) 0 w = w ++ tl := by
  induction v generalizing w with
  | nil =>
    cases w with
    | nil => cases tl <;> simp [patchAt]
    | cons _ _ => simp at h
  | cons x v ih =>
    cases w with
    | nil => simp at h
    | cons y w =>
      simp only [List.length_cons, Nat.add_right_cancel_iff] at h
      simp only [List.cons_append, patchAt, ih w h]

theorem patchAt_append (hd v w tl : List UInt8) (h : v.length = w.length) (hw : w ≠ []) :
    patchAt (hd ++ (v ++ tl)) hd.length w = hd ++ (w ++ tl) := by
  induction hd with
  | nil => simpa using patchAt_zero v w tl h
  | cons x hd ih =>
    cases w with
    | nil => exact absurd rfl hw
    | cons y w =>
      simp only [List.cons_append, List.length_cons, patchAt]
      rw [ih]; simp

theorem PF_node (T : Table) (X : XF) (hT : TOK T) (tag : Nat) (args : List Arg)
    (hq : QA T X args) (hqt : ∀ a as, args = a :: as → QA T X as) : PF T X (.node tag args) := by
  intro pos lf lf' fuel rest hwf hd
  rw [wfF.eq_def] at hwf
  simp only at hwf
  rw [depth] at hd
  obtain ⟨k, rfl⟩ : ∃ k, fuel = k + 1 := ⟨fuel - 1, by omega⟩
  have hdk : depthArgs args ≤ k := by omega
  split at hwf
  next hh =>
    obtain ⟨w1, w2, w3, w4, w5, w6⟩ := wfHead_iff T tag args hh
    split at hwf
    next hp =>
      split at hwf
      next _ _ r a0 as hargf =>
        generalize ha0 : Arg.int a0 = a at *
        have hdk' : depthArgs as ≤ k := Nat.le_trans (depthArgs_cons_le a as) hdk
        have hlen := putSInt_length
        obtain ⟨i1, i2, i3, i4, i5⟩ := hqt a as rfl (tagFormat T tag (a :: as)).1
          (pos + (encHead T tag (tagFormat T tag (a :: as)).1 (a :: as).length).length + 4) lf
          (pos + (encHead T tag (tagFormat T tag (a :: as)).1 (a :: as).length).length) r .X lf' k rest hwf hdk'
        rw [encF.eq_def]
        simp only [finishNode, if_pos hp, hargf]
        rw [encArgs.eq_def]
        simp only [nextFmt, consE, i1, i2, i3, Bool.or_false]
        have hnl : ¬ (pos + (encHead T tag (tagFormat T tag (a :: as)).1 (a :: as).length).length < pos) := by omega
        simp only [if_neg hnl]
        have hhl : 1 ≤ (encHead T tag (tagFormat T tag (a :: as)).1 (a :: as).length).length := by
          rw [encHead, List.length_append, putByte_length]; omega
        have hda : depthArgs (a :: as) = depthArgs as := by subst ha0; simp [depthArgs]
        have e : pos + (encHead T tag (tagFormat T tag (a :: as)).1 (a :: as).length).length - pos
            = (encHead T tag (tagFormat T tag (a :: as)).1 (a :: as).length).length := by omega
        rw [e, patchAt_append _ _ _ _ (by rw [hlen, hlen]) (by simp [putSInt])]
        refine ⟨trivial, w1, ?_, by rw [depth, hda]; simp only [List.length_append, hlen]; omega⟩
        generalize hbody : (encArgs T X (tagFormat T tag (a :: as)).fst
                (pos + (encHead T tag (tagFormat T tag (a :: as)).fst (a :: as).length).length + 4) lf
                (pos + (encHead T tag (tagFormat T tag (a :: as)).fst (a :: as).length).length) r Fmt.X as).fst = body at i4 ⊢
        generalize (((pos + (encHead T tag (tagFormat T tag (a :: as)).fst (a :: as).length ++
                        (putSInt ↑(pos + (encHead T tag (tagFormat T tag (a :: as)).fst (a :: as).length).length) ++
                          body)).length : Nat) : Int) -
                ↑(pos + (encHead T tag (tagFormat T tag (a :: as)).fst (a :: as).length).length)) = sz
        obtain ⟨b, hb1, hb2, hb3, hb4⟩ := head_roundtrip T hT tag (a :: as) (putSInt sz ++ (body ++ rest)) hh
        obtain ⟨w, hw⟩ := getSInt_putSInt_any sz (body ++ rest)
        rw [decF.eq_def]
        simp only [List.append_assoc, hb1, hb2, hb3, hb4, hargf]
        rw [decArgs.eq_def]
        have hz : zeroX T (.node tag (a :: as)) = .node tag (.int 0 :: zeroXArgs T r .X as) := by
          rw [zeroX, hargf, zeroXArgs.eq_def]
          simp only [nextFmt]
        simp only [List.length_cons, nextFmt, hw, i4, consD, mkNode, hz]
      next => simp at hwf
    next hp =>
      obtain ⟨i1, i2, i3, i4, i5⟩ := hq (tagFormat T tag args).1
        (pos + (encHead T tag (tagFormat T tag args).1 args.length).length) lf 0 (T.info tag).argf .bad lf' k rest hwf hdk
      obtain ⟨b, hb1, hb2, hb3, hb4⟩ := head_roundtrip T hT tag args
        ((encArgs T X (tagFormat T tag args).1 (pos + (encHead T tag (tagFormat T tag args).1 args.length).length) lf 0 (T.info tag).argf .bad args).1 ++ rest) hh
      rw [encF.eq_def]
      simp only [finishNode, if_neg hp]
      have hhl : 1 ≤ (encHead T tag (tagFormat T tag args).1 args.length).length := by
        rw [encHead, List.length_append, putByte_length]; omega
      refine ⟨i1, by simp [*], ?_, ?_⟩
      · rw [decF.eq_def]
        simp only [List.append_assoc, hb1, hb2, hb3, hb4, i4, mkNode, zeroX]
      · rw [depth, List.length_append]; omega
  next => simp at hwf

theorem PF_all (T : Table) (X : XF) (hT : TOK T) (hX : X.OK) (f : Foam) : PF T X f :=
  Foam.rec (motive_1 := fun f => PF T X f)
    (motive_2 := fun a => ∀ f, a = .sub f → PF T X f)
    (motive_3 := fun l => QA T X l ∧ ∀ a as, l = a :: as → QA T X as)
    (fun tag args ih => PF_node T X hT tag args ih.1 ih.2)
    (fun _ _ h => by cases h) (fun _ _ h => by cases h) (fun _ _ h => by cases h)
    (fun _ _ h => by cases h) (fun _ _ h => by cases h)
    (fun f ih g h => by cases h; exact ih)
    ⟨QA_nil T X, fun _ _ h => by cases h⟩
    (fun a as iha ihas => ⟨QA_cons T X hX a as iha ihas.1, fun a' as' h => by cases h; exact ihas.1⟩)
    f
/-! ### foamSIntReduce denotes the same 64-bit value -/
theorem mask_getLsbD (j : Nat) : (0x7fffffff#64).getLsbD j = decide (j < 31) := by
  have : (0x7fffffff#64) = BitVec.ofNat 64 (2^31 - 1) := by decide
  rw [this, BitVec.getLsbD_ofNat, Nat.testBit_two_pow_sub_one]
  by_cases h : j < 31
  · simp [h]; omega
  · simp [h]

theorem parts_join (n : BitVec 64) :
    ((part n 2 <<< 31 ||| part n 1) <<< 31) ||| part n 0 = n := by
  apply BitVec.eq_of_getLsbD_eq
  intro i hi
  simp only [part, BitVec.getLsbD_or, BitVec.getLsbD_shiftLeft, BitVec.getLsbD_and, BitVec.getLsbD_sshiftRight,
    mask_getLsbD]
  rcases (by omega : i < 31 ∨ (31 ≤ i ∧ i < 62) ∨ (62 ≤ i ∧ i < 64)) with h | h | h
  · have e : 31 * 0 + i = i := by omega
    simp [h, e, hi]
  · have e : 31 * 1 + (i - 31) = i := by omega
    have h1 : ¬ i < 31 := by omega
    have h2 : i - 31 < 31 := by omega
    have h3 : i - 31 < 64 := by omega
    have h4 : ¬ 64 ≤ i - 31 := by omega
    simp [h1, h2, h3, h4, e, hi]
  · have e : 31 * 2 + (i - 31 - 31) = i := by omega
    have h1 : ¬ i < 31 := by omega
    have h2 : ¬ i - 31 < 31 := by omega
    have h3 : i - 31 < 64 := by omega
    have h5 : i - 31 - 31 < 31 := by omega
    have h6 : ¬ 64 ≤ i - 31 - 31 := by omega
    simp [h1, h2, h3, h5, h6, e, hi]

theorem shl_zero_or (a : BitVec 64) : ((0#64 <<< 31 ||| a)) = a := by simp

theorem sintReduce_eval (x : BitVec 64) : evalReduced (sintReduce x) = x := by
  unfold sintReduce evalReduced
  simp only
  split
  · rfl
  · have key : ∀ n : BitVec 64,
        Red.eval (if part n 2 ≠ 0 then Red.shiftOr (.shiftOr (.lit (part n 2)) (part n 1)) (part n 0)
          else if part n 1 ≠ 0 then Red.shiftOr (.lit (part n 1)) (part n 0) else .lit (part n 0)) = n := by
      intro n
      have hj := parts_join n
      by_cases h2 : part n 2 = 0
      · by_cases h1 : part n 1 = 0
        · simp only [h2, h1, ne_eq, not_true_eq_false, if_false, Red.eval]
          rw [h2, h1] at hj; simpa using hj
        · simp only [h2, ne_eq, not_true_eq_false, if_false, h1, not_false_eq_true, if_true, Red.eval]
          rw [h2] at hj; simpa using hj
      · simp only [ne_eq, h2, not_false_eq_true, if_true, Red.eval]
        exact hj
    split
    · simp only [Red.eval, key]; simp
    · exact key x
end AldorVerif.Foam
