import AldorVerif.Model.LibHdr
/-! helper lemmas about the model of the library header code -/
namespace AldorVerif.LibHdr

/-! ### integers -/
theorem getSInt_putSInt (v : Nat) (h : v < 4294967296) :
    getSInt (v % 256) (v / 256 % 256) (v / 65536 % 256) (v / 16777216 % 256) = v := by
  unfold getSInt; omega

theorem getHInt_putHInt (v : Nat) (h : v < 65536) : getHInt (v % 256) (v / 256 % 256) = v := by
  unfold getHInt; omega

/-! ### the table -/
def Sect.InRange (s : Sect) : Prop := s.name < 256 ∧ s.offset < 4294967296 ∧ s.length < 4294967296

theorem putSects_length (ss : List Sect) : (putSects ss).length = sectSize * ss.length := by
  induction ss with
  | nil => simp [putSects]
  | cons s ss ih => simp [putSects, putSect, putSInt, ih, sectSize]; omega

theorem getSects_putSects (ss : List Sect) (rest : List Nat) (h : ∀ s ∈ ss, s.InRange) :
    getSects ss.length (putSects ss ++ rest) = ss := by
  induction ss with
  | nil => simp [getSects]
  | cons s ss ih =>
    have hs := h s (by simp)
    obtain ⟨h1, h2, h3⟩ := hs
    simp only [putSects, putSect, putSInt, List.cons_append, List.length_cons, getSects, List.nil_append]
    rw [ih (fun t ht => h t (by simp [ht]))]
    rw [getSInt_putSInt _ h2, getSInt_putSInt _ h3, Nat.mod_mod, Nat.mod_eq_of_lt h1]

theorem getSects_length (k : Nat) (l : List Nat) : (getSects k l).length = k := by
  fun_induction getSects k l <;> simp_all

theorem decode_sects_length (buf : List Nat) : (decode buf).sects.length = nameLimit := by
  unfold decode
  split
  · simp [getSects_length]
  · simp [newHeader]

theorem sectAt_limit (h : Hdr) (hl : h.sects.length = nameLimit) : h.sectAt nameLimit = Sect.none := by
  simp [Hdr.sectAt, List.getD_eq_getElem?_getD, hl]

/-! ### reading -/
theorem readBuf_length (file : List Nat) (pos cc : Nat) (junk : List Nat) :
    (readBuf file pos cc junk).length = cc := by
  simp [readBuf]; omega

theorem readBuf_prefix (a body junk : List Nat) : readBuf (a ++ body) 0 a.length junk = a := by
  simp [readBuf]

theorem readBuf_take (file junk : List Nat) (n cc : Nat) (h : cc ≤ n) :
    readBuf (file.take n) 0 cc junk = readBuf file 0 cc junk := by
  simp only [readBuf, List.drop_zero, List.take_take, Nat.min_eq_left h]

theorem readBuf_exact (file junk : List Nat) (pos cc : Nat) (h : pos + cc ≤ file.length) :
    readBuf file pos cc junk = (file.drop pos).take cc := by
  have : ((file.drop pos).take cc).length = cc := by simp; omega
  simp [readBuf, this]

theorem readCount_eq (file : List Nat) (pos cc : Nat) :
    readCount file pos cc = min cc (file.length - pos) := by
  simp [readCount]

/-! ### `setupIndex` -/
theorem setupIndex_notin (ss : List Sect) (k : Nat) (f : Nat → Nat) (n : Nat)
    (h : ∀ s ∈ ss, s.name < nameLimit → s.name ≠ n) : setupIndex ss k f n = f n := by
  induction ss generalizing k f with
  | nil => rfl
  | cons s ss ih =>
    simp only [setupIndex]
    rw [ih _ _ (fun t ht => h t (by simp [ht]))]
    by_cases hs : s.name < nameLimit
    · have := h s (by simp) hs
      simp [hs, setIndex, Ne.symm this]
    · simp [hs]

theorem setupIndex_unique (ss : List Sect) (k : Nat) (f : Nat → Nat) (n i : Nat)
    (hi : i < ss.length) (hn : (ss.getD i Sect.none).name = n) (hlt : n < nameLimit)
    (huniq : ∀ j, j < ss.length → (ss.getD j Sect.none).name = n → j = i) :
    setupIndex ss k f n = k + i := by
  induction ss generalizing k f i with
  | nil => simp at hi
  | cons s ss ih =>
    simp only [setupIndex]
    cases i with
    | zero =>
      simp only [List.getD_cons_zero] at hn
      rw [setupIndex_notin]
      · simp [hn, hlt, setIndex]
      · intro t ht _ hne
        obtain ⟨j, hj, rfl⟩ := List.mem_iff_getElem.mp ht
        have := huniq (j + 1) (by simp; omega) (by simp [List.getD_eq_getElem?_getD, hj, hne])
        omega
    | succ i =>
      simp only [List.getD_cons_succ] at hn
      have := ih (k + 1) (if s.name < nameLimit then setIndex f s.name k else f) i
        (by simpa using hi) hn
        (fun j hj hjn => by
          have := huniq (j + 1) (by simp; omega) (by simpa using hjn)
          omega)
      rw [this]; omega

theorem setupIndex_range (ss : List Sect) (k : Nat) (f : Nat → Nat) (n : Nat) :
    setupIndex ss k f n = f n ∨ (k ≤ setupIndex ss k f n ∧ setupIndex ss k f n < k + ss.length) := by
  induction ss generalizing k f with
  | nil => exact Or.inl rfl
  | cons s ss ih =>
    simp only [setupIndex, List.length_cons]
    rcases ih (k + 1) (if s.name < nameLimit then setIndex f s.name k else f) with h | h
    · rw [h]
      by_cases hs : s.name < nameLimit
      · simp only [hs, if_true, setIndex]
        by_cases hn : n = s.name
        · simp [hn]
        · simp [hn]
      · simp [hs]
    · exact Or.inr ⟨by omega, by omega⟩

/-! ### `chkNames`, `chkContig`, `findSect` as quantifiers -/
theorem chkNames_ok (h : Hdr) (l : List Nat) :
    chkNames h l = .ok ↔ ∀ i ∈ l, (h.sectAt i).name < nameLimit ∧ h.index (h.sectAt i).name = i := by
  induction l with
  | nil => simp [chkNames]
  | cons i is ih =>
    simp only [chkNames, List.mem_cons, forall_eq_or_imp]
    by_cases h1 : (h.sectAt i).name ≥ nameLimit
    · simp [h1]; omega
    · by_cases h2 : h.index (h.sectAt i).name ≠ i
      · simp [h1, h2]
      · simp only [h1, h2, if_false, ih]
        simp at h2
        constructor
        · intro hh; exact ⟨⟨by omega, h2⟩, hh⟩
        · intro hh; exact hh.2

theorem chkNames_cases (h : Hdr) (l : List Nat) :
    chkNames h l = .ok ∨ chkNames h l = .badSectName ∨ chkNames h l = .dupSect := by
  induction l with
  | nil => simp [chkNames]
  | cons i is ih =>
    simp only [chkNames]
    split
    · simp
    · split
      · simp
      · exact ih

theorem chkContig_ok (h : Hdr) (l : List Nat) :
    chkContig h l = .ok ↔
      ∀ i ∈ l, (h.sectAt i).offset = (h.sectAt (i - 1)).offset + (h.sectAt (i - 1)).length := by
  induction l with
  | nil => simp [chkContig]
  | cons i is ih =>
    simp only [chkContig, List.mem_cons, forall_eq_or_imp]
    by_cases h1 : (h.sectAt i).offset ≠ (h.sectAt (i - 1)).offset + (h.sectAt (i - 1)).length
    · simp [h1]
    · simp only [h1, if_false, ih]
      simp at h1
      constructor
      · intro hh; exact ⟨h1, hh⟩
      · intro hh; exact hh.2

def InSect (h : Hdr) (n i : Nat) : Prop :=
  (h.sectAt i).offset ≤ n ∧ n < (h.sectAt i).offset + (h.sectAt i).length

instance (h : Hdr) (n i : Nat) : Decidable (InSect h n i) := by unfold InSect; infer_instance

theorem findSect_section (h : Hdr) (n : Nat) (l : List Nat) (i : Nat) :
    findSect h n l = .section i → i ∈ l ∧ InSect h n i := by
  induction l with
  | nil => simp [findSect]
  | cons j js ih =>
    simp only [findSect]
    split
    · rename_i hj
      intro he; injection he with he; subst he; exact ⟨by simp, hj⟩
    · intro he; have := ih he; exact ⟨by simp [this.1], this.2⟩

theorem findSect_of_unique (h : Hdr) (n : Nat) (l : List Nat) (i : Nat) (hi : i ∈ l) (hin : InSect h n i)
    (hu : ∀ j ∈ l, InSect h n j → j = i) : findSect h n l = .section i := by
  induction l with
  | nil => simp at hi
  | cons j js ih =>
    simp only [findSect]
    split
    · rename_i hj
      rw [hu j (by simp) hj]
    · rename_i hj
      have : i ∈ js := by
        rcases List.mem_cons.mp hi with rfl | h1
        · exact absurd hin hj
        · exact h1
      exact ih this (fun k hk => hu k (by simp [hk]))

theorem findSect_not_header (h : Hdr) (n : Nat) (l : List Nat) :
    findSect h n l ≠ .header ∧ findSect h n l ≠ .table := by
  induction l with
  | nil => simp [findSect]
  | cons j js ih => simp only [findSect]; split <;> simp [ih]

theorem findSect_beyond (h : Hdr) (n : Nat) (l : List Nat) :
    findSect h n l = .beyond ↔ ∀ i ∈ l, ¬ InSect h n i := by
  induction l with
  | nil => simp [findSect]
  | cons j js ih =>
    simp only [findSect, List.mem_cons, forall_eq_or_imp]
    split
    · rename_i hj; simp; intro hj'; exact absurd hj hj'
    · rename_i hj; rw [ih]; exact ⟨fun hh => ⟨hj, hh⟩, fun hh => hh.2⟩

/-! ### what `libChkHeader` establishes -/
structure ChkFacts (h : Hdr) : Prop where
  magic : h.magic = hdrMagic
  version : ¬ (h.verMajor < majorVersion ∨ (h.verMajor = majorVersion ∧ h.verMinor < minorVersion))
  num : h.numSect ≤ nameLimit
  names : ∀ i, i < h.numSect → (h.sectAt i).name < nameLimit ∧ h.index (h.sectAt i).name = i
  off0 : (h.sectAt 0).offset = hdrSize
  contig : ∀ i, 0 < i → i < h.numSect →
    (h.sectAt i).offset = (h.sectAt (i - 1)).offset + (h.sectAt (i - 1)).length

theorem chk_ok_iff (h : Hdr) : chk h = .ok ↔ ChkFacts h := by
  unfold chk
  by_cases h1 : h.magic ≠ hdrMagic
  · rw [if_pos h1]
    exact ⟨fun hh => (by cases hh), fun hf => absurd hf.magic h1⟩
  · rw [if_neg h1]
    by_cases h2 : h.verMajor < majorVersion ∨ (h.verMajor = majorVersion ∧ h.verMinor < minorVersion)
    · rw [if_pos h2]
      exact ⟨fun hh => (by cases hh), fun hf => absurd h2 hf.version⟩
    · rw [if_neg h2]
      by_cases h3 : ¬ h.numSect ≤ nameLimit
      · rw [if_pos h3]
        exact ⟨fun hh => (by cases hh), fun hf => absurd hf.num h3⟩
      · rw [if_neg h3]
        simp only [Decidable.not_not] at h1 h3
        have hnames := chkNames_ok h (List.range h.numSect)
        rcases chkNames_cases h (List.range h.numSect) with hc | hc | hc
        · rw [hc]
          have hn := hnames.mp hc
          by_cases h4 : (h.sectAt 0).offset ≠ hdrSize
          · simp only [if_pos h4]
            exact ⟨fun hh => (by cases hh), fun hf => absurd hf.off0 h4⟩
          · simp only [if_neg h4]
            simp only [ne_eq, Decidable.not_not] at h4
            rw [chkContig_ok]
            constructor
            · intro hc2
              exact ⟨h1, h2, h3, fun i hi => hn i (List.mem_range.mpr hi), h4,
                fun i hi0 hi => hc2 i (by rw [List.mem_range']; exact ⟨i - 1, by omega, by omega⟩)⟩
            · intro hf i hi
              rw [List.mem_range'] at hi
              obtain ⟨k, hk, rfl⟩ := hi
              exact hf.contig _ (by omega) (by omega)
        · rw [hc]
          refine ⟨fun hh => (by cases hh), fun hf => ?_⟩
          have := hnames.mpr (fun i hi => hf.names i (List.mem_range.mp hi))
          rw [hc] at this; cases this
        · rw [hc]
          refine ⟨fun hh => (by cases hh), fun hf => ?_⟩
          have := hnames.mpr (fun i hi => hf.names i (List.mem_range.mp hi))
          rw [hc] at this; cases this

/-- from contiguity: later sections start after earlier ones end -/
theorem ChkFacts.mono {h : Hdr} (hf : ChkFacts h) (i j : Nat) (hij : i < j) (hj : j < h.numSect) :
    (h.sectAt i).offset + (h.sectAt i).length ≤ (h.sectAt j).offset := by
  induction j with
  | zero => omega
  | succ j ih =>
    have hc := hf.contig (j + 1) (by omega) hj
    simp only [Nat.add_sub_cancel] at hc
    by_cases hij' : i = j
    · subst hij'; omega
    · have := ih (by omega) (by omega); omega

theorem ChkFacts.inSect_unique {h : Hdr} (hf : ChkFacts h) (n i j : Nat) (hi : i < h.numSect)
    (hj : j < h.numSect) (h1 : InSect h n i) (h2 : InSect h n j) : i = j := by
  unfold InSect at h1 h2
  rcases Nat.lt_trichotomy i j with hlt | heq | hgt
  · have := hf.mono i j hlt hj; omega
  · exact heq
  · have := hf.mono j i hgt hi; omega

theorem ChkFacts.cover {h : Hdr} (hf : ChkFacts h) (n k : Nat) (hk0 : 0 < k) (hk : k ≤ h.numSect)
    (hlo : hdrSize ≤ n) (hhi : n < (h.sectAt (k - 1)).offset + (h.sectAt (k - 1)).length) :
    ∃ i, i < k ∧ InSect h n i := by
  induction k with
  | zero => omega
  | succ k ih =>
    simp only [Nat.add_sub_cancel] at hhi
    by_cases hk1 : k = 0
    · subst hk1
      exact ⟨0, by omega, by unfold InSect; rw [hf.off0]; exact ⟨hlo, by rw [← hf.off0]; exact hhi⟩⟩
    · by_cases hlt : n < (h.sectAt (k - 1)).offset + (h.sectAt (k - 1)).length
      · obtain ⟨i, hi, hin⟩ := ih (by omega) (by omega) hlt
        exact ⟨i, by omega, hin⟩
      · have hc := hf.contig k (by omega) (by omega)
        exact ⟨k, by omega, by unfold InSect; omega⟩

/-! ### the writer's invariant -/
structure Built (h : Hdr) : Prop where
  magic : h.magic = hdrMagic
  vmaj : h.verMajor = majorVersion
  vmin : h.verMinor = minorVersion
  len : h.sects.length = nameLimit
  num : h.numSect ≤ nameLimit
  used : ∀ i, i < h.numSect → (h.sectAt i).name < nameLimit ∧ h.index (h.sectAt i).name = i
  unused : ∀ i, h.numSect ≤ i → h.sectAt i = Sect.none
  idx : ∀ n, h.index n ≠ nameLimit → h.index n < h.numSect ∧ (h.sectAt (h.index n)).name = n
  off0 : 0 < h.numSect → (h.sectAt 0).offset = hdrSize
  contig : ∀ i, 0 < i → i < h.numSect →
    (h.sectAt i).offset = (h.sectAt (i - 1)).offset + (h.sectAt (i - 1)).length

theorem sectAt_replicate (i : Nat) :
    (List.replicate nameLimit Sect.none).getD i Sect.none = Sect.none := by
  simp [List.getD_eq_getElem?_getD, List.getElem?_replicate]
  split <;> rfl

theorem built_new : Built newHeader where
  magic := rfl
  vmaj := rfl
  vmin := rfl
  len := by simp [newHeader]
  num := by simp [newHeader]
  used := by intro i hi; simp [newHeader] at hi
  unused := by intro i _; exact sectAt_replicate i
  idx := by intro n hn; simp [newHeader] at hn
  off0 := by intro h; simp [newHeader] at h
  contig := by intro i _ hi; simp [newHeader] at hi

theorem getD_set (ss : List Sect) (i j : Nat) (s : Sect) (hi : i < ss.length) :
    (ss.set i s).getD j Sect.none = if j = i then s else ss.getD j Sect.none := by
  simp only [List.getD_eq_getElem?_getD, List.getElem?_set]
  by_cases hji : j = i
  · subst hji; simp [hi]
  · simp [hji, Ne.symm hji]

theorem built_add {h h' : Hdr} (hb : Built h) (name len : Nat) (hn : name < nameLimit)
    (ha : addSection h name len = some h') : Built h' ∧ h'.numSect = h.numSect + 1 := by
  obtain ⟨m, a, b, num, ss, idx⟩ := h
  unfold addSection at ha
  by_cases h1 : num = nameLimit
  · simp [h1] at ha
  · by_cases h2 : idx name ≠ nameLimit
    · simp [h1, h2] at ha
    · simp only [h1, h2, if_false, Option.some.injEq] at ha
      simp only [Decidable.not_not] at h2
      have hnum : num ≤ nameLimit := hb.num
      have hlen : ss.length = nameLimit := hb.len
      have hi : num < ss.length := by omega
      have hused : ∀ i, i < num → (ss.getD i Sect.none).name < nameLimit ∧ idx (ss.getD i Sect.none).name = i := hb.used
      have hunused : ∀ i, num ≤ i → ss.getD i Sect.none = Sect.none := hb.unused
      have hidx : ∀ n, idx n ≠ nameLimit → idx n < num ∧ (ss.getD (idx n) Sect.none).name = n := hb.idx
      have hoff0 : 0 < num → (ss.getD 0 Sect.none).offset = hdrSize := hb.off0
      have hcontig : ∀ i, 0 < i → i < num →
        (ss.getD i Sect.none).offset = (ss.getD (i - 1) Sect.none).offset + (ss.getD (i - 1) Sect.none).length := hb.contig
      subst ha
      refine ⟨?_, rfl⟩
      constructor
      · exact hb.magic
      · exact hb.vmaj
      · exact hb.vmin
      · simp [hlen]
      · show num + 1 ≤ nameLimit; omega
      · intro j hj
        change j < num + 1 at hj
        simp only [Hdr.sectAt, getD_set _ _ _ _ hi]
        by_cases hje : j = num
        · simp [hje, hn, setIndex]
        · have hjl : j < num := by omega
          have hu := hused j hjl
          simp only [hje, if_false]
          refine ⟨hu.1, ?_⟩
          unfold setIndex
          by_cases hne : (ss.getD j Sect.none).name = name
          · rw [hne] at hu; omega
          · rw [if_neg hne]; exact hu.2
      · intro j hj
        change num + 1 ≤ j at hj
        simp only [Hdr.sectAt, getD_set _ _ _ _ hi]
        have : j ≠ num := by omega
        simp only [this, if_false]
        exact hunused j (by omega)
      · intro n hne
        change setIndex idx name num n ≠ nameLimit at hne
        show setIndex idx name num n < num + 1 ∧ _
        simp only [Hdr.sectAt, getD_set _ _ _ _ hi]
        unfold setIndex at hne ⊢
        by_cases hnn : n = name
        · simp [hnn]
        · simp only [hnn, if_false] at hne ⊢
          have := hidx n hne
          have hne2 : idx n ≠ num := by omega
          simp only [hne2, if_false]
          exact ⟨by omega, this.2⟩
      · intro _
        simp only [Hdr.sectAt, getD_set _ _ _ _ hi]
        by_cases h0 : num = 0
        · simp [h0]
        · have : (0 : Nat) ≠ num := fun e => h0 e.symm
          simp only [this, if_false]
          exact hoff0 (by omega)
      · intro j hj0 hj
        change j < num + 1 at hj
        simp only [Hdr.sectAt, getD_set _ _ _ _ hi]
        have hjm : j - 1 ≠ num := by omega
        simp only [hjm, if_false]
        by_cases hje : j = num
        · have h0 : num ≠ 0 := by omega
          simp [hje, h0]
        · simp only [hje, if_false]
          exact hcontig j hj0 (by omega)

theorem built_build {h0 h : Hdr} (reqs : List (Nat × Nat)) (hb : Built h0)
    (hn : ∀ r ∈ reqs, r.1 < nameLimit) (hbuild : build h0 reqs = some h) :
    Built h ∧ h.numSect = h0.numSect + reqs.length := by
  induction reqs generalizing h0 with
  | nil => simp [build] at hbuild; subst hbuild; exact ⟨hb, by simp⟩
  | cons r rs ih =>
    obtain ⟨n, l⟩ := r
    simp only [build] at hbuild
    cases ha : addSection h0 n l with
    | none => simp [ha] at hbuild
    | some h1 =>
      simp only [ha] at hbuild
      have h1b := built_add hb n l (hn (n, l) (by simp)) ha
      have := ih h1b.1 (fun r hr => hn r (by simp [hr])) hbuild
      exact ⟨this.1, by rw [this.2, h1b.2]; simp; omega⟩

end AldorVerif.LibHdr
