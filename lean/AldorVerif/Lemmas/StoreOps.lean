import AldorVerif.Lemmas.Store

/-! # The externally visible operations of the model of `store.c` preserve the invariant -/
namespace AldorVerif.Store

/-- distance from a piece to the pointer handed out -/
def VP.hdr (v : VP) : Nat :=
  match v.cls with
  | some _ => 0
  | none => mxHead
/-- the pointer the client holds -/
def VP.ptr (v : VP) : Nat := v.addr + v.hdr
/-- `stoSize` of the block -/
def VP.usable (v : VP) : Nat := v.n - v.hdr

theorem roundUp_facts (n : Nat) : n ≤ roundUp n mixedQuantum ∧ mixedQuantum ∣ roundUp n mixedQuantum := by
  unfold roundUp mixedQuantum
  split
  · next h => exact ⟨Nat.le_refl _, Nat.dvd_of_mod_eq_zero h⟩
  · next h => exact ⟨by omega, Nat.dvd_of_mod_eq_zero (by omega)⟩

/-- a live block of the model is a busy entry of the view -/
theorem Inv.blockAt_view {s : State} (_h : Inv s) {p : Nat} {sc : Sect} {x : Piece} {c : Nat}
    (hb : s.blockAt p = some (sc, x, c)) :
    ∃ v ∈ s.view, v.ptr = p ∧ v.st = .busy c ∧ v.n = x.n ∧ v.cls = sc.cls ∧ v.addr = p - sc.hdr ∧
      sc.hdr ≤ p ∧ v.hdr = sc.hdr := by
  obtain ⟨hf, hh, hx, hst⟩ := blockAt_some hb
  obtain ⟨S1, S2, hS, hhas⟩ := findSect_some hf
  obtain ⟨b, t, hP, ha⟩ := pcsAt_some hx
  refine ⟨⟨p - sc.hdr, x.n, x.st, sc.cls⟩, ?_, ?_, hst, rfl, rfl, rfl, hh, ?_⟩
  · unfold State.view
    have := view_shape sc S1 S2 b x t
    rw [← Sect.eta_pieces hP] at this
    rw [hS, this, ha]; simp
  · have : (⟨p - sc.hdr, x.n, x.st, sc.cls⟩ : VP).hdr = sc.hdr := by
      unfold VP.hdr Sect.hdr; rfl
    unfold VP.ptr; rw [this]; simp only; omega
  · unfold VP.hdr Sect.hdr; rfl

theorem Inv.view_blockAt {s : State} (h : Inv s) {v : VP} {c : Nat} (hv : v ∈ s.view) (hb : v.st = .busy c) :
    ∃ sc x, s.blockAt v.ptr = some (sc, x, c) ∧ x.n = v.n ∧ sc.hdr = v.hdr ∧ sc.cls = v.cls := by
  obtain ⟨sc, x, hf, hx, hxn, hxst, hcls, hscm⟩ := h.lookup hv
  have hg := h.geo sc hscm
  obtain ⟨S1, S2, hS, hhas⟩ := findSect_some hf
  obtain ⟨b, t, hP, ha⟩ := pcsAt_some hx
  have hhdr : sc.hdr = v.hdr := by unfold VP.hdr Sect.hdr; rw [hcls]; cases v.cls <;> rfl
  have hxm : x ∈ sc.pieces := by rw [hP]; simp
  have hvin : (⟨v.addr, x.n, x.st, sc.cls⟩ : VP) ∈ sc.view := by
    unfold Sect.view; rw [hP, viewPcs_append, ha]; simp
  have hbd := hg.mem_view hvin
  simp only at hbd
  have hlt : v.hdr < x.n := by
    unfold VP.hdr
    cases hc : v.cls with
    | some i => simp only; exact hg.pos x hxm
    | none => simp only; rw [hc] at hcls; exact (hg.mixed_ok hcls).1 x hxm
  have hs := h.sorted
  rw [hS] at hs
  have hhas' : sc.has v.ptr = true := by
    rw [Sect.has_iff]; unfold VP.ptr
    have := sc.base_le_data
    omega
  have hsides := hs.sides hhas'
  refine ⟨sc, x, ?_, hxn, hhdr, hcls⟩
  unfold State.blockAt
  rw [hS, findSect_zip hsides.1 hhas']
  simp only
  have h1 : sc.hdr ≤ v.ptr := by unfold VP.ptr; omega
  have h2 : v.ptr - sc.hdr = v.addr := by unfold VP.ptr; omega
  rw [if_pos h1, h2, hx]
  cases x with
  | mk n st =>
    simp only at hxst
    subst hxst
    simp [hb]

/-- `stoAlloc` -/
theorem inv_alloc {s s' : State} {code n grant p : Nat} (h : Inv s)
    (hr : alloc s code n grant = some (s', p)) :
    Inv s' ∧ ∃ new : VP, AllocEff s s' new ∧ new.ptr = p ∧ n ≤ new.usable ∧ new.st = .busy (code % (codeMask + 1)) := by
  unfold alloc at hr
  split at hr
  · simp at hr
  · split at hr
    · next hn =>
      obtain ⟨h1, he⟩ := inv_allocFixed h hn hr
      refine ⟨h1, _, he, ?_, ?_, rfl⟩
      · simp [VP.ptr, VP.hdr]
      · simp [VP.usable, VP.hdr]; exact le_classSize hn
    · next hn =>
      unfold allocMixed at hr
      simp only at hr
      split at hr
      · simp at hr
      · next s1 a hg =>
        simp only [Option.some.injEq, Prod.mk.injEq] at hr
        obtain ⟨rfl, rfl⟩ := hr
        obtain ⟨hle, hdv⟩ := roundUp_facts (n + mxHead)
        have hmh : mxHead = 32 := rfl
        obtain ⟨h1, m, hm, he⟩ := inv_pieceGetMixed h hdv (by omega) hg
        refine ⟨h1, _, he, ?_, ?_, rfl⟩
        · simp [VP.ptr, VP.hdr]
        · simp [VP.usable, VP.hdr]; omega

theorem Inv.toD {s : State} (h : Inv s) {a n c : Nat} {cl : Option Nat}
    (hv : (⟨a, n, .busy c, cl⟩ : VP) ∈ s.view) : InvD (some a) s := by
  refine ⟨h.sorted, h.geo, h.fl_len, h.fl_nodup, h.fl_iff, h.tree_wf, h.tree_iff, ?_⟩
  intro a'
  rw [h.front_iff a']
  constructor
  · rintro ⟨⟨n', c', hn⟩, _⟩
    refine ⟨⟨n', c', hn⟩, fun he => ?_⟩
    simp at he; subst he
    have := congrArg VP.st (h.view_inj hn hv rfl)
    simp at this
  · rintro ⟨hex, _⟩
    exact ⟨hex, by simp⟩

/-- `stoFree` -/
theorem inv_free {s s' : State} {p : Nat} (h : Inv s) (hr : free s p = some s') :
    Inv s' ∧ ∃ old ∈ s.view, old.busy ∧ old.ptr = p ∧
      ∀ v, v.busy → (v ∈ s'.view ↔ v ∈ s.view ∧ v.addr ≠ old.addr) := by
  unfold free at hr
  split at hr
  · simp at hr
  · next sc x c hb =>
    obtain ⟨v, hv, hvp, hvst, hvn, hvc, hva, hle, hvh⟩ := h.blockAt_view hb
    split at hr
    · next i hc =>
      simp only [Option.some.injEq] at hr
      subst hr
      obtain ⟨h1, hmem, _⟩ := inv_free_fixed h hb hc
      have hdr0 : sc.hdr = 0 := by simp [Sect.hdr, hc]
      have hvap : v.addr = p := by omega
      refine ⟨h1.tag _, v, hv, ⟨c, hvst⟩, hvp, fun w hw => ?_⟩
      show w ∈ viewSects (updAt p (pcsSetSt p .free) s.sects) ↔ _
      rw [hmem, hvap]
      obtain ⟨c', hc'⟩ := hw
      constructor
      · rintro (hh | hh)
        · exact hh
        · rw [hh] at hc'; simp at hc'
      · exact Or.inl
    · next hc =>
      have hdr : sc.hdr = mxHead := by simp [Sect.hdr, hc]
      rw [hdr] at hva
      have hv' : (⟨p - mxHead, v.n, .busy c, none⟩ : VP) ∈ s.view := by
        have : v = ⟨p - mxHead, v.n, .busy c, none⟩ := by
          cases v; simp_all
        rw [← this]; exact hv
      obtain ⟨sc', x', hf, hx, hxn, hxst, hcls, _⟩ := h.lookup hv'
      simp only at hf hx hxn hxst hcls
      obtain ⟨h1, hb1, _⟩ := inv_putMixed ((h.toD hv').tag "mx-free") hf hx hcls (by rw [hxst]; simp) hr
      refine ⟨h1, v, hv, ⟨c, hvst⟩, hvp, fun w hw => ?_⟩
      rw [hb1 w hw, view_tag, hva]

/-- `stoRecode` -/
theorem inv_recode {s s' : State} {p code : Nat} (h : Inv s) (hr : recode s p code = some s') :
    Inv s' ∧ ∃ old ∈ s.view, old.busy ∧ old.ptr = p ∧
      ∀ v, v ∈ s'.view ↔ (v ∈ s.view ∧ v.addr ≠ old.addr) ∨
        v = { old with st := .busy (code % (codeMask + 1)) } := by
  unfold recode at hr
  split at hr
  · simp at hr
  · next sc x c hb =>
    simp only [Option.some.injEq] at hr
    subst hr
    obtain ⟨v, hv, hvp, hvst, hvn, hvc, hva, hle, hvh⟩ := h.blockAt_view hb
    obtain ⟨hf, hh, hx, hst⟩ := blockAt_some hb
    have hv' : (⟨p - sc.hdr, x.n, .busy c, sc.cls⟩ : VP) ∈ s.view := by
      have : v = ⟨p - sc.hdr, x.n, .busy c, sc.cls⟩ := by cases v; simp_all
      rw [← this]; exact hv
    obtain ⟨sc', x', S1, S2, b, t, hf', hx', hxn, hxst, hcls, hS, hP, ha, hg, hbpos, hb1, hb2, hupd⟩ := h.focus_view hv'
    have hxpos : 0 < x.n := by have := h.view_pos hv'; simpa using this
    have hhdr : sc'.hdr = sc.hdr := by unfold Sect.hdr; rw [hcls]
    have hlim : p < sc'.lim := by
      have : sc.hdr < x.n := by
        rw [← hhdr]; unfold Sect.hdr
        have hxm : x' ∈ sc'.pieces := by rw [hP]; simp
        cases hc : sc'.cls with
        | some i => simp only; omega
        | none => simp only; have := (hg.mixed_ok hc).1 x' hxm; omega
      omega
    have hsects : updAt p (pcsSetSt (p - sc.hdr) (.busy (code % (codeMask + 1)))) s.sects =
        S1 ++ { sc' with pieces := b ++ [⟨x'.n, .busy (code % (codeMask + 1))⟩] ++ t } :: S2 := by
      rw [hS, Sect.eta_pieces hP, hupd _ _ (by omega) hlim, pcsSetSt_zip hbpos ha]; simp
    have hxm : x' ∈ sc'.pieces := by rw [hP]; simp
    have hinj := @InvD.view_inj _ _ h
    have := inv_window' (d := none) (d' := none) (mid' := [⟨x'.n, .busy (code % (codeMask + 1))⟩])
      (tree' := s.tree) (fr' := s.frontier) h hS (by simpa using hP) ha (by simp)
      (by intro q hq; simp at hq; subst hq; exact hg.pos x' hxm)
      (by intro q hq; simp at hq; subst hq; exact hg.quant x' hxm)
      (by intro i hi
          refine ⟨by rw [hxst]; simp, ?_⟩
          intro q hq; simp at hq; subst hq
          exact ⟨((hg.fixed_ok i hi).2 x' hxm).1, by simp, by simp⟩)
      (by intro hc
          refine ⟨by intro q hq; simp at hq; subst hq; exact (hg.mixed_ok hc).1 x' hxm, ?_⟩
          have := (hg.mixed_ok hc).2
          rw [hP] at this
          exact NoAdj_replace1 (x := x') (by simpa using this) (by simp))
      h.tree_wf
      (by
        intro a' k'
        simp only [viewPcs_cons, viewPcs_nil, List.mem_singleton]
        constructor
        · intro hin
          left
          refine ⟨hin, fun he => ?_⟩
          subst he
          rw [h.tree_iff] at hin
          have := congrArg VP.st (hinj hin hv' rfl)
          simp at this
        · rintro (⟨hin, _⟩ | he)
          · exact hin
          · simp at he)
      (by
        intro a'
        rw [h.front_iff a']
        simp only [viewPcs_cons, viewPcs_nil, List.mem_singleton]
        constructor
        · rintro ⟨⟨n, c', hn⟩, hd⟩
          refine ⟨Or.inl ⟨n, c', hn, fun he => ?_⟩, hd⟩
          subst he
          have := congrArg VP.st (hinj hn hv' rfl)
          simp at this
        · rintro ⟨⟨n, c', hn, _⟩ | ⟨n, c', hn⟩, hd⟩
          · exact ⟨⟨n, c', hn⟩, hd⟩
          · simp at hn)
      hsects
    refine ⟨this.1, ⟨p - sc.hdr, x.n, .busy c, sc.cls⟩, hv', ⟨c, rfl⟩, ?_, fun w => ?_⟩
    · unfold VP.ptr
      have : (⟨p - sc.hdr, x.n, .busy c, sc.cls⟩ : VP).hdr = sc.hdr := by unfold VP.hdr Sect.hdr; rfl
      rw [this]; simp only; omega
    · rw [this.2 w, hxn, hcls]
      simp


/-- `stoResize`: either nothing happens, or an allocation (with the old block still live)
followed by the release of the old block -/
theorem resize_cases {s s' : State} {p n grant q : Nat} (hr : resize s p n grant = some (s', q)) :
    ∃ sc x c, s.blockAt p = some (sc, x, c) ∧
      ((x.n - sc.hdr = trueSize n ∧ s' = s.tag "rs-same" ∧ q = p) ∨
       (x.n - sc.hdr ≠ trueSize n ∧ ∃ s1, alloc (s.tag "rs-move") c n grant = some (s1, q) ∧ free s1 p = some s')) := by
  unfold resize at hr
  split at hr
  · simp at hr
  · next sc x c hb =>
    refine ⟨sc, x, c, hb, ?_⟩
    simp only at hr
    split at hr
    · next he =>
      simp only [Option.some.injEq, Prod.mk.injEq] at hr
      exact Or.inl ⟨he, hr.1.symm, hr.2.symm⟩
    · next hne =>
      split at hr
      · simp at hr
      · next s1 np ha =>
        cases hf : free s1 p with
        | none => rw [hf] at hr; simp at hr
        | some s2 =>
          rw [hf] at hr; simp at hr
          obtain ⟨rfl, rfl⟩ := hr
          exact Or.inr ⟨hne, s1, ha, hf⟩

theorem inv_resize {s s' : State} {p n grant q : Nat} (h : Inv s) (hr : resize s p n grant = some (s', q)) :
    Inv s' := by
  obtain ⟨sc, x, c, hb, hcase⟩ := resize_cases hr
  rcases hcase with ⟨_, rfl, _⟩ | ⟨_, s1, ha, hf⟩
  · exact h.tag _
  · exact (inv_free (inv_alloc (h.tag _) ha).1 hf).1

/-- addresses of pieces are pointer aligned -/
theorem Sect.Geo.view_aligned {sc : Sect} (g : sc.Geo) {v : VP} (hv : v ∈ sc.view) :
    v.addr % ptrSize = 0 ∧ v.hdr % ptrSize = 0 := by
  obtain ⟨b, x, t, hP, ha, _, _, hcls⟩ := mem_viewPcs_split hv
  have hq8 : 8 ∣ sc.qm := by
    unfold Sect.qm
    cases hc : sc.cls with
    | some i => simp only; exact (classSize_facts i (g.fixed_ok i hc).1).2.1
    | none => simp only; exact ⟨32, rfl⟩
  have hb8 : 8 ∣ sizes b := by
    apply dvd_sizes
    intro p hp
    exact Nat.dvd_trans hq8 (g.quant p (by rw [hP]; simp [hp]))
  have hfit := qm_fit sc.pages sc.qm
  have hX : 8 ∣ sc.qmCount * sc.qm := Nat.dvd_trans hq8 (Nat.dvd_mul_left _ _)
  have hal := g.aligned
  simp only [Sect.data, Sect.qmCount] at ha hX
  simp only [pgSize, ptrSize] at *
  constructor
  · omega
  · unfold VP.hdr; rw [hcls]; cases sc.cls <;> simp [mxHead]

end AldorVerif.Store
