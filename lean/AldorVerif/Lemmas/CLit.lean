import AldorVerif.Model.CLit

/-! helper lemmas for the literal printer (C16, part `mangle`) -/
namespace AldorVerif.CLit

def dq : Char := '"'
def sq : Char := '\''

theorem char_ofNat_toNat (c : Char) : Char.ofNat c.toNat = c := by simp [Char.ofNat_toNat]

theorem runFrom_append (q : Char) : ∀ (a b : List Char) (st : St),
    runFrom q st (a ++ b) =
      match trans q st a with
      | none => none
      | some (st', o) => (runFrom q st' b).map (o ++ ·)
  | [], b, st => by simp [trans]
  | c :: a, b, st => by
    simp only [List.cons_append, runFrom, trans]
    cases hs : step q st c with
    | none => simp
    | some p =>
      obtain ⟨st1, o1⟩ := p
      simp only []
      rw [runFrom_append q a b st1]
      cases ht : trans q st1 a with
      | none => simp
      | some p2 =>
        obtain ⟨st2, o2⟩ := p2
        simp only [Option.map_map]
        congr 1
        funext x
        simp [Function.comp, List.append_assoc]

theorem escapeLit_cons (std : Bool) (c : Char) (s : List Char) :
    escapeLit std (c :: s) = escChar std c ++ escapeLit std s := by
  simp [escapeLit]

/-! ## finite facts about single characters (checked by evaluation) -/

def expSt (n : Nat) : St := if n < 8 then .oct n 2 else .normal
def expOut (n : Nat) : List Char := if n < 8 then [] else [Char.ofNat n]

set_option synthInstance.maxSize 4000 in
theorem trans_normal_tab : ∀ n, n < 127 → 0 < n →
    (trans dq .normal (escChar true (Char.ofNat n)) = some (expSt n, expOut n) ∧
     trans dq .normal (escChar false (Char.ofNat n)) = some (expSt n, expOut n) ∧
     trans sq .normal (escChar true (Char.ofNat n)) = some (expSt n, expOut n) ∧
     trans sq .normal (escChar false (Char.ofNat n)) = some (expSt n, expOut n)) := by
  decide +kernel

set_option synthInstance.maxSize 4000 in
theorem trans_oct_tab : ∀ v, v < 8 → 0 < v → ∀ n, n < 127 → 0 < n → isOct (Char.ofNat n) = false →
    (trans dq (.oct v 2) (escChar true (Char.ofNat n)) = some (expSt n, Char.ofNat v :: expOut n) ∧
     trans dq (.oct v 2) (escChar false (Char.ofNat n)) = some (expSt n, Char.ofNat v :: expOut n) ∧
     trans sq (.oct v 2) (escChar true (Char.ofNat n)) = some (expSt n, Char.ofNat v :: expOut n) ∧
     trans sq (.oct v 2) (escChar false (Char.ofNat n)) = some (expSt n, Char.ofNat v :: expOut n)) := by
  decide +kernel

theorem escChar_last_tab : ∀ n, n < 256 → n ≠ 92 →
    (escChar true (Char.ofNat n)).getLast? ≠ some '\\' ∧ (escChar false (Char.ofNat n)).getLast? ≠ some '\\' := by
  decide +kernel

/-! ## states -/

theorem step_esc (q : Char) (st : St) (c : Char) (o : List Char) (h : step q st c = some (.esc, o)) :
    c = '\\' := by
  cases st with
  | normal =>
    simp only [step, plain] at h
    split at h
    · assumption
    · split at h <;> simp at h
  | esc =>
    simp only [step] at h
    split at h
    · simp at h
    · split at h <;> simp at h
  | oct v n =>
    simp only [step, plain] at h
    split at h
    · split at h <;> simp at h
    · split at h
      · assumption
      · split at h <;> simp at h

theorem trans_esc_last (q : Char) : ∀ (t : List Char) (st : St) (o : List Char),
    trans q st t = some (.esc, o) → (t = [] ∧ st = .esc) ∨ t.getLast? = some '\\'
  | [], st, o, h => by simp [trans] at h; exact Or.inl ⟨rfl, h.1⟩
  | c :: r, st, o, h => by
    simp only [trans] at h
    cases hs : step q st c with
    | none => simp [hs] at h
    | some p =>
      obtain ⟨st1, o1⟩ := p
      simp only [hs] at h
      cases ht : trans q st1 r with
      | none => simp [ht] at h
      | some p2 =>
        obtain ⟨st2, o2⟩ := p2
        simp only [ht, Option.some.injEq, Prod.mk.injEq] at h
        have h2 : trans q st1 r = some (.esc, o2) := by rw [ht, h.1]
        right
        rcases trans_esc_last q r st1 o2 h2 with ⟨hr, hst⟩ | hl
        · subst hr; subst hst
          have := step_esc q st c o1 hs
          simp [this]
        · cases r with
          | nil => simp at hl
          | cons d r' => simpa [List.getLast?_cons_cons] using hl

end AldorVerif.CLit

namespace AldorVerif.CLit

theorem tab_normal (std : Bool) (q : Char) (hq : q = dq ∨ q = sq) (n : Nat) (h1 : n < 127) (h0 : 0 < n) :
    trans q .normal (escChar std (Char.ofNat n)) = some (expSt n, expOut n) := by
  have := trans_normal_tab n h1 h0
  rcases hq with rfl | rfl <;> cases std
  · exact this.2.1
  · exact this.1
  · exact this.2.2.2
  · exact this.2.2.1

theorem tab_oct (std : Bool) (q : Char) (hq : q = dq ∨ q = sq) (v : Nat) (hv : v < 8) (hv0 : 0 < v)
    (n : Nat) (h1 : n < 127) (h0 : 0 < n) (ho : isOct (Char.ofNat n) = false) :
    trans q (.oct v 2) (escChar std (Char.ofNat n)) = some (expSt n, Char.ofNat v :: expOut n) := by
  have := trans_oct_tab v hv hv0 n h1 h0 ho
  rcases hq with rfl | rfl <;> cases std
  · exact this.2.1
  · exact this.1
  · exact this.2.2.2
  · exact this.2.2.1

/-- token texts the printer handles faithfully: bytes 1 … 126, and no byte 1 … 7 (printed as the
two-digit escape `\0d`) directly followed by an octal digit character -/
def Safe : List Char → Prop
  | [] => True
  | c :: r => (0 < c.toNat ∧ c.toNat < 127) ∧ (c.toNat < 8 → ∀ d, r.head? = some d → isOct d = false) ∧ Safe r

theorem roundtrip_aux (std : Bool) (q : Char) (hq : q = dq ∨ q = sq) : ∀ s, Safe s →
    runFrom q .normal (escapeLit std s) = some s ∧
    (∀ v, 0 < v → v < 8 → (∀ d, s.head? = some d → isOct d = false) →
      runFrom q (.oct v 2) (escapeLit std s) = some (Char.ofNat v :: s))
  | [], _ => by
    refine ⟨by simp [escapeLit, runFrom, finish], ?_⟩
    intro v _ _ _
    simp [escapeLit, runFrom, finish]
  | c :: r, hs => by
    obtain ⟨⟨h0, h1⟩, hnext, hr⟩ := hs
    have ih := roundtrip_aux std q hq r hr
    have hc : Char.ofNat c.toNat = c := char_ofNat_toNat c
    -- what follows the token, read from the state the token leaves
    have tail : (runFrom q (expSt c.toNat) (escapeLit std r)).map (expOut c.toNat ++ ·) = some (c :: r) := by
      unfold expSt expOut
      by_cases h8 : c.toNat < 8
      · simp only [h8, if_true]
        rw [ih.2 c.toNat h0 h8 (hnext h8)]
        simp [hc]
      · simp only [h8, if_false]
        rw [ih.1]
        simp [hc]
    constructor
    · rw [escapeLit_cons, runFrom_append]
      have := tab_normal std q hq c.toNat h1 h0
      rw [hc] at this
      rw [this]
      exact tail
    · intro v hv0 hv8 hd
      have ho : isOct (Char.ofNat c.toNat) = false := by rw [hc]; exact hd c (by simp)
      rw [escapeLit_cons, runFrom_append]
      have := tab_oct std q hq v hv8 hv0 c.toNat h1 h0 ho
      rw [hc] at this
      rw [this]
      simp only []
      have := tail
      cases hrun : runFrom q (expSt c.toNat) (escapeLit std r) with
      | none => simp [hrun] at this
      | some x =>
        simp only [hrun, Option.map_some, Option.some.injEq] at this ⊢
        simp [← this]

/-! ## old and standard C denote the same -/

theorem escChar_dialect (c : Char) (h : c ≠ '?') : escChar true c = escChar false c := by
  unfold escChar
  simp [h]

theorem trans_qmark (q : Char) (hq : q = dq ∨ q = sq) (st : St) (hst : st ≠ .esc) :
    trans q st (escChar true '?') = trans q st (escChar false '?') ∧
    ∀ st' o, trans q st (escChar false '?') = some (st', o) → st' ≠ .esc := by
  have e1 : escChar true '?' = ['\\', '?'] := by decide
  have e2 : escChar false '?' = ['?'] := by decide
  rw [e1, e2]
  rcases hq with rfl | rfl <;> cases st with
  | normal => exact ⟨by decide, by intro st' o h; simp [trans, step, plain, dq, sq] at h; simp [← h.1]⟩
  | esc => exact absurd rfl hst
  | oct v n =>
    constructor
    · simp [trans, step, plain, isOct, simpleEsc, dq, sq]
    · intro st' o h
      simp [trans, step, plain, isOct, dq, sq] at h
      simp [← h.1]

theorem trans_noesc (std : Bool) (q : Char) (st : St) (hst : st ≠ .esc) (c : Char)
    (hc : c.toNat < 256) (st' : St) (o : List Char)
    (h : trans q st (escChar std c) = some (st', o)) : st' ≠ .esc := by
  intro he
  subst he
  by_cases hb : c = '\\'
  · subst hb
    have e : escChar std '\\' = ['\\', '\\'] := by cases std <;> decide
    rw [e] at h
    cases st with
    | normal => simp [trans, step, plain, isOct, simpleEsc] at h
    | esc => exact hst rfl
    | oct v n => simp [trans, step, plain, isOct, simpleEsc] at h
  · rcases trans_esc_last q _ st o h with ⟨_, hs⟩ | hl
    · exact hst hs
    · have hn : c.toNat ≠ 92 := by
        intro h92
        apply hb
        rw [← char_ofNat_toNat c, h92]
      have := escChar_last_tab c.toNat hc hn
      rw [char_ofNat_toNat] at this
      cases std
      · exact this.2 hl
      · exact this.1 hl

theorem dialects_aux (q : Char) (hq : q = dq ∨ q = sq) : ∀ (s : List Char), (∀ c ∈ s, c.toNat < 256) →
    ∀ st, st ≠ .esc → runFrom q st (escapeLit true s) = runFrom q st (escapeLit false s)
  | [], _, st, _ => by simp [escapeLit]
  | c :: r, hs, st, hst => by
    have ih := dialects_aux q hq r (fun x hx => hs x (by simp [hx]))
    rw [escapeLit_cons, escapeLit_cons, runFrom_append, runFrom_append]
    by_cases hc : c = '?'
    · subst hc
      have := trans_qmark q hq st hst
      rw [this.1]
      cases ht : trans q st (escChar false '?') with
      | none => rfl
      | some p =>
        obtain ⟨st', o⟩ := p
        simp only []
        rw [ih st' (this.2 st' o ht)]
    · rw [escChar_dialect c hc]
      cases ht : trans q st (escChar false c) with
      | none => rfl
      | some p =>
        obtain ⟨st', o⟩ := p
        simp only []
        rw [ih st' (trans_noesc false q st hst c (hs c (by simp)) st' o ht)]

end AldorVerif.CLit

namespace AldorVerif.CLit

/-- executable form of `Safe` -/
def safeB : List Char → Bool
  | [] => true
  | c :: r => (0 < c.toNat && c.toNat < 127) &&
      (!(c.toNat < 8) || (match r with | d :: _ => !isOct d | [] => true)) && safeB r

theorem safe_of_safeB : ∀ s, safeB s = true → Safe s
  | [], _ => trivial
  | c :: r, h => by
    simp only [safeB, Bool.and_eq_true, Bool.or_eq_true, Bool.not_eq_true', decide_eq_true_eq,
      decide_eq_false_iff_not] at h
    obtain ⟨⟨⟨h0, h1⟩, h2⟩, h3⟩ := h
    refine ⟨⟨h0, h1⟩, ?_, safe_of_safeB r h3⟩
    intro h8 d hd
    rcases h2 with h2 | h2
    · exact absurd h8 h2
    · cases r with
      | nil => simp at hd
      | cons e r' =>
        simp at hd; subst hd
        simpa using h2

end AldorVerif.CLit
