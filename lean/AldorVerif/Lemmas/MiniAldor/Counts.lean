import AldorVerif.Model.MiniAldor.Eval
/-! # the coverage counters never influence a result

`SEq s s'`: two states that differ at most in their rule counters.  Every primitive and every
combinator of the evaluator maps related states to related results, hence so does `eval`
(`Lemmas/MiniAldor/CountsEval.lean`). -/
set_option linter.unusedSimpArgs false
namespace AldorVerif.MiniAldor

macro "req_close" hs:term : tactic => `(tactic| first | exact ⟨rfl, $hs⟩ | exact ⟨trivial, $hs⟩ | exact ⟨⟨rfl, rfl⟩, $hs⟩ | rfl | trivial)

def SEq (s s' : State) : Prop := s.heap = s'.heap ∧ s.out = s'.out ∧ s.globals = s'.globals

theorem SEq.refl (s : State) : SEq s s := ⟨rfl, rfl, rfl⟩

def REq : Res α → Res α → Prop
  | .ok a s, .ok a' s' => a = a' ∧ SEq s s'
  | .sig g s, .sig g' s' => g = g' ∧ SEq s s'
  | .timeout, .timeout => True
  | .undef w, .undef w' => w = w'
  | .stuck w, .stuck w' => w = w'
  | _, _ => False

def MEq (x y : M α) : Prop := ∀ s s', SEq s s' → REq (x s) (y s')

theorem REq.refl_of (r : Res α) : REq r r := by
  cases r <;> simp [REq, SEq.refl]

theorem meq_pure (a : α) : MEq (pure a : M α) (pure a) := by
  intro s s' h; exact ⟨rfl, h⟩

theorem meq_bind {x x' : M α} {f f' : α → M β} (hx : MEq x x') (hf : ∀ a, MEq (f a) (f' a)) :
    MEq (x >>= f) (x' >>= f') := by
  intro s s' h
  show REq (M.bind x f s) (M.bind x' f' s')
  unfold M.bind
  have := hx s s' h
  cases h1 : x s <;> cases h2 : x' s' <;> simp only [h1, h2, REq] at this ⊢ <;> try exact this
  obtain ⟨rfl, hs⟩ := this
  exact hf _ _ _ hs

theorem meq_tick (r : Rule) : MEq (tick r) (tick r) := by
  intro s s' h; exact ⟨rfl, h.1, h.2.1, h.2.2⟩

theorem meq_raise (g : Sig) : MEq (raise g : M α) (raise g) := by
  intro s s' h; exact ⟨rfl, h⟩

theorem meq_stuck (w : String) : MEq (stuck w : M α) (stuck w) := by
  intro s s' _; rfl

theorem meq_undef (w : String) : MEq (undef w : M α) (undef w) := by
  intro s s' _; rfl

theorem meq_timeout : MEq (timeoutM : M α) timeoutM := by
  intro s s' _; trivial

theorem meq_emit (t : String) : MEq (emit t) (emit t) := by
  intro s s' h
  refine ⟨rfl, h.1, ?_, h.2.2⟩
  show s.out ++ t = s'.out ++ t
  rw [h.2.1]

theorem meq_alloc (o : List Val) : MEq (alloc o) (alloc o) := by
  intro s s' h
  refine ⟨by show s.heap.size = s'.heap.size; rw [h.1], ?_, h.2.1, h.2.2⟩
  show s.heap.push o = s'.heap.push o
  rw [h.1]

theorem meq_readObj (a : Nat) : MEq (readObj a) (readObj a) := by
  intro s s' h
  unfold readObj
  rw [h.1]
  cases s'.heap[a]? with
  | none => rfl
  | some o => exact ⟨rfl, h⟩

theorem meq_writeObj (a : Nat) (o : List Val) : MEq (writeObj a o) (writeObj a o) := by
  intro s s' h
  unfold writeObj
  rw [h.1]
  split
  · exact ⟨rfl, rfl, h.2.1, h.2.2⟩
  · rfl

theorem meq_lookupVar (env : Env) (x : String) : MEq (lookupVar env x) (lookupVar env x) := by
  intro s s' h
  unfold lookupVar
  cases lookupRaw env x with
  | some v => exact ⟨rfl, h⟩
  | none => exact ⟨by rw [h.2.2], h⟩

theorem meq_addGlobal (x : String) (v : Val) : MEq (addGlobal x v) (addGlobal x v) := by
  intro s s' h
  refine ⟨rfl, h.1, h.2.1, ?_⟩
  show (x, v) :: s.globals = (x, v) :: s'.globals
  rw [h.2.2]

theorem meq_catchRet {res : Ty} {x x' : M Val} (hx : MEq x x') : MEq (catchRet res x) (catchRet res x') := by
  intro s s' h
  unfold catchRet
  have := hx s s' h
  cases h1 : x s <;> cases h2 : x' s' <;> simp only [h1, h2, REq] at this ⊢ <;> try exact this
  · exact ⟨by rw [this.1], this.2⟩
  · obtain ⟨rfl, hs⟩ := this
    rename_i g _ _
    cases g <;> simp only [REq] <;> req_close hs

theorem meq_loopStep {x x' a a' : M Val} (hx : MEq x x') (ha : MEq a a') :
    MEq (loopStep x a) (loopStep x' a') := by
  intro s s' h
  unfold loopStep
  have := hx s s' h
  cases h1 : x s <;> cases h2 : x' s' <;> simp only [h1, h2, REq] at this ⊢ <;> try exact this
  · exact ha _ _ this.2
  · obtain ⟨rfl, hs⟩ := this
    rename_i g _ _
    cases g <;> simp only [REq] <;> first | exact ha _ _ hs | req_close hs

theorem meq_atYield {x x' : M Val} (hx : MEq x x') : MEq (atYield x) (atYield x') := by
  intro s s' h
  unfold atYield
  have := hx s s' h
  cases h1 : x s <;> cases h2 : x' s' <;> simp only [h1, h2, REq] at this ⊢ <;> try exact this
  · req_close this.2
  · obtain ⟨rfl, hs⟩ := this
    rename_i g _ _
    cases g <;> simp only [REq] <;> req_close hs

theorem meq_consumeGen {x x' : M Val} (hx : MEq x x') : MEq (consumeGen x) (consumeGen x') := by
  intro s s' h
  unfold consumeGen
  have := hx s s' h
  cases h1 : x s <;> cases h2 : x' s' <;> simp only [h1, h2, REq] at this ⊢ <;> try exact this
  · req_close this.2
  · obtain ⟨rfl, hs⟩ := this
    rename_i g _ _
    cases g with
    | esc g' => cases g' <;> simp only [REq] <;> req_close hs
    | _ => simp only [REq] <;> req_close hs

def HEq' (h h' : String → Val → Option (M Val)) : Prop :=
  ∀ n v, (h n v = none ∧ h' n v = none) ∨ (∃ a a', h n v = some a ∧ h' n v = some a' ∧ MEq a a')

theorem meq_tryWith {x x' : M Val} {h h' : String → Val → Option (M Val)} (hx : MEq x x') (hh : HEq' h h') :
    MEq (tryWith x h) (tryWith x' h') := by
  intro s s' hs
  unfold tryWith
  have := hx s s' hs
  cases h1 : x s <;> cases h2 : x' s' <;> simp only [h1, h2, REq] at this ⊢ <;> try exact this
  obtain ⟨rfl, hs2⟩ := this
  rename_i g _ _
  cases g with
  | exc name pv =>
    rcases hh name pv with ⟨e1, e2⟩ | ⟨a, a', e1, e2, e3⟩
    · simp only [e1, e2, REq]; req_close hs2
    · simp only [e1, e2]; exact e3 _ _ hs2
  | _ => simp only [REq] <;> req_close hs2

theorem REq.cases {r r' : Res α} (h : REq r r') :
    (∃ a s s', r = .ok a s ∧ r' = .ok a s' ∧ SEq s s') ∨ (∃ g s s', r = .sig g s ∧ r' = .sig g s' ∧ SEq s s')
    ∨ (r = .timeout ∧ r' = .timeout) ∨ (∃ w, r = .undef w ∧ r' = .undef w) ∨ (∃ w, r = .stuck w ∧ r' = .stuck w) := by
  cases r <;> cases r' <;> simp only [REq] at h <;> try exact h.elim
  · obtain ⟨rfl, hs⟩ := h; exact Or.inl ⟨_, _, _, rfl, rfl, hs⟩
  · obtain ⟨rfl, hs⟩ := h; exact Or.inr (Or.inl ⟨_, _, _, rfl, rfl, hs⟩)
  · exact Or.inr (Or.inr (Or.inl ⟨rfl, rfl⟩))
  · subst h; exact Or.inr (Or.inr (Or.inr (Or.inl ⟨_, rfl, rfl⟩)))
  · subst h; exact Or.inr (Or.inr (Or.inr (Or.inr ⟨_, rfl, rfl⟩)))

theorem meq_finallyDo {x x' f f' : M Val} (hx : MEq x x') (hf : MEq f f') :
    MEq (finallyDo x f) (finallyDo x' f') := by
  intro s s' hs
  unfold finallyDo
  rcases (hx s s' hs).cases with ⟨a, s1, s2, e1, e2, h12⟩ | ⟨g, s1, s2, e1, e2, h12⟩ | ⟨e1, e2⟩ | ⟨w, e1, e2⟩ | ⟨w, e1, e2⟩
  · simp only [e1, e2]
    rcases (hf s1 s2 h12).cases with ⟨b, t1, t2, f1, f2, h34⟩ | ⟨g, t1, t2, f1, f2, h34⟩ | ⟨f1, f2⟩ | ⟨w, f1, f2⟩ | ⟨w, f1, f2⟩ <;>
      simp only [f1, f2, REq] <;> req_close h34
  · simp only [e1, e2]
    rcases (hf s1 s2 h12).cases with ⟨b, t1, t2, f1, f2, h34⟩ | ⟨g', t1, t2, f1, f2, h34⟩ | ⟨f1, f2⟩ | ⟨w, f1, f2⟩ | ⟨w, f1, f2⟩ <;>
      simp only [f1, f2, REq] <;> req_close h34
  · simp only [e1, e2, REq]
  · simp only [e1, e2, REq]
  · simp only [e1, e2, REq]

theorem meq_mapEval {f f' : Expr → M Val} (h : ∀ e, MEq (f e) (f' e)) (es : List Expr) :
    MEq (mapEval f es) (mapEval f' es) := by
  induction es with
  | nil => exact meq_pure _
  | cons e r ih =>
    unfold mapEval
    exact meq_bind (h e) (fun _ => meq_bind ih (fun _ => meq_pure _))

theorem meq_allocCells (xs : List String) : MEq (allocCells xs) (allocCells xs) := by
  induction xs with
  | nil => exact meq_pure _
  | cons x r ih =>
    unfold allocCells
    exact meq_bind (meq_alloc _) (fun _ => meq_bind ih (fun _ => meq_pure _))

theorem meq_withLoopCells {body : Expr} {k k' : Env → M α} (h : ∀ c, MEq (k c) (k' c)) :
    MEq (withLoopCells body k) (withLoopCells body k') := by
  unfold withLoopCells
  exact meq_bind (meq_allocCells _) h

theorem meq_setLoopVar (env : Env) (x : String) (v : Val) : MEq (setLoopVar env x v) (setLoopVar env x v) := by
  unfold setLoopVar
  split
  · exact meq_writeObj _ _
  · exact meq_stuck _

theorem meq_mkHandler {run run' : Env → Expr → M Val} (h : ∀ env e, MEq (run env e) (run' env e))
    (env : Env) (ev : String) (hs : List (String × Expr)) (ca : Option Expr) :
    HEq' (mkHandler run env ev hs ca) (mkHandler run' env ev hs ca) := by
  intro name pv
  unfold mkHandler
  cases findHandler hs name with
  | some hb => exact Or.inr ⟨_, _, rfl, rfl, meq_bind (meq_tick _) (fun _ => h _ _)⟩
  | none =>
    cases ca with
    | some hb => exact Or.inr ⟨_, _, rfl, rfl, meq_bind (meq_tick _) (fun _ => h _ _)⟩
    | none => exact Or.inl ⟨rfl, rfl⟩

end AldorVerif.MiniAldor
