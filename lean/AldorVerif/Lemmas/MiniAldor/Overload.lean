import AldorVerif.Model.MiniAldor.Typecheck
/-! # each call of an accepted program has exactly one meaning -/
namespace AldorVerif.MiniAldor

theorem findFun_funDefs (tops : List Top) (f : String) (sig : List Ty) (res : Ty) :
    findFun tops f sig res = (funDefs tops).find? (fun d => d.name = f ∧ d.params.map (·.2) = sig ∧ d.res = res) := by
  induction tops with
  | nil => rfl
  | cons t r ih =>
    cases t <;> simp only [findFun, funDefs, ih]
    rename_i d
    simp only [List.find?_cons]
    split <;> rename_i h
    · simp [h]
    · simp [h]

theorem find_of_distinct (ds : List FunDef) (h : sigsDistinct ds = true) (d : FunDef) (hd : d ∈ ds) :
    ds.find? (fun e => e.name = d.name ∧ e.params.map (·.2) = d.params.map (·.2) ∧ e.res = d.res) = some d := by
  induction ds with
  | nil => cases hd
  | cons x r ih =>
    simp only [sigsDistinct, Bool.and_eq_true, Bool.not_eq_true', List.any_eq_false] at h
    simp only [List.find?_cons]
    rcases List.mem_cons.mp hd with rfl | hm
    · simp
    · have hx : ¬ (x.name = d.name ∧ x.params.map (·.2) = d.params.map (·.2) ∧ x.res = d.res) := by
        intro ⟨h1, h2, h3⟩
        have := h.1 d hm
        simp [sameSig, h1, h2, h3] at this
      simp only [hx, decide_false]
      exact ih h.2 hm

end AldorVerif.MiniAldor
