import AldorVerif.Lemmas.MiniAldor.CountsEval
import AldorVerif.Model.MiniAldor.Effects
/-! # argument order does not matter when the effects of the arguments commute

Abstract part: computations in `M`, compared on their `ok` results up to the rule counters. -/
namespace AldorVerif.MiniAldor

theorem SEq.symm {s t : State} (h : SEq s t) : SEq t s := ⟨h.1.symm, h.2.1.symm, h.2.2.symm⟩
theorem SEq.trans {s t u : State} (h : SEq s t) (g : SEq t u) : SEq s u :=
  ⟨h.1.trans g.1, h.2.1.trans g.2.1, h.2.2.trans g.2.2⟩

/-- `x'` reproduces every `ok` result of `x` (same value, same state up to the counters), from
any state related to the one `x` started in, provided the globals satisfy `G` -/
def OkSim (G : State → Prop) (x x' : M α) : Prop :=
  ∀ s s', SEq s s' → G s → ∀ v s₁, x s = .ok v s₁ → ∃ s₂, x' s' = .ok v s₂ ∧ SEq s₁ s₂

/-- `ok` results leave everything but the counters alone -/
def Pres (x : M α) : Prop := ∀ s v s₁, x s = .ok v s₁ → SEq s s₁

/-- `ok` results leave the globals alone -/
def PresG (x : M α) : Prop := ∀ s v s₁, x s = .ok v s₁ → s₁.globals = s.globals

/-- the `ok` result does not depend on the store (only on the globals, which satisfy `G`) -/
def Const (G : State → Prop) (x : M α) : Prop :=
  ∀ s v s₁, G s → x s = .ok v s₁ → SEq s s₁ ∧ ∀ t, t.globals = s.globals → ∃ t₁, x t = .ok v t₁ ∧ SEq t t₁

/-- `G` only looks at the globals -/
def OnGlobals (G : State → Prop) : Prop := ∀ s t, s.globals = t.globals → G s → G t

theorem oksim_of_meq {G : State → Prop} {x x' : M α} (h : MEq x x') : OkSim G x x' := by
  intro s s' hs _ v s₁ hx
  have := h s s' hs
  rw [hx] at this
  cases h2 : x' s' <;> simp only [h2, REq] at this
  · obtain ⟨rfl, h3⟩ := this; exact ⟨_, rfl, h3⟩

theorem oksim_bind {G : State → Prop} (hG : OnGlobals G) {x x' : M α} {f f' : α → M β}
    (hx : OkSim G x x') (hp : PresG x) (hf : ∀ a, OkSim G (f a) (f' a)) : OkSim G (x >>= f) (x' >>= f') := by
  intro s s' hs hg v s₁ h
  change M.bind x f s = _ at h
  unfold M.bind at h
  cases h1 : x s with
  | ok a t =>
    simp only [h1] at h
    obtain ⟨t', e1, e2⟩ := hx s s' hs hg a t h1
    have hgt : G t := hG s t (hp s a t h1).symm hg
    obtain ⟨u, e3, e4⟩ := hf a t t' e2 hgt v s₁ h
    refine ⟨u, ?_, e4⟩
    change M.bind x' f' s' = _
    unfold M.bind
    simp only [e1, e3]
  | _ => simp only [h1] at h; cases h

/-- first `u`, then `w` -/
def pairM (u w : M Val) (mk : Val → Val → α) : M α := do
  let p ← u
  let q ← w
  pure (mk p q)

theorem pairM_ok {u w : M Val} {mk : Val → Val → α} {s : State} {r : α} {s₂ : State}
    (h : pairM u w mk s = .ok r s₂) : ∃ p s₁ q, u s = .ok p s₁ ∧ w s₁ = .ok q s₂ ∧ r = mk p q := by
  change M.bind u _ s = _ at h
  unfold M.bind at h
  cases h1 : u s with
  | ok p s₁ =>
    simp only [h1] at h
    change M.bind w _ s₁ = _ at h
    unfold M.bind at h
    cases h2 : w s₁ with
    | ok q s₂' =>
      simp only [h2] at h
      change M.pure _ _ = _ at h
      unfold M.pure at h
      cases h
      exact ⟨p, s₁, q, rfl, h2, rfl⟩
    | _ => simp only [h2] at h; cases h
  | _ => simp only [h1] at h; cases h

theorem pairM_intro {u w : M Val} {mk : Val → Val → α} {s s₁ s₂ : State} {p q : Val}
    (h1 : u s = .ok p s₁) (h2 : w s₁ = .ok q s₂) : pairM u w mk s = .ok (mk p q) s₂ := by
  change M.bind u _ s = _
  unfold M.bind
  simp only [h1]
  change M.bind w _ s₁ = _
  unfold M.bind
  simp only [h2]
  rfl

/-- **two computations may be swapped** when both only read, or when one of them is constant -/
theorem pairM_comm {G : State → Prop} (hG : OnGlobals G) {u₁ u₂ w₁ w₂ : M Val} {mk : Val → Val → α}
    (hu : OkSim G u₁ u₂) (hw : OkSim G w₁ w₂) (gu : PresG u₁) (gw : PresG w₁)
    (hc : (Pres u₁ ∧ Pres w₁) ∨ Const G w₁ ∨ Const G u₁) :
    OkSim G (pairM u₁ w₁ mk) (pairM w₂ u₂ (fun q p => mk p q)) := by
  intro s s' hs hg r s₂ h
  obtain ⟨p, s₁, q, h1, h2, rfl⟩ := pairM_ok h
  have hg1 : G s₁ := hG s s₁ (gu s p s₁ h1).symm hg
  rcases hc with ⟨pu, pw⟩ | cw | cu
  · -- both only read
    have e1 : SEq s s₁ := pu s p s₁ h1
    have e2 : SEq s₁ s₂ := pw s₁ q s₂ h2
    obtain ⟨t₁, f1, f2⟩ := hw s₁ s' (e1.symm.trans hs) hg1 q s₂ h2
    obtain ⟨t₂, f3, f4⟩ := hu s t₁ (e1.trans (e2.trans f2)) hg p s₁ h1
    exact ⟨t₂, pairM_intro f1 f3, e2.symm.trans f4⟩
  · -- the second one is constant
    obtain ⟨e2, cw'⟩ := cw s₁ q s₂ hg1 h2
    obtain ⟨t', f0, f0'⟩ := cw' s' ((gu s p s₁ h1).trans hs.2.2).symm
    have hgs' : G s' := hG s s' hs.2.2 hg
    have hg' : G s' := hgs'
    obtain ⟨t₁, f1, f2⟩ := hw s' s' (SEq.refl _) hg' q t' f0
    obtain ⟨t₂, f3, f4⟩ := hu s t₁ (hs.trans (f0'.trans f2)) hg p s₁ h1
    exact ⟨t₂, pairM_intro f1 f3, e2.symm.trans f4⟩
  · -- the first one is constant
    obtain ⟨e1, cu'⟩ := cu s p s₁ hg h1
    obtain ⟨t₁, f1, f2⟩ := hw s₁ s' (e1.symm.trans hs) hg1 q s₂ h2
    have hgl : t₁.globals = s.globals := by
      rw [← f2.2.2, gw s₁ q s₂ h2, gu s p s₁ h1]
    obtain ⟨t', f0, f0'⟩ := cu' t₁ hgl
    have hgt : G t₁ := hG s t₁ hgl.symm hg
    obtain ⟨t₂, f3, f4⟩ := hu t₁ t₁ (SEq.refl _) hgt p t' f0
    exact ⟨t₂, pairM_intro f1 f3, f2.trans (f0'.trans f4)⟩

theorem pairM_sim {G : State → Prop} (hG : OnGlobals G) {u₁ u₂ w₁ w₂ : M Val} {mk : Val → Val → α}
    (hu : OkSim G u₁ u₂) (hw : OkSim G w₁ w₂) (gu : PresG u₁) :
    OkSim G (pairM u₁ w₁ mk) (pairM u₂ w₂ mk) := by
  intro s s' hs hg r s₂ h
  obtain ⟨p, s₁, q, h1, h2, rfl⟩ := pairM_ok h
  obtain ⟨t₁, f1, f2⟩ := hu s s' hs hg p s₁ h1
  have hg1 : G s₁ := hG s s₁ (gu s p s₁ h1).symm hg
  obtain ⟨t₂, f3, f4⟩ := hw s₁ t₁ f2 hg1 q s₂ h2
  exact ⟨t₂, pairM_intro f1 f3, f4⟩

end AldorVerif.MiniAldor

/-! ## concrete part: the expression fragment -/
namespace AldorVerif.MiniAldor

/-- literals, variables, strict binary and unary operators, assignment -/
inductive Frag : Expr → Prop
  | litMI (v : Int) : Frag (.litMI v)
  | litInt (v : Int) : Frag (.litInt v)
  | litBool (b : Bool) : Frag (.litBool b)
  | litStr (s : String) : Frag (.litStr s)
  | var (x : String) : Frag (.var x)
  | bin (op : BinOp) (a b : Expr) : op ≠ .and → op ≠ .or → Frag a → Frag b → Frag (.bin op a b)
  | un (op : UnOp) (a : Expr) : Frag a → Frag (.un op a)
  | assign (x : String) (a : Expr) : Frag a → Frag (.assign x a)

/-- names bound to store cells are declared variables -/
def CellsIn (muts : List String) (env : Env) : Prop :=
  ∀ x a, lookupRaw env x = some (.cell a) → x ∈ muts

/-! ### primitives -/

theorem pres_pure (a : α) : Pres (pure a : M α) := by
  intro s v s₁ h; cases h; exact SEq.refl _

theorem pres_tick (r : Rule) : Pres (tick r) := by
  intro s v s₁ h; cases h; exact ⟨rfl, rfl, rfl⟩

theorem pres_bind {x : M α} {f : α → M β} (hx : Pres x) (hf : ∀ a, Pres (f a)) : Pres (x >>= f) := by
  intro s v s₁ h
  change M.bind x f s = _ at h
  unfold M.bind at h
  cases h1 : x s with
  | ok a t => simp only [h1] at h; exact (hx s a t h1).trans (hf a t v s₁ h)
  | _ => simp only [h1] at h; cases h

theorem pres_stuck (w : String) : Pres (stuck w : M α) := by intro s v s₁ h; cases h
theorem pres_undef (w : String) : Pres (undef w : M α) := by intro s v s₁ h; cases h
theorem pres_timeout : Pres (timeoutM : M α) := by intro s v s₁ h; cases h

theorem pres_readObj (a : Nat) : Pres (readObj a) := by
  intro s v s₁ h
  unfold readObj at h
  split at h
  · cases h; exact SEq.refl _
  · cases h

theorem pres_lookupVar (env : Env) (x : String) : Pres (lookupVar env x) := by
  intro s v s₁ h
  unfold lookupVar at h
  split at h <;> (cases h; exact SEq.refl _)

attribute [local irreducible] Pres in
macro "pres_prim" : tactic => `(tactic|
  repeat (first
    | exact pres_pure _
    | exact pres_tick _
    | exact pres_stuck _
    | exact pres_undef _
    | exact pres_timeout
    | exact pres_readObj _
    | exact pres_lookupVar _ _
    | apply pres_bind
    | intro _
    | split
    | dsimp only))

section
attribute [local irreducible] Pres
theorem pres_miRes (v : Int) : Pres (miRes v) := by unfold miRes; pres_prim
theorem pres_intRes (v : Int) : Pres (intRes v) := by unfold intRes; pres_prim
theorem pres_boolRes (r : Rule) (b : Bool) : Pres (boolRes r b) := by unfold boolRes; pres_prim

theorem pres_binop (op : BinOp) (x y : Val) : Pres (binop op x y) := by
  unfold binop
  repeat (first
    | exact pres_pure _ | exact pres_tick _ | exact pres_stuck _ | exact pres_undef _
    | exact pres_miRes _ | exact pres_intRes _ | exact pres_boolRes _ _
    | apply pres_bind | intro _ | split | dsimp only)

theorem pres_unop (op : UnOp) (x : Val) : Pres (unop op x) := by
  unfold unop
  repeat (first
    | exact pres_pure _ | exact pres_tick _ | exact pres_stuck _ | exact pres_undef _ | exact pres_readObj _
    | exact pres_miRes _ | exact pres_intRes _ | exact pres_boolRes _ _
    | apply pres_bind | intro _ | split | dsimp only)
end

end AldorVerif.MiniAldor

namespace AldorVerif.MiniAldor

theorem const_pure {G : State → Prop} (a : α) : Const G (pure a : M α) := by
  intro s v s₁ _ h; cases h
  exact ⟨SEq.refl _, fun t _ => ⟨t, rfl, SEq.refl _⟩⟩

theorem const_tick {G : State → Prop} (r : Rule) : Const G (tick r) := by
  intro s v s₁ _ h; cases h
  exact ⟨⟨rfl, rfl, rfl⟩, fun t _ => ⟨_, rfl, ⟨rfl, rfl, rfl⟩⟩⟩

theorem const_stuck {G : State → Prop} (w : String) : Const G (stuck w : M α) := by intro s v s₁ _ h; cases h
theorem const_undef {G : State → Prop} (w : String) : Const G (undef w : M α) := by intro s v s₁ _ h; cases h
theorem const_timeout {G : State → Prop} : Const G (timeoutM : M α) := by intro s v s₁ _ h; cases h

theorem const_bind {G : State → Prop} (hG : OnGlobals G) {x : M α} {f : α → M β}
    (hx : Const G x) (hf : ∀ a, Const G (f a)) : Const G (x >>= f) := by
  intro s v s₂ hg h
  change M.bind x f s = _ at h
  unfold M.bind at h
  cases h1 : x s with
  | ok a s₁ =>
    simp only [h1] at h
    obtain ⟨e1, c1⟩ := hx s a s₁ hg h1
    have hg1 : G s₁ := hG s s₁ e1.2.2 hg
    obtain ⟨e2, c2⟩ := hf a s₁ v s₂ hg1 h
    refine ⟨e1.trans e2, ?_⟩
    intro t ht
    obtain ⟨t₁, f1, f2⟩ := c1 t ht
    obtain ⟨t₂, f3, f4⟩ := c2 t₁ (by rw [← f2.2.2, ht, e1.2.2])
    refine ⟨t₂, ?_, f2.trans f4⟩
    change M.bind x f t = _
    unfold M.bind
    simp only [f1, f3]
  | _ => simp only [h1] at h; cases h

section
variable {G : State → Prop}
attribute [local irreducible] Const

macro "const_prim" hG:ident : tactic => `(tactic|
  repeat (first
    | exact const_pure _
    | exact const_tick _
    | exact const_stuck _
    | exact const_undef _
    | exact const_timeout
    | apply const_bind $hG
    | intro _
    | split
    | dsimp only))

theorem const_miRes (hG : OnGlobals G) (v : Int) : Const G (miRes v) := by unfold miRes; const_prim hG
theorem const_intRes (hG : OnGlobals G) (v : Int) : Const G (intRes v) := by unfold intRes; const_prim hG
theorem const_boolRes (hG : OnGlobals G) (r : Rule) (b : Bool) : Const G (boolRes r b) := by unfold boolRes; const_prim hG

theorem const_binop (hG : OnGlobals G) (op : BinOp) (x y : Val) : Const G (binop op x y) := by
  unfold binop
  repeat (first
    | exact const_pure _ | exact const_tick _ | exact const_stuck _ | exact const_undef _
    | exact const_miRes hG _ | exact const_intRes hG _ | exact const_boolRes hG _ _
    | apply const_bind hG | intro _ | split | dsimp only)

theorem const_unop (hG : OnGlobals G) (op : UnOp) (h : op ≠ .len) (x : Val) : Const G (unop op x) := by
  cases op <;> first
    | exact absurd rfl h
    | (unfold unop
       repeat (first
        | exact const_pure _ | exact const_tick _ | exact const_stuck _ | exact const_undef _
        | exact const_miRes hG _ | exact const_intRes hG _ | exact const_boolRes hG _ _
        | contradiction
        | apply const_bind hG | intro _ | split | dsimp only))
end

end AldorVerif.MiniAldor

/-! ### unfolding the evaluator on the fragment -/
namespace AldorVerif.MiniAldor
variable (tops : List Top) (π : List Expr → Bool)

theorem eval_zero (env : Env) (e : Expr) : eval tops π 0 env e = timeoutM := by
  unfold eval; rfl

theorem eval_litMI (n : Nat) (env : Env) (v : Int) :
    eval tops π (n + 1) env (.litMI v) = (do tick .litMI; pure (.mi (BitVec.ofInt 64 v))) := by
  rw [eval] <;> first | rfl | (intro h; cases h)

theorem eval_litInt (n : Nat) (env : Env) (v : Int) :
    eval tops π (n + 1) env (.litInt v) = (do
        tick .litInt
        if !fitsMI v then tick .intBig
        pure (.int v)) := by
  rw [eval] <;> first | rfl | (intro h; cases h)

theorem eval_litBool (n : Nat) (env : Env) (b : Bool) :
    eval tops π (n + 1) env (.litBool b) = (do tick .litBool; pure (.bool b)) := by
  rw [eval] <;> first | rfl | (intro h; cases h)

theorem eval_litStr (n : Nat) (env : Env) (s : String) :
    eval tops π (n + 1) env (.litStr s) = (do tick .litStr; pure (.str s)) := by
  rw [eval] <;> first | rfl | (intro h; cases h)

theorem eval_var (n : Nat) (env : Env) (x : String) :
    eval tops π (n + 1) env (.var x) = (do
      let b ← lookupVar env x
      match b with
      | some (.cell a) => do
          tick .varRead
          let o ← readObj a
          match o with
          | [v] => pure v
          | _ => stuck "cell-shape"
      | some v => pure v
      | none => stuck "unbound-variable") := by
  rw [eval] <;> first | rfl | (intro h; cases h)

theorem eval_bin (n : Nat) (env : Env) (op : BinOp) (a b : Expr) (h1 : op ≠ .and) (h2 : op ≠ .or) :
    eval tops π (n + 1) env (.bin op a b) = (do
        let vs ← evalArgs tops π n env [a, b]
        match vs with
        | [x, y] => binop op x y
        | _ => stuck "bin-arity") := by
  cases op <;> first | exact absurd rfl h1 | exact absurd rfl h2 | (rw [eval] <;> first | rfl | (intro h; cases h))

theorem eval_un (n : Nat) (env : Env) (op : UnOp) (a : Expr) :
    eval tops π (n + 1) env (.un op a) = (do let v ← eval tops π n env a; unop op v) := by
  rw [eval] <;> first | rfl | (intro h; cases h)

theorem eval_assign (n : Nat) (env : Env) (x : String) (e : Expr) :
    eval tops π (n + 1) env (.assign x e) = (do
        let v ← eval tops π n env e
        let b ← lookupVar env x
        match b with
        | some (.cell a) => do tick .assign; writeObj a [v]; pure v
        | _ => stuck "assign-to-immutable") := by
  rw [eval] <;> first | rfl | (intro h; cases h)

theorem mapEval_two (f : Expr → M Val) (a b : Expr) :
    mapEval f [a, b] = pairM (f a) (f b) (fun p q => [p, q]) := by
  funext s
  simp only [mapEval, pairM, bind, M.bind, pure, M.pure]
  cases f a s <;> simp only []
  rename_i p s1
  cases f b s1 <;> simp only []

theorem mapEval_two_rev (f : Expr → M Val) (a b : Expr) :
    (mapEval f [b, a] >>= fun vs => pure vs.reverse) = pairM (f b) (f a) (fun q p => [p, q]) := by
  funext s
  simp only [mapEval, pairM, bind, M.bind, pure, M.pure]
  cases f b s <;> simp only []
  rename_i p s1
  cases f a s1 <;> simp only [List.reverse_cons, List.reverse_nil, List.nil_append, List.cons_append]

theorem evalArgs_two (n : Nat) (env : Env) (a b : Expr) :
    evalArgs tops π (n + 2) env [a, b] =
      if π [a, b] then pairM (eval tops π n env b) (eval tops π n env a) (fun q p => [p, q])
      else pairM (eval tops π n env a) (eval tops π n env b) (fun p q => [p, q]) := by
  rw [evalArgs]
  split
  · simp only [List.reverse_cons, List.reverse_nil, List.nil_append, List.cons_append]
    rw [evalList, mapEval_two_rev]
  · rw [evalList, mapEval_two]

end AldorVerif.MiniAldor

namespace AldorVerif.MiniAldor

/-! ### properties that only speak about `ok` results -/

def NeverOk (x : M α) : Prop := ∀ s v s', x s ≠ .ok v s'

theorem neverOk_timeout : NeverOk (timeoutM : M α) := by intro s v s' h; cases h

theorem neverOk_bind {x : M α} (f : α → M β) (h : NeverOk x) : NeverOk (x >>= f) := by
  intro s v s' e
  change M.bind x f s = _ at e
  unfold M.bind at e
  cases h1 : x s with
  | ok a t => exact h s a t h1
  | _ => simp only [h1] at e; cases e

theorem pres_of_neverOk {x : M α} (h : NeverOk x) : Pres x := fun s v s₁ e => absurd e (h s v s₁)
theorem presG_of_neverOk {x : M α} (h : NeverOk x) : PresG x := fun s v s₁ e => absurd e (h s v s₁)
theorem const_of_neverOk {G : State → Prop} {x : M α} (h : NeverOk x) : Const G x :=
  fun s v s₁ _ e => absurd e (h s v s₁)
theorem oksim_of_neverOk {G : State → Prop} {x x' : M α} (h : NeverOk x) : OkSim G x x' :=
  fun s _ _ _ v s₁ e => absurd e (h s v s₁)

theorem presG_of_pres {x : M α} (h : Pres x) : PresG x := fun s v s₁ e => (h s v s₁ e).2.2.symm

theorem presG_bind {x : M α} {f : α → M β} (hx : PresG x) (hf : ∀ a, PresG (f a)) : PresG (x >>= f) := by
  intro s v s₁ h
  change M.bind x f s = _ at h
  unfold M.bind at h
  cases h1 : x s with
  | ok a t => simp only [h1] at h; rw [hf a t v s₁ h, hx s a t h1]
  | _ => simp only [h1] at h; cases h

theorem presG_writeObj (a : Nat) (o : List Val) : PresG (writeObj a o) := by
  intro s v s₁ h
  unfold writeObj at h
  split at h
  · cases h; rfl
  · cases h

theorem pres_pairM {u w : M Val} {mk : Val → Val → α} (hu : Pres u) (hw : Pres w) : Pres (pairM u w mk) := by
  intro s r s₂ h
  obtain ⟨p, s₁, q, h1, h2, _⟩ := pairM_ok h
  exact (hu s p s₁ h1).trans (hw s₁ q s₂ h2)

theorem presG_pairM {u w : M Val} {mk : Val → Val → α} (hu : PresG u) (hw : PresG w) : PresG (pairM u w mk) := by
  intro s r s₂ h
  obtain ⟨p, s₁, q, h1, h2, _⟩ := pairM_ok h
  rw [hw s₁ q s₂ h2, hu s p s₁ h1]

theorem const_pairM {G : State → Prop} (hG : OnGlobals G) {u w : M Val} {mk : Val → Val → α}
    (hu : Const G u) (hw : Const G w) : Const G (pairM u w mk) := by
  unfold pairM
  exact const_bind hG hu (fun _ => const_bind hG hw (fun _ => const_pure _))

variable (tops : List Top) (π : List Expr → Bool)

theorem neverOk_evalArgs_small {n : Nat} (h : n < 2) (env : Env) (es : List Expr) :
    NeverOk (evalArgs tops π n env es) := by
  match n, h with
  | 0, _ => rw [evalArgs]; exact neverOk_timeout
  | 1, _ =>
    rw [evalArgs]
    split
    · rw [evalList]; exact neverOk_bind _ neverOk_timeout
    · rw [evalList]; exact neverOk_timeout

/-- a property of computations that holds of everything that never succeeds and is closed under
`pairM` lifts from the two argument evaluations to `evalArgs … [a, b]` -/
theorem evalArgs_lift (P : ∀ {α : Type}, M α → Prop) (hn : ∀ {α : Type} (x : M α), NeverOk x → P x)
    (hp : ∀ (u w : M Val) (mk : Val → Val → List Val), P u → P w → P (pairM u w mk))
    (env : Env) (a b : Expr) (ha : ∀ m, P (eval tops π m env a)) (hb : ∀ m, P (eval tops π m env b)) (n : Nat) :
    P (evalArgs tops π n env [a, b]) := by
  by_cases h : n < 2
  · exact hn _ (neverOk_evalArgs_small tops π h env _)
  · obtain ⟨j, rfl⟩ : ∃ j, n = j + 2 := ⟨n - 2, by omega⟩
    rw [evalArgs_two]
    split
    · exact hp _ _ _ (hb j) (ha j)
    · exact hp _ _ _ (ha j) (hb j)

end AldorVerif.MiniAldor

namespace AldorVerif.MiniAldor
variable (tops : List Top) (π : List Expr → Bool) (muts : List String) (σ : Summ)

/-- the globals bind store cells only to declared variables -/
def GOK (muts : List String) : State → Prop := fun s => CellsIn muts s.globals

theorem gok_onGlobals : OnGlobals (GOK muts) := by
  intro s t h hs
  unfold GOK at *
  rw [← h]; exact hs

theorem eff_union_w (a b : Eff) : (a ++ b).w = (a.w || b.w) := rfl
theorem eff_union_r (a b : Eff) : (a ++ b).r = (a.r || b.r) := rfl

/-! #### every fragment expression leaves the globals alone -/
section
attribute [local irreducible] Pres

theorem frag_presG {e : Expr} (hf : Frag e) : ∀ n env, PresG (eval tops π n env e) := by
  induction hf with
  | litMI v | litInt v | litBool b | litStr s | var x =>
    intro n env
    cases n with
    | zero => rw [eval_zero]; exact presG_of_neverOk neverOk_timeout
    | succ k =>
      apply presG_of_pres
      first
        | (rw [eval_var]; pres_prim)
        | (rw [eval_litMI]; pres_prim)
        | (rw [eval_litInt]; pres_prim)
        | (rw [eval_litBool]; pres_prim)
        | (rw [eval_litStr]; pres_prim)
  | bin op a b h1 h2 _ _ iha ihb =>
    intro n env
    cases n with
    | zero => rw [eval_zero]; exact presG_of_neverOk neverOk_timeout
    | succ k =>
      rw [eval_bin tops π k env op a b h1 h2]
      apply presG_bind
      · exact evalArgs_lift tops π (fun x => PresG x) (fun _ h => presG_of_neverOk h)
          (fun _ _ _ hu hw => presG_pairM hu hw) env a b (fun m => iha m env) (fun m => ihb m env) k
      · intro vs
        apply presG_of_pres
        split
        · exact pres_binop _ _ _
        · exact pres_stuck _
  | un op a _ iha =>
    intro n env
    cases n with
    | zero => rw [eval_zero]; exact presG_of_neverOk neverOk_timeout
    | succ k =>
      rw [eval_un]
      exact presG_bind (iha k env) (fun v => presG_of_pres (pres_unop op v))
  | assign x a _ iha =>
    intro n env
    cases n with
    | zero => rw [eval_zero]; exact presG_of_neverOk neverOk_timeout
    | succ k =>
      rw [eval_assign]
      apply presG_bind (iha k env)
      intro v
      apply presG_bind (presG_of_pres (pres_lookupVar _ _))
      intro b
      split
      · exact presG_bind (presG_of_pres (pres_tick _))
          (fun _ => presG_bind (presG_writeObj _ _) (fun _ => presG_of_pres (pres_pure _)))
      · exact presG_of_pres (pres_stuck _)

/-! #### no `W` flag: only the counters change -/

theorem frag_pres {e : Expr} (hf : Frag e) : (eff muts σ e).w = false → ∀ n env, Pres (eval tops π n env e) := by
  induction hf with
  | litMI v | litInt v | litBool b | litStr s | var x =>
    intro _ n env
    cases n with
    | zero => rw [eval_zero]; exact pres_of_neverOk neverOk_timeout
    | succ k =>
      first
        | (rw [eval_var]; pres_prim)
        | (rw [eval_litMI]; pres_prim)
        | (rw [eval_litInt]; pres_prim)
        | (rw [eval_litBool]; pres_prim)
        | (rw [eval_litStr]; pres_prim)
  | bin op a b h1 h2 _ _ iha ihb =>
    intro hw n env
    have hw' : (eff muts σ a).w = false ∧ (eff muts σ b).w = false := by
      simpa [eff, eff_union_w] using hw
    cases n with
    | zero => rw [eval_zero]; exact pres_of_neverOk neverOk_timeout
    | succ k =>
      rw [eval_bin tops π k env op a b h1 h2]
      apply pres_bind
      · exact evalArgs_lift tops π (fun x => Pres x) (fun _ h => pres_of_neverOk h)
          (fun _ _ _ hu hw => pres_pairM hu hw) env a b (fun m => iha hw'.1 m env) (fun m => ihb hw'.2 m env) k
      · intro vs
        split
        · exact pres_binop _ _ _
        · exact pres_stuck _
  | un op a _ iha =>
    intro hw n env
    have hw' : (eff muts σ a).w = false := by
      have := hw
      simp only [eff, eff_union_w, Bool.or_eq_false_iff] at this
      exact this.2
    cases n with
    | zero => rw [eval_zero]; exact pres_of_neverOk neverOk_timeout
    | succ k =>
      rw [eval_un]
      exact pres_bind (iha hw' k env) (fun v => pres_unop op v)
  | assign x a _ _ =>
    intro hw
    simp [eff, eff_union_w] at hw
end

end AldorVerif.MiniAldor

namespace AldorVerif.MiniAldor
variable (tops : List Top) (π : List Expr → Bool) (muts : List String) (σ : Summ)

/-! #### no `R` and no `W` flag: the result does not depend on the store -/

theorem const_var {env : Env} (henv : CellsIn muts env) {x : String} (hx : x ∉ muts) (n : Nat) :
    Const (GOK muts) (eval tops π (n + 1) env (.var x)) := by
  intro s v s₁ hg h
  rw [eval_var] at h
  change M.bind (lookupVar env x) _ s = _ at h
  have key : ∀ (t : State), t.globals = s.globals → ∀ (w : Val), (∀ a, w ≠ .cell a) →
      (lookupVar env x t = .ok (some w) t) →
      M.bind (lookupVar env x) (fun b => match b with
        | some (.cell a) => do
            tick .varRead
            let o ← readObj a
            match o with
            | [v] => pure v
            | _ => stuck "cell-shape"
        | some v => pure v
        | none => stuck "unbound-variable") t = .ok w t := by
    intro t _ w hw hl
    unfold M.bind
    simp only [hl]
    cases w <;> first | rfl | exact absurd rfl (hw _)
  -- what the lookup finds does not depend on the store
  have look : ∀ (t : State), t.globals = s.globals →
      lookupVar env x t = .ok (match lookupRaw env x with | some w => some w | none => lookupRaw s.globals x) t := by
    intro t ht
    unfold lookupVar
    cases lookupRaw env x with
    | some w => rfl
    | none => simp only [ht]
  cases hl : (match lookupRaw env x with | some w => some w | none => lookupRaw s.globals x) with
  | none =>
    unfold M.bind at h
    simp only [look s rfl, hl] at h
    cases h
  | some w =>
    have hw : ∀ a, w ≠ .cell a := by
      intro a hc
      subst hc
      cases h1 : lookupRaw env x with
      | some w' =>
        simp only [h1] at hl
        cases hl
        exact hx (henv x a h1)
      | none =>
        simp only [h1] at hl
        exact hx (hg x a hl)
    have e := key s rfl w hw (by rw [look s rfl, hl])
    rw [e] at h
    cases h
    refine ⟨SEq.refl _, fun t ht => ⟨t, ?_, SEq.refl _⟩⟩
    rw [eval_var]
    exact key t ht v hw (by rw [look t ht, hl])

section
attribute [local irreducible] Const

theorem frag_const {e : Expr} (hf : Frag e) :
    (eff muts σ e).r = false → (eff muts σ e).w = false →
    ∀ n env, CellsIn muts env → Const (GOK muts) (eval tops π n env e) := by
  have hG := gok_onGlobals muts
  induction hf with
  | litMI v =>
    intro _ _ n env _
    cases n with
    | zero => rw [eval_zero]; exact const_of_neverOk neverOk_timeout
    | succ k => rw [eval_litMI]; const_prim hG
  | litInt v =>
    intro _ _ n env _
    cases n with
    | zero => rw [eval_zero]; exact const_of_neverOk neverOk_timeout
    | succ k => rw [eval_litInt]; const_prim hG
  | litBool b =>
    intro _ _ n env _
    cases n with
    | zero => rw [eval_zero]; exact const_of_neverOk neverOk_timeout
    | succ k => rw [eval_litBool]; const_prim hG
  | litStr s =>
    intro _ _ n env _
    cases n with
    | zero => rw [eval_zero]; exact const_of_neverOk neverOk_timeout
    | succ k => rw [eval_litStr]; const_prim hG
  | var x =>
    intro hr _ n env henv
    cases n with
    | zero => rw [eval_zero]; exact const_of_neverOk neverOk_timeout
    | succ k =>
      have hx : x ∉ muts := by
        intro hm
        simp [eff, hm] at hr
      exact const_var tops π muts henv hx k
  | bin op a b h1 h2 _ _ iha ihb =>
    intro hr hw n env henv
    have hr' : (eff muts σ a).r = false ∧ (eff muts σ b).r = false := by
      simpa [eff, eff_union_r] using hr
    have hw' : (eff muts σ a).w = false ∧ (eff muts σ b).w = false := by
      simpa [eff, eff_union_w] using hw
    cases n with
    | zero => rw [eval_zero]; exact const_of_neverOk neverOk_timeout
    | succ k =>
      rw [eval_bin tops π k env op a b h1 h2]
      apply const_bind hG
      · exact evalArgs_lift tops π (fun x => Const (GOK muts) x) (fun _ h => const_of_neverOk h)
          (fun _ _ _ hu hw => const_pairM hG hu hw) env a b
          (fun m => iha hr'.1 hw'.1 m env henv) (fun m => ihb hr'.2 hw'.2 m env henv) k
      · intro vs
        split
        · exact const_binop hG _ _ _
        · exact const_stuck _
  | un op a _ iha =>
    intro hr hw n env henv
    have hlen : op ≠ .len := by
      intro h; subst h
      simp [eff, eff_union_r] at hr
    have hr' : (eff muts σ a).r = false := by
      have := hr
      simp only [eff, eff_union_r, Bool.or_eq_false_iff] at this
      exact this.2
    have hw' : (eff muts σ a).w = false := by
      have := hw
      simp only [eff, eff_union_w, Bool.or_eq_false_iff] at this
      exact this.2
    cases n with
    | zero => rw [eval_zero]; exact const_of_neverOk neverOk_timeout
    | succ k =>
      rw [eval_un]
      exact const_bind hG (iha hr' hw' k env henv) (fun v => const_unop hG op hlen v)
  | assign x a _ _ =>
    intro _ hw
    simp [eff, eff_union_w] at hw
end

end AldorVerif.MiniAldor

namespace AldorVerif.MiniAldor
variable (tops : List Top) (muts : List String) (σ : Summ)

theorem compat_cases {a b : Eff} (h : compat a b = true) :
    (a.w = false ∧ b.w = false) ∨ (b.r = false ∧ b.w = false) ∨ (a.r = false ∧ a.w = false) := by
  unfold compat at h
  cases ha : a.w <;> cases hb : b.w <;> cases har : a.r <;> cases hbr : b.r <;> simp_all

section
attribute [local irreducible] MEq

theorem meq_assign_cont (env : Env) (x : String) (v : Val) :
    MEq (do
        let b ← lookupVar env x
        match b with
        | some (.cell a) => do tick .assign; writeObj a [v]; pure v
        | _ => stuck "assign-to-immutable" : M Val)
      (do
        let b ← lookupVar env x
        match b with
        | some (.cell a) => do tick .assign; writeObj a [v]; pure v
        | _ => stuck "assign-to-immutable") := by
  meq_prim

theorem meq_bin_cont (op : BinOp) (vs : List Val) :
    MEq (match vs with
        | [x, y] => binop op x y
        | _ => stuck "bin-arity" : M Val)
      (match vs with
        | [x, y] => binop op x y
        | _ => stuck "bin-arity") := by
  split
  · exact meq_binop _ _ _
  · exact meq_stuck _
end

/-- **argument order is irrelevant on the expression fragment**: if every application inside `e`
has arguments with commuting effects (`oi`), then whatever the reference order `π₁` computes
as an `ok` result, any other order `π₂` computes too — same value, same store, same output -/
theorem frag_order {e : Expr} (hf : Frag e) (π₁ π₂ : List Expr → Bool) :
    oi muts σ e = true → ∀ n env, CellsIn muts env →
    OkSim (GOK muts) (eval tops π₁ n env e) (eval tops π₂ n env e) := by
  have hG := gok_onGlobals muts
  induction hf with
  | litMI v | litInt v | litBool b | litStr s | var x =>
    intro _ n env _
    exact oksim_of_meq ((stepEq tops π₁ n).eval env _ |> fun h => by
      -- the two evaluations are the same computation: `π` is never consulted
      cases n with
      | zero => rw [eval_zero, eval_zero]; exact meq_timeout
      | succ k =>
        first
          | (rw [eval_litMI, eval_litMI]; rw [eval_litMI] at h; exact h)
          | (rw [eval_litInt, eval_litInt]; rw [eval_litInt] at h; exact h)
          | (rw [eval_litBool, eval_litBool]; rw [eval_litBool] at h; exact h)
          | (rw [eval_litStr, eval_litStr]; rw [eval_litStr] at h; exact h)
          | (rw [eval_var, eval_var]; rw [eval_var] at h; exact h))
  | bin op a b h1 h2 fa fb iha ihb =>
    intro hoi n env henv
    have hparts : oi muts σ a = true ∧ oi muts σ b = true ∧ compat (eff muts σ a) (eff muts σ b) = true := by
      cases op <;> first | exact absurd rfl h1 | exact absurd rfl h2 | (simpa [oi, Bool.and_eq_true, and_assoc] using hoi)
    obtain ⟨oa, ob, hc⟩ := hparts
    cases n with
    | zero => rw [eval_zero]; exact oksim_of_neverOk neverOk_timeout
    | succ k =>
      rw [eval_bin tops π₁ k env op a b h1 h2, eval_bin tops π₂ k env op a b h1 h2]
      apply oksim_bind hG
      · -- the two argument lists
        by_cases hk : k < 2
        · exact oksim_of_neverOk (neverOk_evalArgs_small tops π₁ hk env _)
        · obtain ⟨j, rfl⟩ : ∃ j, k = j + 2 := ⟨k - 2, by omega⟩
          rw [evalArgs_two, evalArgs_two]
          have sa := iha oa j env henv
          have sb := ihb ob j env henv
          have ga := frag_presG tops π₁ fa j env
          have gb := frag_presG tops π₁ fb j env
          by_cases p1 : π₁ [a, b] = true <;> by_cases p2 : π₂ [a, b] = true <;> simp only [p1, p2, if_true, if_false, Bool.false_eq_true]
          · exact pairM_sim hG sb sa gb
          · -- reference order right-to-left, other order left-to-right
            have := pairM_comm (mk := fun q p => [p, q]) hG sb sa gb ga (by
              rcases compat_cases hc with ⟨w1, w2⟩ | ⟨r2, w2⟩ | ⟨r1, w1⟩
              · exact Or.inl ⟨frag_pres tops π₁ muts σ fb w2 j env, frag_pres tops π₁ muts σ fa w1 j env⟩
              · exact Or.inr (Or.inr (frag_const tops π₁ muts σ fb r2 w2 j env henv))
              · exact Or.inr (Or.inl (frag_const tops π₁ muts σ fa r1 w1 j env henv)))
            exact this
          · have := pairM_comm (mk := fun p q => [p, q]) hG sa sb ga gb (by
              rcases compat_cases hc with ⟨w1, w2⟩ | ⟨r2, w2⟩ | ⟨r1, w1⟩
              · exact Or.inl ⟨frag_pres tops π₁ muts σ fa w1 j env, frag_pres tops π₁ muts σ fb w2 j env⟩
              · exact Or.inr (Or.inl (frag_const tops π₁ muts σ fb r2 w2 j env henv))
              · exact Or.inr (Or.inr (frag_const tops π₁ muts σ fa r1 w1 j env henv)))
            exact this
          · exact pairM_sim hG sa sb ga
      · exact evalArgs_lift tops π₁ (fun x => PresG x) (fun _ h => presG_of_neverOk h)
          (fun _ _ _ hu hw => presG_pairM hu hw) env a b
          (fun m => frag_presG tops π₁ fa m env) (fun m => frag_presG tops π₁ fb m env) k
      · intro vs
        exact oksim_of_meq (meq_bin_cont op vs)
  | un op a fa iha =>
    intro hoi n env henv
    have oa : oi muts σ a = true := by simpa [oi] using hoi
    cases n with
    | zero => rw [eval_zero]; exact oksim_of_neverOk neverOk_timeout
    | succ k =>
      rw [eval_un, eval_un]
      exact oksim_bind hG (iha oa k env henv) (frag_presG tops π₁ fa k env) (fun v => oksim_of_meq (meq_unop op v))
  | assign x a fa iha =>
    intro hoi n env henv
    have oa : oi muts σ a = true := by simpa [oi] using hoi
    cases n with
    | zero => rw [eval_zero]; exact oksim_of_neverOk neverOk_timeout
    | succ k =>
      rw [eval_assign, eval_assign]
      exact oksim_bind hG (iha oa k env henv) (frag_presG tops π₁ fa k env)
        (fun v => oksim_of_meq (meq_assign_cont env x v))

end AldorVerif.MiniAldor
