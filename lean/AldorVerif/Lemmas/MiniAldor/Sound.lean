import AldorVerif.Lemmas.MiniAldor.ArgOrder
import AldorVerif.Model.MiniAldor.Typecheck
/-! # type soundness on the closed scalar fragment: well-typed expressions do not get stuck -/
set_option linter.unusedSimpArgs false
namespace AldorVerif.MiniAldor

/-- a value of a scalar type; a value of type `()` is never looked at -/
inductive HasTy : Val → Ty → Prop
  | mi (v : BitVec 64) : HasTy (.mi v) .mi
  | int (v : Int) : HasTy (.int v) .int
  | bool (b : Bool) : HasTy (.bool b) .bool
  | str (s : String) : HasTy (.str s) .str
  | unit (v : Val) : HasTy v .unit

/-- acceptable results of a well-typed expression of type `t`: a value of that type, out of fuel,
or one of the points the language leaves undefined — never `stuck`, never a stray signal -/
def Good (t : Ty) : Res Val → Prop
  | .ok v _ => HasTy v t
  | .timeout => True
  | .undef _ => True
  | _ => False

def GoodM (t : Ty) (x : M Val) : Prop := ∀ s, Good t (x s)

theorem good_pure {t : Ty} {v : Val} (h : HasTy v t) : GoodM t (pure v) := fun _ => h
theorem good_undef (t : Ty) (w : String) : GoodM t (undef w) := fun _ => trivial
theorem good_timeout (t : Ty) : GoodM t timeoutM := fun _ => trivial

theorem good_tick {t : Ty} (r : Rule) {x : M Val} (h : GoodM t x) : GoodM t (tick r >>= fun _ => x) := by
  intro s
  change Good t (M.bind (tick r) _ s)
  unfold M.bind tick
  exact h _

theorem good_bind {t u : Ty} {x : M Val} {f : Val → M Val} (hx : GoodM u x)
    (hf : ∀ v, HasTy v u → GoodM t (f v)) : GoodM t (x >>= f) := by
  intro s
  change Good t (M.bind x f s)
  unfold M.bind
  have := hx s
  cases h : x s with
  | ok v s' => rw [h] at this; exact hf v this s'
  | sig g s' => rw [h] at this; exact this.elim
  | timeout => trivial
  | undef w => trivial
  | stuck w => rw [h] at this; exact this.elim

theorem good_miRes (v : Int) : GoodM .mi (miRes v) := by
  unfold miRes
  apply good_tick
  dsimp only
  split
  · exact good_tick _ (good_pure (HasTy.mi _))
  · exact good_pure (HasTy.mi _)

theorem good_intRes (v : Int) : GoodM .int (intRes v) := by
  unfold intRes
  apply good_tick
  split
  · exact good_tick _ (good_pure (HasTy.int _))
  · exact good_pure (HasTy.int _)

theorem good_boolRes (r : Rule) (b : Bool) : GoodM .bool (boolRes r b) := by
  unfold boolRes
  exact good_tick _ (good_pure (HasTy.bool _))

end AldorVerif.MiniAldor

namespace AldorVerif.MiniAldor

macro "good_close" : tactic => `(tactic|
  repeat (first
    | exact good_miRes _
    | exact good_intRes _
    | exact good_boolRes _ _
    | exact good_undef _ _
    | exact good_pure (HasTy.mi _)
    | exact good_pure (HasTy.int _)
    | exact good_pure (HasTy.bool _)
    | exact good_pure (HasTy.str _)
    | apply good_tick
    | split))

theorem binop_sound {op : BinOp} {x y : Val} {ta tb t : Ty} {rhs : Expr}
    (hx : HasTy x ta) (hy : HasTy y tb) (hty : binTy op ta tb rhs = .ok t)
    (h1 : op ≠ .and) (h2 : op ≠ .or) (h3 : op ≠ .cons) : GoodM t (binop op x y) := by
  cases op <;> first | exact absurd rfl h1 | exact absurd rfl h2 | exact absurd rfl h3 | skip
  all_goals
    cases hx <;> cases hy <;>
      simp only [binTy, isIntTy, isScalar, Bool.or_eq_true, decide_eq_true_eq, and_true, true_and, and_false, false_and,
        and_self, reduceCtorEq, or_false, or_true, false_or, true_or, if_true, if_false, pure, Except.pure,
        throw, throwThe, MonadExceptOf.throw, Except.ok.injEq, reduceIte] at hty <;>
      first
        | (subst hty; simp only [binop]; good_close)
        | (cases hty)
        | (split at hty <;> first
            | (split at hty <;> first | (cases hty; simp only [binop]; good_close) | cases hty)
            | cases hty)

end AldorVerif.MiniAldor

namespace AldorVerif.MiniAldor

def ScalarUn (op : UnOp) : Prop := op = .neg ∨ op = .abs ∨ op = .not ∨ op = .toInt ∨ op = .toMI ∨ op = .len

theorem unop_sound {op : UnOp} {x : Val} {ta t : Ty} (hx : HasTy x ta) (hty : unTy op ta = .ok t)
    (hop : ScalarUn op) : GoodM t (unop op x) := by
  rcases hop with h | h | h | h | h | h <;> subst h <;> cases hx <;>
    simp only [unTy, pure, Except.pure, throw, throwThe, MonadExceptOf.throw, Except.ok.injEq, reduceCtorEq] at hty <;>
    first
      | (subst hty; simp only [unop]; good_close)
      | (subst hty; simp only [unop]; apply good_tick; exact good_pure (HasTy.mi _))
      | (subst hty; simp only [unop]; apply good_tick; exact good_pure (HasTy.int _))
      | skip

/-- closed scalar expressions: literals, unary and binary operators (including the short-circuit
ones), conditional expressions -/
inductive ScalarE : Expr → Prop
  | litMI (v : Int) : ScalarE (.litMI v)
  | litInt (v : Int) : ScalarE (.litInt v)
  | litBool (b : Bool) : ScalarE (.litBool b)
  | litStr (s : String) : ScalarE (.litStr s)
  | bin (op : BinOp) (a b : Expr) : op ≠ .cons → ScalarE a → ScalarE b → ScalarE (.bin op a b)
  | un (op : UnOp) (a : Expr) : ScalarUn op → ScalarE a → ScalarE (.un op a)
  | ite (c t e : Expr) : ScalarE c → ScalarE t → ScalarE e → ScalarE (.ite c t e)

theorem good_weaken_unit {t : Ty} {x : M Val} (h : GoodM t x) : GoodM .unit x := by
  intro s
  have := h s
  cases hx : x s <;> rw [hx] at this <;> first | exact HasTy.unit _ | exact this

theorem good_of_exit {t : Ty} {x : M Val} (h : GoodM .exit x) : GoodM t x := by
  intro s
  have := h s
  cases hx : x s <;> rw [hx] at this <;> first | trivial | (cases this) | exact this

theorem good_join {tt te t : Ty} (hj : tjoin tt te = some t) {x : M Val} :
    (GoodM tt x → GoodM t x) ∧ (GoodM te x → GoodM t x) := by
  unfold tjoin at hj
  split at hj
  · cases hj; rename_i h; subst h; exact ⟨id, id⟩
  · split at hj
    · cases hj; rename_i h; subst h; exact ⟨good_of_exit, id⟩
    · split at hj
      · cases hj; rename_i h; subst h; exact ⟨id, good_of_exit⟩
      · cases hj

end AldorVerif.MiniAldor

namespace AldorVerif.MiniAldor
variable (tops : List Top) (π : List Expr → Bool)

/-- results of evaluating a two-element argument list -/
def GoodL (ta tb : Ty) : Res (List Val) → Prop
  | .ok l _ => ∃ va vb, l = [va, vb] ∧ HasTy va ta ∧ HasTy vb tb
  | .timeout => True
  | .undef _ => True
  | _ => False

theorem good_pairM {ta tb : Ty} {u w : M Val} (hu : GoodM ta u) (hw : GoodM tb w) :
    (∀ s, GoodL ta tb (pairM u w (fun p q => [p, q]) s)) ∧ (∀ s, GoodL tb ta (pairM u w (fun p q => [q, p]) s)) := by
  constructor <;> intro s <;>
  · change GoodL _ _ (M.bind u _ s)
    unfold M.bind
    have h1 := hu s
    cases e1 : u s <;> rw [e1] at h1 <;> first | trivial | exact h1.elim | skip
    rename_i p s1
    dsimp only
    change GoodL _ _ (M.bind w _ s1)
    unfold M.bind
    have h2 := hw s1
    cases e2 : w s1 <;> rw [e2] at h2 <;> first | trivial | exact h2.elim | skip
    exact ⟨_, _, rfl, by assumption, by assumption⟩

theorem good_evalArgs_two {ta tb : Ty} (env : Env) (a b : Expr)
    (ha : ∀ m, GoodM ta (eval tops π m env a)) (hb : ∀ m, GoodM tb (eval tops π m env b)) (n : Nat) (s : State) :
    GoodL ta tb (evalArgs tops π n env [a, b] s) := by
  match n with
  | 0 => rw [evalArgs]; trivial
  | 1 =>
    rw [evalArgs]
    split
    · rw [evalList]; trivial
    · rw [evalList]; trivial
  | j + 2 =>
    rw [evalArgs_two]
    split
    · exact (good_pairM (hb j) (ha j)).2 s
    · exact (good_pairM (ha j) (hb j)).1 s

theorem eval_ite (n : Nat) (env : Env) (c t e : Expr) :
    eval tops π (n + 1) env (.ite c t e) = (do
        let vc ← eval tops π n env c
        match vc with
        | .bool true => do tick .iteTrue; eval tops π n env t
        | .bool false => do tick .iteFalse; eval tops π n env e
        | _ => stuck "if-condition") := by
  rw [eval] <;> first | rfl | (intro h; cases h)

theorem eval_and (n : Nat) (env : Env) (a b : Expr) :
    eval tops π (n + 1) env (.bin .and a b) = (do
        let va ← eval tops π n env a
        match va with
        | .bool false => boolRes .boolOp false
        | .bool true => do tick .boolOp; eval tops π n env b
        | _ => stuck "and") := by
  rw [eval] <;> first | rfl | (intro h; cases h)

theorem eval_or (n : Nat) (env : Env) (a b : Expr) :
    eval tops π (n + 1) env (.bin .or a b) = (do
        let va ← eval tops π n env a
        match va with
        | .bool true => boolRes .boolOp true
        | .bool false => do tick .boolOp; eval tops π n env b
        | _ => stuck "or") := by
  rw [eval] <;> first | rfl | (intro h; cases h)

theorem good_bindL {ta tb t : Ty} {x : M (List Val)} {f : List Val → M Val} (hx : ∀ s, GoodL ta tb (x s))
    (hf : ∀ va vb, HasTy va ta → HasTy vb tb → GoodM t (f [va, vb])) : GoodM t (x >>= f) := by
  intro s
  change Good t (M.bind x f s)
  unfold M.bind
  have := hx s
  cases h : x s with
  | ok l s' =>
    rw [h] at this
    obtain ⟨va, vb, rfl, h1, h2⟩ := this
    exact hf va vb h1 h2 s'
  | sig g s' => rw [h] at this; exact this.elim
  | timeout => trivial
  | undef w => trivial
  | stuck w => rw [h] at this; exact this.elim

end AldorVerif.MiniAldor

namespace AldorVerif.MiniAldor
variable (tops : List Top) (π : List Expr → Bool)

theorem tyOf_bin {c : Ctx} {op : BinOp} {a b : Expr} {t : Ty} (h : tyOf c (.bin op a b) = .ok t) :
    ∃ ta tb, tyOf c a = .ok ta ∧ tyOf c b = .ok tb ∧ binTy op ta tb b = .ok t := by
  rw [tyOf] at h
  cases h1 : tyOf c a with
  | error e => rw [h1] at h; cases h
  | ok ta =>
    cases h2 : tyOf c b with
    | error e => rw [h1, h2] at h; cases h
    | ok tb => rw [h1, h2] at h; exact ⟨ta, tb, rfl, rfl, h⟩

theorem tyOf_un {c : Ctx} {op : UnOp} {a : Expr} {t : Ty} (h : tyOf c (.un op a) = .ok t) :
    ∃ ta, tyOf c a = .ok ta ∧ unTy op ta = .ok t := by
  rw [tyOf] at h
  cases h1 : tyOf c a with
  | error e => rw [h1] at h; cases h
  | ok ta => rw [h1] at h; exact ⟨ta, rfl, h⟩

theorem tyOf_ite {c : Ctx} {cnd a b : Expr} {t : Ty} (h : tyOf c (.ite cnd a b) = .ok t) :
    ∃ tt te, tyOf c cnd = .ok .bool ∧ tyOf c a = .ok tt ∧ tyOf c b = .ok te ∧
      ((tjoin tt te = some t) ∨ (tjoin tt te = none ∧ t = .unit)) := by
  rw [tyOf] at h
  cases h1 : tyOf c cnd with
  | error e => rw [h1] at h; cases h
  | ok tc =>
    rw [h1] at h
    simp only [bind, Except.bind, pure, Except.pure] at h
    by_cases hb : tc = .bool
    · subst hb
      simp only [ne_eq, not_true_eq_false, if_false] at h
      cases h2 : tyOf c a with
      | error e => rw [h2] at h; cases h
      | ok tt =>
        cases h3 : tyOf c b with
        | error e => rw [h2, h3] at h; cases h
        | ok te =>
          rw [h2, h3] at h
          simp only at h
          cases hj : tjoin tt te with
          | some j => rw [hj] at h; cases h; exact ⟨tt, te, rfl, rfl, rfl, Or.inl hj⟩
          | none => rw [hj] at h; cases h; exact ⟨tt, te, rfl, rfl, rfl, Or.inr ⟨hj, rfl⟩⟩
    · simp only [ne_eq, hb, not_false_eq_true, if_true] at h
      cases h

/-- **type soundness on the closed scalar fragment**: a well-typed expression evaluates to a
value of its type, or runs out of fuel, or reaches one of the listed undefined points — it never
gets stuck -/
theorem scalar_sound {e : Expr} (hs : ScalarE e) :
    ∀ (c : Ctx) (t : Ty), tyOf c e = .ok t → ∀ n env, GoodM t (eval tops π n env e) := by
  induction hs with
  | litMI v =>
    intro c t h n env
    rw [tyOf] at h
    split at h
    · cases h
      cases n with
      | zero => rw [eval_zero]; exact good_timeout _
      | succ k => rw [eval_litMI]; exact good_tick _ (good_pure (HasTy.mi _))
    · cases h
  | litInt v =>
    intro c t h n env
    rw [tyOf] at h; cases h
    cases n with
    | zero => rw [eval_zero]; exact good_timeout _
    | succ k =>
      rw [eval_litInt]
      apply good_tick
      split
      · exact good_tick _ (good_pure (HasTy.int _))
      · exact good_pure (HasTy.int _)
  | litBool b =>
    intro c t h n env
    rw [tyOf] at h; cases h
    cases n with
    | zero => rw [eval_zero]; exact good_timeout _
    | succ k => rw [eval_litBool]; exact good_tick _ (good_pure (HasTy.bool _))
  | litStr s =>
    intro c t h n env
    rw [tyOf] at h
    split at h
    · cases h
      cases n with
      | zero => rw [eval_zero]; exact good_timeout _
      | succ k => rw [eval_litStr]; exact good_tick _ (good_pure (HasTy.str _))
    · cases h
  | bin op a b hc _ _ iha ihb =>
    intro c t h n env
    obtain ⟨ta, tb, h1, h2, h3⟩ := tyOf_bin h
    cases n with
    | zero => rw [eval_zero]; exact good_timeout _
    | succ k =>
      by_cases hand : op = .and
      · subst hand
        simp only [binTy] at h3
        split at h3
        · rename_i hb
          cases h3
          obtain ⟨rfl, rfl⟩ := hb
          rw [eval_and]
          apply good_bind (iha c _ h1 k env)
          intro v hv
          cases hv with
          | bool bv =>
            cases bv
            · exact good_boolRes _ _
            · exact good_tick _ (ihb c _ h2 k env)
        · cases h3
      · by_cases hor : op = .or
        · subst hor
          simp only [binTy] at h3
          split at h3
          · rename_i hb
            cases h3
            obtain ⟨rfl, rfl⟩ := hb
            rw [eval_or]
            apply good_bind (iha c _ h1 k env)
            intro v hv
            cases hv with
            | bool bv =>
              cases bv
              · exact good_tick _ (ihb c _ h2 k env)
              · exact good_boolRes _ _
          · cases h3
        · rw [eval_bin tops π k env op a b hand hor]
          apply good_bindL (good_evalArgs_two tops π env a b (fun m => iha c _ h1 m env) (fun m => ihb c _ h2 m env) k)
          intro va vb hva hvb
          exact binop_sound hva hvb h3 hand hor hc
  | un op a hop _ iha =>
    intro c t h n env
    obtain ⟨ta, h1, h2⟩ := tyOf_un h
    cases n with
    | zero => rw [eval_zero]; exact good_timeout _
    | succ k =>
      rw [eval_un]
      exact good_bind (iha c _ h1 k env) (fun v hv => unop_sound hv h2 hop)
  | ite cnd a b _ _ _ ihc iha ihb =>
    intro c t h n env
    obtain ⟨tt, te, h1, h2, h3, hj⟩ := tyOf_ite h
    cases n with
    | zero => rw [eval_zero]; exact good_timeout _
    | succ k =>
      rw [eval_ite]
      apply good_bind (ihc c _ h1 k env)
      intro v hv
      have ga := iha c _ h2 k env
      have gb := ihb c _ h3 k env
      cases hv with
      | bool bv =>
        rcases hj with hj | ⟨_, rfl⟩
        · cases bv
          · exact good_tick _ ((good_join hj).2 gb)
          · exact good_tick _ ((good_join hj).1 ga)
        · cases bv
          · exact good_tick _ (good_weaken_unit gb)
          · exact good_tick _ (good_weaken_unit ga)

end AldorVerif.MiniAldor
