import AldorVerif.Lemmas.MiniAldor.Counts
/-! # `eval` maps states that differ only in the counters to results that differ only there -/
namespace AldorVerif.MiniAldor
attribute [local irreducible] MEq

macro "meq_leaf" : tactic => `(tactic| first
    | exact meq_pure _
    | exact meq_tick _
    | exact meq_raise _
    | exact meq_stuck _
    | exact meq_undef _
    | exact meq_timeout
    | exact meq_emit _
    | exact meq_alloc _
    | exact meq_readObj _
    | exact meq_writeObj _ _
    | exact meq_lookupVar _ _
    | exact meq_addGlobal _ _)

macro "meq_prim" : tactic => `(tactic|
  repeat (first
    | meq_leaf
    | apply meq_bind
    | intro _
    | split
    | dsimp only))

theorem meq_miRes (v : Int) : MEq (miRes v) (miRes v) := by unfold miRes; meq_prim
theorem meq_intRes (v : Int) : MEq (intRes v) (intRes v) := by unfold intRes; meq_prim
theorem meq_boolRes (r : Rule) (b : Bool) : MEq (boolRes r b) (boolRes r b) := by unfold boolRes; meq_prim

theorem meq_binop (op : BinOp) (x y : Val) : MEq (binop op x y) (binop op x y) := by
  unfold binop
  repeat (first
    | meq_leaf
    | exact meq_miRes _
    | exact meq_intRes _
    | exact meq_boolRes _ _
    | apply meq_bind
    | intro _
    | split
    | dsimp only)

theorem meq_unop (op : UnOp) (x : Val) : MEq (unop op x) (unop op x) := by
  unfold unop
  repeat (first
    | meq_leaf
    | exact meq_miRes _
    | exact meq_intRes _
    | exact meq_boolRes _ _
    | apply meq_bind
    | intro _
    | split
    | dsimp only)

theorem meq_showSeq (vs : List Val) : MEq (showSeq vs) (showSeq vs) := by unfold showSeq; meq_prim
theorem meq_showVal (v : Val) : MEq (showVal v) (showVal v) := by
  unfold showVal
  repeat (first
    | meq_leaf
    | exact meq_showSeq _
    | apply meq_bind
    | intro _
    | split)

variable (tops : List Top) (π : List Expr → Bool)

structure StepEq (n : Nat) : Prop where
  eval : ∀ env e, MEq (eval tops π n env e) (eval tops π n env e)
  meth : ∀ d dv m vs, MEq (evalMeth tops π n d dv m vs) (evalMeth tops π n d dv m vs)
  list : ∀ env es, MEq (evalList tops π n env es) (evalList tops π n env es)
  args : ∀ env es, MEq (evalArgs tops π n env es) (evalArgs tops π n env es)
  seq : ∀ env ss, MEq (evalSeq tops π n env ss) (evalSeq tops π n env ss)
  whl : ∀ env c b, MEq (evalWhile tops π n env c b) (evalWhile tops π n env c b)
  for_ : ∀ env x vs r b, MEq (evalFor tops π n env x vs r b) (evalFor tops π n env x vs r b)
  forArr : ∀ env x a i len b, MEq (evalForArr tops π n env x a i len b) (evalForArr tops π n env x a i len b)
  print : ∀ env rs, MEq (evalPrint tops π n env rs) (evalPrint tops π n env rs)

macro "meq_close" ih:ident : tactic => `(tactic|
  repeat (first
    | meq_leaf
    | exact meq_miRes _
    | exact meq_intRes _
    | exact meq_boolRes _ _
    | exact meq_binop _ _ _
    | exact meq_unop _ _
    | exact meq_showVal _
    | exact ($ih).eval _ _
    | exact ($ih).meth _ _ _ _
    | exact ($ih).list _ _
    | exact ($ih).args _ _
    | exact ($ih).seq _ _
    | exact ($ih).whl _ _ _
    | exact ($ih).for_ _ _ _ _ _
    | exact ($ih).forArr _ _ _ _ _ _
    | exact ($ih).print _ _
    | exact meq_mkHandler ($ih).eval _ _ _ _
    | exact meq_mapEval (($ih).eval _) _
    | exact meq_setLoopVar _ _ _
    | apply meq_withLoopCells
    | apply meq_bind
    | apply meq_catchRet
    | apply meq_loopStep
    | apply meq_atYield
    | apply meq_consumeGen
    | apply meq_finallyDo
    | apply meq_tryWith
    | intro _
    | split
    | dsimp only))

theorem stepEq_zero : StepEq tops π 0 := by
  constructor <;> intros <;>
    first
    | (unfold eval; exact meq_timeout)
    | (unfold evalMeth; exact meq_timeout)
    | (unfold evalList; exact meq_timeout)
    | (unfold evalArgs; exact meq_timeout)
    | (unfold evalSeq; exact meq_timeout)
    | (unfold evalWhile; exact meq_timeout)
    | (unfold evalFor; exact meq_timeout)
    | (unfold evalForArr; exact meq_timeout)
    | (unfold evalPrint; exact meq_timeout)

theorem stepEq_succ (n : Nat) (ih : StepEq tops π n) : StepEq tops π (n + 1) := by
  constructor
  · intro env e
    unfold eval
    meq_close ih
  · intro d dv m vs
    unfold evalMeth
    meq_close ih
  · intro env es
    unfold evalList
    meq_close ih
  · intro env es
    unfold evalArgs
    meq_close ih
  · intro env ss
    unfold evalSeq
    meq_close ih
  · intro env c b
    unfold evalWhile
    meq_close ih
  · intro env x vs r b
    unfold evalFor
    meq_close ih
  · intro env x a i len b
    unfold evalForArr
    meq_close ih
  · intro env rs
    unfold evalPrint
    meq_close ih

theorem stepEq (n : Nat) : StepEq tops π n := by
  induction n with
  | zero => exact stepEq_zero tops π
  | succ n ih => exact stepEq_succ tops π n ih

end AldorVerif.MiniAldor
