import AldorVerif.Lemmas.MiniAldor.Fuel
/-! # one more unit of fuel never changes a result that is not `timeout` -/
namespace AldorVerif.MiniAldor
variable (tops : List Top) (π : List Expr → Bool)
attribute [local irreducible] M.le

/-- all nine mutually recursive evaluation functions at fuel `n` are below themselves at `n+1` -/
structure StepLe (n : Nat) : Prop where
  eval : ∀ env e, M.le (eval tops π n env e) (eval tops π (n + 1) env e)
  meth : ∀ d dv m vs, M.le (evalMeth tops π n d dv m vs) (evalMeth tops π (n + 1) d dv m vs)
  list : ∀ env es, M.le (evalList tops π n env es) (evalList tops π (n + 1) env es)
  args : ∀ env es, M.le (evalArgs tops π n env es) (evalArgs tops π (n + 1) env es)
  seq : ∀ env ss, M.le (evalSeq tops π n env ss) (evalSeq tops π (n + 1) env ss)
  whl : ∀ env c b, M.le (evalWhile tops π n env c b) (evalWhile tops π (n + 1) env c b)
  for_ : ∀ env x vs r b, M.le (evalFor tops π n env x vs r b) (evalFor tops π (n + 1) env x vs r b)
  forArr : ∀ env x a i len b, M.le (evalForArr tops π n env x a i len b) (evalForArr tops π (n + 1) env x a i len b)
  print : ∀ env rs, M.le (evalPrint tops π n env rs) (evalPrint tops π (n + 1) env rs)

macro "mono_close" ih:ident : tactic => `(tactic|
  repeat (first
    | exact M.le_refl _
    | exact timeoutM_le _
    | exact ($ih).eval _ _
    | exact ($ih).meth _ _ _ _
    | exact ($ih).list _ _
    | exact ($ih).args _ _
    | exact ($ih).seq _ _
    | exact ($ih).whl _ _ _
    | exact ($ih).for_ _ _ _ _ _
    | exact ($ih).forArr _ _ _ _ _ _
    | exact ($ih).print _ _
    | exact mkHandler_mono ($ih).eval _ _ _ _
    | exact mapEval_mono (($ih).eval _) _
    | apply bind_mono
    | apply withLoopCells_mono
    | apply catchRet_mono
    | apply loopStep_mono
    | apply atYield_mono
    | apply consumeGen_mono
    | apply finallyDo_mono
    | apply tryWith_mono
    | intro _
    | split))

theorem stepLe_zero : StepLe tops π 0 := by
  constructor <;> intros <;>
    first
    | (unfold eval; exact timeoutM_le _)
    | (unfold evalMeth; exact timeoutM_le _)
    | (unfold evalList; exact timeoutM_le _)
    | (unfold evalArgs; exact timeoutM_le _)
    | (unfold evalSeq; exact timeoutM_le _)
    | (unfold evalWhile; exact timeoutM_le _)
    | (unfold evalFor; exact timeoutM_le _)
    | (unfold evalForArr; exact timeoutM_le _)
    | (unfold evalPrint; exact timeoutM_le _)

theorem stepLe_succ (n : Nat) (ih : StepLe tops π n) : StepLe tops π (n + 1) := by
  constructor
  · intro env e
    unfold eval
    mono_close ih
  · intro d dv m vs
    unfold evalMeth
    mono_close ih
  · intro env es
    unfold evalList
    mono_close ih
  · intro env es
    unfold evalArgs
    mono_close ih
  · intro env ss
    unfold evalSeq
    mono_close ih
  · intro env c b
    unfold evalWhile
    mono_close ih
  · intro env x vs r b
    unfold evalFor
    mono_close ih
  · intro env x a i len b
    unfold evalForArr
    mono_close ih
  · intro env rs
    unfold evalPrint
    mono_close ih

theorem stepLe (n : Nat) : StepLe tops π n := by
  induction n with
  | zero => exact stepLe_zero tops π
  | succ n ih => exact stepLe_succ tops π n ih

end AldorVerif.MiniAldor

namespace AldorVerif.MiniAldor
variable (tops : List Top) (π : List Expr → Bool)

theorem eval_le_of_le {n m : Nat} (h : n ≤ m) (env : Env) (e : Expr) :
    M.le (eval tops π n env e) (eval tops π m env e) := by
  induction h with
  | refl => exact M.le_refl _
  | step _ ih => exact M.le_trans ih ((stepLe tops π _).eval env e)

theorem evalTops_step (n : Nat) (l : List Top) :
    M.le (evalTops tops π n l) (evalTops tops π (n + 1) l) := by
  induction l with
  | nil => exact M.le_refl _
  | cons t r ih =>
    cases t <;> simp only [evalTops] <;>
      first
      | exact ih
      | (apply bind_mono
         · first | exact (stepLe tops π n).eval _ _ | exact withLoopCells_mono (fun _ => (stepLe tops π n).eval _ _)
         · intro _
           repeat (first | exact ih | exact M.le_refl _ | apply bind_mono | intro _))

theorem evalTops_le_of_le {n m : Nat} (h : n ≤ m) (l : List Top) :
    M.le (evalTops tops π n l) (evalTops tops π m l) := by
  induction h with
  | refl => exact M.le_refl _
  | step _ ih => exact M.le_trans ih (evalTops_step tops π _ l)

end AldorVerif.MiniAldor
