import AldorVerif.Model.MiniAldor.Eval
/-! # fuel order on results and monotonicity of the result combinators -/
namespace AldorVerif.MiniAldor

/-- `r ⊑ r'`: `r` ran out of fuel, or the two results are the same -/
def Res.le (r r' : Res α) : Prop := r = .timeout ∨ r = r'

def M.le (x y : M α) : Prop := ∀ s, Res.le (x s) (y s)

theorem Res.le_refl (r : Res α) : Res.le r r := Or.inr rfl
theorem M.le_refl (x : M α) : M.le x x := fun _ => Res.le_refl _
theorem timeoutM_le (y : M α) : M.le timeoutM y := fun _ => Or.inl rfl

theorem Res.le_trans {a b c : Res α} (h1 : Res.le a b) (h2 : Res.le b c) : Res.le a c := by
  rcases h1 with h | h
  · exact Or.inl h
  · subst h; exact h2

theorem M.le_trans {a b c : M α} (h1 : M.le a b) (h2 : M.le b c) : M.le a c :=
  fun s => Res.le_trans (h1 s) (h2 s)

theorem bind_mono {x x' : M α} {f f' : α → M β} (hx : M.le x x') (hf : ∀ a, M.le (f a) (f' a)) :
    M.le (x >>= f) (x' >>= f') := by
  intro s
  show Res.le (M.bind x f s) (M.bind x' f' s)
  unfold M.bind
  rcases hx s with h | h
  · rw [h]; exact Or.inl rfl
  · rw [← h]
    cases x s with
    | ok a s' => exact hf a s'
    | _ => exact Or.inr rfl

theorem catchRet_mono {res : Ty} {x x' : M Val} (hx : M.le x x') : M.le (catchRet res x) (catchRet res x') := by
  intro s
  unfold catchRet
  rcases hx s with h | h
  · rw [h]; exact Or.inl rfl
  · rw [← h]; exact Or.inr rfl

theorem loopStep_mono {x x' a a' : M Val} (hx : M.le x x') (ha : M.le a a') :
    M.le (loopStep x a) (loopStep x' a') := by
  intro s
  unfold loopStep
  rcases hx s with h | h
  · rw [h]; exact Or.inl rfl
  · rw [← h]
    cases x s with
    | ok a s' => exact ha s'
    | sig g s' => cases g <;> first | exact ha s' | exact Or.inr rfl
    | _ => exact Or.inr rfl

theorem atYield_mono {x x' : M Val} (hx : M.le x x') : M.le (atYield x) (atYield x') := by
  intro s
  unfold atYield
  rcases hx s with h | h
  · rw [h]; exact Or.inl rfl
  · rw [← h]; exact Or.inr rfl

theorem consumeGen_mono {x x' : M Val} (hx : M.le x x') : M.le (consumeGen x) (consumeGen x') := by
  intro s
  unfold consumeGen
  rcases hx s with h | h
  · rw [h]; exact Or.inl rfl
  · rw [← h]; exact Or.inr rfl

/-- handlers compared pointwise -/
def HLe (h h' : String → Val → Option (M Val)) : Prop :=
  ∀ n v, (h n v = none ∧ h' n v = none) ∨ (∃ a a', h n v = some a ∧ h' n v = some a' ∧ M.le a a')

theorem tryWith_mono {x x' : M Val} {h h' : String → Val → Option (M Val)} (hx : M.le x x') (hh : HLe h h') :
    M.le (tryWith x h) (tryWith x' h') := by
  intro s
  unfold tryWith
  rcases hx s with e | e
  · rw [e]; exact Or.inl rfl
  · rw [← e]
    cases x s with
    | sig g s' =>
      cases g with
      | exc name pv =>
        rcases hh name pv with ⟨h1, h2⟩ | ⟨a, a', h1, h2, h3⟩
        · simp only [h1, h2]; exact Or.inr rfl
        · simp only [h1, h2]; exact h3 s'
      | _ => exact Or.inr rfl
    | _ => exact Or.inr rfl

theorem finallyDo_mono {x x' f f' : M Val} (hx : M.le x x') (hf : M.le f f') :
    M.le (finallyDo x f) (finallyDo x' f') := by
  intro s
  unfold finallyDo
  rcases hx s with e | e
  · rw [e]; exact Or.inl rfl
  · rw [← e]
    cases x s with
    | ok v s2 =>
      rcases hf s2 with e2 | e2
      · simp only [e2]; exact Or.inl rfl
      · simp only [← e2]; exact Or.inr rfl
    | sig g s2 =>
      rcases hf s2 with e2 | e2
      · simp only [e2]; exact Or.inl rfl
      · simp only [← e2]; exact Or.inr rfl
    | _ => exact Or.inr rfl

theorem mapEval_mono {f f' : Expr → M Val} (h : ∀ e, M.le (f e) (f' e)) (es : List Expr) :
    M.le (mapEval f es) (mapEval f' es) := by
  induction es with
  | nil => exact M.le_refl _
  | cons e r ih =>
    unfold mapEval
    exact bind_mono (h e) (fun _ => bind_mono ih (fun _ => M.le_refl _))

theorem withLoopCells_mono {body : Expr} {k k' : Env → M α} (h : ∀ c, M.le (k c) (k' c)) :
    M.le (withLoopCells body k) (withLoopCells body k') := by
  unfold withLoopCells
  exact bind_mono (M.le_refl _) h

theorem mkHandler_mono {run run' : Env → Expr → M Val} (h : ∀ env e, M.le (run env e) (run' env e))
    (env : Env) (ev : String) (hs : List (String × Expr)) (ca : Option Expr) :
    HLe (mkHandler run env ev hs ca) (mkHandler run' env ev hs ca) := by
  intro name pv
  unfold mkHandler
  cases findHandler hs name with
  | some hb => exact Or.inr ⟨_, _, rfl, rfl, bind_mono (M.le_refl _) (fun _ => h _ _)⟩
  | none =>
    cases ca with
    | some hb => exact Or.inr ⟨_, _, rfl, rfl, bind_mono (M.le_refl _) (fun _ => h _ _)⟩
    | none => exact Or.inl ⟨rfl, rfl⟩

end AldorVerif.MiniAldor
