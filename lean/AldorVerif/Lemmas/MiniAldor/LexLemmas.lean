import AldorVerif.Model.MiniAldor.Lex
/-! # the lexer recovers the logical lines from any layout of them -/
namespace AldorVerif.MiniAldor

theorem run_append (m : Mode) (a b : List Char) :
    run m (a ++ b) = ((run m a).1 ++ (run (run m a).2 b).1, (run (run m a).2 b).2) := by
  induction a generalizing m with
  | nil => simp [run]
  | cons c r ih =>
    simp only [List.cons_append, run]
    rw [ih]
    simp [List.append_assoc]

/-- tokens of `cs` when the lexer starts in mode `m` -/
def lexFrom (m : Mode) (cs : List Char) : List (List Char) := (run m cs).1 ++ flush (run m cs).2

theorem lexLine_eq (cs : List Char) : lexLine cs = lexFrom .gap cs := rfl

theorem lexFrom_append (m : Mode) (a b : List Char) :
    lexFrom m (a ++ b) = (run m a).1 ++ lexFrom (run m a).2 b := by
  simp [lexFrom, run_append, List.append_assoc]

/-- modes the lexer can be in between two tokens of a line -/
def Pend : Mode → Prop
  | .gap => True
  | .dash => True
  | .word _ => True
  | _ => False

theorem step_blank {m : Mode} (hm : Pend m) {c : Char} (hc : isBlankChar c = true) :
    step m c = (flush m, .gap) := by
  have hd : c ≠ '-' := by
    intro h; subst h; simp [isBlankChar] at hc
  cases m <;> simp_all [Pend, step, flush]

theorem step_delim {m : Mode} (hm : Pend m) {c : Char} (hc : isDelimChar c = true) :
    step m c = (flush m ++ [[c]], .gap) := by
  have hb : isBlankChar c = false := by
    simp only [isDelimChar, Bool.or_eq_true, beq_iff_eq, decide_eq_true_eq] at hc
    rcases hc with ((((((h | h) | h) | h) | h) | h) | h) | h <;> subst h <;> decide
  have hd : c ≠ '-' := by
    intro h; subst h; simp [isDelimChar] at hc
  cases m <;> simp_all [Pend, step, flush]

theorem run_spaces {m : Mode} (hm : Pend m) (n : Nat) :
    run m (spaces (n + 1)) = (flush m, .gap) := by
  induction n generalizing m with
  | zero =>
    simp only [spaces, List.replicate, run]
    rw [step_blank hm (by decide)]
    simp
  | succ k ih =>
    have : spaces (k + 1 + 1) = ' ' :: spaces (k + 1) := by simp [spaces, List.replicate]
    rw [this]
    simp only [run]
    rw [step_blank hm (by decide), ih (m := .gap) trivial]
    simp [flush]

theorem run_spaces_gap (n : Nat) : run .gap (spaces n) = ([], .gap) := by
  cases n with
  | zero => simp [spaces, run]
  | succ k => simpa [flush] using run_spaces (m := .gap) trivial k

theorem run_tabs_gap (n : Nat) : run .gap (List.replicate n '\t') = ([], .gap) := by
  induction n with
  | zero => simp [run]
  | succ k ih => simp [List.replicate, run, step, isBlankChar, ih]

/-- text that yields no token and closes a pending one -/
def Quiet (cs : List Char) : Prop := ∀ m, Pend m → lexFrom m cs = flush m

theorem quiet_nil : Quiet [] := by
  intro m _; simp [lexFrom, run]

theorem quiet_spaces_then {c : List Char} (hc : lexFrom .gap c = []) (n : Nat) :
    Quiet (spaces (n + 1) ++ c) := by
  intro m hm
  rw [lexFrom_append, run_spaces hm]
  simp [hc]

theorem quiet_spaces (n : Nat) : Quiet (spaces (n + 1)) := by
  have := quiet_spaces_then (c := []) (by simp [lexFrom, run, flush]) n
  simpa using this

theorem lex_comment_pool : ∀ c ∈ commentPool, lexFrom .gap c = [] := by decide

theorem lex_pool_getD (k : Nat) : lexFrom .gap (commentPool.getD k []) = [] := by
  unfold List.getD
  cases h : commentPool[k]? with
  | none => rfl
  | some c => exact lex_comment_pool c (List.mem_of_getElem? h)

/-! ### one token -/

/-- what lexing a well-formed token from `.gap` does: tokens already completed, mode left -/
structure TokRun (t : List Char) where
  out : List (List Char)
  after : Mode
  run_eq : run .gap t = (out, after)
  pend : Pend after
  total : out ++ flush after = [t]

def isDelimTokC (t : List Char) : Bool :=
  match t with
  | [c] => isDelimChar c
  | _ => false

theorem flush_gap : flush .gap = [] := rfl

theorem run_delimC {l : List Char} (h : isDelimTokC l = true) : run .gap l = ([l], .gap) := by
  match l, h with
  | [c], hc =>
    simp only [isDelimTokC] at hc
    simp [run, step_delim (m := .gap) trivial hc, flush_gap]

theorem TokRun.delim_gap {t : List Char} (tr : TokRun t) (h : isDelimTokC t = true) : tr.after = .gap := by
  have := run_delimC h
  rw [tr.run_eq] at this
  exact (Prod.mk.inj this).2

theorem isDelimTok_toList {t : String} (h : isDelimTok t = true) : isDelimTokC t.toList = true := by
  simp only [isDelimTok, List.mem_cons, List.mem_nil_iff, or_false, decide_eq_true_eq] at h
  rcases h with h | h | h | h | h | h | h | h <;> subst h <;> decide

theorem tokRun_of_ok {t : String} (h : tokOK t = true) : Nonempty (TokRun t.toList) := by
  simp only [tokOK, Bool.and_eq_true, Bool.or_eq_true] at h
  obtain ⟨⟨hk, _⟩, _⟩ := h
  rcases hk with (hd | hw) | hs
  · have := isDelimTok_toList hd
    generalize t.toList = l at this
    match l, this with
    | [c], hc =>
      simp only [isDelimTokC] at hc
      exact ⟨⟨[[c]], .gap, by simp [run, step_delim (m := .gap) trivial hc, flush], trivial, by simp [flush]⟩⟩
  · simp only [isWordTok] at hw
    generalize hr : run .gap t.toList = r at hw
    obtain ⟨o, a⟩ := r
    match o, a, hw with
    | [], .word acc, hw =>
      have : acc = t.toList := by simpa using hw
      subst this
      exact ⟨⟨[], .word t.toList, hr, trivial, by simp [flush]⟩⟩
    | [], .dash, hw =>
      have : t.toList = ['-'] := by simpa using hw
      exact ⟨⟨[], .dash, hr, trivial, by simp [flush, this]⟩⟩
  · simp only [isStrTok] at hs
    generalize hr : run .gap t.toList = r at hs
    obtain ⟨o, a⟩ := r
    match o, a, hs with
    | [x], .gap, hs =>
      have : x = t.toList := by
        simp only [Bool.and_eq_true, beq_iff_eq] at hs
        exact hs.1
      subst this
      exact ⟨⟨[t.toList], .gap, hr, trivial, by simp [flush]⟩⟩

/-- lexing token `t` when the lexer is in pending mode `m`: allowed directly from `.gap`, or when
`t` is a delimiter -/
theorem run_tok {t : String} (h : tokOK t = true) {m : Mode} (hm : Pend m)
    (hadj : m = .gap ∨ isDelimTok t = true) :
    ∃ out after, run m t.toList = (flush m ++ out, after) ∧ Pend after ∧ out ++ flush after = [t.toList]
      ∧ (isDelimTok t = true → after = .gap) := by
  rcases hadj with hg | hd
  · subst hg
    obtain ⟨tr⟩ := tokRun_of_ok h
    exact ⟨tr.out, tr.after, by simp [flush_gap, tr.run_eq], tr.pend, tr.total,
      fun hd => tr.delim_gap (isDelimTok_toList hd)⟩
  · have := isDelimTok_toList hd
    generalize t.toList = l at this
    match l, this with
    | [c], hc =>
      simp only [isDelimTokC] at hc
      exact ⟨[[c]], .gap, by simp [run, step_delim hm hc], trivial, by simp [flush], fun _ => rfl⟩

/-! ### a whole line of tokens -/

theorem gap_ok (l : Layout) (i j : Nat) (a b : String) :
    1 ≤ gap l i j a b ∨ isDelimTok a = true ∨ isDelimTok b = true := by
  unfold gap
  by_cases h0 : l.seed = 0
  · simp [h0]
  · simp only [h0, if_false]
    by_cases hd : isDelimTok a = true ∨ isDelimTok b = true
    · rcases hd with h | h
      · exact Or.inr (Or.inl h)
      · exact Or.inr (Or.inr h)
    · simp only [hd, if_false]
      exact Or.inl (by omega)

theorem lex_tokens (l : Layout) (i : Nat) (tail : List Char) (hq : Quiet tail) :
    ∀ (toks : List String) (j : Nat) (m : Mode), toks ≠ [] → (∀ t ∈ toks, tokOK t = true) → Pend m →
      (m = .gap ∨ ∃ t r, toks = t :: r ∧ isDelimTok t = true) →
      lexFrom m (tokChars l i j toks ++ tail) = flush m ++ toks.map String.toList := by
  intro toks
  induction toks with
  | nil => intro _ _ h; exact absurd rfl h
  | cons t rest ih =>
    intro j m _ hok hm hadj
    have ht : tokOK t = true := hok t (List.mem_cons_self)
    have hadj' : m = .gap ∨ isDelimTok t = true := by
      rcases hadj with h | ⟨t', r', he, hd⟩
      · exact Or.inl h
      · simp only [List.cons.injEq] at he; rw [he.1]; exact Or.inr hd
    obtain ⟨out, after, hrun, hpa, htot, hdel⟩ := run_tok ht hm hadj'
    cases rest with
    | nil =>
      simp only [tokChars, List.map_cons, List.map_nil]
      rw [lexFrom_append, hrun]
      simp only
      rw [hq after hpa, List.append_assoc, htot]
    | cons b r =>
      simp only [tokChars, List.map_cons]
      rw [List.append_assoc, List.append_assoc, lexFrom_append, hrun]
      simp only
      have hokr : ∀ x ∈ b :: r, tokOK x = true := fun x hx => hok x (List.mem_cons_of_mem _ hx)
      rcases Nat.eq_zero_or_pos (gap l i j t b) with hz | hp
      · -- no space: `t` or `b` is a delimiter
        rw [hz]
        simp only [spaces, List.replicate, List.nil_append]
        have hadj2 : after = .gap ∨ ∃ t' r', b :: r = t' :: r' ∧ isDelimTok t' = true := by
          rcases gap_ok l i j t b with h | h | h
          · omega
          · exact Or.inl (hdel h)
          · exact Or.inr ⟨b, r, rfl, h⟩
        rw [ih (j + 1) after (by simp) hokr hpa hadj2]
        simp only [List.map_cons]
        rw [List.append_assoc, ← List.append_assoc out, htot]
        simp
      · obtain ⟨k, hk⟩ : ∃ k, gap l i j t b = k + 1 := ⟨gap l i j t b - 1, by omega⟩
        rw [hk, ← List.append_assoc (spaces (k + 1)), List.append_assoc (spaces (k + 1)), lexFrom_append,
          run_spaces hpa]
        simp only
        rw [ih (j + 1) .gap (by simp) hokr trivial (Or.inl rfl)]
        simp only [List.map_cons, flush_gap, List.nil_append]
        rw [List.append_assoc, ← List.append_assoc out, htot]
        simp

end AldorVerif.MiniAldor

namespace AldorVerif.MiniAldor

/-! ### indentation -/

theorem indentCol_spaces (c n : Nat) (r : List Char) : indentCol c (spaces n ++ r) = indentCol (c + n) r := by
  induction n generalizing c with
  | zero => simp [spaces]
  | succ k ih =>
    have : spaces (k + 1) = ' ' :: spaces k := by simp [spaces, List.replicate]
    rw [this]
    simp only [List.cons_append, indentCol, if_true]
    rw [ih]; congr 1; omega

theorem indentCol_tabs (k n : Nat) (r : List Char) :
    indentCol (k * 8) (List.replicate n '\t' ++ r) = indentCol ((k + n) * 8) r := by
  induction n generalizing k with
  | zero => simp
  | succ j ih =>
    simp only [List.replicate, List.cons_append, indentCol]
    have h1 : ('\t' = ' ') = False := by decide
    simp only [h1, if_false, if_true]
    have : (k * 8 / 8 + 1) * 8 = (k + 1) * 8 := by
      rw [Nat.mul_div_cancel _ (by decide : 0 < 8)]
    rw [this, ih]; congr 1; omega

theorem indentCol_head {c : Nat} {x : Char} {r : List Char} (h : isBlankChar x = false) :
    indentCol c (x :: r) = c := by
  simp only [isBlankChar, Bool.or_eq_false_iff, beq_eq_false_iff_ne, decide_eq_false_iff_not] at h
  simp [indentCol, h.1, h.2]

theorem indentCol_indent (l : Layout) (d : Nat) (x : Char) (r : List Char) (h : isBlankChar x = false) :
    indentCol 0 (indentChars l d ++ x :: r) = colOf l d := by
  unfold indentChars colOf
  cases ht : l.tabs
  · simp only [Bool.false_eq_true, if_false]
    rw [indentCol_spaces, indentCol_head h]; simp
  · simp only [if_true]
    have := indentCol_tabs 0 d (x :: r)
    simp only [Nat.zero_mul, Nat.zero_add] at this
    rw [this, indentCol_head h]

theorem run_indent (l : Layout) (d : Nat) : run .gap (indentChars l d) = ([], .gap) := by
  unfold indentChars
  split
  · exact run_tabs_gap _
  · exact run_spaces_gap _

/-! ### one logical line -/

theorem quiet_trailing (l : Layout) (i : Nat) : Quiet (trailing l i) := by
  unfold trailing
  split
  · exact quiet_nil
  · dsimp only
    split
    · have : ∀ a, 1 + a = a + 1 := fun a => Nat.add_comm 1 a
      rw [this]; exact quiet_spaces _
    · have : ∀ a, 1 + a = a + 1 := fun a => Nat.add_comm 1 a
      rw [this]; exact quiet_spaces_then (lex_pool_getD _) _
    · exact quiet_nil

theorem tokChars_head (l : Layout) (i j : Nat) (t : String) (r : List String) :
    ∃ rest, tokChars l i j (t :: r) = t.toList ++ rest := by
  cases r with
  | nil => exact ⟨[], by simp [tokChars]⟩
  | cons b r' => exact ⟨spaces (gap l i j t b) ++ tokChars l i (j + 1) (b :: r'), by simp [tokChars]⟩

theorem head_of_ok {t : String} (h : tokOK t = true) :
    ∃ x r, t.toList = x :: r ∧ isBlankChar x = false := by
  simp only [tokOK, Bool.and_eq_true] at h
  obtain ⟨⟨_, hh⟩, _⟩ := h
  generalize t.toList = l at hh
  match l, hh with
  | x :: r, hx => exact ⟨x, r, rfl, by simpa [headNotBlank] using hx⟩

/-- the text of a logical line under any layout lexes back to its tokens, in its column -/
theorem lex_main_line (l : Layout) (i : Nat) (ln : Line) (hne : ln.toks ≠ [])
    (hok : ∀ t ∈ ln.toks, tokOK t = true) :
    lexLine (indentChars l ln.depth ++ tokChars l i 0 ln.toks ++ trailing l i) = ln.toks.map String.toList
    ∧ indentCol 0 (indentChars l ln.depth ++ tokChars l i 0 ln.toks ++ trailing l i) = colOf l ln.depth := by
  constructor
  · rw [lexLine_eq, List.append_assoc, lexFrom_append, run_indent]
    simp only [List.nil_append]
    have := lex_tokens l i (trailing l i) (quiet_trailing l i) ln.toks 0 .gap hne hok trivial (Or.inl rfl)
    simpa [flush_gap] using this
  · match hts : ln.toks, hne with
    | t :: r, _ =>
      obtain ⟨rest, hr⟩ := tokChars_head l i 0 t r
      obtain ⟨x, xs, hx, hb⟩ := head_of_ok (hok t (by rw [hts]; exact List.mem_cons_self))
      rw [hr, hx]
      simp only [List.cons_append, List.append_assoc]
      exact indentCol_indent l ln.depth x _ hb

theorem lex_directive_line (l : Layout) (i : Nat) (ln : Line) (hne : ln.toks ≠ [])
    (hok : ∀ t ∈ ln.toks, tokOK t = true) (hd : ln.depth = 0) :
    lexLine (tokChars { l with seed := 0 } i 0 ln.toks) = ln.toks.map String.toList
    ∧ indentCol 0 (tokChars { l with seed := 0 } i 0 ln.toks) = colOf l ln.depth := by
  constructor
  · have := lex_tokens { l with seed := 0 } i [] quiet_nil ln.toks 0 .gap hne hok trivial (Or.inl rfl)
    simpa [lexLine_eq, flush_gap] using this
  · match hts : ln.toks, hne with
    | t :: r, _ =>
      obtain ⟨rest, hr⟩ := tokChars_head { l with seed := 0 } i 0 t r
      obtain ⟨x, xs, hx, hb⟩ := head_of_ok (hok t (by rw [hts]; exact List.mem_cons_self))
      rw [hr, hx, hd]
      simp only [List.cons_append]
      rw [indentCol_head hb]
      simp [colOf]

/-! ### noise lines -/

theorem lex_noise (l : Layout) (i : Nat) : ∀ nl ∈ noiseBefore l i, lexLine nl = [] := by
  have hs : ∀ k, lexLine (spaces k) = [] := by
    intro k; simp [lexLine_eq, lexFrom, run_spaces_gap, flush_gap]
  have hc : ∀ k j, lexLine (spaces k ++ commentPool.getD j []) = [] := by
    intro k j
    rw [lexLine_eq, lexFrom_append, run_spaces_gap]
    simpa using lex_pool_getD j
  have h0 : lexLine [] = [] := rfl
  unfold noiseBefore
  split
  · intro nl h; cases h
  · dsimp only
    split <;> intro nl h <;> simp only [List.mem_cons, List.mem_nil_iff, or_false] at h
    · subst h; exact h0
    · subst h; exact hs _
    · subst h; exact hc _ _
    · rcases h with h | h
      · subst h; exact h0
      · subst h; exact hc _ _

end AldorVerif.MiniAldor

namespace AldorVerif.MiniAldor

/-! ### lines of text -/

def NoNL (cs : List Char) : Prop := ∀ c ∈ cs, c ≠ '\n'

theorem splitLines_line (a : List Char) (ha : NoNL a) (rest : List Char) :
    splitLines (a ++ '\n' :: rest) = a :: splitLines rest := by
  induction a with
  | nil => simp [splitLines]
  | cons c r ih =>
    have hc : c ≠ '\n' := ha c List.mem_cons_self
    have hr : NoNL r := fun x hx => ha x (List.mem_cons_of_mem _ hx)
    simp only [List.cons_append, splitLines, hc, if_false]
    rw [ih hr]

theorem splitLines_join (ls : List (List Char)) (h : ∀ a ∈ ls, NoNL a) : splitLines (joinLines ls) = ls := by
  induction ls with
  | nil => simp [joinLines, splitLines]
  | cons a r ih =>
    simp only [joinLines]
    rw [splitLines_line a (h a List.mem_cons_self), ih (fun x hx => h x (List.mem_cons_of_mem _ hx))]

theorem noNL_spaces (n : Nat) : NoNL (spaces n) := by
  intro c hc
  simp only [spaces, List.mem_replicate] at hc
  rw [hc.2]; decide

theorem noNL_tabs (n : Nat) : NoNL (List.replicate n '\t') := by
  intro c hc
  simp only [List.mem_replicate] at hc
  rw [hc.2]; decide

theorem noNL_append {a b : List Char} (ha : NoNL a) (hb : NoNL b) : NoNL (a ++ b) := by
  intro c hc
  rcases List.mem_append.mp hc with h | h
  · exact ha c h
  · exact hb c h

theorem noNL_pool : ∀ c ∈ commentPool, ∀ x ∈ c, x ≠ '\n' := by decide

theorem noNL_pool_getD (k : Nat) : NoNL (commentPool.getD k []) := by
  unfold List.getD
  cases h : commentPool[k]? with
  | none => intro c hc; cases hc
  | some c => exact noNL_pool c (List.mem_of_getElem? h)

theorem noNL_tok {t : String} (h : tokOK t = true) : NoNL t.toList := by
  simp only [tokOK, Bool.and_eq_true, List.all_eq_true, bne_iff_ne, ne_eq] at h
  exact fun c hc => h.2 c hc

theorem noNL_tokChars (l : Layout) (i : Nat) : ∀ (toks : List String) (j : Nat),
    (∀ t ∈ toks, tokOK t = true) → NoNL (tokChars l i j toks) := by
  intro toks
  induction toks with
  | nil => intro _ _ c hc; simp [tokChars] at hc
  | cons t r ih =>
    intro j hok
    cases r with
    | nil => simpa [tokChars] using noNL_tok (hok t List.mem_cons_self)
    | cons b r' =>
      simp only [tokChars]
      exact noNL_append (noNL_append (noNL_tok (hok t List.mem_cons_self)) (noNL_spaces _))
        (ih (j + 1) (fun x hx => hok x (List.mem_cons_of_mem _ hx)))

theorem noNL_trailing (l : Layout) (i : Nat) : NoNL (trailing l i) := by
  unfold trailing
  split
  · intro c hc; cases hc
  · dsimp only
    split
    · exact noNL_spaces _
    · exact noNL_append (noNL_spaces _) (noNL_pool_getD _)
    · intro c hc; cases hc

theorem noNL_noise (l : Layout) (i : Nat) : ∀ nl ∈ noiseBefore l i, NoNL nl := by
  have hn : NoNL [] := fun c hc => by cases hc
  unfold noiseBefore
  split
  · intro nl h; cases h
  · dsimp only
    split <;> intro nl h <;> simp only [List.mem_cons, List.mem_nil_iff, or_false] at h
    · subst h; exact hn
    · subst h; exact noNL_spaces _
    · subst h; exact noNL_append (noNL_spaces _) (noNL_pool_getD _)
    · rcases h with h | h
      · subst h; exact hn
      · subst h; exact noNL_append (noNL_spaces _) (noNL_pool_getD _)

theorem noNL_indent (l : Layout) (d : Nat) : NoNL (indentChars l d) := by
  unfold indentChars
  split
  · exact noNL_tabs _
  · exact noNL_spaces _

/-! ### the whole text -/

def lexOne (ln : List Char) : Option (Nat × List String) :=
  let ts := lexLine ln
  if ts.isEmpty then none else some (indentCol 0 ln, ts.map String.ofList)

theorem lexChars_eq (cs : List Char) : lexChars cs = (splitLines cs).filterMap lexOne := rfl

theorem map_ofList_toList (ts : List String) : (ts.map String.toList).map String.ofList = ts := by
  induction ts with
  | nil => rfl
  | cons t r ih => simp [ih]

theorem lineOK_parts {ln : Line} (h : lineOK ln = true) :
    (∀ t ∈ ln.toks, tokOK t = true) ∧ ln.toks ≠ [] ∧ (isDirective ln = true → ln.depth = 0) := by
  simp only [lineOK, Bool.and_eq_true, List.all_eq_true, Bool.not_eq_true', List.isEmpty_eq_false_iff] at h
  refine ⟨h.1.1, h.1.2, ?_⟩
  intro hd
  have := h.2
  simp only [hd, if_true, beq_iff_eq] at this
  exact this

theorem physLine_lex (l : Layout) (i : Nat) (ln : Line) (h : lineOK ln = true) :
    (physLine l i ln).filterMap lexOne = [(colOf l ln.depth, ln.toks)] ∧ (∀ a ∈ physLine l i ln, NoNL a) := by
  obtain ⟨hok, hne, hdir⟩ := lineOK_parts h
  have hmapne : ln.toks.map String.toList ≠ [] := by simpa using hne
  unfold physLine
  by_cases hd : isDirective ln = true
  · simp only [hd, if_true]
    obtain ⟨h1, h2⟩ := lex_directive_line l i ln hne hok (hdir hd)
    constructor
    · simp only [List.filterMap_cons, List.filterMap_nil, lexOne, h1, h2]
      simp [hne, map_ofList_toList]
    · intro a ha
      simp only [List.mem_cons, List.mem_nil_iff, or_false] at ha
      subst ha; exact noNL_tokChars _ i _ 0 hok
  · simp only [hd, if_false, Bool.false_eq_true]
    obtain ⟨h1, h2⟩ := lex_main_line l i ln hne hok
    constructor
    · rw [List.filterMap_append]
      have hn : (noiseBefore l i).filterMap lexOne = [] := by
        apply List.filterMap_eq_nil_iff.mpr
        intro nl hnl
        simp [lexOne, lex_noise l i nl hnl]
      rw [hn]
      simp only [List.filterMap_cons, List.filterMap_nil, lexOne, h1, h2, List.nil_append]
      simp [hne, map_ofList_toList]
    · intro a ha
      rcases List.mem_append.mp ha with h | h
      · exact noNL_noise l i a h
      · simp only [List.mem_cons, List.mem_nil_iff, or_false] at h
        subst h
        exact noNL_append (noNL_append (noNL_indent _ _) (noNL_tokChars l i _ 0 hok)) (noNL_trailing _ _)

theorem physLines_lex (l : Layout) : ∀ (ls : List Line) (i : Nat), tokensOK ls = true →
    (physLines l i ls).filterMap lexOne = ls.map (fun ln => (colOf l ln.depth, ln.toks))
    ∧ (∀ a ∈ physLines l i ls, NoNL a) := by
  intro ls
  induction ls with
  | nil => intro _ _; simp [physLines]
  | cons ln r ih =>
    intro i h
    simp only [tokensOK, List.all_cons, Bool.and_eq_true] at h
    obtain ⟨h1, h2⟩ := physLine_lex l i ln h.1
    obtain ⟨h3, h4⟩ := ih (i + 1) (by simpa [tokensOK] using h.2)
    simp only [physLines]
    constructor
    · rw [List.filterMap_append, h1, h3]; simp
    · intro a ha
      rcases List.mem_append.mp ha with h | h
      · exact h2 a h
      · exact h4 a h

theorem expectedLex_of_ok (l : Layout) (ls : List Line) (h : tokensOK ls = true) :
    expectedLex l ls = ls.map (fun ln => (colOf l ln.depth, ln.toks)) := by
  induction ls with
  | nil => rfl
  | cons ln r ih =>
    simp only [tokensOK, List.all_cons, Bool.and_eq_true] at h
    obtain ⟨_, hne, _⟩ := lineOK_parts h.1
    simp only [expectedLex, List.filterMap_cons, List.map_cons]
    have : ln.toks.isEmpty = false := by simpa using hne
    simp only [this]
    have ih' := ih (by simpa [tokensOK] using h.2)
    simp only [expectedLex] at ih'
    simpa using ih'

/-- **the lexer inverts the layout**: whatever the layout parameters, the text of well-formed
logical lines lexes back to exactly those lines (column of the first token, tokens) -/
theorem lexChars_layoutChars (l : Layout) (ls : List Line) (h : tokensOK ls = true) :
    lexChars (layoutChars l ls) = expectedLex l ls := by
  obtain ⟨h1, h2⟩ := physLines_lex l ls 0 h
  rw [lexChars_eq, layoutChars, splitLines_join _ h2, h1, expectedLex_of_ok l ls h]

end AldorVerif.MiniAldor
