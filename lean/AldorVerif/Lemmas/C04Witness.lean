import AldorVerif.Gen.PrimsExec
import AldorVerif.Lemmas.C04Manual
/-! the interpretation `Gen.trivialPrims` (all carriers `Unit`) satisfies `PrimLaws`: the laws are
consistent, and refutation witnesses of `*_canon` statements can be instantiated with it. -/
namespace AldorVerif.C04Manual
open AldorVerif.Gen AldorVerif.CSem
theorem trivialLaws : PrimLaws trivialPrims := by
  constructor <;> intros <;> first | rfl | exact Or.inl rfl | exact Or.inr rfl | decide
end AldorVerif.C04Manual
