import AldorVerif.Model.CSem
import AldorVerif.Model.Foam.Spec
import AldorVerif.Gen.Prims
/-!
# Hand-written support for the generated C04 theorems (Props/C04Gen.lean)

* `PrimLaws P`: the facts about the uninterpreted primitives under which evaluators that use
  *different* primitives for the same builtin are the same function (IEEE: widening a float to
  double is exact and order preserving, the int 0/1 converts to the literal 0.0/1.0;
  big integers: parity via `bit 0` and via `mod 2` coincide).
* bridging lemmas between `CSem` (C operators) and `Spec` (meaning), tagged `c04`.
* the tactics `c04_spec`, `c04_canon`, `c04_notrap`, `c04_agree`, `c04_refute`.
-/
namespace AldorVerif.C04Manual
open AldorVerif AldorVerif.CSem AldorVerif.CSem.CRes AldorVerif.Gen

structure PrimLaws (P : Prims) : Prop where
  f32_zero : P.i32tof32 0#32 = P.f64tof32 (P.f64lit "0")
  f32_one : P.i32tof32 1#32 = P.f64tof32 (P.f64lit "1")
  f64_zero : P.i32tof64 0#32 = P.f64lit "0"
  f64_one : P.i32tof64 1#32 = P.f64lit "1"
  widen_zero : P.f32tof64 (P.f64tof32 (P.f64lit "0")) = P.f64lit "0"
  widen_eq : ∀ a b, P.f64eq (P.f32tof64 a) (P.f32tof64 b) = P.f32eq a b
  widen_lt : ∀ a b, P.f64lt (P.f32tof64 a) (P.f32tof64 b) = P.f32lt a b
  widen_gt : ∀ a b, P.f64gt (P.f32tof64 a) (P.f32tof64 b) = P.f32gt a b
  /-- the big-integer predicates of bigint.c return a C truth value 0 or 1 -/
  canon_bintIsZero : ∀ a, P.bintIsZero a = 0#32 ∨ P.bintIsZero a = 1#32
  canon_bintIsNeg : ∀ a, P.bintIsNeg a = 0#32 ∨ P.bintIsNeg a = 1#32
  canon_bintIsPos : ∀ a, P.bintIsPos a = 0#32 ∨ P.bintIsPos a = 1#32
  canon_bintEQ : ∀ a b, P.bintEQ a b = 0#32 ∨ P.bintEQ a b = 1#32
  canon_bintLT : ∀ a b, P.bintLT a b = 0#32 ∨ P.bintLT a b = 1#32
  canon_bintGT : ∀ a b, P.bintGT a b = 0#32 ∨ P.bintGT a b = 1#32
  canon_bintBit : ∀ a i, P.bintBit a i = 0#32 ∨ P.bintBit a i = 1#32
  canon_fiBIntIsSingle : ∀ a, P.fiBIntIsSingle a = 0#64 ∨ P.fiBIntIsSingle a = 1#64
  /-- parity of a big integer: `a mod 2 = 0` iff bit 0 is clear -/
  parity : ∀ a, truth (P.bintEQ (P.fiBIntMod a (P.bintNew 2#64)) P.bint0) = !truth (P.bintBit a 0#64)

end AldorVerif.C04Manual

namespace AldorVerif.C04Manual
open AldorVerif AldorVerif.CSem AldorVerif.CSem.CRes AldorVerif.Gen

/-! ## truth values -/
theorem beq_congr {α β} [BEq α] [LawfulBEq α] [BEq β] [LawfulBEq β] (a b : α) (c d : β)
    (h : a = b ↔ c = d) : (a == b) = (c == d) := by
  rw [Bool.eq_iff_iff]; simp only [beq_iff_eq]; exact h
theorem beq_decide {α} [BEq α] [LawfulBEq α] (a b : α) (p : Prop) [Decidable p]
    (h : a = b ↔ p) : (a == b) = decide p := by
  rw [Bool.eq_iff_iff]; simp only [beq_iff_eq, decide_eq_true_eq]; exact h
theorem trunc_sext_32 (a : BitVec 32) : BitVec.setWidth 32 (BitVec.signExtend 64 a) = a := by
  apply BitVec.eq_of_toNat_eq
  simp [BitVec.toNat_signExtend]
  have := a.isLt
  split <;> omega

theorem truth_ofBool (n : Nat) (h : 0 < n) (b : Bool) : truth (ofBool n b) = b := by
  cases b <;> simp [truth, ofBool]
  omega
@[simp] theorem truth_ofBool64 (b : Bool) : truth (ofBool 64 b) = b := truth_ofBool 64 (by omega) b
@[simp] theorem truth_ofBool32 (b : Bool) : truth (ofBool 32 b) = b := truth_ofBool 32 (by omega) b
@[simp] theorem sext_ofBool (b : Bool) : (sext 64 (ofBool 32 b) : BitVec 64) = ofBool 64 b := by
  cases b <;> decide
@[simp] theorem sext_zero32 : (sext 64 0#32 : BitVec 64) = 0#64 := by decide
@[simp] theorem sext_one32 : (sext 64 1#32 : BitVec 64) = 1#64 := by decide
@[simp] theorem sext_two32 : (sext 64 2#32 : BitVec 64) = 2#64 := by decide
@[simp] theorem sext_neg_one32 : (sext 64 4294967295#32 : BitVec 64) = 18446744073709551615#64 := by decide
@[simp] theorem sext_neg_one32' : (sext 64 (-1#32) : BitVec 64) = 18446744073709551615#64 := by decide
theorem ite_one_zero (c : Prop) [Decidable c] : (if c then 1#64 else 0#64) = ofBool 64 (decide c) := by
  by_cases h : c <;> simp [h, ofBool]
theorem ite_zero_one (c : Prop) [Decidable c] : (if c then 0#64 else 1#64) = ofBool 64 (!decide c) := by
  by_cases h : c <;> simp [h, ofBool]
theorem ofBool_and (a b : Bool) : ofBool 64 a &&& ofBool 64 b = ofBool 64 (a && b) := by
  cases a <;> cases b <;> decide
theorem ofBool_or (a b : Bool) : ofBool 64 a ||| ofBool 64 b = ofBool 64 (a || b) := by
  cases a <;> cases b <;> decide
theorem ofBool_canon (b : Bool) : ofBool 64 b = 0#64 ∨ ofBool 64 b = 1#64 := by
  cases b <;> simp [ofBool]

theorem slt_def {n} (a b : BitVec n) : a.slt b = decide (a.toInt < b.toInt) := rfl
theorem sle_def {n} (a b : BitVec n) : a.sle b = decide (a.toInt ≤ b.toInt) := rfl
theorem ult_def {n} (a b : BitVec n) : a.ult b = decide (a.toNat < b.toNat) := rfl
theorem ule_def {n} (a b : BitVec n) : a.ule b = decide (a.toNat ≤ b.toNat) := rfl

theorem bind_eq_val {α β} (m : CRes α) (f : α → CRes β) (r : β) :
    m.bind f = val r ↔ ∃ a, m = val a ∧ f a = val r := by
  cases m <;> simp [CRes.bind]
theorem map_eq_val {α β} (m : CRes α) (f : α → β) (r : β) :
    m.map f = val r ↔ ∃ a, m = val a ∧ f a = r := by
  cases m <;> simp [CRes.map, CRes.bind]
@[simp] theorem bind_val_id {α} (m : CRes α) : (m.bind fun t => val t) = m := by
  cases m <;> rfl

@[simp] theorem truth_sext32 (x : BitVec 32) : truth (sext 64 x : BitVec 64) = truth x := by
  simp only [truth, sext, bne]
  congr 1
  apply beq_congr
  constructor
  · intro h
    have := congrArg (BitVec.setWidth 32) h
    rw [trunc_sext_32] at this; simpa using this
  · intro h; subst h; decide

theorem canon32 (x : BitVec 32) (h : x = 0#32 ∨ x = 1#32) :
    (sext 64 x : BitVec 64) = 0#64 ∨ (sext 64 x : BitVec 64) = 1#64 := by
  rcases h with h | h <;> subst h <;> decide

/-! ## exhaustive checking over small carriers -/
theorem forall_bv8 (p : BitVec 8 → Prop) (h : ∀ i : Fin 256, p (BitVec.ofFin i)) : ∀ a, p a := by
  intro a; exact h a.toFin

theorem spec_of_eq {α} (S : Option α) (G : CRes α)
    (h : S = none ∨ S.map CRes.val = some G) : ∀ r, S = some r → G = CRes.val r := by
  intro r hr; subst hr; cases h with
  | inl h => cases h
  | inr h => simp at h; exact h.symm

theorem canon_of_eq (G : CRes (BitVec 64))
    (h : G = undef ∨ G = trap ∨ G = val 0#64 ∨ G = val 1#64) : ∀ r, G = val r → r = 0#64 ∨ r = 1#64 := by
  intro r hr; subst hr
  rcases h with h | h | h | h
  · cases h
  · cases h
  · left; injection h
  · right; injection h

/-! ## widths -/
theorem toInt_cond64 (a : BitVec 64) : a.toInt =
    if a.toNat < 9223372036854775808 then (a.toNat : Int) else (a.toNat : Int) - 18446744073709551616 := by
  rw [BitVec.toInt_eq_toNat_cond]; split <;> split <;> omega

theorem toInt_zext32_8 (a : BitVec 8) : (BitVec.setWidth 32 a).toInt = a.toNat := by
  rw [BitVec.toInt_eq_toNat_cond, BitVec.toNat_setWidth]; have := a.isLt; split <;> omega
theorem toInt_zext64_8 (a : BitVec 8) : (BitVec.setWidth 64 a).toInt = a.toNat := by
  rw [BitVec.toInt_eq_toNat_cond, BitVec.toNat_setWidth]; have := a.isLt; split <;> omega
theorem zext32_inj (a b : BitVec 8) : (BitVec.setWidth 32 a = BitVec.setWidth 32 b) ↔ a = b := by
  constructor
  · intro h; have := congrArg BitVec.toNat h; simp at this; apply BitVec.eq_of_toNat_eq; omega
  · intro h; rw [h]
theorem zext64_inj (a b : BitVec 8) : (BitVec.setWidth 64 a = BitVec.setWidth 64 b) ↔ a = b := by
  constructor
  · intro h; have := congrArg BitVec.toNat h; simp at this; apply BitVec.eq_of_toNat_eq; omega
  · intro h; rw [h]
theorem zext64_eq_ofNat (a : BitVec 8) : BitVec.setWidth 64 a = BitVec.ofNat 64 a.toNat := by
  apply BitVec.eq_of_toNat_eq; simp
theorem sext64_eq_ofInt (a : BitVec 16) : BitVec.signExtend 64 a = BitVec.ofInt 64 a.toInt := by
  apply BitVec.eq_of_toInt_eq
  rw [BitVec.toInt_signExtend_of_le (by omega), BitVec.toInt_ofInt]
  have := BitVec.toInt_lt (x := a); have := BitVec.le_toInt (x := a)
  simp only [Int.bmod]; omega
theorem trunc8_eq_ofInt (a : BitVec 64) : BitVec.setWidth 8 a = BitVec.ofInt 8 a.toInt := by
  apply BitVec.eq_of_toNat_eq
  simp [BitVec.toNat_ofInt, BitVec.toInt_eq_toNat_cond]
  split <;> omega
theorem trunc16_eq_ofInt (a : BitVec 64) : BitVec.setWidth 16 a = BitVec.ofInt 16 a.toInt := by
  apply BitVec.eq_of_toNat_eq
  simp [BitVec.toNat_ofInt, BitVec.toInt_eq_toNat_cond]
  split <;> omega

theorem beq_zext32 (a b : BitVec 8) : (BitVec.setWidth 32 a == BitVec.setWidth 32 b) = (a == b) :=
  beq_congr _ _ _ _ (zext32_inj a b)
theorem bne_zext32 (a b : BitVec 8) : (BitVec.setWidth 32 a != BitVec.setWidth 32 b) = (a != b) := by
  simp [bne, beq_zext32]
theorem beq_zext64 (a b : BitVec 8) : (BitVec.setWidth 64 a == BitVec.setWidth 64 b) = (a == b) :=
  beq_congr _ _ _ _ (zext64_inj a b)
theorem bne_zext64 (a b : BitVec 8) : (BitVec.setWidth 64 a != BitVec.setWidth 64 b) = (a != b) := by
  simp [bne, beq_zext64]
theorem bmod32_u8 (a : BitVec 8) : ((a.toNat : Int)).bmod 4294967296 = a.toNat := by
  have := a.isLt; simp only [Int.bmod]; omega
theorem bmod64_u8 (a : BitVec 8) : ((a.toNat : Int)).bmod 18446744073709551616 = a.toNat := by
  have := a.isLt; simp only [Int.bmod]; omega

/-! ## parity -/
theorem and_one_eq_zero_iff (a : BitVec 64) : (a &&& 1#64 = 0#64) ↔ a.toInt % 2 = 0 := by
  rw [BitVec.toNat_eq, toInt_cond64]
  simp only [BitVec.toNat_and, BitVec.toNat_ofNat]
  have := a.isLt
  have e : a.toNat &&& 1 % 2 ^ 64 = a.toNat % 2 := by
    have : (1 % 2 ^ 64 : Nat) = 1 := by decide
    rw [this, Nat.and_one_is_mod]
  rw [e]
  split <;> omega

theorem tmod_two_zero_iff (x : Int) : x.tmod 2 = 0 ↔ x % 2 = 0 := by
  constructor
  · intro h; have := Int.dvd_of_tmod_eq_zero h; omega
  · intro h; apply Int.tmod_eq_zero_of_dvd; omega

theorem srem_two (a : BitVec 64) : srem a 2#64 = val (a.srem 2#64) := by
  simp [srem]
theorem srem_two_eq_zero_iff (a : BitVec 64) : a.srem 2#64 = 0#64 ↔ a.toInt % 2 = 0 := by
  rw [← BitVec.toInt_inj, BitVec.toInt_srem]
  simp [tmod_two_zero_iff]
theorem srem_two_eq_one_iff (a : BitVec 64) : a.srem 2#64 = 1#64 ↔ (a.toInt % 2 = 1 ∧ 0 ≤ a.toInt) := by
  rw [← BitVec.toInt_inj, BitVec.toInt_srem]
  have h1 : (1#64 : BitVec 64).toInt = 1 := by decide
  have h2 : (2#64 : BitVec 64).toInt = 2 := by decide
  rw [h1, h2, Int.tmod_eq_emod]
  constructor
  · intro h; split at h <;> omega
  · intro h; split <;> omega

theorem srem_two_beq0 (a : BitVec 64) : (a.srem 2#64 == 0#64) = decide (a.toInt % 2 = 0) :=
  beq_decide _ _ _ (srem_two_eq_zero_iff a)
theorem srem_two_bne0 (a : BitVec 64) : (a.srem 2#64 != 0#64) = !decide (a.toInt % 2 = 0) := by
  simp [bne, srem_two_beq0]
theorem srem_two_beq1 (a : BitVec 64) : (a.srem 2#64 == 1#64) = decide (a.toInt % 2 = 1 ∧ 0 ≤ a.toInt) :=
  beq_decide _ _ _ (srem_two_eq_one_iff a)
theorem and_one_beq0 (a : BitVec 64) : (a &&& 1#64 == 0#64) = decide (a.toInt % 2 = 0) :=
  beq_decide _ _ _ (and_one_eq_zero_iff a)

/-! ## division -/
theorem divDom_iff (a b : BitVec 64) :
    Spec.divDom a b = true ↔ b ≠ 0#64 ∧ ¬ (a = BitVec.intMin 64 ∧ b = -1#64) := by
  simp [Spec.divDom]
  intro _
  constructor
  · intro h ha; cases h with
    | inl h => exact absurd ha h
    | inr h => exact h
  · intro h; by_cases ha : a = BitVec.intMin 64
    · right; exact h ha
    · left; exact ha

theorem sdiv_spec (a b : BitVec 64) (h : Spec.divDom a b = true) :
    sdiv a b = val (BitVec.ofInt 64 (a.toInt.tdiv b.toInt)) := by
  rw [divDom_iff] at h
  obtain ⟨h1, h3⟩ := h
  simp only [sdiv, h1, h3, if_false]
  congr 1
  rw [← BitVec.toInt_sdiv_of_ne_or_ne, BitVec.ofInt_toInt]
  by_cases ha : a = BitVec.intMin 64
  · right; intro hb; exact h3 ⟨ha, hb⟩
  · left; exact ha

theorem srem_spec (a b : BitVec 64) (h : Spec.divDom a b = true) :
    srem a b = val (BitVec.ofInt 64 (a.toInt.tmod b.toInt)) := by
  rw [divDom_iff] at h
  obtain ⟨h1, h3⟩ := h
  simp only [srem, h1, h3, if_false]
  congr 1
  rw [← BitVec.toInt_srem, BitVec.ofInt_toInt]

theorem divDom_pos (a n : BitVec 64) (ha : 0 ≤ a.toInt) (hn : 0 < n.toInt) : Spec.divDom a n = true := by
  simp [Spec.divDom]
  constructor
  · intro h; rw [h] at hn; simp at hn
  · left; intro h; rw [h] at ha; simp [BitVec.toInt_intMin] at ha

theorem mod_spec (a n : BitVec 64) (ha : 0 ≤ a.toInt) (hn : 0 < n.toInt) :
    srem a n = val (BitVec.ofInt 64 (a.toInt % n.toInt)) := by
  rw [srem_spec a n (divDom_pos a n ha hn), Int.tmod_eq_emod_of_nonneg ha]

/-! ## shifts and bits -/
theorem shiftDom_iff (k : BitVec 64) : Spec.shiftDom k = true ↔ 0 ≤ k.toInt ∧ k.toInt < 64 := by
  simp [Spec.shiftDom]

theorem shl_spec (a k : BitVec 64) (h : Spec.shiftDom k = true) :
    shl a k.toInt = val (BitVec.ofInt 64 (a.toInt * 2 ^ k.toInt.toNat)) := by
  rw [shiftDom_iff] at h
  have hc : 0 ≤ k.toInt ∧ k.toInt < (64 : Nat) := by omega
  simp only [shl, hc, and_self, if_true]
  congr 1
  rw [BitVec.ofInt_mul, BitVec.ofInt_toInt, BitVec.shiftLeft_eq_mul_twoPow]
  congr 1
  apply BitVec.eq_of_toNat_eq
  have : ((2:Int) ^ k.toInt.toNat) = ((2 ^ k.toInt.toNat : Nat) : Int) := by simp
  rw [this, BitVec.ofInt_natCast]
  simp [BitVec.toNat_twoPow]

theorem sshr_spec (a k : BitVec 64) (h : Spec.shiftDom k = true) :
    sshr a k.toInt = val (BitVec.ofInt 64 (a.toInt / 2 ^ k.toInt.toNat)) := by
  rw [shiftDom_iff] at h
  have hc : 0 ≤ k.toInt ∧ k.toInt < (64 : Nat) := by omega
  simp only [sshr, hc, and_self, if_true]
  congr 1
  have : ((2:Int) ^ k.toInt.toNat) = ((2 ^ k.toInt.toNat : Nat) : Int) := by simp
  rw [this, ← Int.shiftRight_eq_div_pow, ← BitVec.toInt_sshiftRight, BitVec.ofInt_toInt]

theorem bit_spec (a k : BitVec 64) (h : Spec.shiftDom k = true) :
    ((shl 1#64 k.toInt).bind fun t => val (ofBool 64 (truth (a &&& t)))) =
      val (ofBool 64 (a.getLsbD k.toInt.toNat)) := by
  rw [shiftDom_iff] at h
  have hc : 0 ≤ k.toInt ∧ k.toInt < (64 : Nat) := by omega
  simp only [shl, hc, and_self, if_true, CRes.bind_val]
  congr 2
  rw [← BitVec.twoPow_eq, BitVec.and_twoPow]
  have hk : k.toInt.toNat < 64 := by omega
  by_cases hb : a.getLsbD k.toInt.toNat = true
  · simp [hb, truth]
    intro h0; have := congrArg BitVec.toNat h0
    simp [BitVec.toNat_twoPow] at this
    have h2 : 2 ^ k.toInt.toNat < 2 ^ 64 := Nat.pow_lt_pow_right (by omega) hk
    rw [Nat.mod_eq_of_lt h2] at this
    have := Nat.two_pow_pos k.toInt.toNat
    omega
  · simp [hb, truth]

/-! ## tactics used by the generated theorems -/
open Lean.Parser.Tactic in
/-- statement `∀ P a.. r, Spec.X a.. = some r → Gen.E.X P a.. = val r`; arguments range over
`Bool` and at most one `BitVec 8`: exhaustive kernel evaluation -/
syntax "c04_spec_enum" "[" simpLemma,* "]" : tactic
macro_rules
  | `(tactic| c04_spec_enum [$ls,*]) => `(tactic| (
      intro P
      first
      | (apply forall_bv8; intro i; apply spec_of_eq; simp only [$ls,*]; revert i; decide)
      | (intro a; apply forall_bv8; intro i; apply spec_of_eq; simp only [$ls,*]; revert a i; decide)
      | (intro a; cases a <;> (apply spec_of_eq; simp only [$ls,*]; decide))
      | (intro a b; cases a <;> cases b <;> (apply spec_of_eq; simp only [$ls,*]; decide))
      | (apply spec_of_eq; simp only [$ls,*]; decide)))

open Lean.Parser.Tactic in
syntax "c04_spec" "[" simpLemma,* "]" : tactic
macro_rules
  | `(tactic| c04_spec [$ls,*]) => `(tactic| (
      intros
      rename_i r h
      simp only [$ls,*] at h ⊢
      simp [slt_def, sle_def, ult_def, ule_def, ite_one_zero, ite_zero_one, ofBool_and, ofBool_or,
            toInt_zext32_8, toInt_zext64_8, zext32_inj, zext64_inj, sext64_eq_ofInt,
            beq_zext32, bne_zext32, beq_zext64, bne_zext64, bmod32_u8, bmod64_u8, trunc_sext_32,
            trunc8_eq_ofInt, trunc16_eq_ofInt, and_one_eq_zero_iff, and_one_beq0, srem_two,
            srem_two_beq0, srem_two_bne0, srem_two_beq1] at h ⊢
      first
      | done
      | exact h
      | (subst h; first | rfl | omega | (simp; done) | (simp; omega))
      | omega
      | (obtain ⟨hd, h⟩ := h; subst h
         first
         | (simp [sdiv_spec _ _ hd]; done)
         | (simp [srem_spec _ _ hd]; done)
         | (simp [shl_spec _ _ hd]; done)
         | (simp [sshr_spec _ _ hd]; done)
         | (simp [bit_spec _ _ hd]; done)
         | (simp [mod_spec _ _ hd.1 hd.2]; done)
         | (simp [trunc8_eq_ofInt, trunc16_eq_ofInt]; done))))

open Lean.Parser.Tactic in
syntax "c04_canon_enum" "[" simpLemma,* "]" : tactic
macro_rules
  | `(tactic| c04_canon_enum [$ls,*]) => `(tactic| (
      intro P L
      first
      | (apply forall_bv8; intro i; apply canon_of_eq; simp only [$ls,*]; revert i; decide)
      | (intro a; cases a <;> (apply canon_of_eq; simp only [$ls,*]; decide))
      | (intro a b; cases a <;> cases b <;> (apply canon_of_eq; simp only [$ls,*]; decide))
      | (apply canon_of_eq; simp only [$ls,*]; decide)))

open Lean.Parser.Tactic in
syntax "c04_canon" "[" simpLemma,* "]" : tactic
macro_rules
  | `(tactic| c04_canon [$ls,*]) => `(tactic| (
      intro P L
      intros
      rename_i r h
      simp only [$ls,*] at h
      simp [ite_one_zero, ite_zero_one, ofBool_and, ofBool_or, bind_eq_val, map_eq_val, srem_two] at h
      first
      | (subst h; exact ofBool_canon _)
      | (obtain ⟨_, _, h⟩ := h; subst h; exact ofBool_canon _)
      | (subst h; exact canon32 _ (PrimLaws.canon_bintIsZero L _))
      | (subst h; exact canon32 _ (PrimLaws.canon_bintIsNeg L _))
      | (subst h; exact canon32 _ (PrimLaws.canon_bintIsPos L _))
      | (subst h; exact canon32 _ (PrimLaws.canon_bintEQ L _ _))
      | (subst h; exact canon32 _ (PrimLaws.canon_bintLT L _ _))
      | (subst h; exact canon32 _ (PrimLaws.canon_bintGT L _ _))
      | (subst h; exact canon32 _ (PrimLaws.canon_bintBit L _ _))
      | (subst h; exact PrimLaws.canon_fiBIntIsSingle L _)
      | (subst h; decide)
      | (subst h; simp)))

open Lean.Parser.Tactic in
syntax "c04_notrap" "[" simpLemma,* "]" : tactic
macro_rules
  | `(tactic| c04_notrap [$ls,*]) => `(tactic| (
      intros
      simp only [$ls,*]
      first
      | (simp [CSem.shl, CSem.sshr, CSem.ushr, CSem.isdigit, CSem.isalpha, CSem.tolower, CSem.toupper, srem_two]; done)
      | (simp [CSem.shl, CSem.sshr, CSem.ushr, CSem.isdigit, CSem.isalpha, CSem.tolower, CSem.toupper, srem_two]
         split <;> simp)
      | (simp [CSem.shl, CSem.sshr, CSem.ushr, CSem.isdigit, CSem.isalpha, CSem.tolower, CSem.toupper, srem_two]
         split <;> (try split) <;> simp)))

open Lean.Parser.Tactic in
/-- guarded fold: `X_folds P a = true → ∀ r, Spec.X a = some r → Gen.Cfold.X P a = val r` -/
syntax "c04_spec_g" "[" simpLemma,* "]" : tactic
macro_rules
  | `(tactic| c04_spec_g [$ls,*]) => `(tactic| (
      intro P
      intros
      rename_i hf r h
      revert r
      c04_spec [$ls,*]))

open Lean.Parser.Tactic in
/-- guarded fold: `X_folds P a = true → (Gen.Cfold.X P a).isTrap = false` -/
syntax "c04_notrap_g" "[" simpLemma,* "]" : tactic
macro_rules
  | `(tactic| c04_notrap_g [$ls,*]) => `(tactic| (
      intros
      rename_i hf
      simp only [$ls,*] at hf ⊢
      simp [CSem.sdiv, CSem.srem, CSem.udiv, CSem.urem, CSem.shl, CSem.sshr, CSem.ushr, srem_two] at hf ⊢
      first
      | done
      | (simp [hf]; done)
      | (obtain ⟨h0, h1⟩ := hf; simp [h0, h1]; done)
      | (split <;> simp_all)))

open Lean.Parser.Tactic in
syntax "c04_agree" "[" simpLemma,* "]" "with" term : tactic
macro_rules
  | `(tactic| c04_agree [$ls,*] with $L) => `(tactic| (
      first
      | rfl
      | (simp only [$ls,*]; done)
      | (simp only [$ls,*]
         simp [PrimLaws.f32_zero $L, PrimLaws.f32_one $L, PrimLaws.f64_zero $L, PrimLaws.f64_one $L,
               PrimLaws.widen_zero $L, ← PrimLaws.widen_eq $L, ← PrimLaws.widen_lt $L, ← PrimLaws.widen_gt $L,
               ite_one_zero, ite_zero_one, trunc_sext_32, PrimLaws.parity $L])))

macro "c04_refute" : tactic => `(tactic| decide)

end AldorVerif.C04Manual
