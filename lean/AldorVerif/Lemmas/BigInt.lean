import AldorVerif.Model.BigInt
/-! Lemmas about the model of bigint.c (core Lean only). -/
namespace AldorVerif.BigInt

theorem R_eq : R = 4294967296 := rfl
theorem W_eq : W = 18446744073709551616 := rfl
theorem MAXI_eq : MAXI = 4611686018427387903 := rfl
theorem MINI_eq : MINI = -4611686018427387903 := rfl
theorem MAXH_eq : MAXH = 2147483647 := rfl
theorem R_pos : 0 < R := by rw [R_eq]; omega
theorem W_eq_RR : W = R * R := by rw [R_eq, W_eq]

/-- all places are digits -/
def Digits (ds : List Nat) : Prop := ∀ d ∈ ds, d < R

theorem Digits.nil : Digits [] := by intro d h; cases h
theorem Digits.cons {d : Nat} {ds : List Nat} (h : d < R) (hs : Digits ds) : Digits (d :: ds) := by
  intro x hx
  rcases List.mem_cons.mp hx with rfl | hx
  · exact h
  · exact hs x hx
theorem Digits.head {d : Nat} {ds : List Nat} (h : Digits (d :: ds)) : d < R := h d (List.mem_cons_self ..)
theorem Digits.tail {d : Nat} {ds : List Nat} (h : Digits (d :: ds)) : Digits ds :=
  fun x hx => h x (List.mem_cons_of_mem _ hx)
theorem Digits.append {a b : List Nat} (ha : Digits a) (hb : Digits b) : Digits (a ++ b) := by
  intro x hx
  rcases List.mem_append.mp hx with h | h
  · exact ha x h
  · exact hb x h
theorem Digits.of_append_left {a b : List Nat} (h : Digits (a ++ b)) : Digits a :=
  fun x hx => h x (List.mem_append_left _ hx)
theorem Digits.of_append_right {a b : List Nat} (h : Digits (a ++ b)) : Digits b :=
  fun x hx => h x (List.mem_append_right _ hx)
theorem Digits.reverse {a : List Nat} (h : Digits a) : Digits a.reverse :=
  fun x hx => h x (List.mem_reverse.mp hx)

@[simp] theorem natVal_nil : natVal [] = 0 := rfl
@[simp] theorem natVal_cons (d : Nat) (ds : List Nat) : natVal (d :: ds) = d + R * natVal ds := rfl

theorem natVal_append (a b : List Nat) : natVal (a ++ b) = natVal a + R ^ a.length * natVal b := by
  induction a with
  | nil => simp
  | cons d ds ih =>
    simp only [List.cons_append, natVal_cons, ih, List.length_cons, Nat.pow_succ]
    rw [Nat.mul_add, Nat.add_assoc, ← Nat.mul_assoc, Nat.mul_comm R (R ^ ds.length)]

theorem natVal_lt {ds : List Nat} (h : Digits ds) : natVal ds < R ^ ds.length := by
  induction ds with
  | nil => simp
  | cons d ds ih =>
    have hd := h.head
    have := ih h.tail
    simp only [natVal_cons, List.length_cons, Nat.pow_succ]
    have h2 : R * (natVal ds + 1) ≤ R * R ^ ds.length := Nat.mul_le_mul_left R this
    rw [Nat.mul_add, Nat.mul_one] at h2
    rw [Nat.mul_comm (R ^ ds.length) R]
    omega

theorem natVal_replicate_zero (n : Nat) : natVal (List.replicate n 0) = 0 := by
  induction n with
  | zero => rfl
  | succ n ih => simp [List.replicate_succ, ih]

/-- no most significant zero place -/
def Norm (ds : List Nat) : Prop := ds.getLast? ≠ some 0

theorem Norm.nil : Norm [] := by simp [Norm]
theorem norm_cons_cons (a b : Nat) (l : List Nat) : Norm (a :: b :: l) ↔ Norm (b :: l) := by
  simp [Norm, List.getLast?_cons_cons]
theorem norm_single (a : Nat) : Norm [a] ↔ a ≠ 0 := by simp [Norm]

theorem norm_tail {d : Nat} {ds : List Nat} (h : Norm (d :: ds)) (hne : ds ≠ []) : Norm ds := by
  cases ds with
  | nil => exact absurd rfl hne
  | cons b l => exact (norm_cons_cons d b l).mp h

/-- a normalised non-empty vector is at least `R^(len-1)` -/
theorem natVal_ge_of_norm {ds : List Nat} (hn : Norm ds) (hne : ds ≠ []) : R ^ (ds.length - 1) ≤ natVal ds := by
  induction ds with
  | nil => exact absurd rfl hne
  | cons d ds ih =>
    cases ds with
    | nil =>
      have := (norm_single d).mp hn
      simp; omega
    | cons b l =>
      have h1 := ih ((norm_cons_cons d b l).mp hn) (by simp)
      simp only [List.length_cons, Nat.add_sub_cancel] at h1 ⊢
      simp only [natVal_cons] at h1 ⊢
      rw [Nat.pow_succ, Nat.mul_comm (R ^ l.length) R]
      have := Nat.mul_le_mul_left R h1
      omega

theorem natVal_pos_of_norm {ds : List Nat} (hn : Norm ds) (hne : ds ≠ []) : 0 < natVal ds :=
  Nat.lt_of_lt_of_le (Nat.pow_pos R_pos) (natVal_ge_of_norm hn hne)

/-! ### stripTop -/

theorem stripTop_val (ds : List Nat) : natVal (stripTop ds) = natVal ds := by
  induction ds with
  | nil => rfl
  | cons d ds ih =>
    simp only [stripTop]
    split
    · rename_i h
      rw [h] at ih
      simp only [natVal_nil] at ih
      split
      · rename_i hd; subst hd; simp [← ih]
      · simp [← ih]
    · simp [ih]

theorem stripTop_digits {ds : List Nat} (h : Digits ds) : Digits (stripTop ds) := by
  induction ds with
  | nil => exact h
  | cons d ds ih =>
    simp only [stripTop]
    split
    · split
      · exact Digits.nil
      · exact Digits.cons h.head Digits.nil
    · exact Digits.cons h.head (ih h.tail)

theorem stripTop_norm (ds : List Nat) : Norm (stripTop ds) := by
  induction ds with
  | nil => exact Norm.nil
  | cons d ds ih =>
    simp only [stripTop]
    split
    · split
      · exact Norm.nil
      · rename_i h; exact (norm_single d).mpr h
    · rename_i h
      cases hs : stripTop ds with
      | nil => exact absurd hs h
      | cons b l => rw [hs] at ih; exact (norm_cons_cons d b l).mpr ih

theorem stripTop_length_le (ds : List Nat) : (stripTop ds).length ≤ ds.length := by
  induction ds with
  | nil => simp [stripTop]
  | cons d ds ih =>
    simp only [stripTop]
    split
    · split <;> simp
    · simp; omega

theorem stripTop_of_norm {ds : List Nat} (h : Norm ds) : stripTop ds = ds := by
  induction ds with
  | nil => rfl
  | cons d ds ih =>
    cases ds with
    | nil =>
      have := (norm_single d).mp h
      simp [stripTop, this]
    | cons b l =>
      have h1 := ih ((norm_cons_cons d b l).mp h)
      simp only [stripTop] at h1 ⊢
      rw [h1]

/-! ### big-endian reading and the comparison loop -/

/-- value of a digit vector given most significant place first -/
def beVal : List Nat → Nat
  | [] => 0
  | d :: ds => d * R ^ ds.length + beVal ds

theorem beVal_lt {ds : List Nat} (h : Digits ds) : beVal ds < R ^ ds.length := by
  induction ds with
  | nil => simp [beVal]
  | cons d ds ih =>
    have hd := h.head
    have := ih h.tail
    simp only [beVal, List.length_cons, Nat.pow_succ]
    have h2 : (d + 1) * R ^ ds.length ≤ R * R ^ ds.length := Nat.mul_le_mul_right _ hd
    rw [Nat.add_mul, Nat.one_mul] at h2
    rw [Nat.mul_comm (R ^ ds.length) R]
    omega

theorem beVal_append_single (l : List Nat) (d : Nat) : beVal (l ++ [d]) = beVal l * R + d := by
  induction l with
  | nil => simp [beVal]
  | cons x xs ih =>
    simp only [List.cons_append, beVal, ih, List.length_append, List.length_cons, List.length_nil,
      Nat.pow_succ]
    rw [Nat.add_mul, Nat.mul_assoc]; omega

theorem natVal_eq_beVal_reverse (ds : List Nat) : natVal ds = beVal ds.reverse := by
  induction ds with
  | nil => rfl
  | cons d ds ih =>
    rw [List.reverse_cons, beVal_append_single, natVal_cons, ih, Nat.mul_comm]; omega

theorem cmpLoop_spec {a b : List Nat} (hl : a.length = b.length) (ha : Digits a) (hb : Digits b) :
    (cmpLoop a b = none → a = b) ∧ (cmpLoop a b = some true → beVal a < beVal b) ∧
    (cmpLoop a b = some false → beVal b < beVal a) := by
  induction a generalizing b with
  | nil =>
    cases b with
    | nil => simp [cmpLoop]
    | cons y ys => simp at hl
  | cons x xs ih =>
    cases b with
    | nil => simp at hl
    | cons y ys =>
      simp only [List.length_cons, Nat.add_right_cancel_iff] at hl
      have ih' := ih hl ha.tail hb.tail
      have hx := beVal_lt ha.tail
      have hy := beVal_lt hb.tail
      simp only [cmpLoop, beVal]
      by_cases hxy : x = y
      · subst hxy
        simp only [if_true, hl]
        refine ⟨fun h => by rw [ih'.1 h], fun h => ?_, fun h => ?_⟩
        · have := ih'.2.1 h; omega
        · have := ih'.2.2 h; omega
      · simp only [if_neg hxy]
        refine ⟨fun h => by simp at h, fun h => ?_, fun h => ?_⟩
        · have hlt : x < y := by simpa using h
          have h2 : (x + 1) * R ^ xs.length ≤ y * R ^ xs.length := Nat.mul_le_mul_right _ hlt
          rw [Nat.add_mul, Nat.one_mul] at h2
          rw [← hl]; omega
        · have hlt : ¬ x < y := by simpa using h
          have hlt : y < x := by omega
          have h2 : (y + 1) * R ^ xs.length ≤ x * R ^ xs.length := Nat.mul_le_mul_right _ hlt
          rw [Nat.add_mul, Nat.one_mul] at h2
          rw [← hl] at hy ⊢; omega

/-- equal values of equally long digit vectors -/
theorem beVal_inj {a b : List Nat} (hl : a.length = b.length) (ha : Digits a) (hb : Digits b)
    (h : beVal a = beVal b) : a = b := by
  have s := cmpLoop_spec hl ha hb
  cases hc : cmpLoop a b with
  | none => exact s.1 hc
  | some t =>
    cases t with
    | true => have := s.2.1 hc; omega
    | false => have := s.2.2 hc; omega

theorem natVal_inj_of_length {a b : List Nat} (hl : a.length = b.length) (ha : Digits a) (hb : Digits b)
    (h : natVal a = natVal b) : a = b := by
  rw [natVal_eq_beVal_reverse a, natVal_eq_beVal_reverse b] at h
  have := beVal_inj (by simp [hl]) ha.reverse hb.reverse h
  simpa using congrArg List.reverse this

/-- shorter vector, normalised longer one: smaller value -/
theorem natVal_lt_of_length_lt {a b : List Nat} (hl : a.length < b.length) (ha : Digits a) (hnb : Norm b) :
    natVal a < natVal b := by
  have h1 := natVal_lt ha
  have hne : b ≠ [] := by intro h; rw [h] at hl; simp at hl
  have h2 := natVal_ge_of_norm hnb hne
  have h3 : R ^ a.length ≤ R ^ (b.length - 1) := Nat.pow_le_pow_right R_pos (by omega)
  omega

/-! ### C integers -/

theorem wrapL_eq {x : Int} (h1 : -9223372036854775808 ≤ x) (h2 : x < 9223372036854775808) : wrapL x = x := by
  unfold wrapL; rw [W_eq, Int.bmod_def]; split <;> omega

theorem uw_eq {x : Int} (h1 : 0 ≤ x) (h2 : x < 18446744073709551616) : uw x = x.toNat := by
  unfold uw; rw [W_eq]; omega

theorem intToBInt_eq {n : Int} (h1 : -4611686018427387904 ≤ n) (h2 : n < 4611686018427387904) :
    intToBInt n = .imm n := by
  unfold intToBInt; rw [Int.bmod_def]; split <;> (congr 1; omega)

theorem absL_eq {n : Int} (h1 : -9223372036854775808 ≤ n) (h2 : n < 9223372036854775808) :
    absL n = n.natAbs := by
  unfold absL
  split
  · by_cases h : n = -9223372036854775808
    · subst h; decide
    · rw [wrapL_eq (by omega) (by omega), uw_eq (by omega) (by omega)]; omega
  · rw [uw_eq (by omega) (by omega)]; omega

theorem INT_IS_IMMED_iff (n : Int) : INT_IS_IMMED n = true ↔ (MINI ≤ n ∧ n ≤ MAXI) := by
  simp [INT_IS_IMMED]

theorem INT_IS_HALF_iff (n : Int) : INT_IS_HALF n = true ↔ (-MAXH ≤ n ∧ n ≤ MAXH) := by
  simp [INT_IS_HALF]

/-! ### representation -/

@[simp] theorem val_imm (v : Int) : (BInt.imm v).val = v := rfl
theorem val_big (neg : Bool) (ds : List Nat) :
    (BInt.big neg ds).val = if neg then -(natVal ds : Int) else (natVal ds : Int) := rfl
@[simp] theorem val_big_false (ds : List Nat) : (BInt.big false ds).val = (natVal ds : Int) := rfl
@[simp] theorem val_big_true (ds : List Nat) : (BInt.big true ds).val = -(natVal ds : Int) := rfl

theorem WF_imm {v : Int} : WF (.imm v) ↔ (MINI ≤ v ∧ v ≤ MAXI) := Iff.rfl
theorem WF_big {neg : Bool} {ds : List Nat} :
    WF (.big neg ds) ↔ (Digits ds ∧ Norm ds ∧ MAXI < (natVal ds : Int)) := Iff.rfl

theorem WF_imm_of {v : Int} (h1 : -4611686018427387903 ≤ v) (h2 : v ≤ 4611686018427387903) : WF (.imm v) := by
  rw [WF_imm, MINI_eq, MAXI_eq]; exact ⟨h1, h2⟩

/-- a stored operand as `xintStore` hands it to the `iint` routines: normalised, or the one
place zero -/
def Stored (ds : List Nat) : Prop := Digits ds ∧ (ds = [0] ∨ (ds ≠ [] ∧ Norm ds))

theorem Stored.ne_nil {ds : List Nat} (h : Stored ds) : ds ≠ [] := by
  rcases h.2 with h | h
  · rw [h]; simp
  · exact h.1

theorem Stored.of_WF {neg : Bool} {ds : List Nat} (h : WF (.big neg ds)) : Stored ds := by
  obtain ⟨hd, hn, hv⟩ := WF_big.mp h
  refine ⟨hd, Or.inr ⟨?_, hn⟩⟩
  intro h0; subst h0; rw [MAXI_eq] at hv; simp at hv

theorem toDigits_two {u : Nat} (h1 : R ≤ u) (h2 : u < W) : toDigits 2 u = [u % R, u / R] := by
  have hR := R_eq
  have hW := W_eq
  have hq : u / R < R := by
    apply Nat.div_lt_of_lt_mul; rw [← W_eq_RR]; exact h2
  have hq0 : u / R ≠ 0 := by
    have : 1 ≤ u / R := (Nat.le_div_iff_mul_le R_pos).mpr (by omega)
    omega
  have hu : u ≠ 0 := by omega
  simp [toDigits, hu, hq0, Nat.mod_eq_of_lt hq]

theorem xintStoreI_spec {n : Int} (h1 : -9223372036854775808 ≤ n) (h2 : n < 9223372036854775808) :
    ∃ ds, xintStoreI n = .big (decide (n < 0)) ds ∧ Stored ds ∧ natVal ds = n.natAbs ∧
      (n.natAbs ≠ 0 → Norm ds) := by
  unfold xintStoreI xintCopyInI
  rw [absL_eq h1 h2]
  by_cases h : n.natAbs < R
  · refine ⟨[n.natAbs], by simp [h], ⟨Digits.cons h Digits.nil, ?_⟩, by simp, fun h0 => (norm_single _).mpr h0⟩
    by_cases h0 : n.natAbs = 0
    · left; rw [h0]
    · right; exact ⟨by simp, (norm_single _).mpr h0⟩
  · have hu : n.natAbs < W := by rw [W_eq]; omega
    have hR : R ≤ n.natAbs := by omega
    have hq : n.natAbs / R < R := by
      apply Nat.div_lt_of_lt_mul; rw [← W_eq_RR]; exact hu
    have hq0 : n.natAbs / R ≠ 0 := by
      have : 1 ≤ n.natAbs / R := (Nat.le_div_iff_mul_le R_pos).mpr (by omega)
      omega
    have hn : Norm [n.natAbs % R, n.natAbs / R] := by
      rw [norm_cons_cons, norm_single]; exact hq0
    refine ⟨[n.natAbs % R, n.natAbs / R], by simp [h, toDigits_two hR hu], ⟨?_, Or.inr ⟨by simp, hn⟩⟩, ?_, fun _ => hn⟩
    · exact Digits.cons (Nat.mod_lt _ R_pos) (Digits.cons hq Digits.nil)
    · simp only [natVal_cons, natVal_nil, Nat.mul_zero, Nat.add_zero]
      exact Nat.mod_add_div _ _

/-- `xintImmedIfCan` keeps the value and produces the normal form, given digits and either at
most two places or no leading zero place. -/
theorem immedIfCan_spec (neg : Bool) {ds : List Nat} (hd : Digits ds) (hn : ds.length ≤ 2 ∨ Norm ds) :
    (xintImmedIfCan (.big neg ds)).val = (BInt.big neg ds).val ∧ WF (xintImmedIfCan (.big neg ds)) := by
  have hR := R_eq
  have hW := W_eq
  have hM := MAXI_eq
  have hm := MINI_eq
  match ds, hd, hn with
  | [], _, _ =>
    simp only [xintImmedIfCan]
    rw [intToBInt_eq (by omega) (by omega)]
    refine ⟨by cases neg <;> simp [val_big], WF_imm_of (by omega) (by omega)⟩
  | [d0], hd, _ =>
    have h0 := hd.head
    simp only [xintImmedIfCan]
    cases neg
    · simp only [Bool.false_eq_true, if_false]
      rw [if_neg (by omega), intToBInt_eq (by omega) (by omega)]
      exact ⟨by simp, WF_imm_of (by omega) (by omega)⟩
    · simp only [if_true]
      rw [if_neg (by omega), intToBInt_eq (by omega) (by omega)]
      exact ⟨by simp, WF_imm_of (by omega) (by omega)⟩
  | [d0, d1], hd, _ =>
    have h0 := hd.head
    have h1 := hd.tail.head
    have hlt : d1 * R + d0 < W := by
      have : d1 * R ≤ (R - 1) * R := Nat.mul_le_mul_right R (by omega)
      rw [W_eq_RR]
      have h3 : (R - 1) * R + R = R * R := by
        rw [Nat.sub_mul, Nat.one_mul]; exact Nat.sub_add_cancel (Nat.le_mul_of_pos_left R R_pos)
      omega
    have hv : natVal [d0, d1] = d1 * R + d0 := by simp [Nat.mul_comm]; omega
    simp only [xintImmedIfCan, Nat.mod_eq_of_lt hlt]
    generalize hu : d1 * R + d0 = u at *
    cases neg
    · simp only [Bool.false_eq_true, if_false]
      split
      · rename_i hbig
        refine ⟨rfl, WF_big.mpr ⟨hd, ?_, by rw [hv]; exact hbig⟩⟩
        rw [norm_cons_cons, norm_single]
        intro h; subst h; omega
      · rw [intToBInt_eq (by omega) (by omega)]
        exact ⟨by simp [hv], WF_imm_of (by omega) (by omega)⟩
    · simp only [if_true]
      split
      · rename_i hbig
        refine ⟨rfl, WF_big.mpr ⟨hd, ?_, by rw [hv]; omega⟩⟩
        rw [norm_cons_cons, norm_single]
        intro h; subst h; omega
      · rw [wrapL_eq (by omega) (by omega), intToBInt_eq (by omega) (by omega)]
        exact ⟨by simp [hv], WF_imm_of (by omega) (by omega)⟩
  | d0 :: d1 :: d2 :: l, hd, hn =>
    simp only [xintImmedIfCan]
    have hn : Norm (d0 :: d1 :: d2 :: l) := by
      rcases hn with h | h
      · simp at h
      · exact h
    refine ⟨trivial, WF_big.mpr ⟨hd, hn, ?_⟩⟩
    have := natVal_ge_of_norm hn (by simp)
    simp only [List.length_cons, Nat.add_sub_cancel] at this
    have h2 : R ^ 2 ≤ R ^ (l.length + 1 + 1) := Nat.pow_le_pow_right R_pos (by omega)
    have h3 : R ^ 2 = 18446744073709551616 := by rw [hR]
    omega

/-! ### negate, abs -/

theorem WF_big_sign {n1 n2 : Bool} {ds : List Nat} (h : WF (.big n1 ds)) : WF (.big n2 ds) := h

theorem bintNegate_spec {a : BInt} (h : WF a) : (bintNegate a).val = -a.val ∧ WF (bintNegate a) := by
  cases a with
  | imm v =>
    obtain ⟨h1, h2⟩ := WF_imm.mp h
    rw [MINI_eq] at h1; rw [MAXI_eq] at h2
    simp only [bintNegate]
    rw [intToBInt_eq (by omega) (by omega)]
    exact ⟨rfl, WF_imm_of (by omega) (by omega)⟩
  | big neg ds =>
    simp only [bintNegate]
    exact ⟨by cases neg <;> simp, h⟩

theorem BINT_NEGATE_eq (a : BInt) : BINT_NEGATE a = bintNegate a := by cases a <;> rfl

theorem bintNewI_spec {n : Int} (h1 : -9223372036854775808 ≤ n) (h2 : n < 9223372036854775808) :
    (bintNewI n).val = n ∧ WF (bintNewI n) := by
  have hM := MAXI_eq
  have hm := MINI_eq
  unfold bintNewI
  split
  · rename_i hi
    obtain ⟨a1, a2⟩ := (INT_IS_IMMED_iff n).mp hi
    rw [intToBInt_eq (by omega) (by omega)]
    exact ⟨rfl, WF_imm.mpr ⟨a1, a2⟩⟩
  · rename_i hi
    have hni : ¬ (MINI ≤ n ∧ n ≤ MAXI) := fun h => hi ((INT_IS_IMMED_iff n).mpr h)
    obtain ⟨ds, he, hs, hv, hnorm⟩ := xintStoreI_spec h1 h2
    rw [he]
    have hbig : MAXI < (natVal ds : Int) := by rw [hv]; omega
    refine ⟨?_, WF_big.mpr ⟨hs.1, hnorm (by omega), hbig⟩⟩
    rw [val_big, hv]
    by_cases hneg : n < 0
    · simp [hneg]; omega
    · simp [hneg]; omega

theorem bintAbs_spec {a : BInt} (h : WF a) : (bintAbs a).val = (a.val.natAbs : Int) ∧ WF (bintAbs a) := by
  cases a with
  | imm v =>
    obtain ⟨h1, h2⟩ := WF_imm.mp h
    rw [MINI_eq] at h1; rw [MAXI_eq] at h2
    simp only [bintAbs]
    split
    · have := bintNewI_spec (n := -v) (by omega) (by omega)
      exact ⟨by rw [this.1]; simp; omega, this.2⟩
    · exact ⟨by simp; omega, h⟩
  | big neg ds =>
    simp only [bintAbs]
    exact ⟨by cases neg <;> simp, h⟩

/-! ### comparison -/

theorem cmpLoop_swap (a b : List Nat) :
    cmpLoop b a = (cmpLoop a b).map (fun t => !t) ∨ (∃ t, cmpLoop a b = some t ∧ cmpLoop b a = some t ∧ False) := by
  left
  induction a generalizing b with
  | nil => cases b <;> simp [cmpLoop]
  | cons x xs ih =>
    cases b with
    | nil => simp [cmpLoop]
    | cons y ys =>
      simp only [cmpLoop]
      by_cases hxy : x = y
      · subst hxy; simp [ih]
      · have hyx : ¬ y = x := fun h => hxy h.symm
        simp only [if_neg hxy, if_neg hyx, Option.map_some]
        by_cases h : x < y
        · have h2 : ¬ y < x := by omega
          simp [h, h2]
        · have h2 : y < x := by omega
          simp [h, h2]

theorem cmpLoop_swap' (a b : List Nat) : cmpLoop b a = (cmpLoop a b).map (fun t => !t) := by
  rcases cmpLoop_swap a b with h | ⟨_, _, _, h⟩
  · exact h
  · exact h.elim

theorem bintGT_eq (a b : BInt) : bintGT a b = bintLT b a := by
  cases a with
  | imm x =>
    cases b with
    | imm y => simp [bintGT, bintLT]
    | big nb db => simp [bintGT, bintLT]
  | big na da =>
    cases b with
    | imm y => simp [bintGT, bintLT]
    | big nb db =>
      simp only [bintGT, bintLT]
      rw [cmpLoop_swap' da.reverse db.reverse]
      cases na <;> cases nb <;> simp
      · by_cases hl : da.length = db.length
        · simp [hl]; cases cmpLoop da.reverse db.reverse <;> simp
        · have : ¬ db.length = da.length := fun h => hl h.symm
          simp [hl, this]
      · by_cases hl : da.length = db.length
        · simp [hl]; cases cmpLoop da.reverse db.reverse <;> simp
        · have : ¬ db.length = da.length := fun h => hl h.symm
          simp [hl, this]

/-- magnitude comparison of two stored digit vectors (the non-negative branch of `bintLT`) -/
def magLT (da db : List Nat) : Bool :=
  if da.length != db.length then decide (da.length < db.length)
  else match cmpLoop da.reverse db.reverse with
    | some lt => lt
    | none => false

theorem magLT_iff {da db : List Nat} (ha : Digits da) (hb : Digits db) (na : Norm da) (nb : Norm db) :
    magLT da db = true ↔ natVal da < natVal db := by
  unfold magLT
  by_cases hl : da.length = db.length
  · simp only [hl, bne_self_eq_false, Bool.false_eq_true, if_false]
    have s := cmpLoop_spec (a := da.reverse) (b := db.reverse) (by simp [hl]) ha.reverse hb.reverse
    rw [natVal_eq_beVal_reverse da, natVal_eq_beVal_reverse db]
    cases hc : cmpLoop da.reverse db.reverse with
    | none => have := s.1 hc; simp [this]
    | some t =>
      cases t with
      | true => have := s.2.1 hc; simp [this]
      | false => have := s.2.2 hc; simp; omega
  · have hne : (da.length != db.length) = true := by simp [hl]
    simp only [hne, if_true, decide_eq_true_eq]
    constructor
    · intro h; exact natVal_lt_of_length_lt h ha nb
    · intro h
      by_cases h2 : da.length < db.length
      · exact h2
      · have := natVal_lt_of_length_lt (a := db) (b := da) (by omega) hb na
        omega

theorem bintLT_big_big (na nb : Bool) (da db : List Nat) :
    bintLT (.big na da) (.big nb db) =
      if na != nb then na && !nb else if na then magLT db da else magLT da db := by
  simp only [bintLT, magLT]
  by_cases hs : na = nb
  · subst hs
    simp only [bne_self_eq_false, Bool.false_eq_true, if_false]
    cases na
    · simp only [Bool.false_eq_true, if_false]
      rfl
    · simp only [if_true]
      rw [cmpLoop_swap' da.reverse db.reverse]
      by_cases hl : da.length = db.length
      · simp [hl]; cases cmpLoop da.reverse db.reverse <;> simp
      · have : ¬ db.length = da.length := fun h => hl h.symm
        simp [hl, this]
  · have : (na != nb) = true := by simp [hs]
    simp [this]

theorem bintLT_iff {a b : BInt} (ha : WF a) (hb : WF b) : bintLT a b = true ↔ a.val < b.val := by
  have hM := MAXI_eq
  have hm := MINI_eq
  cases a with
  | imm x =>
    obtain ⟨x1, x2⟩ := WF_imm.mp ha
    cases b with
    | imm y => simp [bintLT]
    | big nb db =>
      obtain ⟨_, _, hv⟩ := WF_big.mp hb
      cases nb <;> simp [bintLT] <;> omega
  | big na da =>
    obtain ⟨hda, hna, hva⟩ := WF_big.mp ha
    cases b with
    | imm y =>
      obtain ⟨y1, y2⟩ := WF_imm.mp hb
      cases na <;> simp [bintLT] <;> omega
    | big nb db =>
      obtain ⟨hdb, hnb, hvb⟩ := WF_big.mp hb
      rw [bintLT_big_big]
      cases na <;> cases nb
      · simp only [bne_self_eq_false, Bool.false_eq_true, if_false, val_big_false]
        rw [magLT_iff hda hdb hna hnb]; omega
      · simp <;> omega
      · simp <;> omega
      · simp only [bne_self_eq_false, Bool.false_eq_true, if_false, if_true, val_big_true]
        rw [magLT_iff hdb hda hnb hna]; omega

theorem bintGT_iff {a b : BInt} (ha : WF a) (hb : WF b) : bintGT a b = true ↔ b.val < a.val := by
  rw [bintGT_eq]; exact bintLT_iff hb ha

theorem bintEQ_iff {a b : BInt} (ha : WF a) (hb : WF b) : bintEQ a b = true ↔ a.val = b.val := by
  have hM := MAXI_eq
  have hm := MINI_eq
  cases a with
  | imm x =>
    obtain ⟨x1, x2⟩ := WF_imm.mp ha
    cases b with
    | imm y => simp [bintEQ]
    | big nb db =>
      obtain ⟨_, _, hv⟩ := WF_big.mp hb
      cases nb <;> simp [bintEQ] <;> omega
  | big na da =>
    obtain ⟨hda, hna, hva⟩ := WF_big.mp ha
    cases b with
    | imm y =>
      obtain ⟨y1, y2⟩ := WF_imm.mp hb
      cases na <;> simp [bintEQ] <;> omega
    | big nb db =>
      obtain ⟨hdb, hnb, hvb⟩ := WF_big.mp hb
      simp only [bintEQ]
      have key : (da = db) ↔ natVal da = natVal db := by
        constructor
        · intro h; rw [h]
        · intro h
          by_cases hl : da.length = db.length
          · exact natVal_inj_of_length hl hda hdb h
          · by_cases h2 : da.length < db.length
            · have := natVal_lt_of_length_lt h2 hda hnb; omega
            · have := natVal_lt_of_length_lt (a := db) (b := da) (by omega) hdb hna; omega
      have klen : da = db → da.length = db.length := fun h => by rw [h]
      cases na <;> cases nb
      · simp only [bne_self_eq_false, Bool.false_eq_true, if_false, val_big_false]
        by_cases hl : da.length = db.length
        · simp [hl, key]; omega
        · have : ¬ da = db := fun h => hl (klen h)
          simp [hl]
          intro h; exact this (key.mpr (by omega))
      · simp <;> omega
      · simp <;> omega
      · simp only [bne_self_eq_false, Bool.false_eq_true, if_false, val_big_true]
        by_cases hl : da.length = db.length
        · simp [hl, key]; omega
        · have : ¬ da = db := fun h => hl (klen h)
          simp [hl]
          intro h; exact this (key.mpr (by omega))

/-! ### bit length -/

/-- number of bits of `u` (0 for 0) -/
def bitLen (u : Nat) : Nat := if u = 0 then 0 else Nat.log2 u + 1

theorem lt_two_pow_iff_bitLen_le (u i : Nat) : u < 2 ^ i ↔ bitLen u ≤ i := by
  unfold bitLen
  by_cases h : u = 0
  · subst h; simp; exact Nat.pow_pos (by omega)
  · simp only [if_neg h]
    rw [← Nat.log2_lt h]; omega

theorem two_pow_le_iff_lt_bitLen (u i : Nat) : 2 ^ i ≤ u ↔ i < bitLen u := by
  have := lt_two_pow_iff_bitLen_le u i
  omega

theorem uintLengthLoop_spec (u : Nat) (hu : u < 2 ^ 64) :
    ∀ (f i : Nat), i + f = 65 → 1 ≤ i → (i = 1 ∨ 2 ^ (i - 1) ≤ u) →
      uintLengthLoop f i (2 ^ i % W) u = max 1 (bitLen u) := by
  intro f
  induction f with
  | zero =>
    intro i hi _ h
    have : i = 65 := by omega
    subst this
    rcases h with h | h
    · omega
    · have : (2:Nat) ^ 64 ≤ u := h
      omega
  | succ f ih =>
    intro i hi h1 h
    simp only [uintLengthLoop]
    have hlow : i ≤ max 1 (bitLen u) := by
      rcases h with h | h
      · omega
      · have := (two_pow_le_iff_lt_bitLen u (i - 1)).mp h; omega
    by_cases h64 : i = 64
    · subst h64
      have hp : 2 ^ 64 % W = 0 := by rw [W_eq]
      simp only [hp, true_or, if_true]
      have := (lt_two_pow_iff_bitLen_le u 64).mp hu
      omega
    · have hi64 : i < 64 := by omega
      have hp : 2 ^ i % W = 2 ^ i := by
        apply Nat.mod_eq_of_lt
        have : (2:Nat) ^ i < 2 ^ 64 := Nat.pow_lt_pow_right (by omega) hi64
        rw [W_eq]; exact this
      have hpp : 0 < 2 ^ i := Nat.pow_pos (by omega)
      rw [hp]
      by_cases hlt : u < 2 ^ i
      · have : ¬ (2 ^ i = 0) := by omega
        simp only [this, false_or, hlt, if_true]
        have := (lt_two_pow_iff_bitLen_le u i).mp hlt
        omega
      · have : ¬ (2 ^ i = 0 ∨ u < 2 ^ i) := by omega
        simp only [this, if_false]
        have h2 : (2 ^ i * 2) % W = 2 ^ (i + 1) % W := by rw [Nat.pow_succ]
        rw [h2]
        exact ih (i + 1) (by omega) (by omega) (Or.inr (by simpa using Nat.le_of_not_lt hlt))

theorem uintLength_spec {u : Nat} (hu : u < 2 ^ 64) : uintLength u = max 1 (bitLen u) := by
  unfold uintLength
  have := uintLengthLoop_spec u hu 64 1 (by omega) (by omega) (Or.inl rfl)
  have h2 : (2:Nat) ^ 1 % W = 2 := by rw [W_eq]
  rw [h2] at this; exact this

theorem uintLength_digit {d : Nat} (hd : d < R) : 1 ≤ uintLength d ∧ uintLength d ≤ 32 := by
  have h64 : d < 2 ^ 64 := by rw [R_eq] at hd; omega
  rw [uintLength_spec h64]
  have : d < 2 ^ 32 := by rw [R_eq] at hd; omega
  have := (lt_two_pow_iff_bitLen_le d 32).mp this
  omega

theorem getLastD_lt' {ds : List Nat} (h : Digits ds) : ∀ x, x < R → ds.getLastD x < R := by
  induction ds with
  | nil => intro x hx; exact hx
  | cons d l ih =>
    intro x _
    rw [List.getLastD_cons]
    exact ih h.tail d h.head

theorem getLastD_lt {ds : List Nat} (h : Digits ds) : ds.getLastD 0 < R := getLastD_lt' h 0 R_pos

/-! ### iintPlus -/

theorem norm_cons {x : Nat} {l : List Nat} (hl : l ≠ []) (h : Norm l) : Norm (x :: l) := by
  cases l with
  | nil => exact absurd rfl hl
  | cons b t => exact (norm_cons_cons x b t).mpr h

theorem len_pos {l : List Nat} (h : l ≠ []) : 0 < l.length := by
  cases l with
  | nil => exact absurd rfl h
  | cons _ _ => simp

theorem ne_nil_of_length_pos {l : List Nat} (h : 0 < l.length) : l ≠ [] := by
  intro h0; rw [h0] at h; simp at h

theorem plusStep_spec {a b k : Nat} (ha : a < R) (hb : b < R) (hk : k ≤ 1) :
    (plusStep a b k).2 + R * (plusStep a b k).1 = a + b + k ∧ (plusStep a b k).2 < R ∧
      (plusStep a b k).1 ≤ 1 := by
  unfold plusStep
  simp only
  split <;> simp <;> omega

theorem iintPlusCarry_spec {as : List Nat} (hd : Digits as) : ∀ {k : Nat}, k ≤ 1 →
    natVal (iintPlusCarry as k) = natVal as + k ∧ Digits (iintPlusCarry as k) ∧
    as.length ≤ (iintPlusCarry as k).length ∧ (iintPlusCarry as k).length ≤ as.length + 1 ∧
    (Norm as → Norm (iintPlusCarry as k)) := by
  induction as with
  | nil =>
    intro k hk
    simp only [iintPlusCarry]
    split
    · have : k = 1 := by omega
      subst this
      refine ⟨by simp, Digits.cons (by rw [R_eq]; omega) Digits.nil, by simp, by simp, fun _ => (norm_single 1).mpr (by omega)⟩
    · have : k = 0 := by omega
      subst this
      exact ⟨rfl, Digits.nil, by simp, by simp, fun h => h⟩
  | cons a as ih =>
    intro k hk
    simp only [iintPlusCarry]
    split
    · have hk1 : k = 1 := by omega
      subst hk1
      obtain ⟨e, hlt, hk'⟩ := plusStep_spec hd.head R_pos (Nat.le_refl 1)
      obtain ⟨v, dg, l1, l2, nm⟩ := ih hd.tail hk'
      refine ⟨?_, Digits.cons hlt dg, by simp; omega, by simp; omega, fun hn => ?_⟩
      · simp only [natVal_cons, v]
        rw [Nat.mul_add]; omega
      · cases has : as with
        | nil =>
          subst has
          have ha0 := (norm_single a).mp hn
          simp only [iintPlusCarry]
          split
          · exact norm_cons (by simp) ((norm_single _).mpr (by assumption))
          · rename_i hk0
            have hk0 : (plusStep a 0 1).1 = 0 := by omega
            rw [hk0] at e
            exact (norm_single _).mpr (by omega)
        | cons b t =>
          rw [← has]
          have hne : as ≠ [] := by rw [has]; simp
          exact norm_cons (ne_nil_of_length_pos (by have := len_pos hne; omega)) (nm (norm_tail hn hne))
    · have hk0 : k = 0 := by omega
      subst hk0
      exact ⟨by simp, hd, Nat.le_refl _, by omega, fun h => h⟩

theorem iintPlusLoop_spec {a : List Nat} (ha : Digits a) : ∀ {b : List Nat} {k : Nat}, Digits b →
    b.length ≤ a.length → k ≤ 1 →
    natVal (iintPlusLoop a b k) = natVal a + natVal b + k ∧ Digits (iintPlusLoop a b k) ∧
    a.length ≤ (iintPlusLoop a b k).length ∧ (iintPlusLoop a b k).length ≤ a.length + 1 ∧
    (Norm a → Norm (iintPlusLoop a b k)) := by
  induction a with
  | nil =>
    intro b k hb hl hk
    cases b with
    | nil =>
      have := iintPlusCarry_spec Digits.nil hk
      simpa [iintPlusLoop] using this
    | cons y ys => simp at hl
  | cons x xs ih =>
    intro b k hb hl hk
    cases b with
    | nil =>
      have := iintPlusCarry_spec ha hk
      simpa [iintPlusLoop] using this
    | cons y ys =>
      simp only [List.length_cons, Nat.add_le_add_iff_right] at hl
      simp only [iintPlusLoop]
      obtain ⟨e, hlt, hk'⟩ := plusStep_spec ha.head hb.head hk
      obtain ⟨v, dg, l1, l2, nm⟩ := ih ha.tail hb.tail hl hk'
      refine ⟨?_, Digits.cons hlt dg, by simp; omega, by simp; omega, fun hn => ?_⟩
      · simp only [natVal_cons, v]
        rw [Nat.mul_add, Nat.mul_add]; omega
      · cases hxs : xs with
        | nil =>
          subst hxs
          have hys : ys = [] := by
            cases ys with
            | nil => rfl
            | cons _ _ => simp at hl
          subst hys
          have hx0 := (norm_single x).mp hn
          simp only [iintPlusLoop, iintPlusCarry]
          split
          · exact norm_cons (by simp) ((norm_single _).mpr (by assumption))
          · rename_i hk0
            have hk0 : (plusStep x y k).1 = 0 := by omega
            rw [hk0] at e
            exact (norm_single _).mpr (by omega)
        | cons b t =>
          rw [← hxs]
          have hne : xs ≠ [] := by rw [hxs]; simp
          exact norm_cons (ne_nil_of_length_pos (by have := len_pos hne; omega)) (nm (norm_tail hn hne))

theorem lengthBig_le {a b : List Nat} (ha : Digits a) (hb : Digits b) (hna : a ≠ []) (hnb : b ≠ [])
    (h : ¬ lengthBig a < lengthBig b) : b.length ≤ a.length := by
  unfold lengthBig at h
  have h1 := uintLength_digit (getLastD_lt ha)
  have h2 := uintLength_digit (getLastD_lt hb)
  have := len_pos hna
  have := len_pos hnb
  simp only [LG] at h
  omega

/-- result of an `iint` routine handed to `xintImmedIfCan`: digits, and normalised unless short -/
theorem plusGen_spec {a b : List Nat} (ha : Stored a) (hb : Stored b) :
    (plusGen a b).val = (natVal a : Int) + natVal b ∧ WF (plusGen a b) := by
  unfold plusGen
  -- order the operands
  have key : ∀ {x y : List Nat}, Stored x → Stored y → y.length ≤ x.length →
      (xintImmedIfCan (.big false (iintPlus x y))).val = (natVal x : Int) + natVal y ∧
      WF (xintImmedIfCan (.big false (iintPlus x y))) := by
    intro x y hx hy hl
    have hdef : iintPlus x y = iintPlusLoop x y 0 := rfl
    rw [hdef]
    obtain ⟨v, dg, l1, l2, nm⟩ := iintPlusLoop_spec hx.1 hy.1 hl (Nat.zero_le 1)
    have hn : (iintPlusLoop x y 0).length ≤ 2 ∨ Norm (iintPlusLoop x y 0) := by
      rcases hx.2 with h0 | ⟨_, hnx⟩
      · left; subst h0; simpa using l2
      · right; exact nm hnx
    obtain ⟨e, w⟩ := immedIfCan_spec false dg hn
    refine ⟨?_, w⟩
    rw [e, val_big_false, v]; omega
  split
  · rename_i x y hxy
    split at hxy
    · rename_i hlt
      simp only [Prod.mk.injEq] at hxy
      obtain ⟨rfl, rfl⟩ := hxy
      have := key hb ha (lengthBig_le hb.1 ha.1 hb.ne_nil ha.ne_nil (by omega))
      rw [this.1]; exact ⟨by omega, this.2⟩
    · rename_i hlt
      simp only [Prod.mk.injEq] at hxy
      obtain ⟨rfl, rfl⟩ := hxy
      exact key ha hb (lengthBig_le ha.1 hb.1 ha.ne_nil hb.ne_nil hlt)

/-! ### iintMinus -/

theorem minusStep_spec {a b k : Nat} (ha : a < R) (hb : b < R) (hk : k ≤ 1) :
    (minusStep a b k).2 + R * (minusStep a b k).1 + b + 1 = a + R + k ∧ (minusStep a b k).2 < R ∧
      (minusStep a b k).1 ≤ 1 := by
  unfold minusStep plusStep
  simp only
  split <;> simp <;> omega

theorem iintMinusBorrow_spec {as : List Nat} (hd : Digits as) : ∀ {k : Nat}, k ≤ 1 →
    (∃ kf, kf ≤ 1 ∧ natVal (iintMinusBorrow as k) + 1 + R ^ as.length * kf = natVal as + k + R ^ as.length) ∧
    Digits (iintMinusBorrow as k) ∧ (iintMinusBorrow as k).length = as.length := by
  induction as with
  | nil =>
    intro k hk
    simp only [iintMinusBorrow]
    exact ⟨⟨k, hk, by simp; omega⟩, Digits.nil, by first | rfl | trivial⟩
  | cons a as ih =>
    intro k hk
    simp only [iintMinusBorrow]
    split
    · rename_i hk0
      subst hk0
      obtain ⟨e, hlt, hk'⟩ := minusStep_spec hd.head R_pos (Nat.zero_le 1)
      obtain ⟨⟨kf, hkf, v⟩, dg, len⟩ := ih hd.tail hk'
      refine ⟨⟨kf, hkf, ?_⟩, Digits.cons hlt dg, by simp [len]⟩
      simp only [natVal_cons, List.length_cons, Nat.pow_succ]
      have v' := congrArg (R * ·) v
      simp only [Nat.mul_add, Nat.mul_one] at v'
      rw [Nat.mul_comm (R ^ as.length) R, Nat.mul_assoc]
      omega
    · have : k = 1 := by omega
      subst this
      exact ⟨⟨1, Nat.le_refl 1, by omega⟩, hd, rfl⟩

theorem iintMinusLoop_spec {a : List Nat} (ha : Digits a) : ∀ {b : List Nat} {k : Nat}, Digits b →
    b.length ≤ a.length → k ≤ 1 →
    (∃ kf, kf ≤ 1 ∧ natVal (iintMinusLoop a b k) + natVal b + 1 + R ^ a.length * kf
        = natVal a + k + R ^ a.length) ∧
    Digits (iintMinusLoop a b k) ∧ (iintMinusLoop a b k).length = a.length := by
  induction a with
  | nil =>
    intro b k hb hl hk
    cases b with
    | nil =>
      have := iintMinusBorrow_spec Digits.nil hk
      simpa [iintMinusLoop] using this
    | cons y ys => simp at hl
  | cons x xs ih =>
    intro b k hb hl hk
    cases b with
    | nil =>
      have := iintMinusBorrow_spec ha hk
      simpa [iintMinusLoop] using this
    | cons y ys =>
      simp only [List.length_cons, Nat.add_le_add_iff_right] at hl
      simp only [iintMinusLoop]
      obtain ⟨e, hlt, hk'⟩ := minusStep_spec ha.head hb.head hk
      obtain ⟨⟨kf, hkf, v⟩, dg, len⟩ := ih ha.tail hb.tail hl hk'
      refine ⟨⟨kf, hkf, ?_⟩, Digits.cons hlt dg, by simp [len]⟩
      simp only [natVal_cons, List.length_cons, Nat.pow_succ]
      have v' := congrArg (R * ·) v
      simp only [Nat.mul_add, Nat.mul_one] at v'
      rw [Nat.mul_comm (R ^ xs.length) R, Nat.mul_assoc]
      omega

theorem iintMinus_spec {a b : List Nat} (ha : Digits a) (hb : Digits b) (hl : b.length ≤ a.length)
    (hge : natVal b ≤ natVal a) :
    natVal (iintMinus a b) = natVal a - natVal b ∧ Digits (iintMinus a b) ∧ Norm (iintMinus a b) := by
  unfold iintMinus
  obtain ⟨⟨kf, hkf, v⟩, dg, len⟩ := iintMinusLoop_spec ha hb hl (Nat.le_refl 1)
  refine ⟨?_, stripTop_digits dg, stripTop_norm _⟩
  rw [stripTop_val]
  have hlt := natVal_lt dg
  rw [len] at hlt
  have : kf = 1 := by
    rcases Nat.lt_or_ge kf 1 with h | h
    · have : kf = 0 := by omega
      subst this
      simp at v; omega
    · omega
  subst this
  simp at v; omega

theorem magLT_iff_stored {da db : List Nat} (ha : Stored da) (hb : Stored db) :
    magLT da db = true ↔ natVal da < natVal db := by
  by_cases hl : da.length = db.length
  · unfold magLT
    simp only [hl, bne_self_eq_false, Bool.false_eq_true, if_false]
    have s := cmpLoop_spec (a := da.reverse) (b := db.reverse) (by simp [hl]) ha.1.reverse hb.1.reverse
    rw [natVal_eq_beVal_reverse da, natVal_eq_beVal_reverse db]
    cases hc : cmpLoop da.reverse db.reverse with
    | none => have := s.1 hc; simp [this]
    | some t =>
      cases t with
      | true => have := s.2.1 hc; simp [this]
      | false => have := s.2.2 hc; simp; omega
  · have pa := len_pos ha.ne_nil
    have pb := len_pos hb.ne_nil
    have normOfLong : ∀ {x : List Nat}, Stored x → 2 ≤ x.length → Norm x := by
      intro x hx h2
      rcases hx.2 with h0 | ⟨_, hn⟩
      · subst h0; simp at h2
      · exact hn
    unfold magLT
    have hne : (da.length != db.length) = true := by simp [hl]
    simp only [hne, if_true, decide_eq_true_eq]
    constructor
    · intro h; exact natVal_lt_of_length_lt h ha.1 (normOfLong hb (by omega))
    · intro h
      by_cases h2 : da.length < db.length
      · exact h2
      · have := natVal_lt_of_length_lt (a := db) (b := da) (by omega) hb.1 (normOfLong ha (by omega))
        omega

theorem stored_length_le {x y : List Nat} (hx : Stored x) (hy : Stored y) (h : natVal y ≤ natVal x) :
    y.length ≤ x.length := by
  by_cases hl : y.length ≤ x.length
  · exact hl
  · have pa := len_pos hx.ne_nil
    have hn : Norm y := by
      rcases hy.2 with h0 | ⟨_, hn⟩
      · subst h0; simp only [List.length_cons, List.length_nil] at hl; omega
      · exact hn
    have := natVal_lt_of_length_lt (a := x) (b := y) (by omega) hx.1 hn
    omega

theorem minusGen_spec {a b : List Nat} (ha : Stored a) (hb : Stored b) :
    (minusGen a b).val = (natVal a : Int) - natVal b ∧ WF (minusGen a b) := by
  unfold minusGen
  have hlt : bintLT (.big false a) (.big false b) = magLT a b := by
    rw [bintLT_big_big]; simp
  rw [hlt]
  have hiff := magLT_iff_stored ha hb
  cases hm : magLT a b with
  | true =>
    have hab : natVal a < natVal b := hiff.mp hm
    simp only [if_true]
    obtain ⟨v, dg, nm⟩ := iintMinus_spec hb.1 ha.1 (stored_length_le hb ha (by omega)) (by omega)
    obtain ⟨e, w⟩ := immedIfCan_spec true dg (Or.inr nm)
    refine ⟨?_, w⟩
    rw [e, val_big_true, v]; omega
  | false =>
    have hab : ¬ natVal a < natVal b := fun h => by rw [hiff.mpr h] at hm; cases hm
    simp only [Bool.false_eq_true, if_false]
    obtain ⟨v, dg, nm⟩ := iintMinus_spec ha.1 hb.1 (stored_length_le ha hb (by omega)) (by omega)
    obtain ⟨e, w⟩ := immedIfCan_spec false dg (Or.inr nm)
    refine ⟨?_, w⟩
    rw [e, val_big_false, v]; omega

/-! ### bintPlus, bintMinus -/

theorem xintStore_spec {a : BInt} (h : WF a) :
    ∃ neg ds, xintStore a = .big neg ds ∧ Stored ds ∧
      a.val = (if neg then -(natVal ds : Int) else (natVal ds : Int)) := by
  cases a with
  | imm v =>
    obtain ⟨h1, h2⟩ := WF_imm.mp h
    rw [MINI_eq] at h1; rw [MAXI_eq] at h2
    obtain ⟨ds, he, hs, hv, _⟩ := xintStoreI_spec (n := v) (by omega) (by omega)
    refine ⟨decide (v < 0), ds, he, hs, ?_⟩
    rw [hv]
    by_cases hneg : v < 0
    · simp [hneg]; omega
    · simp [hneg]; omega
  | big neg ds => exact ⟨neg, ds, rfl, Stored.of_WF h, rfl⟩

theorem bintPlus_spec {a b : BInt} (ha : WF a) (hb : WF b) :
    (bintPlus a b).val = a.val + b.val ∧ WF (bintPlus a b) := by
  have hM := MAXI_eq
  have hm := MINI_eq
  have hR := R_eq
  unfold bintPlus
  -- the fast path
  have hfast : ∀ r, plusFast a b = some r → r.val = a.val + b.val ∧ WF r := by
    intro r hr
    cases a with
    | big _ _ => simp [plusFast] at hr
    | imm ai =>
      cases b with
      | big _ _ => simp [plusFast] at hr
      | imm bi =>
        simp only [plusFast] at hr
        obtain ⟨a1, a2⟩ := WF_imm.mp ha
        obtain ⟨b1, b2⟩ := WF_imm.mp hb
        split at hr
        · rename_i hc
          simp only [Option.some.injEq] at hr
          subst hr
          unfold plusStepL at hc ⊢
          simp only at hc ⊢
          by_cases hs : 0 ≤ ai + bi
          · rw [uw_eq hs (by omega)] at hc ⊢
            split at hc
            · simp at hc
            · rename_i hlt
              have hlt' : ai + bi < 4294967296 := by omega
              have e1 : (((ai + bi).toNat : Nat) : Int) = ai + bi := by omega
              simp only [if_neg hlt, e1]
              rw [wrapL_eq (by omega) (by omega), intToBInt_eq (by omega) (by omega)]
              exact ⟨rfl, WF_imm_of (by omega) (by omega)⟩
          · exfalso
            have : uw (ai + bi) ≥ R := by
              unfold uw; rw [W_eq]; omega
            simp [this] at hc
        · simp at hr
  split
  · rename_i r hr
    exact hfast r hr
  · obtain ⟨na, da, ea, sa, va⟩ := xintStore_spec ha
    obtain ⟨nb, db, eb, sb, vb⟩ := xintStore_spec hb
    simp only [ea, eb, bintIsNeg, digitsOf]
    have pg := plusGen_spec sa sb
    cases na <;> cases nb <;> simp only [Bool.and_self, Bool.and_true, Bool.and_false, Bool.false_eq_true, if_true, if_false] at va vb ⊢
    · rw [va, vb]; exact pg
    · have mg := minusGen_spec sa sb
      rw [va, vb]; exact ⟨by rw [mg.1]; omega, mg.2⟩
    · have mg := minusGen_spec sb sa
      rw [va, vb]; exact ⟨by rw [mg.1]; omega, mg.2⟩
    · rw [BINT_NEGATE_eq]
      have ng := bintNegate_spec pg.2
      rw [va, vb]; exact ⟨by rw [ng.1, pg.1]; omega, ng.2⟩

theorem bintMinus_spec {a b : BInt} (ha : WF a) (hb : WF b) :
    (bintMinus a b).val = a.val - b.val ∧ WF (bintMinus a b) := by
  have hM := MAXI_eq
  have hm := MINI_eq
  unfold bintMinus
  have hfast : ∀ r, minusFast a b = some r → r.val = a.val - b.val ∧ WF r := by
    intro r hr
    cases a with
    | big _ _ => simp [minusFast] at hr
    | imm ai =>
      cases b with
      | big _ _ => simp [minusFast] at hr
      | imm bi =>
        simp only [minusFast] at hr
        obtain ⟨a1, a2⟩ := WF_imm.mp ha
        obtain ⟨b1, b2⟩ := WF_imm.mp hb
        rw [wrapL_eq (by omega) (by omega)] at hr
        split at hr
        · rename_i hc
          obtain ⟨c1, c2⟩ := (INT_IS_IMMED_iff _).mp hc
          simp only [Option.some.injEq] at hr
          subst hr
          rw [intToBInt_eq (by omega) (by omega)]
          exact ⟨rfl, WF_imm.mpr ⟨c1, c2⟩⟩
        · simp at hr
  split
  · rename_i r hr
    exact hfast r hr
  · obtain ⟨na, da, ea, sa, va⟩ := xintStore_spec ha
    obtain ⟨nb, db, eb, sb, vb⟩ := xintStore_spec hb
    simp only [ea, eb, bintIsNeg, digitsOf]
    cases na <;> cases nb <;> simp only [Bool.and_self, Bool.and_true, Bool.and_false, Bool.false_eq_true, if_true, if_false] at va vb ⊢
    · have mg := minusGen_spec sa sb
      rw [va, vb]; exact mg
    · have pg := plusGen_spec sa sb
      rw [va, vb]; exact ⟨by rw [pg.1]; omega, pg.2⟩
    · have pg := plusGen_spec sa sb
      rw [BINT_NEGATE_eq]
      have ng := bintNegate_spec pg.2
      rw [va, vb]; exact ⟨by rw [ng.1, pg.1]; omega, ng.2⟩
    · have mg := minusGen_spec sb sa
      rw [va, vb]; exact ⟨by rw [mg.1]; omega, mg.2⟩

/-! ### iintTimes -/

theorem digit_mul_lt {a b c k : Nat} (ha : a < R) (hb : b < R) (hc : c < R) (hk : k < R) :
    a * b + c + k < R * R := by
  have h1 : a * b ≤ (R - 1) * (R - 1) := Nat.mul_le_mul (by omega) (by omega)
  have hR := R_eq
  rw [hR] at h1 ⊢
  omega

theorem timesStep_spec {a b c k : Nat} (ha : a < R) (hb : b < R) (hc : c < R) (hk : k < R) :
    (timesStep a b c k).2 + R * (timesStep a b c k).1 = a * b + c + k ∧ (timesStep a b c k).2 < R ∧
      (timesStep a b c k).1 < R := by
  unfold timesStep
  simp only
  refine ⟨Nat.mod_add_div _ _, Nat.mod_lt _ R_pos, ?_⟩
  exact Nat.div_lt_of_lt_mul (digit_mul_lt ha hb hc hk)

theorem headD_tail_natVal (rs : List Nat) : rs.headD 0 + R * natVal rs.tail = natVal rs := by
  cases rs <;> simp

theorem headD_lt {rs : List Nat} (h : Digits rs) : rs.headD 0 < R := by
  cases rs with
  | nil => exact R_pos
  | cons r _ => exact h.head

theorem tail_digits {rs : List Nat} (h : Digits rs) : Digits rs.tail := by
  cases rs with
  | nil => exact h
  | cons _ _ => exact h.tail

theorem timesRow_spec {bj : Nat} (hb : bj < R) {as : List Nat} (ha : Digits as) :
    ∀ {rs : List Nat} {k : Nat}, Digits rs → rs.length ≤ as.length → k < R →
      natVal (timesRow bj as rs k) = natVal as * bj + natVal rs + k ∧
      (timesRow bj as rs k).length = as.length + 1 ∧ Digits (timesRow bj as rs k) := by
  induction as with
  | nil =>
    intro rs k hr hl hk
    have : rs = [] := by cases rs with
      | nil => rfl
      | cons _ _ => simp at hl
    subst this
    simp only [timesRow]
    exact ⟨by simp, rfl, Digits.cons hk Digits.nil⟩
  | cons a as ih =>
    intro rs k hr hl hk
    simp only [timesRow]
    obtain ⟨e, h2, h1⟩ := timesStep_spec ha.head hb (headD_lt hr) hk
    have hlt : rs.tail.length ≤ as.length := by
      cases rs with
      | nil => simp
      | cons _ _ => simpa using hl
    obtain ⟨v, len, dg⟩ := ih ha.tail (tail_digits hr) hlt h1
    refine ⟨?_, by rw [List.length_cons, len, List.length_cons], Digits.cons h2 dg⟩
    simp only [natVal_cons, v]
    have ht := headD_tail_natVal rs
    generalize (timesStep a bj (rs.headD 0) k).2 = s at *
    generalize (timesStep a bj (rs.headD 0) k).1 = c at *
    generalize rs.headD 0 = r0 at *
    generalize natVal rs.tail = T at *
    generalize natVal as = A at *
    rw [← ht]
    rw [Nat.add_mul, Nat.mul_add, Nat.mul_add, Nat.mul_assoc]
    omega

theorem headD_cons_tail {l : List Nat} (h : l ≠ []) : l.headD 0 :: l.tail = l := by
  cases l with
  | nil => exact absurd rfl h
  | cons _ _ => rfl

theorem iintTimesLoop_spec {as : List Nat} (ha : Digits as) :
    ∀ {bs rw : List Nat}, Digits bs → Digits rw → rw.length = as.length →
      natVal (iintTimesLoop as bs rw) = natVal as * natVal bs + natVal rw ∧ Digits (iintTimesLoop as bs rw) := by
  intro bs
  induction bs with
  | nil =>
    intro rw _ hr _
    simp [iintTimesLoop, hr]
  | cons bj bs ih =>
    intro rw hb hr hl
    simp only [iintTimesLoop]
    -- the row
    have hrow : ∃ row, (if bj ≠ 0 then timesRow bj as rw 0 else rw ++ [0]) = row ∧
        natVal row = natVal as * bj + natVal rw ∧ row.length = as.length + 1 ∧ Digits row := by
      by_cases h0 : bj = 0
      · subst h0
        refine ⟨rw ++ [0], by simp, ?_, by simp [hl], Digits.append hr (Digits.cons R_pos Digits.nil)⟩
        rw [natVal_append]; simp
      · obtain ⟨v, len, dg⟩ := timesRow_spec hb.head ha hr (Nat.le_of_eq hl) R_pos
        exact ⟨_, by simp [h0], by simpa using v, len, dg⟩
    obtain ⟨row, hrw, v, len, dg⟩ := hrow
    rw [hrw]
    have hne : row ≠ [] := ne_nil_of_length_pos (by omega)
    have hsplit := headD_cons_tail hne
    have dgt : Digits row.tail := tail_digits dg
    have lent : row.tail.length = as.length := by simp [len]
    obtain ⟨v2, dg2⟩ := ih hb.tail dgt lent
    refine ⟨?_, Digits.cons (headD_lt dg) dg2⟩
    simp only [natVal_cons, v2]
    have ht := headD_tail_natVal row
    rw [Nat.mul_add, Nat.mul_add, ← Nat.mul_assoc, Nat.mul_comm R (natVal as), Nat.mul_assoc]
    omega

theorem iintTimes_spec {a b : List Nat} (ha : Digits a) (hb : Digits b) :
    natVal (iintTimes a b) = natVal a * natVal b ∧ Digits (iintTimes a b) ∧ Norm (iintTimes a b) := by
  unfold iintTimes
  have key : ∀ {x y : List Nat}, Digits x → Digits y →
      natVal (stripTop (iintTimesLoop x y (List.replicate x.length 0))) = natVal x * natVal y ∧
      Digits (stripTop (iintTimesLoop x y (List.replicate x.length 0))) ∧
      Norm (stripTop (iintTimesLoop x y (List.replicate x.length 0))) := by
    intro x y hx hy
    have hz : Digits (List.replicate x.length 0) := by
      intro d hd; rw [(List.mem_replicate.mp hd).2]; exact R_pos
    obtain ⟨v, dg⟩ := iintTimesLoop_spec hx hy hz (by simp)
    refine ⟨?_, stripTop_digits dg, stripTop_norm _⟩
    rw [stripTop_val, v, natVal_replicate_zero]; omega
  split
  · rename_i x y hxy
    split at hxy
    · simp only [Prod.mk.injEq] at hxy
      obtain ⟨rfl, rfl⟩ := hxy
      have := key hb ha
      rw [Nat.mul_comm]; exact this
    · simp only [Prod.mk.injEq] at hxy
      obtain ⟨rfl, rfl⟩ := hxy
      exact key ha hb

theorem timesGen_spec {a b : List Nat} (ha : Digits a) (hb : Digits b) :
    (timesGen a b).val = (natVal a : Int) * natVal b ∧ WF (timesGen a b) := by
  unfold timesGen
  obtain ⟨v, dg, nm⟩ := iintTimes_spec ha hb
  obtain ⟨e, w⟩ := immedIfCan_spec false dg (Or.inr nm)
  refine ⟨?_, w⟩
  rw [e, val_big_false, v]; simp

theorem half_mul_bound {x y : Int} (hx1 : -2147483647 ≤ x) (hx2 : x ≤ 2147483647)
    (hy1 : -2147483647 ≤ y) (hy2 : y ≤ 2147483647) :
    -4611686014132420609 ≤ x * y ∧ x * y ≤ 4611686014132420609 := by
  have h1 := Int.natAbs_mul x y
  have h2 : x.natAbs * y.natAbs ≤ 2147483647 * 2147483647 := Nat.mul_le_mul (by omega) (by omega)
  omega

theorem bintTimes_spec {a b : BInt} (ha : WF a) (hb : WF b) :
    (bintTimes a b).val = a.val * b.val ∧ WF (bintTimes a b) := by
  have hM := MAXI_eq
  have hm := MINI_eq
  have hH := MAXH_eq
  unfold bintTimes
  have hhalf : ∀ r, timesHalf a b = some r → r.val = a.val * b.val ∧ WF r := by
    intro r hr
    cases a with
    | big _ _ => simp [timesHalf] at hr
    | imm ai =>
      cases b with
      | big _ _ => simp [timesHalf] at hr
      | imm bi =>
        simp only [timesHalf] at hr
        split at hr
        · rename_i hc
          simp only [Bool.and_eq_true] at hc
          obtain ⟨c1, c2⟩ := hc
          obtain ⟨x1, x2⟩ := (INT_IS_HALF_iff _).mp c1
          obtain ⟨y1, y2⟩ := (INT_IS_HALF_iff _).mp c2
          have hb := half_mul_bound (x := ai) (y := bi) (by omega) (by omega) (by omega) (by omega)
          simp only [Option.some.injEq] at hr
          subst hr
          rw [wrapL_eq (by omega) (by omega)]
          exact bintNewI_spec (by omega) (by omega)
        · simp at hr
  have hunit : ∀ {x y : BInt}, WF x → WF y → ∀ r, timesUnit x y = some r → r.val = x.val * y.val ∧ WF r := by
    intro x y hx hy r hr
    cases x with
    | big _ _ => simp [timesUnit] at hr
    | imm xi =>
      simp only [timesUnit] at hr
      split at hr
      · rename_i h0
        simp only [Option.some.injEq] at hr
        subst hr; subst h0
        rw [intToBInt_eq (by omega) (by omega)]
        exact ⟨by simp, WF_imm_of (by omega) (by omega)⟩
      · split at hr
        · rename_i h1
          simp only [Option.some.injEq] at hr
          subst hr; subst h1
          exact ⟨by simp [bintCopy], hy⟩
        · split at hr
          · rename_i h1
            simp only [Option.some.injEq] at hr
            subst hr; subst h1
            have := bintNegate_spec hy
            exact ⟨by rw [this.1]; simp, this.2⟩
          · simp at hr
  split
  · rename_i r hr; exact hhalf r hr
  · split
    · rename_i r hr; exact hunit ha hb r hr
    · split
      · rename_i r hr
        have := hunit hb ha r hr
        exact ⟨by rw [this.1, Int.mul_comm], this.2⟩
      · obtain ⟨na, da, ea, sa, va⟩ := xintStore_spec ha
        obtain ⟨nb, db, eb, sb, vb⟩ := xintStore_spec hb
        simp only [ea, eb, bintIsNeg, digitsOf]
        have tg := timesGen_spec sa.1 sb.1
        have ng := bintNegate_spec tg.2
        cases na <;> cases nb <;> simp only [Bool.and_self, Bool.and_true, Bool.and_false, Bool.false_eq_true, if_true, if_false] at va vb ⊢
        · rw [va, vb]; exact tg
        · rw [BINT_NEGATE_eq, va, vb]; exact ⟨by rw [ng.1, tg.1]; simp [Int.mul_neg], ng.2⟩
        · rw [BINT_NEGATE_eq, va, vb]; exact ⟨by rw [ng.1, tg.1]; simp [Int.neg_mul], ng.2⟩
        · rw [va, vb]; exact ⟨by rw [tg.1, Int.neg_mul_neg], tg.2⟩

/-! ### bits -/

theorem natVal_testBit {ds : List Nat} (hd : Digits ds) : ∀ i : Nat,
    (natVal ds).testBit i = (decide (i / 32 < ds.length) && (ds.getD (i / 32) 0).testBit (i % 32)) := by
  induction ds with
  | nil => intro i; simp
  | cons d ds ih =>
    intro i
    have hlt : d < 2 ^ 32 := by have := hd.head; rw [R_eq] at this; omega
    have e : natVal (d :: ds) = 2 ^ 32 * natVal ds + d := by
      simp only [natVal_cons, R_eq]; omega
    rw [e, Nat.testBit_two_pow_mul_add _ hlt]
    by_cases h : i < 32
    · have h1 : i / 32 = 0 := by omega
      have h2 : i % 32 = i := by omega
      simp [h, h1, h2]
    · have h1 : i / 32 = (i - 32) / 32 + 1 := by omega
      have h2 : i % 32 = (i - 32) % 32 := by omega
      rw [if_neg h, ih hd.tail, h1, h2]
      simp

theorem testBit_ge_of_lt {u n : Nat} (h : u < 2 ^ n) {i : Nat} (hi : n ≤ i) : u.testBit i = false := by
  apply Nat.testBit_lt_two_pow
  have : (2:Nat) ^ n ≤ 2 ^ i := Nat.pow_le_pow_right (by omega) hi
  omega

theorem bintBit_spec {a : BInt} (h : WF a) (i : Nat) : bintBit a i = a.val.natAbs.testBit i := by
  cases a with
  | imm v =>
    obtain ⟨h1, h2⟩ := WF_imm.mp h
    rw [MINI_eq] at h1; rw [MAXI_eq] at h2
    simp only [bintBit, intBit, uintBit, val_imm]
    rw [absL_eq (by omega) (by omega)]
    by_cases hi : i < 64
    · simp [hi]
    · have : v.natAbs < 2 ^ 64 := by omega
      simp [hi, testBit_ge_of_lt this (by omega : 64 ≤ i)]
  | big neg ds =>
    obtain ⟨hd, _, _⟩ := WF_big.mp h
    simp only [bintBit, LG]
    have : (BInt.big neg ds).val.natAbs = natVal ds := by cases neg <;> simp
    rw [this, natVal_testBit hd]

/-! ### conversion to machine integers -/

theorem toSInt_alg (n bt lo P : Nat) : (n * 2 + bt) * P + lo = n * (P * 2) + (lo + P * bt) := by
  rw [Nat.add_mul, Nat.mul_assoc, Nat.mul_comm 2 P, Nat.mul_comm bt P]; omega

theorem toSIntLoop_toNat (b : BInt) (V : Nat) (hb : ∀ i, bintBit b i = V.testBit i) :
    ∀ (i : Nat) (n : BitVec 64), (toSIntLoop b i n).toNat = (n.toNat * 2 ^ i + V % 2 ^ i) % 2 ^ 64 := by
  intro i
  induction i with
  | zero => intro n; simp [toSIntLoop, Nat.mod_one]; omega
  | succ i ih =>
    intro n
    simp only [toSIntLoop]
    rw [ih, BitVec.toNat_add, BitVec.toNat_shiftLeft, hb i, Nat.shiftLeft_eq]
    have hbit : (if V.testBit i = true then (1 : BitVec 64) else 0).toNat = V / 2 ^ i % 2 := by
      rw [← Nat.toNat_testBit]; cases V.testBit i <;> rfl
    rw [hbit, Nat.mod_pow_succ (x := V) (b := 2) (k := i), Nat.pow_succ 2 i]
    have e1 : (n.toNat * 2 ^ 1 % 2 ^ 64 + V / 2 ^ i % 2) % 2 ^ 64 = (n.toNat * 2 + V / 2 ^ i % 2) % 2 ^ 64 := by
      rw [Nat.pow_one]; omega
    rw [e1]
    have e2 : ((n.toNat * 2 + V / 2 ^ i % 2) % 2 ^ 64 * 2 ^ i + V % 2 ^ i) % 2 ^ 64
        = ((n.toNat * 2 + V / 2 ^ i % 2) * 2 ^ i + V % 2 ^ i) % 2 ^ 64 := by
      rw [Nat.add_mod, Nat.mod_mul_mod, ← Nat.add_mod]
    rw [e2, toSInt_alg]

theorem fiBIntToSInt_spec {a : BInt} (h : WF a) : fiBIntToSInt a = BitVec.ofInt 64 a.val := by
  cases a with
  | imm v => rfl
  | big neg ds =>
    have hb := bintBit_spec h
    have hv : (BInt.big neg ds).val.natAbs = natVal ds := by cases neg <;> simp
    rw [hv] at hb
    have hl := toSIntLoop_toNat (.big neg ds) (natVal ds) hb 64 0
    have e : toSIntLoop (.big neg ds) 64 0 = BitVec.ofNat 64 (natVal ds) := by
      apply BitVec.eq_of_toNat_eq
      rw [hl, BitVec.toNat_ofNat]
      simp
    simp only [fiBIntToSInt, e]
    cases neg
    · simp [BitVec.ofInt_natCast]
    · simp only [if_true, val_big_true]
      rw [BitVec.ofInt_neg, BitVec.ofInt_natCast]

theorem bintNew_spec (n : BitVec 64) :
    (bintNew n).val = n.toInt ∧ WF (bintNew n) ∧ fiBIntToSInt (bintNew n) = n := by
  have h1 := BitVec.le_toInt n
  have h2 := BitVec.toInt_lt (x := n)
  have sp := bintNewI_spec (n := n.toInt) (by simpa using h1) (by simpa using h2)
  unfold bintNew
  refine ⟨sp.1, sp.2, ?_⟩
  rw [fiBIntToSInt_spec sp.2, sp.1, BitVec.ofInt_toInt]

/-! ### bintLength -/

theorem R_pow (n : Nat) : R ^ n = 2 ^ (32 * n) := by
  rw [R_eq, Nat.pow_mul]

theorem bitLen_eq_of_bounds {u k : Nat} (hk : 1 ≤ k) (h1 : 2 ^ (k - 1) ≤ u) (h2 : u < 2 ^ k) : bitLen u = k := by
  have a := (lt_two_pow_iff_bitLen_le u k).mp h2
  have b := (two_pow_le_iff_lt_bitLen u (k - 1)).mp h1
  omega

theorem bitLen_bounds {u : Nat} (h : u ≠ 0) : 2 ^ (bitLen u - 1) ≤ u ∧ u < 2 ^ bitLen u ∧ 1 ≤ bitLen u := by
  have h1 := (lt_two_pow_iff_bitLen_le u (bitLen u)).mpr (Nat.le_refl _)
  have hpos : 1 ≤ bitLen u := by unfold bitLen; simp [h]
  have h2 := (two_pow_le_iff_lt_bitLen u (bitLen u - 1)).mpr (by omega)
  exact ⟨h2, h1, hpos⟩

theorem split_last {ds : List Nat} (hne : ds ≠ []) :
    ds = ds.dropLast ++ [ds.getLastD 0] ∧ ds.dropLast.length = ds.length - 1 := by
  have h := List.dropLast_concat_getLast hne
  have e : ds.getLast hne = ds.getLastD 0 := by
    cases ds with
    | nil => exact absurd rfl hne
    | cons a l => rw [List.getLastD_cons]; exact List.getLast_eq_getLastD _
  rw [e] at h
  exact ⟨h.symm, by simp⟩

/-- value of a non-empty vector: places below the top, plus the top place -/
theorem natVal_split_last {ds : List Nat} (hne : ds ≠ []) :
    natVal ds = natVal ds.dropLast + R ^ (ds.length - 1) * ds.getLastD 0 := by
  obtain ⟨e, l⟩ := split_last hne
  have := natVal_append ds.dropLast [ds.getLastD 0]
  rw [← e, l] at this
  simpa using this

theorem getLastD_ne_zero {ds : List Nat} (hne : ds ≠ []) (hn : Norm ds) : ds.getLastD 0 ≠ 0 := by
  intro h0
  apply hn
  rw [List.getLastD_eq_getLast?] at h0
  cases hl : ds.getLast? with
  | none => simp [List.getLast?_eq_none_iff] at hl; exact absurd hl hne
  | some x => rw [hl] at h0; simp at h0; rw [h0]

theorem dropLast_digits {ds : List Nat} (h : Digits ds) : Digits ds.dropLast :=
  fun x hx => h x (List.dropLast_subset ds hx)

theorem bitLen_natVal {ds : List Nat} (hd : Digits ds) (hne : ds ≠ []) (hn : Norm ds) :
    bitLen (natVal ds) = 32 * (ds.length - 1) + bitLen (ds.getLastD 0) := by
  have htop := getLastD_ne_zero hne hn
  obtain ⟨b1, b2, b3⟩ := bitLen_bounds htop
  have hv := natVal_split_last hne
  have hlow := natVal_lt (dropLast_digits hd)
  rw [(split_last hne).2] at hlow
  generalize ds.getLastD 0 = top at *
  generalize bitLen top = k at *
  rw [R_pow] at hv hlow
  generalize natVal ds.dropLast = lo at *
  apply bitLen_eq_of_bounds (by omega)
  · have : 32 * (ds.length - 1) + k - 1 = 32 * (ds.length - 1) + (k - 1) := by omega
    rw [this, Nat.pow_add]
    have := Nat.mul_le_mul_left (2 ^ (32 * (ds.length - 1))) b1
    omega
  · rw [Nat.pow_add]
    have h3 : 2 ^ (32 * (ds.length - 1)) * (top + 1) ≤ 2 ^ (32 * (ds.length - 1)) * 2 ^ k :=
      Nat.mul_le_mul_left _ b2
    rw [Nat.mul_add, Nat.mul_one] at h3
    omega

theorem lengthBig_spec {ds : List Nat} (hd : Digits ds) (hne : ds ≠ []) (hn : Norm ds) :
    lengthBig ds = bitLen (natVal ds) := by
  unfold lengthBig
  have htop := getLastD_ne_zero hne hn
  have hlt := getLastD_lt hd
  rw [uintLength_spec (by rw [R_eq] at hlt; omega), bitLen_natVal hd hne hn]
  have := (bitLen_bounds htop).2.2
  simp only [LG]; omega

theorem bintLength_spec {a : BInt} (h : WF a) : bintLength a = max 1 (bitLen a.val.natAbs) := by
  cases a with
  | imm v =>
    obtain ⟨h1, h2⟩ := WF_imm.mp h
    rw [MINI_eq] at h1; rw [MAXI_eq] at h2
    simp only [bintLength, intLength, val_imm]
    rw [absL_eq (by omega) (by omega), uintLength_spec (by omega)]
  | big neg ds =>
    obtain ⟨hd, hn, hv⟩ := WF_big.mp h
    have hne : ds ≠ [] := by intro h0; subst h0; rw [MAXI_eq] at hv; simp at hv
    have e : (BInt.big neg ds).val.natAbs = natVal ds := by cases neg <;> simp
    simp only [bintLength]
    rw [e, lengthBig_spec hd hne hn]
    have : natVal ds ≠ 0 := by rw [MAXI_eq] at hv; omega
    have := (bitLen_bounds this).2.2
    omega

end AldorVerif.BigInt
