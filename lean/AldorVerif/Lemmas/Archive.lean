import AldorVerif.Model.Archive
/-! helper lemmas about the model of the archive member walk -/
namespace AldorVerif.Archive

theorem step_member (file : List Nat) (p : Nat) (n : List Nat) (d next b : Nat)
    (h : step file p = .member n d next b) :
    p ≠ 0 ∧ d = p + memberHdrSize ∧ d < file.length ∧
    next = (d + roundUp (parseNum 10 (slice file (p + 48) 10)).value) % two64 := by
  unfold step at h
  simp only at h
  split at h
  · cases h
  · rename_i h1
    split at h
    · cases h
    · split at h
      · cases h
      · split at h
        · cases h
        · rename_i h4
          injection h with _ hd hn _
          subst hd hn
          exact ⟨by omega, rfl, by omega, rfl⟩

theorem walk_members_in_file (fuel : Nat) (file : List Nat) (p : Nat) :
    ∀ m ∈ (walk fuel file p).1, m.dataPos < file.length := by
  induction fuel generalizing p with
  | zero => simp [walk]
  | succ fuel ih =>
    intro m hm
    unfold walk at hm
    split at hm
    · simp at hm
    · simp at hm
    · simp at hm
    · simp at hm
    · rename_i name d next nb hs
      simp only [List.mem_cons] at hm
      rcases hm with rfl | hm
      · exact (step_member _ _ _ _ _ _ hs).2.2.1
      · exact ih next m hm

theorem roundUp_ge (v : Nat) (hv : v + 2 < two64) : v ≤ roundUp v ∧ roundUp v ≤ v + 1 := by
  unfold roundUp align
  split
  · rw [Nat.mod_eq_of_lt (by unfold two64 at *; omega)]; omega
  · omega

end AldorVerif.Archive
