import AldorVerif.Model.MiniTy
/-! helper lemmas for Props/C06.lean (core Lean only) -/
namespace AldorVerif.MiniTy

/-! ### `checkList` -/

theorem checkList_ok_iff {α : Type} (f : Nat → α → Except TypeErr Unit) :
    ∀ (l : List α) (i : Nat),
      checkList f i l = .ok () ↔ ∀ j (h : j < l.length), f (i + j) l[j] = .ok ()
  | [], i => by simp [checkList]
  | x :: xs, i => by
    simp only [checkList]
    constructor
    · intro h j hj
      cases hfx : f i x with
      | error e => rw [hfx] at h; cases h
      | ok u =>
        cases u
        rw [hfx] at h
        cases j with
        | zero => simpa using hfx
        | succ j =>
          have := (checkList_ok_iff f xs (i + 1)).1 h j (by simpa using hj)
          simpa [Nat.add_assoc, Nat.add_comm 1 j] using this
    · intro h
      have h0 := h 0 (by simp)
      simp only [Nat.add_zero, List.getElem_cons_zero] at h0
      rw [h0]
      refine (checkList_ok_iff f xs (i + 1)).2 ?_
      intro j hj
      have := h (j + 1) (by simpa using hj)
      simpa [Nat.add_assoc, Nat.add_comm 1 j] using this

theorem checkList_first_error {α : Type} (f : Nat → α → Except TypeErr Unit) (e : TypeErr) :
    ∀ (l : List α) (i k : Nat) (hk : k < l.length),
      (∀ j (h : j < k), f (i + j) (l[j]'(Nat.lt_trans h hk)) = .ok ()) →
      f (i + k) l[k] = .error e → checkList f i l = .error e
  | [], _, _, hk, _, _ => by simp at hk
  | x :: xs, i, 0, _, _, he => by
    simp only [Nat.add_zero, List.getElem_cons_zero] at he
    simp [checkList, he]
  | x :: xs, i, k + 1, hk, hb, he => by
    have h0 := hb 0 (by omega)
    simp only [Nat.add_zero, List.getElem_cons_zero] at h0
    simp only [checkList, h0]
    refine checkList_first_error f e xs (i + 1) k (by simpa using hk) ?_ ?_
    · intro j hj
      have := hb (j + 1) (by omega)
      simpa [Nat.add_assoc, Nat.add_comm 1 j] using this
    · simpa [Nat.add_assoc, Nat.add_comm 1 k] using he

/-! ### bottom-up: `canTy` is the judgement `CanTy` -/

mutual
theorem canTy_iff (Γ : Env) : ∀ (e : Expr) (t : BTy), canTy Γ e t = true ↔ CanTy Γ e t
  | .lit t0 n, t => by simp [canTy, CanTy]
  | .var x, t => by
    simp only [canTy, CanTy]
    cases Γ.lookupVal x with
    | none => simp
    | some v => simp
  | .app f q args keys, t => by
    simp only [canTy, CanTy, List.any_eq_true, Bool.and_eq_true, beq_iff_eq]
    constructor
    · rintro ⟨hk, m, hm, hr, ha⟩
      refine ⟨hk, m, hm, hr, ?_⟩
      split at ha
      · next ts hs => exact ⟨ts, hs, (canTyArgs_iff Γ args ts).1 ha⟩
      · cases ha
    · rintro ⟨hk, m, hm, hr, ts, hs, ha⟩
      refine ⟨hk, m, hm, hr, ?_⟩
      rw [hs]
      exact (canTyArgs_iff Γ args ts).2 ha
theorem canTyArgs_iff (Γ : Env) : ∀ (as : List Expr) (ts : List BTy),
    canTyArgs Γ as ts = true ↔ CanTyArgs Γ as ts
  | [], [] => by simp [canTyArgs, CanTyArgs]
  | a :: as, t :: ts => by
    simp only [canTyArgs, CanTyArgs, Bool.and_eq_true, canTy_iff Γ a t, canTyArgs_iff Γ as ts]
  | [], _ :: _ => by simp [canTyArgs, CanTyArgs]
  | _ :: _, [] => by simp [canTyArgs, CanTyArgs]
end

/-! ### top-down: `checkTD` succeeds exactly on `WT` -/

theorem filter_eq_singleton_iff {α : Type} (p : α → Bool) (m : α) :
    ∀ (l : List α), l.filter p = [m] ↔
      ∃ l₁ l₂, l = l₁ ++ m :: l₂ ∧ p m = true ∧ (∀ x ∈ l₁, p x = false) ∧ (∀ x ∈ l₂, p x = false)
  | [] => by simp
  | x :: xs => by
    have ih := filter_eq_singleton_iff p m xs
    cases hx : p x with
    | true =>
      simp only [List.filter_cons, hx, if_true, List.cons.injEq]
      constructor
      · rintro ⟨rfl, hf⟩
        refine ⟨[], xs, rfl, hx, by simp, ?_⟩
        intro y hy
        have : y ∉ xs.filter p := by rw [hf]; simp
        simpa [List.mem_filter, hy] using this
      · rintro ⟨l₁, l₂, hl, hm, h1, h2⟩
        cases l₁ with
        | nil =>
          simp only [List.nil_append, List.cons.injEq] at hl
          refine ⟨hl.1, ?_⟩
          rw [hl.2]
          exact List.filter_eq_nil_iff.2 (fun y hy => by simp [h2 y hy])
        | cons y ys =>
          simp only [List.cons_append, List.cons.injEq] at hl
          have := h1 y (by simp)
          rw [← hl.1, hx] at this
          cases this
    | false =>
      simp only [List.filter_cons, hx]
      rw [show (if false = true then x :: List.filter p xs else List.filter p xs) = List.filter p xs from rfl, ih]
      constructor
      · rintro ⟨l₁, l₂, hl, hm, h1, h2⟩
        refine ⟨x :: l₁, l₂, by simp [hl], hm, ?_, h2⟩
        intro y hy
        cases hy with
        | head => exact hx
        | tail _ h => exact h1 y h
      · rintro ⟨l₁, l₂, hl, hm, h1, h2⟩
        cases l₁ with
        | nil =>
          simp only [List.nil_append, List.cons.injEq] at hl
          rw [← hl.1, hx] at hm
          cases hm
        | cons y ys =>
          simp only [List.cons_append, List.cons.injEq] at hl
          exact ⟨ys, l₂, hl.2, hm, fun z hz => h1 z (by simp [hz]), h2⟩

theorem fits_iff (Γ : Env) (args : List Expr) (keys : List String) (σ : Sig) :
    fits Γ args keys σ = true ↔ ∃ ts, σ.shape args.length keys = .ok ts ∧ CanTyArgs Γ args ts := by
  unfold fits
  constructor
  · intro h
    split at h
    · next ts hs => exact ⟨ts, hs, (canTyArgs_iff Γ args ts).1 h⟩
    · cases h
  · rintro ⟨ts, hs, h⟩
    rw [hs]
    exact (canTyArgs_iff Γ args ts).2 h

theorem candidates_singleton_iff (Γ : Env) (f : String) (q : Option String) (args : List Expr)
    (keys : List String) (t : BTy) (m : Meaning) :
    candidates Γ f q args keys t = [m] ↔
      OnlyOne (fun m => m.sig.res = t ∧
                 ∃ ts, m.sig.shape args.length keys = .ok ts ∧ CanTyArgs Γ args ts) (meanings Γ f q) m := by
  have hp : ∀ x : Meaning, (x.sig.res == t && fits Γ args keys x.sig) = true ↔
      (x.sig.res = t ∧ ∃ ts, x.sig.shape args.length keys = .ok ts ∧ CanTyArgs Γ args ts) := by
    intro x; simp [fits_iff]
  have hn : ∀ x : Meaning, (x.sig.res == t && fits Γ args keys x.sig) = false ↔
      ¬ (x.sig.res = t ∧ ∃ ts, x.sig.shape args.length keys = .ok ts ∧ CanTyArgs Γ args ts) := by
    intro x; rw [← hp x]; simp
  unfold candidates OnlyOne
  rw [filter_eq_singleton_iff]
  constructor
  · rintro ⟨l₁, l₂, hl, hm, h1, h2⟩
    exact ⟨l₁, l₂, hl, (hp m).1 hm, fun x hx => (hn x).1 (h1 x hx), fun x hx => (hn x).1 (h2 x hx)⟩
  · rintro ⟨l₁, l₂, hl, hm, h1, h2⟩
    exact ⟨l₁, l₂, hl, (hp m).2 hm, fun x hx => (hn x).2 (h1 x hx), fun x hx => (hn x).2 (h2 x hx)⟩

mutual
theorem checkTD_ok_iff (Γ : Env) : ∀ (e : Expr) (site : Site) (t : BTy),
    checkTD Γ site e t = .ok () ↔ WT Γ e t
  | .lit t0 n, site, t => by
    simp only [checkTD, WT]
    by_cases h : t0 = t <;> simp [h]
  | .var x, site, t => by
    simp only [checkTD, WT]
    cases Γ.lookupVal x with
    | none => simp
    | some v => by_cases h : v.ty = t <;> simp [h]
  | .app f q args keys, site, t => by
    simp only [checkTD, WT]
    constructor
    · intro h
      split at h
      · cases h
      · next hk =>
        split at h
        · cases h
        · next m hc =>
          split at h
          · next ts hs =>
            exact ⟨by simpa using hk, m, (candidates_singleton_iff Γ f q args keys t m).1 hc, ts, hs,
                   (checkTDArgs_ok_iff Γ args site 0 ts).1 h⟩
          · cases h
        · cases h
    · rintro ⟨hk, m, ho, ts, hs, hw⟩
      simp only [hk, Bool.not_true, Bool.false_eq_true, if_false]
      rw [(candidates_singleton_iff Γ f q args keys t m).2 ho]
      simp only [hs]
      exact (checkTDArgs_ok_iff Γ args site 0 ts).2 hw
theorem checkTDArgs_ok_iff (Γ : Env) : ∀ (as : List Expr) (site : Site) (i : Nat) (ts : List BTy),
    checkTDArgs Γ site i as ts = .ok () ↔ WTArgs Γ as ts
  | [], site, i, [] => by simp [checkTDArgs, WTArgs]
  | a :: as, site, i, t :: ts => by
    simp only [checkTDArgs, WTArgs]
    rw [← checkTD_ok_iff Γ a (site ++ [i]) t, ← checkTDArgs_ok_iff Γ as site (i + 1) ts]
    cases checkTD Γ (site ++ [i]) a t with
    | error e => simp
    | ok u => cases u; simp
  | [], site, i, _ :: _ => by simp [checkTDArgs, WTArgs]
  | _ :: _, site, i, [] => by simp [checkTDArgs, WTArgs]
end

mutual
theorem WT_CanTy (Γ : Env) : ∀ (e : Expr) (t : BTy), WT Γ e t → CanTy Γ e t
  | .lit t0 n, t => by simp [WT, CanTy]
  | .var x, t => by simp [WT, CanTy]
  | .app f q args keys, t => by
    simp only [WT, CanTy]
    rintro ⟨hk, m, ⟨l₁, l₂, hl, hm, _, _⟩, _⟩
    exact ⟨hk, m, by simp [hl], hm.1, hm.2⟩
end

theorem typeable_iff (Γ : Env) (e : Expr) : typeable Γ e = true ↔ ∃ t, CanTy Γ e t := by
  unfold typeable
  simp only [List.any_eq_true, canTy_iff]
  constructor
  · rintro ⟨t, _, h⟩; exact ⟨t, h⟩
  · rintro ⟨t, h⟩; exact ⟨t, BTy.mem_all t, h⟩

theorem checkExpr_ok_iff (Γ : Env) (st : Site) (mk : ErrKind) (e : Expr) (t : BTy) :
    checkExpr Γ st mk e t = .ok () ↔ WT Γ e t := by
  unfold checkExpr
  constructor
  · intro h
    split at h
    · cases h
    · split at h
      · cases h
      · exact (checkTD_ok_iff Γ e _ t).1 h
  · intro h
    have hc := WT_CanTy Γ e t h
    have h1 : typeable Γ e = true := (typeable_iff Γ e).2 ⟨t, hc⟩
    have h2 : canTy Γ e t = true := (canTy_iff Γ e t).2 hc
    simp only [h1, h2, Bool.not_true, Bool.false_eq_true, if_false]
    exact (checkTD_ok_iff Γ e _ t).2 h

theorem checkStmt_ok_iff (Γ : Env) (ret : Option BTy) (site : Site) (s : Stmt) :
    checkStmt Γ ret site s = .ok () ↔ StmtWT Γ ret s := by
  cases s with
  | defConst x t e => simp only [checkStmt, StmtWT, checkExpr_ok_iff]
  | defVar x t e => simp only [checkStmt, StmtWT, checkExpr_ok_iff]
  | assign x e =>
    simp only [checkStmt, StmtWT]
    cases Γ.scopeVals.find? (·.name == x) with
    | none => simp
    | some v =>
      cases hc : v.const with
      | true => simp [hc]
      | false => simp [hc, checkExpr_ok_iff]
  | ret e =>
    simp only [checkStmt, StmtWT]
    cases ret with
    | none => simp
    | some r => simp [checkExpr_ok_iff]
  | value e =>
    simp only [checkStmt, StmtWT]
    cases ret with
    | none => simp
    | some r => simp [checkExpr_ok_iff]
  | exit c e =>
    simp only [checkStmt, StmtWT]
    cases ret with
    | none => simp
    | some r =>
      cases Γ.lookupVal c with
      | none => simp
      | some v =>
        by_cases hb : v.ty = .bool
        · simp [hb, checkExpr_ok_iff]
        · simp [hb]

theorem forall_mem_iff_getElem {α : Type} (l : List α) (P : α → Prop) :
    (∀ x ∈ l, P x) ↔ ∀ j (h : j < l.length), P l[j] := by
  constructor
  · intro h j hj; exact h _ (List.getElem_mem hj)
  · intro h x hx
    obtain ⟨j, hj, rfl⟩ := List.mem_iff_getElem.1 hx
    exact h j hj

theorem checkFun_ok_iff (Γ : Env) (site : Site) (d : FunDef) :
    checkFun Γ site d = .ok () ↔ FunWT Γ d := by
  unfold checkFun FunWT
  rw [forall_mem_iff_getElem]
  constructor
  · intro h
    split at h
    · next hl =>
      split at h
      · next he =>
        refine ⟨?_, he⟩
        intro j hj
        have := (checkList_ok_iff _ d.body 0).1 hl j hj
        exact (checkStmt_ok_iff _ _ _ _).1 this
      · cases h
    · cases h
  · rintro ⟨hb, he⟩
    have : checkList (fun j s => checkStmt (Γ.enter d) (some d.res) (site ++ [j]) s) 0 d.body = .ok () :=
      (checkList_ok_iff _ d.body 0).2 (fun j hj => (checkStmt_ok_iff _ _ _ _).2 (hb j hj))
    rw [this]
    simp [he]

theorem covers_iff (defs : List FunDef) (sigs : List Sig) :
    covers defs sigs = true ↔ ∀ σ ∈ sigs, ∃ d ∈ defs, implements d.sig σ = true := by
  simp [covers]

theorem checkAdd_ok_iff (g : GEnv) (site : Site) (param : Option (String × String)) (c : String)
    (defs : List FunDef) : checkAdd g site param c defs = .ok () ↔ AddWT g param c defs := by
  unfold checkAdd AddWT
  rw [← covers_iff, forall_mem_iff_getElem]
  constructor
  · intro h
    split at h
    · cases h
    · next hc =>
      split at h
      · cases h
      · next hv =>
        refine ⟨by simpa using hc, by simpa using hv, ?_⟩
        intro j hj
        exact (checkFun_ok_iff _ _ _).1 ((checkList_ok_iff _ defs 0).1 h j hj)
  · rintro ⟨hc, hv, hd⟩
    simp only [hc, hv, Bool.not_true, Bool.false_eq_true, if_false]
    exact (checkList_ok_iff _ defs 0).2 (fun j hj => (checkFun_ok_iff _ _ _).2 (hd j hj))

theorem checkDecl_ok_iff (g : GEnv) (i : Nat) (d : Decl) :
    checkDecl g i d = .ok () ↔ DeclWT g d := by
  cases d with
  | cat n sigs => simp [checkDecl, DeclWT]
  | dom n c defs => simp only [checkDecl, DeclWT, checkAdd_ok_iff]
  | functor n T pc c defs =>
    simp only [checkDecl, DeclWT]
    cases hp : g.catDefined pc with
    | false => simp
    | true => simp [checkAdd_ok_iff]
  | func d => simp only [checkDecl, DeclWT, checkFun_ok_iff]
  | imp d =>
    simp only [checkDecl, DeclWT]
    cases g.domDefined d <;> simp
  | stmt s => simp only [checkDecl, DeclWT, checkStmt_ok_iff]

/-! ### arguments -/

theorem canTyArgs_iff_forall (Γ : Env) : ∀ (as : List Expr) (ts : List BTy),
    canTyArgs Γ as ts = true ↔
      as.length = ts.length ∧ ∀ i (h1 : i < as.length) (h2 : i < ts.length), canTy Γ as[i] ts[i] = true
  | [], [] => by simp [canTyArgs]
  | [], _ :: _ => by simp [canTyArgs]
  | _ :: _, [] => by simp [canTyArgs]
  | a :: as, t :: ts => by
    simp only [canTyArgs, Bool.and_eq_true, canTyArgs_iff_forall Γ as ts, List.length_cons]
    constructor
    · rintro ⟨h0, hl, hi⟩
      refine ⟨by omega, ?_⟩
      intro i h1 h2
      cases i with
      | zero => simpa using h0
      | succ i => simpa using hi i (by omega) (by omega)
    · rintro ⟨hl, hi⟩
      refine ⟨by simpa using hi 0 (by omega) (by omega), by omega, ?_⟩
      intro i h1 h2
      have := hi (i + 1) (by omega) (by omega)
      rw [List.getElem_cons_succ, List.getElem_cons_succ] at this
      exact this

theorem canTy_typeable {Γ : Env} {e : Expr} {t : BTy} (h : canTy Γ e t = true) : typeable Γ e = true := by
  unfold typeable
  exact List.any_eq_true.2 ⟨t, BTy.mem_all t, h⟩

theorem typeable_false_iff (Γ : Env) (e : Expr) : typeable Γ e = false ↔ ∀ t, canTy Γ e t = false := by
  constructor
  · intro h t
    cases hc : canTy Γ e t with
    | false => rfl
    | true => rw [canTy_typeable hc] at h; cases h
  · intro h
    cases ht : typeable Γ e with
    | false => rfl
    | true =>
      unfold typeable at ht
      obtain ⟨t, _, hc⟩ := List.any_eq_true.1 ht
      rw [h t] at hc; cases hc

/-- an argument list with an untypeable member fits no parameter list -/
theorem canTyArgs_false_of_untypeable (Γ : Env) (as : List Expr) (ts : List BTy)
    (h : ∃ x ∈ as, typeable Γ x = false) : canTyArgs Γ as ts = false := by
  cases hc : canTyArgs Γ as ts with
  | false => rfl
  | true =>
    obtain ⟨x, hx, hu⟩ := h
    obtain ⟨i, hi, rfl⟩ := List.mem_iff_getElem.1 hx
    obtain ⟨hl, hall⟩ := (canTyArgs_iff_forall Γ as ts).1 hc
    have := canTy_typeable (hall i hi (by omega))
    rw [hu] at this; cases this

theorem canTy_app (Γ : Env) (f : String) (q : Option String) (as : List Expr) (keys : List String)
    (t : BTy) : canTy Γ (.app f q as keys) t =
      (keysFree Γ keys && (meanings Γ f q).any (fun m => m.sig.res == t && fits Γ as keys m.sig)) := by
  simp only [canTy, fits]

theorem canTy_app_true {Γ : Env} {f : String} {q : Option String} {as : List Expr} {keys : List String}
    {t : BTy} (h : canTy Γ (.app f q as keys) t = true) :
    keysFree Γ keys = true ∧ ∃ m ∈ meanings Γ f q, m.sig.res = t ∧ fits Γ as keys m.sig = true := by
  rw [canTy_app, Bool.and_eq_true] at h
  obtain ⟨hk, ha⟩ := h
  obtain ⟨m, hm, hm2⟩ := List.any_eq_true.1 ha
  simp only [Bool.and_eq_true, beq_iff_eq] at hm2
  exact ⟨hk, m, hm, hm2.1, hm2.2⟩

theorem fits_false_of_untypeable (Γ : Env) (as : List Expr) (keys : List String) (σ : Sig)
    (h : ∃ x ∈ as, typeable Γ x = false) : fits Γ as keys σ = false := by
  unfold fits
  split
  · exact canTyArgs_false_of_untypeable Γ as _ h
  · rfl

/-- an application none of whose meanings fits the arguments has no type -/
theorem app_untypeable_of_no_meaning (Γ : Env) (f : String) (q : Option String) (as : List Expr)
    (keys : List String) (h : ∀ m ∈ meanings Γ f q, fits Γ as keys m.sig = false) :
    typeable Γ (.app f q as keys) = false := by
  rw [typeable_false_iff]
  intro t
  cases hc : canTy Γ (.app f q as keys) t with
  | false => rfl
  | true =>
    obtain ⟨_, m, hm, _, hf⟩ := canTy_app_true hc
    rw [h m hm] at hf; cases hf

theorem app_untypeable_of_arg (Γ : Env) (f : String) (q : Option String) (as : List Expr)
    (keys : List String) (h : ∃ x ∈ as, typeable Γ x = false) :
    typeable Γ (.app f q as keys) = false :=
  app_untypeable_of_no_meaning Γ f q as keys (fun m _ => fits_false_of_untypeable Γ as keys m.sig h)

theorem args_typeable_of_app {Γ : Env} {f : String} {q : Option String} {as : List Expr}
    {keys : List String} (h : typeable Γ (.app f q as keys) = true) : ∀ x ∈ as, typeable Γ x = true := by
  intro x hx
  cases hu : typeable Γ x with
  | true => rfl
  | false => rw [app_untypeable_of_arg Γ f q as keys ⟨x, hx, hu⟩] at h; cases h

theorem explainArgs_none (Γ : Env) (site : Site) : ∀ (as : List Expr) (i : Nat),
    (∀ x ∈ as, typeable Γ x = true) → explainArgs Γ site i as = none
  | [], _, _ => by simp [explainArgs]
  | a :: as, i, h => by
    simp only [explainArgs, h a (by simp), if_true]
    exact explainArgs_none Γ site as (i + 1) (fun x hx => h x (by simp [hx]))

/-! ### descent to a node that the mutation makes untypeable (bottom-up faults) -/

mutual
theorem bu_descend (Γ : Env) (F : Expr → Option Expr) (K : ErrKind)
    (hF : ∀ N N', F N = some N' → typeable Γ N = true →
            typeable Γ N' = false ∧ ∀ st, explain Γ st N' = ⟨K, st⟩) :
    ∀ (e : Expr) (π : Site) (e' : Expr) (site : Site), typeable Γ e = true →
      Expr.modAt F π e = some e' → typeable Γ e' = false ∧ explain Γ site e' = ⟨K, site ++ π⟩
  | e, [], e', site, ht, hm => by
    simp only [Expr.modAt] at hm
    obtain ⟨h1, h2⟩ := hF e e' hm ht
    exact ⟨h1, by simpa using h2 site⟩
  | .app f q args keys, a :: π, e', site, ht, hm => by
    simp only [Expr.modAt, Option.map_eq_some_iff] at hm
    obtain ⟨args', hma, rfl⟩ := hm
    obtain ⟨hu, hx⟩ := bu_descend_args Γ F K hF args a π args' site 0 (args_typeable_of_app ht) hma
    refine ⟨app_untypeable_of_arg Γ f q args' keys hu, ?_⟩
    simp only [explain, hx, Nat.zero_add]
  | .lit _ _, _ :: _, _, _, _, hm => by simp [Expr.modAt] at hm
  | .var _, _ :: _, _, _, _, hm => by simp [Expr.modAt] at hm
theorem bu_descend_args (Γ : Env) (F : Expr → Option Expr) (K : ErrKind)
    (hF : ∀ N N', F N = some N' → typeable Γ N = true →
            typeable Γ N' = false ∧ ∀ st, explain Γ st N' = ⟨K, st⟩) :
    ∀ (as : List Expr) (a : Nat) (π : Site) (as' : List Expr) (site : Site) (i : Nat),
      (∀ x ∈ as, typeable Γ x = true) → modArgs F a π as = some as' →
      (∃ x ∈ as', typeable Γ x = false) ∧ explainArgs Γ site i as' = some ⟨K, site ++ (i + a) :: π⟩
  | [], _, _, _, _, _, _, hm => by simp [modArgs] at hm
  | e :: es, 0, π, as', site, i, ht, hm => by
    simp only [modArgs, Option.map_eq_some_iff] at hm
    obtain ⟨e', hme, rfl⟩ := hm
    obtain ⟨h1, h2⟩ := bu_descend Γ F K hF e π e' (site ++ [i]) (ht e (by simp)) hme
    refine ⟨⟨e', by simp, h1⟩, ?_⟩
    simp [explainArgs, h1, h2]
  | e :: es, a + 1, π, as', site, i, ht, hm => by
    simp only [modArgs, Option.map_eq_some_iff] at hm
    obtain ⟨es', hme, rfl⟩ := hm
    obtain ⟨⟨x, hx, hxu⟩, h2⟩ :=
      bu_descend_args Γ F K hF es a π es' site (i + 1) (fun x hx => ht x (by simp [hx])) hme
    refine ⟨⟨x, by simp [hx], hxu⟩, ?_⟩
    simp only [explainArgs, ht e (by simp), if_true, h2]
    simp [Nat.add_assoc, Nat.add_comm 1 a]
end

/-! ### the local rewrites that make the node untypeable -/

theorem typeable_lit (Γ : Env) (t : BTy) (n : Nat) : typeable Γ (.lit t n) = true :=
  canTy_typeable (t := t) (by simp [canTy])

/-- a typeable application has free keywords and a meaning whose shape fits the call -/
theorem app_typeable_meaning {Γ : Env} {f : String} {q : Option String} {as : List Expr}
    {keys : List String} (h : typeable Γ (.app f q as keys) = true) :
    keysFree Γ keys = true ∧
    ∃ m ∈ meanings Γ f q, ∃ ts, m.sig.shape as.length keys = .ok ts ∧ canTyArgs Γ as ts = true := by
  unfold typeable at h
  obtain ⟨t, _, hc⟩ := List.any_eq_true.1 h
  obtain ⟨hk, m, hm, _, hf⟩ := canTy_app_true hc
  refine ⟨hk, m, hm, ?_⟩
  unfold fits at hf
  split at hf
  · next ts hs => exact ⟨ts, hs, hf⟩
  · cases hf

theorem fits_false_of_shape {Γ : Env} {as : List Expr} {keys : List String} {σ : Sig}
    (h : (σ.shape as.length keys).isOk = false) : fits Γ as keys σ = false := by
  unfold fits
  split
  · next ts hs => rw [hs] at h; cases h
  · rfl

/-- all meanings reject the form of the call for the same reason `R` -/
theorem explain_allShape (Γ : Env) (f : String) (q : Option String) (as : List Expr) (keys : List String)
    (R : Shape) (hmem : ∀ x ∈ as, typeable Γ x = true) (hkf : keysFree Γ keys = true)
    (hne : meanings Γ f q ≠ []) (hall : allShape Γ f q as.length keys R = true) (hR : R.isOk = false) :
    typeable Γ (.app f q as keys) = false ∧ ∀ st, explain Γ st (.app f q as keys) = ⟨shapeErr R, st⟩ := by
  have hs : ∀ m ∈ meanings Γ f q, m.sig.shape as.length keys = R := by
    intro m hm
    have := List.all_eq_true.1 hall m hm
    simpa using this
  refine ⟨?_, fun st => ?_⟩
  · apply app_untypeable_of_no_meaning
    intro m hm
    exact fits_false_of_shape (by rw [hs m hm]; exact hR)
  · simp only [explain, explainArgs_none Γ st _ 0 hmem, hkf, Bool.not_true, Bool.false_eq_true, if_false]
    cases hl : meanings Γ f q with
    | nil => exact absurd hl hne
    | cons m ms =>
      have hall' : (m :: ms).all (fun x => !(x.sig.shape as.length keys).isOk) = true := by
        apply List.all_eq_true.2
        intro x hx
        rw [hs x (by rw [hl]; exact hx), hR]; rfl
      simp only [hall', if_true]
      rw [hs m (by rw [hl]; simp)]

theorem mem_take_append_drop {α : Type} {l mid : List α} {i j : Nat} {x : α}
    (h : x ∈ l.take i ++ mid ++ l.drop j) : x ∈ l ∨ x ∈ mid := by
  simp only [List.mem_append] at h
  rcases h with (h | h) | h
  · exact Or.inl (List.mem_of_mem_take h)
  · exact Or.inr h
  · exact Or.inl (List.mem_of_mem_drop h)

theorem mutExpr_bu (k : Kind) (hk : k ≠ .ambiguous) (Γ : Env) (N N' : Expr)
    (hm : mutExpr k Γ N = some N') (ht : typeable Γ N = true) :
    typeable Γ N' = false ∧ ∀ st, explain Γ st N' = ⟨expectedKind k, st⟩ := by
  cases N with
  | lit t n => simp [mutExpr] at hm
  | var x =>
    cases k <;> simp only [mutExpr] at hm <;> try cases hm
    next y =>
    split at hm
    · next hy =>
      cases hm
      refine ⟨?_, fun st => by simp [explain, expectedKind]⟩
      rw [typeable_false_iff]
      intro t
      rw [Option.isNone_iff_eq_none] at hy
      simp [canTy, hy]
    · cases hm
  | app f q args keys =>
    have hargs := args_typeable_of_app ht
    obtain ⟨hkf, m0, hm0, ts0, hs0, hc0⟩ := app_typeable_meaning ht
    have hne : meanings Γ f q ≠ [] := by
      intro hl; rw [hl] at hm0; cases hm0
    cases k with
    | ambiguous => exact absurd rfl hk
    | assignConst c => simp [mutExpr] at hm
    | wrongReturnType t => simp [mutExpr] at hm
    | missingExport d => simp [mutExpr] at hm
    | wrongArgType a t =>
      simp only [mutExpr] at hm
      split at hm
      · next hc =>
        cases hm
        obtain ⟨ha, hall⟩ := hc
        have hmem : ∀ x ∈ args.set a (.lit t 0), typeable Γ x = true := by
          intro x hx
          rcases List.mem_or_eq_of_mem_set hx with h | h
          · exact hargs x h
          · rw [h]; exact typeable_lit Γ t 0
        refine ⟨?_, fun st => ?_⟩
        · apply app_untypeable_of_no_meaning
          intro m hm
          unfold fits
          rw [List.length_set]
          split
          · next ts hs =>
            cases hc : canTyArgs Γ (args.set a (.lit t 0)) ts with
            | false => rfl
            | true =>
              obtain ⟨hl, hi⟩ := (canTyArgs_iff_forall Γ _ _).1 hc
              rw [List.length_set] at hl
              have h1 := hi a (by rw [List.length_set]; exact ha) (by omega)
              simp only [List.getElem_set_self, canTy, beq_iff_eq] at h1
              have := List.all_eq_true.1 hall m hm
              rw [hs] at this
              simp only [bne_iff_ne, ne_eq] at this
              exact absurd (by rw [List.getElem?_eq_getElem (by omega), h1]) this
          · rfl
        · simp only [explain, explainArgs_none Γ st _ 0 hmem, hkf, Bool.not_true, Bool.false_eq_true,
            if_false, expectedKind, List.length_set]
          cases hl : meanings Γ f q with
          | nil => exact absurd hl hne
          | cons m ms =>
            have : (m :: ms).all (fun x => !(x.sig.shape args.length keys).isOk) = false := by
              apply Bool.eq_false_iff.2
              intro hall'
              have := List.all_eq_true.1 hall' m0 (by rw [← hl]; exact hm0)
              rw [hs0] at this
              simp [Shape.isOk] at this
            simp only [this, Bool.false_eq_true, if_false]
      · cases hm
    | wrongArgCount more =>
      cases more with
      | true =>
        simp only [mutExpr, if_true] at hm
        split at hm
        · next hc =>
          cases hm
          have := explain_allShape Γ f q _ keys .count (fun x hx => by
            rcases mem_take_append_drop hx with h | h
            · exact hargs x h
            · simp only [List.mem_singleton] at h; rw [h]; exact typeable_lit Γ _ 0) hkf hne hc.2.2 rfl
          simpa [expectedKind, shapeErr] using this
        · cases hm
      | false =>
        simp only [mutExpr, Bool.false_eq_true, if_false] at hm
        split at hm
        · next hc =>
          cases hm
          have := explain_allShape Γ f q _ keys .count
            (fun x hx => hargs x (List.mem_of_mem_eraseIdx hx)) hkf hne hc.2.2 rfl
          simpa [expectedKind, shapeErr] using this
        · cases hm
    | undefinedName y =>
      simp only [mutExpr] at hm
      split at hm
      · next hc =>
        cases hm
        obtain ⟨hp, he⟩ := hc
        have hnil : meanings Γ y q = [] := List.isEmpty_iff.1 he
        refine ⟨?_, fun st => ?_⟩
        · apply app_untypeable_of_no_meaning
          intro m hm; rw [hnil] at hm; cases hm
        · simp only [Bool.not_eq_true'] at hp
          simp [explain, explainArgs_none Γ st _ 0 hargs, hkf, hnil, hp, expectedKind]
      · cases hm
    | paramLacksOp y =>
      simp only [mutExpr] at hm
      split at hm
      · next hc =>
        cases hm
        obtain ⟨hp, he⟩ := hc
        have hnil : meanings Γ y q = [] := List.isEmpty_iff.1 he
        refine ⟨?_, fun st => ?_⟩
        · apply app_untypeable_of_no_meaning
          intro m hm; rw [hnil] at hm; cases hm
        · simp [explain, explainArgs_none Γ st _ 0 hargs, hkf, hnil, hp, expectedKind]
      · cases hm
    | unknownKeyword y =>
      have key : ∀ keys' : List String, (∀ x ∈ keys', x = y ∨ x ∈ keys) → (Γ.lookupVal y).isNone = true →
          allShape Γ f q args.length keys' .unknownKw = true →
          typeable Γ (.app f q args keys') = false ∧
            ∀ st, explain Γ st (.app f q args keys') = ⟨expectedKind (.unknownKeyword y), st⟩ := by
        intro keys' hsub hy hall
        have hkf' : keysFree Γ keys' = true := by
          unfold keysFree at hkf ⊢
          apply List.all_eq_true.2
          intro x hx
          rcases hsub x hx with h | h
          · rw [h]; exact hy
          · exact List.all_eq_true.1 hkf x h
        have := explain_allShape Γ f q args keys' .unknownKw hargs hkf' hne hall rfl
        simpa [expectedKind, shapeErr] using this
      cases hke : keys.isEmpty with
      | true =>
        simp only [mutExpr, hke, if_true] at hm
        split at hm
        · next hc =>
          cases hm
          exact key [y] (fun x hx => Or.inl (by simpa using hx)) hc.2.1 hc.2.2
        · cases hm
      | false =>
        simp only [mutExpr, hke, Bool.false_eq_true, if_false] at hm
        split at hm
        · next hc =>
          cases hm
          refine key _ (fun x hx => ?_) hc.2.1 hc.2.2
          simp only [List.mem_append, List.mem_singleton] at hx
          rcases hx with h | h
          · exact Or.inr (List.dropLast_subset _ h)
          · exact Or.inl h
        · cases hm
    | tooManyPositional =>
      simp only [mutExpr] at hm
      split at hm
      · next m0' ms hl =>
        split at hm
        · next hc =>
          cases hm
          have := explain_allShape Γ f q _ keys .count (fun x hx => by
            rcases mem_take_append_drop hx with h | h
            · exact hargs x h
            · rw [List.eq_of_mem_replicate h]; exact typeable_lit Γ _ 0) hkf hne hc.2 rfl
          simpa [expectedKind, shapeErr] using this
        · cases hm
      · cases hm
    | keywordDupPositional =>
      simp only [mutExpr] at hm
      split at hm
      · next m0' ms hl =>
        split at hm
        · next p0 ps hp =>
          split at hm
          · next hc =>
            cases hm
            obtain ⟨_, hfree, hall⟩ := hc
            have hkf' : keysFree Γ (keys ++ [p0.name]) = true := by
              unfold keysFree at hkf ⊢
              rw [List.all_append, hkf]
              simpa using hfree
            have := explain_allShape Γ f q (args ++ [.lit p0.ty 0]) _ .dupArg (fun x hx => by
              simp only [List.mem_append, List.mem_singleton] at hx
              rcases hx with h | h
              · exact hargs x h
              · rw [h]; exact typeable_lit Γ _ 0) hkf' hne (by simpa using hall) rfl
            simpa [expectedKind, shapeErr] using this
          · cases hm
        · cases hm
      · cases hm
    | omitRequired =>
      simp only [mutExpr] at hm
      split at hm
      · next m0' ms hl =>
        split at hm
        · next r hr =>
          split at hm
          · next hc =>
            cases hm
            have := explain_allShape Γ f q _ keys .count (fun x hx => by
              simp only [List.mem_append] at hx
              rcases hx with h | h
              · exact hargs x (List.mem_of_mem_take h)
              · exact hargs x (List.mem_of_mem_drop h)) hkf hne hc.2 rfl
            simpa [expectedKind, shapeErr] using this
          · cases hm
        · cases hm
      · cases hm

/-! ### descent to a node where the mutation makes the selection ambiguous (top-down fault) -/

mutual
theorem td_descend (Γ : Env) (F : Expr → Option Expr) (K : ErrKind)
    (hF : ∀ N N', F N = some N' → (∀ t, canTy Γ N' t = canTy Γ N t) ∧
            ∀ st t, checkTD Γ st N t = .ok () → checkTD Γ st N' t = .error ⟨K, st⟩) :
    ∀ (e : Expr) (π : Site) (e' : Expr), Expr.modAt F π e = some e' →
      (∀ t, canTy Γ e' t = canTy Γ e t) ∧
      ∀ site t, checkTD Γ site e t = .ok () → checkTD Γ site e' t = .error ⟨K, site ++ π⟩
  | e, [], e', hm => by
    simp only [Expr.modAt] at hm
    obtain ⟨h1, h2⟩ := hF e e' hm
    exact ⟨h1, fun site t h => by simpa using h2 site t h⟩
  | .app f q args keys, a :: π, e', hm => by
    simp only [Expr.modAt, Option.map_eq_some_iff] at hm
    obtain ⟨args', hma, rfl⟩ := hm
    obtain ⟨hlen, hc, hx⟩ := td_descend_args Γ F K hF args a π args' hma
    have hfit : ∀ σ, fits Γ args' keys σ = fits Γ args keys σ := by
      intro σ; unfold fits; rw [hlen]
      split
      · exact hc _
      · rfl
    have hcand : ∀ t, candidates Γ f q args' keys t = candidates Γ f q args keys t := by
      intro t; unfold candidates; congr 1; funext m; rw [hfit]
    refine ⟨?_, ?_⟩
    · intro t; rw [canTy_app, canTy_app]; congr 2; funext m; rw [hfit]
    · intro site t h
      simp only [checkTD, hcand, hlen] at h ⊢
      split at h
      · cases h
      · next hkf =>
        simp only [hkf]
        split at h
        · cases h
        · next m hcm =>
          split at h
          · next ts hs => simpa using hx site 0 ts h
          · cases h
        · cases h
  | .lit _ _, _ :: _, _, hm => by simp [Expr.modAt] at hm
  | .var _, _ :: _, _, hm => by simp [Expr.modAt] at hm
theorem td_descend_args (Γ : Env) (F : Expr → Option Expr) (K : ErrKind)
    (hF : ∀ N N', F N = some N' → (∀ t, canTy Γ N' t = canTy Γ N t) ∧
            ∀ st t, checkTD Γ st N t = .ok () → checkTD Γ st N' t = .error ⟨K, st⟩) :
    ∀ (as : List Expr) (a : Nat) (π : Site) (as' : List Expr), modArgs F a π as = some as' →
      as'.length = as.length ∧ (∀ ts, canTyArgs Γ as' ts = canTyArgs Γ as ts) ∧
      ∀ site i ts, checkTDArgs Γ site i as ts = .ok () →
        checkTDArgs Γ site i as' ts = .error ⟨K, site ++ (i + a) :: π⟩
  | [], _, _, _, hm => by simp [modArgs] at hm
  | e :: es, 0, π, as', hm => by
    simp only [modArgs, Option.map_eq_some_iff] at hm
    obtain ⟨e', hme, rfl⟩ := hm
    obtain ⟨h1, h2⟩ := td_descend Γ F K hF e π e' hme
    refine ⟨by simp, ?_, ?_⟩
    · intro ts
      cases ts with
      | nil => simp [canTyArgs]
      | cons t ts => simp [canTyArgs, h1]
    · intro site i ts h
      cases ts with
      | nil => simp [checkTDArgs] at h
      | cons t ts =>
        simp only [checkTDArgs] at h ⊢
        cases hc : checkTD Γ (site ++ [i]) e t with
        | error err => rw [hc] at h; cases h
        | ok u =>
          cases u
          rw [h2 (site ++ [i]) t hc]
          simp
  | e :: es, a + 1, π, as', hm => by
    simp only [modArgs, Option.map_eq_some_iff] at hm
    obtain ⟨es', hme, rfl⟩ := hm
    obtain ⟨hl, h1, h2⟩ := td_descend_args Γ F K hF es a π es' hme
    refine ⟨by simp [hl], ?_, ?_⟩
    · intro ts
      cases ts with
      | nil => simp [canTyArgs]
      | cons t ts => simp [canTyArgs, h1]
    · intro site i ts h
      cases ts with
      | nil => simp [checkTDArgs] at h
      | cons t ts =>
        simp only [checkTDArgs] at h ⊢
        cases hc : checkTD Γ (site ++ [i]) e t with
        | error err => rw [hc] at h; cases h
        | ok u =>
          cases u
          rw [hc] at h
          simp only at h ⊢
          rw [h2 site (i + 1) ts h]
          simp [Nat.add_assoc, Nat.add_comm 1 a]
end

theorem any_const {α : Type} (p : α → Bool) (b : Bool) : ∀ (l : List α), l ≠ [] →
    (∀ x ∈ l, p x = b) → l.any p = b
  | [], h, _ => absurd rfl h
  | [x], _, hp => by simp [hp x (by simp)]
  | x :: y :: r, _, hp => by
    have := any_const p b (y :: r) (by simp) (fun z hz => hp z (by simp [hz]))
    rw [List.any_cons, this, hp x (by simp)]
    cases b <;> rfl

theorem mutExpr_ambiguous (Γ : Env) (N N' : Expr) (hm : mutExpr .ambiguous Γ N = some N') :
    (∀ t, canTy Γ N' t = canTy Γ N t) ∧
    ∀ st t, checkTD Γ st N t = .ok () → checkTD Γ st N' t = .error ⟨.ambiguous, st⟩ := by
  cases N with
  | lit t n => simp [mutExpr] at hm
  | var x => simp [mutExpr] at hm
  | app f q args keys =>
    simp only [mutExpr] at hm
    split at hm
    · next Q m0 mq hq =>
      split at hm
      · next hc =>
        cases hm
        obtain ⟨h2, hqa, hna⟩ := hc
        have hqs : ∀ m ∈ meanings Γ f (some Q), m.sig = m0.sig := by
          intro m hm
          rw [hq] at hm
          cases hm with
          | head => rfl
          | tail _ h => simpa using List.all_eq_true.1 hqa m h
        have hns : ∀ m ∈ meanings Γ f none, m.sig = m0.sig := by
          intro m hm; simpa using List.all_eq_true.1 hna m hm
        have hqne : meanings Γ f (some Q) ≠ [] := by rw [hq]; simp
        have hnne : meanings Γ f none ≠ [] := by
          intro h; rw [h] at h2; simp at h2
        have hpred : ∀ (t : BTy) (l : List Meaning), (∀ m ∈ l, m.sig = m0.sig) →
            ∀ m ∈ l, (m.sig.res == t && fits Γ args keys m.sig) =
                     (m0.sig.res == t && fits Γ args keys m0.sig) := by
          intro t l hl m hm; rw [hl m hm]
        refine ⟨?_, ?_⟩
        · intro t
          rw [canTy_app, canTy_app]
          rw [any_const _ _ _ hnne (hpred t _ hns), any_const _ _ _ hqne (hpred t _ hqs)]
        · intro st t h
          simp only [checkTD] at h ⊢
          split at h
          · cases h
          · next hkf =>
            simp only [hkf]
            have hp0 : (m0.sig.res == t && fits Γ args keys m0.sig) = true := by
              split at h
              · cases h
              · next m hcm =>
                have hmem : m ∈ candidates Γ f (some Q) args keys t := by rw [hcm]; simp
                unfold candidates at hmem
                obtain ⟨hmm, hmp⟩ := List.mem_filter.1 hmem
                rw [← hpred t _ hqs m hmm]; exact hmp
              · cases h
            have hall : candidates Γ f none args keys t = meanings Γ f none := by
              unfold candidates
              apply List.filter_eq_self.2
              intro m hm
              rw [hpred t _ hns m hm]; exact hp0
            rw [hall]
            cases hl : meanings Γ f none with
            | nil => exact absurd hl hnne
            | cons x r =>
              cases r with
              | nil => rw [hl] at h2; simp at h2
              | cons y r => rfl
      · cases hm
    · cases hm

/-! ### from the node to the statement -/

theorem checkExpr_ok_parts {Γ : Env} {st : Site} {mk : ErrKind} {e : Expr} {t : BTy}
    (h : checkExpr Γ st mk e t = .ok ()) :
    typeable Γ e = true ∧ canTy Γ e t = true ∧ checkTD Γ (st ++ [0]) e t = .ok () := by
  unfold checkExpr at h
  cases h1 : typeable Γ e with
  | false => simp [h1] at h
  | true =>
    cases h2 : canTy Γ e t with
    | false => simp [h1, h2] at h
    | true => simpa [h1, h2] using h

/-- an expression-level fault inside a checked expression is reported at its site -/
theorem mutExpr_checkExpr (k : Kind) (Γ : Env) (st : Site) (mk : ErrKind) (e e' : Expr) (t : BTy)
    (π : Site) (hok : checkExpr Γ st mk e t = .ok ())
    (hm : Expr.modAt (mutExpr k Γ) π e = some e') :
    checkExpr Γ st mk e' t = .error ⟨expectedKind k, st ++ 0 :: π⟩ := by
  obtain ⟨h1, h2, h3⟩ := checkExpr_ok_parts hok
  by_cases hk : k = .ambiguous
  · subst hk
    obtain ⟨hc, hx⟩ := td_descend Γ _ .ambiguous (mutExpr_ambiguous Γ) e π e' hm
    have h1' : typeable Γ e' = true := canTy_typeable (t := t) (by rw [hc, h2])
    have h2' : canTy Γ e' t = true := by rw [hc, h2]
    unfold checkExpr
    simp only [h1', h2', Bool.not_true, Bool.false_eq_true, if_false]
    rw [hx _ _ h3]
    simp [expectedKind]
  · obtain ⟨hu, hx⟩ := bu_descend Γ _ (expectedKind k) (mutExpr_bu k hk Γ) e π e' (st ++ [0]) h1 hm
    unfold checkExpr
    simp [hu, hx]

theorem Stmt.binding_setExpr (s : Stmt) (e : Expr) : (s.setExpr e).binding = s.binding := by
  cases s <;> rfl

/-- **statement level**: the rewritten statement fails with the expected kind at the site -/
theorem mutStmt_error (k : Kind) (Γ : Env) (ret : Option BTy) (site r : Site) (s s' : Stmt)
    (hok : checkStmt Γ ret site s = .ok ()) (hm : mutStmt k Γ ret r s = some s') :
    checkStmt Γ ret site s' = .error ⟨expectedKind k, site ++ r⟩ ∧ s'.binding = s.binding := by
  unfold mutStmt at hm
  split at hm
  · -- the statement itself
    split at hm
    · next c x e =>
      split at hm
      · next v hv =>
        split at hm
        · next hc =>
          cases hm
          simp [checkStmt, hv, hc, expectedKind, Stmt.binding]
        · cases hm
      · cases hm
    · next _ t =>
      split at hm
      · next r =>
        split at hm
        · next hc =>
          cases hm
          obtain ⟨hv, hne⟩ := hc
          have h1 : typeable Γ (.lit t 0) = true := typeable_lit Γ t 0
          have h2 : canTy Γ (.lit t 0) r = false := by simp [canTy, hne]
          refine ⟨?_, Stmt.binding_setExpr s _⟩
          cases s with
          | defConst x t' e => simp [Stmt.isValuePos] at hv
          | defVar x t' e => simp [Stmt.isValuePos] at hv
          | assign x e => simp [Stmt.isValuePos] at hv
          | ret e => simp [checkStmt, Stmt.setExpr, checkExpr, h1, h2, expectedKind]
          | value e => simp [checkStmt, Stmt.setExpr, checkExpr, h1, h2, expectedKind]
          | exit c e =>
            simp only [checkStmt] at hok
            cases hl : Γ.lookupVal c with
            | none => rw [hl] at hok; cases hok
            | some v =>
              rw [hl] at hok
              by_cases hb : v.ty = .bool
              · simp [checkStmt, Stmt.setExpr, hl, hb, checkExpr, h1, h2, expectedKind]
              · simp [hb] at hok
        · cases hm
      · cases hm
    · cases hm
  · -- inside its expression
    next π =>
    have key : ∀ e', Expr.modAt (mutExpr k Γ) π s.expr = some e' →
        checkStmt Γ ret site (s.setExpr e') = .error ⟨expectedKind k, site ++ 0 :: π⟩ := by
      intro e' he
      cases s with
      | defConst x t e =>
        exact mutExpr_checkExpr k Γ site _ e e' t π (by simpa [checkStmt] using hok) he
      | defVar x t e =>
        exact mutExpr_checkExpr k Γ site _ e e' t π (by simpa [checkStmt] using hok) he
      | assign x e =>
        simp only [checkStmt, Stmt.setExpr] at hok ⊢
        cases hf : Γ.scopeVals.find? (·.name == x) with
        | none => rw [hf] at hok; cases hok
        | some v =>
          rw [hf] at hok
          simp only at hok ⊢
          cases hc : v.const with
          | true => rw [hc] at hok; simp at hok
          | false =>
            rw [hc] at hok
            simp only [Bool.false_eq_true, if_false] at hok ⊢
            exact mutExpr_checkExpr k Γ site _ e e' v.ty π hok he
      | ret e =>
        simp only [checkStmt, Stmt.setExpr] at hok ⊢
        cases ret with
        | none => cases hok
        | some r => exact mutExpr_checkExpr k Γ site _ e e' r π hok he
      | value e =>
        simp only [checkStmt, Stmt.setExpr] at hok ⊢
        cases ret with
        | none => cases hok
        | some r => exact mutExpr_checkExpr k Γ site _ e e' r π hok he
      | exit c e =>
        simp only [checkStmt, Stmt.setExpr] at hok ⊢
        cases ret with
        | none => cases hok
        | some r =>
          simp only at hok ⊢
          cases hl : Γ.lookupVal c with
          | none => rw [hl] at hok; cases hok
          | some v =>
            rw [hl] at hok
            simp only at hok ⊢
            by_cases hb : v.ty = .bool
            · simp only [hb, beq_self_eq_true, if_true] at hok ⊢
              exact mutExpr_checkExpr k Γ site _ e e' r π hok he
            · simp [hb] at hok
    cases k with
    | assignConst c => cases hm
    | wrongReturnType t => cases hm
    | missingExport d => cases hm
    | wrongArgType a t =>
      simp only [Option.map_eq_some_iff] at hm
      obtain ⟨e', he, rfl⟩ := hm
      exact ⟨key e' he, Stmt.binding_setExpr s e'⟩
    | wrongArgCount more =>
      simp only [Option.map_eq_some_iff] at hm
      obtain ⟨e', he, rfl⟩ := hm
      exact ⟨key e' he, Stmt.binding_setExpr s e'⟩
    | undefinedName y =>
      simp only [Option.map_eq_some_iff] at hm
      obtain ⟨e', he, rfl⟩ := hm
      exact ⟨key e' he, Stmt.binding_setExpr s e'⟩
    | ambiguous =>
      simp only [Option.map_eq_some_iff] at hm
      obtain ⟨e', he, rfl⟩ := hm
      exact ⟨key e' he, Stmt.binding_setExpr s e'⟩
    | paramLacksOp y =>
      simp only [Option.map_eq_some_iff] at hm
      obtain ⟨e', he, rfl⟩ := hm
      exact ⟨key e' he, Stmt.binding_setExpr s e'⟩
    | unknownKeyword y =>
      simp only [Option.map_eq_some_iff] at hm
      obtain ⟨e', he, rfl⟩ := hm
      exact ⟨key e' he, Stmt.binding_setExpr s e'⟩
    | tooManyPositional =>
      simp only [Option.map_eq_some_iff] at hm
      obtain ⟨e', he, rfl⟩ := hm
      exact ⟨key e' he, Stmt.binding_setExpr s e'⟩
    | keywordDupPositional =>
      simp only [Option.map_eq_some_iff] at hm
      obtain ⟨e', he, rfl⟩ := hm
      exact ⟨key e' he, Stmt.binding_setExpr s e'⟩
    | omitRequired =>
      simp only [Option.map_eq_some_iff] at hm
      obtain ⟨e', he, rfl⟩ := hm
      exact ⟨key e' he, Stmt.binding_setExpr s e'⟩
  · cases hm

/-! ### replacing one element of a list -/

theorem modNth_eq_some {α : Type} {l l' : List α} {i : Nat} {F : α → Option α}
    (h : modNth l i F = some l') : ∃ (hi : i < l.length) (x' : α), F l[i] = some x' ∧ l' = l.set i x' := by
  unfold modNth at h
  cases hg : l[i]? with
  | none => simp [hg] at h
  | some x =>
    obtain ⟨hi, hx⟩ := List.getElem?_eq_some_iff.1 hg
    simp only [hg, Option.map_eq_some_iff] at h
    obtain ⟨x', hF, rfl⟩ := h
    exact ⟨hi, x', by rw [hx]; exact hF, rfl⟩

theorem map_set_same {α β : Type} (f : α → β) : ∀ (l : List α) (i : Nat) (x' : α) (hi : i < l.length),
    f x' = f l[i] → (l.set i x').map f = l.map f
  | [], _, _, hi, _ => by simp at hi
  | x :: xs, 0, x', _, h => by simpa using h
  | x :: xs, i + 1, x', hi, h => by
    simp only [List.set_cons_succ, List.map_cons, List.cons.injEq, true_and]
    exact map_set_same f xs i x' (by simpa using hi) (by simpa using h)

theorem filterMap_set_same {α β : Type} (f : α → Option β) : ∀ (l : List α) (i : Nat) (x' : α)
    (hi : i < l.length), f x' = f l[i] → (l.set i x').filterMap f = l.filterMap f
  | [], _, _, hi, _ => by simp at hi
  | x :: xs, 0, x', _, h => by
    simp only [List.getElem_cons_zero] at h
    simp [List.filterMap_cons, h]
  | x :: xs, i + 1, x', hi, h => by
    simp only [List.set_cons_succ, List.filterMap_cons]
    rw [filterMap_set_same f xs i x' (by simpa using hi) (by simpa using h)]

theorem foldl_set_same {α β : Type} (f : β → α → β) : ∀ (l : List α) (i : Nat) (x' : α)
    (hi : i < l.length), (∀ b, f b x' = f b l[i]) → ∀ b, (l.set i x').foldl f b = l.foldl f b
  | [], _, _, hi, _, _ => by simp at hi
  | x :: xs, 0, x', _, h, b => by
    simp only [List.getElem_cons_zero] at h
    simp [h]
  | x :: xs, i + 1, x', hi, h, b => by
    simp only [List.set_cons_succ, List.foldl_cons]
    exact foldl_set_same f xs i x' (by simpa using hi) (by simpa using h) _

/-- the first error of a list check after one element was replaced by a failing one -/
theorem checkList_set_error {α : Type} (f : Nat → α → Except TypeErr Unit) (e : TypeErr)
    (l : List α) (i k : Nat) (x' : α) (hk : k < l.length)
    (hok : checkList f i l = .ok ()) (herr : f (i + k) x' = .error e) :
    checkList f i (l.set k x') = .error e := by
  have hall := (checkList_ok_iff f l i).1 hok
  refine checkList_first_error f e (l.set k x') i k (by simpa using hk) ?_ ?_
  · intro j hj
    rw [List.getElem_set_ne (by omega)]
    exact hall j (by omega)
  · rw [List.getElem_set_self]; exact herr

/-! ### function, declaration, program -/

theorem FunDef.modStmt_error (k : Kind) (Γ : Env) (site r : Site) (d d' : FunDef)
    (hok : checkFun Γ site d = .ok ()) (hm : d.modStmt (mutStmt k) Γ r = some d') :
    checkFun Γ site d' = .error ⟨expectedKind k, site ++ r⟩ ∧ d'.sig = d.sig := by
  cases r with
  | nil => simp [FunDef.modStmt] at hm
  | cons j r =>
    simp only [FunDef.modStmt, Option.map_eq_some_iff] at hm
    obtain ⟨b, hb, rfl⟩ := hm
    obtain ⟨hj, s', hs, rfl⟩ := modNth_eq_some hb
    have hbody : checkList (fun j s => checkStmt (Γ.enter d) (some d.res) (site ++ [j]) s) 0 d.body = .ok () := by
      unfold checkFun at hok
      split at hok
      · next h => exact h
      · cases hok
    have hsj := (checkList_ok_iff _ d.body 0).1 hbody j hj
    simp only [Nat.zero_add] at hsj
    obtain ⟨herr, hbind⟩ := mutStmt_error k (Γ.enter d) (some d.res) (site ++ [j]) r _ s' hsj hs
    have hloc : ({ d with body := d.body.set j s' } : FunDef).locals = d.locals := by
      simp only [FunDef.locals]
      rw [filterMap_set_same Stmt.binding d.body j s' hj hbind]
    have henter : Γ.enter { d with body := d.body.set j s' } = Γ.enter d := by
      simp only [Env.enter, hloc]
    refine ⟨?_, rfl⟩
    unfold checkFun
    simp only [henter]
    rw [checkList_set_error _ _ d.body 0 j s' hj hbody (by simpa using herr)]

theorem covers_congr (defs defs' : List FunDef) (sigs : List Sig)
    (h : defs'.map FunDef.sig = defs.map FunDef.sig) : covers defs' sigs = covers defs sigs := by
  have key : ∀ (ds : List FunDef) (σ : Sig),
      ds.any (fun d => implements d.sig σ) = (ds.map FunDef.sig).any (fun x => implements x σ) := by
    intro ds σ; rw [List.any_map]; rfl
  unfold covers
  congr 1; funext σ
  rw [key, key, h]

theorem checkAdd_modStmt_error (k : Kind) (g : GEnv) (site : Site) (param : Option (String × String))
    (c : String) (defs defs' : List FunDef) (di : Nat) (r : Site)
    (hok : checkAdd g site param c defs = .ok ())
    (hm : modNth defs di (fun d => d.modStmt (mutStmt k)
            { g := g, param := param, sibs := defs.map FunDef.sig } r) = some defs') :
    checkAdd g site param c defs' = .error ⟨expectedKind k, site ++ di :: r⟩ := by
  obtain ⟨hdi, d', hd, rfl⟩ := modNth_eq_some hm
  unfold checkAdd at hok ⊢
  cases hc : g.catDefined c with
  | false => simp [hc] at hok
  | true =>
    cases hv : covers defs (g.catSigs c) with
    | false => simp [hc, hv] at hok
    | true =>
      simp only [hc, hv, Bool.not_true, Bool.false_eq_true, if_false] at hok
      have hdk := (checkList_ok_iff _ defs 0).1 hok di hdi
      simp only [Nat.zero_add] at hdk
      obtain ⟨herr, hsig⟩ := FunDef.modStmt_error k _ (site ++ [di]) r _ d' hdk hd
      have hmap : (defs.set di d').map FunDef.sig = defs.map FunDef.sig :=
        map_set_same FunDef.sig defs di d' hdi hsig
      simp only [covers_congr defs _ _ hmap, hv, hmap, Bool.not_true, Bool.false_eq_true, if_false]
      exact checkList_set_error _ _ defs 0 di d' hdi hok (by simpa using herr)

theorem Decl.modStmt_error (k : Kind) (g : GEnv) (i : Nat) (r : Site) (d d' : Decl)
    (hok : checkDecl g i d = .ok ()) (hm : d.modStmt (mutStmt k) g r = some d') :
    checkDecl g i d' = .error ⟨expectedKind k, i :: r⟩ ∧ ∀ g0 : GEnv, g0.addDecl d' = g0.addDecl d := by
  cases d with
  | cat n sigs => simp [Decl.modStmt] at hm
  | imp n => simp [Decl.modStmt] at hm
  | stmt s =>
    simp only [Decl.modStmt, Option.map_eq_some_iff] at hm
    obtain ⟨s', hs, rfl⟩ := hm
    obtain ⟨herr, hb⟩ := mutStmt_error k { g := g } none [i] r s s' (by simpa [checkDecl] using hok) hs
    exact ⟨by simpa [checkDecl] using herr, fun g0 => by simp [GEnv.addDecl, hb]⟩
  | func fd =>
    simp only [Decl.modStmt, Option.map_eq_some_iff] at hm
    obtain ⟨fd', hs, rfl⟩ := hm
    obtain ⟨herr, hsig⟩ := FunDef.modStmt_error k { g := g } [i] r fd fd' (by simpa [checkDecl] using hok) hs
    exact ⟨by simpa [checkDecl] using herr, fun g0 => by simp [GEnv.addDecl, hsig]⟩
  | dom n c defs =>
    cases r with
    | nil => simp [Decl.modStmt] at hm
    | cons di r =>
      simp only [Decl.modStmt, Option.map_eq_some_iff] at hm
      obtain ⟨defs', hs, rfl⟩ := hm
      have := checkAdd_modStmt_error k g [i] none c defs defs' di r (by simpa [checkDecl] using hok) hs
      exact ⟨by simpa [checkDecl] using this, fun g0 => by simp [GEnv.addDecl]⟩
  | functor n T pc c defs =>
    cases r with
    | nil => simp [Decl.modStmt] at hm
    | cons di r =>
      simp only [Decl.modStmt, Option.map_eq_some_iff] at hm
      obtain ⟨defs', hs, rfl⟩ := hm
      simp only [checkDecl] at hok ⊢
      cases hp : g.catDefined pc with
      | false => simp [hp] at hok
      | true =>
        simp only [hp, Bool.not_true, Bool.false_eq_true, if_false] at hok ⊢
        have := checkAdd_modStmt_error k g [i] (some (T, pc)) c defs defs' di r hok hs
        exact ⟨by simpa using this, fun g0 => by simp [GEnv.addDecl]⟩

theorem Decl.dropDef_error (g : GEnv) (i di : Nat) (d d' : Decl)
    (hok : checkDecl g i d = .ok ()) (hm : d.dropDef g di = some d') :
    checkDecl g i d' = .error ⟨.missingExport, [i]⟩ ∧ ∀ g0 : GEnv, g0.addDecl d' = g0.addDecl d := by
  cases d with
  | cat n sigs => simp [Decl.dropDef] at hm
  | imp n => simp [Decl.dropDef] at hm
  | stmt s => simp [Decl.dropDef] at hm
  | func fd => simp [Decl.dropDef] at hm
  | dom n c defs =>
    simp only [Decl.dropDef] at hm
    split at hm
    · next h =>
      cases hm
      simp only [checkDecl, checkAdd] at hok ⊢
      cases hc : g.catDefined c with
      | false => simp [hc] at hok
      | true =>
        have hcov : covers (defs.eraseIdx di) (g.catSigs c) = false := by simpa using h.2
        exact ⟨by simp [hcov], fun g0 => by simp [GEnv.addDecl]⟩
    · cases hm
  | functor n T pc c defs =>
    simp only [Decl.dropDef] at hm
    split at hm
    · next h =>
      cases hm
      simp only [checkDecl, checkAdd] at hok ⊢
      cases hp : g.catDefined pc with
      | false => simp [hp] at hok
      | true =>
        cases hc : g.catDefined c with
        | false => simp [hp, hc] at hok
        | true =>
          have hcov : covers (defs.eraseIdx di) (g.catSigs c) = false := by simpa using h.2
          exact ⟨by simp [hcov], fun g0 => by simp [GEnv.addDecl]⟩
    · cases hm

/-- replacing declaration `i` of a well-typed program by one with the same contribution to the
file-level environment that fails with `e` makes the whole check fail with `e` -/
theorem typecheck_set_error (p : Prog) (i : Nat) (d' : Decl) (e : TypeErr) (hi : i < p.length)
    (hok : typecheck p = .ok ()) (henv : ∀ g0 : GEnv, g0.addDecl d' = g0.addDecl p[i])
    (herr : checkDecl (globalEnv p) i d' = .error e) : typecheck (p.set i d') = .error e := by
  have hg : globalEnv (p.set i d') = globalEnv p := by
    unfold globalEnv
    exact foldl_set_same GEnv.addDecl p i d' hi henv _
  unfold typecheck at hok ⊢
  rw [hg]
  exact checkList_set_error _ _ p 0 i d' hi hok (by simpa using herr)

end AldorVerif.MiniTy
