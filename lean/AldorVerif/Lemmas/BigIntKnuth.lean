import AldorVerif.Lemmas.BigIntDiv
/-! Knuth's Algorithm D as `iintDivide` runs it (core Lean only). -/
namespace AldorVerif.BigInt

/-! ### D4: multiply and subtract -/

theorem minusStep_one {a b : Nat} (ha : a < R) (hb : b < R) :
    (minusStep a b 1).2 + R * (minusStep a b 1).1 + b = a + R ∧ (minusStep a b 1).2 < R ∧ (minusStep a b 1).1 ≤ 1 := by
  obtain ⟨e, h1, h2⟩ := minusStep_spec ha hb (Nat.le_refl 1)
  exact ⟨by omega, h1, h2⟩

theorem mul_digits_le {a b : Nat} (ha : a < R) (hb : b < R) : a * b ≤ (R - 1) * (R - 1) :=
  Nat.mul_le_mul (by omega) (by omega)

/-- one place of step D4 -/
theorem mulSubPlace_spec {qhat vi ujj k : Nat} (hq : qhat < R) (hv : vi < R) (hu : ujj < R) (hk : k < R) :
    (mulSubPlace qhat vi ujj k).1 + qhat * vi + k = ujj + R * (mulSubPlace qhat vi ujj k).2 ∧
    (mulSubPlace qhat vi ujj k).1 < R ∧ (mulSubPlace qhat vi ujj k).2 < R := by
  have hR := R_eq
  have ht : qhat * vi ≤ (R - 1) * (R - 1) := mul_digits_le hq hv
  unfold mulSubPlace
  simp only
  generalize qhat * vi = t at *
  have htm : t % R < R := Nat.mod_lt _ R_pos
  have hdm := Nat.div_add_mod t R
  obtain ⟨e1, l1, c1⟩ := minusStep_one hu htm
  generalize minusStep ujj (t % R) 1 = s1 at *
  obtain ⟨k1, x1⟩ := s1
  simp only at e1 l1 c1 ⊢
  obtain ⟨e2, l2, c2⟩ := minusStep_one l1 hk
  generalize minusStep x1 k 1 = s2 at *
  obtain ⟨k2, x2⟩ := s2
  simp only at e2 l2 c2 ⊢
  generalize t / R = th at *
  generalize t % R = tl at *
  clear hR
  simp only [R_eq] at *
  have hk1 : k1 = 0 ∨ k1 = 1 := by omega
  have hk2 : k2 = 0 ∨ k2 = 1 := by omega
  rcases hk1 with h | h <;> rcases hk2 with h' | h' <;> subst h <;> subst h' <;> simp only [if_true, if_false, Nat.one_ne_zero, Nat.add_zero]
  · have a1 : (th + 1) % 4294967296 = th + 1 := Nat.mod_eq_of_lt (by omega)
    rw [a1]
    have a2 : (th + 1 + 1) % 4294967296 = th + 1 + 1 := Nat.mod_eq_of_lt (by omega)
    rw [a2]; omega
  · have a1 : (th + 1) % 4294967296 = th + 1 := Nat.mod_eq_of_lt (by omega)
    rw [a1, a1]; omega
  · have a0 : th % 4294967296 = th := Nat.mod_eq_of_lt (by omega)
    rw [a0]
    have a1 : (th + 1) % 4294967296 = th + 1 := Nat.mod_eq_of_lt (by omega)
    rw [a1]; omega
  · have a0 : th % 4294967296 = th := Nat.mod_eq_of_lt (by omega)
    rw [a0, a0]; omega

theorem mulSubLoop_spec {qhat : Nat} (hq : qhat < R) : ∀ {win vs : List Nat} {k : Nat}, Digits win → Digits vs →
    vs.length ≤ win.length → k < R →
    natVal (mulSubLoop qhat win vs k).1 + qhat * natVal vs + k
      = natVal win + R ^ win.length * (mulSubLoop qhat win vs k).2 ∧
    Digits (mulSubLoop qhat win vs k).1 ∧ (mulSubLoop qhat win vs k).1.length = win.length ∧
    (mulSubLoop qhat win vs k).2 < R := by
  intro win
  induction win with
  | nil =>
    intro vs k _ _ hl hk
    have : vs = [] := by cases vs with
      | nil => rfl
      | cons _ _ => simp at hl
    subst this
    refine ⟨?_, Digits.nil, rfl, hk⟩
    show 0 + qhat * 0 + k = 0 + R ^ 0 * k
    simp
  | cons ujj us ih =>
    intro vs k hw hv hl hk
    obtain ⟨e, l2, lk⟩ := mulSubPlace_spec hq (headD_lt hv) hw.head hk
    have hlt : vs.tail.length ≤ us.length := by
      cases vs with
      | nil => simp
      | cons _ _ => simpa using hl
    obtain ⟨v, dg, len, kf⟩ := ih hw.tail (tail_digits hv) hlt lk
    have eq : mulSubLoop qhat (ujj :: us) vs k =
        ((mulSubPlace qhat (vs.headD 0) ujj k).1 :: (mulSubLoop qhat us vs.tail (mulSubPlace qhat (vs.headD 0) ujj k).2).1,
         (mulSubLoop qhat us vs.tail (mulSubPlace qhat (vs.headD 0) ujj k).2).2) := rfl
    rw [eq]
    refine ⟨?_, Digits.cons l2 dg, by rw [List.length_cons, len, List.length_cons], kf⟩
    simp only [natVal_cons, List.length_cons, Nat.pow_succ]
    have ht := headD_tail_natVal vs
    rw [← ht]
    -- X + qhat*T + c = U + P*kfin ;  x2 + qhat*vi + k = ujj + R*c
    have v' := congrArg (R * ·) v
    simp only [Nat.mul_add] at v'
    rw [Nat.mul_add, Nat.mul_comm (R ^ us.length) R, Nat.mul_assoc]
    rw [← Nat.mul_assoc R qhat, Nat.mul_comm R qhat, Nat.mul_assoc qhat R] at v'
    omega

/-! ### D6: add back -/

theorem addBackLoop_spec : ∀ {win vs : List Nat} {k : Nat}, Digits win → Digits vs → vs.length ≤ win.length → k ≤ 1 →
    (∃ kf, kf ≤ 1 ∧ natVal (addBackLoop win vs k) + R ^ win.length * kf = natVal win + natVal vs + k) ∧
    Digits (addBackLoop win vs k) ∧ (addBackLoop win vs k).length = win.length := by
  intro win
  induction win with
  | nil =>
    intro vs k _ _ hl hk
    have : vs = [] := by cases vs with
      | nil => rfl
      | cons _ _ => simp at hl
    subst this
    exact ⟨⟨k, hk, by simp [addBackLoop]⟩, Digits.nil, rfl⟩
  | cons u us ih =>
    intro vs k hw hv hl hk
    obtain ⟨e, l2, lk⟩ := plusStep_spec (headD_lt hv) hw.head hk
    have hlt : vs.tail.length ≤ us.length := by
      cases vs with
      | nil => simp
      | cons _ _ => simpa using hl
    obtain ⟨⟨kf, hkf, v⟩, dg, len⟩ := ih hw.tail (tail_digits hv) hlt lk
    have eq : addBackLoop (u :: us) vs k =
        (plusStep (vs.headD 0) u k).2 :: addBackLoop us vs.tail (plusStep (vs.headD 0) u k).1 := rfl
    rw [eq]
    refine ⟨⟨kf, hkf, ?_⟩, Digits.cons l2 dg, by rw [List.length_cons, len, List.length_cons]⟩
    simp only [natVal_cons, List.length_cons, Nat.pow_succ]
    have ht := headD_tail_natVal vs
    rw [← ht]
    have v' := congrArg (R * ·) v
    simp only [Nat.mul_add] at v'
    rw [Nat.mul_comm (R ^ us.length) R, Nat.mul_assoc]
    omega

/-! ### D3: the estimate of the quotient digit -/

/-- the double place comparison of the correction loop -/
theorem isGT_iff {t rhat uj2 : Nat} (hu : uj2 < R) :
    (decide (t / R > rhat) || (decide (t / R = rhat) && decide (t % R > uj2))) = true ↔ t > rhat * R + uj2 := by
  have hdm := Nat.div_add_mod t R
  have hm := Nat.mod_lt t R_pos
  simp only [Bool.or_eq_true, Bool.and_eq_true, decide_eq_true_eq]
  constructor
  · rintro (h | ⟨h1, h2⟩)
    · have : (rhat + 1) * R ≤ t / R * R := Nat.mul_le_mul_right R h
      rw [Nat.add_mul, Nat.one_mul, Nat.mul_comm (t / R) R] at this
      omega
    · subst h1; rw [Nat.mul_comm (t / R) R]; omega
  · intro h
    by_cases h1 : t / R > rhat
    · exact Or.inl h1
    · right
      have hle : t / R ≤ rhat := by omega
      have : t / R = rhat := by
        rcases Nat.lt_or_ge (t / R) rhat with hlt | hge
        · exfalso
          have : (t / R + 1) * R ≤ rhat * R := Nat.mul_le_mul_right R hlt
          rw [Nat.add_mul, Nat.one_mul, Nat.mul_comm (t / R) R] at this
          omega
        · omega
      refine ⟨this, ?_⟩
      rw [← this, Nat.mul_comm (t / R) R] at h
      omega

theorem qhatLoop_spec {v1 v2 uj2 N2 q : Nat} (hv1 : v1 < R) (hv2 : v2 < R) (hu2 : uj2 < R)
    (hq : q * (v1 * R + v2) ≤ N2 * R + uj2) :
    ∀ (f qhat rhat c : Nat), qhat * v1 + rhat = N2 → rhat < R → qhat < R → q ≤ qhat → R ≤ rhat + f * v1 →
      q ≤ (qhatLoop v1 v2 uj2 f qhat rhat c).1 ∧
      (qhatLoop v1 v2 uj2 f qhat rhat c).1 * (v1 * R + v2) ≤ N2 * R + uj2 ∧
      (qhatLoop v1 v2 uj2 f qhat rhat c).1 < R ∧ (qhatLoop v1 v2 uj2 f qhat rhat c).2.2 = 0 := by
  intro f
  induction f with
  | zero => intro qhat rhat c _ hr _ _ hf; simp at hf; omega
  | succ f ih =>
    intro qhat rhat c hinv hr hqh hqle hf
    have hgt := isGT_iff (t := v2 * qhat) (rhat := rhat) hu2
    unfold qhatLoop
    simp only
    -- qhat * (v1 R + v2) and N2 R expanded
    have eL : qhat * (v1 * R + v2) = qhat * v1 * R + v2 * qhat := by
      rw [Nat.mul_add, Nat.mul_assoc, Nat.mul_comm qhat v2]
    have eN : N2 * R = qhat * v1 * R + rhat * R := by rw [← hinv, Nat.add_mul]
    cases hc : (decide (v2 * qhat / R > rhat) || (decide (v2 * qhat / R = rhat) && decide (v2 * qhat % R > uj2))) with
    | false =>
      simp only [Bool.not_false, if_true]
      have hng : ¬ v2 * qhat > rhat * R + uj2 := fun h => by rw [hgt.mpr h] at hc; cases hc
      exact ⟨hqle, by rw [eL, eN]; omega, hqh, by first | rfl | trivial⟩
    | true =>
      simp only [Bool.not_true, Bool.false_eq_true, if_false]
      have hg : v2 * qhat > rhat * R + uj2 := hgt.mp hc
      -- the estimate is still too large
      have hlt : q < qhat := by
        rcases Nat.lt_or_ge q qhat with h | h
        · exact h
        · exfalso
          have : qhat = q := by omega
          subst this
          rw [eL, eN] at hq; omega
      have hdec : (qhat + R - 1) % R = qhat - 1 := by
        have : qhat + R - 1 = qhat - 1 + R := by omega
        rw [this, Nat.add_mod_right, Nat.mod_eq_of_lt (by omega)]
      rw [hdec]
      obtain ⟨e, l2, lk⟩ := plusStep_spec hr hv1 (Nat.zero_le 1)
      have hinv' : (qhat - 1) * v1 + (rhat + v1) = N2 := by
        have : qhat = (qhat - 1) + 1 := by omega
        rw [← hinv]; conv => rhs; rw [this, Nat.add_mul]
        omega
      by_cases hov : (plusStep rhat v1 0).1 ≠ 0
      · simp only [hov, ne_eq, not_false_eq_true, if_true]
        refine ⟨by omega, ?_, by omega, by first | rfl | trivial⟩
        have hk1 : (plusStep rhat v1 0).1 = 1 := by omega
        rw [hk1] at e
        have eL' : (qhat - 1) * (v1 * R + v2) = (qhat - 1) * v1 * R + (qhat - 1) * v2 := by
          rw [Nat.mul_add, Nat.mul_assoc]
        have eN' : N2 * R = (qhat - 1) * v1 * R + (rhat + v1) * R := by rw [← hinv', Nat.add_mul]
        have hb : (qhat - 1) * v2 < R * R := Nat.mul_lt_mul'' (by omega) hv2
        have hb2 : R * R ≤ (rhat + v1) * R := Nat.mul_le_mul_right R (by omega)
        rw [eL', eN']; omega
      · have hk0 : (plusStep rhat v1 0).1 = 0 := by omega
        simp only [hk0, ne_eq, not_true_eq_false, if_false]
        rw [hk0] at e
        have hr' : (plusStep rhat v1 0).2 = rhat + v1 := by omega
        rw [hr']
        exact ih (qhat - 1) (rhat + v1) (c + 1) hinv' (by omega) (by omega) (by omega)
          (by rw [Nat.succ_mul] at hf; omega)

theorem mkQhat_fst (b : Bool) (r : Nat × Nat × Nat) : (mkQhat b r).1 = r.1 := by
  obtain ⟨x, y⟩ := r; exact rfl

/-- step D3 yields an estimate `qhat` with `q ≤ qhat` and `qhat * V2 ≤ U3` -/
theorem computeQhat_spec {v1 v2 uj0 uj1 uj2 q : Nat} (hv1 : v1 < R) (hv2 : v2 < R) (h0 : uj0 ≤ v1)
    (hu1 : uj1 < R) (hu2 : uj2 < R) (hnorm : R ≤ 2 * v1) (hqR : q < R)
    (hq : q * (v1 * R + v2) ≤ (uj0 * R + uj1) * R + uj2) :
    q ≤ (computeQhat v1 v2 uj0 uj1 uj2).1 ∧
    (computeQhat v1 v2 uj0 uj1 uj2).1 * (v1 * R + v2) ≤ (uj0 * R + uj1) * R + uj2 ∧
    (computeQhat v1 v2 uj0 uj1 uj2).1 < R := by
  have hR := R_eq
  unfold computeQhat
  by_cases heq : uj0 = v1
  · subst heq
    simp only [if_true]
    obtain ⟨e, l2, lk⟩ := plusStep_spec hu1 hv1 (Nat.zero_le 1)
    by_cases hov : (plusStep uj1 uj0 0).1 = 0
    · rw [if_pos hov]
      rw [hov] at e
      have hr' : (plusStep uj1 uj0 0).2 = uj1 + uj0 := by omega
      rw [hr']
      have hinv : (R - 1) * uj0 + (uj1 + uj0) = uj0 * R + uj1 := by
        rw [Nat.sub_mul, Nat.one_mul, Nat.mul_comm R uj0]
        have : uj0 ≤ uj0 * R := Nat.le_mul_of_pos_right _ R_pos
        omega
      have := qhatLoop_spec hv1 hv2 hu2 hq 2 (R - 1) (uj1 + uj0) 0 hinv (by omega) (by omega) (by omega) (by omega)
      rw [mkQhat_fst]
      exact ⟨this.1, this.2.1, this.2.2.1⟩
    · rw [if_neg hov]
      have hk1 : (plusStep uj1 uj0 0).1 = 1 := by omega
      rw [hk1] at e
      refine ⟨by omega, ?_, by omega⟩
      have eL : (R - 1) * (uj0 * R + v2) = uj0 * R * R + (R - 1) * v2 - uj0 * R := by
        rw [Nat.mul_add, Nat.sub_mul, Nat.one_mul, Nat.mul_comm R (uj0 * R)]
        have : uj0 * R ≤ uj0 * R * R := Nat.le_mul_of_pos_right _ R_pos
        omega
      have hb : (R - 1) * v2 ≤ (R - 1) * (R - 1) := Nat.mul_le_mul_left _ (by omega)
      have hb2 : (uj0 + uj1) * R ≥ R * R := Nat.mul_le_mul_right R (by omega)
      rw [Nat.add_mul] at hb2
      rw [eL, Nat.add_mul]
      have : (R - 1) * (R - 1) < R * R := by rw [hR]; omega
      omega
  · have hlt : uj0 < v1 := by omega
    simp only [if_neg heq]
    have hv1p : 0 < v1 := by omega
    obtain ⟨e1, e2, l1, l2⟩ := divideDouble_spec hv1p (Nat.le_of_lt hv1) hlt hu1
    rw [e1, e2]
    have hdm := Nat.div_add_mod (uj0 * R + uj1) v1
    have hinv : (uj0 * R + uj1) / v1 * v1 + (uj0 * R + uj1) % v1 = uj0 * R + uj1 := by
      rw [Nat.mul_comm]; exact hdm
    have hmod : (uj0 * R + uj1) % v1 < v1 := Nat.mod_lt _ hv1p
    have hqle : q ≤ (uj0 * R + uj1) / v1 := by
      apply (Nat.le_div_iff_mul_le hv1p).mpr
      -- q * v1 * R ≤ q * V2 ≤ N2 R + uj2 < (N2 + 1) R
      have h1 : q * v1 * R ≤ q * (v1 * R + v2) := by
        rw [Nat.mul_add, Nat.mul_assoc]; omega
      have h2 : q * v1 * R < (uj0 * R + uj1 + 1) * R := by
        rw [Nat.add_mul (uj0 * R + uj1) 1 R, Nat.one_mul]; omega
      have := Nat.lt_of_mul_lt_mul_right h2
      omega
    rw [e1] at l1
    have := qhatLoop_spec hv1 hv2 hu2 hq 2 ((uj0 * R + uj1) / v1) ((uj0 * R + uj1) % v1) 0 hinv (by omega) l1 hqle (by omega)
    rw [mkQhat_fst]
    exact ⟨this.1, this.2.1, this.2.2.1⟩

/-! ### one pass D3–D6 -/

theorem quot_V2_le (q V W P Wl Vl U3 V2 : Nat) (hW : W = Wl + P * U3) (hV : V = Vl + P * V2) (hWl : Wl < P)
    (hqV : q * V ≤ W) : q * V2 ≤ U3 := by
  have h1 : P * (q * V2) ≤ q * V := by
    rw [hV, Nat.mul_add]
    have : q * (P * V2) = P * (q * V2) := by grind
    omega
  have h2 : P * (q * V2) < P * (U3 + 1) := by
    rw [Nat.mul_add, Nat.mul_one]; omega
  have := Nat.lt_of_mul_lt_mul_left h2
  omega

theorem qhat_pred_mul_le (W V P Wl Vl U3 V2 qhat : Nat) (hW : W = Wl + P * U3) (hV : V = Vl + P * V2)
    (hVl : Vl < P) (hq : qhat * V2 ≤ U3) (hle : qhat ≤ V2 + 1) : (qhat - 1) * V ≤ W := by
  rcases Nat.eq_zero_or_pos qhat with h0 | hpos
  · subst h0; simp
  · obtain ⟨k, rfl⟩ : ∃ k, qhat = k + 1 := ⟨qhat - 1, by omega⟩
    simp only [Nat.add_sub_cancel]
    have h1 : k * Vl ≤ k * P := Nat.mul_le_mul_left k (Nat.le_of_lt hVl)
    have h2 : (k + 1) * V2 = k * V2 + V2 := by grind
    have h3 : k * V = k * Vl + P * (k * V2) := by rw [hV]; grind
    have h4 : P * (k * V2 + k) ≤ P * U3 := Nat.mul_le_mul_left P (by omega)
    have h5 : P * (k * V2 + k) = P * (k * V2) + k * P := by grind
    omega

/-- top place of the window is at most the top place of the divisor when `W < V * R` -/
theorem top_le (W V P Wl Vl uj0 uj1 uj2 v1 v2 : Nat) (hW : W = Wl + P * ((uj0 * R + uj1) * R + uj2))
    (hV : V = Vl + P * (v1 * R + v2)) (hVl : Vl < P) (hv2 : v2 < R) (hlt : W < V * R) : uj0 ≤ v1 := by
  rcases Nat.lt_or_ge v1 uj0 with h | h
  · exfalso
    -- V * R < P * R * R * (v1 + 1) ≤ W
    have h1 : V * R < P * (R * R * (v1 + 1)) := by
      have e : V * R = Vl * R + P * ((v1 * R + v2) * R) := by rw [hV]; grind
      have a : Vl * R < P * R := Nat.mul_lt_mul_of_pos_right hVl R_pos
      have b : (v1 * R + v2) * R + R ≤ R * R * (v1 + 1) := by
        have : (v1 * R + v2) * R + R = R * (v1 * R) + R * (v2 + 1) := by grind
        have h2 : R * (v2 + 1) ≤ R * R := Nat.mul_le_mul_left R (by omega)
        have : R * R * (v1 + 1) = R * (v1 * R) + R * R := by grind
        omega
      have c := Nat.mul_le_mul_left P b
      have : P * ((v1 * R + v2) * R + R) = P * ((v1 * R + v2) * R) + P * R := by grind
      omega
    have h2 : P * (R * R * (v1 + 1)) ≤ W := by
      have a : R * R * (v1 + 1) ≤ R * R * uj0 := Nat.mul_le_mul_left _ h
      have b : R * R * uj0 ≤ (uj0 * R + uj1) * R + uj2 := by
        have : (uj0 * R + uj1) * R + uj2 = R * R * uj0 + uj1 * R + uj2 := by grind
        omega
      have c := Nat.mul_le_mul_left P (Nat.le_trans a b)
      omega
    omega
  · exact h

theorem list_rev3 (wrest : List Nat) (a b c : Nat) :
    (wrest ++ [a, b, c]).reverse = c :: b :: a :: wrest.reverse := by simp

theorem natVal_top3 (wrest : List Nat) (uj2 uj1 uj0 : Nat) :
    natVal (wrest ++ [uj2, uj1, uj0]) = natVal wrest + R ^ wrest.length * ((uj0 * R + uj1) * R + uj2) := by
  rw [natVal_append]; simp only [natVal_cons, natVal_nil]; congr 1; congr 1; grind

theorem natVal_top2 (vrest : List Nat) (v2 v1 : Nat) :
    natVal (vrest ++ [v2, v1]) = natVal vrest + R ^ vrest.length * (v1 * R + v2) := by
  rw [natVal_append]; simp only [natVal_cons, natVal_nil]; congr 1; congr 1; grind

/-- one pass of the main loop: exact quotient digit and remainder window -/
theorem divStep_spec {v win vrest wrest : List Nat} {v1 v2 uj0 uj1 uj2 : Nat}
    (hv : Digits v) (hw : Digits win) (hvr : v = vrest ++ [v2, v1]) (hwr : win = wrest ++ [uj2, uj1, uj0])
    (hlen : wrest.length = vrest.length) (hnorm : R ≤ 2 * v1) (hlt : natVal win < natVal v * R) :
    ∀ res, divStep v v1 v2 win = res →
      natVal win = res.1 * natVal v + natVal res.2.1 ∧ natVal res.2.1 < natVal v ∧ Digits res.2.1 ∧
      res.2.1.length = win.length ∧ res.1 < R := by
  intro res hres
  have hR := R_eq
  -- digits
  have hv1 : v1 < R := hv v1 (by rw [hvr]; simp)
  have hv2 : v2 < R := hv v2 (by rw [hvr]; simp)
  have hu0 : uj0 < R := hw uj0 (by rw [hwr]; simp)
  have hu1 : uj1 < R := hw uj1 (by rw [hwr]; simp)
  have hu2 : uj2 < R := hw uj2 (by rw [hwr]; simp)
  have hvrd : Digits vrest := by rw [hvr] at hv; exact hv.of_append_left
  have hwrd : Digits wrest := by rw [hwr] at hw; exact hw.of_append_left
  have hVl := natVal_lt hvrd
  have hWl := natVal_lt hwrd
  rw [hlen] at hWl
  have hV := natVal_top2 vrest v2 v1
  have hW := natVal_top3 wrest uj2 uj1 uj0
  rw [hlen] at hW
  rw [← hvr] at hV
  rw [← hwr] at hW
  have hvlen : v.length = vrest.length + 2 := by rw [hvr]; simp
  have hwlen : win.length = v.length + 1 := by rw [hwr, hvr]; simp; omega
  generalize hVd : natVal v = V at *
  generalize hWd : natVal win = W at *
  generalize natVal vrest = Vl at *
  generalize natVal wrest = Wl at *
  generalize hPdef : R ^ vrest.length = P at *
  have hPpos : 0 < P := by rw [← hPdef]; exact Nat.pow_pos R_pos
  have hVpos : 0 < V := by
    have : 0 < P * (v1 * R + v2) := Nat.mul_pos hPpos (by have : 0 < v1 * R := Nat.mul_pos (by omega) R_pos; omega)
    omega
  -- the true quotient digit
  have hqR : W / V < R := Nat.div_lt_of_lt_mul hlt
  have hqV : W / V * V ≤ W := Nat.div_mul_le_self W V
  have hq2 := quot_V2_le (W / V) V W P Wl Vl _ _ hW hV hWl hqV
  have h0 := top_le W V P Wl Vl uj0 uj1 uj2 v1 v2 hW hV hVl hv2 hlt
  obtain ⟨q1, q2, q3⟩ := computeQhat_spec hv1 hv2 h0 hu1 hu2 hnorm hqR hq2
  -- unfold the step
  unfold divStep at hres
  simp only [hwr, list_rev3, List.getD_cons_zero, List.getD_cons_succ] at hres
  rw [← hwr] at hres
  generalize (computeQhat v1 v2 uj0 uj1 uj2).1 = qhat at *
  have hV2R : R ≤ v1 * R + v2 := by
    have : 1 * R ≤ v1 * R := Nat.mul_le_mul_right R (by omega)
    omega
  have hpred := qhat_pred_mul_le W V P Wl Vl _ _ qhat hW hV hVl q2 (by omega)
  have hqhat_le : qhat - 1 ≤ W / V := (Nat.le_div_iff_mul_le hVpos).mpr hpred
  obtain ⟨me, md, ml, mk⟩ := mulSubLoop_spec q3 hw hv (by omega) R_pos (k := 0)
  rw [hVd, hWd] at me
  generalize hms : mulSubLoop qhat win v 0 = ms at *
  obtain ⟨mw, mkf⟩ := ms
  simp only at me md ml mk hres
  have hmwlt := natVal_lt md
  rw [ml] at hmwlt
  have hdm := Nat.div_add_mod W V
  have hmod := Nat.mod_lt W hVpos
  generalize hWP : R ^ win.length = RW at *
  have hVRW : V < RW := by
    have h1 := natVal_lt hv
    rw [hVd] at h1
    have h2 : R ^ v.length ≤ R ^ win.length := Nat.pow_le_pow_right R_pos (by omega)
    omega
  by_cases hcase : qhat = W / V
  · -- the estimate is exact: no borrow
    have hk0 : mkf = 0 := by
      rcases Nat.eq_zero_or_pos mkf with h | h
      · exact h
      · exfalso
        have : RW ≤ RW * mkf := Nat.le_mul_of_pos_right _ h
        rw [hcase] at me
        rw [Nat.mul_comm] at hdm
        omega
    subst hk0
    rw [if_neg (by simp)] at hres
    subst hres
    simp only
    rw [hcase] at me ⊢
    rw [Nat.mul_comm] at hdm
    refine ⟨by omega, by omega, md, ml, hqR⟩
  · -- the estimate is one too large: one add-back
    have hq1 : qhat = W / V + 1 := by omega
    have hkpos : mkf ≠ 0 := by
      intro h; subst h
      rw [hq1, Nat.add_mul, Nat.one_mul] at me
      rw [Nat.mul_comm] at hdm
      omega
    rw [if_pos hkpos] at hres
    subst hres
    simp only
    obtain ⟨⟨kf, hkf, av⟩, ad, al⟩ := addBackLoop_spec md hv (by omega) (Nat.zero_le 1) (k := 0)
    rw [ml, hWP, hVd] at av
    have hdec : (qhat + R - 1) % R = W / V := by
      have : qhat + R - 1 = W / V + R := by omega
      rw [this, Nat.add_mod_right, Nat.mod_eq_of_lt hqR]
    rw [hdec]
    have halt := natVal_lt ad
    rw [al, ml, hWP] at halt
    rw [hq1, Nat.add_mul, Nat.one_mul] at me
    rw [Nat.mul_comm] at hdm
    -- mw + (q V + V) = W + RW * mkf ; mw < RW ; result + RW*kf = mw + V
    have hmk1 : mkf = 1 := by
      rcases Nat.lt_or_ge mkf 2 with h | h
      · omega
      · exfalso
        have : RW * 2 ≤ RW * mkf := Nat.mul_le_mul_left RW h
        omega
    subst hmk1
    have hkf1 : kf = 1 := by
      rcases Nat.eq_zero_or_pos kf with h | h
      · subst h; omega
      · omega
    subst hkf1
    refine ⟨by omega, by omega, ad, by rw [al, ml], hqR⟩

/-! ### the loop D2–D7 -/

theorem exists_top3 {l : List Nat} (h : 3 ≤ l.length) :
    ∃ rest a b c, l = rest ++ [a, b, c] ∧ rest.length + 3 = l.length := by
  have hne : l ≠ [] := ne_nil_of_length_pos (by omega)
  obtain ⟨e1, l1⟩ := split_last hne
  have hne2 : l.dropLast ≠ [] := ne_nil_of_length_pos (by omega)
  obtain ⟨e2, l2⟩ := split_last hne2
  have hne3 : l.dropLast.dropLast ≠ [] := ne_nil_of_length_pos (by omega)
  obtain ⟨e3, l3⟩ := split_last hne3
  refine ⟨l.dropLast.dropLast.dropLast, l.dropLast.dropLast.getLastD 0, l.dropLast.getLastD 0, l.getLastD 0, ?_, by omega⟩
  conv => lhs; rw [e1, e2, e3]
  simp

theorem exists_top2 {l : List Nat} (h : 2 ≤ l.length) :
    ∃ rest a b, l = rest ++ [a, b] ∧ rest.length + 2 = l.length ∧ b = l.getLastD 0 ∧ a = l.reverse.getD 1 0 := by
  have hne : l ≠ [] := ne_nil_of_length_pos (by omega)
  obtain ⟨e1, l1⟩ := split_last hne
  have hne2 : l.dropLast ≠ [] := ne_nil_of_length_pos (by omega)
  obtain ⟨e2, l2⟩ := split_last hne2
  refine ⟨l.dropLast.dropLast, l.dropLast.getLastD 0, l.getLastD 0, ?_, by omega, rfl, ?_⟩
  · conv => lhs; rw [e1, e2]
    simp
  · conv => rhs; rw [e1, e2]
    simp

/-- a window whose value is below `R^(len-1)` has a zero top place; dropping it keeps the value -/
theorem dropLast_val {l : List Nat} (hne : l ≠ []) (h : natVal l < R ^ (l.length - 1)) :
    natVal l.dropLast = natVal l := by
  have hv := natVal_split_last hne
  have : l.getLastD 0 = 0 := by
    rcases Nat.eq_zero_or_pos (l.getLastD 0) with h0 | h0
    · exact h0
    · exfalso
      have : R ^ (l.length - 1) ≤ R ^ (l.length - 1) * l.getLastD 0 := Nat.le_mul_of_pos_right _ h0
      omega
  rw [this] at hv; omega

theorem divLoop_spec {v vrest : List Nat} {v1 v2 : Nat} (hv : Digits v) (hvr : v = vrest ++ [v2, v1])
    (hnorm : R ≤ 2 * v1) :
    ∀ {lo win : List Nat}, Digits lo → Digits win → win.length = v.length + 1 → natVal win < natVal v * R →
    ∀ res, divLoop v v1 v2 lo win = res →
      natVal win * R ^ lo.length + beVal lo = beVal res.1 * natVal v + natVal res.2.1 ∧
      natVal res.2.1 < natVal v ∧ res.1.length = lo.length + 1 ∧ Digits res.1 ∧ Digits res.2.1 ∧
      res.2.1.length = v.length + 1 := by
  have hvlen : v.length = vrest.length + 2 := by rw [hvr]; simp
  have hVlt := natVal_lt hv
  intro lo
  induction lo with
  | nil =>
    intro win _ hw hwl hlt res hres
    obtain ⟨wrest, a, b, c, hwr, hwrl⟩ := exists_top3 (l := win) (by omega)
    have hs := divStep_spec hv hw hvr hwr (by omega) hnorm hlt _ rfl
    have e : divLoop v v1 v2 [] win = ([(divStep v v1 v2 win).1], (divStep v v1 v2 win).2.1, (divStep v v1 v2 win).2.2) := rfl
    rw [e] at hres
    subst hres
    obtain ⟨s1, s2, s3, s4, s5⟩ := hs
    refine ⟨?_, s2, rfl, Digits.cons s5 Digits.nil, s3, by rw [s4, hwl]⟩
    simp only [List.length_nil, Nat.pow_zero, Nat.mul_one, beVal, Nat.add_zero]
    exact s1
  | cons x lo ih =>
    intro win hlo hw hwl hlt res hres
    obtain ⟨wrest, a, b, c, hwr, hwrl⟩ := exists_top3 (l := win) (by omega)
    obtain ⟨s1, s2, s3, s4, s5⟩ := divStep_spec hv hw hvr hwr (by omega) hnorm hlt _ rfl
    have e : divLoop v v1 v2 (x :: lo) win =
        ((divStep v v1 v2 win).1 :: (divLoop v v1 v2 lo (x :: (divStep v v1 v2 win).2.1.dropLast)).1,
         (divLoop v v1 v2 lo (x :: (divStep v v1 v2 win).2.1.dropLast)).2.1,
         (divStep v v1 v2 win).2.2.add (divLoop v v1 v2 lo (x :: (divStep v v1 v2 win).2.1.dropLast)).2.2) := rfl
    rw [e] at hres
    subst hres
    generalize (divStep v v1 v2 win).1 = qd at *
    generalize (divStep v v1 v2 win).2.1 = w' at *
    have hw'ne : w' ≠ [] := ne_nil_of_length_pos (by omega)
    have hdl : natVal w'.dropLast = natVal w' := by
      apply dropLast_val hw'ne
      rw [s4, hwl]; simp only [Nat.add_sub_cancel]; omega
    have hnd : Digits (x :: w'.dropLast) := Digits.cons hlo.head (dropLast_digits s3)
    have hnl : (x :: w'.dropLast).length = v.length + 1 := by simp; omega
    have hnv : natVal (x :: w'.dropLast) < natVal v * R := by
      simp only [natVal_cons, hdl]
      have hx := hlo.head
      have : R * (natVal w' + 1) ≤ R * natVal v := Nat.mul_le_mul_left R s2
      rw [Nat.mul_add, Nat.mul_one] at this
      rw [Nat.mul_comm (natVal v) R]; omega
    obtain ⟨r1, r2, r3, r4, r5, r6⟩ := ih hlo.tail hnd hnl hnv _ rfl
    generalize (divLoop v v1 v2 lo (x :: w'.dropLast)).1 = qs at *
    generalize (divLoop v v1 v2 lo (x :: w'.dropLast)).2.1 = wf at *
    refine ⟨?_, r2, by simp [r3], Digits.cons s5 r4, r5, r6⟩
    simp only [natVal_cons, hdl] at r1
    simp only [beVal, List.length_cons, r3, Nat.pow_succ]
    rw [s1]
    generalize natVal v = V at *
    generalize natVal w' = r at *
    generalize beVal lo = L at *
    generalize beVal qs = Q at *
    generalize natVal wf = F at *
    generalize R ^ lo.length = P at *
    -- (qd V + r) (P R) + (x P + L) = (qd (P R) + Q) V + F ;  (x + R r) P + L = Q V + F
    have e1 : (qd * V + r) * (P * R) + (x * P + L) = qd * V * (P * R) + ((x + R * r) * P + L) := by grind
    have e2 : (qd * (P * R) + Q) * V + F = qd * V * (P * R) + (Q * V + F) := by grind
    rw [e1, e2, r1]

/-! ### D1: normalisation -/

theorem timesSLoop_spec {b : Nat} (hb : b < R) : ∀ {as : List Nat} {c : Nat}, Digits as → c < R →
    natVal (timesSLoop b as c) = natVal as * b + c ∧ Digits (timesSLoop b as c) ∧
    as.length ≤ (timesSLoop b as c).length ∧ (timesSLoop b as c).length ≤ as.length + 1 ∧
    ((timesSLoop b as c).length = as.length + 1 → R ^ as.length ≤ natVal (timesSLoop b as c)) := by
  intro as
  induction as with
  | nil =>
    intro c _ hc
    simp only [timesSLoop]
    split
    · refine ⟨by simp, Digits.cons hc Digits.nil, by simp, by simp, fun _ => by simp; omega⟩
    · have : c = 0 := by omega
      subst this
      exact ⟨by simp, Digits.nil, by simp, by simp, fun h => by simp at h⟩
  | cons a as ih =>
    intro c hd hc
    obtain ⟨e, l2, lk⟩ := timesStep_spec hd.head hb hc R_pos
    obtain ⟨v, dg, l1, l3, top⟩ := ih hd.tail lk
    have eq : timesSLoop b (a :: as) c = (timesStep a b c 0).2 :: timesSLoop b as (timesStep a b c 0).1 := rfl
    rw [eq]
    refine ⟨?_, Digits.cons l2 dg, by simp; omega, by simp; omega, fun hl => ?_⟩
    · simp only [natVal_cons, v]
      have : (a + R * natVal as) * b = a * b + R * (natVal as * b) := by grind
      rw [this, Nat.mul_add]; omega
    · simp only [List.length_cons, Nat.add_right_cancel_iff] at hl
      have := top hl
      simp only [natVal_cons, List.length_cons, Nat.pow_succ]
      have h2 := Nat.mul_le_mul_left R this
      rw [Nat.mul_comm (R ^ as.length) R]; omega

theorem iintTimesS_spec {a : List Nat} {b : Nat} (ha : Digits a) (hb : b < R) (hb0 : b ≠ 0) :
    natVal (iintTimesS a b) = natVal a * b ∧ Digits (iintTimesS a b) ∧
    a.length ≤ (iintTimesS a b).length ∧ (iintTimesS a b).length ≤ a.length + 1 ∧
    ((iintTimesS a b).length = a.length + 1 → R ^ a.length ≤ natVal (iintTimesS a b)) := by
  unfold iintTimesS
  rw [if_neg hb0]
  have := timesSLoop_spec hb ha R_pos (c := 0)
  simpa using this

/-- the scaling factor of step D1 -/
theorem norm_factor {v1 : Nat} (h1 : 1 ≤ v1) (h2 : 2 * v1 < R) :
    (v1 + 1) * (R / (v1 + 1)) ≤ R ∧ R ≤ 2 * (v1 * (R / (v1 + 1))) ∧ 2 ≤ R / (v1 + 1) ∧ R / (v1 + 1) < R := by
  have hR := R_eq
  have a1 := Nat.mul_div_le R (v1 + 1)
  have a2 := Nat.lt_mul_div_succ R (by omega : 0 < v1 + 1)
  have hd2 : 2 ≤ R / (v1 + 1) := (Nat.le_div_iff_mul_le (by omega)).mpr (by omega)
  have hdR : R / (v1 + 1) < R := Nat.div_lt_self R_pos (by omega)
  refine ⟨a1, ?_, hd2, hdR⟩
  generalize hd : R / (v1 + 1) = d at *
  rcases Nat.lt_or_ge (2 * (v1 * d)) R with hlt | hge
  · exfalso
    obtain ⟨a, rfl⟩ : ∃ a, v1 = a + 1 := ⟨v1 - 1, by omega⟩
    obtain ⟨c, rfl⟩ : ∃ c, d = c + 1 := ⟨d - 1, by omega⟩
    have e1 : (a + 1 + 1) * (c + 1) = (a + 1) * (c + 1) + (c + 1) := by grind
    have e2 : (a + 1 + 1) * (c + 1 + 1) = (a + 1) * (c + 1) + (a + 1) + (c + 1) + 1 := by grind
    have e3 : (a + 1) * (c + 1) = a * c + a + c + 1 := by grind
    have hac : a * c < 2 := by omega
    have hc1 : 1 ≤ c := by omega
    have hale : a ≤ a * c := Nat.le_mul_of_pos_right a hc1
    have ha : a = 0 ∨ a = 1 := by omega
    rcases ha with ha | ha
    · subst ha
      simp only [Nat.zero_add] at hd
      rw [hR] at hd
      omega
    · subst ha
      have : c = 1 := by omega
      subst this
      rw [hR] at hd
      omega
  · exact hge

/-- the top place of a vector worth at least half of `R^len` -/
theorem top_ge_half {l : List Nat} (hne : l ≠ []) (hd : Digits l) (h : R ^ l.length ≤ 2 * natVal l) :
    R ≤ 2 * l.getLastD 0 := by
  have hR := R_eq
  have hv := natVal_split_last hne
  have hlow := natVal_lt (dropLast_digits hd)
  rw [(split_last hne).2] at hlow
  have hl : l.length = (l.length - 1) + 1 := by have := len_pos hne; omega
  rw [hl, Nat.pow_succ] at h
  generalize R ^ (l.length - 1) = P at *
  generalize natVal l.dropLast = lo at *
  generalize l.getLastD 0 = top at *
  -- P * R ≤ 2 lo + 2 P top < P (2 top + 2)
  have h3 : P * R < P * (2 * top + 2) := by
    have : P * (2 * top + 2) = 2 * (P * top) + 2 * P := by grind
    omega
  have := Nat.lt_of_mul_lt_mul_left h3
  omega

/-! ### the whole of Algorithm D -/

theorem knuth_main {u2 v' vrest : List Nat} {v1 v2 nm : Nat} (hv' : Digits v') (hvr : v' = vrest ++ [v2, v1])
    (hnorm : R ≤ 2 * v1) (hu2 : Digits u2) (hlen : u2.length = nm + 1) (hnm : v'.length ≤ nm)
    (hlt : natVal u2 < natVal v' * R ^ (nm - v'.length + 1)) :
    ∀ res, divLoop v' v1 v2 (u2.take (nm - v'.length)).reverse (u2.drop (nm - v'.length)) = res →
      natVal u2 = beVal res.1 * natVal v' + natVal res.2.1 ∧ natVal res.2.1 < natVal v' ∧
      res.1.length = nm - v'.length + 1 ∧ Digits res.1 ∧ Digits res.2.1 ∧ res.2.1.length = v'.length + 1 := by
  intro res hres
  generalize hm : nm - v'.length = m at *
  have hsplit : natVal u2 = natVal (u2.take m) + R ^ m * natVal (u2.drop m) := by
    have := natVal_append (u2.take m) (u2.drop m)
    rw [List.take_append_drop, List.length_take, Nat.min_eq_left (by omega)] at this
    exact this
  have hlo : Digits (u2.take m).reverse := fun x hx => hu2 x (List.mem_of_mem_take (List.mem_reverse.mp hx))
  have hwin : Digits (u2.drop m) := fun x hx => hu2 x (List.mem_of_mem_drop hx)
  have hwl : (u2.drop m).length = v'.length + 1 := by rw [List.length_drop]; omega
  have hwv : natVal (u2.drop m) < natVal v' * R := by
    rw [Nat.pow_succ] at hlt
    have h1 : R ^ m * natVal (u2.drop m) < R ^ m * (natVal v' * R) := by
      have : natVal v' * (R ^ m * R) = R ^ m * (natVal v' * R) := by grind
      omega
    exact Nat.lt_of_mul_lt_mul_left h1
  obtain ⟨r1, r2, r3, r4, r5, r6⟩ := divLoop_spec hv' hvr hnorm hlo hwin hwl hwv res hres
  have hlol : (u2.take m).reverse.length = m := by
    rw [List.length_reverse, List.length_take, Nat.min_eq_left (by omega)]
  rw [hlol] at r1 r3
  rw [← natVal_eq_beVal_reverse] at r1
  refine ⟨?_, r2, r3, r4, r5, r6⟩
  rw [hsplit, ← r1, Nat.mul_comm]; omega

theorem take_pred_val {l : List Nat} (hne : l ≠ []) (h : natVal l < R ^ (l.length - 1)) :
    natVal (l.take (l.length - 1)) = natVal l := by
  rw [← List.dropLast_eq_take]; exact dropLast_val hne h

theorem knuthCore_spec {u' v' : List Nat} {nm n d U V : Nat}
    (hv' : Digits v') (hvl : v'.length = n) (hn2 : 2 ≤ n) (htop : R ≤ 2 * v'.getLastD 0)
    (hu' : Digits u') (hul : u'.length = nm ∨ u'.length = nm + 1) (hnm : n ≤ nm)
    (hd : 0 < d) (hdR : d < R) (hU : natVal u' = U * d) (hV : natVal v' = V * d)
    (hlt : U < V * R ^ (nm - n + 1)) :
    natVal (knuthCore nm n d u' v').1 = U / V ∧ natVal (knuthCore nm n d u' v').2.1 = U % V ∧
    Digits (knuthCore nm n d u' v').1 ∧ Digits (knuthCore nm n d u' v').2.1 ∧
    Norm (knuthCore nm n d u' v').1 ∧ Norm (knuthCore nm n d u' v').2.1 := by
  obtain ⟨vrest, v2, v1, hvr, hvrl, hv1, hv2⟩ := exists_top2 (l := v') (by omega)
  -- the dividend with its extra place
  have hu2 : ∃ u2, (if u'.length = nm then u' ++ [0] else u') = u2 ∧ Digits u2 ∧ u2.length = nm + 1 ∧
      natVal u2 = U * d := by
    by_cases h : u'.length = nm
    · refine ⟨u' ++ [0], by rw [if_pos h], Digits.append hu' (Digits.cons R_pos Digits.nil), by simp [h], ?_⟩
      rw [natVal_append]; simp [hU]
    · refine ⟨u', by rw [if_neg h], hu', by omega, hU⟩
  obtain ⟨u2, hu2e, hu2d, hu2l, hu2v⟩ := hu2
  have hlt2 : natVal u2 < natVal v' * R ^ (nm - v'.length + 1) := by
    rw [hu2v, hV, hvl]
    have : U * d < V * R ^ (nm - n + 1) * d := Nat.mul_lt_mul_of_pos_right hlt hd
    have e : V * d * R ^ (nm - n + 1) = V * R ^ (nm - n + 1) * d := by grind
    omega
  have hmain := knuth_main hv' hvr (by rw [← hv1] at htop; exact htop) hu2d hu2l (by omega) hlt2 _ rfl
  rw [hvl] at hmain
  obtain ⟨m1, m2, m3, m4, m5, m6⟩ := hmain
  unfold knuthCore
  simp only
  rw [← hv1, ← hv2, hu2e]
  generalize divLoop v' v1 v2 (u2.take (nm - n)).reverse (u2.drop (nm - n)) = res at *
  obtain ⟨qs, wf, tr⟩ := res
  simp only at m1 m2 m3 m4 m5 m6 ⊢
  -- the remainder window has a zero top place
  have hVlt := natVal_lt hv'
  rw [hvl] at hVlt
  have hwfne : wf ≠ [] := ne_nil_of_length_pos (by omega)
  have htake : natVal (wf.take n) = natVal wf := by
    have := take_pred_val hwfne (by rw [m6]; simp only [Nat.add_sub_cancel]; omega)
    rw [m6] at this; simpa using this
  have htd : Digits (wf.take n) := fun x hx => m5 x (List.mem_of_mem_take hx)
  obtain ⟨dv, _, dd, _⟩ := iintDivideS_spec htd hd hdR
  rw [htake] at dv
  -- arithmetic: U d = Q (V d) + F, F < V d
  rw [hu2v, hV] at m1
  rw [hV] at m2
  rw [← natVal_reverse] at m1
  have hVpos : 0 < V := by
    rcases Nat.eq_zero_or_pos V with h | h
    · subst h; simp at m2
    · exact h
  simp only [stripTop_val]
  rw [dv]
  generalize natVal qs.reverse = Q at *
  generalize natVal wf = F at *
  have hQV : Q * V ≤ U := by
    have h1 : Q * V * d ≤ U * d := by
      have : Q * (V * d) = Q * V * d := by grind
      omega
    exact Nat.le_of_mul_le_mul_right h1 hd
  have hF : F = (U - Q * V) * d := by
    rw [Nat.sub_mul]
    have : Q * (V * d) = Q * V * d := by grind
    omega
  have hFd : F / d = U - Q * V := by rw [hF, Nat.mul_div_cancel _ hd]
  have hrlt : U - Q * V < V := by
    rw [← hFd]; exact Nat.div_lt_of_lt_mul (by rw [Nat.mul_comm]; exact m2)
  have huniq := (Nat.div_mod_unique hVpos (a := U) (d := Q) (c := U - Q * V)).mpr
    ⟨by have : V * Q = Q * V := Nat.mul_comm V Q
        omega, hrlt⟩
  refine ⟨?_, ?_, stripTop_digits m4.reverse, stripTop_digits dd, stripTop_norm _, stripTop_norm _⟩
  · exact huniq.1.symm
  · rw [hFd]; exact huniq.2.symm

/-- divisors of two or more places, dividend not smaller: Algorithm D -/
theorem iintDivide_knuth {u v : List Nat} (hu : Stored u) (hv : Digits v) (hvn : Norm v) (hvl : 2 ≤ v.length)
    (hge : ¬ natVal u < natVal v) : IDivOK u v := by
  have hR := R_eq
  have hvne : v ≠ [] := ne_nil_of_length_pos (by omega)
  have hvs : Stored v := ⟨hv, Or.inr ⟨hvne, hvn⟩⟩
  have hn1 : ¬ v.length = 1 := by omega
  have hm : bintLT (.big false u) (.big false v) = false := by
    rw [bintLT_big_big]; simp
    cases h : magLT u v with
    | false => rfl
    | true => exact absurd ((magLT_iff_stored hu hvs).mp h) hge
  have hlen : v.length ≤ u.length := stored_length_le hu hvs (by omega)
  -- the top place of the divisor
  have htop0 := getLastD_ne_zero hvne hvn
  have htopR := getLastD_lt hv
  have hVsplit := natVal_split_last hvne
  have hVlow := natVal_lt (dropLast_digits hv)
  rw [(split_last hvne).2] at hVlow
  have hUlt := natVal_lt hu.1
  have hVge := natVal_ge_of_norm hvn hvne
  -- U < V * R^(m+1)
  have hlt : natVal u < natVal v * R ^ (u.length - v.length + 1) := by
    have e : R ^ u.length = R ^ (v.length - 1) * R ^ (u.length - v.length + 1) := by
      rw [← Nat.pow_add]; congr 1; omega
    have : R ^ (v.length - 1) * R ^ (u.length - v.length + 1) ≤ natVal v * R ^ (u.length - v.length + 1) :=
      Nat.mul_le_mul_right _ hVge
    omega
  unfold IDivOK iintDivide
  simp only [if_neg hn1, hm, Bool.false_eq_true, if_false]
  by_cases hbig : v.getLastD 0 ≥ R / 2
  · rw [if_pos hbig]
    simp only
    have htop : R ≤ 2 * v.getLastD 0 := by rw [hR] at hbig ⊢; omega
    obtain ⟨a1, a2, a3, a4, a5, a6⟩ := knuthCore_spec (d := 1) (U := natVal u) (V := natVal v) hv rfl hvl htop hu.1
      (Or.inl rfl) hlen (by omega) (by rw [hR]; omega) (by simp) (by simp) hlt
    exact ⟨a1, a2, a3, a4, Or.inr a5, Or.inr a6⟩
  · rw [if_neg hbig]
    simp only
    have hsmall : 2 * v.getLastD 0 < R := by rw [hR] at hbig ⊢; omega
    obtain ⟨f1, f2, f3, f4⟩ := norm_factor (v1 := v.getLastD 0) (by omega) hsmall
    generalize hd : R / (v.getLastD 0 + 1) = d at *
    generalize v.getLastD 0 = v1 at *
    obtain ⟨uv, ud, ul1, ul2, _⟩ := iintTimesS_spec hu.1 f4 (by omega)
    obtain ⟨vv, vd, vl1, vl2, vtop⟩ := iintTimesS_spec hv f4 (by omega)
    generalize hPdef : R ^ (v.length - 1) = P at *
    have hRn : R ^ v.length = P * R := by
      rw [← hPdef, ← Nat.pow_succ]; congr 1; omega
    -- V d < R^n
    have hVd_lt : natVal v * d < R ^ v.length := by
      have h1 : natVal v < P * (v1 + 1) := by rw [Nat.mul_add, Nat.mul_one]; omega
      have h2 : natVal v * d < P * (v1 + 1) * d := Nat.mul_lt_mul_of_pos_right h1 (by omega)
      have h3 : P * ((v1 + 1) * d) ≤ P * R := Nat.mul_le_mul_left P f1
      have e : P * (v1 + 1) * d = P * ((v1 + 1) * d) := by grind
      omega
    have hvlen : (iintTimesS v d).length = v.length := by
      rcases Nat.lt_or_ge v.length (iintTimesS v d).length with h | h
      · have := vtop (by omega); omega
      · omega
    -- R^n ≤ 2 V d
    have hhalf : R ^ (iintTimesS v d).length ≤ 2 * natVal (iintTimesS v d) := by
      rw [hvlen, vv, hRn]
      have h1 : P * v1 ≤ natVal v := by omega
      have h2 : P * v1 * d ≤ natVal v * d := Nat.mul_le_mul_right d h1
      have h3 : P * R ≤ P * (2 * (v1 * d)) := Nat.mul_le_mul_left P f2
      have e : P * (2 * (v1 * d)) = 2 * (P * v1 * d) := by grind
      omega
    have hvne' : iintTimesS v d ≠ [] := ne_nil_of_length_pos (by omega)
    have htop := top_ge_half hvne' vd hhalf
    obtain ⟨a1, a2, a3, a4, a5, a6⟩ := knuthCore_spec (nm := u.length) (n := v.length) (d := d) (U := natVal u)
      (V := natVal v) vd hvlen hvl htop ud (by omega) hlen (by omega) f4 uv vv hlt
    exact ⟨a1, a2, a3, a4, Or.inr a5, Or.inr a6⟩

/-- `iintDivide` is exact on every pair `xintStore` can hand to it with a non-zero divisor. -/
theorem iintDivide_ok {u v : List Nat} (hu : Stored u) (hv : Stored v) (hv0 : natVal v ≠ 0) : IDivOK u v := by
  have hvn : Norm v := by
    rcases hv.2 with h | ⟨_, h⟩
    · subst h; simp at hv0
    · exact h
  by_cases h1 : v.length = 1
  · obtain ⟨b, rfl⟩ : ∃ b, v = [b] := by
      cases v with
      | nil => simp at h1
      | cons b t => cases t with
        | nil => exact ⟨b, rfl⟩
        | cons _ _ => simp at h1
    have hb := hv.1.head
    exact iintDivide_single hu (by simp at hv0; omega) hb
  · by_cases hlt : natVal u < natVal v
    · exact iintDivide_less hu hv h1 hlt
    · have := len_pos hv.ne_nil
      exact iintDivide_knuth hu hv.1 hvn (by omega) hlt

/-- `bintDivide`: truncated quotient, remainder with the sign of the dividend, both in normal form. -/
theorem bintDivide_spec {a b : BInt} (ha : WF a) (hb : WF b) (h0 : b.val ≠ 0) :
    (bintDivide a b).1.val = a.val.tdiv b.val ∧ (bintDivide a b).2.val = a.val.tmod b.val ∧
    WF (bintDivide a b).1 ∧ WF (bintDivide a b).2 := by
  apply bintDivide_of_ok ha hb
  intro da db sa sb _ h2
  exact iintDivide_ok sa sb (by omega)

end AldorVerif.BigInt
