import AldorVerif.Lemmas.BigIntKnuth
/-! Powers and gcd of foam_i.c (core Lean only). -/
namespace AldorVerif.BigInt

/-! ### square and multiply -/

/-- the exponent read from `todo` bits starting at bit `i` -/
def bitSum (bit : Nat → Bool) : Nat → Nat → Nat
  | _, 0 => 0
  | i, todo + 1 => (if bit i then 1 else 0) + 2 * bitSum bit (i + 1) todo

theorem bitSum_testBit (n : Nat) : ∀ (todo i : Nat), bitSum n.testBit i todo = (n / 2 ^ i) % 2 ^ todo := by
  intro todo
  induction todo with
  | zero => intro i; simp [bitSum, Nat.mod_one]
  | succ t ih =>
    intro i
    simp only [bitSum, ih]
    have hb : (if n.testBit i = true then 1 else 0) = n / 2 ^ i % 2 := by
      rw [← Nat.toNat_testBit]; cases n.testBit i <;> rfl
    rw [hb]
    have e : n / 2 ^ (i + 1) = n / 2 ^ i / 2 := by rw [Nat.pow_succ, Nat.div_div_eq_div_mul]
    rw [e]
    generalize n / 2 ^ i = x
    rw [Nat.pow_succ, Nat.mul_comm (2 ^ t) 2, Nat.mod_mul]

theorem bitSum_full {n todo : Nat} (h : n < 2 ^ todo) : bitSum n.testBit 0 todo = n := by
  rw [bitSum_testBit]; simp [Nat.mod_eq_of_lt h]

theorem int_pow_one (a : Int) : a ^ 1 = a := by
  have := Int.pow_succ a 0
  simpa using this

theorem powerLoop_spec (bit : Nat → Bool) : ∀ (todo i : Nat) {p a : BInt}, WF p → WF a → 1 ≤ todo →
    (powerLoop bit todo i p a).val = p.val * a.val ^ bitSum bit i todo ∧ WF (powerLoop bit todo i p a) := by
  intro todo
  induction todo with
  | zero => intro i p a _ _ h; omega
  | succ t ih =>
    intro i p a hp ha _
    simp only [powerLoop]
    -- the multiplication by the current power
    have hp' : ∃ p', (if bit i = true then bintTimes p a else p) = p' ∧ WF p' ∧
        p'.val = p.val * a.val ^ (if bit i = true then 1 else 0) := by
      cases bit i
      · exact ⟨p, by simp, hp, by simp⟩
      · have := bintTimes_spec hp ha
        exact ⟨bintTimes p a, by simp, this.2, by rw [this.1, if_pos rfl, int_pow_one]⟩
    obtain ⟨p', e, wp, vp⟩ := hp'
    rw [e]
    by_cases ht : t = 0
    · subst ht
      simp only [if_true, bitSum]
      exact ⟨by rw [vp]; simp, wp⟩
    · rw [if_neg ht]
      have hsq := bintTimes_spec ha ha
      obtain ⟨v, w⟩ := ih (i + 1) wp hsq.2 (by omega)
      refine ⟨?_, w⟩
      rw [v, vp, hsq.1, bitSum]
      rw [Int.mul_pow, ← Int.pow_add, Int.mul_assoc, ← Int.pow_add]; congr 2; omega

/-- `fiSIntLength` is the bit length of the magnitude -/
theorem fiSIntLengthLoop_spec : ∀ (f x b : Nat), x < 2 ^ f → fiSIntLengthLoop f x b = b + bitLen x := by
  intro f
  induction f with
  | zero => intro x b h; simp at h; subst h; simp [fiSIntLengthLoop, bitLen]
  | succ f ih =>
    intro x b h
    simp only [fiSIntLengthLoop]
    by_cases hx : x = 0
    · subst hx; simp [bitLen]
    · rw [if_pos hx, ih (x / 2) (b + 1) (by rw [Nat.pow_succ] at h; omega)]
      -- bitLen x = bitLen (x / 2) + 1
      have h1 := bitLen_bounds hx
      have hk : bitLen x = bitLen (x / 2) + 1 := by
        by_cases h2 : x / 2 = 0
        · have : x = 1 := by omega
          subst this; decide
        · have h3 := bitLen_bounds h2
          have h2le : 2 ≤ bitLen x := by
            have := (two_pow_le_iff_lt_bitLen x 1).mp (by omega); omega
          have : bitLen (x / 2) = bitLen x - 1 := by
            apply bitLen_eq_of_bounds (by omega)
            · -- 2^(k-2) ≤ x/2
              have a := h1.1
              have : bitLen x - 1 = (bitLen x - 1 - 1) + 1 := by omega
              rw [this, Nat.pow_succ] at a
              omega
            · have a := h1.2.1
              have : bitLen x = (bitLen x - 1) + 1 := by omega
              rw [this, Nat.pow_succ] at a
              omega
          omega
      omega

theorem fiBIntSIPower_spec {a : BInt} (ha : WF a) (b : BitVec 64) (hb : 0 ≤ b.toInt) :
    (fiBIntSIPower a b).val = a.val ^ b.toNat ∧ WF (fiBIntSIPower a b) := by
  have hM := MAXI_eq
  have hm := MINI_eq
  unfold fiBIntSIPower
  have htn : b.toInt = (b.toNat : Int) := by
    rw [BitVec.toInt_eq_toNat_cond]; split
    · rfl
    · rename_i h; rw [BitVec.toInt_eq_toNat_cond, if_neg h] at hb
      have := b.isLt; omega
  by_cases h0 : b.toInt = 0
  · rw [if_pos h0]
    have : b.toNat = 0 := by omega
    rw [this]
    exact ⟨by simp, WF_imm_of (by omega) (by omega)⟩
  · rw [if_neg h0]
    have h1 : WF (.imm 1) := WF_imm_of (by omega) (by omega)
    obtain ⟨v, w⟩ := powerLoop_spec (fiSIntBit b) (fiSIntLength b + 1) 0 h1 ha (by omega)
    refine ⟨?_, w⟩
    rw [v]
    have hlen : fiSIntLength b = bitLen b.toNat := by
      unfold fiSIntLength
      have hlt : b.toNat < 2 ^ 63 := by
        have := BitVec.toInt_lt (x := b); omega
      rw [absL_eq (by omega) (by omega), fiSIntLengthLoop_spec 64 _ 0 (by omega)]
      simp [htn]
    have hsum : bitSum (fiSIntBit b) 0 (fiSIntLength b + 1) = b.toNat := by
      have : fiSIntBit b = b.toNat.testBit := by funext i; rfl
      rw [this, hlen]
      apply bitSum_full
      have := (lt_two_pow_iff_bitLen_le b.toNat (bitLen b.toNat + 1)).mpr (by omega)
      exact this
    rw [hsum]; simp

theorem fiBIntBIPower_spec {a b : BInt} (ha : WF a) (hb : WF b) (hb0 : 0 ≤ b.val) :
    (fiBIntBIPower a b).val = a.val ^ b.val.toNat ∧ WF (fiBIntBIPower a b) := by
  have hM := MAXI_eq
  have hm := MINI_eq
  unfold fiBIntBIPower
  by_cases h0 : bintIsZero b = true
  · rw [if_pos h0]
    have : b.val = 0 := by
      cases b with
      | imm v => simpa [bintIsZero] using h0
      | big _ _ => simp [bintIsZero] at h0
    rw [this]
    exact ⟨by simp, WF_imm_of (by omega) (by omega)⟩
  · rw [if_neg h0]
    have h1 : WF (.imm 1) := WF_imm_of (by omega) (by omega)
    obtain ⟨v, w⟩ := powerLoop_spec (bintBit b) (bintLength b + 1) 0 h1 ha (by omega)
    refine ⟨?_, w⟩
    rw [v]
    have hbit : bintBit b = b.val.natAbs.testBit := by funext i; exact bintBit_spec hb i
    have hlen := bintLength_spec hb
    have hsum : bitSum (bintBit b) 0 (bintLength b + 1) = b.val.natAbs := by
      rw [hbit]
      apply bitSum_full
      exact (lt_two_pow_iff_bitLen_le _ _).mpr (by omega)
    rw [hsum]
    have : b.val.natAbs = b.val.toNat := by omega
    rw [this]; simp

/-! ### gcd -/

/-- termination measure of the Euclidean loop -/
def gcdMeasure (c d : Nat) : Nat := 2 * (bitLen c + bitLen d) + (if c < d then 1 else 0)

theorem bitLen_mono {x y : Nat} (h : x ≤ y) : bitLen x ≤ bitLen y := by
  have := (lt_two_pow_iff_bitLen_le y (bitLen y)).mpr (Nat.le_refl _)
  exact (lt_two_pow_iff_bitLen_le x (bitLen y)).mp (by omega)

theorem bitLen_half {x y : Nat} (hy : y ≠ 0) (h : 2 * x ≤ y) : bitLen x + 1 ≤ bitLen y := by
  have hb := bitLen_bounds hy
  have : y < 2 ^ bitLen y := hb.2.1
  have e : bitLen y = (bitLen y - 1) + 1 := by omega
  rw [e, Nat.pow_succ] at this
  have := (lt_two_pow_iff_bitLen_le x (bitLen y - 1)).mp (by omega)
  omega

theorem gcdMeasure_step {c d : Nat} (hd : d ≠ 0) : gcdMeasure d (c % d) < gcdMeasure c d := by
  unfold gcdMeasure
  have hm := Nat.mod_lt c (Nat.pos_of_ne_zero hd)
  have h1 : ¬ d < c % d := by omega
  rw [if_neg h1]
  by_cases hcd : c < d
  · rw [if_pos hcd, Nat.mod_eq_of_lt hcd]; omega
  · rw [if_neg hcd]
    have hc0 : c ≠ 0 := by omega
    -- 2 (c mod d) ≤ c
    have h2 : 2 * (c % d) ≤ c := by
      have := Nat.div_add_mod c d
      have hq : 1 ≤ c / d := (Nat.le_div_iff_mul_le (Nat.pos_of_ne_zero hd)).mpr (by omega)
      have : d ≤ d * (c / d) := Nat.le_mul_of_pos_right d hq
      omega
    have := bitLen_half hc0 h2
    omega

theorem gcdLoop_spec : ∀ (fuel : Nat) {c d : BInt}, WF c → WF d → 0 ≤ c.val → 0 ≤ d.val →
    gcdMeasure c.val.natAbs d.val.natAbs < fuel →
    (gcdLoop fuel c d).1.val = (Nat.gcd c.val.natAbs d.val.natAbs : Int) ∧ WF (gcdLoop fuel c d).1 := by
  have hM := MAXI_eq
  have hm := MINI_eq
  intro fuel
  induction fuel with
  | zero => intro c d _ _ _ _ h; omega
  | succ f ih =>
    intro c d hc hd hc0 hd0 hmeas
    have hz : WF (.imm 0) := WF_imm_of (by omega) (by omega)
    have heq := bintEQ_iff hd hz
    simp only [val_imm] at heq
    simp only [gcdLoop]
    by_cases hdz : bintEQ d (.imm 0) = true
    · have hd' : d.val = 0 := heq.mp hdz
      simp only [hdz, Bool.not_true, Bool.false_eq_true, if_false]
      rw [hd']; simp
      exact ⟨by omega, hc⟩
    · have hd' : d.val ≠ 0 := fun h => hdz (heq.mpr h)
      simp only [hdz, Bool.not_false, if_true]
      obtain ⟨_, rv, _, rw'⟩ := bintDivide_spec hc hd hd'
      have hrv : (bintDivide c d).2.val = ((c.val.natAbs % d.val.natAbs : Nat) : Int) := by
        rw [rv]
        have e1 : c.val = (c.val.natAbs : Int) := by omega
        have e2 : d.val = (d.val.natAbs : Int) := by omega
        conv => lhs; rw [e1, e2]
        exact (Int.ofNat_tmod _ _).symm
      have hnn : 0 ≤ (bintDivide c d).2.val := by rw [hrv]; omega
      have hna : (bintDivide c d).2.val.natAbs = c.val.natAbs % d.val.natAbs := by omega
      have hstep := gcdMeasure_step (c := c.val.natAbs) (d := d.val.natAbs) (by omega)
      obtain ⟨v, w⟩ := ih hd rw' hd0 hnn (by rw [hna]; omega)
      refine ⟨?_, w⟩
      rw [v, hna]
      congr 1
      rw [Nat.gcd_comm c.val.natAbs, Nat.gcd_rec d.val.natAbs c.val.natAbs, Nat.gcd_comm]

theorem fiBIntGcd_spec {a b : BInt} (ha : WF a) (hb : WF b) :
    (fiBIntGcd a b).val = (Int.gcd a.val b.val : Int) ∧ WF (fiBIntGcd a b) := by
  have hM := MAXI_eq
  have hm := MINI_eq
  have hz : WF (.imm 0) := WF_imm_of (by omega) (by omega)
  unfold fiBIntGcd fiBIntGcdT
  simp only
  -- the absolute values
  have habs : ∀ {x : BInt}, WF x → ∃ y, (if bintLT x (.imm 0) = true then bintNegate x else x) = y ∧ WF y ∧
      0 ≤ y.val ∧ y.val.natAbs = x.val.natAbs := by
    intro x hx
    have hlt := bintLT_iff hx hz
    simp only [val_imm] at hlt
    by_cases h : bintLT x (.imm 0) = true
    · have hn := bintNegate_spec hx
      have := hlt.mp h
      exact ⟨bintNegate x, by rw [if_pos h], hn.2, by rw [hn.1]; omega, by rw [hn.1]; omega⟩
    · have : ¬ x.val < 0 := fun h' => h (hlt.mpr h')
      exact ⟨x, by rw [if_neg h], hx, by omega, rfl⟩
  obtain ⟨c, ec, wc, c0, ca⟩ := habs ha
  obtain ⟨d, ed, wd, d0, da⟩ := habs hb
  rw [ec, ed]
  have hfuel : gcdMeasure c.val.natAbs d.val.natAbs < gcdFuel a b := by
    unfold gcdMeasure gcdFuel
    rw [ca, da, bintLength_spec ha, bintLength_spec hb]
    split <;> omega
  obtain ⟨v, w⟩ := gcdLoop_spec (gcdFuel a b) wc wd c0 d0 hfuel
  refine ⟨?_, w⟩
  rw [v, ca, da]; rfl

end AldorVerif.BigInt
