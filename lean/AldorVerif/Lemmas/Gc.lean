import AldorVerif.Model.Gc

/-! helper lemmas for `Props/C09.lean` (core Lean only) -/
namespace AldorVerif.Gc

/-! ## `pointee` -/

theorem findFrom_bound : ∀ (h : Heap) (k a i : Nat), findFrom h k a = some i → k ≤ i ∧ i < k + h.length
  | [], _, _, _, hf => by simp [findFrom] at hf
  | b :: h, k, a, i, hf => by
    unfold findFrom at hf
    by_cases hc : b.contains a = true
    · simp only [hc, if_true, Option.some.injEq] at hf; subst hf; simp
    · simp only [hc] at hf
      have := findFrom_bound h (k + 1) a i hf
      simp only [List.length_cons]; omega

theorem pointee_lt {h : Heap} {a i : Nat} (hp : pointee h a = some i) : i < h.length := by
  unfold pointee at hp
  by_cases hb : a < heapBase
  · simp [hb] at hp
  · simp only [hb, if_false] at hp
    have := findFrom_bound h 0 a i hp; omega

theorem pointee_small {h : Heap} {a : Nat} (ha : a < heapBase) : pointee h a = none := by
  simp [pointee, ha]

theorem contains_shape {b b' : Block} (hs : b.shape = b'.shape) (a : Nat) : b.contains a = b'.contains a := by
  simp only [Block.shape, Prod.mk.injEq] at hs
  obtain ⟨h1, h2, h3, _⟩ := hs
  unfold Block.contains Block.extent
  rw [h1, h2, h3]

theorem findFrom_shape : ∀ (h h' : Heap) (k a : Nat), h.map Block.shape = h'.map Block.shape →
    findFrom h k a = findFrom h' k a
  | [], [], _, _, _ => rfl
  | [], _ :: _, _, _, hs => by simp at hs
  | _ :: _, [], _, _, hs => by simp at hs
  | b :: h, b' :: h', k, a, hs => by
    simp only [List.map_cons, List.cons.injEq] at hs
    simp only [findFrom, contains_shape hs.1 a, findFrom_shape h h' (k + 1) a hs.2]

theorem pointee_shape {h h' : Heap} (hs : h.map Block.shape = h'.map Block.shape) (a : Nat) :
    pointee h a = pointee h' a := by
  simp only [pointee, findFrom_shape h h' 0 a hs]

theorem findFrom_append : ∀ (h : Heap) (b : Block) (k a : Nat),
    findFrom (h ++ [b]) k a =
      match findFrom h k a with
      | some i => some i
      | none => if b.contains a then some (k + h.length) else none
  | [], b, k, a => by simp [findFrom]
  | c :: h, b, k, a => by
    simp only [List.cons_append, findFrom]
    by_cases hc : c.contains a = true
    · simp [hc]
    · simp only [hc]
      rw [findFrom_append h b (k + 1) a]
      simp only [List.length_cons]
      have : k + 1 + h.length = k + (h.length + 1) := by omega
      rw [this]; rfl

theorem pointee_append {h : Heap} {b : Block} {a j : Nat} (hp : pointee (h ++ [b]) a = some j) :
    pointee h a = some j ∨ j = h.length := by
  unfold pointee at hp ⊢
  by_cases hb : a < heapBase
  · simp [hb] at hp
  · simp only [hb, if_false] at hp ⊢
    rw [findFrom_append] at hp
    cases hf : findFrom h 0 a with
    | some i => simp only [hf] at hp; exact Or.inl hp
    | none =>
      simp only [hf] at hp
      by_cases hc : b.contains a = true
      · simp [hc] at hp; exact Or.inr hp.symm
      · simp [hc] at hp

theorem pointee_append_of_some {h : Heap} {b : Block} {a j : Nat} (hp : pointee h a = some j) :
    pointee (h ++ [b]) a = some j := by
  unfold pointee at hp ⊢
  by_cases hb : a < heapBase
  · simp [hb] at hp
  · simp only [hb, if_false] at hp ⊢
    rw [findFrom_append, hp]

/-! ## marks -/

def Marked (m : Marks) (i : Nat) : Prop := m.getD i false = true

structure MLe (m m' : Marks) : Prop where
  len : m.length = m'.length
  le : ∀ i, Marked m i → Marked m' i

theorem MLe.refl (m : Marks) : MLe m m := ⟨rfl, fun _ h => h⟩
theorem MLe.trans {a b c : Marks} (h1 : MLe a b) (h2 : MLe b c) : MLe a c :=
  ⟨h1.len.trans h2.len, fun i h => h2.le i (h1.le i h)⟩

def unmarked (m : Marks) : Nat := m.count false

theorem getD_set_self (m : Marks) (i : Nat) (hi : i < m.length) : (m.set i true).getD i false = true := by
  simp [List.getD, hi]

theorem getD_set_ne (m : Marks) (i j : Nat) (hij : i ≠ j) : (m.set i true).getD j false = m.getD j false := by
  simp [List.getD, hij]

theorem MLe.set (m : Marks) (i : Nat) : MLe m (m.set i true) := by
  refine ⟨by simp, fun j hj => ?_⟩
  by_cases hij : i = j
  · subst hij
    have : i < m.length := by
      unfold Marked at hj
      by_cases h : i < m.length
      · exact h
      · simp [List.getD, List.getElem?_eq_none (Nat.le_of_not_lt h)] at hj
    exact getD_set_self m i this
  · unfold Marked; rw [getD_set_ne m i j hij]; exact hj

theorem unmarked_set : ∀ (m : Marks) (i : Nat), i < m.length → m.getD i false = false →
    unmarked (m.set i true) + 1 = unmarked m
  | [], _, hi, _ => by simp at hi
  | b :: m, 0, _, hg => by
    simp [List.getD] at hg; subst hg
    simp [unmarked]
  | b :: m, i + 1, hi, hg => by
    have hi' : i < m.length := by simpa using hi
    have hg' : m.getD i false = false := by simpa [List.getD] using hg
    have ih := unmarked_set m i hi' hg'
    simp only [unmarked, List.set_cons_succ, List.count_cons] at ih ⊢
    omega

theorem unmarked_le : ∀ (m m' : Marks), MLe m m' → unmarked m' ≤ unmarked m
  | [], [], _ => by simp [unmarked]
  | [], _ :: _, h => by have := h.len; simp at this
  | _ :: _, [], h => by have := h.len; simp at this
  | b :: m, b' :: m', h => by
    have hl : m.length = m'.length := by have := h.len; simpa using this
    have ht : MLe m m' := ⟨hl, fun i hi => by
      have := h.le (i + 1) (by simpa [Marked, List.getD] using hi)
      simpa [Marked, List.getD] using this⟩
    have ih := unmarked_le m m' ht
    have h0 := h.le 0
    simp only [Marked, List.getD, List.getElem?_cons_zero, Option.getD_some] at h0
    simp only [unmarked, List.count_cons] at ih ⊢
    cases b <;> cases b' <;> simp_all <;> omega

/-- every descendant of block `i` is marked in `m'` -/
def Closed (h : Heap) (m' : Marks) (i : Nat) : Prop :=
  ∀ b, h[i]? = some b → b.busy = true → noPtr b.kind = false →
    ∀ w, w ∈ b.words → ∀ j, pointee h w = some j → Marked m' j

theorem Closed.mono {h : Heap} {m m' : Marks} {i : Nat} (hc : Closed h m i) (hl : MLe m m') : Closed h m' i :=
  fun b hb hbusy hk w hw j hp => hl.le j (hc b hb hbusy hk w hw j hp)

structure Post (h : Heap) (ws : List Nat) (m m' : Marks) : Prop where
  le : MLe m m'
  here : ∀ w, w ∈ ws → ∀ i, pointee h w = some i → Marked m' i
  closed : ∀ i, Marked m' i → ¬ Marked m i → Closed h m' i

theorem markWord_post (h : Heap) (rec : List Nat → Marks → Marks) (F : Nat)
    (hrec : ∀ ws m, m.length = h.length → unmarked m + 1 ≤ F → Post h ws m (rec ws m))
    (m : Marks) (w : Nat) (hm : m.length = h.length) (hF : unmarked m ≤ F) :
    Post h [w] m (markWord h rec m w) := by
  unfold markWord
  cases hp : pointee h w with
  | none =>
    exact ⟨MLe.refl m, fun w' hw' i hi => by simp at hw'; subst hw'; simp [hp] at hi, fun i h1 h2 => absurd h1 h2⟩
  | some i =>
    have hi : i < h.length := pointee_lt hp
    have him : i < m.length := hm ▸ hi
    by_cases hmk : m.getD i false = true
    · simp only [hmk, if_true]
      exact ⟨MLe.refl m, fun w' hw' j hj => by
        simp at hw'; subst hw'; rw [hp] at hj; cases hj; exact hmk, fun i h1 h2 => absurd h1 h2⟩
    · simp only [hmk]
      have hmf : m.getD i false = false := by simpa using hmk
      have hset := MLe.set m i
      have hsi : Marked (m.set i true) i := getD_set_self m i him
      have honly : ∀ j, Marked (m.set i true) j → ¬ Marked m j → j = i := by
        intro j h1 h2
        by_cases hij : i = j
        · exact hij.symm
        · exfalso; apply h2; unfold Marked at h1 ⊢; rwa [getD_set_ne m i j hij] at h1
      obtain ⟨b, hb⟩ : ∃ b, h[i]? = some b := ⟨h[i], by simp [hi]⟩
      simp only [hb]
      have triv : (b.busy = false ∨ noPtr b.kind = true) → Post h [w] m (m.set i true) := by
        intro hv
        refine ⟨hset, fun w' hw' j hj => by simp at hw'; subst hw'; rw [hp] at hj; cases hj; exact hsi, ?_⟩
        intro j h1 h2
        have := honly j h1 h2; subst this
        intro b' hb' hbusy hk
        rw [hb] at hb'; cases hb'
        cases hv with
        | inl h => rw [h] at hbusy; cases hbusy
        | inr h => rw [h] at hk; cases hk
      by_cases hbusy : b.busy = true
      · by_cases hk : noPtr b.kind = true
        · simp only [hbusy, hk]; exact triv (Or.inr hk)
        · have hk' : noPtr b.kind = false := by simpa using hk
          simp only [hbusy, hk']
          have hcnt : unmarked (m.set i true) + 1 ≤ F := by
            have := unmarked_set m i him hmf; omega
          have hpost := hrec b.words (m.set i true) (by simpa using hm) hcnt
          refine ⟨hset.trans hpost.le, fun w' hw' j hj => ?_, ?_⟩
          · simp at hw'; subst hw'; rw [hp] at hj; cases hj; exact hpost.le.le _ hsi
          · intro j h1 h2
            by_cases hji : j = i
            · subst hji
              intro b' hb' _ _ w' hw' j' hj'
              rw [hb] at hb'; cases hb'
              exact hpost.here w' hw' j' hj'
            · apply hpost.closed j h1
              intro h3; exact hji (honly j h3 h2)
      · have hbf : b.busy = false := by simpa using hbusy
        simp only [hbf]; exact triv (Or.inl hbf)

theorem fold_post (h : Heap) (rec : List Nat → Marks → Marks) (F : Nat)
    (hrec : ∀ ws m, m.length = h.length → unmarked m + 1 ≤ F → Post h ws m (rec ws m)) :
    ∀ (ws : List Nat) (m : Marks), m.length = h.length → unmarked m ≤ F →
      Post h ws m (ws.foldl (markWord h rec) m)
  | [], m, _, _ => ⟨MLe.refl m, fun w hw => by simp at hw, fun i h1 h2 => absurd h1 h2⟩
  | w :: ws, m, hm, hF => by
    simp only [List.foldl_cons]
    have h1 := markWord_post h rec F hrec m w hm hF
    have hm1 : (markWord h rec m w).length = h.length := h1.le.len ▸ hm
    have hF1 : unmarked (markWord h rec m w) ≤ F := Nat.le_trans (unmarked_le _ _ h1.le) hF
    have h2 := fold_post h rec F hrec ws (markWord h rec m w) hm1 hF1
    refine ⟨h1.le.trans h2.le, ?_, ?_⟩
    · intro w' hw' i hi
      simp only [List.mem_cons] at hw'
      cases hw' with
      | inl he => subst he; exact h2.le.le i (h1.here w' (by simp) i hi)
      | inr hin => exact h2.here w' hin i hi
    · intro i hi hni
      by_cases hmid : Marked (markWord h rec m w) i
      · exact (h1.closed i hmid hni).mono h2.le
      · exact h2.closed i hi hmid

theorem markRange_post (h : Heap) : ∀ (F : Nat) (ws : List Nat) (m : Marks),
    m.length = h.length → unmarked m ≤ F → Post h ws m (markRange h F ws m)
  | 0, ws, m, hm, hF => by
    unfold markRange
    exact fold_post h _ 0 (fun _ _ _ hc => by omega) ws m hm hF
  | F + 1, ws, m, hm, hF => by
    unfold markRange
    exact fold_post h _ (F + 1) (fun ws' m' hm' hc => markRange_post h F ws' m' hm' (by omega)) ws m hm hF

theorem unmarked_replicate (n : Nat) : unmarked (List.replicate n false) = n := by
  simp [unmarked]

theorem mark_post (h : Heap) (roots : List Nat) :
    Post h roots (List.replicate h.length false) (mark h roots) :=
  markRange_post h h.length roots _ (by simp) (by rw [unmarked_replicate]; exact Nat.le_refl _)

theorem mark_length (h : Heap) (roots : List Nat) : (mark h roots).length = h.length := by
  have := (mark_post h roots).le.len; simpa using this.symm

theorem not_marked_replicate (n i : Nat) : ¬ Marked (List.replicate n false) i := by
  unfold Marked
  by_cases hi : i < n
  · simp [List.getD, hi]
  · simp [List.getD, hi]

/-- completeness of the marker: everything reachable is marked -/
theorem mark_complete {h : Heap} {roots : List Nat} {i : Nat} (hr : Reach h roots i) :
    Marked (mark h roots) i := by
  have hpost := mark_post h roots
  induction hr with
  | root hw hp => exact hpost.here _ hw _ hp
  | step _ hb hbusy hk hw hp ih =>
    exact hpost.closed _ ih (not_marked_replicate _ _) _ hb hbusy hk _ hw _ hp


/-! ## soundness of the marker: only reachable pieces are marked -/

def Sound (h : Heap) (R : List Nat) (m : Marks) : Prop := ∀ i, Marked m i → Reach h R i
def Just (h : Heap) (R : List Nat) (ws : List Nat) : Prop := ∀ w, w ∈ ws → ∀ i, pointee h w = some i → Reach h R i

theorem markWord_sound (h : Heap) (R : List Nat) (rec : List Nat → Marks → Marks)
    (hrec : ∀ ws m, Just h R ws → Sound h R m → Sound h R (rec ws m))
    (m : Marks) (w : Nat) (hw : Just h R [w]) (hm : Sound h R m) : Sound h R (markWord h rec m w) := by
  unfold markWord
  cases hp : pointee h w with
  | none => exact hm
  | some i =>
    have hri : Reach h R i := hw w (by simp) i hp
    by_cases hmk : m.getD i false = true
    · simp only [hmk, if_true]; exact hm
    · simp only [hmk]
      have hm1 : Sound h R (m.set i true) := by
        intro j hj
        by_cases hij : i = j
        · subst hij; exact hri
        · apply hm; unfold Marked at hj ⊢; rwa [getD_set_ne m i j hij] at hj
      cases hb : h[i]? with
      | none => exact hm1
      | some b =>
        simp only []
        by_cases hbusy : b.busy = true
        · by_cases hk : noPtr b.kind = true
          · simp only [hbusy, hk]; exact hm1
          · have hk' : noPtr b.kind = false := by simpa using hk
            simp only [hbusy, hk']
            exact hrec b.words _ (fun w' hw' j hj => Reach.step hri hb hbusy hk' hw' hj) hm1
        · have hbf : b.busy = false := by simpa using hbusy
          simp only [hbf]; exact hm1

theorem fold_sound (h : Heap) (R : List Nat) (rec : List Nat → Marks → Marks)
    (hrec : ∀ ws m, Just h R ws → Sound h R m → Sound h R (rec ws m)) :
    ∀ (ws : List Nat) (m : Marks), Just h R ws → Sound h R m → Sound h R (ws.foldl (markWord h rec) m)
  | [], _, _, hm => hm
  | w :: ws, m, hw, hm => by
    simp only [List.foldl_cons]
    exact fold_sound h R rec hrec ws _ (fun w' hw' => hw w' (List.mem_cons_of_mem _ hw'))
      (markWord_sound h R rec hrec m w (fun w' hw' => by simp at hw'; subst hw'; exact hw w' (by simp)) hm)

theorem markRange_sound (h : Heap) (R : List Nat) : ∀ (F : Nat) (ws : List Nat) (m : Marks),
    Just h R ws → Sound h R m → Sound h R (markRange h F ws m)
  | 0, ws, m, hw, hm => by
    unfold markRange
    exact fold_sound h R _ (fun _ _ _ hm' => hm') ws m hw hm
  | F + 1, ws, m, hw, hm => by
    unfold markRange
    exact fold_sound h R _ (fun ws' m' hw' hm' => markRange_sound h R F ws' m' hw' hm') ws m hw hm

/-- soundness of the marker: whatever is marked is reachable -/
theorem mark_sound {h : Heap} {roots : List Nat} {i : Nat} (hm : Marked (mark h roots) i) : Reach h roots i :=
  markRange_sound h roots h.length roots _ (fun _ hw _ hp => Reach.root hw hp)
    (fun _ hj => absurd hj (not_marked_replicate _ _)) i hm

/-! ## sweep -/

theorem sweepBlock_shape (b : Block) (mk : Bool) : (sweepBlock b mk).shape = b.shape := by
  unfold sweepBlock
  by_cases h : (b.busy && !mk) = true
  · simp [h, Block.shape]
  · simp [h]

theorem sweep_getElem? (h : Heap) (m : Marks) (i : Nat) (hl : m.length = h.length) :
    (sweep h m)[i]? = (h[i]?).map (fun b => sweepBlock b (m.getD i false)) := by
  unfold sweep
  rw [List.getElem?_zipWith]
  by_cases hi : i < h.length
  · have hi' : i < m.length := hl ▸ hi
    simp [List.getD, hi, hi']
  · simp [List.getElem?_eq_none (Nat.le_of_not_lt hi)]

theorem sweep_shape (h : Heap) (m : Marks) (hl : m.length = h.length) :
    (sweep h m).map Block.shape = h.map Block.shape := by
  apply List.ext_getElem?
  intro i
  simp only [List.getElem?_map, sweep_getElem? h m i hl]
  cases h[i]? with
  | none => rfl
  | some b => simp [sweepBlock_shape]

theorem collect_shape (h : Heap) (roots : List Nat) :
    (collect h roots).map Block.shape = h.map Block.shape :=
  sweep_shape h _ (mark_length h roots)

theorem collect_getElem? (h : Heap) (roots : List Nat) (i : Nat) :
    (collect h roots)[i]? = (h[i]?).map (fun b => sweepBlock b ((mark h roots).getD i false)) :=
  sweep_getElem? h _ i (mark_length h roots)

theorem collect_length (h : Heap) (roots : List Nat) : (collect h roots).length = h.length := by
  have := congrArg List.length (collect_shape h roots); simpa using this

theorem Reach.lt {h : Heap} {roots : List Nat} {i : Nat} (hr : Reach h roots i) : i < h.length := by
  cases hr with
  | root _ hp => exact pointee_lt hp
  | step _ _ _ _ _ hp => exact pointee_lt hp

end AldorVerif.Gc
