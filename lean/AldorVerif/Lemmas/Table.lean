import AldorVerif.Model.Table

/-! Lemmas about the model of `table.c`: the invariant, the abstraction to a finite map,
    and one specification lemma per operation. -/
namespace AldorVerif.Table

/-- the (key, element) pair of a slot -/
def entry (s : Slot) : Nat × Nat := (s.key, s.elt)

/-- first element stored under `k` in a sequence of slots -/
def lookup (k : Nat) : List Slot → Option Nat
  | [] => none
  | b :: r => if b.key = k then some b.elt else lookup k r

/-- abstraction function: the finite map denoted by a table (read off the iteration order,
    independent of the hash function) -/
def abs (t : Table) (k : Nat) : Option Nat := lookup k (tblIter t)

/-- map update -/
def upd (m : Nat → Option Nat) (k : Nat) (v : Option Nat) : Nat → Option Nat :=
  fun k' => if k' = k then v else m k'

/-! ### lookup -/

theorem lookup_eq_none_iff (k : Nat) (l : List Slot) :
    lookup k l = none ↔ ∀ s ∈ l, s.key ≠ k := by
  induction l with
  | nil => simp [lookup]
  | cons b r ih =>
    by_cases h : b.key = k
    · simp [lookup, h]
    · simp [lookup, h, ih]

theorem lookup_eq_some_iff (k e : Nat) (l : List Slot) (hn : (l.map Slot.key).Nodup) :
    lookup k l = some e ↔ ∃ s ∈ l, s.key = k ∧ s.elt = e := by
  induction l with
  | nil => simp [lookup]
  | cons b r ih =>
    rw [List.map_cons, List.nodup_cons] at hn
    by_cases h : b.key = k
    · simp only [lookup, h, if_true, Option.some.injEq]
      constructor
      · intro he; exact ⟨b, List.mem_cons_self, h, he⟩
      · rintro ⟨s, hs, hk, he⟩
        rcases List.mem_cons.mp hs with rfl | hs
        · exact he
        · exact absurd (List.mem_map.mpr ⟨s, hs, hk.trans h.symm⟩) hn.1
    · simp only [lookup, h, if_false, ih hn.2]
      constructor
      · rintro ⟨s, hs, hk, he⟩; exact ⟨s, List.mem_cons_of_mem _ hs, hk, he⟩
      · rintro ⟨s, hs, hk, he⟩
        rcases List.mem_cons.mp hs with rfl | hs
        · exact absurd hk h
        · exact ⟨s, hs, hk, he⟩

theorem lookup_perm (k : Nat) {l₁ l₂ : List Slot} (hp : l₁.Perm l₂) (hn : (l₁.map Slot.key).Nodup) :
    lookup k l₁ = lookup k l₂ := by
  have hn2 : (l₂.map Slot.key).Nodup := (hp.map Slot.key).nodup_iff.mp hn
  apply Option.ext
  intro e
  rw [lookup_eq_some_iff k e l₁ hn, lookup_eq_some_iff k e l₂ hn2]
  constructor
  · rintro ⟨s, hs, h⟩; exact ⟨s, hp.mem_iff.mp hs, h⟩
  · rintro ⟨s, hs, h⟩; exact ⟨s, hp.mem_iff.mpr hs, h⟩

theorem lookup_perm_cons (k : Nat) {l m : List Slot} {b : Slot} (hp : l.Perm (b :: m))
    (hn : (l.map Slot.key).Nodup) :
    lookup k l = if b.key = k then some b.elt else lookup k m := by
  rw [lookup_perm k hp hn]; rfl

/-! ### lists of chains -/

/-- everything outside chain `x` -/
def others (L : List (List Slot)) (x : Nat) : List Slot :=
  (L.take x).flatten ++ (L.drop (x + 1)).flatten

theorem flatten_perm_getElem (L : List (List Slot)) (x : Nat) (h : x < L.length) :
    L.flatten.Perm (L[x] ++ others L x) := by
  have e : L = L.take x ++ L[x] :: L.drop (x + 1) := by
    rw [List.getElem_cons_drop h, List.take_append_drop]
  have e2 : L.flatten = (L.take x).flatten ++ (L[x] ++ (L.drop (x + 1)).flatten) := by
    conv => lhs; rw [e]
    rw [List.flatten_append, List.flatten_cons]
  rw [e2, others, ← List.append_assoc, ← List.append_assoc]
  exact List.Perm.append List.perm_append_comm (List.Perm.refl _)

theorem flatten_set_perm (L : List (List Slot)) (x : Nat) (h : x < L.length) (c : List Slot) :
    (L.set x c).flatten.Perm (c ++ others L x) := by
  rw [List.set_eq_take_append_cons_drop, if_pos h, List.flatten_append, List.flatten_cons,
      others, ← List.append_assoc, ← List.append_assoc]
  exact List.Perm.append List.perm_append_comm (List.Perm.refl _)

/-! ### the invariant -/

structure Inv (hf : Nat → Nat) (t : Table) : Prop where
  /-- there is at least one bucket -/
  pos : 0 < t.buckv.size
  /-- every slot carries the hash of its key and lives in bucket `hash mod buckc` -/
  home : ∀ i (h : i < t.buckv.size), ∀ s ∈ t.buckv[i], s.hash = hf s.key ∧ s.hash % t.buckv.size = i
  /-- no key occurs twice -/
  nodup : ((tblIter t).map Slot.key).Nodup
  /-- `count` is the number of slots -/
  count : t.count = (tblIter t).length

theorem chain_eq (t : Table) (x : Nat) (h : x < t.buckv.size) : t.chain x = t.buckv[x] := by
  simp [Table.chain, Array.getD, h]

theorem mem_iter (t : Table) (s : Slot) :
    s ∈ tblIter t ↔ ∃ i, ∃ h : i < t.buckv.size, s ∈ t.buckv[i] := by
  unfold tblIter
  rw [List.mem_flatten]
  constructor
  · rintro ⟨l, hl, hs⟩
    obtain ⟨i, hi, rfl⟩ := List.mem_iff_getElem.mp hl
    exact ⟨i, by simpa using hi, by simpa using hs⟩
  · rintro ⟨i, h, hs⟩
    exact ⟨t.buckv[i], by simp, hs⟩

theorem iter_perm (t : Table) (x : Nat) (h : x < t.buckv.size) :
    (tblIter t).Perm (t.buckv[x] ++ others t.buckv.toList x) := by
  have := flatten_perm_getElem t.buckv.toList x (by simpa using h)
  simpa [tblIter] using this

theorem iter_set_perm (t : Table) (x : Nat) (h : x < t.buckv.size) (c : List Slot) (n : Nat) :
    (tblIter { buckv := t.buckv.setIfInBounds x c, count := n }).Perm (c ++ others t.buckv.toList x) := by
  have := flatten_set_perm t.buckv.toList x (by simpa using h) c
  simpa [tblIter] using this

/-- a slot with key `k` can only live in the home bucket of `k` -/
theorem mem_home {hf : Nat → Nat} {t : Table} (hi : Inv hf t) {s : Slot} (hs : s ∈ tblIter t) :
    s ∈ t.buckv[hf s.key % t.buckv.size]'(Nat.mod_lt _ hi.pos) := by
  obtain ⟨i, h, hm⟩ := (mem_iter t s).mp hs
  have := hi.home i h s hm
  have e : hf s.key % t.buckv.size = i := by rw [← this.1]; exact this.2
  simp only [e]; exact hm

/-! ### BUCKET_SEARCH -/

theorem bucketSearch_none (h k : Nat) (c : List Slot) (hn : bucketSearch h k c = none) :
    ∀ s ∈ c, ¬ (s.hash = h ∧ s.key = k) := by
  induction c with
  | nil => simp
  | cons b r ih =>
    unfold bucketSearch at hn
    by_cases hb : b.hash = h ∧ b.key = k
    · simp [hb] at hn
    · simp only [hb, if_false] at hn
      cases hr : bucketSearch h k r with
      | some p => simp [hr] at hn
      | none =>
        intro s hs
        rcases List.mem_cons.mp hs with rfl | hs
        · exact hb
        · exact ih hr s hs

theorem bucketSearch_some (h k : Nat) (c : List Slot) (b : Slot) (rest : List Slot)
    (hsome : bucketSearch h k c = some (b, rest)) :
    b.hash = h ∧ b.key = k ∧ c.Perm (b :: rest) := by
  induction c generalizing rest with
  | nil => simp [bucketSearch] at hsome
  | cons a r ih =>
    unfold bucketSearch at hsome
    by_cases ha : a.hash = h ∧ a.key = k
    · simp only [ha, and_self, if_true, Option.some.injEq, Prod.mk.injEq] at hsome
      obtain ⟨rfl, rfl⟩ := hsome
      exact ⟨ha.1, ha.2, List.Perm.refl _⟩
    · simp only [ha, if_false] at hsome
      cases hr : bucketSearch h k r with
      | none => simp [hr] at hsome
      | some p =>
        obtain ⟨s, r'⟩ := p
        simp only [hr, Option.some.injEq, Prod.mk.injEq] at hsome
        obtain ⟨rfl, rfl⟩ := hsome
        have := ih r' hr
        exact ⟨this.1, this.2.1, ((List.Perm.cons a this.2.2).trans (List.Perm.swap _ _ _))⟩

/-! ### replacing one chain -/

theorem home_set {hf : Nat → Nat} {t : Table} (hi : Inv hf t) (x : Nat) (c : List Slot)
    (hc : ∀ s ∈ c, s.hash = hf s.key ∧ s.hash % t.buckv.size = x) :
    ∀ i (h : i < (t.buckv.setIfInBounds x c).size), ∀ s ∈ (t.buckv.setIfInBounds x c)[i],
      s.hash = hf s.key ∧ s.hash % (t.buckv.setIfInBounds x c).size = i := by
  intro i h s hs
  have h' : i < t.buckv.size := by simpa using h
  rw [Array.getElem_setIfInBounds h'] at hs
  rw [Array.size_setIfInBounds]
  by_cases e : x = i
  · simp only [e, if_true] at hs; subst e; exact hc s hs
  · simp only [e, if_false] at hs; exact hi.home i h' s hs

/-- the search misses: no slot of the table has key `k` -/
theorem search_none {hf : Nat → Nat} {t : Table} (hi : Inv hf t) (k : Nat)
    (hn : bucketSearch (hf k) k (t.chain (hf k % t.buckc)) = none) :
    ∀ s ∈ tblIter t, s.key ≠ k := by
  intro s hs hk
  subst hk
  have hx : hf s.key % t.buckv.size < t.buckv.size := Nat.mod_lt _ hi.pos
  have hm := mem_home hi hs
  unfold Table.buckc at hn
  rw [chain_eq t _ hx] at hn
  have := bucketSearch_none _ _ _ hn s hm
  exact this ⟨(hi.home _ hx s hm).1, rfl⟩

/-- the search hits: the table is, up to order, the found slot followed by the rest -/
theorem search_some {hf : Nat → Nat} {t : Table} (hi : Inv hf t) (k : Nat) (b : Slot) (rest : List Slot)
    (hs : bucketSearch (hf k) k (t.chain (hf k % t.buckc)) = some (b, rest)) :
    b.hash = hf k ∧ b.key = k ∧
    (tblIter t).Perm (b :: (rest ++ others t.buckv.toList (hf k % t.buckc))) ∧
    (∀ s ∈ rest, s.hash = hf s.key ∧ s.hash % t.buckv.size = hf k % t.buckc) := by
  have hx : hf k % t.buckv.size < t.buckv.size := Nat.mod_lt _ hi.pos
  unfold Table.buckc at hs ⊢
  rw [chain_eq t _ hx] at hs
  obtain ⟨h1, h2, h3⟩ := bucketSearch_some _ _ _ _ _ hs
  refine ⟨h1, h2, ?_, ?_⟩
  · exact (iter_perm t _ hx).trans (List.Perm.append h3 (List.Perm.refl _))
  · intro s hs'
    exact hi.home _ hx s (h3.mem_iff.mpr (List.mem_cons_of_mem _ hs'))

/-! ### tblElt -/

theorem tblElt_spec' {hf : Nat → Nat} {t : Table} (hi : Inv hf t) (k d : Nat) :
    Inv hf (tblElt hf t k d).1 ∧ (tblIter (tblElt hf t k d).1).Perm (tblIter t) ∧
    (tblElt hf t k d).2 = (abs t k).getD d := by
  unfold tblElt
  simp only
  cases hs : bucketSearch (hf k) k (t.chain (hf k % t.buckc)) with
  | none =>
    simp only
    refine ⟨hi, List.Perm.refl _, ?_⟩
    have : abs t k = none := (lookup_eq_none_iff k _).mpr (search_none hi k hs)
    simp [this]
  | some p =>
    obtain ⟨b, rest⟩ := p
    simp only
    obtain ⟨h1, h2, h3, h4⟩ := search_some hi k b rest hs
    have hx : hf k % t.buckc < t.buckv.size := Nat.mod_lt _ hi.pos
    have hp : (tblIter { buckv := t.buckv.setIfInBounds (hf k % t.buckc) (b :: rest), count := t.count }).Perm (tblIter t) :=
      (iter_set_perm t _ hx (b :: rest) t.count).trans h3.symm
    refine ⟨⟨?_, ?_, ?_, ?_⟩, hp, ?_⟩
    · simpa using hi.pos
    · apply home_set hi _ _ _
      intro s hs'
      rcases List.mem_cons.mp hs' with rfl | hs'
      · exact ⟨by rw [h1, h2], by rw [h1]; rfl⟩
      · exact h4 s hs'
    · exact ((hp.map Slot.key).nodup_iff).mpr hi.nodup
    · simp only; rw [hi.count]; exact hp.length_eq.symm
    · have := lookup_perm_cons k h3 hi.nodup
      simp only [abs, this, h2, if_true, Option.getD_some]

/-! ### tblEnlarge -/

theorem getD_pos_of_all_pos (l : List Nat) (n d : Nat) (hl : ∀ x ∈ l, 0 < x) (hd : 0 < d) : 0 < l.getD n d := by
  rw [List.getD_eq_getElem?_getD]
  cases h : l[n]? with
  | none => simpa using hd
  | some v => simp only [Option.getD_some]; exact hl v (List.mem_of_getElem? h)

theorem binPrime_pos (n : Nat) : 0 < binPrime n := by
  unfold binPrime
  apply getD_pos_of_all_pos
  · decide
  · decide

theorem enlargeStep_spec (n : Nat) (hn : 0 < n) (nb : Array (List Slot)) (hsz : nb.size = n) (hd : Slot) :
    (enlargeStep n nb hd).size = n ∧
    (enlargeStep n nb hd).toList.flatten.Perm (hd :: nb.toList.flatten) ∧
    (∀ i (h : i < (enlargeStep n nb hd).size) (h' : i < nb.size), ∀ s ∈ (enlargeStep n nb hd)[i],
        s ∈ nb[i] ∨ (s = hd ∧ hd.hash % n = i)) := by
  have hx : hd.hash % n < nb.size := by rw [hsz]; exact Nat.mod_lt _ hn
  unfold enlargeStep
  simp only
  refine ⟨by simp [hsz], ?_, ?_⟩
  · rw [Array.toList_setIfInBounds]
    have h1 := flatten_set_perm nb.toList (hd.hash % n) (by simpa using hx) (hd :: nb.getD (hd.hash % n) [])
    have h2 := flatten_perm_getElem nb.toList (hd.hash % n) (by simpa using hx)
    have e : nb.getD (hd.hash % n) [] = nb.toList[hd.hash % n]'(by simpa using hx) := by
      simp [Array.getD, hx]
    rw [e] at h1 ⊢
    exact h1.trans (List.Perm.cons hd h2.symm)
  · intro i h h' s hs
    rw [Array.getElem_setIfInBounds h'] at hs
    by_cases e : hd.hash % n = i
    · simp only [e, if_true] at hs
      rcases List.mem_cons.mp hs with rfl | hs
      · exact Or.inr ⟨rfl, e⟩
      · left
        have : nb.getD i [] = nb[i] := by simp [Array.getD, h']
        rw [this] at hs; exact hs
    · simp only [e, if_false] at hs; exact Or.inl hs

theorem enlargeFold_spec (n : Nat) (hn : 0 < n) (ss : List Slot) (nb : Array (List Slot)) (hsz : nb.size = n) :
    (ss.foldl (enlargeStep n) nb).size = n ∧
    (ss.foldl (enlargeStep n) nb).toList.flatten.Perm (ss ++ nb.toList.flatten) ∧
    (∀ i (h : i < (ss.foldl (enlargeStep n) nb).size) (h' : i < nb.size), ∀ s ∈ (ss.foldl (enlargeStep n) nb)[i],
        s ∈ nb[i] ∨ (s ∈ ss ∧ s.hash % n = i)) := by
  induction ss generalizing nb with
  | nil => exact ⟨hsz, List.Perm.refl _, fun i h h' s hs => Or.inl hs⟩
  | cons a r ih =>
    obtain ⟨s1, s2, s3⟩ := enlargeStep_spec n hn nb hsz a
    obtain ⟨r1, r2, r3⟩ := ih (enlargeStep n nb a) s1
    simp only [List.foldl_cons]
    refine ⟨r1, ?_, ?_⟩
    · refine r2.trans ?_
      refine (List.Perm.append (List.Perm.refl r) s2).trans ?_
      simp
    · intro i h h' s hs
      have hi1 : i < (enlargeStep n nb a).size := by rw [s1, ← hsz]; exact h'
      rcases r3 i h hi1 s hs with h1 | ⟨h1, h2⟩
      · rcases s3 i hi1 h' s h1 with h3 | ⟨h3, h4⟩
        · exact Or.inl h3
        · exact Or.inr ⟨by rw [h3]; exact List.mem_cons_self, by rw [h3]; exact h4⟩
      · exact Or.inr ⟨List.mem_cons_of_mem _ h1, h2⟩

theorem tblEnlarge_spec' {hf : Nat → Nat} {t : Table} (hi : Inv hf t) :
    Inv hf (tblEnlarge t) ∧ (tblIter (tblEnlarge t)).Perm (tblIter t) ∧
    (tblEnlarge t).buckc = binPrime (cielLg t.buckc + 1) := by
  have hn := binPrime_pos (cielLg t.buckc + 1)
  have e : (tblEnlarge t).buckv =
      (tblIter t).foldl (enlargeStep (binPrime (cielLg t.buckc + 1))) (Array.replicate (binPrime (cielLg t.buckc + 1)) []) := by
    unfold tblEnlarge tblIter
    simp only
    rw [List.foldl_flatten, Array.foldl_toList]
  obtain ⟨r1, r2, r3⟩ := enlargeFold_spec _ hn (tblIter t) (Array.replicate (binPrime (cielLg t.buckc + 1)) []) (by simp)
  rw [← e] at r1 r2 r3
  have hp : (tblIter (tblEnlarge t)).Perm (tblIter t) := by
    have : (tblIter (tblEnlarge t)) = (tblEnlarge t).buckv.toList.flatten := rfl
    rw [this]
    simpa using r2
  refine ⟨⟨?_, ?_, ?_, ?_⟩, hp, r1⟩
  · rw [r1]; exact hn
  · intro i h s hs
    have h' : i < (Array.replicate (binPrime (cielLg t.buckc + 1)) ([] : List Slot)).size := by
      simp only [Array.size_replicate]; rw [← r1]; exact h
    rcases r3 i h h' s hs with h1 | ⟨h1, h2⟩
    · simp at h1
    · obtain ⟨j, hj, hm⟩ := (mem_iter t s).mp h1
      exact ⟨(hi.home j hj s hm).1, by rw [r1]; exact h2⟩
  · exact ((hp.map Slot.key).nodup_iff).mpr hi.nodup
  · have : (tblEnlarge t).count = t.count := rfl
    rw [this, hi.count]; exact hp.length_eq.symm

theorem abs_perm {hf : Nat → Nat} {t t' : Table} (hi' : Inv hf t') (hp : (tblIter t').Perm (tblIter t)) :
    abs t' = abs t := by
  funext k
  exact lookup_perm k hp hi'.nodup

/-! ### tblSetElt -/

theorem tblSetElt_spec' {hf : Nat → Nat} {t : Table} (hi : Inv hf t) (k e : Nat) :
    Inv hf (tblSetElt hf t k e) ∧ abs (tblSetElt hf t k e) = upd (abs t) k (some e) := by
  unfold tblSetElt
  simp only
  have hx : hf k % t.buckc < t.buckv.size := Nat.mod_lt _ hi.pos
  cases hs : bucketSearch (hf k) k (t.chain (hf k % t.buckc)) with
  | none =>
    simp only
    have hnk := search_none hi k hs
    -- the table after pushing the new slot
    have hp1 : (tblIter { buckv := t.buckv.setIfInBounds (hf k % t.buckc) (⟨k, e, hf k⟩ :: t.chain (hf k % t.buckc)),
                          count := t.count + 1 }).Perm (⟨k, e, hf k⟩ :: tblIter t) := by
      refine (iter_set_perm t _ hx _ _).trans ?_
      rw [chain_eq t _ hx]
      exact List.Perm.cons _ (iter_perm t _ hx).symm
    have hi1 : Inv hf { buckv := t.buckv.setIfInBounds (hf k % t.buckc) (⟨k, e, hf k⟩ :: t.chain (hf k % t.buckc)),
                        count := t.count + 1 } := by
      refine ⟨?_, ?_, ?_, ?_⟩
      · simpa using hi.pos
      · apply home_set hi _ _ _
        intro s hs'
        rcases List.mem_cons.mp hs' with rfl | hs'
        · exact ⟨rfl, rfl⟩
        · rw [chain_eq t _ hx] at hs'; exact hi.home _ hx s hs'
      · refine ((hp1.map Slot.key).nodup_iff).mpr ?_
        rw [List.map_cons, List.nodup_cons]
        refine ⟨?_, hi.nodup⟩
        intro hm
        obtain ⟨s, hs1, hs2⟩ := List.mem_map.mp hm
        exact hnk s hs1 hs2
      · simp only; rw [hp1.length_eq, hi.count]; rfl
    have ha1 : abs { buckv := t.buckv.setIfInBounds (hf k % t.buckc) (⟨k, e, hf k⟩ :: t.chain (hf k % t.buckc)),
                     count := t.count + 1 } = upd (abs t) k (some e) := by
      funext k'
      have := lookup_perm_cons k' hp1 hi1.nodup
      simp only [abs, this, upd]
      by_cases hk : k = k'
      · simp [hk]
      · have : ¬ k' = k := fun h => hk h.symm
        simp [hk, this]
    split
    · obtain ⟨g1, g2, _⟩ := tblEnlarge_spec' hi1
      exact ⟨g1, (abs_perm g1 g2).trans ha1⟩
    · exact ⟨hi1, ha1⟩
  | some p =>
    obtain ⟨b, rest⟩ := p
    simp only
    obtain ⟨h1, h2, h3, h4⟩ := search_some hi k b rest hs
    have hp : (tblIter { buckv := t.buckv.setIfInBounds (hf k % t.buckc) ({ b with elt := e } :: rest), count := t.count }).Perm
        ({ b with elt := e } :: (rest ++ others t.buckv.toList (hf k % t.buckc))) :=
      iter_set_perm t _ hx _ t.count
    have hkeys : ((tblIter { buckv := t.buckv.setIfInBounds (hf k % t.buckc) ({ b with elt := e } :: rest), count := t.count }).map Slot.key).Perm
        ((tblIter t).map Slot.key) := (hp.map Slot.key).trans (h3.map Slot.key).symm
    have hi1 : Inv hf { buckv := t.buckv.setIfInBounds (hf k % t.buckc) ({ b with elt := e } :: rest), count := t.count } := by
      refine ⟨?_, ?_, ?_, ?_⟩
      · simpa using hi.pos
      · apply home_set hi _ _ _
        intro s hs'
        rcases List.mem_cons.mp hs' with rfl | hs'
        · exact ⟨by simp only; rw [h1, h2], by simp only; rw [h1]; rfl⟩
        · exact h4 s hs'
      · exact (hkeys.nodup_iff).mpr hi.nodup
      · exact hi.count.trans (by simpa using hkeys.length_eq.symm)
    refine ⟨hi1, ?_⟩
    funext k'
    have e1 := lookup_perm_cons k' hp hi1.nodup
    have e2 := lookup_perm_cons k' h3 hi.nodup
    show lookup k' (tblIter _) = (if k' = k then some e else lookup k' (tblIter t))
    rw [e1, e2]
    simp only [h2]
    by_cases hk : k = k'
    · simp [hk]
    · have : ¬ k' = k := fun h => hk h.symm
      simp [hk, this]

/-! ### tblDrop -/

theorem tblDrop_spec' {hf : Nat → Nat} {t : Table} (hi : Inv hf t) (k : Nat) :
    Inv hf (tblDrop hf t k) ∧ abs (tblDrop hf t k) = upd (abs t) k none := by
  unfold tblDrop
  simp only
  have hx : hf k % t.buckc < t.buckv.size := Nat.mod_lt _ hi.pos
  cases hs : bucketSearch (hf k) k (t.chain (hf k % t.buckc)) with
  | none =>
    simp only
    refine ⟨hi, ?_⟩
    have : abs t k = none := (lookup_eq_none_iff k _).mpr (search_none hi k hs)
    funext k'
    simp only [upd]
    by_cases hk : k' = k
    · simp [hk, this]
    · simp [hk]
  | some p =>
    obtain ⟨b, rest⟩ := p
    simp only
    obtain ⟨h1, h2, h3, h4⟩ := search_some hi k b rest hs
    have hp : (tblIter { buckv := t.buckv.setIfInBounds (hf k % t.buckc) rest, count := t.count - 1 }).Perm
        (rest ++ others t.buckv.toList (hf k % t.buckc)) := iter_set_perm t _ hx _ _
    have hn0 : ((b :: (rest ++ others t.buckv.toList (hf k % t.buckc))).map Slot.key).Nodup :=
      ((h3.map Slot.key).nodup_iff).mp hi.nodup
    rw [List.map_cons, List.nodup_cons] at hn0
    have hi1 : Inv hf { buckv := t.buckv.setIfInBounds (hf k % t.buckc) rest, count := t.count - 1 } := by
      refine ⟨?_, ?_, ?_, ?_⟩
      · simpa using hi.pos
      · exact home_set hi _ _ h4
      · exact ((hp.map Slot.key).nodup_iff).mpr hn0.2
      · simp only; rw [hp.length_eq, hi.count, h3.length_eq]; simp
    refine ⟨hi1, ?_⟩
    funext k'
    have e1 := lookup_perm k' hp hi1.nodup
    have e2 := lookup_perm_cons k' h3 hi.nodup
    show lookup k' (tblIter _) = (if k' = k then none else lookup k' (tblIter t))
    rw [e1, e2]
    simp only [h2]
    by_cases hk : k = k'
    · subst hk
      simp only [if_true]
      apply (lookup_eq_none_iff k _).mpr
      intro s hs' hk'
      exact hn0.1 (List.mem_map.mpr ⟨s, hs', hk'.trans h2.symm⟩)
    · have : ¬ k' = k := fun h => hk h.symm
      simp [hk, this]

/-! ### element-wise maps: tblNMap, tblRemoveIf, tblCopy -/

theorem lookup_map (g : Slot → Slot) (φ : Nat → Nat) (hk : ∀ s, (g s).key = s.key)
    (he : ∀ s, (g s).elt = φ s.elt) (k : Nat) (l : List Slot) :
    lookup k (l.map g) = (lookup k l).map φ := by
  induction l with
  | nil => simp [lookup]
  | cons b r ih =>
    simp only [List.map_cons, lookup, hk, he]
    by_cases h : b.key = k <;> simp [h, ih]

theorem mapSlots_spec {hf : Nat → Nat} {t : Table} (hi : Inv hf t) (g : Slot → Slot) (φ : Nat → Nat)
    (hk : ∀ s, (g s).key = s.key) (hh : ∀ s, (g s).hash = s.hash) (he : ∀ s, (g s).elt = φ s.elt) :
    Inv hf { buckv := t.buckv.map (fun c => c.map g), count := t.count } ∧
    tblIter { buckv := t.buckv.map (fun c => c.map g), count := t.count } = (tblIter t).map g ∧
    abs { buckv := t.buckv.map (fun c => c.map g), count := t.count } = fun k => (abs t k).map φ := by
  have hit : tblIter { buckv := t.buckv.map (fun c => c.map g), count := t.count } = (tblIter t).map g := by
    simp [tblIter, List.map_flatten]
  refine ⟨⟨?_, ?_, ?_, ?_⟩, hit, ?_⟩
  · simpa using hi.pos
  · intro i h s hs
    have h' : i < t.buckv.size := by simpa using h
    simp only [Array.getElem_map, List.mem_map] at hs
    obtain ⟨s0, hs0, rfl⟩ := hs
    have := hi.home i h' s0 hs0
    simp only [Array.size_map, hk, hh]
    exact this
  · rw [hit, List.map_map]
    have : Slot.key ∘ g = Slot.key := by funext s; simp [hk]
    rw [this]; exact hi.nodup
  · simp only; rw [hit, List.length_map]; exact hi.count
  · funext k
    simp only [abs, hit]
    exact lookup_map g φ hk he k _

end AldorVerif.Table
