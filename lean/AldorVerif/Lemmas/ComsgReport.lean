import AldorVerif.Model.ComsgReport
import AldorVerif.Lemmas.SrcPos
/-! helper lemmas for the report model (comsg.c): membership through the sort, the runs, the
duplicate filter.  Core Lean only. -/
namespace AldorVerif.ComsgReport
open AldorVerif.SrcPos

theorem mem_sink (x m : CoMsg) (l : List CoMsg) : m ∈ sink x l ↔ m = x ∨ m ∈ l := by
  induction l with
  | nil => simp [sink]
  | cons y r ih =>
    unfold sink
    split
    · simp only [List.mem_cons, ih]
      constructor
      · rintro (h | h | h) <;> simp [h]
      · rintro (h | h | h) <;> simp [h]
    · simp

theorem mem_foldl_sink (l acc : List CoMsg) (m : CoMsg) :
    m ∈ l.foldl (fun acc x => sink x acc) acc ↔ m ∈ acc ∨ m ∈ l := by
  induction l generalizing acc with
  | nil => simp
  | cons x r ih =>
    simp only [List.foldl_cons, ih, mem_sink, List.mem_cons]
    constructor
    · rintro ((h | h) | h) <;> simp [h]
    · rintro (h | h | h) <;> simp [h]

theorem mem_lisort (l : List CoMsg) (m : CoMsg) : m ∈ lisort l ↔ m ∈ l := by
  simp [lisort, mem_foldl_sink]

theorem length_sink (x : CoMsg) (l : List CoMsg) : (sink x l).length = l.length + 1 := by
  induction l with
  | nil => rfl
  | cons y r ih => unfold sink; split <;> simp [ih]

theorem length_lisort (l : List CoMsg) : (lisort l).length = l.length := by
  have : ∀ (l acc : List CoMsg), (l.foldl (fun acc x => sink x acc) acc).length = acc.length + l.length := by
    intro l
    induction l with
    | nil => simp
    | cons x r ih => intro acc; simp only [List.foldl_cons, ih, length_sink, List.length_cons]; omega
  simp [lisort, this]

/-- the runs, concatenated, are the list -/
theorem runs_flatten (l : List CoMsg) : (runs l).flatten = l := by
  induction l with
  | nil => rfl
  | cons m r ih =>
    unfold runs
    split
    · rename_i h t gs heq
      rw [heq] at ih
      split
      · simp only [List.flatten_cons] at ih ⊢; rw [← ih]; simp
      · simp only [List.flatten_cons] at ih ⊢; rw [← ih]; simp
    · rename_i hne
      -- runs r has no non-empty head: then r = []
      cases hr : runs r with
      | nil => rw [hr] at ih; simp at ih; subst ih; simp
      | cons g gs =>
        cases g with
        | nil =>
          -- impossible: runs never produces an empty run
          exfalso
          cases r with
          | nil => simp [runs] at hr
          | cons a b =>
            unfold runs at hr
            split at hr
            · split at hr <;> simp at hr
            · simp at hr
        | cons h t => exact absurd hr (hne h t gs)

/-- every run is a block of messages with one global line -/
theorem runs_same_line (l : List CoMsg) :
    ∀ g ∈ runs l, g ≠ [] ∧ ∀ a ∈ g, ∀ b ∈ g, sposGlobalLine a.pos = sposGlobalLine b.pos := by
  induction l with
  | nil => intro g hg; simp [runs] at hg
  | cons m r ih =>
    intro g hg
    unfold runs at hg
    split at hg
    · rename_i h t gs heq
      have ihh := ih (h :: t) (by rw [heq]; simp)
      split at hg
      · rename_i hc
        have hc' : sposGlobalLine m.pos = sposGlobalLine h.pos := by simpa using hc
        rcases List.mem_cons.mp hg with h1 | h1
        · subst h1
          refine ⟨by simp, ?_⟩
          have key : ∀ a ∈ m :: h :: t, sposGlobalLine a.pos = sposGlobalLine h.pos := by
            intro a ha
            rcases List.mem_cons.mp ha with h2 | h2
            · subst h2; exact hc'
            · exact ihh.2 a h2 h (by simp)
          intro a ha b hb; rw [key a ha, key b hb]
        · exact ih g (by rw [heq]; exact List.mem_cons_of_mem _ h1)
      · rcases List.mem_cons.mp hg with h1 | h1
        · subst h1; refine ⟨by simp, ?_⟩; intro a ha b hb; simp at ha hb; subst ha; subst hb; rfl
        · exact ih g (by rw [heq]; exact h1)
    · simp at hg; subst hg
      refine ⟨by simp, ?_⟩; intro a ha b hb; simp at ha hb; subst ha; subst hb; rfl

theorem shownFrom_subset (g : List CoMsg) (last : String) : ∀ e ∈ shownFrom last g, e ∈ g := by
  induction g generalizing last with
  | nil => intro e he; simp [shownFrom] at he
  | cons x r ih =>
    intro e he
    unfold shownFrom at he
    split at he
    · rcases List.mem_cons.mp he with h | h
      · subst h; simp
      · exact List.mem_cons_of_mem _ (ih _ e h)
    · exact List.mem_cons_of_mem _ (ih _ e he)

/-- a message of the run is printed, or a message with the same text is, unless its text equals
the initial `lastText` -/
theorem shownFrom_text (g : List CoMsg) (last : String) (m : CoMsg) (hm : m ∈ g) :
    (∃ e ∈ shownFrom last g, e.text = m.text) ∨ m.text = last := by
  induction g generalizing last with
  | nil => simp at hm
  | cons x r ih =>
    unfold shownFrom
    rcases List.mem_cons.mp hm with h | h
    · subst h
      by_cases c : last = m.text
      · right; exact c.symm
      · left; simp [c]
    · rcases ih x.text h with ⟨e, he, het⟩ | h2
      · left
        split
        · exact ⟨e, List.mem_cons_of_mem _ he, het⟩
        · exact ⟨e, he, het⟩
      · by_cases c : last = x.text
        · right; rw [h2, c]
        · left; simp only [bne_iff_ne, ne_eq, c, not_false_eq_true, ↓reduceIte]
          exact ⟨x, by simp, h2.symm⟩

/-- the first message of a run whose text differs from all earlier ones in the run is printed itself -/
theorem shownFrom_self (g : List CoMsg) (last : String) (m : CoMsg) (pre post : List CoMsg)
    (hg : g = pre ++ m :: post) (hl : m.text ≠ last) (hp : ∀ a ∈ pre, a.text ≠ m.text) :
    m ∈ shownFrom last g := by
  subst hg
  induction pre generalizing last with
  | nil =>
    simp only [List.nil_append, shownFrom]
    have : (last != m.text) = true := by simp [bne_iff_ne]; exact fun h => hl h.symm
    simp [this]
  | cons x r ih =>
    simp only [List.cons_append, shownFrom]
    have hx : m.text ≠ x.text := fun h => hp x (by simp) h.symm
    have := ih x.text hx (fun a ha => hp a (List.mem_cons_of_mem _ ha))
    split
    · exact List.mem_cons_of_mem _ this
    · exact this

end AldorVerif.ComsgReport
