import AldorVerif.Lemmas.BigInt
/-! Lemmas about `iintShift` / `bintShift` (core Lean only). -/
namespace AldorVerif.BigInt

theorem digit_lt_two_pow {d : Nat} (h : d < R) : d < 2 ^ 32 := by rw [R_eq] at h; omega

theorem lowPart_le (h x : Nat) : lowPart h x ≤ x := by
  unfold lowPart; split
  · omega
  · exact Nat.shiftRight_le _ _

theorem shl32_lt (x k : Nat) : shl32 x k < R := Nat.mod_lt _ R_pos

theorem mix_lt {h k lo hi : Nat} (hlo : lo < R) : mix h k lo hi < R := by
  unfold mix
  have h1 : lowPart h lo < 2 ^ 32 := by have := lowPart_le h lo; have := digit_lt_two_pow hlo; omega
  have h2 : shl32 hi k < 2 ^ 32 := digit_lt_two_pow (shl32_lt hi k)
  have := Nat.or_lt_two_pow h1 h2
  rw [R_eq]; omega

theorem mix_zero (h k : Nat) : mix h k 0 0 = 0 := by
  unfold mix lowPart shl32; split <;> simp

theorem mix_hi_zero (h k lo : Nat) : mix h k lo 0 = lowPart h lo := by
  unfold mix shl32; simp

/-- bit `t` of one result place: with `H ∈ [1,32]` the distance the low source place is moved
down and `32 - H` the distance the high one is moved up. -/
theorem mix_testBit {H lo hi : Nat} (hH1 : 1 ≤ H) (hH2 : H ≤ 32) (hlo : lo < 2 ^ 32) {t : Nat} (ht : t < 32) :
    (mix (if H = 32 then 0 else H) (32 - H) lo hi).testBit t =
      if t < 32 - H then lo.testBit (t + H) else hi.testBit (t - (32 - H)) := by
  unfold mix lowPart shl32
  rw [Nat.testBit_or]
  by_cases h32 : H = 32
  · subst h32
    simp only [if_true, Nat.zero_testBit, Bool.false_or, Nat.sub_self, Nat.shiftLeft_zero, Nat.not_lt_zero,
      if_false, Nat.sub_zero, R_eq]
    rw [show (4294967296 : Nat) = 2 ^ 32 from rfl, Nat.testBit_mod_two_pow]
    simp [ht]
  · simp only [if_neg h32]
    have hne : ¬ (H = 0) := by omega
    simp only [if_neg hne, Nat.testBit_shiftRight, R_eq]
    rw [show (4294967296 : Nat) = 2 ^ 32 from rfl, Nat.testBit_mod_two_pow, Nat.testBit_shiftLeft]
    by_cases hk : t < 32 - H
    · have : ¬ (t ≥ 32 - H) := by omega
      simp [hk, this, Nat.add_comm]
    · have hge : t ≥ 32 - H := by omega
      have hz : lo.testBit (H + t) = false := testBit_ge_of_lt hlo (by omega)
      simp [hk, hge, hz, ht]

/-- bit `b < 32` of place `i` (a C `long` index) is bit `32 i + b` of the value -/
theorem dg_testBit {ds : List Nat} (hd : Digits ds) (i : Int) {b : Nat} (hb : b < 32) :
    (dg ds i).testBit b = (decide (0 ≤ i) && (natVal ds).testBit (32 * i.toNat + b)) := by
  unfold dg
  by_cases hi : i < 0
  · have : ¬ (0 ≤ i) := by omega
    simp [hi, this]
  · have h0 : 0 ≤ i := by omega
    simp only [if_neg hi, h0, decide_true, Bool.true_and]
    rw [natVal_testBit hd]
    have h1 : (32 * i.toNat + b) / 32 = i.toNat := by omega
    have h2 : (32 * i.toNat + b) % 32 = b := by omega
    rw [h1, h2]
    by_cases hl : i.toNat < ds.length
    · simp [hl]
    · simp [hl, List.getD_eq_getElem?_getD]

theorem dg_lt {ds : List Nat} (hd : Digits ds) (i : Int) : dg ds i < R := by
  unfold dg
  split
  · exact R_pos
  · rw [List.getD_eq_getElem?_getD]
    cases h : ds[i.toNat]? with
    | none => exact R_pos
    | some x => exact hd x (List.mem_of_getElem? h)

theorem dg_out {ds : List Nat} {i : Int} (h : (ds.length : Int) ≤ i) : dg ds i = 0 := by
  unfold dg
  split
  · rfl
  · rw [List.getD_eq_getElem?_getD, List.getElem?_eq_none (by omega)]; rfl

theorem dg_neg {ds : List Nat} {i : Int} (h : i < 0) : dg ds i = 0 := by
  unfold dg; simp [h]

theorem dg_nat (ds : List Nat) (i : Nat) : dg ds (i : Int) = ds.getD i 0 := by
  unfold dg
  have : ¬ ((i : Int) < 0) := by omega
  simp [this]

/-- value of a vector given by a place function -/
theorem natVal_map_range_testBit {f : Nat → Nat} {rc : Nat} (hf : ∀ q, f q < R) (j : Nat) :
    (natVal ((List.range rc).map f)).testBit j = (decide (j / 32 < rc) && (f (j / 32)).testBit (j % 32)) := by
  have hd : Digits ((List.range rc).map f) := by
    intro d hdm
    obtain ⟨q, _, rfl⟩ := List.mem_map.mp hdm
    exact hf q
  rw [natVal_testBit hd]
  simp only [List.length_map, List.length_range]
  by_cases hq : j / 32 < rc
  · simp [hq, List.getD_eq_getElem?_getD]
  · simp [hq]

/-- the place function of `iintShift`: every result place is mixed from two adjacent source
places `q - q0` and `q + 1 - q0` -/
def shiftPlace (ds : List Nat) (h k : Nat) (q0 : Int) (q : Nat) : Nat :=
  mix h k (dg ds ((q : Int) - q0)) (dg ds ((q : Int) + 1 - q0))

theorem quoRoundUp_spec (x : Nat) : x ≤ 32 * quoRoundUp x 32 ∧ 32 * quoRoundUp x 32 < x + 32 := by
  unfold quoRoundUp
  split <;> omega

theorem lengthBig_range {ds : List Nat} (hd : Digits ds) (hne : ds ≠ []) :
    32 * (ds.length - 1) + 1 ≤ lengthBig ds ∧ lengthBig ds ≤ 32 * ds.length := by
  unfold lengthBig
  have := uintLength_digit (getLastD_lt hd)
  have := len_pos hne
  simp only [LG]; omega

/-- what the parameter computation of `iintShift` establishes -/
structure ShiftOK (p : ShiftPar) (bbitc bc n : Int) (H : Nat) : Prop where
  hH1 : 1 ≤ H
  hH2 : H ≤ 32
  hh : p.h = if H = 32 then 0 else H
  hk : p.k = 32 - H
  hn : n = 32 * p.q0 - H
  hrc1 : bbitc + n ≤ 32 * p.rc
  hrc2 : 32 * (p.rc : Int) < bbitc + n + 32
  hq0 : p.q0 = (p.rc : Int) - bc + (if p.up then 1 else 0)

theorem shiftPar_spec {bbitc bc n : Int} (h1 : 32 * (bc - 1) + 1 ≤ bbitc) (h2 : bbitc ≤ 32 * bc)
    (hpos : 0 < bbitc + n) : ∃ H, ShiftOK (shiftPar bbitc bc n) bbitc bc n H := by
  have hqr := quoRoundUp_spec (bbitc + n).toNat
  unfold shiftPar
  simp only [LG]
  generalize quoRoundUp (bbitc + n).toNat 32 = rc at *
  have hrt : ((bbitc + n).toNat : Int) = bbitc + n := by omega
  by_cases hu : (rc : Int) * ((32 : Nat) : Int) - (bbitc + n) ≤ bc * ((32 : Nat) : Int) - bbitc
  · simp only [hu, decide_true, if_true]
    refine ⟨(((rc : Int) - bc + 1) * ((32 : Nat) : Int) - n).toNat, ?_⟩
    have hX : ((rc : Int) - bc + 1) * ((32 : Nat) : Int) - n = 32 * rc - 32 * bc + 32 - n := by omega
    generalize ((rc : Int) - bc + 1) * ((32 : Nat) : Int) - n = X at *
    constructor
    all_goals (try simp only [])
    all_goals (try omega)
    case hh => split <;> split <;> omega
    case hq0 => simp
  · simp only [hu, decide_false, Bool.false_eq_true, if_false]
    refine ⟨(((rc : Int) - bc + 0) * ((32 : Nat) : Int) - n).toNat, ?_⟩
    have hX : ((rc : Int) - bc + 0) * ((32 : Nat) : Int) - n = 32 * rc - 32 * bc - n := by omega
    generalize ((rc : Int) - bc + 0) * ((32 : Nat) : Int) - n = X at *
    constructor
    all_goals (try simp only [])
    all_goals (try omega)
    case hh => split <;> split <;> omega
    case hq0 => simp

/-- `iintShiftWith` computes, place by place, `shiftPlace`. -/
theorem iintShiftWith_places {ds : List Nat} {n : Int} (hn0 : n ≠ 0) {p : ShiftPar}
    (hrc : 1 ≤ p.rc) (hq0 : p.q0 = (p.rc : Int) - ds.length + (if p.up then 1 else 0))
    (hq1 : n > 0 → 1 ≤ p.q0) :
    iintShiftWith p ds n = (List.range p.rc).map (shiftPlace ds p.h p.k p.q0) := by
  unfold iintShiftWith
  by_cases hneg : n < 0
  · simp only [if_pos hneg]
    have hrcs : p.rc = (p.rc - 1) + 1 := by omega
    conv => rhs; rw [hrcs, List.range_succ, List.map_append]
    congr 1
    simp only [List.map_cons, List.map_nil, shiftPlace]
    have e2 : ((p.rc - 1 : Nat) : Int) = (p.rc : Int) - 1 := by omega
    rw [e2]
    have e3 : (p.rc : Int) - 1 + 1 - p.q0 = (p.rc : Int) - p.q0 := by omega
    rw [e3]
    cases hu : p.up
    · simp only [hu, Bool.false_eq_true, if_false, Int.add_zero] at hq0
      have : dg ds ((p.rc : Int) - p.q0) = 0 := dg_out (by omega)
      simp [this, mix_hi_zero]
    · simp
  · have hposn : n > 0 := by omega
    have hq1 := hq1 hposn
    simp only [if_neg hneg, if_pos hposn]
    apply List.ext_getElem?
    intro q
    cases hu : p.up
    · simp only [hu, Bool.false_eq_true, if_false, Int.add_zero] at hq0
      simp only [Bool.false_eq_true, if_false]
      rw [List.getElem?_append, List.getElem?_append, List.getElem?_map, List.getElem?_map]
      simp only [List.length_replicate, List.length_append, List.length_map, List.length_range]
      by_cases hq1 : q < (p.q0 - 1).toNat
      · have hqrc : q < p.rc := by omega
        have hq1' : q < (p.q0 - 1).toNat + ds.length := by omega
        simp only [if_pos hq1', if_pos hq1, List.getElem?_replicate, List.getElem?_range hqrc, Option.map_some, shiftPlace]
        rw [dg_neg (by omega), dg_neg (by omega), mix_zero]
      · by_cases hq2 : q < (p.q0 - 1).toNat + ds.length
        · have hqrc : q < p.rc := by omega
          have hi : q - (p.q0 - 1).toNat < ds.length := by omega
          simp only [if_pos hq2, if_neg hq1, List.getElem?_range hi, List.getElem?_range hqrc, Option.map_some, shiftPlace]
          have e1 : ((q - (p.q0 - 1).toNat : Nat) : Int) - 1 = (q : Int) - p.q0 := by omega
          have e2 : ((q - (p.q0 - 1).toNat : Nat) : Int) = (q : Int) + 1 - p.q0 := by omega
          rw [e1, e2]
        · simp only [if_neg hq2]
          by_cases hq3 : q < p.rc
          · have hz : q - ((p.q0 - 1).toNat + ds.length) = 0 := by omega
            simp only [hz, List.getElem?_cons_zero, List.getElem?_range hq3, Option.map_some, shiftPlace]
            have e1 : (q : Int) - p.q0 = (ds.length : Int) - 1 := by omega
            have e2 : dg ds ((q : Int) + 1 - p.q0) = 0 := dg_out (by omega)
            rw [e1, e2, mix_hi_zero]
          · rw [List.getElem?_eq_none (by simp; omega), List.getElem?_eq_none (by simp; omega)]
            rfl
    · simp only [hu, if_true] at hq0
      simp only [if_true, List.append_nil]
      rw [List.getElem?_append, List.getElem?_map, List.getElem?_map]
      simp only [List.length_replicate]
      by_cases hq1 : q < (p.q0 - 1).toNat
      · have hqrc : q < p.rc := by omega
        simp only [if_pos hq1, List.getElem?_replicate, List.getElem?_range hqrc, Option.map_some, shiftPlace]
        rw [dg_neg (by omega), dg_neg (by omega), mix_zero]
      · simp only [if_neg hq1]
        by_cases hq2 : q < p.rc
        · have hi : q - (p.q0 - 1).toNat < ds.length := by omega
          simp only [List.getElem?_range hi, List.getElem?_range hq2, Option.map_some, shiftPlace]
          have e1 : ((q - (p.q0 - 1).toNat : Nat) : Int) - 1 = (q : Int) - p.q0 := by omega
          have e2 : ((q - (p.q0 - 1).toNat : Nat) : Int) = (q : Int) + 1 - p.q0 := by omega
          rw [e1, e2]
        · rw [List.getElem?_eq_none (by simp; omega), List.getElem?_eq_none (by simp; omega)]
          rfl

theorem shiftPlace_lt {ds : List Nat} (hd : Digits ds) (h k : Nat) (q0 : Int) (q : Nat) :
    shiftPlace ds h k q0 q < R := mix_lt (dg_lt hd _)

/-- bit `j` of the shifted vector is bit `j - n` of the source -/
theorem shifted_testBit {ds : List Nat} (hd : Digits ds) {H : Nat} (hH1 : 1 ≤ H) (hH2 : H ≤ 32) {q0 n : Int}
    (hn : n = 32 * q0 - H) (rc j : Nat) :
    (natVal ((List.range rc).map (shiftPlace ds (if H = 32 then 0 else H) (32 - H) q0))).testBit j =
      (decide (j < 32 * rc) && (decide (0 ≤ (j : Int) - n) && (natVal ds).testBit ((j : Int) - n).toNat)) := by
  rw [natVal_map_range_testBit (fun q => shiftPlace_lt hd _ _ _ q)]
  have hjq : decide (j / 32 < rc) = decide (j < 32 * rc) := by
    apply decide_eq_decide.mpr; constructor <;> intro h <;> omega
  rw [hjq]
  congr 1
  unfold shiftPlace
  have ht : j % 32 < 32 := Nat.mod_lt _ (by omega)
  rw [mix_testBit hH1 hH2 (digit_lt_two_pow (dg_lt hd _)) ht]
  by_cases hk : j % 32 < 32 - H
  · rw [if_pos hk, dg_testBit hd _ (by omega : j % 32 + H < 32)]
    have e1 : decide (0 ≤ ((j / 32 : Nat) : Int) - q0) = decide (0 ≤ (j : Int) - n) := by
      apply decide_eq_decide.mpr; constructor <;> intro h <;> omega
    rw [e1]
    by_cases hs : 0 ≤ (j : Int) - n
    · have e2 : 32 * (((j / 32 : Nat) : Int) - q0).toNat + (j % 32 + H) = ((j : Int) - n).toNat := by omega
      rw [e2]
    · rw [decide_eq_false hs]; simp
  · rw [if_neg hk, dg_testBit hd _ (by omega : j % 32 - (32 - H) < 32)]
    have e1 : decide (0 ≤ ((j / 32 : Nat) : Int) + 1 - q0) = decide (0 ≤ (j : Int) - n) := by
      apply decide_eq_decide.mpr; constructor <;> intro h <;> omega
    rw [e1]
    by_cases hs : 0 ≤ (j : Int) - n
    · have e2 : 32 * (((j / 32 : Nat) : Int) + 1 - q0).toNat + (j % 32 - (32 - H)) = ((j : Int) - n).toNat := by omega
      rw [e2]
    · rw [decide_eq_false hs]; simp

theorem norm_of_ge {ds : List Nat} (hne : ds ≠ []) (hd : Digits ds) (h : R ^ (ds.length - 1) ≤ natVal ds) : Norm ds := by
  intro hl
  have h0 : ds.getLastD 0 = 0 := by rw [List.getLastD_eq_getLast?, hl]; rfl
  have hv := natVal_split_last hne
  have hlow := natVal_lt (dropLast_digits hd)
  rw [(split_last hne).2] at hlow
  rw [h0] at hv
  omega

/-- magnitude shift -/
def shiftNat (V : Nat) (n : Int) : Nat := if 0 ≤ n then V <<< n.toNat else V >>> (-n).toNat

theorem bitLen_le_of_lt {u k : Nat} (h : u < 2 ^ k) : bitLen u ≤ k := (lt_two_pow_iff_bitLen_le u k).mp h

theorem shiftNat_ge {V : Nat} (hV : V ≠ 0) {n : Int} (hpos : 0 < (bitLen V : Int) + n) :
    2 ^ ((bitLen V : Int) + n - 1).toNat ≤ shiftNat V n := by
  obtain ⟨b1, _, b3⟩ := bitLen_bounds hV
  unfold shiftNat
  by_cases hn : 0 ≤ n
  · rw [if_pos hn, Nat.shiftLeft_eq]
    have e : ((bitLen V : Int) + n - 1).toNat = (bitLen V - 1) + n.toNat := by omega
    rw [e, Nat.pow_add]
    exact Nat.mul_le_mul_right _ b1
  · rw [if_neg hn, Nat.shiftRight_eq_div_pow]
    have e : bitLen V - 1 = ((bitLen V : Int) + n - 1).toNat + (-n).toNat := by omega
    rw [e, Nat.pow_add] at b1
    exact (Nat.le_div_iff_mul_le (Nat.pow_pos (by omega))).mpr b1

theorem iintShift_spec {ds : List Nat} (hd : Digits ds) (hne : ds ≠ []) (hnm : Norm ds) {n : Int}
    (hpos : 0 < (lengthBig ds : Int) + n) :
    natVal (iintShift ds n) = shiftNat (natVal ds) n ∧ Digits (iintShift ds n) ∧ Norm (iintShift ds n) ∧
      iintShift ds n ≠ [] := by
  have hlb := lengthBig_range hd hne
  have hlen := len_pos hne
  have hbl := lengthBig_spec hd hne hnm
  have hV0 : natVal ds ≠ 0 := by have := natVal_pos_of_norm hnm hne; omega
  obtain ⟨H, ok⟩ := shiftPar_spec (bbitc := lengthBig ds) (bc := ds.length) (n := n) (by omega) (by omega) hpos
  have hrc : 1 ≤ (shiftPar (lengthBig ds) (ds.length) n).rc := by have := ok.hrc1; omega
  by_cases hn0 : n = 0
  · subst hn0
    have hrceq : (shiftPar (lengthBig ds) (ds.length) 0).rc = ds.length := by
      have := ok.hrc1; have := ok.hrc2; omega
    have e : iintShift ds 0 = ds := by
      unfold iintShift iintShiftWith
      simp only [Int.lt_irrefl, if_false, gt_iff_lt]
      rw [hrceq, List.take_length]
    rw [e]
    exact ⟨by simp [shiftNat], hd, hnm, hne⟩
  · have hq1 : n > 0 → 1 ≤ (shiftPar (lengthBig ds) (ds.length) n).q0 := by
      intro hp; have := ok.hn; have := ok.hH1; omega
    have hpl := iintShiftWith_places (ds := ds) hn0 hrc ok.hq0 hq1
    have e : iintShift ds n = (List.range (shiftPar (lengthBig ds) (ds.length) n).rc).map
        (shiftPlace ds (if H = 32 then 0 else H) (32 - H) (shiftPar (lengthBig ds) (ds.length) n).q0) := by
      unfold iintShift; rw [hpl, ok.hh, ok.hk]
    have okn := ok.hn
    have okrc1 := ok.hrc1
    have okrc2 := ok.hrc2
    generalize (shiftPar (lengthBig ds) (ds.length) n).rc = rc at *
    generalize (shiftPar (lengthBig ds) (ds.length) n).q0 = q0 at *
    have hdig : Digits (iintShift ds n) := by
      rw [e]; intro d hdm
      obtain ⟨q, _, rfl⟩ := List.mem_map.mp hdm
      exact shiftPlace_lt hd _ _ _ q
    have hlenr : (iintShift ds n).length = rc := by rw [e]; simp
    have hner : iintShift ds n ≠ [] := ne_nil_of_length_pos (by omega)
    have hVlt : natVal ds < 2 ^ lengthBig ds := by rw [hbl]; exact (bitLen_bounds hV0).2.1
    have hval : natVal (iintShift ds n) = shiftNat (natVal ds) n := by
      apply Nat.eq_of_testBit_eq
      intro j
      rw [e, shifted_testBit hd ok.hH1 ok.hH2 okn]
      unfold shiftNat
      by_cases hn : 0 ≤ n
      · rw [if_pos hn, Nat.testBit_shiftLeft]
        have e1 : decide (0 ≤ (j : Int) - n) = decide (j ≥ n.toNat) := by
          apply decide_eq_decide.mpr; constructor <;> intro h <;> omega
        rw [e1]
        by_cases hj : j ≥ n.toNat
        · have e2 : ((j : Int) - n).toNat = j - n.toNat := by omega
          rw [e2]
          by_cases hjr : j < 32 * rc
          · simp [hjr]
          · have : (natVal ds).testBit (j - n.toNat) = false :=
              testBit_ge_of_lt hVlt (by omega)
            simp [hjr, this]
        · simp [hj]
      · rw [if_neg hn, Nat.testBit_shiftRight]
        have hs : 0 ≤ (j : Int) - n := by omega
        have e2 : ((j : Int) - n).toNat = (-n).toNat + j := by omega
        rw [e2]
        rw [decide_eq_true hs]
        by_cases hjr : j < 32 * rc
        · simp [hjr]
        · have : (natVal ds).testBit ((-n).toNat + j) = false :=
            testBit_ge_of_lt hVlt (by omega)
          simp [hjr, this]
    refine ⟨hval, hdig, ?_, hner⟩
    apply norm_of_ge hner hdig
    rw [hval, hlenr, R_pow]
    have hge := shiftNat_ge hV0 (n := n) (by rw [← hbl]; exact hpos)
    have hle : 32 * (rc - 1) ≤ ((bitLen (natVal ds) : Int) + n - 1).toNat := by
      rw [← hbl]; omega
    exact Nat.le_trans (Nat.pow_le_pow_right (by omega) hle) hge

theorem shiftNat_lt {V : Nat} {n : Int} {k : Nat} (hk : (bitLen V : Int) + n ≤ k) : shiftNat V n < 2 ^ k := by
  have hV : V < 2 ^ bitLen V := (lt_two_pow_iff_bitLen_le V _).mpr (Nat.le_refl _)
  unfold shiftNat
  by_cases hn : 0 ≤ n
  · rw [if_pos hn, Nat.shiftLeft_eq]
    have h1 : V * 2 ^ n.toNat < 2 ^ bitLen V * 2 ^ n.toNat := Nat.mul_lt_mul_of_pos_right hV (Nat.pow_pos (by omega))
    rw [← Nat.pow_add] at h1
    have h2 : (2:Nat) ^ (bitLen V + n.toNat) ≤ 2 ^ k := Nat.pow_le_pow_right (by omega) (by omega)
    omega
  · rw [if_neg hn, Nat.shiftRight_eq_div_pow]
    apply Nat.div_lt_of_lt_mul
    rw [← Nat.pow_add]
    have h2 : (2:Nat) ^ bitLen V ≤ 2 ^ ((-n).toNat + k) := Nat.pow_le_pow_right (by omega) (by omega)
    omega

theorem shiftNat_zero_of_out {V : Nat} {n : Int} (h : (bitLen V : Int) + n ≤ 0) : shiftNat V n = 0 := by
  have := shiftNat_lt (V := V) (n := n) (k := 0) (by omega)
  omega

theorem bintShift_spec {a : BInt} (h : WF a) (n : Int) :
    (bintShift a n).val = (if a.val < 0 then -(shiftNat a.val.natAbs n : Int) else (shiftNat a.val.natAbs n : Int)) ∧
      WF (bintShift a n) := by
  have hM := MAXI_eq
  have hm := MINI_eq
  have hW := W_eq
  unfold bintShift
  simp only
  by_cases h0 : a = .imm 0
  · subst h0
    simp only [if_true, val_imm]
    refine ⟨?_, WF_imm_of (by omega) (by omega)⟩
    have : shiftNat 0 n = 0 := by
      unfold shiftNat; split <;> simp
    simp [this]
  · rw [if_neg h0]
    have hlen := bintLength_spec h
    -- the operand is not zero
    have hV0 : a.val.natAbs ≠ 0 := by
      cases a with
      | imm v => intro hz; apply h0; simp at hz; rw [hz]
      | big neg ds =>
        obtain ⟨_, _, hv⟩ := WF_big.mp h
        cases neg <;> simp <;> omega
    have hL : bintLength a = bitLen a.val.natAbs := by
      rw [hlen]; have := (bitLen_bounds hV0).2.2; omega
    rw [hL]
    generalize hVdef : a.val.natAbs = V at *
    by_cases hout : (bitLen V : Int) + n ≤ 0
    · rw [if_pos hout, intToBInt_eq (by omega) (by omega)]
      rw [shiftNat_zero_of_out hout]
      exact ⟨by simp, WF_imm_of (by omega) (by omega)⟩
    · rw [if_neg hout]
      have hbig : ∀ (hcase : True), (let bs := xintStore a
          let r := BInt.big (bintIsNeg bs) (iintShift (digitsOf bs) n)
          if (bitLen V : Int) + n ≤ LGIMM then xintImmedIfCan r else r).val =
            (if a.val < 0 then -(shiftNat V n : Int) else (shiftNat V n : Int)) ∧
          WF (let bs := xintStore a
              let r := BInt.big (bintIsNeg bs) (iintShift (digitsOf bs) n)
              if (bitLen V : Int) + n ≤ LGIMM then xintImmedIfCan r else r) := by
        intro _
        obtain ⟨neg, ds, es, st, vs⟩ := xintStore_spec h
        have hnat : natVal ds = V := by
          rw [← hVdef, vs]; cases neg <;> simp
        have hnorm : Norm ds := by
          rcases st.2 with hz | ⟨_, hn⟩
          · subst hz; simp at hnat; omega
          · exact hn
        have hsign : ∀ (X Y : Int), (if a.val < 0 then X else Y) = (if neg = true then X else Y) := by
          intro X Y
          have hp : 0 < natVal ds := by omega
          cases neg
          · have : ¬ a.val < 0 := by rw [vs]; simp
            rw [if_neg this]; simp
          · have : a.val < 0 := by rw [vs]; simp; omega
            rw [if_pos this]; simp
        have hlb := lengthBig_spec st.1 st.ne_nil hnorm
        obtain ⟨sv, sd, sn, sne⟩ := iintShift_spec st.1 st.ne_nil hnorm (n := n) (by rw [hlb, hnat]; omega)
        simp only [es, bintIsNeg, digitsOf, LGIMM]
        rw [hnat] at sv
        by_cases hsm : (bitLen V : Int) + n ≤ 62
        · rw [if_pos (by simpa using hsm)]
          obtain ⟨e, w⟩ := immedIfCan_spec neg sd (Or.inr sn)
          refine ⟨?_, w⟩
          rw [e, val_big, sv, hsign]
        · rw [if_neg (by simpa using hsm)]
          have hge := shiftNat_ge (V := V) (by omega) (n := n) (by omega)
          have h62 : (2:Nat) ^ 62 ≤ 2 ^ ((bitLen V : Int) + n - 1).toNat := Nat.pow_le_pow_right (by omega) (by omega)
          refine ⟨by rw [val_big, sv, hsign], WF_big.mpr ⟨sd, sn, ?_⟩⟩
          rw [sv]; omega
      cases a with
      | big neg ds => exact hbig trivial
      | imm i =>
        obtain ⟨i1, i2⟩ := WF_imm.mp h
        simp only [val_imm] at hVdef hV0
        by_cases hsm : (bitLen V : Int) + n ≤ LGIMM
        · simp only [if_pos hsm]
          have hlt := shiftNat_lt (V := V) (n := n) (k := 62) (by simpa [LGIMM] using hsm)
          have habs : uw (if i > 0 then i else wrapL (-i)) = V := by
            split
            · rw [uw_eq (by omega) (by omega)]; omega
            · rw [wrapL_eq (by omega) (by omega), uw_eq (by omega) (by omega)]; omega
          rw [habs]
          have hsh : (if n > 0 then (V <<< n.toNat) % W else V >>> (-n).toNat) = shiftNat V n := by
            unfold shiftNat at hlt ⊢
            by_cases hn : n > 0
            · have : 0 ≤ n := by omega
              rw [if_pos hn, if_pos this]
              rw [if_pos this] at hlt
              apply Nat.mod_eq_of_lt; rw [hW]; omega
            · rw [if_neg hn]
              by_cases hn0 : 0 ≤ n
              · have : n = 0 := by omega
                subst this; simp
              · rw [if_neg hn0]
          rw [hsh]
          generalize shiftNat V n = S at *
          have hS : (S : Int) < 4611686018427387904 := by
            have : (2:Nat) ^ 62 = 4611686018427387904 := by decide
            omega
          rw [wrapL_eq (x := (S : Int)) (by omega) (by omega)]
          by_cases hi : i > 0
          · have hni : ¬ i < 0 := by omega
            rw [if_pos hi, intToBInt_eq (by omega) (by omega)]
            refine ⟨?_, WF_imm_of (by omega) (by omega)⟩
            rw [if_neg (show ¬ (BInt.imm i).val < 0 from hni)]; rfl
          · have hni : i < 0 := by omega
            rw [if_neg hi, wrapL_eq (by omega) (by omega), intToBInt_eq (by omega) (by omega)]
            refine ⟨?_, WF_imm_of (by omega) (by omega)⟩
            rw [if_pos (show (BInt.imm i).val < 0 from hni)]; rfl
        · simp only [if_neg hsm]
          have := hbig trivial
          simp only [if_neg hsm] at this
          exact this

end AldorVerif.BigInt
