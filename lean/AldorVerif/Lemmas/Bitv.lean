import AldorVerif.Model.Bitv

/-! Lemmas about the model of `bitv.c`: every operation seen through `bitvTest`. -/
namespace AldorVerif.Bitv

/-- the bit at position `i` of a word vector -/
def bitAt (r : Bitv) (i : Nat) : Bool := (word r (i / 64)).getLsbD (i % 64)

/-- a vector of the class: exactly `nwords` words -/
def WF (c : BClass) (a : Bitv) : Prop := a.length = c.nwords

/-- the class has room for its bits (true of every `bitvClassCreate`) -/
def BClass.ok (c : BClass) : Prop := c.nbits ≤ 64 * c.nwords ∧ 64 * c.nwords < c.nbits + 64

instance (c : BClass) (a : Bitv) : Decidable (WF c a) := by unfold WF; infer_instance
instance (c : BClass) : Decidable c.ok := by unfold BClass.ok; infer_instance

theorem classCreate_ok (n : Nat) : (classCreate n).ok := by
  unfold classCreate quoRoundUp BpW BClass.ok
  simp only
  split <;> constructor <;> omega

theorem classCreate_nbits (n : Nat) : (classCreate n).nbits = n := rfl

/-! ### words -/

theorem and_bit_ne_zero (w : BitVec 64) (k : Nat) (hk : k < 64) :
    ((w &&& (1#64 <<< k)) != 0#64) = w.getLsbD k := by
  cases h : w.getLsbD k
  · have : w &&& (1#64 <<< k) = 0#64 := by
      apply BitVec.eq_of_getLsbD_eq
      intro i hi
      by_cases e : i = k
      · subst e; simp [h]
      · simp; intro _ _ _; omega
    simp [this]
  · have : (w &&& (1#64 <<< k)).getLsbD k = true := by
      simp [h, hk]
    have hne : w &&& (1#64 <<< k) ≠ 0#64 := by
      intro e; rw [e] at this; simp at this
    simp [hne]

theorem test_eq_bitAt (c : BClass) (r : Bitv) (i : Nat) : test c r i = bitAt r i := by
  unfold test bitAt bit BpW
  exact and_bit_ne_zero _ _ (Nat.mod_lt _ (by decide))

theorem word_zipWith (f : Word → Word → Word) (a b : Bitv) (j : Nat) (ha : j < a.length) (hb : j < b.length) :
    word (List.zipWith f a b) j = f (word a j) (word b j) := by
  unfold word
  simp [List.getD_eq_getElem?_getD, List.getElem?_zipWith, List.getElem?_eq_getElem ha, List.getElem?_eq_getElem hb]

theorem word_map (f : Word → Word) (a : Bitv) (j : Nat) (ha : j < a.length) :
    word (a.map f) j = f (word a j) := by
  unfold word
  simp [List.getD_eq_getElem?_getD, List.getElem?_eq_getElem ha]

theorem word_replicate (n : Nat) (w : Word) (j : Nat) (h : j < n) : word (List.replicate n w) j = w := by
  unfold word
  simp [List.getD_eq_getElem?_getD, h]

theorem word_set (r : Bitv) (j j' : Nat) (v : Word) (h : j < r.length) :
    word (r.set j v) j' = if j = j' then v else word r j' := by
  unfold word
  simp only [List.getD_eq_getElem?_getD, List.getElem?_set]
  by_cases e : j = j'
  · subst e; simp [h]
  · simp [e]

/-- position `i < nbits` lies inside the vector -/
theorem idx_lt {c : BClass} (hc : c.ok) {a : Bitv} (ha : WF c a) {i : Nat} (hi : i < c.nbits) :
    i / 64 < a.length := by
  rw [ha]; have := hc.1; omega

/-! ### set algebra -/

theorem bitAt_and (a b : Bitv) (i : Nat) (ha : i / 64 < a.length) (hb : i / 64 < b.length) (c : BClass) :
    bitAt (and c a b) i = (bitAt a i && bitAt b i) := by
  unfold bitAt AldorVerif.Bitv.and
  rw [word_zipWith _ _ _ _ ha hb]; simp

theorem bitAt_or (a b : Bitv) (i : Nat) (ha : i / 64 < a.length) (hb : i / 64 < b.length) (c : BClass) :
    bitAt (or c a b) i = (bitAt a i || bitAt b i) := by
  unfold bitAt AldorVerif.Bitv.or
  rw [word_zipWith _ _ _ _ ha hb]; simp

theorem bitAt_minus (a b : Bitv) (i : Nat) (ha : i / 64 < a.length) (hb : i / 64 < b.length) (c : BClass) :
    bitAt (minus c a b) i = (bitAt a i && !bitAt b i) := by
  unfold bitAt minus
  rw [word_zipWith _ _ _ _ ha hb]
  have : i % 64 < 64 := Nat.mod_lt _ (by decide)
  simp [this]

theorem bitAt_not (a : Bitv) (i : Nat) (ha : i / 64 < a.length) (c : BClass) :
    bitAt (AldorVerif.Bitv.not c a) i = !bitAt a i := by
  unfold bitAt AldorVerif.Bitv.not
  rw [word_map _ _ _ ha]
  have : i % 64 < 64 := Nat.mod_lt _ (by decide)
  simp [this]

theorem bitAt_setAll (c : BClass) (i : Nat) (h : i / 64 < c.nwords) : bitAt (setAll c) i = true := by
  unfold bitAt setAll
  rw [word_replicate _ _ _ h]
  have : i % 64 < 64 := Nat.mod_lt _ (by decide)
  rw [show (~~~(0 : Word)) = BitVec.allOnes 64 from by decide, BitVec.getLsbD_allOnes]
  simpa using this

theorem bitAt_clearAll (c : BClass) (i : Nat) : bitAt (clearAll c) i = false := by
  unfold bitAt clearAll word
  rw [List.getD_eq_getElem?_getD]
  cases h : (List.replicate c.nwords (0 : Word))[i / 64]? with
  | none => simp
  | some v =>
    have := List.mem_of_getElem? h
    simp at this
    simp [this.2]

theorem bitAt_set (c : BClass) (r : Bitv) (ix i : Nat) (h : ix / 64 < r.length) :
    bitAt (set c r ix) i = (decide (i = ix) || bitAt r i) := by
  unfold bitAt set bit BpW
  rw [word_set _ _ _ _ h]
  have h1 : i % 64 < 64 := Nat.mod_lt _ (by decide)
  have h2 : ix % 64 < 64 := Nat.mod_lt _ (by decide)
  by_cases e : ix / 64 = i / 64
  · simp only [e, if_true, BitVec.getLsbD_or, BitVec.getLsbD_shiftLeft]
    by_cases e2 : i = ix
    · subst e2; simp [h1]
    · have : ¬ (i % 64 - ix % 64 = 0 ∧ ix % 64 ≤ i % 64) := by omega
      have h3 : decide (i = ix) = false := by simp [e2]
      rw [h3]
      by_cases h4 : i % 64 < ix % 64
      · simp [h4]
      · have : i % 64 - ix % 64 ≠ 0 := by omega
        simp [this]
  · have : i ≠ ix := by intro e2; subst e2; exact e rfl
    simp [e, this]

theorem bitAt_clear (c : BClass) (r : Bitv) (ix i : Nat) (h : ix / 64 < r.length) :
    bitAt (clear c r ix) i = (!decide (i = ix) && bitAt r i) := by
  unfold bitAt clear bit BpW
  rw [word_set _ _ _ _ h]
  have h1 : i % 64 < 64 := Nat.mod_lt _ (by decide)
  have h2 : ix % 64 < 64 := Nat.mod_lt _ (by decide)
  by_cases e : ix / 64 = i / 64
  · simp only [e, if_true, BitVec.getLsbD_and, BitVec.getLsbD_not, BitVec.getLsbD_shiftLeft]
    by_cases e2 : i = ix
    · subst e2; simp [h1]
    · have h3 : decide (i = ix) = false := by simp [e2]
      rw [h3]
      by_cases h4 : i % 64 < ix % 64
      · simp [h4, h1]
      · have : i % 64 - ix % 64 ≠ 0 := by omega
        simp [this, h1]
  · have : i ≠ ix := by intro e2; subst e2; exact e rfl
    simp [e, this]

theorem length_set (c : BClass) (r : Bitv) (ix : Nat) : (set c r ix).length = r.length := by
  simp [set]

theorem length_clear (c : BClass) (r : Bitv) (ix : Nat) : (clear c r ix).length = r.length := by
  simp [clear]

/-! ### bitvEqual -/

theorem eqLoop_eq (n : Nat) (a b : Bitv) (ha : n ≤ a.length) (hb : n ≤ b.length) :
    eqLoop n a b = if a.take n = b.take n then some (a.drop n, b.drop n) else none := by
  induction n generalizing a b with
  | zero => simp [eqLoop]
  | succ n ih =>
    cases a with
    | nil => simp at ha
    | cons x a =>
      cases b with
      | nil => simp at hb
      | cons y b =>
        simp only [eqLoop, List.take_succ_cons, List.drop_succ_cons, List.cons.injEq]
        by_cases e : x = y
        · simp only [e, ne_eq, not_true_eq_false, if_false, true_and]
          exact ih a b (by simpa using ha) (by simpa using hb)
        · simp [e]

theorem take_eq_iff (n : Nat) (a b : Bitv) (ha : n ≤ a.length) (hb : n ≤ b.length) :
    a.take n = b.take n ↔ ∀ j, j < n → word a j = word b j := by
  induction n generalizing a b with
  | zero => simp
  | succ n ih =>
    cases a with
    | nil => simp at ha
    | cons x a =>
      cases b with
      | nil => simp at hb
      | cons y b =>
        simp only [List.take_succ_cons, List.cons.injEq]
        rw [ih a b (by simpa using ha) (by simpa using hb)]
        constructor
        · rintro ⟨rfl, h⟩ j hj
          cases j with
          | zero => simp [word]
          | succ j => have := h j (by omega); simpa [word] using this
        · intro h
          refine ⟨by simpa [word] using h 0 (by omega), fun j hj => ?_⟩
          have := h (j + 1) (by omega); simpa [word] using this

theorem word_drop (a : Bitv) (n : Nat) : word (a.drop n) 0 = word a n := by
  simp [word, List.getD_eq_getElem?_getD]

theorem mask_eq_iff (x y : Word) (m : Nat) (hm : m < 64) :
    (x &&& ~~~((~~~(0 : Word)) <<< m)) = (y &&& ~~~((~~~(0 : Word)) <<< m)) ↔
    ∀ k, k < m → x.getLsbD k = y.getLsbD k := by
  rw [show (~~~(0 : Word)) = BitVec.allOnes 64 from by decide]
  constructor
  · intro h k hk
    have := congrArg (fun w => w.getLsbD k) h
    have hk64 : k < 64 := by omega
    simpa [hk, hk64] using this
  · intro h
    apply BitVec.eq_of_getLsbD_eq
    intro k hk
    simp only [BitVec.getLsbD_and, BitVec.getLsbD_not, BitVec.getLsbD_shiftLeft, BitVec.getLsbD_allOnes]
    by_cases e : k < m
    · rw [h k e]
    · have : k - m < 64 := by omega
      simp [e, hk, this]

theorem word_eq_iff (x y : Word) : x = y ↔ ∀ k, k < 64 → x.getLsbD k = y.getLsbD k := by
  constructor
  · rintro rfl k _; rfl
  · intro h; exact BitVec.eq_of_getLsbD_eq (fun i hi => h i hi)

theorem bits_agree_iff (c : BClass) (hc : c.ok) (hw : 0 < c.nwords) (a b : Bitv) :
    (∀ i, i < c.nbits → bitAt a i = bitAt b i) ↔
    (∀ j, j < c.nwords - 1 → word a j = word b j) ∧
    (∀ k, k < c.nbits - 64 * (c.nwords - 1) → (word a (c.nwords - 1)).getLsbD k = (word b (c.nwords - 1)).getLsbD k) := by
  obtain ⟨h1, h2⟩ := hc
  constructor
  · intro h
    constructor
    · intro j hj
      rw [word_eq_iff]
      intro k hk
      have := h (64 * j + k) (by omega)
      unfold bitAt at this
      have e1 : (64 * j + k) / 64 = j := by omega
      have e2 : (64 * j + k) % 64 = k := by omega
      rw [e1, e2] at this; exact this
    · intro k hk
      have := h (64 * (c.nwords - 1) + k) (by omega)
      unfold bitAt at this
      have e1 : (64 * (c.nwords - 1) + k) / 64 = c.nwords - 1 := by omega
      have e2 : (64 * (c.nwords - 1) + k) % 64 = k := by omega
      rw [e1, e2] at this; exact this
  · rintro ⟨g1, g2⟩ i hi
    unfold bitAt
    by_cases e : i / 64 < c.nwords - 1
    · rw [g1 _ e]
    · have e1 : i / 64 = c.nwords - 1 := by omega
      rw [e1]
      exact g2 (i % 64) (by omega)

theorem equal_iff (c : BClass) (hc : c.ok) (a b : Bitv) (ha : WF c a) (hb : WF c b) :
    equal c a b = true ↔ ∀ i, i < c.nbits → bitAt a i = bitAt b i := by
  unfold equal
  by_cases hw : c.nwords = 0
  · simp only [hw, if_true, true_iff]
    intro i hi
    have := hc.1; omega
  · have hw' : 0 < c.nwords := by omega
    simp only [hw, if_false]
    rw [eqLoop_eq _ a b (by rw [ha]; omega) (by rw [hb]; omega), bits_agree_iff c hc hw' a b,
        ← take_eq_iff _ a b (by rw [ha]; omega) (by rw [hb]; omega)]
    by_cases ht : List.take (c.nwords - 1) a = List.take (c.nwords - 1) b
    · simp only [ht, if_true, word_drop, true_and]
      obtain ⟨h1, h2⟩ := hc
      by_cases hm : c.nbits % BpW = 0
      · simp only [hm, if_true, beq_iff_eq]
        unfold BpW at hm
        have : c.nbits - 64 * (c.nwords - 1) = 64 := by omega
        rw [this]; exact word_eq_iff _ _
      · simp only [hm, if_false, beq_iff_eq, lastMask]
        unfold BpW at hm ⊢
        have : c.nbits - 64 * (c.nwords - 1) = c.nbits % 64 := by omega
        rw [this]
        exact mask_eq_iff _ _ _ (Nat.mod_lt _ (by decide))
    · simp [ht]

/-! ### counting, maximum -/

theorem countFold (p : Nat → Bool) (l : List Nat) (acc : Nat) :
    l.foldl (fun total i => if p i then total + 1 else total) acc = acc + (l.filter p).length := by
  induction l generalizing acc with
  | nil => simp
  | cons x l ih =>
    simp only [List.foldl_cons, List.filter_cons]
    rw [ih]
    by_cases h : p x <;> simp [h] <;> omega

theorem countTo_eq (c : BClass) (bv : Bitv) (n : Nat) :
    countTo c bv n = ((List.range n).filter (fun i => test c bv i)).length := by
  unfold countTo
  have := countFold (fun i => test c bv i) (List.range n) 0
  simpa using this

theorem maxLoop_spec (c : BClass) (bv : Bitv) (n : Nat) :
    (maxLoop c bv n = -1 ∧ ∀ i, i < n → test c bv i = false) ∨
    (∃ m, m < n ∧ maxLoop c bv n = (m : Int) ∧ test c bv m = true ∧ ∀ j, m < j → j < n → test c bv j = false) := by
  induction n with
  | zero => left; exact ⟨rfl, fun i hi => by omega⟩
  | succ n ih =>
    unfold maxLoop
    by_cases h : test c bv n = true
    · right
      refine ⟨n, by omega, by simp [h], h, fun j h1 h2 => by omega⟩
    · simp only [h, Bool.false_eq_true, if_false]
      have h' : test c bv n = false := by simpa using h
      rcases ih with ⟨h1, h2⟩ | ⟨m, h1, h2, h3, h4⟩
      · left
        refine ⟨h1, fun i hi => ?_⟩
        by_cases e : i = n
        · subst e; exact h'
        · exact h2 i (by omega)
      · right
        refine ⟨m, by omega, h2, h3, fun j hj1 hj2 => ?_⟩
        by_cases e : j = n
        · subst e; exact h'
        · exact h4 j hj1 (by omega)

/-! ### bitvFromInt, bitvToInt, bitvResize -/

theorem fromIntFold (c : BClass) (N : Nat) (fresh : Bitv) (n : Nat) (hn : n ≤ 64 * fresh.length) :
    ((List.range n).foldl (fun bv i => if N.testBit i then set c bv i else clear c bv i) fresh).length = fresh.length ∧
    ∀ i, bitAt ((List.range n).foldl (fun bv i => if N.testBit i then set c bv i else clear c bv i) fresh) i =
      if i < n then N.testBit i else bitAt fresh i := by
  induction n with
  | zero => simp
  | succ n ih =>
    obtain ⟨l1, l2⟩ := ih (by omega)
    rw [List.range_succ, List.foldl_append]
    simp only [List.foldl_cons, List.foldl_nil]
    have hidx : n / 64 < ((List.range n).foldl (fun bv i => if N.testBit i then set c bv i else clear c bv i) fresh).length := by
      rw [l1]; omega
    constructor
    · split
      · rw [length_set, l1]
      · rw [length_clear, l1]
    · intro i
      by_cases hb : N.testBit n = true
      · simp only [hb, if_true]
        rw [bitAt_set _ _ _ _ hidx, l2]
        by_cases e : i = n
        · subst e; simp [hb]
        · have : (i < n + 1) = (i < n) := by simp; omega
          simp [e, this]
      · simp only [hb, Bool.false_eq_true, if_false]
        rw [bitAt_clear _ _ _ _ hidx, l2]
        by_cases e : i = n
        · subst e; simp at hb; simp [hb]
        · have : (i < n + 1) = (i < n) := by simp; omega
          simp [e, this]

theorem toIntFold (p : Nat → Bool) (n i : Nat) :
    ((List.range n).foldl (fun r j => if p j then r ||| (1 <<< j) else r) 0).testBit i =
      (decide (i < n) && p i) := by
  induction n with
  | zero => simp
  | succ n ih =>
    rw [List.range_succ, List.foldl_append]
    simp only [List.foldl_cons, List.foldl_nil]
    by_cases h : p n = true
    · simp only [h, if_true]
      rw [Nat.testBit_or, ih, Nat.one_shiftLeft, Nat.testBit_two_pow]
      by_cases e : i = n
      · subst e; simp [h]
      · have e' : ¬ n = i := fun h => e h.symm
        have : (i < n + 1) = (i < n) := by simp; omega
        simp [e', this]
    · simp only [h, Bool.false_eq_true, if_false, ih]
      by_cases e : i = n
      · subst e; simp at h; simp [h]
      · have : (i < n + 1) = (i < n) := by simp; omega
        simp [this]

theorem bitAt_resize (newc oldc : BClass) (b fresh : Bitv) (hb : WF oldc b) (i : Nat) (hi : i / 64 < oldc.nwords) :
    bitAt (resize newc oldc b fresh) i = bitAt b i := by
  unfold resize
  split
  · rfl
  · unfold bitAt word
    have : List.take oldc.nwords b = b := by rw [← hb]; exact List.take_length
    rw [this, List.getD_eq_getElem?_getD, List.getD_eq_getElem?_getD, List.getElem?_append_left (by rw [hb]; exact hi)]

/-! ### bitvUnique1IndexInRange -/

theorem uniqueLoop_eq (c : BClass) (bv : Bitv) (l : List Nat) (n1s : Nat) (last1 : Int) (hn : n1s ≤ 1) :
    uniqueLoop c bv l n1s last1 =
      if n1s + (l.filter (fun i => test c bv i)).length ≥ 2 then none
      else some (n1s + (l.filter (fun i => test c bv i)).length,
                 (((l.filter (fun i => test c bv i)).head?).map Int.ofNat).getD last1) := by
  induction l generalizing n1s last1 with
  | nil => simp [uniqueLoop]; omega
  | cons x l ih =>
    unfold uniqueLoop
    by_cases hx : test c bv x = true
    · simp only [hx, if_true, List.filter_cons_of_pos, List.length_cons, List.head?_cons, Option.map_some,
        Option.getD_some]
      by_cases h1 : n1s + 1 > 1
      · have : n1s + ((l.filter (fun i => test c bv i)).length + 1) ≥ 2 := by omega
        simp [h1, this]
      · have h0 : n1s = 0 := by omega
        subst h0
        simp only [h1, if_false]
        rw [ih 1 (x : Int) (by omega)]
        by_cases h2 : (l.filter (fun i => test c bv i)).length = 0
        · have : l.filter (fun i => test c bv i) = [] := List.eq_nil_of_length_eq_zero h2
          simp [this]
        · have a1 : 1 + (l.filter (fun i => test c bv i)).length ≥ 2 := by omega
          have a2 : 0 + ((l.filter (fun i => test c bv i)).length + 1) ≥ 2 := by omega
          rw [if_pos a1, if_pos a2]
    · have hx' : test c bv x = false := by simpa using hx
      simp only [hx', Bool.false_eq_true, if_false]
      rw [ih n1s last1 hn]
      simp [hx']

theorem unique_eq (c : BClass) (bv : Bitv) (org lim : Nat) :
    unique1IndexInRange c bv org lim =
      match ((List.range (lim - org)).map (· + org)).filter (fun i => test c bv i) with
      | [i] => (i : Int)
      | _ => -1 := by
  unfold unique1IndexInRange
  rw [uniqueLoop_eq c bv _ 0 (-1) (by omega)]
  generalize ((List.range (lim - org)).map (· + org)).filter (fun i => test c bv i) = S
  match S with
  | [] => simp
  | [i] => simp
  | i :: j :: r => simp

end AldorVerif.Bitv
