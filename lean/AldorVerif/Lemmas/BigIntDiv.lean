import AldorVerif.Lemmas.BigIntShift
/-! Lemmas about single digit division and `bintDivide` (core Lean only). -/
namespace AldorVerif.BigInt

/-! ### DivideDouble, iintDivideS -/

theorem divideDouble_spec {nh nl d : Nat} (hd : 0 < d) (hdR : d ≤ R) (hnh : nh < d) (hnl : nl < R) :
    (divideDouble nh nl d).1 = (nh * R + nl) / d ∧ (divideDouble nh nl d).2 = (nh * R + nl) % d ∧
    (divideDouble nh nl d).1 < R ∧ (divideDouble nh nl d).2 < d := by
  unfold divideDouble
  simp only
  have hlt : nh * R + nl < d * R := by
    have : (nh + 1) * R ≤ d * R := Nat.mul_le_mul_right R hnh
    rw [Nat.add_mul, Nat.one_mul] at this
    omega
  have hq : (nh * R + nl) / d < R := Nat.div_lt_of_lt_mul hlt
  have hr : (nh * R + nl) % d < d := Nat.mod_lt _ hd
  rw [Nat.mod_eq_of_lt hq, Nat.mod_eq_of_lt (by omega : (nh * R + nl) % d < R)]
  exact ⟨rfl, rfl, hq, hr⟩

theorem beVal_digits_lt {ds : List Nat} (h : Digits ds) : beVal ds < R ^ ds.length := beVal_lt h

/-- the loop of `iintDivideS` over the places, most significant first, with incoming remainder `r` -/
theorem divSLoop_spec {b : Nat} (hb : 0 < b) (hbR : b ≤ R) : ∀ {as : List Nat} {r : Nat}, Digits as → r < b →
    beVal (divSLoop b as r).1 = (r * R ^ as.length + beVal as) / b ∧
    (divSLoop b as r).2 = (r * R ^ as.length + beVal as) % b ∧
    (divSLoop b as r).1.length = as.length ∧ Digits (divSLoop b as r).1 := by
  intro as
  induction as with
  | nil =>
    intro r _ hr
    refine ⟨?_, ?_, rfl, Digits.nil⟩
    · show 0 = (r * R ^ 0 + 0) / b
      rw [Nat.pow_zero, Nat.mul_one, Nat.add_zero, Nat.div_eq_of_lt hr]
    · show r = (r * R ^ 0 + 0) % b
      rw [Nat.pow_zero, Nat.mul_one, Nat.add_zero, Nat.mod_eq_of_lt hr]
  | cons a as ih =>
    intro r hd hr
    obtain ⟨e1, e2, h1, h2⟩ := divideDouble_spec hb hbR hr hd.head
    obtain ⟨v, rm, len, dg⟩ := ih hd.tail h2
    have e : divSLoop b (a :: as) r = ((divideDouble r a b).1 :: (divSLoop b as (divideDouble r a b).2).1,
        (divSLoop b as (divideDouble r a b).2).2) := rfl
    rw [e]
    refine ⟨?_, ?_, by simp [len], Digits.cons h1 dg⟩
    · simp only [beVal, List.length_cons, Nat.pow_succ]
      rw [len, v, e1, e2]
      generalize R ^ as.length = P
      generalize beVal as = A
      have hsplit : r * (P * R) + (a * P + A) = (r * R + a) * P + A := by
        rw [Nat.add_mul, Nat.mul_assoc, Nat.mul_comm P R]; omega
      rw [hsplit]
      have hdm := Nat.div_add_mod (r * R + a) b
      generalize (r * R + a) / b = q0 at *
      generalize (r * R + a) % b = r1 at *
      rw [← hdm, Nat.add_mul, Nat.mul_assoc, Nat.add_assoc, Nat.mul_add_div hb]
    · simp only [beVal, List.length_cons, Nat.pow_succ]
      rw [rm, e2]
      generalize R ^ as.length = P
      generalize beVal as = A
      have hsplit : r * (P * R) + (a * P + A) = (r * R + a) * P + A := by
        rw [Nat.add_mul, Nat.mul_assoc, Nat.mul_comm P R]; omega
      rw [hsplit]
      have hdm := Nat.div_add_mod (r * R + a) b
      generalize (r * R + a) / b = q0 at *
      generalize (r * R + a) % b = r1 at *
      rw [← hdm, Nat.add_mul, Nat.mul_assoc, Nat.add_assoc, Nat.mul_add_mod]

theorem natVal_reverse (l : List Nat) : natVal l.reverse = beVal l := by
  rw [natVal_eq_beVal_reverse, List.reverse_reverse]

/-- `iintDivideS`: exact quotient and remainder by a one place divisor. -/
theorem iintDivideS_spec {a : List Nat} {b : Nat} (ha : Digits a) (hb : 0 < b) (hbR : b < R) :
    natVal (iintDivideS a b).1 = natVal a / b ∧ (iintDivideS a b).2 = natVal a % b ∧
    Digits (iintDivideS a b).1 ∧ (iintDivideS a b).1.length ≤ a.length := by
  obtain ⟨v, rm, len, dg⟩ := divSLoop_spec hb (Nat.le_of_lt hbR) (as := a.reverse) (r := 0) ha.reverse hb
  simp only [Nat.zero_mul, Nat.zero_add, ← natVal_eq_beVal_reverse] at v rm
  unfold iintDivideS
  simp only
  refine ⟨?_, rm, ?_, ?_⟩
  · rw [← v]
    split
    · rename_i rest hq
      rw [hq, natVal_reverse]; simp [beVal]
    · rw [natVal_reverse]
  · split
    · rename_i rest hq
      rw [hq] at dg
      exact dg.tail.reverse
    · exact dg.reverse
  · split
    · rename_i rest hq
      rw [hq] at len
      simp at len ⊢; omega
    · simp [len]

/-- the quotient is normalised when the dividend is -/
theorem iintDivideS_norm {a : List Nat} {b : Nat} (ha : Digits a) (hn : Norm a) (hb : 0 < b) (hbR : b < R) :
    Norm (iintDivideS a b).1 := by
  obtain ⟨v, _, dgq, _⟩ := iintDivideS_spec ha hb hbR
  obtain ⟨_, _, len, _⟩ := divSLoop_spec hb (Nat.le_of_lt hbR) (as := a.reverse) (r := 0) ha.reverse hb
  revert v dgq
  unfold iintDivideS
  simp only
  split
  · rename_i rest hq
    intro v dgq
    rw [hq] at len
    simp only [List.length_cons, List.length_reverse] at len
    by_cases hr : rest = []
    · subst hr; exact Norm.nil
    · have hne : rest.reverse ≠ [] := by simpa using hr
      have hane : a ≠ [] := by intro h0; subst h0; simp at len
      apply norm_of_ge hne dgq
      rw [v, List.length_reverse]
      have hge := natVal_ge_of_norm hn hane
      have hl : a.length - 1 = (rest.length - 1) + 1 := by
        have := len_pos hr; omega
      rw [hl, Nat.pow_succ] at hge
      apply (Nat.le_div_iff_mul_le hb).mpr
      have : R ^ (rest.length - 1) * b ≤ R ^ (rest.length - 1) * R := Nat.mul_le_mul_left _ (Nat.le_of_lt hbR)
      omega
  · rename_i hq
    intro _ _
    cases hql : (divSLoop b a.reverse 0).1 with
    | nil => exact Norm.nil
    | cons d rest =>
      have hd0 : d ≠ 0 := by
        intro h0; subst h0; exact hq rest hql
      intro hl
      rw [List.getLast?_reverse] at hl
      simp at hl
      exact hd0 hl

/-! ### bintDivide -/

/-- `iintDivide` is correct on the pair `u`, `v` -/
def IDivOK (u v : List Nat) : Prop :=
  natVal (iintDivide u v).1 = natVal u / natVal v ∧ natVal (iintDivide u v).2.1 = natVal u % natVal v ∧
  Digits (iintDivide u v).1 ∧ Digits (iintDivide u v).2.1 ∧
  ((iintDivide u v).1.length ≤ 2 ∨ Norm (iintDivide u v).1) ∧
  ((iintDivide u v).2.1.length ≤ 2 ∨ Norm (iintDivide u v).2.1)

theorem stored_norm_or_short {u : List Nat} (h : Stored u) : u.length ≤ 2 ∨ Norm u := by
  rcases h.2 with h0 | ⟨_, hn⟩
  · left; subst h0; simp
  · right; exact hn

/-- one place divisor -/
theorem iintDivide_single {u : List Nat} {b : Nat} (hu : Stored u) (hb : 0 < b) (hbR : b < R) :
    IDivOK u [b] := by
  obtain ⟨v, rm, dg, len⟩ := iintDivideS_spec hu.1 hb hbR
  unfold IDivOK iintDivide
  simp only [List.length_singleton, if_true, List.headD_cons, natVal_cons, natVal_nil, Nat.mul_zero, Nat.add_zero]
  refine ⟨v, rm, dg, Digits.cons (by rw [rm]; exact Nat.lt_trans (Nat.mod_lt _ hb) hbR) Digits.nil, ?_, Or.inl (by simp)⟩
  rcases hu.2 with h0 | ⟨_, hn⟩
  · left; subst h0; simp at len; omega
  · right; exact iintDivideS_norm hu.1 hn hb hbR

/-- dividend smaller than a divisor of two or more places -/
theorem iintDivide_less {u v : List Nat} (hu : Stored u) (hv : Stored v) (hn : v.length ≠ 1)
    (hlt : natVal u < natVal v) : IDivOK u v := by
  have hm : bintLT (.big false u) (.big false v) = true := by
    rw [bintLT_big_big]; simp; exact (magLT_iff_stored hu hv).mpr hlt
  unfold IDivOK iintDivide
  simp only [if_neg hn, hm, if_true]
  refine ⟨by simp [Nat.div_eq_of_lt hlt], by simp [Nat.mod_eq_of_lt hlt], Digits.nil, hu.1, Or.inl (by simp), stored_norm_or_short hu⟩

theorem tdiv_tmod_cases (A B : Nat) (na nb : Bool) :
    let a : Int := if na then -(A : Int) else A
    let b : Int := if nb then -(B : Int) else B
    a.tdiv b = (if na != nb then -((A / B : Nat) : Int) else ((A / B : Nat) : Int)) ∧
    a.tmod b = (if na then -((A % B : Nat) : Int) else ((A % B : Nat) : Int)) := by
  cases na <;> cases nb <;>
    simp [Int.neg_tdiv, Int.tdiv_neg, Int.neg_tmod, Int.tmod_neg] <;>
    rw [Int.tmod_eq_emod_of_nonneg (by omega)]

/-- `bintDivide` is exact whenever `iintDivide` is on the stored magnitudes. -/
theorem bintDivide_of_ok {a b : BInt} (ha : WF a) (hb : WF b)
    (hok : ∀ da db, Stored da → Stored db → (natVal da : Int) = a.val.natAbs → (natVal db : Int) = b.val.natAbs →
      IDivOK da db) :
    (bintDivide a b).1.val = a.val.tdiv b.val ∧ (bintDivide a b).2.val = a.val.tmod b.val ∧
    WF (bintDivide a b).1 ∧ WF (bintDivide a b).2 := by
  obtain ⟨na, da, ea, sa, va⟩ := xintStore_spec ha
  obtain ⟨nb, db, eb, sb, vb⟩ := xintStore_spec hb
  have h1 : (natVal da : Int) = a.val.natAbs := by rw [va]; cases na <;> simp
  have h2 : (natVal db : Int) = b.val.natAbs := by rw [vb]; cases nb <;> simp
  obtain ⟨qv, rv, qd, rd, qn, rn⟩ := hok da db sa sb h1 h2
  obtain ⟨eq, wq⟩ := immedIfCan_spec false qd qn
  obtain ⟨er, wr⟩ := immedIfCan_spec false rd rn
  have nq := bintNegate_spec wq
  have nr := bintNegate_spec wr
  have key := tdiv_tmod_cases (natVal da) (natVal db) na nb
  simp only at key
  rw [← va, ← vb] at key
  unfold bintDivide bintDivideT divideGen
  simp only [ea, eb, bintIsNeg, digitsOf, BINT_NEGATE_eq]
  rw [val_big_false] at eq er
  cases na <;> cases nb <;>
    simp only [Bool.and_self, Bool.and_true, Bool.and_false, Bool.false_eq_true, if_true, if_false,
      bne_self_eq_false, Bool.true_bne, Bool.false_bne, Bool.not_false] at key ⊢
  · exact ⟨by rw [key.1, eq, qv], by rw [key.2, er, rv], wq, wr⟩
  · exact ⟨by rw [key.1, nq.1, eq, qv], by rw [key.2, er, rv], nq.2, wr⟩
  · exact ⟨by rw [key.1, nq.1, eq, qv], by rw [key.2, nr.1, er, rv], nq.2, nr.2⟩
  · exact ⟨by rw [key.1, eq, qv], by rw [key.2, nr.1, er, rv], wq, nr.2⟩

end AldorVerif.BigInt
