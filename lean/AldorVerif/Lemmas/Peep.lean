import AldorVerif.Model.Peep
set_option linter.unusedSimpArgs false
/-! Lemmas about the peephole model: purity, closedness, canonical Boolean values, and the
soundness of one rule application (`rule_sim`) from which `peepAux_sim` follows by induction
on the fuel. -/
namespace AldorVerif.Peep

theorem pure_state (F : Calls) : ∀ (e : Expr) (st : St), sideFx e = false → (evalE F e st).2 = st := by
  intro e
  induction e with
  | bool b => intro st _; rfl
  | sint v => intro st _; rfl
  | loc i => intro st _; rfl
  | call k t a _ => intro st h; simp [sideFx] at h
  | b0 op => intro st _; rfl
  | b1 op a ih => intro st h; simp [sideFx] at h; simp [evalE, ih st h]
  | b2 op a b iha ihb =>
    intro st h; simp [sideFx] at h
    simp [evalE, iha st h.1, ihb st h.2]
  | cast t e ih => intro st h; simp [sideFx] at h; simp [evalE, ih st h]

theorem closed_pure : ∀ (e : Expr), closed e = true → sideFx e = false := by
  intro e
  induction e with
  | bool b => intro _; rfl
  | sint v => intro _; rfl
  | loc i => intro h; simp [closed] at h
  | call k t a _ => intro h; simp [closed] at h
  | b0 op => intro _; rfl
  | b1 op a ih => intro h; simp [closed] at h; simp [sideFx, ih h]
  | b2 op a b iha ihb => intro h; simp [closed] at h; simp [sideFx, iha h.1, ihb h.2]
  | cast t e ih => intro h; simp [closed] at h; simp [sideFx, ih h]

theorem closed_val (F : Calls) : ∀ (e : Expr) (st st' : St), closed e = true →
    (evalE F e st).1 = (evalE F e st').1 := by
  intro e
  induction e with
  | bool b => intro st st' _; rfl
  | sint v => intro st st' _; rfl
  | loc i => intro st st' h; simp [closed] at h
  | call k t a _ => intro st st' h; simp [closed] at h
  | b0 op => intro st st' _; rfl
  | b1 op a ih => intro st st' h; simp [closed] at h; simp [evalE, ih st st' h]
  | b2 op a b iha ihb =>
    intro st st' h; simp [closed] at h
    simp [evalE, iha st st' h.1, ihb _ (evalE F a st').2 h.2]
  | cast t e ih => intro st st' h; simp [closed] at h; simp [evalE, ih st st' h]

def IsBoolVal (v : W) : Prop := v = 0 ∨ v = 1

theorem ofBool_isBoolVal (b : Bool) : IsBoolVal (ofBool b) := by
  cases b <;> simp [ofBool, IsBoolVal]

theorem bool_canon (F : Calls) : ∀ (e : Expr) (st : St), castOK e = true → typeOf e = some .bool →
    IsBoolVal (evalE F e st).1 := by
  intro e
  induction e with
  | bool b => intro st _ _; exact ofBool_isBoolVal b
  | sint v => intro st _ h; simp [typeOf] at h
  | loc i => intro st _ h; simp [typeOf] at h; simp [evalE, h, normTy]; exact ofBool_isBoolVal _
  | call k t a _ =>
    intro st _ h
    simp [typeOf] at h
    simp [evalE, h.2, normTy]; exact ofBool_isBoolVal _
  | b0 op => intro st _ _; cases op <;> simp [evalE, sem0, IsBoolVal]
  | b1 op a _ =>
    intro st _ h
    cases op <;> simp [typeOf, Op1.retTy] at h <;> simp [evalE, sem1] <;> exact ofBool_isBoolVal _
  | b2 op a b _ _ =>
    intro st _ h
    cases op <;> simp [typeOf, Op2.retTy] at h <;> simp [evalE, sem2] <;> exact ofBool_isBoolVal _
  | cast t e ih =>
    intro st hc h
    simp [typeOf] at h
    obtain ⟨hs, ht⟩ := h
    subst ht
    simp [castOK] at hc
    cases hte : typeOf e with
    | none => simp [hte] at hs
    | some s =>
      simp [hte] at hc
      have hsb : s = .bool := hc.2.2
      subst hsb
      simp [evalE, hte, castSem]
      exact ih st hc.1 hte

theorem commute_swap (F : Calls) (a b : Expr) (st : St) (h : commute a b = true) :
    (evalE F a st).1 = (evalE F a (evalE F b st).2).1 ∧
    (evalE F b (evalE F a st).2).1 = (evalE F b st).1 ∧
    (evalE F b (evalE F a st).2).2 = (evalE F a (evalE F b st).2).2 := by
  simp [commute] at h
  rcases h with (⟨ha, hb⟩ | ha) | hb
  · simp [pure_state F a _ ha, pure_state F b _ hb]
  · have hp := closed_pure a ha
    simp [pure_state F a _ hp]
    exact closed_val F a _ _ ha
  · have hp := closed_pure b hb
    simp [pure_state F b _ hp]
    exact closed_val F b _ _ hb

/-- the hypotheses of `peep_preserves_partial` -/
def Good (e : Expr) : Prop := (typeOf e).isSome = true ∧ castOK e = true ∧ ordered e = true

/-- `r` may take the place of `e` -/
structure Sim (e r : Expr) : Prop where
  ty : typeOf r = typeOf e
  ev : ∀ (F : Calls) (st : St), evalE F r st = evalE F e st
  cast : castOK r = true
  ord : ordered r = true
  pure : sideFx e = false → sideFx r = false
  clo : closed e = true → closed r = true

theorem Sim.good {e r : Expr} (h : Sim e r) (g : Good e) : Good r :=
  ⟨by rw [h.ty]; exact g.1, h.cast, h.ord⟩

theorem Sim.refl {e : Expr} (g : Good e) : Sim e e :=
  ⟨rfl, fun _ _ => rfl, g.2.1, g.2.2, id, id⟩

theorem Sim.trans {e r q : Expr} (h1 : Sim e r) (h2 : Sim r q) : Sim e q :=
  ⟨h2.ty.trans h1.ty, fun F st => (h2.ev F st).trans (h1.ev F st), h2.cast, h2.ord,
   fun h => h2.pure (h1.pure h), fun h => h2.clo (h1.clo h)⟩

theorem good_b1 {op : Op1} {a : Expr} (g : Good (.b1 op a)) :
    Good a ∧ typeOf a = some op.argTy := by
  obtain ⟨h1, h2, h3⟩ := g
  simp [typeOf] at h1
  simp [castOK] at h2
  simp [ordered] at h3
  by_cases ht : typeOf a = some op.argTy
  · exact ⟨⟨by simp [ht], h2, h3⟩, ht⟩
  · simp [ht] at h1

theorem good_b2 {op : Op2} {a b : Expr} (g : Good (.b2 op a b)) :
    Good a ∧ Good b ∧ typeOf a = some op.argTy ∧ typeOf b = some op.argTy ∧ commute a b = true := by
  obtain ⟨h1, h2, h3⟩ := g
  simp [typeOf] at h1
  simp [castOK] at h2
  simp [ordered] at h3
  by_cases ht : typeOf a = some op.argTy ∧ typeOf b = some op.argTy
  · exact ⟨⟨by simp [ht.1], h2.1, h3.1.1⟩, ⟨by simp [ht.2], h2.2, h3.1.2⟩, ht.1, ht.2, h3.2⟩
  · simp [ht] at h1

theorem good_call {k : Nat} {t : Ty} {a : Expr} (g : Good (.call k t a)) : Good a := by
  obtain ⟨h1, h2, h3⟩ := g
  simp [typeOf] at h1
  simp [castOK] at h2
  simp [ordered] at h3
  exact ⟨by simpa using h1, h2, h3⟩

theorem good_cast {t : Ty} {e : Expr} (g : Good (.cast t e)) :
    Good e ∧ ∃ s, typeOf e = some s ∧ s.width ≤ t.width ∧ (t = .bool → s = .bool) := by
  obtain ⟨h1, h2, h3⟩ := g
  simp [typeOf] at h1
  simp [castOK] at h2
  simp [ordered] at h3
  cases hte : typeOf e with
  | none => simp [hte] at h1
  | some s =>
    simp [hte] at h2
    refine ⟨⟨by simp [hte], h2.1, h3⟩, s, rfl, h2.2.1, ?_⟩
    intro ht
    rcases h2.2.2 with h | h
    · exact absurd ht h
    · exact h

theorem not_ofBool (c : Bool) : sem1 .boolNot (ofBool c) = ofBool (!c) := by
  cases c <;> simp [sem1, ofBool]

@[simp] theorem ofBool_beq_zero (c : Bool) : (ofBool c == 0#64) = !c := by
  cases c <;> simp [ofBool]

theorem not_not_val {v : W} (h : IsBoolVal v) : sem1 .boolNot (sem1 .boolNot v) = v := by
  rcases h with h | h <;> subst h <;> simp [sem1, ofBool]

/-- `not (x op y)` may be replaced by `y op' x` when the values agree and the operands commute -/
theorem swap_sim {op op' : Op2} {x y : Expr} (g : Good (.b1 .boolNot (.b2 op x y)))
    (hv : ∀ va vb, sem1 .boolNot (sem2 op va vb) = sem2 op' vb va)
    (ha : op'.argTy = op.argTy) (hr : op'.retTy = .bool) :
    Sim (.b1 .boolNot (.b2 op x y)) (.b2 op' y x) := by
  obtain ⟨g1, ht1⟩ := good_b1 g
  obtain ⟨gx, gy, tx, ty, hc⟩ := good_b2 g1
  have hc' : commute y x = true := by
    simp [commute] at hc ⊢
    rcases hc with (⟨h1, h2⟩ | h1) | h1
    · exact Or.inl (Or.inl ⟨h2, h1⟩)
    · exact Or.inr h1
    · exact Or.inl (Or.inr h1)
  refine ⟨?_, ?_, ?_, ?_, ?_, ?_⟩
  · simp [typeOf, tx, ty, ha, hr, Op1.retTy, Op1.argTy] at ht1 ⊢
    simp [ht1]
  · intro F st
    obtain ⟨s1, s2, s3⟩ := commute_swap F x y st hc
    simp only [evalE]
    rw [hv, s2, ← s1, s3]
  · simp [castOK, gx.2.1, gy.2.1]
  · simp [ordered, gx.2.2, gy.2.2, hc']
  · intro h; simp [sideFx] at h ⊢; exact ⟨h.2, h.1⟩
  · intro h; simp [closed] at h ⊢; exact ⟨h.2, h.1⟩

theorem negate_sim {fast : Bool} {a r : Expr} (g : Good (.b1 .boolNot a))
    (h : negate fast a = some r) : Sim (.b1 .boolNot a) r := by
  obtain ⟨ga, ta⟩ := good_b1 g
  cases a with
  | b1 iop x =>
    cases iop <;> simp [negate] at h
    subst h
    obtain ⟨gx, tx⟩ := good_b1 ga
    refine ⟨?_, ?_, gx.2.1, gx.2.2, ?_, ?_⟩
    · simp [typeOf, tx, Op1.argTy, Op1.retTy]
    · intro F st
      simp only [evalE]
      rw [not_not_val (bool_canon F x st gx.2.1 tx)]
    · intro h; simpa [sideFx] using h
    · intro h; simpa [closed] using h
  | b2 op x y =>
    cases op <;> simp [negate, info2, dual, makeBinary, findOp2] at h
    all_goals (obtain ⟨_, h⟩ := h; subst h; apply swap_sim g)
    all_goals first
      | rfl
      | (intro va vb; simp only [sem2, not_ofBool]; congr 1
         first
           | (rw [BitVec.sle_eq_not_slt, Bool.not_not])
           | (simp [bne, BEq.comm (a := va)]; done)
           | (simp [bne, BEq.comm (a := vb)]; done))
  | _ => simp [negate] at h

/-- `op (iop x)` may be replaced by `x` when the two builtins are inverse to each other -/
theorem inverse_sim {op iop : Op1} {x : Expr} (g : Good (.b1 op (.b1 iop x)))
    (hv : ∀ v, sem1 op (sem1 iop v) = v) (ht : op.retTy = iop.argTy) :
    Sim (.b1 op (.b1 iop x)) x := by
  obtain ⟨g1, t1⟩ := good_b1 g
  obtain ⟨gx, tx⟩ := good_b1 g1
  refine ⟨?_, ?_, gx.2.1, gx.2.2, ?_, ?_⟩
  · simp [typeOf, tx] at t1 ⊢
    simp [t1, ht]
  · intro F st
    simp only [evalE, hv]
  · intro h; simpa [sideFx] using h
  · intro h; simpa [closed] using h

theorem unary_sim {fast : Bool} {op : Op1} {a r : Expr} (g : Good (.b1 op a))
    (h : unaryBCall fast op a = some r) : Sim (.b1 op a) r := by
  cases a with
  | b1 iop x =>
    cases op <;> cases iop <;> cases fast <;> simp [unaryBCall, info1, dual] at h
    all_goals (subst h; apply inverse_sim g)
    all_goals first
      | rfl
      | (intro v; simp [sem1, BitVec.sub_add_cancel, BitVec.add_sub_cancel])
  | _ => simp [unaryBCall] at h

theorem and_true_val {v : W} (h : IsBoolVal v) :
    sem2 .boolAnd (ofBool true) v = v ∧ sem2 .boolAnd v (ofBool true) = v ∧
    sem2 .boolOr (ofBool false) v = v ∧ sem2 .boolOr v (ofBool false) = v ∧
    sem2 .boolAnd (ofBool false) v = ofBool false ∧ sem2 .boolAnd v (ofBool false) = ofBool false ∧
    sem2 .boolOr (ofBool true) v = ofBool true ∧ sem2 .boolOr v (ofBool true) = ofBool true := by
  rcases h with h | h <;> subst h <;> simp [sem2, ofBool]

/-- a binary node may be replaced by one of its operands when the other is a constant and
the values agree -/
theorem keep_left_sim {op : Op2} {l c : Expr} (g : Good (.b2 op l c)) (hc : closed c = true)
    (ht : op.retTy = op.argTy)
    (hv : ∀ F st, sem2 op (evalE F l st).1 (evalE F c st).1 = (evalE F l st).1) :
    Sim (.b2 op l c) l := by
  obtain ⟨gl, gc, tl, tc, _⟩ := good_b2 g
  refine ⟨?_, ?_, gl.2.1, gl.2.2, ?_, ?_⟩
  · simp [typeOf, tl, tc, ht]
  · intro F st
    have hp := pure_state F c (evalE F l st).2 (closed_pure c hc)
    simp only [evalE, hp]
    rw [closed_val F c _ st hc, hv]
  · intro h; simp [sideFx] at h; exact h.1
  · intro h; simp [closed] at h; exact h.1

theorem keep_right_sim {op : Op2} {c r : Expr} (g : Good (.b2 op c r)) (hc : closed c = true)
    (ht : op.retTy = op.argTy)
    (hv : ∀ F st, sem2 op (evalE F c st).1 (evalE F r st).1 = (evalE F r st).1) :
    Sim (.b2 op c r) r := by
  obtain ⟨gc, gr, tc, tr, _⟩ := good_b2 g
  refine ⟨?_, ?_, gr.2.1, gr.2.2, ?_, ?_⟩
  · simp [typeOf, tc, tr, ht]
  · intro F st
    have hp := pure_state F c st (closed_pure c hc)
    simp only [evalE, hp]
    rw [hv]
  · intro h; simp [sideFx] at h; exact h.2
  · intro h; simp [closed] at h; exact h.2

/-- a node free of side effects may be replaced by a constant of the same type and value -/
theorem const_sim {e k : Expr} (_g : Good e) (hp : sideFx e = false) (hk : closed k = true)
    (hcast : castOK k = true) (hord : ordered k = true)
    (ht : typeOf k = typeOf e) (hv : ∀ F st, (evalE F k st).1 = (evalE F e st).1) : Sim e k := by
  refine ⟨ht, ?_, hcast, hord, fun _ => closed_pure k hk, fun _ => hk⟩
  intro F st
  apply Prod.ext
  · exact hv F st
  · rw [pure_state F k st (closed_pure k hk), pure_state F e st hp]

theorem andOr_sim {isAnd : Bool} {l r x : Expr}
    (g : Good (.b2 (if isAnd then Op2.boolAnd else Op2.boolOr) l r))
    (h : andOr isAnd l r = some x) :
    Sim (.b2 (if isAnd then Op2.boolAnd else Op2.boolOr) l r) x := by
  obtain ⟨gl, gr, tl, tr, _⟩ := good_b2 g
  have tl' : typeOf l = some .bool := by cases isAnd <;> simpa [Op2.argTy] using tl
  have tr' : typeOf r = some .bool := by cases isAnd <;> simpa [Op2.argTy] using tr
  have cl := fun F st => and_true_val (bool_canon F l st gl.2.1 tl')
  have cr := fun F st => and_true_val (bool_canon F r st gr.2.1 tr')
  unfold andOr at h
  simp only at h
  split at h
  · -- l is the absorbing constant
    rename_i hl
    split at h
    · rename_i hr
      simp at hr h; subst h; subst hl
      apply const_sim g
      · simpa [sideFx] using hr
      · rfl
      · rfl
      · rfl
      · cases isAnd <;> simp [typeOf, tr', Op2.argTy, Op2.retTy]
      · intro F st
        cases isAnd <;> simp only [evalE, Bool.not_true, Bool.not_false, cr F st, if_true, if_false, reduceIte, Bool.false_eq_true]
    · simp at h
  · split at h
    · -- l is the neutral constant
      rename_i hl
      simp at h; subst h; subst hl
      apply keep_right_sim g rfl
      · cases isAnd <;> rfl
      · intro F st
        cases isAnd <;> simp only [evalE, Bool.not_true, Bool.not_false, cr F st, if_true, if_false, reduceIte, Bool.false_eq_true]
    · split at h
      · rename_i hr
        split at h
        · rename_i hl
          simp at hl h; subst h; subst hr
          apply const_sim g
          · simpa [sideFx] using hl
          · rfl
          · rfl
          · rfl
          · cases isAnd <;> simp [typeOf, tl', Op2.argTy, Op2.retTy]
          · intro F st
            have hp := pure_state F l st hl
            cases isAnd <;> simp only [evalE, Bool.not_true, Bool.not_false, cl F st, if_true, if_false, reduceIte, Bool.false_eq_true]
        · simp at h
      · split at h
        · rename_i hr
          simp at h; subst h; subst hr
          apply keep_left_sim g rfl
          · cases isAnd <;> rfl
          · intro F st
            cases isAnd <;> simp only [evalE, Bool.not_true, Bool.not_false, cl F st, if_true, if_false, reduceIte, Bool.false_eq_true]
        · simp at h

theorem exprType_typeOf {e : Expr} {t : Ty} (g : Good e) (h : exprType e = some t) :
    typeOf e = some t := by
  have hw := g.1
  cases e with
  | bool b => simpa [exprType, typeOf] using h
  | sint v => simpa [exprType, typeOf] using h
  | loc i => simpa [exprType, typeOf] using h
  | call k t' a =>
    simp [exprType] at h; subst h
    simp [typeOf] at hw ⊢
    intro hn; simp [hn] at hw
  | b0 op => simpa [exprType, typeOf] using h
  | b1 op a =>
    simp [exprType] at h
    simp [typeOf] at hw ⊢
    by_cases ht : typeOf a = some op.argTy
    · simp [ht, h]
    · simp [ht] at hw
  | b2 op a b =>
    simp [exprType] at h
    simp [typeOf] at hw ⊢
    by_cases ht : typeOf a = some op.argTy ∧ typeOf b = some op.argTy
    · simp [ht, h]
    · simp [ht] at hw
  | cast t' x => simp [exprType] at h

/-- under `castOK` a Cast does not change the value -/
theorem cast_id {t : Ty} {e : Expr} (g : Good (.cast t e)) (F : Calls) (st : St) :
    evalE F (.cast t e) st = evalE F e st := by
  obtain ⟨_, s, hs, hw, _⟩ := good_cast g
  simp [evalE, hs, castSem, Nat.not_lt.mpr hw]

theorem strip_props : ∀ (e : Expr), Good e →
    Good (stripCasts e) ∧ (∀ F st, evalE F (stripCasts e) st = evalE F e st) ∧
    (∃ s s', typeOf e = some s ∧ typeOf (stripCasts e) = some s' ∧ s'.width ≤ s.width ∧
      (s = .bool → s' = .bool)) ∧
    sideFx (stripCasts e) = sideFx e ∧ closed (stripCasts e) = closed e := by
  intro e
  induction e with
  | cast t x ih =>
    intro g
    obtain ⟨gx, s, hs, hw, hb⟩ := good_cast g
    obtain ⟨i1, i2, ⟨s1, s2, h1, h2, h3, h4⟩, i4, i5⟩ := ih gx
    rw [hs] at h1; cases h1
    refine ⟨by simpa [stripCasts] using i1, ?_, ⟨t, s2, ?_, by simpa [stripCasts] using h2, ?_, ?_⟩, ?_, ?_⟩
    · intro F st; rw [cast_id g]; simpa [stripCasts] using i2 F st
    · simp [typeOf, hs]
    · exact Nat.le_trans h3 hw
    · intro ht; exact h4 (hb ht)
    · simpa [stripCasts, sideFx] using i4
    · simpa [stripCasts, closed] using i5
  | bool b => intro g; exact ⟨g, fun _ _ => rfl, ⟨.bool, .bool, rfl, rfl, Nat.le_refl _, id⟩, rfl, rfl⟩
  | sint v => intro g; exact ⟨g, fun _ _ => rfl, ⟨.sint, .sint, rfl, rfl, Nat.le_refl _, id⟩, rfl, rfl⟩
  | loc i => intro g; exact ⟨g, fun _ _ => rfl, ⟨locTy i, locTy i, rfl, rfl, Nat.le_refl _, id⟩, rfl, rfl⟩
  | b0 op => intro g; exact ⟨g, fun _ _ => rfl, ⟨.bool, .bool, rfl, rfl, Nat.le_refl _, id⟩, rfl, rfl⟩
  | call k t a _ =>
    intro g
    have hw := g.1
    cases h : typeOf (.call k t a) with
    | none => simp [h] at hw
    | some s => exact ⟨g, fun _ _ => rfl, ⟨s, s, rfl, h, Nat.le_refl _, id⟩, rfl, rfl⟩
  | b1 op a _ =>
    intro g
    have hw := g.1
    cases h : typeOf (.b1 op a) with
    | none => simp [h] at hw
    | some s => exact ⟨g, fun _ _ => rfl, ⟨s, s, rfl, h, Nat.le_refl _, id⟩, rfl, rfl⟩
  | b2 op a b _ _ =>
    intro g
    have hw := g.1
    cases h : typeOf (.b2 op a b) with
    | none => simp [h] at hw
    | some s => exact ⟨g, fun _ _ => rfl, ⟨s, s, rfl, h, Nat.le_refl _, id⟩, rfl, rfl⟩

theorem cast_sim {t : Ty} {e r : Expr} (g : Good (.cast t e)) (h : castRule t e = some r) :
    Sim (.cast t e) r := by
  obtain ⟨ge, s, hs, hw, hb⟩ := good_cast g
  obtain ⟨p1, p2, ⟨s1, s2, h1, h2, h3, h4⟩, p4, p5⟩ := strip_props e ge
  rw [hs] at h1; cases h1
  have tyc : typeOf (.cast t e) = some t := by simp [typeOf, hs]
  have key : ∀ x, x = stripCasts e →
      (if exprType x = some t then some x else some (Expr.cast t x)) = some r → Sim (.cast t e) r := by
    intro x hx h
    subst hx
    split at h
    · rename_i hx
      simp at h; subst h
      refine ⟨?_, ?_, p1.2.1, p1.2.2, ?_, ?_⟩
      · rw [tyc]; exact exprType_typeOf p1 hx
      · intro F st; rw [cast_id g, p2]
      · intro hp; simpa [sideFx, p4] using hp
      · intro hp; simpa [closed, p5] using hp
    · simp at h; subst h
      have gc : Good (.cast t (stripCasts e)) := by
        refine ⟨by simp [typeOf, h2], ?_, by simpa [ordered] using p1.2.2⟩
        simp [castOK, p1.2.1, h2, Nat.le_trans h3 hw]
        by_cases ht : t = .bool
        · right; exact h4 (hb ht)
        · left; exact ht
      refine ⟨?_, ?_, gc.2.1, gc.2.2, ?_, ?_⟩
      · rw [tyc]; simp [typeOf, h2]
      · intro F st; rw [cast_id g, cast_id gc, p2]
      · intro hp; simpa [sideFx, p4] using hp
      · intro hp; simpa [closed, p5] using hp
  have drop : ∀ x, x = e → exprType x = some t → Sim (.cast t e) x := by
    intro x hx hxt
    subst hx
    exact ⟨by rw [tyc]; exact exprType_typeOf ge hxt, fun F st => (cast_id g F st).symm, ge.2.1, ge.2.2,
      fun hp => by simpa [sideFx] using hp, fun hp => by simpa [closed] using hp⟩
  cases e with
  | cast t' x => exact key _ rfl (by simpa [castRule] using h)
  | bool b => simp [castRule] at h; obtain ⟨hx, h⟩ := h; subst h; exact drop _ rfl hx
  | sint v => simp [castRule] at h; obtain ⟨hx, h⟩ := h; subst h; exact drop _ rfl hx
  | loc i => simp [castRule] at h; obtain ⟨hx, h⟩ := h; subst h; exact drop _ rfl hx
  | b0 op => simp [castRule] at h; obtain ⟨hx, h⟩ := h; subst h; exact drop _ rfl hx
  | call k t' a => simp [castRule] at h; obtain ⟨hx, h⟩ := h; subst h; exact drop _ rfl hx
  | b1 op a => simp [castRule] at h; obtain ⟨hx, h⟩ := h; subst h; exact drop _ rfl hx
  | b2 op a b => simp [castRule] at h; obtain ⟨hx, h⟩ := h; subst h; exact drop _ rfl hx

/-! ### `x * 2^k = x << k` -/

theorem testBit_of_range {m k : Nat} (h1 : 2 ^ k ≤ m) (h2 : m < 2 ^ (k + 1)) : m.testBit k = true := by
  rw [Nat.testBit_eq_decide_div_mod_eq]
  have : m / 2 ^ k = 1 := by
    apply Nat.div_eq_of_lt_le
    · simpa using h1
    · rw [Nat.pow_succ] at h2; omega
  simp [this]

theorem and_pred_ne_zero {n k : Nat} (h1 : 2 ^ k < n) (h2 : n < 2 ^ (k + 1)) : n &&& (n - 1) ≠ 0 := by
  intro h
  have hb : (n &&& (n - 1)).testBit k = true := by
    rw [Nat.testBit_and, testBit_of_range (Nat.le_of_lt h1) h2, testBit_of_range (by omega) (by omega)]
    rfl
  rw [h] at hb
  simp at hb

theorem pow2_shift {c : W} (h0 : c ≠ 0) (h1 : c ≠ 1) (hp : c &&& (c - 1) = 0)
    (hk : intLength c - 1 ≤ 30) : c = BitVec.twoPow 64 (intLength c - 1) := by
  have hn0 : c.toNat ≠ 0 := fun h => h0 (BitVec.eq_of_toNat_eq (by simpa using h))
  have hn1 : c.toNat ≠ 1 := fun h => h1 (BitVec.eq_of_toNat_eq (by simpa using h))
  have hlt : c.toNat < 2 ^ 64 := c.isLt
  have hsub : (c - 1).toNat = c.toNat - 1 := by
    rw [BitVec.toNat_sub]; simp; omega
  have hand : c.toNat &&& (c.toNat - 1) = 0 := by
    have := congrArg BitVec.toNat hp
    rw [BitVec.toNat_and, hsub] at this
    simpa using this
  unfold intLength at hk ⊢
  by_cases hneg : BitVec.slt c 0 = true
  · exfalso
    have hmsb : 2 ^ 63 ≤ c.toNat := by
      have hneg' : BitVec.slt c 0#64 = true := hneg
      rw [BitVec.slt_zero_eq_msb, BitVec.msb_eq_decide] at hneg'
      simpa using hneg'
    by_cases heq : c.toNat = 2 ^ 63
    · have hc : c = BitVec.twoPow 64 63 := BitVec.eq_of_toNat_eq (by simp [heq])
      subst hc
      revert hk
      decide
    · exact and_pred_ne_zero (k := 63) (by omega) hlt hand
  · simp only [hneg] at hk ⊢
    simp only [Bool.false_eq_true, if_false, hn0] at hk ⊢
    have hk' : Nat.log2 c.toNat ≤ 30 := by omega
    have hlo := Nat.log2_self_le hn0
    have hhi := @Nat.lt_log2_self c.toNat
    have : c.toNat = 2 ^ Nat.log2 c.toNat := by
      by_cases hgt : 2 ^ Nat.log2 c.toNat < c.toNat
      · exact absurd hand (and_pred_ne_zero hgt hhi)
      · omega
    apply BitVec.eq_of_toNat_eq
    rw [BitVec.toNat_twoPow]
    have h64 : 2 ^ Nat.log2 c.toNat < 2 ^ 64 := Nat.pow_lt_pow_right (by omega) (by omega)
    simp only [Nat.add_sub_cancel]
    rw [Nat.mod_eq_of_lt h64]
    exact this

/-! ### additive rules -/

theorem positive_props {fast : Bool} {e p : Expr} (h : positive fast e = some p) (g : Good e)
    (te : typeOf e = some .sint) :
    Good p ∧ typeOf p = some .sint ∧
    (∀ F st, evalE F e st = (-(evalE F p st).1, (evalE F p st).2)) ∧
    sideFx p = sideFx e ∧ closed p = closed e := by
  cases e with
  | b1 iop a =>
    cases iop <;> cases fast <;> simp [positive, info1] at h
    all_goals
      subst h
      obtain ⟨ga, ta⟩ := good_b1 g
      exact ⟨ga, ta, fun F st => by simp [evalE, sem1], by simp [sideFx], by simp [closed]⟩
  | sint c =>
    simp [positive] at h
    obtain ⟨_, h⟩ := h
    subst h
    exact ⟨⟨rfl, rfl, rfl⟩, rfl, fun F st => by simp [evalE], rfl, rfl⟩
  | _ => simp [positive] at h

/-- replace the right operand `r` (whose value is the negation of that of `p`) by `p` -/
theorem right_neg_sim {op op' : Op2} {l r p : Expr} (g : Good (.b2 op l r))
    (gp : Good p) (tp : typeOf p = typeOf r)
    (hev : ∀ F st, evalE F r st = (-(evalE F p st).1, (evalE F p st).2))
    (hs : sideFx p = sideFx r) (hc : closed p = closed r)
    (hv : ∀ a b, sem2 op a (-b) = sem2 op' a b)
    (hat : op'.argTy = op.argTy) (hrt : op'.retTy = op.retTy) :
    Sim (.b2 op l r) (.b2 op' l p) := by
  obtain ⟨gl, gr, tl, tr, hcm⟩ := good_b2 g
  refine ⟨?_, ?_, ?_, ?_, ?_, ?_⟩
  · simp [typeOf, tl, tr, tp, hat, hrt]
  · intro F st
    simp only [evalE, hev, hv]
  · simp [castOK, gl.2.1, gp.2.1]
  · simp [ordered, gl.2.2, gp.2.2]
    simpa [commute, hs, hc] using hcm
  · intro h; simpa [sideFx, hs] using h
  · intro h; simpa [closed, hc] using h

/-- `(-p) + r ⟶ r - p` -/
theorem left_neg_swap_sim {l r p : Expr} (g : Good (.b2 .sintPlus l r))
    (gp : Good p) (tp : typeOf p = typeOf l)
    (hev : ∀ F st, evalE F l st = (-(evalE F p st).1, (evalE F p st).2))
    (hs : sideFx p = sideFx l) (hc : closed p = closed l) :
    Sim (.b2 .sintPlus l r) (.b2 .sintMinus r p) := by
  obtain ⟨gl, gr, tl, tr, hcm⟩ := good_b2 g
  have hcm' : commute p r = true := by simpa [commute, hs, hc] using hcm
  have hcm'' : commute r p = true := by
    simp [commute] at hcm' ⊢
    rcases hcm' with (⟨h1, h2⟩ | h1) | h1
    · exact Or.inl (Or.inl ⟨h2, h1⟩)
    · exact Or.inr h1
    · exact Or.inl (Or.inr h1)
  refine ⟨?_, ?_, ?_, ?_, ?_, ?_⟩
  · simp [typeOf, tl, tr, tp, Op2.argTy, Op2.retTy] at *
  · intro F st
    obtain ⟨s1, s2, s3⟩ := commute_swap F p r st hcm'
    simp only [evalE, hev, sem2]
    rw [s2, ← s1, s3, BitVec.add_comm, BitVec.add_neg_eq_sub]
  · simp [castOK, gr.2.1, gp.2.1]
  · simp [ordered, gr.2.2, gp.2.2, hcm'']
  · intro h; simp [sideFx, hs] at h ⊢; exact ⟨h.2, h.1⟩
  · intro h; simp [closed, hc] at h ⊢; exact ⟨h.2, h.1⟩

theorem additive_sim {fast isPlus : Bool} {l r n : Expr}
    (g : Good (.b2 (if isPlus then Op2.sintPlus else Op2.sintMinus) l r))
    (h : additive fast .sint isPlus l r = some n) :
    Sim (.b2 (if isPlus then Op2.sintPlus else Op2.sintMinus) l r) n := by
  obtain ⟨gl, gr, tl, tr, _⟩ := good_b2 g
  have tl' : typeOf l = some .sint := by cases isPlus <;> simpa [Op2.argTy] using tl
  have tr' : typeOf r = some .sint := by cases isPlus <;> simpa [Op2.argTy] using tr
  unfold additive at h
  simp only at h
  split at h
  · rename_i p hp
    cases isPlus with
    | false => simp at hp
    | true =>
      simp at hp
      obtain ⟨gp, tp, hev, hs, hc⟩ := positive_props hp gl tl'
      simp [makeBinary, findOp2] at h; subst h
      exact left_neg_swap_sim g gp (tp.trans tl'.symm) hev hs hc
  · split at h
    · rename_i p hp
      obtain ⟨gp, tp, hev, hs, hc⟩ := positive_props hp gr tr'
      cases isPlus with
      | false =>
        simp [makeBinary, findOp2] at h; subst h
        exact right_neg_sim g gp (tp.trans tr'.symm) hev hs hc
          (fun a b => by simp [sem2, BitVec.sub_neg]) rfl rfl
      | true =>
        simp [makeBinary, findOp2] at h; subst h
        exact right_neg_sim g gp (tp.trans tr'.symm) hev hs hc
          (fun a b => by simp [sem2, BitVec.add_neg_eq_sub]) rfl rfl
    · simp at h

/-! ### `peepTimesOp` -/

theorem isPow2_props {e : Expr} (h : isPow2 e = true) :
    ∃ c, e = .sint c ∧ c ≠ 0 ∧ c ≠ 1 ∧ c &&& (c - 1) = 0 := by
  cases e with
  | sint c =>
    simp [isPow2] at h
    exact ⟨c, rfl, h.1.1, h.1.2, h.2⟩
  | _ => simp [isPow2] at h

theorem shift_val {c : W} (h0 : c ≠ 0) (h1 : c ≠ 1) (hp : c &&& (c - 1) = 0)
    (hk : intLength c - 1 ≤ 30) (a : W) :
    sem2 .sintShiftUp a (BitVec.ofNat 64 (intLength c - 1)) = sem2 .sintTimes a c := by
  have hc := pow2_shift h0 h1 hp hk
  have hm : (BitVec.ofNat 64 (intLength c - 1)).toNat = intLength c - 1 := by
    rw [BitVec.toNat_ofNat]; apply Nat.mod_eq_of_lt; omega
  simp only [sem2, hm]
  conv => rhs; rw [hc]
  exact (BitVec.mul_twoPow_eq_shiftLeft a _).symm

theorem times_sim {l r n : Expr} (g : Good (.b2 .sintTimes l r))
    (h : timesOp .sint l r = some n) : Sim (.b2 .sintTimes l r) n := by
  obtain ⟨gl, gr, tl, tr, hcm⟩ := good_b2 g
  unfold timesOp at h
  simp only [ne_eq, not_true_eq_false, if_false] at h
  by_cases hl : isConst l = true
  · -- the constant is on the left: operands exchanged
    simp only [hl, if_true] at h
    split at h
    · simp at h
    · split at h
      · simp at h
      · rename_i hp
        simp at hp
        obtain ⟨c, hc, h0, h1, hpw⟩ := isPow2_props hp
        subst hc
        simp only at h
        split at h
        · simp at h
        · rename_i hk
          simp at hk h; subst h
          refine ⟨?_, ?_, ?_, ?_, ?_, ?_⟩
          · simp [typeOf, tr, Op2.argTy, Op2.retTy] at *
          · intro F st
            simp only [evalE]
            rw [shift_val h0 h1 hpw (by omega)]
            simp [sem2, BitVec.mul_comm]
          · simp [castOK, gr.2.1]
          · simp [ordered, gr.2.2, commute, closed]
          · intro hh; simpa [sideFx] using hh
          · intro hh; simpa [closed] using hh
  · simp only [hl, Bool.false_eq_true, if_false] at h
    split at h
    · simp at h
    · split at h
      · simp at h
      · rename_i hp
        simp at hp
        obtain ⟨c, hc, h0, h1, hpw⟩ := isPow2_props hp
        subst hc
        simp only at h
        split at h
        · simp at h
        · rename_i hk
          simp at hk h; subst h
          refine ⟨?_, ?_, ?_, ?_, ?_, ?_⟩
          · simp [typeOf, tl, Op2.argTy, Op2.retTy] at *
          · intro F st
            simp only [evalE]
            rw [shift_val h0 h1 hpw (by omega)]
          · simp [castOK, gl.2.1]
          · simp [ordered, gl.2.2, commute, closed]
          · intro hh; simpa [sideFx] using hh
          · intro hh; simpa [closed] using hh

/-! ### the table-driven rules of `peepBinaryBCall` -/

/-- what the expression built by `peepMakeUnaryOp` computes from the value of its operand -/
def nopSem : NOp → W → W
  | .none, v => v
  | .id, v => v
  | .zero, _ => 0
  | .one, _ => 1
  | .mone, _ => -1
  | .tt, _ => ofBool true
  | .ff, _ => ofBool false
  | .nonZero, v => ofBool (!(v == 0))
  | .nonNeg, v => ofBool (!(BitVec.slt v 0))
  | .nonPos, v => ofBool (!(BitVec.slt 0 v))
  | .un .neg, v => -v
  | .un .next, v => v + 1
  | .un .prev, v => v - 1
  | .un .isZero, v => ofBool (v == 0)
  | .un .isPos, v => ofBool (BitVec.slt 0 v)
  | .un .isNeg, v => ofBool (BitVec.slt v 0)
  | .un _, v => v

/-- its type (operand type `t`) -/
def nopTy : NOp → Ty → Ty
  | .tt, _ | .ff, _ | .nonZero, _ | .nonNeg, _ | .nonPos, _ => .bool
  | .un .isZero, _ | .un .isPos, _ | .un .isNeg, _ => .bool
  | _, t => t

theorem makeUnary_core {oob : Oob} {fast : Bool} {nop : NOp} {t : Ty} {a n : Expr}
    (h : makeUnary oob fast nop t a = some n) (ga : Good a) (ta : typeOf a = some t)
    (ht : t = .sint ∨ (t = .bool ∧ nop ≠ .mone)) :
    typeOf n = some (nopTy nop t) ∧ castOK n = true ∧ ordered n = true ∧
    (∀ F st, evalE F n st = (nopSem nop (evalE F a st).1, (evalE F a st).2)) ∧
    (sideFx a = false → sideFx n = false) ∧ (closed a = true → closed n = true) := by
  unfold makeUnary at h
  split at h
  · simp at h
  · rename_i hnul
    have hpure : nop.nullary oob = true → sideFx a = false := by
      intro hn; simpa [hn] using hnul
    have konst : ∀ (k : Expr) (v : W), closed k = true → castOK k = true → ordered k = true →
        nop.nullary oob = true → (∀ F st, (evalE F k st).1 = v) → (∀ w, nopSem nop w = v) →
        typeOf k = some (nopTy nop t) → n = k →
        typeOf n = some (nopTy nop t) ∧ castOK n = true ∧ ordered n = true ∧
        (∀ F st, evalE F n st = (nopSem nop (evalE F a st).1, (evalE F a st).2)) ∧
        (sideFx a = false → sideFx n = false) ∧ (closed a = true → closed n = true) := by
      intro k v hk hc ho hn hv hs htk hnk
      subst hnk
      refine ⟨htk, hc, ho, ?_, fun _ => closed_pure _ hk, fun _ => hk⟩
      intro F st
      apply Prod.ext
      · simp [hv, hs]
      · simp [pure_state F _ st (closed_pure _ hk), pure_state F a st (hpure hn)]
    cases nop with
    | none => simp at h
    | id =>
      simp at h; subst h
      exact ⟨ta, ga.2.1, ga.2.2, fun F st => rfl, id, id⟩
    | zero =>
      simp at h
      rcases ht with ht | ⟨ht, _⟩ <;> subst ht
      · exact konst (.sint 0) 0 rfl rfl rfl rfl (fun _ _ => rfl) (fun _ => rfl) rfl h.symm
      · exact konst (.bool false) 0 rfl rfl rfl rfl (fun _ _ => rfl) (fun _ => rfl) rfl (by simpa [valueOf] using h.symm)
    | one =>
      simp at h
      rcases ht with ht | ⟨ht, _⟩ <;> subst ht
      · exact konst (.sint 1) 1 rfl rfl rfl rfl (fun _ _ => rfl) (fun _ => rfl) rfl h.symm
      · exact konst (.bool true) 1 rfl rfl rfl rfl (fun _ _ => rfl) (fun _ => rfl) rfl (by simpa [valueOf] using h.symm)
    | mone =>
      simp at h
      rcases ht with ht | ⟨ht, hne⟩
      · subst ht
        exact konst (.sint (-1)) (-1) rfl rfl rfl rfl (fun _ _ => rfl) (fun _ => rfl) rfl h.symm
      · exact absurd rfl hne
    | tt =>
      simp at h
      exact konst (.bool true) (ofBool true) rfl rfl rfl rfl (fun _ _ => rfl) (fun _ => rfl) rfl h.symm
    | ff =>
      simp at h
      exact konst (.bool false) (ofBool false) rfl rfl rfl rfl (fun _ _ => rfl) (fun _ => rfl) rfl h.symm
    | nonZero =>
      simp at h
      obtain ⟨o, ho, h⟩ := h; subst h
      cases t <;> cases fast <;> simp [findOp1] at ho
      all_goals
        subst ho
        exact ⟨by simp [typeOf, ta, Op1.argTy, Op1.retTy, nopTy], by simp [castOK, ga.2.1], by simp [ordered, ga.2.2],
          fun F st => by simp [evalE, sem1, nopSem, not_ofBool], by simp [sideFx], by simp [closed]⟩
    | nonPos =>
      simp at h
      obtain ⟨o, ho, h⟩ := h; subst h
      cases t <;> cases fast <;> simp [findOp1] at ho
      all_goals
        subst ho
        exact ⟨by simp [typeOf, ta, Op1.argTy, Op1.retTy, nopTy], by simp [castOK, ga.2.1], by simp [ordered, ga.2.2],
          fun F st => by simp [evalE, sem1, nopSem, not_ofBool], by simp [sideFx], by simp [closed]⟩
    | nonNeg =>
      simp at h
      obtain ⟨o, ho, h⟩ := h; subst h
      cases t <;> cases fast <;> simp [findOp1] at ho
      all_goals
        subst ho
        exact ⟨by simp [typeOf, ta, Op1.argTy, Op1.retTy, nopTy], by simp [castOK, ga.2.1], by simp [ordered, ga.2.2],
          fun F st => by simp [evalE, sem1, nopSem, not_ofBool], by simp [sideFx], by simp [closed]⟩
    | un p =>
      simp at h
      obtain ⟨o, ho, h⟩ := h; subst h
      cases p <;> cases t <;> cases fast <;> simp [findOp1] at ho
      all_goals
        subst ho
        exact ⟨by simp [typeOf, ta, Op1.argTy, Op1.retTy, nopTy], by simp [castOK, ga.2.1], by simp [ordered, ga.2.2],
          fun F st => by simp [evalE, sem1, nopSem], by simp [sideFx], by simp [closed]⟩

theorem slt_self (v : W) : BitVec.slt v v = false := by simp [BitVec.slt]
theorem sle_self (v : W) : BitVec.sle v v = true := by simp [BitVec.sle]
theorem absNat_one : absNat 1#64 = 1 := by decide
theorem zero_beq (v : W) : (0#64 == v) = (v == 0#64) := Bool.beq_comm
theorem zero_bne (v : W) : (0#64 != v) = !(v == 0#64) := by simp [bne, BEq.comm (a := v)]
theorem bne_zero (v : W) : (v != 0#64) = !(v == 0#64) := by simp [bne]

/-- every column of `peepBValOpInfo` agrees with the meaning of the builtin -/
theorem table_sound {op : Op2} {t : Ty} {p : POp} (hi : info2 op = some (t, p)) :
    t = op.argTy ∧ (t = .sint ∨ t = .bool) ∧
    (leftZero p ≠ .none → (∀ v, sem2 op 0#64 v = nopSem (leftZero p) v) ∧ nopTy (leftZero p) t = op.retTy ∧ leftZero p ≠ .mone) ∧
    (leftOne p ≠ .none → (∀ v, sem2 op 1#64 v = nopSem (leftOne p) v) ∧ nopTy (leftOne p) t = op.retTy ∧ leftOne p ≠ .mone) ∧
    (rightZero p ≠ .none → (∀ v, sem2 op v 0#64 = nopSem (rightZero p) v) ∧ nopTy (rightZero p) t = op.retTy ∧ rightZero p ≠ .mone) ∧
    (rightOne p ≠ .none → (∀ v, sem2 op v 1#64 = nopSem (rightOne p) v) ∧ nopTy (rightOne p) t = op.retTy ∧ rightOne p ≠ .mone) ∧
    (leqr p ≠ .none → (∀ v, sem2 op v v = nopSem (leqr p) v) ∧ nopTy (leqr p) t = op.retTy ∧ leqr p ≠ .mone) := by
  cases op <;> simp [info2] at hi <;> obtain ⟨rfl, rfl⟩ := hi <;>
    simp [leftZero, leftOne, rightZero, rightOne, leqr, sem2, nopSem, nopTy, Op2.retTy, Op2.argTy,
      zero_beq, zero_bne, bne_zero, slt_self, sle_self, absNat_one, BitVec.add_comm 1#64,
      BitVec.sle_eq_not_slt]

theorem isValue_props {t : Ty} {v : W} {e : Expr} (h : isValue t v e = true) :
    closed e = true ∧ ∀ F st, (evalE F e st).1 = v := by
  cases e with
  | bool b => simp [isValue] at h; exact ⟨rfl, fun F st => by simp [evalE, h.2]⟩
  | sint c => simp [isValue] at h; exact ⟨rfl, fun F st => by simp [evalE, h.2]⟩
  | _ => simp [isValue] at h

/-- the result of `peepMakeUnaryOp` on the right operand replaces a node whose left operand is
a constant -/
theorem unary_right_sim {oob : Oob} {fast : Bool} {op : Op2} {nop : NOp} {t : Ty} {c r n : Expr}
    (g : Good (.b2 op c r)) (hc : closed c = true) (ht : t = op.argTy)
    (ht2 : t = .sint ∨ (t = .bool ∧ nop ≠ .mone))
    (hm : makeUnary oob fast nop t r = some n)
    (hty : nopTy nop t = op.retTy)
    (hv : ∀ F st, sem2 op (evalE F c st).1 (evalE F r st).1 = nopSem nop (evalE F r st).1) :
    Sim (.b2 op c r) n := by
  obtain ⟨gc, gr, tc, tr, _⟩ := good_b2 g
  subst ht
  obtain ⟨m1, m2, m3, m4, m5, m6⟩ := makeUnary_core hm gr tr ht2
  refine ⟨?_, ?_, m2, m3, ?_, ?_⟩
  · simp [typeOf, tc, tr, m1, hty]
  · intro F st
    have hp := pure_state F c st (closed_pure c hc)
    simp only [evalE, hp, m4, hv]
  · intro h; simp [sideFx] at h; exact m5 h.2
  · intro h; simp [closed] at h; exact m6 h.2

theorem unary_left_sim {oob : Oob} {fast : Bool} {op : Op2} {nop : NOp} {t : Ty} {l c n : Expr}
    (g : Good (.b2 op l c)) (hc : closed c = true) (ht : t = op.argTy)
    (ht2 : t = .sint ∨ (t = .bool ∧ nop ≠ .mone))
    (hm : makeUnary oob fast nop t l = some n)
    (hty : nopTy nop t = op.retTy)
    (hv : ∀ F st, sem2 op (evalE F l st).1 (evalE F c st).1 = nopSem nop (evalE F l st).1) :
    Sim (.b2 op l c) n := by
  obtain ⟨gl, gc, tl, tc, _⟩ := good_b2 g
  subst ht
  obtain ⟨m1, m2, m3, m4, m5, m6⟩ := makeUnary_core hm gl tl ht2
  refine ⟨?_, ?_, m2, m3, ?_, ?_⟩
  · simp [typeOf, tc, tl, m1, hty]
  · intro F st
    have hp := pure_state F c (evalE F l st).2 (closed_pure c hc)
    simp only [evalE, hp, m4]
    rw [closed_val F c _ st hc, hv]
  · intro h; simp [sideFx] at h; exact m5 h.1
  · intro h; simp [closed] at h; exact m6 h.1

/-- `l = r`, free of side effects -/
theorem unary_same_sim {oob : Oob} {fast : Bool} {op : Op2} {nop : NOp} {t : Ty} {l n : Expr}
    (g : Good (.b2 op l l)) (hp : sideFx l = false) (ht : t = op.argTy)
    (ht2 : t = .sint ∨ (t = .bool ∧ nop ≠ .mone))
    (hm : makeUnary oob fast nop t l = some n)
    (hty : nopTy nop t = op.retTy)
    (hv : ∀ v, sem2 op v v = nopSem nop v) :
    Sim (.b2 op l l) n := by
  obtain ⟨gl, _, tl, _, _⟩ := good_b2 g
  subst ht
  obtain ⟨m1, m2, m3, m4, m5, m6⟩ := makeUnary_core hm gl tl ht2
  refine ⟨?_, ?_, m2, m3, ?_, ?_⟩
  · simp [typeOf, tl, m1, hty]
  · intro F st
    have hs := pure_state F l st hp
    simp only [evalE, hs, m4, hv]
  · intro h; exact m5 hp
  · intro h; simp [closed] at h; exact m6 h

theorem choose_sim {oob : Oob} {fast : Bool} {op : Op2} {t : Ty} {p : POp} {l r n : Expr}
    (g : Good (.b2 op l r)) (hi : info2 op = some (t, p))
    (h : makeUnary oob fast (chooseOp t p l r).1 t (chooseOp t p l r).2 = some n) :
    Sim (.b2 op l r) n := by
  obtain ⟨ht, htt, hlz, hlo, hrz, hro, hlr⟩ := table_sound hi
  have tt2 : ∀ nop, nop ≠ NOp.mone → (t = .sint ∨ (t = .bool ∧ nop ≠ .mone)) := by
    intro nop hn; rcases htt with h | h
    · exact Or.inl h
    · exact Or.inr ⟨h, hn⟩
  unfold chooseOp at h
  split at h
  · rename_i hc
    obtain ⟨h1, h2, h3⟩ := hlz hc.1
    obtain ⟨v1, v2⟩ := isValue_props hc.2
    exact unary_right_sim g v1 ht (tt2 _ h3) h h2 (fun F st => by rw [v2]; exact h1 _)
  · split at h
    · rename_i hc
      obtain ⟨h1, h2, h3⟩ := hlo hc.1
      obtain ⟨v1, v2⟩ := isValue_props hc.2
      exact unary_right_sim g v1 ht (tt2 _ h3) h h2 (fun F st => by rw [v2]; exact h1 _)
    · split at h
      · rename_i hc
        obtain ⟨h1, h2, h3⟩ := hrz hc.1
        obtain ⟨v1, v2⟩ := isValue_props hc.2
        exact unary_left_sim g v1 ht (tt2 _ h3) h h2 (fun F st => by rw [v2]; exact h1 _)
      · split at h
        · rename_i hc
          obtain ⟨h1, h2, h3⟩ := hro hc.1
          obtain ⟨v1, v2⟩ := isValue_props hc.2
          exact unary_left_sim g v1 ht (tt2 _ h3) h h2 (fun F st => by rw [v2]; exact h1 _)
        · split at h
          · rename_i hc
            obtain ⟨hc1, hc2⟩ := hc
            subst hc2
            by_cases hn : leqr p = .none
            · simp [hn, makeUnary, NOp.nullary] at h
            · obtain ⟨h1, h2, h3⟩ := hlr hn
              exact unary_same_sim g (by simpa using hc1) ht (tt2 _ h3) h h2 h1
          · simp [makeUnary, NOp.nullary] at h

theorem binary_sim {oob : Oob} {fast : Bool} {op : Op2} {l r n : Expr}
    (g : Good (.b2 op l r)) (h : binaryBCall oob fast op l r = some n) : Sim (.b2 op l r) n := by
  unfold binaryBCall at h
  split at h
  · simp at h
  · rename_i t p hi
    split at h
    · rename_i m hm
      simp at h; subst h
      cases op <;> simp [info2] at hi <;> obtain ⟨rfl, rfl⟩ := hi <;> simp at hm
      · exact additive_sim (isPlus := true) g hm
      · exact additive_sim (isPlus := false) g hm
    · split at h
      · rename_i m hm
        simp at h; subst h
        cases op <;> simp [info2] at hi <;> obtain ⟨rfl, rfl⟩ := hi <;> simp at hm
        exact times_sim g hm
      · exact choose_sim g hi h

theorem rule_sim {oob : Oob} {fast : Bool} {e r : Expr} (g : Good e)
    (h : rule oob fast e = some r) : Sim e r := by
  cases e with
  | b0 op =>
    cases op <;> simp [rule] at h <;> subst h
    · exact ⟨rfl, fun _ _ => rfl, rfl, rfl, fun _ => rfl, fun _ => rfl⟩
    · exact ⟨rfl, fun _ _ => rfl, rfl, rfl, fun _ => rfl, fun _ => rfl⟩
  | b1 op a =>
    cases op
    case boolNot =>
      simp only [rule] at h
      split at h
      · rename_i m hm; simp at h; subst h; exact negate_sim g hm
      · exact unary_sim g h
    all_goals (simp only [rule] at h; exact unary_sim g h)
  | b2 op l r' =>
    cases op
    case boolAnd =>
      simp only [rule] at h
      split at h
      · rename_i m hm; simp at h; subst h; exact andOr_sim (isAnd := true) g hm
      · exact binary_sim g h
    case boolOr =>
      simp only [rule] at h
      split at h
      · rename_i m hm; simp at h; subst h; exact andOr_sim (isAnd := false) g hm
      · exact binary_sim g h
    all_goals (simp only [rule] at h; exact binary_sim g h)
  | cast t x => simp only [rule] at h; exact cast_sim g h
  | bool b => simp [rule] at h
  | sint v => simp [rule] at h
  | loc i => simp [rule] at h
  | call k t a => simp [rule] at h

/-! ### congruence and the fixpoint loop -/

theorem Sim.call {k : Nat} {t : Ty} {a a' : Expr} (h : Sim a a') :
    Sim (.call k t a) (.call k t a') :=
  ⟨by simp [typeOf, h.ty], fun F st => by simp [evalE, h.ev], by simpa [castOK] using h.cast,
   by simpa [ordered] using h.ord, fun hp => by simp [sideFx] at hp, fun hc => by simp [closed] at hc⟩

theorem Sim.b1 {op : Op1} {a a' : Expr} (h : Sim a a') : Sim (.b1 op a) (.b1 op a') :=
  ⟨by simp [typeOf, h.ty], fun F st => by simp [evalE, h.ev], by simpa [castOK] using h.cast,
   by simpa [ordered] using h.ord, fun hp => by simp [sideFx] at hp ⊢; exact h.pure hp,
   fun hc => by simp [closed] at hc ⊢; exact h.clo hc⟩

theorem Sim.b2 {op : Op2} {a a' b b' : Expr} (ha : Sim a a') (hb : Sim b b')
    (hc : commute a b = true) : Sim (.b2 op a b) (.b2 op a' b') := by
  refine ⟨by simp [typeOf, ha.ty, hb.ty], fun F st => by simp [evalE, ha.ev, hb.ev],
    by simp [castOK, ha.cast, hb.cast], ?_, ?_, ?_⟩
  · simp [ordered, ha.ord, hb.ord]
    simp [commute] at hc ⊢
    rcases hc with (⟨h1, h2⟩ | h1) | h1
    · exact Or.inl (Or.inl ⟨ha.pure h1, hb.pure h2⟩)
    · exact Or.inl (Or.inr (ha.clo h1))
    · exact Or.inr (hb.clo h1)
  · intro hp; simp [sideFx] at hp ⊢; exact ⟨ha.pure hp.1, hb.pure hp.2⟩
  · intro hp; simp [closed] at hp ⊢; exact ⟨ha.clo hp.1, hb.clo hp.2⟩

theorem Sim.castE {t : Ty} {e e' : Expr} (h : Sim e e') (g : Good (.cast t e)) :
    Sim (.cast t e) (.cast t e') := by
  have hc := g.2.1
  simp [castOK] at hc
  refine ⟨by simp [typeOf, h.ty], fun F st => by simp [evalE, h.ev, h.ty], ?_,
    by simpa [ordered] using h.ord, fun hp => by simp [sideFx] at hp ⊢; exact h.pure hp,
    fun hp => by simp [closed] at hp ⊢; exact h.clo hp⟩
  simp [castOK, h.cast, h.ty]
  exact hc.2

theorem peepAux_sim (oob : Oob) (fast : Bool) : ∀ (n : Nat) (e : Expr), Good e →
    Sim e (peepAux oob fast n e) := by
  intro n
  induction n with
  | zero => intro e g; simpa [peepAux] using Sim.refl g
  | succ n ih =>
    intro e g
    have step : ∀ e1, Sim e e1 →
        Sim e (match rule oob fast e1 with
          | some r => peepAux oob fast n r
          | none => e1) := by
      intro e1 h1
      have g1 := h1.good g
      split
      · rename_i r hr
        have h2 := rule_sim g1 hr
        exact h1.trans (h2.trans (ih r (h2.good g1)))
      · exact h1
    cases e with
    | call k t a => simp only [peepAux]; exact step _ (Sim.call (ih a (good_call g)))
    | b1 op a => simp only [peepAux]; exact step _ (Sim.b1 (ih a (good_b1 g).1))
    | b2 op a b =>
      obtain ⟨ga, gb, _, _, hc⟩ := good_b2 g
      simp only [peepAux]; exact step _ (Sim.b2 (ih a ga) (ih b gb) hc)
    | cast t x => simp only [peepAux]; exact step _ (Sim.castE (ih x (good_cast g).1) g)
    | bool b => simp only [peepAux]; exact step _ (Sim.refl g)
    | sint v => simp only [peepAux]; exact step _ (Sim.refl g)
    | loc i => simp only [peepAux]; exact step _ (Sim.refl g)
    | b0 op => simp only [peepAux]; exact step _ (Sim.refl g)

end AldorVerif.Peep
