import AldorVerif.Lemmas.StoreOps

/-! # `stoGcSweep` preserves the invariant and keeps exactly the marked blocks -/
namespace AldorVerif.Store

/-- the part of the invariant that does not mention the fixed free lists -/
structure InvM (s : State) : Prop where
  sorted : Sorted s.sects
  geo : ∀ sc ∈ s.sects, sc.Geo
  tree_wf : TreeWF s.tree
  tree_iff : ∀ a k, inTree s.tree a k ↔ (⟨a, k, .free, none⟩ : VP) ∈ s.view
  front_iff : ∀ a, s.frontier = some a ↔ ∃ n c, (⟨a, n, .front, c⟩ : VP) ∈ s.view

theorem Inv.toM {s : State} (h : Inv s) : InvM s :=
  ⟨h.sorted, h.geo, h.tree_wf, h.tree_iff, fun a => by rw [h.front_iff a]; simp⟩

/-- free lists read off the view -/
def canonFl (V : List VP) : List (List Nat) :=
  (List.range fixedSizes.length).map
    (fun i => (V.filter (fun v => decide (v.st = .free ∧ v.cls = some i))).map (·.addr))

theorem canonFl_getD (V : List VP) (i : Nat) :
    (canonFl V).getD i [] =
      if i < fixedSizes.length then (V.filter (fun v => decide (v.st = .free ∧ v.cls = some i))).map (·.addr) else [] := by
  unfold canonFl
  rw [List.getD_eq_getElem?_getD, List.getElem?_map]
  by_cases hi : i < fixedSizes.length
  · rw [List.getElem?_range hi]; simp [hi]
  · rw [List.getElem?_eq_none (by simpa using hi)]; simp [hi]

theorem InvM.withFl {s : State} (h : InvM s) : Inv { s with fl := canonFl s.view } := by
  have hsorted : s.view.Pairwise (fun v w => v.addr + v.n ≤ w.addr) := view_sorted h.sorted h.geo
  have hpos : ∀ v ∈ s.view, 0 < v.n := by
    intro v hv
    obtain ⟨sc, hsc, hv⟩ := mem_viewSects.1 hv
    exact ((h.geo sc hsc).mem_view hv).2.2.1
  refine ⟨h.sorted, h.geo, by simp [canonFl], ?_, ?_, h.tree_wf, h.tree_iff, fun a => by rw [h.front_iff a]; simp; rfl⟩
  · intro i
    show ((canonFl s.view).getD i []).Nodup
    rw [canonFl_getD]
    split
    · unfold List.Nodup
      rw [List.pairwise_map]
      apply List.Pairwise.filter
      have : s.view.Pairwise (fun v w => v ∈ s.view ∧ v.addr + v.n ≤ w.addr) := by
        rw [List.pairwise_iff_forall_sublist] at hsorted ⊢
        intro a b hab
        exact ⟨hab.subset (by simp), hsorted hab⟩
      refine this.imp ?_
      intro v w ⟨hv, hle⟩
      have := hpos v hv
      omega
    · simp
  · intro i a
    show a ∈ (canonFl s.view).getD i [] ↔ ∃ n, _ ∈ s.view
    rw [canonFl_getD]
    split
    · simp only [List.mem_map, List.mem_filter, decide_eq_true_eq]
      constructor
      · rintro ⟨v, ⟨hv, hst, hc⟩, rfl⟩
        refine ⟨v.n, ?_⟩
        have : v = ⟨v.addr, v.n, .free, some i⟩ := by cases v; simp_all
        rw [← this]; exact hv
      · rintro ⟨n, hn⟩
        exact ⟨_, ⟨hn, rfl, rfl⟩, rfl⟩
    · next hi =>
      simp only [List.not_mem_nil, false_iff]
      rintro ⟨n, hn⟩
      obtain ⟨sc, hsc, hv⟩ := mem_viewSects.1 hn
      have := ((h.geo sc hsc).mem_view hv).2.2.2
      simp only at this
      exact hi ((h.geo sc hsc).fixed_ok i this.symm).1

theorem putMixed_fl (s : State) (F : List (List Nat)) (a : Nat) :
    putMixed { s with fl := F } a = (putMixed s a).map (fun s' => { s' with fl := F }) := by
  unfold putMixed
  have : State.pieceAt { s with fl := F } a = s.pieceAt a := rfl
  rw [this]
  cases s.pieceAt a with
  | none => rfl
  | some p =>
    obtain ⟨sc, x⟩ := p
    simp only [Option.map_some]
    cases freeOnly (pcsNext a sc.data sc.pieces) <;> cases freeOnly (pcsPrev a sc.data sc.pieces) <;> rfl

/-- `piecePutMixed` under the relaxed invariant -/
theorem invM_putMixed {s s' : State} {a n c : Nat} (h : InvM s)
    (hv : (⟨a, n, .busy c, none⟩ : VP) ∈ s.view) (hr : putMixed s a = some s') :
    InvM s' ∧ (∀ v, v.busy → (v ∈ s'.view ↔ v ∈ s.view ∧ v.addr ≠ a)) ∧
      (∃ S1 S2 sc l, sc.cls = none ∧ sc.has a = true ∧ s.sects = S1 ++ sc :: S2 ∧ s'.sects = S1 ++ { sc with pieces := l } :: S2) := by
  have hF := h.withFl
  have hr' : putMixed { s with fl := canonFl s.view } a = some { s' with fl := canonFl s.view } := by
    rw [putMixed_fl, hr]; rfl
  have hv' : (⟨a, n, .busy c, none⟩ : VP) ∈ State.view { s with fl := canonFl s.view } := hv
  obtain ⟨sc, x, hf, hx, hxn, hxst, hcls, _⟩ := hF.lookup hv'
  simp only at hf hx hxn hxst hcls
  obtain ⟨h1, hb1, S1, S2, l, hS, hS'⟩ := inv_putMixed (hF.toD hv') hf hx hcls (by rw [hxst]; simp) hr'
  refine ⟨⟨h1.sorted, h1.geo, h1.tree_wf, h1.tree_iff, fun a' => ?_⟩, hb1, S1, S2, sc, l, hcls, (findSect_some hf).choose_spec.choose_spec.2, hS, hS'⟩
  have := h1.front_iff a'
  simp only [ne_eq, reduceCtorEq, not_false_eq_true, and_true] at this
  exact this


/-- what `stoGcSweepFixed` does to a tag -/
def retag (surv : List Nat) (v : VP) : VP :=
  match v.st with
  | .busy _ => if surv.contains v.addr then v else { v with st := .free }
  | _ => v

theorem viewPcs_sweepTags (surv : List Nat) (c : Option Nat) : ∀ (l : List Piece) (cur : Nat),
    viewPcs c cur (sweepTags surv cur l) = (viewPcs c cur l).map (retag surv) := by
  intro l
  induction l with
  | nil => intro cur; simp [sweepTags]
  | cons p r ih =>
    intro cur
    cases p with
    | mk n st =>
      cases st with
      | free => simp [sweepTags, retag, ih]
      | front => simp [sweepTags, retag, ih]
      | busy k =>
        by_cases hs : cur ∈ surv
        · simp [sweepTags, retag, ih, hs]
        · simp [sweepTags, retag, ih, hs]

theorem sweepTags_map_n (surv : List Nat) : ∀ (l : List Piece) (cur : Nat),
    (sweepTags surv cur l).map (·.n) = l.map (·.n) := by
  intro l
  induction l with
  | nil => intro cur; simp [sweepTags]
  | cons p r ih =>
    intro cur
    cases p with
    | mk n st =>
      cases st <;> simp [sweepTags, ih]
      split <;> rfl

theorem mem_sweepTags {surv : List Nat} {q : Piece} : ∀ {l : List Piece} {cur : Nat},
    q ∈ sweepTags surv cur l → ∃ p ∈ l, q.n = p.n ∧ (q.st = p.st ∨ q.st = .free) := by
  intro l
  induction l with
  | nil => intro cur h; simp [sweepTags] at h
  | cons p r ih =>
    intro cur h
    simp only [sweepTags, List.mem_cons] at h
    rcases h with rfl | h
    · refine ⟨p, by simp, ?_⟩
      cases p with
      | mk n st =>
        cases st <;> simp
        split <;> simp
    · obtain ⟨p', hp', h'⟩ := ih h
      exact ⟨p', by simp [hp'], h'⟩

theorem mem_freeAddrs {c : Option Nat} {a : Nat} : ∀ {l : List Piece} {cur : Nat},
    a ∈ freeAddrs cur l ↔ ∃ n, (⟨a, n, .free, c⟩ : VP) ∈ viewPcs c cur l := by
  intro l
  induction l with
  | nil => intro cur; simp [freeAddrs]
  | cons p r ih =>
    intro cur
    cases p with
    | mk n st =>
      cases st <;> simp [freeAddrs, ih]
      constructor
      · rintro (rfl | ⟨m, hm⟩)
        · exact ⟨n, Or.inl ⟨rfl, rfl⟩⟩
        · exact ⟨m, Or.inr hm⟩
      · rintro ⟨m, ⟨rfl, rfl⟩ | hm⟩
        · exact Or.inl rfl
        · exact Or.inr ⟨m, hm⟩

theorem nodup_freeAddrs : ∀ {l : List Piece} {cur : Nat}, AllPos l → (freeAddrs cur l).Nodup := by
  intro l
  induction l with
  | nil => intro cur _; simp [freeAddrs]
  | cons p r ih =>
    intro cur hp
    have ⟨hp0, hpr⟩ := hp.cons
    cases p with
    | mk n st =>
      cases st <;> simp only [freeAddrs]
      · rw [List.nodup_cons]
        refine ⟨fun hm => ?_, ih hpr⟩
        obtain ⟨m, hm⟩ := (mem_freeAddrs (c := none)).1 hm
        have := (mem_viewPcs hm).1
        simp at this hp0; omega
      · exact ih hpr
      · exact ih hpr

theorem mem_busyPtrs {c : Option Nat} {hdr p : Nat} : ∀ {l : List Piece} {cur : Nat},
    p ∈ busyPtrs hdr cur l ↔ ∃ a n k, (⟨a, n, .busy k, c⟩ : VP) ∈ viewPcs c cur l ∧ a + hdr = p := by
  intro l
  induction l with
  | nil => intro cur; simp [busyPtrs]
  | cons q r ih =>
    intro cur
    have hrec : ∀ (st : PSt), (∀ k, st ≠ .busy k) →
        ((∃ a n k, (⟨a, n, .busy k, c⟩ : VP) ∈ viewPcs c cur (⟨q.n, st⟩ :: r) ∧ a + hdr = p) ↔
         (∃ a n k, (⟨a, n, .busy k, c⟩ : VP) ∈ viewPcs c (cur + q.n) r ∧ a + hdr = p)) := by
      intro st hst
      constructor
      · rintro ⟨a, n, k, hm, e⟩
        simp only [viewPcs_cons, List.mem_cons] at hm
        rcases hm with hm | hm
        · simp at hm; exact absurd hm.2.2.symm (hst k)
        · exact ⟨a, n, k, hm, e⟩
      · rintro ⟨a, n, k, hm, e⟩
        exact ⟨a, n, k, by simp [hm], e⟩
    cases q with
    | mk n st =>
      cases st with
      | free => simp only [busyPtrs]; rw [ih, hrec .free (by simp)]
      | front => simp only [busyPtrs]; rw [ih, hrec .front (by simp)]
      | busy k0 =>
        simp only [busyPtrs, List.mem_cons, ih]
        constructor
        · rintro (rfl | ⟨a, m, k, hm, e⟩)
          · exact ⟨cur, n, k0, by simp, rfl⟩
          · exact ⟨a, m, k, by simp [hm], e⟩
        · rintro ⟨a, m, k, hm, e⟩
          simp only [viewPcs_cons, List.mem_cons] at hm
          rcases hm with hm | hm
          · simp at hm; left; omega
          · exact Or.inr ⟨a, m, k, hm, e⟩

theorem any_isBusy_iff {c : Option Nat} {l : List Piece} {cur : Nat} :
    l.any isBusy = true ↔ ∃ v ∈ viewPcs c cur l, v.busy := by
  induction l generalizing cur with
  | nil => simp
  | cons p r ih =>
    simp only [List.any_cons, Bool.or_eq_true, viewPcs_cons, List.mem_cons, ih (cur := cur + p.n)]
    constructor
    · rintro (h | ⟨v, hv, hb⟩)
      · refine ⟨_, Or.inl rfl, ?_⟩
        unfold isBusy at h
        split at h
        · next k hk => exact ⟨k, hk⟩
        · simp at h
      · exact ⟨v, Or.inr hv, hb⟩
    · rintro ⟨v, rfl | hv, hb⟩
      · left
        obtain ⟨k, hk⟩ := hb
        simp only at hk
        simp [isBusy, hk]
      · exact Or.inr ⟨v, hv, hb⟩

theorem Sect.base_lt_lim {sc : Sect} (h : 0 < sc.pages) : sc.base < sc.lim := by
  unfold Sect.lim pgSize; omega

theorem Sorted.base_inj {l : List Sect} (hs : Sorted l) (hp : ∀ sc ∈ l, 0 < sc.pages) {u v : Sect}
    (hu : u ∈ l) (hv : v ∈ l) (hb : u.base = v.base) : u = v := by
  apply Classical.byContradiction
  intro hne
  rcases List.mem_iff_getElem.1 hu with ⟨i, hi, rfl⟩
  rcases List.mem_iff_getElem.1 hv with ⟨j, hj, rfl⟩
  have hij : i ≠ j := fun e => hne (by subst e; rfl)
  have h1 := Sect.base_lt_lim (hp _ (List.getElem_mem hi))
  have h2 := Sect.base_lt_lim (hp _ (List.getElem_mem hj))
  rcases Nat.lt_or_gt_of_ne hij with hlt | hlt
  · have := (List.pairwise_iff_getElem.1 hs) i j hi hj hlt; omega
  · have := (List.pairwise_iff_getElem.1 hs) j i hj hi hlt; omega

theorem Sorted.has_unique {l : List Sect} (hs : Sorted l) {u v : Sect} {a : Nat}
    (hu : u ∈ l) (hv : v ∈ l) (hua : u.has a = true) (hva : v.has a = true) : u = v := by
  apply Classical.byContradiction
  intro hne
  rcases List.mem_iff_getElem.1 hu with ⟨i, hi, rfl⟩
  rcases List.mem_iff_getElem.1 hv with ⟨j, hj, rfl⟩
  have hij : i ≠ j := fun e => hne (by subst e; rfl)
  rw [Sect.has_iff] at hua hva
  rcases Nat.lt_or_gt_of_ne hij with hlt | hlt
  · have := (List.pairwise_iff_getElem.1 hs) i j hi hj hlt; omega
  · have := (List.pairwise_iff_getElem.1 hs) j i hj hi hlt; omega

theorem Sorted.map_same {l : List Sect} (hs : Sorted l) (g : Sect → Sect)
    (hg : ∀ u, (g u).base = u.base ∧ (g u).lim = u.lim) : Sorted (l.map g) := by
  unfold Sorted at hs ⊢
  rw [List.pairwise_map]
  refine hs.imp ?_
  intro a b hab
  rw [(hg a).2, (hg b).1]; exact hab

theorem State.mem_view {s : State} {v : VP} : v ∈ s.view ↔ ∃ u ∈ s.sects, v ∈ u.view := mem_viewSects

/-- a view entry belongs to exactly one section -/
theorem InvM.sect_unique {s : State} (h : InvM s) {u w : Sect} {v : VP} (hu : u ∈ s.sects) (hw : w ∈ s.sects)
    (hvu : v ∈ u.view) (hvw : v ∈ w.view) : u = w := by
  have h1 := (h.geo u hu).mem_view hvu
  have h2 := (h.geo w hw).mem_view hvw
  have b1 := u.base_le_data
  have b2 := w.base_le_data
  exact h.sorted.has_unique hu hw (a := v.addr) (by rw [Sect.has_iff]; omega) (by rw [Sect.has_iff]; omega)

theorem InvM.tag {s : State} (h : InvM s) (t : String) : InvM (s.tag t) :=
  ⟨h.sorted, h.geo, h.tree_wf, h.tree_iff, h.front_iff⟩

/-- membership in a section list in which one section got new pieces -/
theorem shape_mem {S1 S2 : List Sect} {sc : Sect} {l : List Piece} (hs : Sorted (S1 ++ sc :: S2))
    (hp : ∀ u ∈ S1 ++ sc :: S2, 0 < u.pages) (u : Sect) :
    u ∈ S1 ++ { sc with pieces := l } :: S2 ↔ (u ∈ S1 ++ sc :: S2 ∧ u.base ≠ sc.base) ∨ u = { sc with pieces := l } := by
  unfold Sorted at hs
  rw [List.pairwise_append, List.pairwise_cons] at hs
  obtain ⟨_, ⟨h2, _⟩, h3⟩ := hs
  have hscp := Sect.base_lt_lim (hp sc (by simp))
  simp only [List.mem_append, List.mem_cons]
  constructor
  · rintro (h | rfl | h)
    · have := h3 u h sc (by simp)
      have := Sect.base_lt_lim (hp u (by simp [h]))
      exact Or.inl ⟨Or.inl h, by omega⟩
    · exact Or.inr rfl
    · have := h2 u h
      exact Or.inl ⟨Or.inr (Or.inr h), by omega⟩
  · rintro (⟨h | rfl | h, hne⟩ | rfl)
    · exact Or.inl h
    · exact absurd rfl hne
    · exact Or.inr (Or.inr h)
    · exact Or.inr (Or.inl rfl)

theorem foldl_bind_none {α β : Type} (f : β → α → Option β) (l : List α) :
    l.foldl (fun (o : Option β) a => o.bind (fun b => f b a)) none = none := by
  induction l with
  | nil => rfl
  | cons a r ih => simpa using ih

/-- the unmarked busy pieces of one mixed section are freed one after the other -/
theorem invM_victims (B L : Nat) : ∀ (vs : List Nat) (s s1 : State), InvM s →
    (∃ scB ∈ s.sects, scB.base = B ∧ scB.lim = L ∧ scB.cls = none) →
    (∀ p ∈ vs, mxHead ≤ p ∧ B ≤ p - mxHead ∧ p - mxHead < L ∧
      ∃ n k, (⟨p - mxHead, n, .busy k, none⟩ : VP) ∈ s.view) →
    vs.Nodup →
    vs.foldl (fun (o : Option State) p => o.bind (fun s => putMixed (s.tag "sw-mx-free") (p - mxHead))) (some s) = some s1 →
    InvM s1 ∧ (∀ v, v.busy → (v ∈ s1.view ↔ v ∈ s.view ∧ ∀ p ∈ vs, v.addr ≠ p - mxHead)) ∧
      (∀ u, u.base ≠ B → (u ∈ s1.sects ↔ u ∈ s.sects)) ∧
      (∃ scB ∈ s1.sects, scB.base = B ∧ scB.lim = L ∧ scB.cls = none) ∧
      s1.frontier = s.frontier := by
  intro vs
  induction vs with
  | nil =>
    intro s s1 h hB _ _ hr
    simp at hr; subst hr
    exact ⟨h, fun v _ => by simp, fun _ _ => Iff.rfl, hB, rfl⟩
  | cons p vs ih =>
    intro s s1 h hB hvs hnd hr
    rw [List.foldl_cons] at hr
    simp only [Option.bind_some] at hr
    cases hp : putMixed (s.tag "sw-mx-free") (p - mxHead) with
    | none => rw [hp, foldl_bind_none] at hr; simp at hr
    | some s2 =>
      rw [hp] at hr
      obtain ⟨hp32, hpB, hpL, n, k, hv⟩ := hvs p (by simp)
      obtain ⟨scB, hscB, hb, hl, hc⟩ := hB
      obtain ⟨h2, hb2, S1, S2, sc, l, hcls, hhas, hS, hS'⟩ := invM_putMixed (h.tag _) (by simpa using hv) hp
      simp only [sects_tag] at hS
      have hscm : sc ∈ s.sects := by rw [hS]; simp
      have hsceq : sc = scB := h.sorted.has_unique hscm hscB hhas (by rw [Sect.has_iff]; omega)
      subst hsceq
      have hmem2 : ∀ u, u ∈ s2.sects ↔ (u ∈ s.sects ∧ u.base ≠ sc.base) ∨ u = { sc with pieces := l } := by
        intro u; rw [hS', hS]
        exact shape_mem (by rw [← hS]; exact h.sorted) (fun u hu => (h.geo u (by rw [hS]; exact hu)).pages_pos) u
      rw [List.nodup_cons] at hnd
      have hfr2 := putMixed_frontier hp
      simp only [frontier_tag] at hfr2
      obtain ⟨h3, hb3, hu3, hB3, hfr3⟩ := ih s2 s1 h2
        ⟨{ sc with pieces := l }, (hmem2 _).2 (Or.inr rfl), hb, hl, hc⟩
        (by
          intro p' hp'
          obtain ⟨h1', h2', h3', n', k', hv'⟩ := hvs p' (by simp [hp'])
          refine ⟨h1', h2', h3', n', k', ?_⟩
          rw [hb2 _ ⟨k', rfl⟩]
          refine ⟨by simpa using hv', ?_⟩
          simp only
          have : p' ≠ p := fun e => hnd.1 (e ▸ hp')
          omega)
        hnd.2 hr
      refine ⟨h3, fun v hvb => ?_, fun u hu => ?_, hB3, by rw [hfr3, hfr2]⟩
      · rw [hb3 v hvb, hb2 v hvb]
        simp only [view_tag, List.mem_cons, forall_eq_or_imp]
        constructor
        · rintro ⟨⟨h1, h2'⟩, h3'⟩; exact ⟨h1, h2', h3'⟩
        · rintro ⟨h1, h2', h3'⟩; exact ⟨⟨h1, h2'⟩, h3'⟩
      · rw [hu3 u hu, hmem2 u]
        constructor
        · rintro (⟨h1, _⟩ | rfl)
          · exact h1
          · exact absurd hb hu
        · intro h1; exact Or.inl ⟨h1, by rw [hb]; exact hu⟩

/-- invariant of the sweep loop: `todo` are the sections not yet visited -/
structure SweepInv (s0 : State) (surv : List Nat) (todo : List Sect) (s : State) (acc : List (List Nat)) : Prop where
  invm : InvM s
  todo_mem : ∀ u ∈ todo, u ∈ s.sects
  todo_sorted : Sorted todo
  done_below : ∀ u ∈ s.sects, u ∉ todo → ∀ t ∈ todo, u.lim ≤ t.base
  acc_len : acc.length = fixedSizes.length
  acc_nodup : ∀ i, (acc.getD i []).Nodup
  acc_iff : ∀ i a, a ∈ acc.getD i [] ↔ (∃ n, (⟨a, n, .free, some i⟩ : VP) ∈ s.view) ∧ ∀ t ∈ todo, a < t.base
  busy_iff : ∀ v, v.busy → (v ∈ s.view ↔ v ∈ s0.view ∧ (v.ptr ∈ surv ∨ ∃ t ∈ todo, v ∈ t.view))

/-- facts about the head of the to-do list -/
theorem SweepInv.head_facts {s0 s : State} {surv : List Nat} {sc0 : Sect} {rest : List Sect} {acc : List (List Nat)}
    (hI : SweepInv s0 surv (sc0 :: rest) s acc) :
    sc0 ∈ s.sects ∧ sc0.Geo ∧ (∀ u ∈ s.sects, u.base = sc0.base → u = sc0) ∧
    (∀ t ∈ rest, sc0.lim ≤ t.base ∧ t.base ≠ sc0.base ∧ t ≠ sc0) ∧ sc0.base < sc0.lim ∧
    (∀ u ∈ s.sects, u ≠ sc0 → u ∉ rest → u.lim ≤ sc0.base) := by
  have h0 := hI.todo_mem sc0 (by simp)
  have g0 := hI.invm.geo sc0 h0
  have hlt := Sect.base_lt_lim g0.pages_pos
  have hs := hI.todo_sorted
  unfold Sorted at hs
  rw [List.pairwise_cons] at hs
  refine ⟨h0, g0, ?_, ?_, hlt, ?_⟩
  · intro u hu hb
    exact hI.invm.sorted.base_inj (fun sc hsc => (hI.invm.geo sc hsc).pages_pos) hu h0 hb
  · intro t ht
    have := hs.1 t ht
    refine ⟨this, by omega, fun e => ?_⟩
    subst e; omega
  · intro u hu hne hnr
    exact hI.done_below u hu (by simp [hne, hnr]) sc0 (by simp)

theorem view_retag {surv : List Nat} {sc : Sect} :
    ({ sc with pieces := sweepTags surv sc.data sc.pieces } : Sect).view = sc.view.map (retag surv) := by
  unfold Sect.view
  exact viewPcs_sweepTags surv sc.cls sc.pieces sc.data

theorem retag_cases (surv : List Nat) (v : VP) :
    (retag surv v = v ∧ (v.busy → v.addr ∈ surv)) ∨
    (retag surv v = { v with st := .free } ∧ v.busy ∧ v.addr ∉ surv) := by
  unfold retag
  cases hst : v.st with
  | free => left; exact ⟨rfl, fun ⟨c, hc⟩ => by rw [hst] at hc; simp at hc⟩
  | front => left; exact ⟨rfl, fun ⟨c, hc⟩ => by rw [hst] at hc; simp at hc⟩
  | busy k =>
    simp only
    by_cases hs : v.addr ∈ surv
    · left; simp [hs]
    · right; simp [hs]; exact ⟨k, hst⟩

theorem geo_retag {surv : List Nat} {sc : Sect} {i : Nat} (g : sc.Geo) (hc : sc.cls = some i) :
    ({ sc with pieces := sweepTags surv sc.data sc.pieces } : Sect).Geo := by
  have hsz : sizes (sweepTags surv sc.data sc.pieces) = sizes sc.pieces := by
    unfold sizes; rw [sweepTags_map_n]
  constructor
  · exact g.aligned
  · exact g.pages_pos
  · show sizes _ = sc.qmCount * sc.qm
    rw [hsz]; exact g.total
  · intro q hq
    obtain ⟨p, hp, hn, _⟩ := mem_sweepTags hq
    rw [hn]; exact g.pos p hp
  · intro q hq
    obtain ⟨p, hp, hn, _⟩ := mem_sweepTags hq
    show sc.qm ∣ q.n
    rw [hn]; exact g.quant p hp
  · intro j hj
    refine ⟨(g.fixed_ok j hj).1, fun q hq => ?_⟩
    obtain ⟨p, hp, hn, hst⟩ := mem_sweepTags hq
    have := (g.fixed_ok j hj).2 p hp
    refine ⟨by rw [hn]; exact this.1, ?_⟩
    rcases hst with h | h
    · rw [h]; exact this.2
    · rw [h]; simp
  · intro hn
    have : sc.cls = none := hn
    rw [hc] at this; cases this


theorem mem_surv {surv : List Nat} {a : Nat} : surv.contains a = true ↔ a ∈ surv := by simp

/-- one fixed section of the sweep -/
theorem sweep_step_fixed {s0 s s' : State} {surv : List Nat} {sc0 : Sect} {rest : List Sect}
    {acc acc' : List (List Nat)} {i : Nat}
    (hI : SweepInv s0 surv (sc0 :: rest) s acc) (hc : sc0.cls = some i)
    (hr : sweepSect surv (some (s, acc)) sc0 = some (s', acc')) :
    SweepInv s0 surv rest s' acc' := by
  obtain ⟨h0, g0, hbu, hrest, hlt, hdone⟩ := hI.head_facts
  have hM := hI.invm
  have g0' := geo_retag (surv := surv) g0 hc
  have hv0' := view_retag (surv := surv) (sc := sc0)
  generalize hsc' : ({ sc0 with pieces := sweepTags surv sc0.data sc0.pieces } : Sect) = sc0' at g0' hv0'
  have hb' : sc0'.base = sc0.base := by subst hsc'; rfl
  have hl' : sc0'.lim = sc0.lim := by subst hsc'; rfl
  have hc' : sc0'.cls = some i := by subst hsc'; exact hc
  have hilt : i < fixedSizes.length := (g0.fixed_ok i hc).1
  -- entries of the section and of its swept version
  have hin0 : ∀ v ∈ sc0.view, sc0.base ≤ v.addr ∧ v.addr < sc0.lim ∧ v.cls = some i ∧ v.hdr = 0 := by
    intro v hv
    have := g0.mem_view hv
    have hb := sc0.base_le_data
    refine ⟨by omega, by omega, by rw [this.2.2.2, hc], ?_⟩
    unfold VP.hdr; rw [this.2.2.2, hc]
  have hin0' : ∀ v ∈ sc0'.view, sc0.base ≤ v.addr ∧ v.addr < sc0.lim ∧ v.cls = some i := by
    intro v hv
    have := g0'.mem_view hv
    have hb := sc0'.base_le_data
    refine ⟨by omega, by omega, by rw [this.2.2.2, hc']⟩
  have hother : ∀ u ∈ s.sects, u.base ≠ sc0.base → ∀ v ∈ u.view, v.addr < sc0.base ∨ sc0.lim ≤ v.addr := by
    intro u hu hne v hv
    have gu := hM.geo u hu
    have := gu.mem_view hv
    have hbu' := u.base_le_data
    have hsu := hM.sorted
    apply Classical.byContradiction
    intro hcon
    have : u = sc0 := hsu.has_unique hu h0 (a := v.addr) (by rw [Sect.has_iff]; omega) (by rw [Sect.has_iff]; omega)
    exact hne (by rw [this])
  have hbusy0' : ∀ v, v.busy → (v ∈ sc0'.view ↔ v ∈ sc0.view ∧ v.addr ∈ surv) := by
    intro v hvb
    rw [hv0', List.mem_map]
    constructor
    · rintro ⟨w, hw, rfl⟩
      rcases retag_cases surv w with ⟨e, hs⟩ | ⟨e, _, _⟩
      · rw [e] at hvb ⊢; exact ⟨hw, hs hvb⟩
      · rw [e] at hvb; obtain ⟨c, hc⟩ := hvb; simp at hc
    · rintro ⟨hw, hs⟩
      refine ⟨v, hw, ?_⟩
      rcases retag_cases surv v with ⟨e, _⟩ | ⟨_, _, hns⟩
      · exact e
      · exact absurd hs hns
  have hfree0' : ∀ a n, (⟨a, n, .free, some i⟩ : VP) ∈ sc0'.view →
      sc0.base ≤ a ∧ a < sc0.lim := fun a n hv => ⟨(hin0' _ hv).1, (hin0' _ hv).2.1⟩
  have hfront0' : ∀ a n c, (⟨a, n, .front, c⟩ : VP) ∉ sc0'.view := by
    intro a n c hv
    obtain ⟨b, x, t, hP, _, _, hst, hcl⟩ := mem_viewPcs_split hv
    have := ((g0'.fixed_ok i hc').2 x (by rw [hP]; simp)).2
    exact this hst
  have hfront0 : ∀ a n c, (⟨a, n, .front, c⟩ : VP) ∉ sc0.view := by
    intro a n c hv
    obtain ⟨b, x, t, hP, _, _, hst, hcl⟩ := mem_viewPcs_split hv
    have := ((g0.fixed_ok i hc).2 x (by rw [hP]; simp)).2
    exact this hst
  unfold sweepSect at hr
  simp only [hc] at hr
  split at hr
  · -- the section is kept
    next hany =>
    simp only [Option.some.injEq, Prod.mk.injEq] at hr
    obtain ⟨rfl, rfl⟩ := hr
    have hmemS : ∀ u, u ∈ s.sects.map (fun (sc : Sect) => if sc.base = sc0.base then { sc with pieces := sweepTags surv sc0.data sc0.pieces } else sc) ↔
        (u ∈ s.sects ∧ u.base ≠ sc0.base) ∨ u = sc0' := by
      intro u
      rw [List.mem_map]
      constructor
      · rintro ⟨w, hw, rfl⟩
        by_cases hwb : w.base = sc0.base
        · right; rw [if_pos hwb, hbu w hw hwb, hsc']
        · left; rw [if_neg hwb]; exact ⟨hw, hwb⟩
      · rintro (⟨hu, hne⟩ | rfl)
        · exact ⟨u, hu, by rw [if_neg hne]⟩
        · exact ⟨sc0, h0, by rw [if_pos rfl, hsc']⟩
    generalize hS' : s.sects.map (fun (sc : Sect) => if sc.base = sc0.base then { sc with pieces := sweepTags surv sc0.data sc0.pieces } else sc) = S' at hmemS
    have hview : ∀ v, v ∈ viewSects S' ↔ (∃ u ∈ s.sects, u.base ≠ sc0.base ∧ v ∈ u.view) ∨ v ∈ sc0'.view := by
      intro v
      rw [mem_viewSects]
      constructor
      · rintro ⟨u, hu, hv⟩
        rcases (hmemS u).1 hu with ⟨h1, h2⟩ | rfl
        · exact Or.inl ⟨u, h1, h2, hv⟩
        · exact Or.inr hv
      · rintro (⟨u, h1, h2, hv⟩ | hv)
        · exact ⟨u, (hmemS u).2 (Or.inl ⟨h1, h2⟩), hv⟩
        · exact ⟨sc0', (hmemS _).2 (Or.inr rfl), hv⟩
    have hsview : ∀ v, v ∈ s.view ↔ (∃ u ∈ s.sects, u.base ≠ sc0.base ∧ v ∈ u.view) ∨ v ∈ sc0.view := by
      intro v
      rw [State.mem_view]
      constructor
      · rintro ⟨u, hu, hv⟩
        by_cases hub : u.base = sc0.base
        · right; rw [← hbu u hu hub]; exact hv
        · exact Or.inl ⟨u, hu, hub, hv⟩
      · rintro (⟨u, h1, _, hv⟩ | hv)
        · exact ⟨u, h1, hv⟩
        · exact ⟨sc0, h0, hv⟩
    have hSorted' : Sorted S' := by
      rw [← hS']
      apply hM.sorted.map_same
      intro u; split <;> exact ⟨rfl, rfl⟩
    constructor
    · -- InvM
      refine ⟨hSorted', ?_, hM.tree_wf, ?_, ?_⟩
      · intro u hu
        rcases (hmemS u).1 hu with ⟨h1, _⟩ | rfl
        · exact hM.geo u h1
        · exact g0'
      · intro a k
        show inTree s.tree a k ↔ _ ∈ viewSects S'
        rw [hM.tree_iff, hview, hsview]
        constructor
        · rintro (h1 | h1)
          · exact Or.inl h1
          · have := (hin0 _ h1).2.2.1; simp at this
        · rintro (h1 | h1)
          · exact Or.inl h1
          · have := (hin0' _ h1).2.2; simp at this
      · intro a
        show s.frontier = some a ↔ ∃ n c, _ ∈ viewSects S'
        rw [hM.front_iff]
        simp only [hview, hsview]
        constructor
        · rintro ⟨n, c, h1 | h1⟩
          · exact ⟨n, c, Or.inl h1⟩
          · exact absurd h1 (hfront0 a n c)
        · rintro ⟨n, c, h1 | h1⟩
          · exact ⟨n, c, Or.inl h1⟩
          · exact absurd h1 (hfront0' a n c)
    · intro u hu
      have := hrest u hu
      exact (hmemS u).2 (Or.inl ⟨hI.todo_mem u (by simp [hu]), this.2.1⟩)
    · have := hI.todo_sorted; unfold Sorted at this ⊢; exact (List.pairwise_cons.1 this).2
    · intro u hu hnr t ht
      rcases (hmemS u).1 hu with ⟨h1, h2⟩ | rfl
      · have hne : u ≠ sc0 := fun e => h2 (by rw [e])
        exact hI.done_below u h1 (by simp [hne, hnr]) t (by simp [ht])
      · rw [hl']; exact (hrest t ht).1
    · show (acc.set i _).length = _
      simp [hI.acc_len]
    · intro j
      show ((acc.set i (acc.getD i [] ++ freeAddrs sc0.data (sweepTags surv sc0.data sc0.pieces))).getD j []).Nodup
      rw [getD_set]
      split
      · rw [List.nodup_append]
        refine ⟨hI.acc_nodup i, nodup_freeAddrs ?_, ?_⟩
        · intro q hq
          obtain ⟨p, hp, hn, _⟩ := mem_sweepTags hq
          rw [hn]; exact g0.pos p hp
        · intro a ha b hb hab
          subst hab
          have h1 := ((hI.acc_iff i a).1 ha).2 sc0 (by simp)
          obtain ⟨n, hn⟩ := (mem_freeAddrs (c := some i)).1 hb
          have hd : sc0'.data = sc0.data := by subst hsc'; rfl
          have : (⟨a, n, .free, some i⟩ : VP) ∈ sc0'.view := by
            unfold Sect.view; rw [hc', hd]; subst hsc'; exact hn
          have := (hfree0' a n this).1
          omega
      · exact hI.acc_nodup j
    · intro j a
      show a ∈ (acc.set i (acc.getD i [] ++ freeAddrs sc0.data (sweepTags surv sc0.data sc0.pieces))).getD j [] ↔
        (∃ n, _ ∈ viewSects S') ∧ _
      rw [getD_set]
      have hfa : ∀ a, a ∈ freeAddrs sc0.data (sweepTags surv sc0.data sc0.pieces) ↔
          ∃ n, (⟨a, n, .free, some i⟩ : VP) ∈ sc0'.view := by
        intro a
        rw [mem_freeAddrs (c := some i)]
        have hd : sc0'.data = sc0.data := by subst hsc'; rfl
        unfold Sect.view; rw [hc', hd]; subst hsc'; rfl
      have hold := hI.acc_iff j a
      simp only [List.mem_cons, forall_eq_or_imp] at hold
      have hilt' : i < acc.length := by rw [hI.acc_len]; exact hilt
      simp only [hview]
      by_cases hij : i = j
      · subst hij
        simp only [hilt', and_self, if_true, List.mem_append, hfa, hold, hsview]
        constructor
        · rintro (⟨⟨n, h1 | h1⟩, h2, h3⟩ | ⟨n, h1⟩)
          · exact ⟨⟨n, Or.inl h1⟩, h3⟩
          · have := (hin0 _ h1).1; simp at this; omega
          · exact ⟨⟨n, Or.inr h1⟩, fun t ht => by have := (hfree0' a n h1).2; have := (hrest t ht).1; omega⟩
        · rintro ⟨⟨n, ⟨u, hu, hub, hv⟩ | h1⟩, h3⟩
          · left
            refine ⟨⟨n, Or.inl ⟨u, hu, hub, hv⟩⟩, ?_, h3⟩
            have hne : u ≠ sc0 := fun e => hub (by rw [e])
            have hnr : u ∉ rest := by
              intro hur
              have gu := (hM.geo u hu).mem_view hv
              have := h3 u hur
              have := u.base_le_data
              simp at gu; omega
            have := hdone u hu hne hnr
            have gu := (hM.geo u hu).mem_view hv
            simp at gu; omega
          · exact Or.inr ⟨n, h1⟩
      · simp only [hij, false_and, if_false, hold, hsview]
        constructor
        · rintro ⟨⟨n, h1 | h1⟩, h2, h3⟩
          · exact ⟨⟨n, Or.inl h1⟩, h3⟩
          · have := (hin0 _ h1).2.2.1; simp at this; exact absurd this.symm hij
        · rintro ⟨⟨n, ⟨u, hu, hub, hv⟩ | h1⟩, h3⟩
          · refine ⟨⟨n, Or.inl ⟨u, hu, hub, hv⟩⟩, ?_, h3⟩
            have hne : u ≠ sc0 := fun e => hub (by rw [e])
            have hnr : u ∉ rest := by
              intro hur
              have gu := (hM.geo u hu).mem_view hv
              have := h3 u hur
              have := u.base_le_data
              simp at gu; omega
            have := hdone u hu hne hnr
            have gu := (hM.geo u hu).mem_view hv
            simp at gu; omega
          · have := (hin0' _ h1).2.2; simp at this; exact absurd this.symm hij
    · intro v hvb
      show v ∈ viewSects S' ↔ _
      rw [hview, hbusy0' v hvb]
      have hold := hI.busy_iff v hvb
      rw [hsview] at hold
      simp only [List.mem_cons, exists_eq_or_imp] at hold
      constructor
      · rintro (h1 | ⟨h1, h2⟩)
        · obtain ⟨hs0, hcase⟩ := hold.1 (Or.inl h1)
          refine ⟨hs0, ?_⟩
          rcases hcase with h3 | h3 | h3
          · exact Or.inl h3
          · obtain ⟨u, hu, hub, hv⟩ := h1
            have := hother u hu hub v hv
            have := hin0 v h3
            omega
          · exact Or.inr h3
        · obtain ⟨hs0, _⟩ := hold.1 (Or.inr h1)
          refine ⟨hs0, Or.inl ?_⟩
          unfold VP.ptr; rw [(hin0 v h1).2.2.2]; simpa using h2
      · rintro ⟨hs0, hcase⟩
        rcases hcase with h3 | ⟨t, ht, hvt⟩
        · rcases hold.2 ⟨hs0, Or.inl h3⟩ with h4 | h4
          · exact Or.inl h4
          · right; refine ⟨h4, ?_⟩
            unfold VP.ptr at h3; rw [(hin0 v h4).2.2.2] at h3; simpa using h3
        · rcases hold.2 ⟨hs0, Or.inr (Or.inr ⟨t, ht, hvt⟩)⟩ with h4 | h4
          · exact Or.inl h4
          · exfalso
            have hts := hI.todo_mem t (by simp [ht])
            have := (hM.geo t hts).mem_view hvt
            have := t.base_le_data
            have := (hrest t ht).1
            have := hin0 v h4
            omega
  · -- no busy quantum left: the pages go back to the page pool
    next hany =>
    simp only [Option.some.injEq, Prod.mk.injEq] at hr
    obtain ⟨rfl, rfl⟩ := hr
    have hnobusy : ∀ v ∈ sc0.view, v.busy → v.addr ∉ surv := by
      intro v hv hvb hs
      apply hany
      have hd : sc0'.data = sc0.data := by subst hsc'; rfl
      have : sweepTags surv sc0.data sc0.pieces = sc0'.pieces := by subst hsc'; rfl
      rw [this, any_isBusy_iff (c := sc0'.cls) (cur := sc0'.data)]
      exact ⟨v, (hbusy0' v hvb).2 ⟨hv, hs⟩, hvb⟩
    have hmemS : ∀ u, u ∈ s.sects.filter (fun (sc : Sect) => sc.base != sc0.base) ↔ (u ∈ s.sects ∧ u.base ≠ sc0.base) := by
      intro u; rw [List.mem_filter]; simp
    generalize hS' : s.sects.filter (fun (sc : Sect) => sc.base != sc0.base) = S' at hmemS
    have hview : ∀ v, v ∈ viewSects S' ↔ (∃ u ∈ s.sects, u.base ≠ sc0.base ∧ v ∈ u.view) := by
      intro v
      rw [mem_viewSects]
      constructor
      · rintro ⟨u, hu, hv⟩
        obtain ⟨h1, h2⟩ := (hmemS u).1 hu
        exact ⟨u, h1, h2, hv⟩
      · rintro ⟨u, h1, h2, hv⟩
        exact ⟨u, (hmemS u).2 ⟨h1, h2⟩, hv⟩
    have hsview : ∀ v, v ∈ s.view ↔ (∃ u ∈ s.sects, u.base ≠ sc0.base ∧ v ∈ u.view) ∨ v ∈ sc0.view := by
      intro v
      rw [State.mem_view]
      constructor
      · rintro ⟨u, hu, hv⟩
        by_cases hub : u.base = sc0.base
        · right; rw [← hbu u hu hub]; exact hv
        · exact Or.inl ⟨u, hu, hub, hv⟩
      · rintro (⟨u, h1, _, hv⟩ | hv)
        · exact ⟨u, h1, hv⟩
        · exact ⟨sc0, h0, hv⟩
    have hSorted' : Sorted S' := by
      rw [← hS']; exact hM.sorted.filter _
    constructor
    · refine ⟨hSorted', fun u hu => hM.geo u ((hmemS u).1 hu).1, hM.tree_wf, ?_, ?_⟩
      · intro a k
        show inTree s.tree a k ↔ _ ∈ viewSects S'
        rw [hM.tree_iff, hview, hsview]
        constructor
        · rintro (h1 | h1)
          · exact h1
          · have := (hin0 _ h1).2.2.1; simp at this
        · exact Or.inl
      · intro a
        show s.frontier = some a ↔ ∃ n c, _ ∈ viewSects S'
        rw [hM.front_iff]
        simp only [hview, hsview]
        constructor
        · rintro ⟨n, c, h1 | h1⟩
          · exact ⟨n, c, h1⟩
          · exact absurd h1 (hfront0 a n c)
        · rintro ⟨n, c, h1⟩
          exact ⟨n, c, Or.inl h1⟩
    · intro u hu
      exact (hmemS u).2 ⟨hI.todo_mem u (by simp [hu]), (hrest u hu).2.1⟩
    · have := hI.todo_sorted; unfold Sorted at this ⊢; exact (List.pairwise_cons.1 this).2
    · intro u hu hnr t ht
      obtain ⟨h1, h2⟩ := (hmemS u).1 hu
      have hne : u ≠ sc0 := fun e => h2 (by rw [e])
      exact hI.done_below u h1 (by simp [hne, hnr]) t (by simp [ht])
    · exact hI.acc_len
    · exact hI.acc_nodup
    · intro j a
      show a ∈ acc.getD j [] ↔ (∃ n, _ ∈ viewSects S') ∧ _
      have hold := hI.acc_iff j a
      simp only [List.mem_cons, forall_eq_or_imp] at hold
      simp only [hview, hold, hsview]
      constructor
      · rintro ⟨⟨n, h1 | h1⟩, h2, h3⟩
        · exact ⟨⟨n, h1⟩, h3⟩
        · have := (hin0 _ h1).1; simp at this; omega
      · rintro ⟨⟨n, u, hu, hub, hv⟩, h3⟩
        refine ⟨⟨n, Or.inl ⟨u, hu, hub, hv⟩⟩, ?_, h3⟩
        have hne : u ≠ sc0 := fun e => hub (by rw [e])
        have hnr : u ∉ rest := by
          intro hur
          have gu := (hM.geo u hu).mem_view hv
          have := h3 u hur
          have := u.base_le_data
          simp at gu; omega
        have := hdone u hu hne hnr
        have gu := (hM.geo u hu).mem_view hv
        simp at gu; omega
    · intro v hvb
      show v ∈ viewSects S' ↔ _
      rw [hview]
      have hold := hI.busy_iff v hvb
      rw [hsview] at hold
      simp only [List.mem_cons, exists_eq_or_imp] at hold
      constructor
      · intro h1
        obtain ⟨hs0, hcase⟩ := hold.1 (Or.inl h1)
        refine ⟨hs0, ?_⟩
        rcases hcase with h3 | h3 | h3
        · exact Or.inl h3
        · obtain ⟨u, hu, hub, hv⟩ := h1
          have := hother u hu hub v hv
          have := hin0 v h3
          omega
        · exact Or.inr h3
      · rintro ⟨hs0, hcase⟩
        rcases hcase with h3 | ⟨t, ht, hvt⟩
        · rcases hold.2 ⟨hs0, Or.inl h3⟩ with h4 | h4
          · exact h4
          · exfalso
            apply hnobusy v h4 hvb
            unfold VP.ptr at h3; rw [(hin0 v h4).2.2.2] at h3; simpa using h3
        · rcases hold.2 ⟨hs0, Or.inr (Or.inr ⟨t, ht, hvt⟩)⟩ with h4 | h4
          · exact h4
          · exfalso
            have hts := hI.todo_mem t (by simp [ht])
            have := (hM.geo t hts).mem_view hvt
            have := t.base_le_data
            have := (hrest t ht).1
            have := hin0 v h4
            omega

theorem nodup_busyPtrs {hdr : Nat} : ∀ {l : List Piece} {cur : Nat}, AllPos l → (busyPtrs hdr cur l).Nodup := by
  intro l
  induction l with
  | nil => intro cur _; simp [busyPtrs]
  | cons p r ih =>
    intro cur hp
    have ⟨hp0, hpr⟩ := hp.cons
    cases p with
    | mk n st =>
      cases st <;> simp only [busyPtrs]
      · exact ih hpr
      · rw [List.nodup_cons]
        refine ⟨fun hm => ?_, ih hpr⟩
        obtain ⟨a, m, k, hm, e⟩ := (mem_busyPtrs (c := none)).1 hm
        have := (mem_viewPcs hm).1
        simp at this hp0; omega
      · exact ih hpr

theorem NoAdj_all_free : ∀ {l : List Piece}, NoAdj l → (∀ p ∈ l, p.st = .free) → l.length ≤ 1 := by
  intro l h hf
  match l with
  | [] => simp
  | [_] => simp
  | p :: q :: r =>
    exfalso
    exact h.1 ⟨hf p (by simp), hf q (by simp)⟩

/-- a processed mixed section that consists of one free piece is returned to the page pool -/
theorem sweep_release_mixed {s0 s1 : State} {surv : List Nat} {rest : List Sect} {acc : List (List Nat)}
    {sc : Sect} {x : Piece}
    (hI : SweepInv s0 surv rest s1 acc) (hsc : sc ∈ s1.sects) (hnr : sc ∉ rest) (hc : sc.cls = none)
    (hP : sc.pieces = [x]) (hx : x.st = .free) :
    SweepInv s0 surv rest
      { s1 with tree := tUnlinkDel s1.tree x.n sc.data,
                sects := s1.sects.filter (fun (t : Sect) => t.base != sc.base) } acc := by
  have hM := hI.invm
  have hbu : ∀ u ∈ s1.sects, u.base = sc.base → u = sc := fun u hu hb =>
    hM.sorted.base_inj (fun w hw => (hM.geo w hw).pages_pos) hu hsc hb
  have hscv : sc.view = [⟨sc.data, x.n, .free, none⟩] := by
    unfold Sect.view; rw [hP, hc]; simp [hx]
  have hmemS : ∀ u, u ∈ s1.sects.filter (fun (t : Sect) => t.base != sc.base) ↔ (u ∈ s1.sects ∧ u.base ≠ sc.base) := by
    intro u; rw [List.mem_filter]; simp
  generalize hS' : s1.sects.filter (fun (t : Sect) => t.base != sc.base) = S' at hmemS
  have hview : ∀ v, v ∈ viewSects S' ↔ (∃ u ∈ s1.sects, u.base ≠ sc.base ∧ v ∈ u.view) := by
    intro v
    rw [mem_viewSects]
    constructor
    · rintro ⟨u, hu, hv⟩
      obtain ⟨h1, h2⟩ := (hmemS u).1 hu
      exact ⟨u, h1, h2, hv⟩
    · rintro ⟨u, h1, h2, hv⟩
      exact ⟨u, (hmemS u).2 ⟨h1, h2⟩, hv⟩
  have hsview : ∀ v, v ∈ s1.view ↔ (∃ u ∈ s1.sects, u.base ≠ sc.base ∧ v ∈ u.view) ∨ v = ⟨sc.data, x.n, .free, none⟩ := by
    intro v
    rw [State.mem_view]
    constructor
    · rintro ⟨u, hu, hv⟩
      by_cases hub : u.base = sc.base
      · right; rw [hbu u hu hub, hscv] at hv; simpa using hv
      · exact Or.inl ⟨u, hu, hub, hv⟩
    · rintro (⟨u, h1, _, hv⟩ | hv)
      · exact ⟨u, h1, hv⟩
      · exact ⟨sc, hsc, by rw [hscv, hv]; simp⟩
  have hxv : (⟨sc.data, x.n, .free, none⟩ : VP) ∈ s1.view := (hsview _).2 (Or.inr rfl)
  have hinj := @InvD.view_inj _ _ hM.withFl
  have hother : ∀ v, (∃ u ∈ s1.sects, u.base ≠ sc.base ∧ v ∈ u.view) → v.addr ≠ sc.data := by
    rintro v ⟨u, hu, hub, hv⟩ he
    have hv1 : v ∈ s1.view := State.mem_view.2 ⟨u, hu, hv⟩
    have := hinj hv1 hxv he
    subst this
    have := hM.sect_unique hu hsc hv (by rw [hscv]; simp)
    exact hub (by rw [this])
  constructor
  · refine ⟨by rw [← hS']; exact hM.sorted.filter _, fun u hu => hM.geo u ((hmemS u).1 hu).1, hM.tree_wf.tUnlinkDel _ _, ?_, ?_⟩
    · intro a k
      show inTree (tUnlinkDel s1.tree x.n sc.data) a k ↔ _ ∈ viewSects S'
      rw [inTree_tUnlinkDel hM.tree_wf, hM.tree_iff, hview, hsview]
      constructor
      · rintro ⟨h1 | h1, hne⟩
        · exact h1
        · simp at h1; exact absurd ⟨h1.1, h1.2⟩ hne
      · intro h1
        exact ⟨Or.inl h1, fun he => hother _ h1 he.1⟩
    · intro a
      show s1.frontier = some a ↔ ∃ n c, _ ∈ viewSects S'
      rw [hM.front_iff]
      simp only [hview, hsview]
      constructor
      · rintro ⟨n, c, h1 | h1⟩
        · exact ⟨n, c, h1⟩
        · simp at h1
      · rintro ⟨n, c, h1⟩
        exact ⟨n, c, Or.inl h1⟩
  · intro u hu
    have hu1 := hI.todo_mem u hu
    refine (hmemS u).2 ⟨hu1, fun hb => ?_⟩
    exact hnr (hbu u hu1 hb ▸ hu)
  · exact hI.todo_sorted
  · intro u hu hnr' t ht
    exact hI.done_below u ((hmemS u).1 hu).1 hnr' t ht
  · exact hI.acc_len
  · exact hI.acc_nodup
  · intro j a
    show a ∈ acc.getD j [] ↔ (∃ n, _ ∈ viewSects S') ∧ _
    rw [hI.acc_iff j a]
    simp only [hview, hsview]
    constructor
    · rintro ⟨⟨n, h1 | h1⟩, h2⟩
      · exact ⟨⟨n, h1⟩, h2⟩
      · simp at h1
    · rintro ⟨⟨n, h1⟩, h2⟩
      exact ⟨⟨n, Or.inl h1⟩, h2⟩
  · intro v hvb
    show v ∈ viewSects S' ↔ _
    rw [← hI.busy_iff v hvb, hview, hsview]
    constructor
    · exact Or.inl
    · rintro (h1 | h1)
      · exact h1
      · obtain ⟨c, hc'⟩ := hvb; rw [h1] at hc'; simp at hc'


/-- one mixed section of the sweep -/
theorem sweep_step_mixed {s0 s s' : State} {surv : List Nat} {sc0 : Sect} {rest : List Sect}
    {acc acc' : List (List Nat)}
    (hI : SweepInv s0 surv (sc0 :: rest) s acc) (hc : sc0.cls = none)
    (hr : sweepSect surv (some (s, acc)) sc0 = some (s', acc')) :
    SweepInv s0 surv rest s' acc' := by
  obtain ⟨h0, g0, hbu, hrest, hlt, hdone⟩ := hI.head_facts
  have hM := hI.invm
  have hin0 : ∀ v ∈ sc0.view, sc0.base ≤ v.addr ∧ v.addr < sc0.lim ∧ v.cls = none ∧ v.hdr = mxHead := by
    intro v hv
    have := g0.mem_view hv
    have hb := sc0.base_le_data
    refine ⟨by omega, by omega, by rw [this.2.2.2, hc], ?_⟩
    unfold VP.hdr; rw [this.2.2.2, hc]
  have hs0view : ∀ v ∈ sc0.view, v ∈ s.view := fun v hv => State.mem_view.2 ⟨sc0, h0, hv⟩
  unfold sweepSect at hr
  simp only [hc] at hr
  generalize hvs : (busyPtrs mxHead sc0.data sc0.pieces).filter (fun p => !surv.contains p) = vs at hr
  have hvmem : ∀ p, p ∈ vs ↔ (∃ a n k, (⟨a, n, .busy k, none⟩ : VP) ∈ sc0.view ∧ a + mxHead = p) ∧ p ∉ surv := by
    intro p
    rw [← hvs, List.mem_filter, mem_busyPtrs (c := none)]
    unfold Sect.view; rw [hc]; simp
  have hvnd : vs.Nodup := by
    rw [← hvs]; exact (nodup_busyPtrs g0.pos).filter _
  split at hr
  · simp at hr
  · next s1 hfold =>
    obtain ⟨h1, hb1, hu1, ⟨scB, hscB, hBb, hBl, hBc⟩, hfr1⟩ := invM_victims sc0.base sc0.lim vs s s1 hM
      ⟨sc0, h0, rfl, rfl, hc⟩
      (by
        intro p hp
        obtain ⟨⟨a, n, k, hv, rfl⟩, _⟩ := (hvmem p).1 hp
        have := hin0 _ hv
        simp only at this
        refine ⟨by omega, by omega, by omega, n, k, ?_⟩
        have e : a + mxHead - mxHead = a := by omega
        rw [e]; exact hs0view _ hv)
      hvnd hfold
    -- the state after the victims of this section were freed satisfies the loop invariant for `rest`
    have hBne : ∀ t ∈ rest, t.base ≠ sc0.base := fun t ht => (hrest t ht).2.1
    have hI1 : SweepInv s0 surv rest s1 acc := by
      constructor
      · exact h1
      · intro u hu
        exact (hu1 u (hBne u hu)).2 (hI.todo_mem u (by simp [hu]))
      · have := hI.todo_sorted; unfold Sorted at this ⊢; exact (List.pairwise_cons.1 this).2
      · intro u hu hnr t ht
        by_cases hub : u.base = sc0.base
        · have : u = scB := h1.sorted.base_inj (fun w hw => (h1.geo w hw).pages_pos) hu hscB (by rw [hub, hBb])
          rw [this, hBl]; exact (hrest t ht).1
        · have hus := (hu1 u hub).1 hu
          have hne : u ≠ sc0 := fun e => hub (by rw [e])
          exact hI.done_below u hus (by simp [hne, hnr]) t (by simp [ht])
      · exact hI.acc_len
      · exact hI.acc_nodup
      · intro j a
        have hold := hI.acc_iff j a
        simp only [List.mem_cons, forall_eq_or_imp] at hold
        rw [hold]
        -- fixed entries live in sections other than the one being swept
        have hfix : ∀ n, (⟨a, n, .free, some j⟩ : VP) ∈ s1.view ↔ (⟨a, n, .free, some j⟩ : VP) ∈ s.view := by
          intro n
          rw [State.mem_view, State.mem_view]
          constructor
          · rintro ⟨u, hu, hv⟩
            have hcl := ((h1.geo u hu).mem_view hv).2.2.2
            simp only at hcl
            have hub : u.base ≠ sc0.base := by
              intro hub
              have : u = scB := h1.sorted.base_inj (fun w hw => (h1.geo w hw).pages_pos) hu hscB (by rw [hub, hBb])
              rw [this, hBc] at hcl; simp at hcl
            exact ⟨u, (hu1 u hub).1 hu, hv⟩
          · rintro ⟨u, hu, hv⟩
            have hcl := ((hM.geo u hu).mem_view hv).2.2.2
            simp only at hcl
            have hub : u.base ≠ sc0.base := by
              intro hub
              rw [hbu u hu hub, hc] at hcl; simp at hcl
            exact ⟨u, (hu1 u hub).2 hu, hv⟩
        simp only [hfix]
        constructor
        · rintro ⟨h2, _, h3⟩; exact ⟨h2, h3⟩
        · rintro ⟨⟨n, hn⟩, h3⟩
          refine ⟨⟨n, hn⟩, ?_, h3⟩
          obtain ⟨u, hu, hv⟩ := State.mem_view.1 hn
          have hcl := ((hM.geo u hu).mem_view hv).2.2.2
          simp only at hcl
          have hne : u ≠ sc0 := by intro e; rw [e, hc] at hcl; simp at hcl
          have gu := (hM.geo u hu).mem_view hv
          have hnr : u ∉ rest := by
            intro hur
            have := h3 u hur
            have := u.base_le_data
            simp at gu; omega
          have := hdone u hu hne hnr
          simp at gu; omega
      · intro v hvb
        rw [hb1 v hvb]
        have hold := hI.busy_iff v hvb
        simp only [List.mem_cons, exists_eq_or_imp] at hold
        have hinj := @InvD.view_inj _ _ hM.withFl
        constructor
        · rintro ⟨hvs', hnv⟩
          obtain ⟨hs0, hcase⟩ := hold.1 hvs'
          refine ⟨hs0, ?_⟩
          rcases hcase with h3 | h3 | h3
          · exact Or.inl h3
          · -- a busy piece of this section that is not a victim is marked
            left
            apply Classical.byContradiction
            intro hns
            obtain ⟨k, hk⟩ := hvb
            have hvi := hin0 v h3
            have : v.ptr ∈ vs := by
              rw [hvmem]
              refine ⟨⟨v.addr, v.n, k, ?_, ?_⟩, hns⟩
              · have : v = ⟨v.addr, v.n, .busy k, none⟩ := by cases v; simp_all
                rw [← this]; exact h3
              · unfold VP.ptr; rw [hvi.2.2.2]
            apply hnv _ this
            unfold VP.ptr; omega
          · exact Or.inr h3
        · rintro ⟨hs0, hcase⟩
          have hvs' : v ∈ s.view := by
            rcases hcase with h3 | h3
            · exact hold.2 ⟨hs0, Or.inl h3⟩
            · exact hold.2 ⟨hs0, Or.inr (Or.inr h3)⟩
          refine ⟨hvs', fun p hp hva => ?_⟩
          obtain ⟨⟨a, n, k, hw, rfl⟩, hns⟩ := (hvmem _).1 hp
          have hwv := hs0view _ hw
          have e : a + mxHead - mxHead = a := by omega
          rw [e] at hva
          have hvw := hinj hvs' hwv hva
          subst hvw
          rcases hcase with h3 | ⟨t, ht, hvt⟩
          · apply hns
            have := (hin0 _ hw).2.2.2
            unfold VP.ptr at h3; rw [this] at h3; exact h3
          · have hts := hI.todo_mem t (by simp [ht])
            have := hM.sect_unique hts h0 hvt hw
            exact (hrest t ht).2.2 this
    -- which section is it now, and is it given back?
    split at hr
    · simp at hr
    · next sc hfs =>
      obtain ⟨S1, S2, hS, hhas⟩ := findSect_some hfs
      have hscm : sc ∈ s1.sects := by rw [hS]; simp
      have hsceq : sc = scB := h1.sorted.has_unique hscm hscB hhas (by rw [Sect.has_iff]; omega)
      subst hsceq
      have key : ∀ hasFront : Bool, (hasFront = false → ∀ f, s1.frontier = some f → sc.has f = false) →
          (if (!sc.pieces.any isBusy && !hasFront) = true then
            match sc.pieces with
            | x :: _ =>
              some ({ s1 with tree := tUnlinkDel s1.tree x.n sc.data,
                              sects := s1.sects.filter (fun (t : Sect) => t.base != sc0.base) }.tag "sw-mx-release", acc)
            | [] => none
          else some (s1.tag "sw-mx-keep", acc)) = some (s', acc') → SweepInv s0 surv rest s' acc' := by
        intro hasFront hHF hr
        split at hr
        · next hcond =>
          simp only [Bool.and_eq_true, Bool.not_eq_eq_eq_not, Bool.not_true] at hcond
          obtain ⟨hnb, hnf⟩ := hcond
          split at hr
          · next x xs hP =>
            simp only [Option.some.injEq, Prod.mk.injEq] at hr
            obtain ⟨rfl, rfl⟩ := hr
            have gB := h1.geo sc hscm
            -- every piece is free
            have hallfree : ∀ p ∈ sc.pieces, p.st = .free := by
              intro p hp
              cases hst : p.st with
              | free => rfl
              | busy k =>
                exfalso
                have : sc.pieces.any isBusy = true := by
                  rw [List.any_eq_true]; exact ⟨p, hp, by simp [isBusy, hst]⟩
                rw [this] at hnb; simp at hnb
              | front =>
                exfalso
                obtain ⟨b, t, hbt⟩ := List.append_of_mem hp
                have hv : (⟨sc.data + sizes b, p.n, .front, none⟩ : VP) ∈ sc.view := by
                  unfold Sect.view; rw [hbt, viewPcs_append, hBc]; simp [hst]
                have hfr := (h1.front_iff _).2 ⟨_, _, State.mem_view.2 ⟨sc, hscm, hv⟩⟩
                have hbd := gB.mem_view hv
                have := sc.base_le_data
                simp only at hbd
                have h2 := hHF hnf _ hfr
                have : sc.has (sc.data + sizes b) = true := by rw [Sect.has_iff]; omega
                rw [this] at h2; simp at h2
            have hlen := NoAdj_all_free (gB.mixed_ok hBc).2 hallfree
            have hxs : xs = [] := by
              cases xs with
              | nil => rfl
              | cons y ys => rw [hP] at hlen; simp at hlen
            subst hxs
            have hnr : sc ∉ rest := fun hm => hBne sc hm hBb
            have := sweep_release_mixed hI1 hscm hnr hBc hP (hallfree x (by rw [hP]; simp))
            rw [hBb] at this
            exact ⟨this.invm.tag _, this.todo_mem, this.todo_sorted, this.done_below, this.acc_len,
              this.acc_nodup, this.acc_iff, this.busy_iff⟩
          · simp at hr
        · simp only [Option.some.injEq, Prod.mk.injEq] at hr
          obtain ⟨rfl, rfl⟩ := hr
          exact ⟨hI1.invm.tag _, hI1.todo_mem, hI1.todo_sorted, hI1.done_below, hI1.acc_len,
            hI1.acc_nodup, hI1.acc_iff, hI1.busy_iff⟩
      cases hfr : s1.frontier with
      | none =>
        simp only [hfr] at hr
        rw [← hfr] at hr
        exact key false (fun _ f hf => by rw [hfr] at hf; simp at hf) hr
      | some f =>
        simp only [hfr] at hr
        rw [← hfr] at hr
        exact key (sc.has f) (fun hh f' hf' => by rw [hfr] at hf'; simp at hf'; rw [← hf']; exact hh) hr

theorem foldl_sweepSect_none (surv : List Nat) (l : List Sect) :
    l.foldl (sweepSect surv) none = none := by
  induction l with
  | nil => rfl
  | cons a r ih => simpa [sweepSect] using ih

theorem sweep_fold {s0 : State} {surv : List Nat} : ∀ (todo : List Sect) (s : State) (acc : List (List Nat))
    (s1 : State) (acc1 : List (List Nat)), SweepInv s0 surv todo s acc →
    todo.foldl (sweepSect surv) (some (s, acc)) = some (s1, acc1) → SweepInv s0 surv [] s1 acc1 := by
  intro todo
  induction todo with
  | nil =>
    intro s acc s1 acc1 hI hr
    simp at hr; obtain ⟨rfl, rfl⟩ := hr; exact hI
  | cons sc0 rest ih =>
    intro s acc s1 acc1 hI hr
    rw [List.foldl_cons] at hr
    cases hstep : sweepSect surv (some (s, acc)) sc0 with
    | none => rw [hstep, foldl_sweepSect_none] at hr; simp at hr
    | some r =>
      obtain ⟨s', acc'⟩ := r
      rw [hstep] at hr
      have hI' : SweepInv s0 surv rest s' acc' := by
        cases hc : sc0.cls with
        | some i => exact sweep_step_fixed hI hc hstep
        | none => exact sweep_step_mixed hI hc hstep
      exact ih s' acc' s1 acc1 hI' hr

theorem sweepInv_init {s : State} (h : Inv s) (surv : List Nat) :
    SweepInv s surv s.sects s (List.replicate fixedSizes.length []) := by
  have hemp : ∀ i, (List.replicate fixedSizes.length ([] : List Nat)).getD i [] = [] := by
    intro i
    simp only [List.getD_eq_getElem?_getD]
    cases hh : (List.replicate fixedSizes.length ([] : List Nat))[i]? with
    | none => rfl
    | some l =>
      have := List.mem_of_getElem? hh
      rw [List.mem_replicate] at this
      simp [this.2]
  refine ⟨h.toM, fun _ hu => hu, h.sorted, fun u hu hn => absurd hu hn, by simp, ?_, ?_, ?_⟩
  · intro i; rw [hemp]; simp
  · intro i a
    rw [hemp]
    simp only [List.not_mem_nil, false_iff, not_and]
    rintro ⟨n, hn⟩ hall
    obtain ⟨u, hu, hv⟩ := State.mem_view.1 hn
    have := (h.geo u hu).mem_view hv
    have := u.base_le_data
    have := hall u hu
    simp at *; omega
  · intro v _
    constructor
    · intro hv
      exact ⟨hv, Or.inr (State.mem_view.1 hv)⟩
    · exact fun hh => hh.1

/-- `stoGcSweep` -/
theorem inv_sweep {s s' : State} {surv : List Nat} (h : Inv s) (hr : sweep s surv = some s') :
    Inv s' ∧ ∀ v, v.busy → (v ∈ s'.view ↔ v ∈ s.view ∧ v.ptr ∈ surv) := by
  unfold sweep at hr
  split at hr
  · simp at hr
  · next s1 acc hf =>
    simp only [Option.some.injEq] at hr
    subst hr
    have hI := sweep_fold s.sects s _ s1 acc (sweepInv_init h surv) hf
    have hM := hI.invm
    refine ⟨⟨hM.sorted, hM.geo, hI.acc_len, hI.acc_nodup, ?_, hM.tree_wf, hM.tree_iff, ?_⟩, ?_⟩
    · intro i a
      have := hI.acc_iff i a
      simp only [List.not_mem_nil, false_imp_iff, implies_true, and_true] at this
      exact this
    · intro a
      have := hM.front_iff a
      show s1.frontier = some a ↔ _
      rw [this]; simp; rfl
    · intro v hvb
      have := hI.busy_iff v hvb
      simp only [List.not_mem_nil, false_and, exists_false, or_false] at this
      exact this

end AldorVerif.Store
