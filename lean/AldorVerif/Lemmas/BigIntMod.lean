import AldorVerif.Lemmas.BigIntPow
/-! `bintMod`, `bintModi`, `xxModDouble`, `xxTimesDouble` (core Lean only). -/
namespace AldorVerif.BigInt

/-! ### xxTimesDouble -/

theorem xxTimesDouble_spec {A B : Nat} (hA : A < W) (hB : B < W) :
    (xxTimesDouble A B).1 * W + (xxTimesDouble A B).2 = A * B ∧ (xxTimesDouble A B).2 < W ∧
    (xxTimesDouble A B).1 < W := by
  have hR := R_eq
  have hW := W_eq
  have hAh : A / R < R := Nat.div_lt_of_lt_mul (by rw [← W_eq_RR]; exact hA)
  have hBh : B / R < R := Nat.div_lt_of_lt_mul (by rw [← W_eq_RR]; exact hB)
  have hAl : A % R < R := Nat.mod_lt _ R_pos
  have hBl : B % R < R := Nat.mod_lt _ R_pos
  have hAdm := Nat.div_add_mod A R
  have hBdm := Nat.div_add_mod B R
  -- A * B in the four half products
  have hprod : A * B = (A / R) * (B / R) * W + ((A % R) * (B / R) + (A / R) * (B % R)) * R + (A % R) * (B % R) := by
    conv => lhs; rw [← hAdm, ← hBdm]
    rw [W_eq_RR]; grind
  unfold xxTimesDouble
  simp only
  generalize A / R = Ah at *
  generalize A % R = Al at *
  generalize B / R = Bh at *
  generalize B % R = Bl at *
  have b1 := mul_digits_le hAh hBh
  have b2 := mul_digits_le hAl hBh
  have b3 := mul_digits_le hAh hBl
  have b4 := mul_digits_le hAl hBl
  have hsq : (R - 1) * (R - 1) = 18446744065119617025 := by rw [hR]
  rw [hsq] at b1 b2 b3 b4
  generalize Ah * Bh = H0 at *
  generalize Al * Bh = M at *
  generalize Ah * Bl = N at *
  generalize Al * Bl = L0 at *
  have a1 : H0 % W = H0 := Nat.mod_eq_of_lt (by rw [hW]; omega)
  have a2 : M % W = M := Nat.mod_eq_of_lt (by rw [hW]; omega)
  have a3 : N % W = N := Nat.mod_eq_of_lt (by rw [hW]; omega)
  have a4 : L0 % W = L0 := Nat.mod_eq_of_lt (by rw [hW]; omega)
  simp only [a1, a2, a3, a4]
  have hMdm := Nat.div_add_mod M R
  have hNdm := Nat.div_add_mod N R
  have hMm : M % R < R := Nat.mod_lt _ R_pos
  have hNm : N % R < R := Nat.mod_lt _ R_pos
  have e1 : (M + N) * R = R * M + R * N := by grind
  rw [e1] at hprod
  rw [Nat.mul_comm (M % R) R, Nat.mul_comm (N % R) R]
  generalize M / R = Mh at *
  generalize M % R = Ml at *
  generalize N / R = Nh at *
  generalize N % R = Nl at *
  rw [hprod]
  clear hAdm hBdm hprod a1 a2 a3 a4 e1 hsq hR hW
  simp only [R_eq, W_eq] at *
  -- no `%` wraps except the two low word additions
  have a5 : (4294967296 * Ml) % 18446744073709551616 = 4294967296 * Ml := Nat.mod_eq_of_lt (by omega)
  have a6 : (4294967296 * Nl) % 18446744073709551616 = 4294967296 * Nl := Nat.mod_eq_of_lt (by omega)
  simp only [a5, a6]
  -- first low addition
  generalize hL1 : (L0 + 4294967296 * Ml) % 18446744073709551616 = L1
  have hc1 : L1 + 18446744073709551616 * (if L1 < L0 then 1 else 0) = L0 + 4294967296 * Ml := by
    split <;> omega
  generalize (if L1 < L0 then 1 else 0) = c1 at *
  have hc1b : c1 ≤ 1 := by omega
  have b5 : (H0 + c1) % 18446744073709551616 = H0 + c1 := Nat.mod_eq_of_lt (by omega)
  rw [b5]
  have b6 : (H0 + c1 + Mh) % 18446744073709551616 = H0 + c1 + Mh := Nat.mod_eq_of_lt (by omega)
  rw [b6]
  generalize hL2 : (L1 + 4294967296 * Nl) % 18446744073709551616 = L2
  have hc2 : L2 + 18446744073709551616 * (if L2 < L1 then 1 else 0) = L1 + 4294967296 * Nl := by
    split <;> omega
  generalize (if L2 < L1 then 1 else 0) = c2 at *
  have hc2b : c2 ≤ 1 := by omega
  have b7 : (H0 + c1 + Mh + c2) % 18446744073709551616 = H0 + c1 + Mh + c2 := Nat.mod_eq_of_lt (by omega)
  rw [b7]
  have b8 : (H0 + c1 + Mh + c2 + Nh) % 18446744073709551616 = H0 + c1 + Mh + c2 + Nh := Nat.mod_eq_of_lt (by omega)
  rw [b8]
  refine ⟨by omega, by omega, by omega⟩

/-! ### xxModDouble -/

theorem mod_double_congr (rh rl d : Nat) :
    (rh * W + rl) % d = ((rh % d) * (W % d) + rl % d) % d := by
  rw [Nat.add_mod, Nat.mul_mod]
  conv => rhs; rw [Nat.add_mod, Nat.mod_mod]

theorem xxModLoop_spec {d : Nat} (hd : 0 < d) (hdW : d < W) : ∀ (fuel rh rl : Nat), rh < W → rl < W →
    rh * W + rl < fuel → xxModLoop d (W % d) fuel rh rl = (rh * W + rl) % d := by
  have hW := W_eq
  intro fuel
  induction fuel with
  | zero => intro rh rl _ _ h; omega
  | succ f ih =>
    intro rh rl hrh hrl hf
    simp only [xxModLoop]
    by_cases hc : rh ≠ 0 ∨ rl ≥ d
    · rw [if_pos hc]
      have hrrh : rh % d < d := Nat.mod_lt _ hd
      have hrrl : rl % d < d := Nat.mod_lt _ hd
      have hrB : W % d < d := Nat.mod_lt _ hd
      obtain ⟨te, tl, th⟩ := xxTimesDouble_spec (A := rh % d) (B := W % d) (by omega) (by omega)
      -- the new double word is rrh * rB + rrl, smaller than the old one
      have hN' : (rh % d) * (W % d) + rl % d < d * d := by
        have : (rh % d) * (W % d) ≤ (d - 1) * (d - 1) := Nat.mul_le_mul (by omega) (by omega)
        have e : d * d = (d - 1) * (d - 1) + (d - 1) + d := by
          obtain ⟨k, rfl⟩ : ∃ k, d = k + 1 := ⟨d - 1, by omega⟩
          simp only [Nat.add_sub_cancel]; grind
        omega
      have hdd : d * d ≤ W * W := Nat.mul_le_mul (by omega) (by omega)
      have hdec : (rh % d) * (W % d) + rl % d < rh * W + rl := by
        have hle1 : rh % d ≤ rh := Nat.mod_le _ _
        have hle2 : rl % d ≤ rl := Nat.mod_le _ _
        rcases hc with h | h
        · -- rh ≥ 1: rrh * rB ≤ rh * rB < rh * W
          have a : (rh % d) * (W % d) ≤ rh * (W % d) := Nat.mul_le_mul_right _ hle1
          have b : rh * (W % d) + rh ≤ rh * W := by
            have : rh * (W % d + 1) ≤ rh * W := Nat.mul_le_mul_left rh (by omega)
            rw [Nat.mul_add, Nat.mul_one] at this; exact this
          omega
        · by_cases h0 : rh = 0
          · subst h0; simp; omega
          · have a : (rh % d) * (W % d) ≤ rh * (W % d) := Nat.mul_le_mul_right _ hle1
            have b : rh * (W % d) + rh ≤ rh * W := by
              have : rh * (W % d + 1) ≤ rh * W := Nat.mul_le_mul_left rh (by omega)
              rw [Nat.mul_add, Nat.mul_one] at this; exact this
            omega
      generalize hprod : (rh % d) * (W % d) = T at *
      generalize (xxTimesDouble (rh % d) (W % d)).1 = t1 at *
      generalize (xxTimesDouble (rh % d) (W % d)).2 = t2 at *
      -- low word addition with carry
      generalize hrl' : (t2 + rl % d) % W = rl'
      have hcarry : rl' + W * (if rl' < rl % d then 1 else 0) = t2 + rl % d ∧
          (if rl' < rl % d then 1 else 0) ≤ 1 := by
        by_cases hw : t2 + rl % d < W
        · have : rl' = t2 + rl % d := by rw [← hrl']; exact Nat.mod_eq_of_lt hw
          rw [if_neg (by omega)]; omega
        · have : rl' = t2 + rl % d - W := by
            rw [← hrl', Nat.mod_eq_sub_mod (by omega)]; exact Nat.mod_eq_of_lt (by omega)
          rw [if_pos (by omega)]; omega
      generalize (if rl' < rl % d then 1 else 0) = c at *
      obtain ⟨hcarry, hcb⟩ := hcarry
      have hsum : (t1 + c) * W + rl' = T + rl % d := by
        rw [Nat.add_mul]; rw [Nat.mul_comm c W]; omega
      have ht1c : t1 + c < W := by
        have : (t1 + c) * W < W * W := by omega
        rw [Nat.mul_comm] at this
        exact Nat.lt_of_mul_lt_mul_left this
      rw [Nat.mod_eq_of_lt ht1c]
      have hrl'lt : rl' < W := by rw [← hrl']; exact Nat.mod_lt _ (by omega)
      rw [ih (t1 + c) rl' ht1c hrl'lt (by omega), hsum, mod_double_congr rh rl d, hprod]
    · rw [if_neg hc]
      have h0 : rh = 0 := by omega
      subst h0
      simp only [Nat.zero_mul, Nat.zero_add]
      exact (Nat.mod_eq_of_lt (by omega)).symm

theorem xxModDouble_spec {nh nl d : Nat} (hnh : nh < W) (hnl : nl < W) (hd : R ≤ d) (hdW : d < W) :
    xxModDouble nh nl d = (nh * W + nl) % d := by
  have hR := R_eq
  unfold xxModDouble
  rw [if_neg (by omega), if_neg (by omega)]
  simp only
  have e : (W - 1 - (d - 1)) % d = W % d := by
    have : W - 1 - (d - 1) = W - d := by omega
    rw [this]
    have h2 : W = (W - d) + d := by omega
    conv => rhs; rw [h2, Nat.add_mod_right]
  rw [e]
  exact xxModLoop_spec (by omega) hdW _ nh nl hnh hnl (by omega)

/-! ### bintModi -/

theorem horner_mod (acc a P B b : Nat) :
    (((acc * R + a) % b) * P + B) % b = ((acc * (P * R)) + (a * P + B)) % b := by
  have e : acc * (P * R) + (a * P + B) = (acc * R + a) * P + B := by grind
  rw [e, Nat.add_mod, Nat.mul_mod, Nat.mod_mod]
  conv => rhs; rw [Nat.add_mod, Nat.mul_mod]

theorem modiLoopS_spec {b : Nat} (hb : 0 < b) (hbR : b < R) : ∀ (as : List Nat) (acc : Nat), Digits as → acc < b →
    modiLoopS b (R % b) as acc = (acc * R ^ as.length + beVal as) % b ∧ modiLoopS b (R % b) as acc < b := by
  have hR := R_eq
  have hW := W_eq
  intro as
  induction as with
  | nil =>
    intro acc _ hacc
    refine ⟨?_, hacc⟩
    show acc = (acc * R ^ 0 + 0) % b
    rw [Nat.pow_zero, Nat.mul_one, Nat.add_zero, Nat.mod_eq_of_lt hacc]
  | cons a as ih =>
    intro acc hd hacc
    have eqn : modiLoopS b (R % b) (a :: as) acc = modiLoopS b (R % b) as (modiStepS b (R % b) acc a) := by
      unfold modiLoopS; rw [List.foldl_cons]
    rw [eqn]
    unfold modiStepS
    simp only
    have ha := hd.head
    have hdm : R % b < b := Nat.mod_lt _ hb
    have hprod : acc * (R % b) < W := by
      have : acc * (R % b) ≤ (R - 1) * (R - 1) := Nat.mul_le_mul (by omega) (by omega)
      have h2 : (R - 1) * (R - 1) < W := by rw [hR, hW]; omega
      omega
    rw [Nat.mod_eq_of_lt hprod]
    have hacc1 : acc * (R % b) % b < b := Nat.mod_lt _ hb
    have ham : a % b < b := Nat.mod_lt _ hb
    generalize hA1 : acc * (R % b) % b = acc1 at *
    generalize hAm : a % b = am at *
    -- the signed correction
    have hnew : uw (if wrapL ((acc1 : Int) - b + (am : Nat)) < 0 then wrapL (wrapL ((acc1 : Int) - b + (am : Nat)) + b)
        else wrapL ((acc1 : Int) - b + (am : Nat))) = (acc1 + am) % b := by
      rw [wrapL_eq (x := (acc1 : Int) - b + (am : Nat)) (by omega) (by omega)]
      by_cases hneg : (acc1 : Int) - b + (am : Nat) < 0
      · rw [if_pos hneg, wrapL_eq (by omega) (by omega), uw_eq (by omega) (by omega)]
        rw [Nat.mod_eq_of_lt (by omega)]; omega
      · rw [if_neg hneg, uw_eq (by omega) (by omega)]
        have h2 : acc1 + am = (acc1 + am - b) + b := by omega
        rw [h2, Nat.add_mod_right, Nat.mod_eq_of_lt (by omega)]; omega
    rw [hnew]
    have hlt : (acc1 + am) % b < b := Nat.mod_lt _ hb
    obtain ⟨v, l⟩ := ih ((acc1 + am) % b) hd.tail hlt
    refine ⟨?_, l⟩
    rw [v]
    simp only [beVal, List.length_cons, Nat.pow_succ]
    have e0 : (acc1 + am) % b = (acc * R + a) % b := by
      rw [← hA1, ← hAm, Nat.add_mod (acc * R) a b, Nat.mul_mod acc R b]
      conv => lhs; rw [Nat.add_mod, Nat.mod_mod, Nat.mod_mod]
      rw [Nat.mul_mod acc (R % b) b, Nat.mod_mod]
    rw [e0, horner_mod]

theorem modiLoopL_spec {b : Nat} (hbR : R ≤ b) (hb63 : b < 9223372036854775808) : ∀ (as : List Nat) (acc : Nat),
    Digits as → acc < b →
    modiLoopL b as acc = (acc * R ^ as.length + beVal as) % b ∧ modiLoopL b as acc < b := by
  have hR := R_eq
  have hW := W_eq
  intro as
  induction as with
  | nil =>
    intro acc _ hacc
    refine ⟨?_, hacc⟩
    show acc = (acc * R ^ 0 + 0) % b
    rw [Nat.pow_zero, Nat.mul_one, Nat.add_zero, Nat.mod_eq_of_lt hacc]
  | cons a as ih =>
    intro acc hd hacc
    have eqn : modiLoopL b (a :: as) acc = modiLoopL b as (modiStepL b acc a) := by
      unfold modiLoopL; rw [List.foldl_cons]
    rw [eqn]
    unfold modiStepL
    simp only
    have ha := hd.head
    have hhi : acc / R < W := by rw [hW]; have := Nat.div_le_self acc R; omega
    have hlo : (acc * R) % W < W := Nat.mod_lt _ (by rw [hW]; omega)
    have hx := xxModDouble_spec hhi hlo hbR (by rw [hW]; omega)
    -- hi:lo is acc * R
    have hval : (acc / R) * W + (acc * R) % W = acc * R := by
      have hdm := Nat.div_add_mod acc R
      have hm : acc % R < R := Nat.mod_lt _ R_pos
      have e : acc * R = (acc / R) * W + (acc % R) * R := by
        conv => lhs; rw [← hdm]
        rw [W_eq_RR]; grind
      have hsmall : (acc % R) * R < W := by
        have : (acc % R) * R ≤ (R - 1) * R := Nat.mul_le_mul_right R (by omega)
        have : (R - 1) * R < W := by rw [hR, hW]; omega
        omega
      rw [e, Nat.mul_comm (acc / R) W, Nat.mul_add_mod, Nat.mod_eq_of_lt hsmall, Nat.mul_comm W]
    rw [hx, hval]
    have hrem : acc * R % b < b := Nat.mod_lt _ (by omega)
    generalize hRem : acc * R % b = rem at *
    have hnew : uw (if wrapL ((rem : Int) - wrapL b + a) < 0 then wrapL (wrapL ((rem : Int) - wrapL b + a) + b)
        else wrapL ((rem : Int) - wrapL b + a)) = (rem + a) % b := by
      rw [wrapL_eq (x := (b : Int)) (by omega) (by omega)]
      rw [wrapL_eq (x := (rem : Int) - b + a) (by omega) (by omega)]
      by_cases hneg : (rem : Int) - b + a < 0
      · rw [if_pos hneg, wrapL_eq (by omega) (by omega), uw_eq (by omega) (by omega)]
        rw [Nat.mod_eq_of_lt (by omega)]; omega
      · rw [if_neg hneg, uw_eq (by omega) (by omega)]
        have h2 : rem + a = (rem + a - b) + b := by omega
        rw [h2, Nat.add_mod_right, Nat.mod_eq_of_lt (by omega)]; omega
    rw [hnew]
    have hlt : (rem + a) % b < b := Nat.mod_lt _ (by omega)
    obtain ⟨v, l⟩ := ih ((rem + a) % b) hd.tail hlt
    refine ⟨?_, l⟩
    rw [v]
    simp only [beVal, List.length_cons, Nat.pow_succ]
    have e0 : (rem + a) % b = (acc * R + a) % b := by
      rw [← hRem, Nat.add_mod (acc * R) a b]
      conv => lhs; rw [Nat.add_mod, Nat.mod_mod]
    rw [e0, horner_mod]

theorem reverse_cons_beVal {ds : List Nat} (hne : ds ≠ []) :
    ∃ t rest, ds.reverse = t :: rest ∧ natVal ds = t * R ^ rest.length + beVal rest ∧ rest.length + 1 = ds.length := by
  cases h : ds.reverse with
  | nil => simp at h; exact absurd h hne
  | cons t rest =>
    refine ⟨t, rest, rfl, ?_, ?_⟩
    · rw [natVal_eq_beVal_reverse, h]; rfl
    · have := congrArg List.length h; simp at this; omega

/-- `bintModi`: remainder of a non-negative number by a positive `unsigned long` below `2^63`. -/
theorem bintModi_spec {a : BInt} (ha : WF a) (ha0 : 0 ≤ a.val) {b : Nat} (hb : 0 < b) (hb63 : b < 9223372036854775808) :
    (bintModi a b).val = ((a.val.natAbs % b : Nat) : Int) ∧ WF (bintModi a b) := by
  have hR := R_eq
  have hm := Nat.mod_lt a.val.natAbs hb
  cases a with
  | imm ai =>
    obtain ⟨i1, i2⟩ := WF_imm.mp ha
    rw [MINI_eq] at i1; rw [MAXI_eq] at i2
    simp only [val_imm] at ha0 hm ⊢
    simp only [bintModi]
    rw [uw_eq ha0 (by omega)]
    have e : ai.toNat = ai.natAbs := by omega
    rw [e, wrapL_eq (by omega) (by omega)]
    exact bintNewI_spec (by omega) (by omega)
  | big neg ds =>
    obtain ⟨hd, hn, hv⟩ := WF_big.mp ha
    have hne : ds ≠ [] := by intro h0; subst h0; rw [MAXI_eq] at hv; simp at hv
    have hna : (BInt.big neg ds).val.natAbs = natVal ds := by cases neg <;> simp
    rw [hna] at hm ⊢
    obtain ⟨t, rest, hrev, hval, _⟩ := reverse_cons_beVal hne
    have hdr : Digits (t :: rest) := by rw [← hrev]; exact hd.reverse
    simp only [bintModi, hrev, List.tail_cons, List.headD_cons]
    by_cases hbR : b < R
    · rw [if_pos hbR]
      obtain ⟨v, l⟩ := modiLoopS_spec hb hbR rest (t % b) hdr.tail (Nat.mod_lt _ hb)
      have e : modiLoopS b (R % b) rest (t % b) = natVal ds % b := by
        rw [v, hval, Nat.add_mod, Nat.mul_mod, Nat.mod_mod]
        conv => rhs; rw [Nat.add_mod, Nat.mul_mod]
      rw [e, wrapL_eq (by omega) (by omega)]
      exact bintNewI_spec (by omega) (by omega)
    · rw [if_neg hbR]
      have ht : t < b := by have := hdr.head; omega
      obtain ⟨v, l⟩ := modiLoopL_spec (by omega) hb63 rest t hdr.tail ht
      have e : modiLoopL b rest t = natVal ds % b := by rw [v, hval]
      rw [e, wrapL_eq (by omega) (by omega)]
      exact bintNewI_spec (by omega) (by omega)

/-! ### bintMod -/

theorem bintIsNeg_iff {x : BInt} (hx : WF x) : bintIsNeg x = true ↔ x.val < 0 := by
  cases x with
  | imm v => simp [bintIsNeg]
  | big neg ds =>
    obtain ⟨_, _, hv⟩ := WF_big.mp hx
    rw [MAXI_eq] at hv
    cases neg <;> simp [bintIsNeg] <;> omega

theorem abs_by_negate {x : BInt} (hx : WF x) :
    ∃ y, (if bintIsNeg x = true then bintNegate x else x) = y ∧ WF y ∧ 0 ≤ y.val ∧ y.val = (x.val.natAbs : Int) := by
  have hiff := bintIsNeg_iff hx
  by_cases h : bintIsNeg x = true
  · have hn := bintNegate_spec hx
    have := hiff.mp h
    exact ⟨bintNegate x, by rw [if_pos h], hn.2, by rw [hn.1]; omega, by rw [hn.1]; omega⟩
  · have : ¬ x.val < 0 := fun h' => h (hiff.mpr h')
    exact ⟨x, by rw [if_neg h], hx, by omega, by omega⟩

theorem tmod_signs (a b : Int) :
    a.tmod b = if a < 0 then -((a.natAbs % b.natAbs : Nat) : Int) else ((a.natAbs % b.natAbs : Nat) : Int) := by
  have ha : a = if a < 0 then -(a.natAbs : Int) else a.natAbs := by split <;> omega
  have hb : b = if b < 0 then -(b.natAbs : Int) else b.natAbs := by split <;> omega
  have key := (tdiv_tmod_cases a.natAbs b.natAbs (decide (a < 0)) (decide (b < 0))).2
  simp only [decide_eq_true_eq] at key
  rw [← ha, ← hb] at key
  exact key

theorem bintDivideT_snd (a b : BInt) : (bintDivideT a b).2.1 = (bintDivide a b).2 := rfl

theorem mod_finish {a : BInt} (ha : WF a) {r : BInt} (wr : WF r) (b : Int)
    (vr : r.val = ((a.val.natAbs % b.natAbs : Nat) : Int)) :
    (if bintIsNeg a = true then bintNegate r else r).val = a.val.tmod b ∧
    WF (if bintIsNeg a = true then bintNegate r else r) := by
  have hiff := bintIsNeg_iff ha
  rw [tmod_signs]
  by_cases hneg : bintIsNeg a = true
  · rw [if_pos hneg, if_pos (hiff.mp hneg)]
    have hn := bintNegate_spec wr
    exact ⟨by rw [hn.1, vr], hn.2⟩
  · rw [if_neg hneg, if_neg (fun h => hneg (hiff.mpr h))]
    exact ⟨vr, wr⟩

theorem bintMod_spec {a b : BInt} (ha : WF a) (hb : WF b) (hb0 : b.val ≠ 0) :
    (bintMod a b).val = a.val.tmod b.val ∧ WF (bintMod a b) := by
  have hM := MAXI_eq
  have hR := R_eq
  have hW := W_eq
  unfold bintMod bintModT
  simp only
  obtain ⟨a', ea, wa, a0, av⟩ := abs_by_negate ha
  obtain ⟨b', eb, wb, b0, bv⟩ := abs_by_negate hb
  rw [ea, eb]
  have han : a'.val.natAbs = a.val.natAbs := by omega
  cases b' with
  | imm bi =>
    obtain ⟨i1, i2⟩ := WF_imm.mp wb
    simp only [val_imm] at b0 bv
    have hbpos : 0 < bi.toNat := by omega
    have sp := bintModi_spec wa a0 hbpos (by omega)
    simp only
    rw [uw_eq (by omega) (by omega)]
    apply mod_finish ha sp.2
    rw [sp.1, han]
    have : bi.toNat = b.val.natAbs := by omega
    rw [this]
  | big nb db =>
    obtain ⟨hd, hn, hv⟩ := WF_big.mp wb
    have hne : db ≠ [] := by intro h0; subst h0; simp at hv; omega
    have hbn : (BInt.big nb db).val.natAbs = natVal db := by cases nb <;> simp
    have hbv : natVal db = b.val.natAbs := by rw [← hbn]; omega
    simp only
    by_cases hlen : bintLength (BInt.big nb db) < 64
    · rw [if_pos hlen]
      simp only
      -- two places, below 2^63
      have hbl := bintLength_spec wb
      rw [hbn] at hbl
      have hlt63 : natVal db < 2 ^ 63 := (lt_two_pow_iff_bitLen_le _ 63).mpr (by omega)
      have hlen2 : db.length = 2 := by
        have h1 := natVal_ge_of_norm hn hne
        have h2 := natVal_lt hd
        rcases Nat.lt_or_ge db.length 2 with h | h
        · have : db.length = 1 := by have := len_pos hne; omega
          rw [this] at h2; simp at h2; omega
        · rcases Nat.lt_or_ge 2 db.length with h' | h'
          · have : R ^ 2 ≤ R ^ (db.length - 1) := Nat.pow_le_pow_right R_pos (by omega)
            have : R ^ 2 = 18446744073709551616 := by rw [hR]
            omega
          · omega
      obtain ⟨d0, d1, rfl⟩ : ∃ d0 d1, db = [d0, d1] := by
        match db, hlen2 with
        | [x, y], _ => exact ⟨x, y, rfl⟩
      have h0 := hd.head
      have h1 := hd.tail.head
      have hul : bintToULong (BInt.big nb [d0, d1]) = natVal [d0, d1] := by
        simp only [bintToULong, List.getD_cons_zero, List.getD_cons_succ, natVal_cons, natVal_nil, Nat.mul_zero, Nat.add_zero]
        simp only [natVal_cons, natVal_nil, Nat.mul_zero, Nat.add_zero] at hlt63
        rw [Nat.mul_comm d1 R]
        have e63 : (2:Nat) ^ 63 = 9223372036854775808 := by decide
        rw [Nat.mod_eq_of_lt (by omega : R * d1 < W), Nat.mod_eq_of_lt (by omega)]
      rw [hul]
      have e63 : (2:Nat) ^ 63 = 9223372036854775808 := by decide
      have sp := bintModi_spec wa a0 (b := natVal [d0, d1]) (by omega) (by omega)
      apply mod_finish ha sp.2
      rw [sp.1, han, hbv]
    · rw [if_neg hlen]
      simp only
      rw [bintDivideT_snd]
      have hb'0 : (BInt.big nb db).val ≠ 0 := by omega
      obtain ⟨_, rv, _, rw'⟩ := bintDivide_spec wa wb hb'0
      apply mod_finish ha rw'
      rw [rv, tmod_signs, if_neg (by omega), han]
      have : (BInt.big nb db).val.natAbs = b.val.natAbs := by omega
      rw [this]

/-! ### fiBIntPowerMod -/

theorem tmod_mul_left (x y c : Int) : (x.tmod c * y).tmod c = (x * y).tmod c := by
  rw [Int.mul_tmod, Int.tmod_tmod, ← Int.mul_tmod]

theorem tmod_mul_right (x y c : Int) : (x * y.tmod c).tmod c = (x * y).tmod c := by
  rw [Int.mul_tmod, Int.tmod_tmod, ← Int.mul_tmod]

theorem tmod_pow (y c : Int) (k : Nat) : ((y.tmod c) ^ k).tmod c = (y ^ k).tmod c := by
  induction k with
  | zero => simp
  | succ k ih =>
    rw [Int.pow_succ, Int.pow_succ, Int.mul_tmod, ih, Int.tmod_tmod, ← Int.mul_tmod]

theorem tmod_mul_pow (x y c : Int) (k : Nat) : (x * (y.tmod c) ^ k).tmod c = (x * y ^ k).tmod c := by
  rw [Int.mul_tmod, tmod_pow, ← Int.mul_tmod]

theorem sq_pow (a : Int) (E : Nat) : (a * a) ^ E = a ^ (2 * E) := by
  rw [Int.mul_pow, ← Int.pow_add]; congr 1; omega

theorem powerModLoop_spec (bit : Nat → Bool) {c : BInt} (hc : WF c) (hc0 : c.val ≠ 0) :
    ∀ (todo i : Nat) {p a : BInt}, WF p → WF a → 1 ≤ todo →
    (powerModLoop bit c todo i p a).val =
      (if bitSum bit i todo = 0 then p.val else (p.val * a.val ^ bitSum bit i todo).tmod c.val) ∧
    WF (powerModLoop bit c todo i p a) := by
  intro todo
  induction todo with
  | zero => intro i p a _ _ h; omega
  | succ t ih =>
    intro i p a hp ha _
    simp only [powerModLoop]
    have hp' : ∃ p', (if bit i = true then bintMod (bintTimes p a) c else p) = p' ∧ WF p' ∧
        p'.val = (if bit i = true then (p.val * a.val).tmod c.val else p.val) := by
      cases bit i
      · exact ⟨p, by simp, hp, by simp⟩
      · have ht := bintTimes_spec hp ha
        have hm := bintMod_spec ht.2 hc hc0
        exact ⟨_, by simp, hm.2, by simp [hm.1, ht.1]⟩
    obtain ⟨p', e, wp, vp⟩ := hp'
    rw [e]
    by_cases ht : t = 0
    · subst ht
      simp only [if_true, bitSum]
      refine ⟨?_, wp⟩
      rw [vp]
      by_cases hb : bit i = true
      · simp [hb, int_pow_one]
      · simp [hb]
    · rw [if_neg ht]
      have hsq := bintTimes_spec ha ha
      have hsm := bintMod_spec hsq.2 hc hc0
      obtain ⟨v, w⟩ := ih (i + 1) wp hsm.2 (by omega)
      refine ⟨?_, w⟩
      rw [v, vp, hsm.1, hsq.1, bitSum]
      generalize bitSum bit (i + 1) t = E
      by_cases hb : bit i = true
      · simp only [hb, if_true]
        have hne : ¬ (1 + 2 * E = 0) := by omega
        rw [if_neg hne]
        by_cases hE : E = 0
        · subst hE; simp [int_pow_one]
        · rw [if_neg hE, tmod_mul_pow, tmod_mul_left, sq_pow, Int.pow_add, int_pow_one, Int.mul_assoc]
      · simp only [hb, Bool.false_eq_true, if_false, Nat.zero_add]
        by_cases hE : E = 0
        · subst hE; simp
        · have : ¬ (2 * E = 0) := by omega
          rw [if_neg hE, if_neg this, tmod_mul_pow, sq_pow]

theorem bintIsZero_iff {x : BInt} (hx : WF x) : bintIsZero x = true ↔ x.val = 0 := by
  cases x with
  | imm v => simp [bintIsZero]
  | big neg ds =>
    obtain ⟨_, _, hv⟩ := WF_big.mp hx
    rw [MAXI_eq] at hv
    cases neg <;> simp [bintIsZero] <;> omega

/-- `fiBIntPowerMod`: `a^b` reduced modulo `c`, the sign that of `a^b`. -/
theorem fiBIntPowerMod_spec {a b c : BInt} (ha : WF a) (hb : WF b) (hc : WF c) (hc0 : c.val ≠ 0) (hb0 : 0 ≤ b.val) :
    (fiBIntPowerMod a b c).val = (a.val ^ b.val.toNat).tmod c.val ∧ WF (fiBIntPowerMod a b c) := by
  have hM := MAXI_eq
  have hm := MINI_eq
  unfold fiBIntPowerMod
  have hbz := bintIsZero_iff hb
  by_cases h0 : bintIsZero b = true
  · rw [if_pos h0]
    have hb' := hbz.mp h0
    rw [hb']
    have h1 : WF (.imm 1) := WF_imm_of (by omega) (by omega)
    have hmd := bintMod_spec h1 hc hc0
    refine ⟨?_, hmd.2⟩
    rw [hmd.1]
    simp
  · rw [if_neg h0]
    simp only
    have hbpos : 0 < b.val := by
      have : b.val ≠ 0 := fun h => h0 (hbz.mpr h)
      omega
    have hred := bintMod_spec ha hc hc0
    have hrz := bintIsZero_iff hred.2
    have hbit : bintBit b = b.val.natAbs.testBit := by funext i; exact bintBit_spec hb i
    have hlen := bintLength_spec hb
    have hsum : bitSum (bintBit b) 0 (bintLength b + 1) = b.val.toNat := by
      rw [hbit]
      have : b.val.toNat = b.val.natAbs := by omega
      rw [this]
      apply bitSum_full
      exact (lt_two_pow_iff_bitLen_le _ _).mpr (by omega)
    by_cases hr0 : bintIsZero (bintMod a c) = true
    · rw [if_pos hr0]
      have hz := hrz.mp hr0
      rw [hred.1] at hz
      refine ⟨?_, WF_imm_of (by omega) (by omega)⟩
      simp only [val_imm]
      -- a^E ≡ (a tmod c)^E = 0
      rw [← tmod_pow, hz]
      obtain ⟨k, hk⟩ : ∃ k, b.val.toNat = k + 1 := ⟨b.val.toNat - 1, by omega⟩
      rw [hk, Int.pow_succ]; simp
    · rw [if_neg hr0]
      have h1 : WF (.imm 1) := WF_imm_of (by omega) (by omega)
      obtain ⟨v, w⟩ := powerModLoop_spec (bintBit b) hc hc0 (bintLength b + 1) 0 h1 hred.2 (by omega)
      refine ⟨?_, w⟩
      rw [v, hsum, if_neg (by omega), hred.1]
      simp only [val_imm, Int.one_mul]
      exact tmod_pow _ _ _

/-! ### bintSmall -/

/-- `bintSmall` returns the value whenever it fits a C `long` (immediate or stored). -/
theorem bintSmall_spec {a : BInt} (ha : WF a) (h1 : -9223372036854775808 ≤ a.val) (h2 : a.val < 9223372036854775808) :
    bintSmall a = a.val := by
  have hR := R_eq
  have hW := W_eq
  have hM := MAXI_eq
  cases a with
  | imm v => rfl
  | big neg ds =>
    obtain ⟨hd, hn, hv⟩ := WF_big.mp ha
    have hne : ds ≠ [] := by intro h0; subst h0; simp at hv; omega
    have hnv : (natVal ds : Int) ≤ 9223372036854775808 := by
      cases neg <;> simp at h1 h2 <;> omega
    have hlen2 : ds.length = 2 := by
      have g1 := natVal_ge_of_norm hn hne
      have g2 := natVal_lt hd
      rcases Nat.lt_or_ge ds.length 2 with h | h
      · have : ds.length = 1 := by have := len_pos hne; omega
        rw [this] at g2; simp at g2; omega
      · rcases Nat.lt_or_ge 2 ds.length with h' | h'
        · have : R ^ 2 ≤ R ^ (ds.length - 1) := Nat.pow_le_pow_right R_pos (by omega)
          have : R ^ 2 = 18446744073709551616 := by rw [hR]
          omega
        · omega
    obtain ⟨d0, d1, rfl⟩ : ∃ d0 d1, ds = [d0, d1] := by
      match ds, hlen2 with
      | [x, y], _ => exact ⟨x, y, rfl⟩
    have g0 := hd.head
    have g1 := hd.tail.head
    simp only [natVal_cons, natVal_nil, Nat.mul_zero, Nat.add_zero] at hnv hv
    have hloop : bintSmallLoop [d0, d1] 0 0 = d0 + R * d1 := by
      simp only [bintSmallLoop, LG]
      have e0 : (d0 <<< 0) % W = d0 := by simp; exact Nat.mod_eq_of_lt (by omega)
      have e1 : (d1 <<< (0 + 32)) % W = 2 ^ 32 * d1 := by
        rw [Nat.shiftLeft_eq, Nat.mul_comm]
        exact Nat.mod_eq_of_lt (by omega)
      have hd0 : d0 < 2 ^ 32 := by omega
      simp only [e0, e1, Nat.zero_or, show (0:Nat) < 64 from by omega, show (0 + 32 : Nat) < 64 from by omega, if_true]
      rw [Nat.or_comm, ← Nat.two_pow_add_eq_or_of_lt hd0, hR]; omega
    simp only [bintSmall, hloop]
    cases neg
    · simp only [Bool.false_eq_true, if_false, val_big_false, natVal_cons, natVal_nil, Nat.mul_zero, Nat.add_zero]
      simp at h2
      exact wrapL_eq (by omega) (by omega)
    · simp only [if_true, val_big_true, natVal_cons, natVal_nil, Nat.mul_zero, Nat.add_zero]
      have hu : uw (0 - ((d0 + R * d1 : Nat) : Int)) = 18446744073709551616 - (d0 + R * d1) := by
        unfold uw; rw [W_eq]; omega
      rw [hu]
      unfold wrapL
      rw [W_eq, Int.bmod_def]
      split <;> omega

end AldorVerif.BigInt
