import AldorVerif.Lemmas.Linear
/-!
The block language of `pile_eq_braces` (Props/C14.lean): statements, their piled and braced
renderings, and the proof that both are linearised to the same token tags.
Core Lean only.
-/
namespace AldorVerif.Linear

/-- a statement of the block language: a one-line statement, or a head line followed by a block
of statements (`f(x) ==` + body, `if c then` + body, …); only the token tags matter -/
inductive Stmt where
  | line  (ts : List Tag)
  | block (head : List Tag) (body : List Stmt)
deriving Repr, Inhabited

/-- the tokens with these tags in consecutive columns from `c` on -/
def lineBody : Nat → List Tag → List Tok
  | _, [] => []
  | c, k :: r => ⟨k, "", 1, c⟩ :: lineBody (c + 1) r

/-- the newline token that ends the line -/
def lineNL (d : Nat) (ts : List Tag) : Tok := ⟨kwNewLine, "", 1, d + ts.length⟩

/-- the tokens of one source line starting in column `d`, with its newline token -/
def lineToks (d : Nat) (ts : List Tag) : List Tok := lineBody d ts ++ [lineNL d ts]

mutual
/-- piled rendering: every statement on its own line(s), a body indented by `w` more -/
def Stmt.piled (w : Nat) : Nat → Stmt → List Tok
  | d, .line ts => lineToks d ts
  | d, .block head body => lineToks d head ++ piledL w (d + w) body
def piledL (w : Nat) : Nat → List Stmt → List Tok
  | _, [] => []
  | d, s :: r => s.piled w d ++ piledL w d r
end

/-- the piled program text: `#pile`, then the statements at indentation `d0` -/
def piledProg (w d0 : Nat) (p : List Stmt) : List Tok := ⟨kwStartPile, "", 1, 1⟩ :: piledL w d0 p

/-- `isPileRequired`'s keywords -/
def pileKw (k : Tag) : Bool :=
  k == kwThen || k == kwElse || k == kwWith || k == kwAdd || k == kwTry || k == kwBut ||
  k == kwCatch || k == kwFinally || k == kwAlways

def kwTok (k : Tag) : Tok := ⟨k, "", 1, 1⟩

/-- does the body of a block get brackets: two or more statements, or a head that ends in a
keyword after which a pile is always formed -/
def needsWrap (head : List Tag) (body : List Stmt) : Bool :=
  2 ≤ body.length || head.getLast?.any pileKw

/-- `o l c` or just `l` -/
def wrapT (o c : Tag) (b : Bool) (l : List Tag) : List Tag := if b then o :: l ++ [c] else l

mutual
/-- the token tags of a statement with brackets `o … c` around bodies and `s` between
statements -/
def Stmt.tagsG (o s c : Tag) : Stmt → List Tag
  | .line ts => ts
  | .block head body => head ++ wrapT o c (needsWrap head body) (seqG o s c body)
def seqG (o s c : Tag) : List Stmt → List Tag
  | [] => []
  | [x] => x.tagsG o s c
  | x :: y :: r => x.tagsG o s c ++ [s] ++ seqG o s c (y :: r)
end

/-- the whole program: in brackets when it has more than one statement (this is what a `#pile`
around everything amounts to) -/
def progG (o s c : Tag) (p : List Stmt) : List Tag := wrapT o c (2 ≤ p.length) (seqG o s c p)

mutual
/-- braced rendering: a block is `{ s1 ; s2 ; … }`; the braces are left out around a single
statement unless the head ends in a keyword after which a pile is always formed. Newlines are
put after every `;` and `{` and before every `}` (they are layout only). -/
def Stmt.bracedTags : Stmt → List Tag
  | .line ts => ts
  | .block head body =>
    head ++ (if needsWrap head body then [kwOCurly, kwNewLine] ++ bracedTagsL body ++ [kwNewLine, kwCCurly]
             else bracedTagsL body)
def bracedTagsL : List Stmt → List Tag
  | [] => []
  | [s] => s.bracedTags
  | s :: s' :: r => s.bracedTags ++ [kwSemicolon, kwNewLine] ++ bracedTagsL (s' :: r)
end

/-- the braced program text -/
def bracedProg (p : List Stmt) : List Tok :=
  ((if 2 ≤ p.length then [kwOCurly, kwNewLine] ++ bracedTagsL p ++ [kwNewLine, kwCCurly]
    else bracedTagsL p)).map kwTok

/-- `SetTab`, `BackSet`, `BackTab` read as `{`, `;`, `}` -/
def untab (k : Tag) : Tag :=
  if k == kwSetTab then kwOCurly else if k == kwBackSet then kwSemicolon
  else if k == kwBackTab then kwCCurly else k

/-- a tag a statement of the block language may contain: an ordinary token -/
def plainTag (k : Tag) : Bool :=
  tkStart ≤ k && k < tkLimit && !(k == tkPreDoc || k == tkPostDoc || k == tkComment || k == kwSemicolon ||
    k == kwAt || k == kwOCurly || k == kwCCurly || k == kwNewLine || k == kwStartPile ||
    k == kwEndPile || k == kwSetTab || k == kwBackSet || k == kwBackTab || k == 9 || k == 10)

/-- a line that stands on its own in a pile: ordinary tokens, not starting with a token that
cannot start a statement, not ending in `,` or an opening bracket (such lines are continued) -/
def lineOk (ts : List Tag) : Bool :=
  ts.all plainTag && (ts.head?.any fun k => !isNonStarter k) &&
    (ts.getLast?.any fun k => !(k == kwComma || isOpener k))

mutual
def Stmt.ok : Stmt → Bool
  | .line ts => lineOk ts && !(ts.getLast?.any pileKw)
  | .block head body => lineOk head && !body.isEmpty && okL body
def okL : List Stmt → Bool
  | [] => true
  | s :: r => s.ok && okL r
end

/-- the statement for one program and one choice of indentation: linearising the piled text and
reading the tab tokens as braces gives the token tags of the linearised braced text -/
def pileEqBraces (w d0 : Nat) (p : List Stmt) : Bool :=
  ((linearize (piledProg w d0 p)).map fun t => untab t.tag) == ((linearize (bracedProg p)).map (·.tag))

/-! ## tags of well-formed statements -/

theorem plainTag_lt {k : Tag} (hk : plainTag k = true) : k < 132 := by
  unfold plainTag at hk
  simp only [Bool.and_eq_true, decide_eq_true_eq, tkLimit] at hk
  exact of_decide_eq_true hk.1.2

/-- everything the proofs need to know about an ordinary tag -/
def plainFacts (k : Tag) : Bool :=
  untab k == k && k != kwNewLine && k != tkComment && k != kwStartPile && k != kwEndPile &&
  k != kwOCurly && k != kwCCurly && k != kwSemicolon && k != kwAt && k != kwSetTab &&
  k != kwBackSet && k != kwBackTab && (tokHas k == ⟨true, true⟩)

theorem plainFacts_all : ∀ k, k < 132 → plainTag k = true → plainFacts k = true := by
  decide +kernel

theorem plain_facts {k : Tag} (hk : plainTag k = true) : plainFacts k = true :=
  plainFacts_all k (plainTag_lt hk) hk

theorem plainTag_untab {k : Tag} (hk : plainTag k = true) : untab k = k := by
  have := plain_facts hk
  simp only [plainFacts, Bool.and_eq_true, beq_iff_eq] at this
  exact this.1.1.1.1.1.1.1.1.1.1.1.1

/-! ## the braced side: the two `;` passes change nothing -/

/-- adjacency conditions under which `linISepAfterDontPiles` followed by `linXSep` is the
identity: a `;` stands before a token that can start a statement, a `}` before `;` or `}` -/
def pairOK (a b : Tag) : Bool :=
  (a != kwSemicolon || (!isNonStarter b && b != kwSemicolon)) &&
  (a != kwCCurly || b == kwSemicolon || b == kwCCurly)

def chainOK : List Tag → Bool
  | [] => true
  | [a] => a != kwSemicolon
  | a :: b :: r => pairOK a b && chainOK (b :: r)

theorem iSep_cons_ne (u : Tok) (q : List Tok) (hu : u.tag ≠ kwCCurly) :
    iSepAfterDontPiles (u :: q) = u :: iSepAfterDontPiles q := by
  cases q with
  | nil => rw [iSep_single]; simp [iSepAfterDontPiles]
  | cons v q => rw [iSep_cons_cons]; simp [hu]

theorem iSep_head (u : Tok) (q : List Tok) : ∃ q', iSepAfterDontPiles (u :: q) = u :: q' := by
  cases q with
  | nil => exact ⟨[], iSep_single u⟩
  | cons v q =>
    rw [iSep_cons_cons]
    split
    · split
      · exact ⟨_, rfl⟩
      · exact ⟨_, rfl⟩
    · exact ⟨_, rfl⟩

theorem xSepGo_skip (t s : Tok) (rest : List Tok) (hs : s.tag ≠ kwSemicolon) :
    xSepGo (t :: s :: rest) = t :: xSepGo (s :: rest) := by
  simp [xSepGo, hs]

theorem xSepGo_keep (t s u : Tok) (rest : List Tok) (hs : s.tag = kwSemicolon)
    (hu : isNonStarter u.tag = false) :
    xSepGo (t :: s :: u :: rest) = t :: xSepGo (s :: u :: rest) := by
  conv => lhs; unfold xSepGo
  simp [hs, hu]

theorem xSepGo_del (t s u : Tok) (rest : List Tok) (hs : s.tag = kwSemicolon)
    (hu : isNonStarter u.tag = true) :
    xSepGo (t :: s :: u :: rest) = t :: xSepGo (u :: rest) := by
  conv => lhs; unfold xSepGo
  simp [hs, hu]

theorem sep_id : ∀ l : List Tok, chainOK (l.map (·.tag)) = true →
    xSepGo (iSepAfterDontPiles l) = l
  | [], _ => by simp [iSepAfterDontPiles, xSepGo]
  | [t], _ => by rw [iSep_single]; simp [xSepGo]
  | t :: u :: r, h => by
    simp only [List.map_cons, chainOK, Bool.and_eq_true] at h
    obtain ⟨hp, hc⟩ := h
    have ih := sep_id (u :: r) (by simpa using hc)
    simp only [pairOK, Bool.and_eq_true, Bool.or_eq_true, bne_iff_ne, beq_iff_eq,
      Bool.not_eq_true', ne_eq] at hp
    obtain ⟨hp1, hp2⟩ := hp
    -- when `u` is `;` it is followed by a token that can start a statement
    have husemi : u.tag = kwSemicolon → ∃ v r', r = v :: r' ∧ isNonStarter v.tag = false ∧
        iSepAfterDontPiles (u :: r) = u :: iSepAfterDontPiles (v :: r') := by
      intro hu
      cases r with
      | nil => simp [chainOK, hu] at hc
      | cons v r' =>
        refine ⟨v, r', rfl, ?_, ?_⟩
        · simp only [List.map_cons, chainOK, Bool.and_eq_true, pairOK, Bool.or_eq_true, bne_iff_ne,
            beq_iff_eq, Bool.not_eq_true', ne_eq] at hc
          rcases hc.1.1 with h1 | h1
          · exact absurd hu h1
          · exact h1.1
        · exact iSep_cons_ne u _ (by rw [hu]; decide)
    by_cases ht : t.tag = kwCCurly
    · by_cases hu : u.tag = kwSemicolon
      · -- `} ;` : nothing inserted
        obtain ⟨v, r', hr, hv, hY⟩ := husemi hu
        subst hr
        obtain ⟨Z, hZ⟩ := iSep_head v r'
        rw [iSep_cons_cons, if_pos (by simp [ht]), if_pos (by simp [hu])]
        rw [hY, hZ] at ih ⊢
        rw [xSepGo_keep t u v Z hu hv, ih]
      · -- `} }` : a `;` is inserted and deleted again
        have hu' : u.tag = kwCCurly := by
          rcases hp2 with h1 | h1
          · rcases h1 with h1 | h1
            · exact absurd ht h1
            · exact absurd h1 hu
          · exact h1
        obtain ⟨Y', hY⟩ := iSep_head u r
        cases r with
        | nil =>
          rw [iSep_cons_cons, if_pos (by simp [ht]), if_neg (by simp [hu]), iSep_single]
          rw [xSepGo_del t _ u [] (by simp [Tok.kw]) (by rw [hu']; decide)]
          simp [xSepGo]
        | cons v r' =>
          rw [iSep_cons_cons, if_pos (by simp [ht]), if_neg (by simp [hu])]
          rw [hY] at ih ⊢
          rw [xSepGo_del t _ u Y' (by simp [Tok.kw]) (by rw [hu']; decide), ih]
    · rw [iSep_cons_ne t _ ht]
      by_cases hu : u.tag = kwSemicolon
      · obtain ⟨v, r', hr, hv, hY⟩ := husemi hu
        subst hr
        obtain ⟨Z, hZ⟩ := iSep_head v r'
        rw [hY, hZ] at ih ⊢
        rw [xSepGo_keep t u v Z hu hv, ih]
      · obtain ⟨Y', hY⟩ := iSep_head u r
        rw [hY] at ih ⊢
        rw [xSepGo_skip t u Y' hu, ih]

/-- adjacent pairs only (no condition on the last token) -/
def chainP : List Tag → Bool
  | [] => true
  | [_] => true
  | a :: b :: r => pairOK a b && chainP (b :: r)

theorem chainOK_of (l : List Tag) (h1 : chainP l = true) (h2 : ∀ b, l.getLast? = some b → b ≠ kwSemicolon) :
    chainOK l = true := by
  induction l with
  | nil => rfl
  | cons a r ih =>
    cases r with
    | nil => simp [chainOK]; exact h2 a rfl
    | cons b r' =>
      simp only [chainP, Bool.and_eq_true] at h1
      simp only [chainOK, Bool.and_eq_true]
      exact ⟨h1.1, ih h1.2 (by intro c hc; exact h2 c (by simpa using hc))⟩

theorem chainP_append (l1 l2 : List Tag) (h1 : chainP l1 = true) (h2 : chainP l2 = true)
    (hj : ∀ a b, l1.getLast? = some a → l2.head? = some b → pairOK a b = true) :
    chainP (l1 ++ l2) = true := by
  induction l1 with
  | nil => simpa using h2
  | cons a r ih =>
    cases r with
    | nil =>
      cases l2 with
      | nil => rfl
      | cons b r2 =>
        simp only [List.cons_append, List.nil_append, chainP, Bool.and_eq_true]
        exact ⟨hj a b rfl rfl, h2⟩
    | cons b r' =>
      simp only [chainP, Bool.and_eq_true] at h1
      simp only [List.cons_append, chainP, Bool.and_eq_true]
      refine ⟨h1.1, ?_⟩
      have := ih h1.2 (by intro x y hx hy; exact hj x y (by simpa using hx) hy)
      simpa using this

/-- a tag after which anything may come -/
theorem pairOK_free {a : Tag} (b : Tag) (h1 : a ≠ kwSemicolon) (h2 : a ≠ kwCCurly) : pairOK a b = true := by
  simp [pairOK, h1, h2]

theorem pairOK_semi {b : Tag} (h1 : isNonStarter b = false) (h2 : b ≠ kwSemicolon) :
    pairOK kwSemicolon b = true := by
  unfold pairOK
  have e1 : (kwSemicolon != kwCCurly) = true := by decide
  have e2 : (b != kwSemicolon) = true := by simp [h2]
  rw [h1, e1, e2]; rfl

theorem plain_free {a : Tag} (ha : plainTag a = true) : a ≠ kwSemicolon ∧ a ≠ kwCCurly := by
  have := plain_facts ha
  simp only [plainFacts, Bool.and_eq_true, bne_iff_ne, ne_eq] at this
  exact ⟨this.1.1.1.1.1.2, this.1.1.1.1.1.1.2⟩

/-- what is known about the tags of a well-formed statement (list) with brackets `{ ; }` -/
structure QOK (l : List Tag) : Prop where
  chain : chainP l = true
  first : ∃ a r, l = a :: r ∧ plainTag a = true ∧ isNonStarter a = false
  last  : ∃ b, l.getLast? = some b ∧ (plainTag b = true ∨ b = kwCCurly)

theorem chainP_plain (ts : List Tag) (h : ts.all plainTag = true) : chainP ts = true := by
  induction ts with
  | nil => rfl
  | cons a r ih =>
    cases r with
    | nil => rfl
    | cons b r' =>
      simp only [List.all_cons, Bool.and_eq_true] at h
      simp only [chainP, Bool.and_eq_true]
      exact ⟨pairOK_free b (plain_free h.1).1 (plain_free h.1).2, ih (by simpa using h.2)⟩

theorem lineOk_unfold {ts : List Tag} (h : lineOk ts = true) :
    ts.all plainTag = true ∧ (∃ a r, ts = a :: r ∧ isNonStarter a = false) ∧
    (∃ b, ts.getLast? = some b ∧ b ≠ kwComma ∧ isOpener b = false) := by
  simp only [lineOk, Bool.and_eq_true] at h
  obtain ⟨⟨h1, h2⟩, h3⟩ := h
  refine ⟨h1, ?_, ?_⟩
  · cases ts with
    | nil => simp at h2
    | cons a r => exact ⟨a, r, rfl, by simpa using h2⟩
  · cases hl : ts.getLast? with
    | none => simp [hl] at h3
    | some b => simp [hl] at h3; exact ⟨b, rfl, h3.1, h3.2⟩

theorem mem_of_getLast? {α : Type} {l : List α} {b : α} (h : l.getLast? = some b) : b ∈ l :=
  List.mem_of_getLast? h

theorem QOK_line {ts : List Tag} (h : lineOk ts = true) : QOK ts := by
  obtain ⟨h1, ⟨a, r, hts, ha⟩, ⟨b, hb, _, _⟩⟩ := lineOk_unfold h
  refine ⟨chainP_plain ts h1, ⟨a, r, hts, ?_, ha⟩, ⟨b, hb, Or.inl ?_⟩⟩
  · exact List.all_eq_true.1 h1 a (by simp [hts])
  · exact List.all_eq_true.1 h1 b (mem_of_getLast? hb)

theorem getLast?_append_of_ne_nil {α : Type} (l1 l2 : List α) (h : l2 ≠ []) :
    (l1 ++ l2).getLast? = l2.getLast? := by
  induction l1 with
  | nil => rfl
  | cons a l1 ih =>
    cases hq : l1 ++ l2 with
    | nil =>
      have : l2 = [] := by
        cases l1 with
        | nil => simpa using hq
        | cons _ _ => simp at hq
      exact absurd this h
    | cons c q =>
      rw [List.cons_append, hq, List.getLast?_cons_cons, ← hq, ih]

theorem QOK_seq {l1 l2 : List Tag} (h1 : QOK l1) (h2 : QOK l2) : QOK (l1 ++ [kwSemicolon] ++ l2) := by
  obtain ⟨a1, r1, e1, pa1, sa1⟩ := h1.first
  obtain ⟨b1, lb1, hb1⟩ := h1.last
  obtain ⟨a2, r2, e2, pa2, sa2⟩ := h2.first
  obtain ⟨b2, lb2, hb2⟩ := h2.last
  refine ⟨?_, ⟨a1, r1 ++ [kwSemicolon] ++ l2, by simp [e1], pa1, sa1⟩, ⟨b2, ?_, hb2⟩⟩
  · apply chainP_append
    · apply chainP_append _ _ h1.chain rfl
      intro a b ha hb
      rw [lb1] at ha; cases ha
      simp at hb; subst hb
      rcases hb1 with hp | hc
      · exact pairOK_free _ (plain_free hp).1 (plain_free hp).2
      · subst hc; decide
    · exact h2.chain
    · intro a b ha hb
      rw [getLast?_append_of_ne_nil _ _ (by simp)] at ha
      simp at ha; subst ha
      rw [e2] at hb; simp at hb; subst hb
      exact pairOK_semi sa2 (plain_free pa2).1
  · rw [getLast?_append_of_ne_nil _ _ (by rw [e2]; simp)]; exact lb2

/-- `{ l }` -/
theorem chain_wrap {l : List Tag} (h : QOK l) :
    chainP (kwOCurly :: l ++ [kwCCurly]) = true ∧
    (kwOCurly :: l ++ [kwCCurly]).getLast? = some kwCCurly := by
  obtain ⟨b1, lb1, hb1⟩ := h.last
  obtain ⟨a1, r1, e1, _, _⟩ := h.first
  constructor
  · have : kwOCurly :: l ++ [kwCCurly] = ([kwOCurly] ++ l) ++ [kwCCurly] := by simp
    rw [this]
    apply chainP_append
    · apply chainP_append _ _ rfl h.chain
      intro a b ha _
      simp at ha; subst ha
      exact pairOK_free _ (by decide) (by decide)
    · rfl
    · intro a b ha hb
      rw [getLast?_append_of_ne_nil _ _ (by rw [e1]; simp), lb1] at ha
      cases ha
      simp at hb; subst hb
      rcases hb1 with hp | hc
      · exact pairOK_free _ (plain_free hp).1 (plain_free hp).2
      · subst hc; decide
  · have : kwOCurly :: l ++ [kwCCurly] = ([kwOCurly] ++ l) ++ [kwCCurly] := by simp
    rw [this, getLast?_append_of_ne_nil _ _ (by simp)]
    rfl

theorem QOK_block {head X : List Tag} (hh : lineOk head = true)
    (hX : (QOK X) ∨ (∃ l, QOK l ∧ X = kwOCurly :: l ++ [kwCCurly])) : QOK (head ++ X) := by
  have qh := QOK_line hh
  obtain ⟨a1, r1, e1, pa1, sa1⟩ := qh.first
  obtain ⟨b1, lb1, hb1⟩ := qh.last
  have hb1p : plainTag b1 = true := by
    obtain ⟨h1, _, _⟩ := lineOk_unfold hh
    exact List.all_eq_true.1 h1 b1 (mem_of_getLast? lb1)
  have hj : ∀ a b, head.getLast? = some a → X.head? = some b → pairOK a b = true := by
    intro a b ha _
    rw [lb1] at ha; cases ha
    exact pairOK_free _ (plain_free hb1p).1 (plain_free hb1p).2
  rcases hX with hX | ⟨l, hl, rfl⟩
  · obtain ⟨a2, r2, e2, _, _⟩ := hX.first
    obtain ⟨b2, lb2, hb2⟩ := hX.last
    refine ⟨chainP_append _ _ qh.chain hX.chain hj, ⟨a1, r1 ++ X, by simp [e1], pa1, sa1⟩, ⟨b2, ?_, hb2⟩⟩
    rw [getLast?_append_of_ne_nil _ _ (by rw [e2]; simp)]; exact lb2
  · obtain ⟨hc, hlast⟩ := chain_wrap hl
    refine ⟨chainP_append _ _ qh.chain hc hj, ⟨a1, r1 ++ (kwOCurly :: l ++ [kwCCurly]), by simp [e1], pa1, sa1⟩, ⟨kwCCurly, ?_, Or.inr rfl⟩⟩
    rw [getLast?_append_of_ne_nil _ _ (by simp)]; exact hlast

mutual
theorem QOK_stmt : ∀ s : Stmt, s.ok = true → QOK (s.tagsG kwOCurly kwSemicolon kwCCurly)
  | .line ts, h => by
    simp only [Stmt.ok, Bool.and_eq_true] at h
    simpa [Stmt.tagsG] using QOK_line h.1
  | .block head body, h => by
    simp only [Stmt.ok, Bool.and_eq_true, Bool.not_eq_true', List.isEmpty_eq_false_iff] at h
    obtain ⟨⟨hh, hne⟩, hb⟩ := h
    have q := QOK_seqG body hb hne
    simp only [Stmt.tagsG, wrapT]
    apply QOK_block hh
    split
    · exact Or.inr ⟨_, q, rfl⟩
    · exact Or.inl q
theorem QOK_seqG : ∀ l : List Stmt, okL l = true → l ≠ [] →
    QOK (seqG kwOCurly kwSemicolon kwCCurly l)
  | [], _, h => absurd rfl h
  | [x], h, _ => by
    simp only [okL, Bool.and_eq_true] at h
    simpa [seqG] using QOK_stmt x h.1
  | x :: y :: r, h, _ => by
    simp only [okL, Bool.and_eq_true] at h
    have q1 := QOK_stmt x h.1
    have q2 := QOK_seqG (y :: r) (by simp [okL, h.2]) (by simp)
    simpa [seqG] using QOK_seq q1 q2
end

/-- the braced program, without its newlines, passes the two `;` passes unchanged -/
theorem progG_chainOK (p : List Stmt) (h : okL p = true) (hne : p ≠ []) :
    chainOK (progG kwOCurly kwSemicolon kwCCurly p) = true ∧
    (progG kwOCurly kwSemicolon kwCCurly p).head? ≠ some kwSemicolon := by
  have q := QOK_seqG p h hne
  obtain ⟨a1, r1, e1, pa1, _⟩ := q.first
  obtain ⟨b1, lb1, hb1⟩ := q.last
  simp only [progG, wrapT]
  split
  · obtain ⟨hc, hlast⟩ := chain_wrap q
    refine ⟨chainOK_of _ hc ?_, by simp; decide⟩
    intro b hb; rw [hlast] at hb; cases hb; decide
  · refine ⟨chainOK_of _ q.chain ?_, ?_⟩
    · intro b hb; rw [lb1] at hb; cases hb
      rcases hb1 with hp | hc
      · exact (plain_free hp).1
      · subst hc; decide
    · rw [e1]; simp; exact (plain_free pa1).1

/-! ### the braced text: newlines are layout -/

theorem xTokens_nl_blank (skip : Bool) (l : List Tok) :
    xTokens kwNewLine (xBlankLinesGo skip l) = xTokens kwNewLine l := by
  induction l generalizing skip with
  | nil => rfl
  | cons t r ih =>
    by_cases hn : t.tag = kwNewLine
    · cases skip <;> simp [xBlankLinesGo, hn, xTokens] <;> simpa [xTokens] using ih true
    · simp only [xBlankLinesGo, hn, beq_iff_eq, if_false]
      simp only [xTokens, List.filter_cons, bne_iff_ne, ne_eq, hn, not_false_eq_true, decide_true, if_true]
      congr 1
      simpa [xTokens] using ih (t.tag == kwStartPile)

/-- tags that stay when comments and newlines are removed -/
def keepTag (k : Tag) : Bool := k != tkComment && k != kwNewLine

theorem filter_plain (ts : List Tag) (h : ts.all plainTag = true) : ts.filter keepTag = ts := by
  rw [List.filter_eq_self]
  intro k hk
  have := plain_facts (List.all_eq_true.1 h k hk)
  simp only [plainFacts, Bool.and_eq_true, bne_iff_ne, ne_eq] at this
  simp [keepTag, this.1.1.1.1.1.1.1.1.1.1.1.2, this.1.1.1.1.1.1.1.1.1.1.2]

@[simp] theorem keepTag_ocurly : keepTag kwOCurly = true := by decide
@[simp] theorem keepTag_ccurly : keepTag kwCCurly = true := by decide
@[simp] theorem keepTag_semi : keepTag kwSemicolon = true := by decide
@[simp] theorem keepTag_nl : keepTag kwNewLine = false := by decide

mutual
theorem bracedTags_filter : ∀ s : Stmt, s.ok = true →
    s.bracedTags.filter keepTag = s.tagsG kwOCurly kwSemicolon kwCCurly
  | .line ts, h => by
    simp only [Stmt.ok, Bool.and_eq_true] at h
    simp [Stmt.bracedTags, Stmt.tagsG, filter_plain ts (lineOk_unfold h.1).1]
  | .block head body, h => by
    simp only [Stmt.ok, Bool.and_eq_true] at h
    have hh := filter_plain head (lineOk_unfold h.1.1).1
    have hb := bracedTagsL_filter body h.2
    simp only [Stmt.bracedTags, Stmt.tagsG, wrapT]
    split
    · simp [List.filter_append, List.filter_cons, hh, hb]
    · simp [List.filter_append, hh, hb]
theorem bracedTagsL_filter : ∀ l : List Stmt, okL l = true →
    (bracedTagsL l).filter keepTag = seqG kwOCurly kwSemicolon kwCCurly l
  | [], _ => rfl
  | [x], h => by
    simp only [okL, Bool.and_eq_true] at h
    simpa [bracedTagsL, seqG] using bracedTags_filter x h.1
  | x :: y :: r, h => by
    simp only [okL, Bool.and_eq_true] at h
    have h1 := bracedTags_filter x h.1
    have h2 := bracedTagsL_filter (y :: r) (by simp [okL, h.2])
    simp [bracedTagsL, seqG, List.filter_append, List.filter_cons, h1, h2]
end

mutual
theorem bracedTags_all (P : Tag → Bool) (hp : ∀ k, plainTag k = true → P k = true)
    (h1 : P kwOCurly = true) (h2 : P kwCCurly = true) (h3 : P kwSemicolon = true) (h4 : P kwNewLine = true) :
    ∀ s : Stmt, s.ok = true → s.bracedTags.all P = true
  | .line ts, h => by
    simp only [Stmt.ok, Bool.and_eq_true] at h
    simp only [Stmt.bracedTags, List.all_eq_true]
    intro k hk
    exact hp k (List.all_eq_true.1 (lineOk_unfold h.1).1 k hk)
  | .block head body, h => by
    simp only [Stmt.ok, Bool.and_eq_true] at h
    have hh : head.all P = true := by
      rw [List.all_eq_true]; intro k hk
      exact hp k (List.all_eq_true.1 (lineOk_unfold h.1.1).1 k hk)
    have hb := bracedTagsL_all P hp h1 h2 h3 h4 body h.2
    simp only [Stmt.bracedTags]
    split <;> simp [List.all_append, hh, hb, h1, h2, h4]
theorem bracedTagsL_all (P : Tag → Bool) (hp : ∀ k, plainTag k = true → P k = true)
    (h1 : P kwOCurly = true) (h2 : P kwCCurly = true) (h3 : P kwSemicolon = true) (h4 : P kwNewLine = true) :
    ∀ l : List Stmt, okL l = true → (bracedTagsL l).all P = true
  | [], _ => rfl
  | [x], h => by
    simp only [okL, Bool.and_eq_true] at h
    simpa [bracedTagsL] using bracedTags_all P hp h1 h2 h3 h4 x h.1
  | x :: y :: r, h => by
    simp only [okL, Bool.and_eq_true] at h
    have q1 := bracedTags_all P hp h1 h2 h3 h4 x h.1
    have q2 := bracedTagsL_all P hp h1 h2 h3 h4 (y :: r) (by simp [okL, h.2])
    simp [bracedTagsL, List.all_append, q1, q2, h3, h4]
end

theorem xSepLeading_iSep (l : List Tok) (h : ∀ t, l.head? = some t → t.tag ≠ kwSemicolon) :
    xSepLeading (iSepAfterDontPiles l) = iSepAfterDontPiles l := by
  cases l with
  | nil => simp [iSepAfterDontPiles, xSepLeading]
  | cons t r =>
    obtain ⟨q, hq⟩ := iSep_head t r
    rw [hq]
    have := h t rfl
    simp [xSepLeading, this]

/-- **the braced side**: the braced text of a well-formed program is linearised to its tags
without the newlines -/
theorem braced_tags (p : List Stmt) (h : okL p = true) (hne : p ≠ []) :
    (linearize (bracedProg p)).map (·.tag) = progG kwOCurly kwSemicolon kwCCurly p := by
  -- the tag list of the text
  have hall : ∀ (P : Tag → Bool), (∀ k, plainTag k = true → P k = true) → P kwOCurly = true →
      P kwCCurly = true → P kwSemicolon = true → P kwNewLine = true →
      ∀ t ∈ bracedProg p, P t.tag = true := by
    intro P hp h1 h2 h3 h4 t ht
    have hb := bracedTagsL_all P hp h1 h2 h3 h4 p h
    simp only [bracedProg, List.mem_map] at ht
    obtain ⟨k, hk, rfl⟩ := ht
    simp only [kwTok]
    split at hk
    · simp only [List.mem_append, List.mem_cons, List.not_mem_nil, or_false] at hk
      rcases hk with (hk | hk) | hk
      · rcases hk with rfl | rfl <;> assumption
      · exact List.all_eq_true.1 hb k hk
      · rcases hk with rfl | rfl <;> assumption
    · exact List.all_eq_true.1 hb k hk
  have hnp : ∀ t ∈ bracedProg p, t.tag ≠ kwStartPile := by
    intro t ht
    have := hall (fun k => k != kwStartPile) (by
      intro k hk
      have := plain_facts hk
      simp only [plainFacts, Bool.and_eq_true, bne_iff_ne, ne_eq] at this
      simp [this.1.1.1.1.1.1.1.1.1.2]) (by decide) (by decide) (by decide) (by decide) t ht
    simpa using this
  rw [linearize_nopile _ hnp]
  -- remove newlines (and the comments that are not there)
  have hfilt : xTokens kwNewLine (xBlankLines (xTokens tkComment (bracedProg p))) =
      (progG kwOCurly kwSemicolon kwCCurly p).map kwTok := by
    unfold xBlankLines
    rw [xTokens_nl_blank]
    have e : ∀ L : List Tag, xTokens kwNewLine (xTokens tkComment (L.map kwTok)) = (L.filter keepTag).map kwTok := by
      intro L
      simp only [xTokens, List.filter_map, List.filter_filter]
      congr 1
      apply List.filter_congr
      intro k _
      simp [keepTag, kwTok, Bool.and_comm]
    rw [bracedProg, e]
    congr 1
    have hb := bracedTagsL_filter p h
    simp only [progG, wrapT]
    by_cases h2 : 2 ≤ p.length
    · simp [h2, List.filter_append, List.filter_cons, hb]
    · simp [h2, hb]
  rw [hfilt]
  obtain ⟨hc, hhead⟩ := progG_chainOK p h hne
  unfold useNeededSep xSep
  rw [xSepLeading_iSep, sep_id]
  · simp [Function.comp_def, kwTok]
  · simpa [Function.comp_def, kwTok] using hc
  · intro t ht
    cases hX : progG kwOCurly kwSemicolon kwCCurly p with
    | nil => simp [hX] at ht
    | cons k r =>
      rw [hX] at ht hhead
      simp at ht hhead
      subst ht
      exact hhead

/-! ## reading the tab tokens as braces -/

theorem map_untab_plain (ts : List Tag) (h : ts.all plainTag = true) : ts.map untab = ts := by
  induction ts with
  | nil => rfl
  | cons k r ih =>
    simp only [List.all_cons, Bool.and_eq_true] at h
    simp [plainTag_untab h.1, ih h.2]

mutual
theorem tagsG_untab : ∀ s : Stmt, s.ok = true →
    (s.tagsG kwSetTab kwBackSet kwBackTab).map untab = s.tagsG kwOCurly kwSemicolon kwCCurly
  | .line ts, h => by
    simp only [Stmt.ok, Bool.and_eq_true] at h
    simp [Stmt.tagsG, map_untab_plain ts (lineOk_unfold h.1).1]
  | .block head body, h => by
    simp only [Stmt.ok, Bool.and_eq_true] at h
    have hh := map_untab_plain head (lineOk_unfold h.1.1).1
    have hb := seqG_untab body h.2
    simp only [Stmt.tagsG, wrapT]
    split
    · simp [hh, hb]; decide
    · simp [hh, hb]
theorem seqG_untab : ∀ l : List Stmt, okL l = true →
    (seqG kwSetTab kwBackSet kwBackTab l).map untab = seqG kwOCurly kwSemicolon kwCCurly l
  | [], _ => rfl
  | [x], h => by
    simp only [okL, Bool.and_eq_true] at h
    simpa [seqG] using tagsG_untab x h.1
  | x :: y :: r, h => by
    simp only [okL, Bool.and_eq_true] at h
    have h1 := tagsG_untab x h.1
    have h2 := seqG_untab (y :: r) (by simp [okL, h.2])
    simp [seqG, h1, h2]; decide
end

theorem progG_untab (p : List Stmt) (h : okL p = true) :
    (progG kwSetTab kwBackSet kwBackTab p).map untab = progG kwOCurly kwSemicolon kwCCurly p := by
  have hb := seqG_untab p h
  simp only [progG, wrapT]
  split
  · simp [hb]; decide
  · exact hb

/-! ## the piled side

### the text as a list of lines -/

/-- a source line of the piled text: its column and its tags -/
abbrev Line := Nat × List Tag

def flatLines (ll : List Line) : List Tok := ll.flatMap fun x => lineToks x.1 x.2

/-- a non-empty line of ordinary tokens -/
def Line.good (x : Line) : Prop := x.2 ≠ [] ∧ x.2.all plainTag = true

mutual
def Stmt.lns (w : Nat) : Nat → Stmt → List Line
  | d, .line ts => [(d, ts)]
  | d, .block head body => (d, head) :: lnsL w (d + w) body
def lnsL (w : Nat) : Nat → List Stmt → List Line
  | _, [] => []
  | d, s :: r => s.lns w d ++ lnsL w d r
end

mutual
theorem piled_eq_lns (w : Nat) : ∀ (s : Stmt) (d : Nat), s.piled w d = flatLines (s.lns w d)
  | .line ts, d => by simp [Stmt.piled, Stmt.lns, flatLines]
  | .block head body, d => by
    simp [Stmt.piled, Stmt.lns, flatLines, piledL_eq_lnsL w body (d + w)]
theorem piledL_eq_lnsL (w : Nat) : ∀ (l : List Stmt) (d : Nat), piledL w d l = flatLines (lnsL w d l)
  | [], d => by simp [piledL, lnsL, flatLines]
  | s :: r, d => by
    have h1 := piled_eq_lns w s d
    have h2 := piledL_eq_lnsL w r d
    simp [piledL, lnsL, flatLines] at h1 h2 ⊢
    rw [h1, h2]
end

mutual
theorem lns_good (w : Nat) : ∀ (s : Stmt) (d : Nat), s.ok = true → ∀ x ∈ s.lns w d, Line.good x
  | .line ts, d, h => by
    simp only [Stmt.ok, Bool.and_eq_true] at h
    obtain ⟨h1, ⟨a, r, e, _⟩, _⟩ := lineOk_unfold h.1
    intro x hx
    simp only [Stmt.lns, List.mem_singleton] at hx
    subst hx
    exact ⟨by simp [e], h1⟩
  | .block head body, d, h => by
    simp only [Stmt.ok, Bool.and_eq_true] at h
    obtain ⟨h1, ⟨a, r, e, _⟩, _⟩ := lineOk_unfold h.1.1
    intro x hx
    simp only [Stmt.lns, List.mem_cons] at hx
    rcases hx with rfl | hx
    · exact ⟨by simp [e], h1⟩
    · exact lnsL_good w body (d + w) h.2 x hx
theorem lnsL_good (w : Nat) : ∀ (l : List Stmt) (d : Nat), okL l = true → ∀ x ∈ lnsL w d l, Line.good x
  | [], _, _ => by simp [lnsL]
  | s :: r, d, h => by
    simp only [okL, Bool.and_eq_true] at h
    intro x hx
    simp only [lnsL, List.mem_append] at hx
    rcases hx with hx | hx
    · exact lns_good w s d h.1 x hx
    · exact lnsL_good w r d h.2 x hx
end

/-! ### facts about one line -/

theorem lineToks_eq (d : Nat) (ts : List Tag) : lineToks d ts = lineBody d ts ++ [lineNL d ts] := rfl

theorem lineBody_tags (d : Nat) (ts : List Tag) : (lineBody d ts).map (·.tag) = ts := by
  induction ts generalizing d with
  | nil => rfl
  | cons k r ih => simp [lineBody, ih]

theorem lineBody_length (d : Nat) (ts : List Tag) : (lineBody d ts).length = ts.length := by
  induction ts generalizing d with
  | nil => rfl
  | cons k r ih => simp [lineBody, ih]

theorem lineBody_cons (d : Nat) (k : Tag) (r : List Tag) :
    lineBody d (k :: r) = ⟨k, "", 1, d⟩ :: lineBody (d + 1) r := rfl

theorem lineBody_plain (d : Nat) (ts : List Tag) (h : ts.all plainTag = true) :
    ∀ t ∈ lineBody d ts, plainTag t.tag = true := by
  intro t ht
  have : t.tag ∈ (lineBody d ts).map (·.tag) := List.mem_map_of_mem ht
  rw [lineBody_tags] at this
  exact List.all_eq_true.1 h _ this


/-- what the tree builder needs to know about an ordinary token -/
theorem plain_tok_facts {t : Tok} (h : plainTag t.tag = true) :
    t.tag ≠ kwNewLine ∧ t.tag ≠ tkComment ∧ t.tag ≠ kwStartPile ∧ t.tag ≠ kwEndPile ∧
    t.tag ≠ kwOCurly ∧ t.tag ≠ kwCCurly ∧ t.tag ≠ kwSemicolon ∧ t.tag ≠ kwAt ∧ tokHas t.tag = ⟨true, true⟩ := by
  have := plain_facts h
  simp only [plainFacts, Bool.and_eq_true, bne_iff_ne, ne_eq, beq_iff_eq] at this
  obtain ⟨⟨⟨⟨⟨⟨⟨⟨⟨⟨⟨⟨_, a1⟩, a2⟩, a3⟩, a4⟩, a5⟩, a6⟩, a7⟩, a8⟩, _⟩, _⟩, _⟩, a12⟩ := this
  exact ⟨a1, a2, a3, a4, a5, a6, a7, a8, a12⟩

/-! ### step A: nothing to remove before the tree is built -/

theorem xTokens_id (k : Tag) (l : List Tok) (h : ∀ t ∈ l, t.tag ≠ k) : xTokens k l = l := by
  unfold xTokens
  rw [List.filter_eq_self]
  intro t ht
  simp [h t ht]

theorem blankGo_body (body : List Tok) (hb : ∀ t ∈ body, plainTag t.tag = true) (hne : body ≠ [])
    (skip : Bool) (rest : List Tok) :
    xBlankLinesGo skip (body ++ rest) = body ++ xBlankLinesGo false rest := by
  induction body generalizing skip with
  | nil => exact absurd rfl hne
  | cons t r ih =>
    obtain ⟨h1, _, h3, _⟩ := plain_tok_facts (hb t (by simp))
    have e3 : (t.tag == kwStartPile) = false := by simp [h3]
    cases r with
    | nil => simp [xBlankLinesGo, h1, e3]
    | cons u r' =>
      have := ih (fun x hx => hb x (by simp [hx])) (by simp) false
      simp only [List.cons_append] at this ⊢
      rw [xBlankLinesGo]
      simp only [h1, beq_iff_eq, if_false, e3]
      rw [this]

theorem lineBody_ne_nil (d : Nat) {ts : List Tag} (h : ts ≠ []) : lineBody d ts ≠ [] := by
  cases ts with
  | nil => exact absurd rfl h
  | cons k r => simp [lineBody]

theorem blankGo_lines (ll : List Line) (h : ∀ x ∈ ll, Line.good x) (skip : Bool) :
    xBlankLinesGo skip (flatLines ll) = flatLines ll := by
  induction ll generalizing skip with
  | nil => simp [flatLines, xBlankLinesGo]
  | cons x r ih =>
    obtain ⟨hne, hp⟩ := h x (by simp)
    have e : flatLines (x :: r) = lineBody x.1 x.2 ++ (lineNL x.1 x.2 :: flatLines r) := by
      simp [flatLines, lineToks]
    rw [e, blankGo_body _ (lineBody_plain _ _ hp) (lineBody_ne_nil _ hne)]
    congr 1
    rw [xBlankLinesGo]
    simp only [lineNL, beq_self_eq_true, if_true, Bool.false_eq_true, if_false]
    rw [ih (fun y hy => h y (by simp [hy]))]

theorem flatLines_plainish (ll : List Line) (h : ∀ x ∈ ll, Line.good x) :
    ∀ t ∈ flatLines ll, plainTag t.tag = true ∨ t.tag = kwNewLine := by
  intro t ht
  simp only [flatLines, List.mem_flatMap] at ht
  obtain ⟨x, hx, ht⟩ := ht
  simp only [lineToks, List.mem_append, List.mem_singleton] at ht
  rcases ht with ht | ht
  · exact Or.inl (lineBody_plain _ _ (h x hx).2 t ht)
  · subst ht; exact Or.inr rfl

theorem prepare_piled (ll : List Line) (h : ∀ x ∈ ll, Line.good x) :
    prepare false (⟨kwStartPile, "", 1, 1⟩ :: flatLines ll) = ⟨kwStartPile, "", 1, 1⟩ :: flatLines ll := by
  have hc : ∀ t ∈ (⟨kwStartPile, "", 1, 1⟩ : Tok) :: flatLines ll, t.tag ≠ tkComment := by
    intro t ht
    rcases List.mem_cons.1 ht with rfl | ht
    · decide
    · rcases flatLines_plainish ll h t ht with hp | hp
      · exact (plain_tok_facts hp).2.1
      · rw [hp]; decide
  simp only [prepare, xTokens_id _ _ hc, xBlankLines, Bool.false_eq_true, if_false]
  rw [xBlankLinesGo]
  have e1 : ((⟨kwStartPile, "", 1, 1⟩ : Tok).tag == kwNewLine) = false := by decide
  have e2 : ((⟨kwStartPile, "", 1, 1⟩ : Tok).tag == kwStartPile) = true := by decide
  simp only [e1, e2, Bool.false_eq_true, if_false]
  rw [blankGo_lines ll h]


/-! ### step B: the line tree of the piled text -/

/-- the node `lntFrTL_DoLine` makes of a line -/
def lineNode (x : Line) : LNode := .ntok ⟨true, true⟩ (x.1 : Int) (lineToks x.1 x.2)

theorem frDoLineLoop_line (dDo dDont : Nat) (nl : Tok) (hnl : nl.tag = kwNewLine) :
    ∀ (body : List Tok) (fuel : Nat) (ll : List LNode) (rest : List Tok),
      (∀ t ∈ body, plainTag t.tag = true) → body.length < fuel →
      frDoLineLoop fuel dDo dDont ll (body ++ nl :: rest) =
        (.tok1 nl :: ((body.map LNode.tok1).reverse ++ ll), rest) := by
  intro body
  induction body with
  | nil =>
    intro fuel ll rest _ hf
    cases fuel with
    | zero => simp at hf
    | succ n =>
      have e1 : (nl.tag == kwStartPile) = false := by rw [hnl]; decide
      have e2 : (nl.tag == kwOCurly) = false := by rw [hnl]; decide
      have e3 : (nl.tag == kwEndPile) = false := by rw [hnl]; decide
      have e4 : (nl.tag == kwNewLine) = true := by rw [hnl]; decide
      simp [frDoLineLoop, e1, e2, e3, e4]
  | cons t r ih =>
    intro fuel ll rest hb hf
    cases fuel with
    | zero => simp at hf
    | succ n =>
      obtain ⟨h1, _, h3, h4, h5, h6, _, _, _⟩ := plain_tok_facts (hb t (by simp))
      have e1 : (t.tag == kwStartPile) = false := by simp [h3]
      have e2 : (t.tag == kwOCurly) = false := by simp [h5]
      have e3 : (t.tag == kwEndPile) = false := by simp [h4]
      have e4 : (t.tag == kwNewLine) = false := by simp [h1]
      have e5 : (t.tag == kwCCurly) = false := by simp [h6]
      simp only [List.cons_append, frDoLineLoop, e1, e2, e3, e4, e5, Bool.false_and, Bool.false_eq_true,
        if_false]
      rw [ih n (.tok1 t :: ll) rest (fun x hx => hb x (by simp [hx])) (by simp at hf; omega)]
      simp

theorem hasOfList_line (body : List Tok) (nl : Tok) (hb : ∀ t ∈ body, plainTag t.tag = true)
    (hne : body ≠ []) (hnl : nl.tag = kwNewLine) :
    hasOfList ((body ++ [nl]).map LNode.tok1) = ⟨true, true⟩ := by
  have gen : ∀ (l : List Tok) (acc : Has), acc = ⟨true, true⟩ →
      (∀ t ∈ l, plainTag t.tag = true ∨ t.tag = kwNewLine) →
      (l.map LNode.tok1).foldl (fun h c => h.or c.has) acc = ⟨true, true⟩ := by
    intro l
    induction l with
    | nil => intro acc ha _; simpa using ha
    | cons t r ih =>
      intro acc ha hl
      simp only [List.map_cons, List.foldl_cons]
      apply ih
      · subst ha; simp [Has.or]
      · intro x hx; exact hl x (by simp [hx])
  cases body with
  | nil => exact absurd rfl hne
  | cons t r =>
    unfold hasOfList
    simp only [List.cons_append, List.map_cons, List.foldl_cons]
    apply gen
    · have := (plain_tok_facts (hb t (by simp))).2.2.2.2.2.2.2.2
      simp [Has.or, Has.none, LNode.has, this]
    · intro x hx
      simp only [List.mem_append, List.mem_singleton] at hx
      rcases hx with hx | hx
      · exact Or.inl (hb x (by simp [hx]))
      · subst hx; exact Or.inr hnl

theorem makeLine_toks2 (t u : Tok) (r : List Tok) (in0 : Int) :
    makeLine ((t :: u :: r).map LNode.tok1) in0 =
      .ntok (hasOfList ((t :: u :: r).map LNode.tok1)) in0 (t :: u :: r) := by
  have hall : ∀ l : List Tok, (l.map LNode.tok1).all LNode.isTok1 = true := by
    intro l
    induction l with
    | nil => rfl
    | cons t r ih => simp only [List.map_cons, List.all_cons, LNode.isTok1, ih, Bool.and_self]
  have hfm : ∀ l : List Tok, (l.map LNode.tok1).filterMap LNode.tok1? = l := by
    intro l
    induction l with
    | nil => rfl
    | cons t r ih => simp only [List.map_cons, List.filterMap_cons, LNode.tok1?, ih]
  have h1 := hall (t :: u :: r)
  have h2 := hfm (t :: u :: r)
  simp only [List.map_cons] at h1 h2
  simp only [makeLine, List.map_cons]
  rw [if_pos h1, h2]

theorem frDoLine_line (dDo dDont : Nat) (x : Line) (hx : Line.good x) (fuel : Nat) (rest : List Tok)
    (hf : x.2.length + 1 < fuel) :
    frDoLine fuel dDo dDont (lineToks x.1 x.2 ++ rest) = (lineNode x, rest) := by
  obtain ⟨d, ts⟩ := x
  obtain ⟨hne, hp⟩ := hx
  cases fuel with
  | zero => simp at hf
  | succ n =>
    cases ts with
    | nil => exact absurd rfl hne
    | cons k r =>
      have hbp := lineBody_plain d (k :: r) hp
      have hl := frDoLineLoop_line dDo dDont (lineNL d (k :: r)) rfl (lineBody d (k :: r)) n [] rest hbp
        (by rw [lineBody_length]; simp at hf ⊢; omega)
      have hk := plain_tok_facts (hbp ⟨k, "", 1, d⟩ (by simp [lineBody]))
      have eAt : ((⟨k, "", 1, d⟩ : Tok).tag == kwAt) = false := by simp [hk.2.2.2.2.2.2.2.1]
      have eNL : ((⟨k, "", 1, d⟩ : Tok).tag == kwNewLine) = false := by simp [hk.1]
      have hin : linIndentation (lineToks d (k :: r) ++ rest) = (d : Int) := by
        simp only [lineToks, lineBody, List.cons_append, linIndentation, eAt, eNL, Bool.false_eq_true, if_false]
      have e : lineToks d (k :: r) ++ rest = lineBody d (k :: r) ++ lineNL d (k :: r) :: rest := by
        simp [lineToks]
      have e0 : ∃ y q, lineToks d (k :: r) ++ rest = y :: q :=
        ⟨⟨k, "", 1, d⟩, lineBody (d + 1) r ++ lineNL d (k :: r) :: rest, by simp [lineToks, lineBody]⟩
      obtain ⟨y, q, hyq⟩ := e0
      have step : frDoLine (n + 1) dDo dDont (y :: q) =
          (makeLine (frDoLineLoop n dDo dDont [] (y :: q)).1.reverse (linIndentation (y :: q)),
           (frDoLineLoop n dDo dDont [] (y :: q)).2) := by simp only [frDoLine]
      rw [hyq, step, ← hyq, hin, e, hl]
      simp only [List.append_nil, List.reverse_cons, List.reverse_reverse]
      have e2 : (List.map LNode.tok1 (lineBody d (k :: r))).reverse.reverse ++ [LNode.tok1 (lineNL d (k :: r))]
          = (lineBody d (k :: r) ++ [lineNL d (k :: r)]).map LNode.tok1 := by simp
      rw [List.reverse_reverse] at e2
      rw [e2]
      have hh := hasOfList_line (lineBody d (k :: r)) (lineNL d (k :: r)) hbp (lineBody_ne_nil d (by simp)) rfl
      cases hb : lineBody d (k :: r) with
      | nil => exact absurd hb (lineBody_ne_nil d (by simp))
      | cons t0 r0 =>
        rw [hb] at hh
        cases r0 with
        | nil =>
          simp only [List.cons_append, List.nil_append] at hh ⊢
          rw [makeLine_toks2, hh]
          simp [lineNode, lineToks, hb]
        | cons t1 r1 =>
          simp only [List.cons_append] at hh ⊢
          rw [makeLine_toks2, hh]
          simp [lineNode, lineToks, hb]


theorem flatLines_cons (x : Line) (r : List Line) : flatLines (x :: r) = lineToks x.1 x.2 ++ flatLines r := by
  simp [flatLines]

theorem flatLines_length_cons (x : Line) (r : List Line) :
    (flatLines (x :: r)).length = x.2.length + 1 + (flatLines r).length := by
  simp [flatLines_cons, lineToks, lineBody_length]
  omega

theorem frDoPileLoop_lines (dDo dDont : Nat) :
    ∀ (ll : List Line) (fuel : Nat) (acc : List LNode), (∀ x ∈ ll, Line.good x) →
      ll.length + (flatLines ll).length + 2 < fuel →
      frDoPileLoop fuel dDo dDont acc (flatLines ll) = ((ll.map lineNode).reverse ++ acc, []) := by
  intro ll
  induction ll with
  | nil =>
    intro fuel acc _ hf
    cases fuel with
    | zero => simp at hf
    | succ n => simp [flatLines, frDoPileLoop]
  | cons x r ih =>
    intro fuel acc hg hf
    cases fuel with
    | zero => simp at hf
    | succ n =>
      obtain ⟨hne, hp⟩ := hg x (by simp)
      rw [flatLines_length_cons] at hf
      simp only [List.length_cons] at hf
      -- the first token of the line is not `#endpile`
      obtain ⟨k, ts, hts⟩ : ∃ k ts, x.2 = k :: ts := by
        cases h : x.2 with
        | nil => exact absurd h hne
        | cons k ts => exact ⟨k, ts, rfl⟩
      have hk : plainTag k = true := by
        have := List.all_eq_true.1 hp k (by simp [hts])
        exact this
      have hk4 : k ≠ kwEndPile := (plain_tok_facts (t := ⟨k, "", 1, x.1⟩) hk).2.2.2.1
      have e0 : flatLines (x :: r) = ⟨k, "", 1, x.1⟩ :: (lineBody (x.1 + 1) ts ++ [lineNL x.1 x.2] ++ flatLines r) := by
        rw [flatLines_cons, lineToks, hts]
        simp [lineBody]
      have hline := frDoLine_line dDo dDont x ⟨hne, hp⟩ n (flatLines r) (by omega)
      rw [← flatLines_cons] at hline
      have step : frDoPileLoop (n + 1) dDo dDont acc (flatLines (x :: r)) =
          frDoPileLoop n dDo dDont ((frDoLine n dDo dDont (flatLines (x :: r))).1 :: acc)
            (frDoLine n dDo dDont (flatLines (x :: r))).2 := by
        rw [e0]
        simp only [frDoPileLoop]
        have : ((⟨k, "", 1, x.1⟩ : Tok).tag == kwEndPile) = false := by simp [hk4]
        simp only [this, Bool.false_eq_true, if_false]
      rw [step, hline]
      simp only []
      rw [ih n (lineNode x :: acc) (fun y hy => hg y (by simp [hy])) (by omega)]
      simp

/-- the children of the `LN_DoPile` node of the whole text -/
def pileArgs (ll : List Line) : List LNode :=
  [.tok1 ⟨kwStartPile, "", 1, 1⟩] ++ ll.map lineNode ++ [.tok1 (Tok.kw none kwEndPile)]

theorem frTokenList_piled (ll : List Line) (hg : ∀ x ∈ ll, Line.good x) :
    frTokenList (⟨kwStartPile, "", 1, 1⟩ :: flatLines ll) = mkPile (pileArgs ll) 1 := by
  have hlen : (flatLines ll).length ≥ ll.length := by
    induction ll with
    | nil => simp
    | cons x r ih =>
      rw [flatLines_length_cons]
      have := ih (fun y hy => hg y (by simp [hy]))
      simp only [List.length_cons]; omega
  have hloop := frDoPileLoop_lines 1 0 ll (6 * ((flatLines ll).length + 1) + 13)
    [.tok1 ⟨kwStartPile, "", 1, 1⟩] hg (by omega)
  have e1 : ((⟨kwStartPile, "", 1, 1⟩ : Tok).tag == kwStartPile) = true := by decide
  have eAt : ((⟨kwStartPile, "", 1, 1⟩ : Tok).tag == kwAt) = false := by decide
  have eNL : ((⟨kwStartPile, "", 1, 1⟩ : Tok).tag == kwNewLine) = false := by decide
  have hin : linIndentation (⟨kwStartPile, "", 1, 1⟩ :: flatLines ll) = 1 := by
    simp only [linIndentation, eAt, eNL, Bool.false_eq_true, if_false]; rfl
  simp only [frTokenList, frFuel, List.length_cons]
  have f1 : 6 * ((flatLines ll).length + 1) + 16 = (6 * ((flatLines ll).length + 1) + 14) + 1 + 1 := by omega
  rw [f1]
  simp only [frDontLine, frDontLineLoop, e1, if_true]
  have f2 : 6 * ((flatLines ll).length + 1) + 14 = (6 * ((flatLines ll).length + 1) + 13) + 1 := by omega
  rw [f2]
  simp only [frDoPile, Nat.zero_add, hloop, closePile]
  have f3 : 6 * ((flatLines ll).length + 1) + 13 + 1 = (6 * ((flatLines ll).length + 1) + 13) + 1 := rfl
  simp only [frDontLineLoop, List.reverse_cons, List.reverse_nil, List.nil_append, makeLine, hin]
  simp [pileArgs]


/-! ### step C: the 2-D rules on the lines of a program -/

mutual
/-- the node `lin2DRulesPile0` makes of the lines of a statement -/
def Stmt.node (w : Nat) : Nat → Stmt → LNode
  | d, .line ts => lineNode (d, ts)
  | d, .block head body =>
    lntConcat (some (lineNode (d, head))) (joinUp (some (lineNode (d, head))) (nodesL w (d + w) body))
def nodesL (w : Nat) : Nat → List Stmt → List LNode
  | _, [] => []
  | d, s :: r => s.node w d :: nodesL w d r
end

mutual
/-- number of lines -/
def Stmt.nl : Stmt → Nat
  | .line _ => 1
  | .block _ body => 1 + nlL body
def nlL : List Stmt → Nat
  | [] => 0
  | s :: r => s.nl + nlL r
end

/-- loop iterations `lin2DRulesPile0` spends on a statement at its own level -/
def Stmt.cost : Stmt → Nat
  | .line _ => 1
  | .block _ _ => 2

def costL : List Stmt → Nat
  | [] => 0
  | s :: r => s.cost + costL r

theorem Stmt.nl_pos : ∀ s : Stmt, 1 ≤ s.nl
  | .line _ => by simp [Stmt.nl]
  | .block _ _ => by simp [Stmt.nl]

theorem costL_le (l : List Stmt) : costL l ≤ 2 * nlL l := by
  induction l with
  | nil => simp [costL, nlL]
  | cons s r ih =>
    have := s.nl_pos
    have hc : s.cost ≤ 2 := by cases s <;> simp [Stmt.cost]
    simp only [costL, nlL]; omega

/-- `rest` is empty or begins with a real line indented less than `d` -/
def Stops (d : Nat) (rest : List LNode) : Prop :=
  rest = [] ∨ ∃ n r, rest = n :: r ∧ n.isBlank = false ∧ n.indent ≠ mootIndentation ∧ n.indent < (d : Int)

/-- `rest` is empty or begins with a real line indented at most `d` -/
def Below (d : Nat) (rest : List LNode) : Prop :=
  rest = [] ∨ ∃ n r, rest = n :: r ∧ n.isBlank = false ∧ n.indent ≠ mootIndentation ∧ n.indent ≤ (d : Int)

theorem Below.stops {d w : Nat} {rest : List LNode} (h : Below d rest) (hw : 0 < w) : Stops (d + w) rest := by
  rcases h with h | ⟨n, r, e, h1, h2, h3⟩
  · exact Or.inl h
  · exact Or.inr ⟨n, r, e, h1, h2, by omega⟩

theorem Stops.below {d : Nat} {rest : List LNode} (h : Stops d rest) : Below d rest := by
  rcases h with h | ⟨n, r, e, h1, h2, h3⟩
  · exact Or.inl h
  · exact Or.inr ⟨n, r, e, h1, h2, by omega⟩

theorem pile0Loop_stop (f : Nat) (d : Nat) (sofar rest : List LNode) (h : Stops d rest) :
    pile0Loop (f + 1) (d : Int) sofar rest = (sofar, rest) := by
  rcases h with h | ⟨n, r, e, h1, h2, h3⟩
  · subst h; simp [pile0Loop]
  · subst e
    have e2 : (n.indent == mootIndentation) = false := by simp [h2]
    simp [pile0Loop, h1, e2, h3]

@[simp] theorem lineNode_isBlank (x : Line) : (lineNode x).isBlank = false := by
  simp [lineNode, LNode.isBlank, LNode.has]
@[simp] theorem lineNode_indent (x : Line) : (lineNode x).indent = (x.1 : Int) := by
  simp [lineNode, LNode.indent]

theorem lineNode_not_moot (x : Line) : ((lineNode x).indent == mootIndentation) = false := by
  simp [mootIndentation]

theorem lns_head (w : Nat) : ∀ (s : Stmt) (d : Nat), ∃ ts r, s.lns w d = (d, ts) :: r
  | .line ts, d => ⟨ts, [], rfl⟩
  | .block head body, d => ⟨head, lnsL w (d + w) body, rfl⟩

theorem lnsL_head (w : Nat) (l : List Stmt) (d : Nat) (h : l ≠ []) : ∃ ts r, lnsL w d l = (d, ts) :: r := by
  cases l with
  | nil => exact absurd rfl h
  | cons s r =>
    obtain ⟨ts, q, e⟩ := lns_head w s d
    exact ⟨ts, q ++ lnsL w d r, by simp [lnsL, e]⟩

theorem below_lines (w : Nat) (l : List Stmt) (d : Nat) (rest : List LNode) (h : Below d rest) :
    Below d ((lnsL w d l).map lineNode ++ rest) := by
  cases l with
  | nil => simpa [lnsL] using h
  | cons s r =>
    obtain ⟨ts, q, e⟩ := lnsL_head w (s :: r) d (by simp)
    rw [e]
    exact Or.inr ⟨lineNode (d, ts), q.map lineNode ++ rest, by simp, by simp, by
      have := lineNode_not_moot (d, ts); simpa using this, by simp⟩

mutual
theorem pile0Loop_stmt (w : Nat) (hw : 0 < w) : ∀ (s : Stmt) (d : Nat), s.ok = true →
    ∀ (f : Nat) (sofar rest : List LNode), 3 * s.nl + 1 ≤ f → Below d rest →
      pile0Loop f (d : Int) sofar ((s.lns w d).map lineNode ++ rest) =
        pile0Loop (f - s.cost) (d : Int) (s.node w d :: sofar) rest
  | .line ts, d, _, f, sofar, rest, hf, _ => by
    simp only [Stmt.nl] at hf
    obtain ⟨n, rfl⟩ : ∃ n, f = n + 1 := ⟨f - 1, by omega⟩
    have := lineNode_not_moot (d, ts)
    simp [Stmt.lns, Stmt.node, Stmt.cost, pile0Loop, this]
  | .block head body, d, h, f, sofar, rest, hf, hrest => by
    simp only [Stmt.ok, Bool.and_eq_true, Bool.not_eq_true', List.isEmpty_eq_false_iff] at h
    obtain ⟨⟨_, hne⟩, hb⟩ := h
    simp only [Stmt.nl] at hf
    obtain ⟨n, rfl⟩ : ∃ n, f = n + 3 := ⟨f - 3, by omega⟩
    -- the head line is kept
    have hm := lineNode_not_moot (d, head)
    have step1 : pile0Loop (n + 3) (d : Int) sofar (((Stmt.block head body).lns w d).map lineNode ++ rest) =
        pile0Loop (n + 2) (d : Int) (lineNode (d, head) :: sofar) ((lnsL w (d + w) body).map lineNode ++ rest) := by
      simp [Stmt.lns, pile0Loop, hm]
    -- the first line of the body is indented more
    obtain ⟨ts1, q1, e1⟩ := lnsL_head w body (d + w) hne
    have hm1 := lineNode_not_moot (d + w, ts1)
    have hinner := pile0Loop_list w hw body (d + w) hb n [] rest (by omega) (by
      rcases hrest with h0 | ⟨x, r, e, a1, a2, a3⟩
      · exact Or.inl h0
      · exact Or.inr ⟨x, r, e, a1, a2, by omega⟩)
    have hstop : pile0Loop (n - costL body) ((d + w : Nat) : Int) ((nodesL w (d + w) body).reverse ++ []) rest =
        ((nodesL w (d + w) body).reverse ++ [], rest) := by
      have hc := costL_le body
      obtain ⟨m, hm'⟩ : ∃ m, n - costL body = m + 1 := ⟨n - costL body - 1, by omega⟩
      rw [hm']
      exact pile0Loop_stop m (d + w) _ rest (hrest.stops hw)
    have step2 : pile0Loop (n + 2) (d : Int) (lineNode (d, head) :: sofar) ((lnsL w (d + w) body).map lineNode ++ rest) =
        pile0Loop (n + 1) (d : Int) ((Stmt.block head body).node w d :: sofar) rest := by
      rw [e1]
      simp only [List.map_cons, List.cons_append]
      rw [pile0Loop]
      have hlt : ¬ ((lineNode (d + w, ts1)).indent < (d : Int)) := by
        simp only [lineNode_indent]; omega
      have hne' : ((lineNode (d + w, ts1)).indent == (d : Int)) = false := by
        simp only [lineNode_indent, beq_eq_false_iff_ne, ne_eq]; omega
      simp only [lineNode_isBlank, hm1, Bool.or_self, Bool.false_eq_true, if_false, hlt, hne']
      rw [pile0]
      simp only [lineNode_indent]
      have e2 : lineNode (d + w, ts1) :: (List.map lineNode q1 ++ rest) =
          (lnsL w (d + w) body).map lineNode ++ rest := by rw [e1]; simp
      rw [e2, hinner, hstop]
      simp [Stmt.node]
    rw [step1, step2]
    simp [Stmt.cost]
theorem pile0Loop_list (w : Nat) (hw : 0 < w) : ∀ (l : List Stmt) (d : Nat), okL l = true →
    ∀ (f : Nat) (sofar rest : List LNode), 3 * nlL l + 1 ≤ f → Below d rest →
      pile0Loop f (d : Int) sofar ((lnsL w d l).map lineNode ++ rest) =
        pile0Loop (f - costL l) (d : Int) ((nodesL w d l).reverse ++ sofar) rest
  | [], d, _, f, sofar, rest, _, _ => by simp [lnsL, nodesL, costL]
  | s :: r, d, h, f, sofar, rest, hf, hrest => by
    simp only [okL, Bool.and_eq_true] at h
    simp only [nlL] at hf
    have h1 := pile0Loop_stmt w hw s d h.1 f sofar ((lnsL w d r).map lineNode ++ rest) (by omega)
      (below_lines w r d rest hrest)
    have hc : s.cost ≤ 2 := by cases s <;> simp [Stmt.cost]
    have hn := s.nl_pos
    have h2 := pile0Loop_list w hw r d h.2 (f - s.cost) (s.node w d :: sofar) rest (by omega) hrest
    simp only [lnsL, List.map_append, List.append_assoc, nodesL, costL, List.reverse_cons]
    rw [h1, h2]
    congr 1
    omega
end


mutual
theorem lns_length (w : Nat) : ∀ (s : Stmt) (d : Nat), (s.lns w d).length = s.nl
  | .line _, _ => rfl
  | .block _ body, d => by simp [Stmt.lns, Stmt.nl, lnsL_length w body (d + w)]; omega
theorem lnsL_length (w : Nat) : ∀ (l : List Stmt) (d : Nat), (lnsL w d l).length = nlL l
  | [], _ => rfl
  | s :: r, d => by simp [lnsL, nlL, lns_length w s d, lnsL_length w r d]
end

def LNode.isLeaf : LNode → Bool
  | .tok1 _ => true
  | .ntok _ _ _ => true
  | _ => false

theorem rulesL_leaves (cs : List LNode) (h : ∀ c ∈ cs, c.isLeaf = true) : rulesL cs = cs := by
  induction cs with
  | nil => rfl
  | cons c r ih =>
    have hc := h c (by simp)
    have : rules c = c := by
      cases c <;> simp [LNode.isLeaf] at hc <;> simp [rules]
    simp [rulesL, this, ih (fun x hx => h x (by simp [hx]))]

theorem pileMid_pileArgs (ll : List Line) : pileMid (pileArgs ll) = ll.map lineNode := by
  have h1 : (pileArgs ll).head? = some (.tok1 ⟨kwStartPile, "", 1, 1⟩) := by simp [pileArgs]
  have h2 : (pileArgs ll).getLast? = some (.tok1 (Tok.kw none kwEndPile)) := by
    unfold pileArgs
    rw [getLast?_append_of_ne_nil _ _ (by simp)]
    rfl
  have h3 : (pileArgs ll).length = ll.length + 2 := by simp [pileArgs]
  have k1 : (LNode.tok1 ⟨kwStartPile, "", 1, 1⟩).isKW kwStartPile = true := by decide
  have k2 : (LNode.tok1 (Tok.kw none kwEndPile)).isKW kwEndPile = true := by decide
  simp only [pileMid, h1, h2, h3, Option.any_some, k1, k2, Bool.and_self, if_true]
  simp [pileArgs]

theorem rules_piled (w : Nat) (hw : 0 < w) (p : List Stmt) (d0 : Nat) (hok : okL p = true) (hne : p ≠ []) :
    rules (mkPile (pileArgs (lnsL w d0 p)) 1) = joinUp none (nodesL w d0 p) := by
  have hleaf : ∀ c ∈ pileArgs (lnsL w d0 p), c.isLeaf = true := by
    intro c hc
    simp only [pileArgs, List.mem_append, List.mem_singleton, List.mem_map] at hc
    rcases hc with (hc | ⟨x, _, hc⟩) | hc <;> subst hc <;> simp [LNode.isLeaf, lineNode]
  simp only [mkPile, rules, rulesL_leaves _ hleaf, rulesPile, pileMid_pileArgs, rulesPileMid, List.length_map,
    lnsL_length]
  obtain ⟨ts, q, e⟩ := lnsL_head w p d0 hne
  have hC := pile0Loop_list w hw p d0 hok (3 * nlL p + 3) [] [] (by omega) (Or.inl rfl)
  simp only [List.append_nil] at hC
  have hc := costL_le p
  obtain ⟨m, hm⟩ : ∃ m, 3 * nlL p + 3 - costL p = m + 1 := ⟨3 * nlL p + 3 - costL p - 1, by omega⟩
  rw [hm, pile0Loop_stop m d0 _ [] (Or.inl rfl)] at hC
  have e4 : 3 * nlL p + 4 = (3 * nlL p + 3) + 1 := rfl
  have hfirst : (List.map lineNode (lnsL w d0 p)) = lineNode (d0, ts) :: q.map lineNode := by rw [e]; simp
  rw [hfirst] at hC ⊢
  rw [e4]
  simp only [pile0, lineNode_indent]
  rw [hC]
  simp [lntConcat, pileOutdents]


/-! ### step D: flattening the piled tree -/

mutual
/-- the tokens of a tree from left to right (for trees without `LN_DoPile` nodes) -/
def flat : LNode → List Tok
  | .tok1 t => [t]
  | .ntok _ _ ts => ts
  | .nodes _ _ cs => flatL cs
  | .pile _ _ cs => flatL cs
def flatL : List LNode → List Tok
  | [] => []
  | c :: cs => flat c ++ flatL cs
end

mutual
def noPile : LNode → Bool
  | .tok1 _ => true
  | .ntok _ _ _ => true
  | .nodes _ _ cs => noPileL cs
  | .pile _ _ _ => false
def noPileL : List LNode → Bool
  | [] => true
  | c :: cs => noPile c && noPileL cs
end

mutual
theorem toTokenList0_flat : ∀ (n : LNode) (r : List Tok), noPile n = true →
    toTokenList0 n r = (flat n).reverse ++ r
  | .tok1 t, r, _ => by simp [toTokenList0, flat]
  | .ntok _ _ ts, r, _ => by simp [toTokenList0, flat]
  | .nodes _ _ cs, r, h => by
    simp only [noPile] at h
    simp [toTokenList0, flat, toTokenListL_flat cs r h]
  | .pile _ _ _, _, h => by simp [noPile] at h
theorem toTokenListL_flat : ∀ (cs : List LNode) (r : List Tok), noPileL cs = true →
    toTokenListL cs r = (flatL cs).reverse ++ r
  | [], r, _ => by simp [toTokenListL, flatL]
  | c :: cs, r, h => by
    simp only [noPileL, Bool.and_eq_true] at h
    simp [toTokenListL, flatL, toTokenList0_flat c r h.1, toTokenListL_flat cs _ h.2]
end

theorem toTokenList_flat (n : LNode) (h : noPile n = true) : toTokenList n = flat n := by
  simp [toTokenList, toTokenList0_flat n [] h]

/-- the tags of a tree without the newlines -/
def ftags (n : LNode) : List Tag := ((flat n).filter fun t => t.tag != kwNewLine).map (·.tag)

theorem ftags_lineNode (x : Line) (h : Line.good x) : ftags (lineNode x) = x.2 := by
  obtain ⟨d, ts⟩ := x
  have hb : (lineBody d ts).filter (fun t => t.tag != kwNewLine) = lineBody d ts := by
    rw [List.filter_eq_self]
    intro t ht
    have := (plain_tok_facts (lineBody_plain d ts h.2 t ht)).1
    simp [this]
  simp [ftags, lineNode, flat, lineToks, List.filter_append, hb, lineBody_tags, lineNL]

theorem flat_concat (l r : LNode) : flat (lntConcat (some l) r) = flat l ++ flat r := by
  simp [lntConcat, flat, flatL]

theorem flat_separate (l : LNode) (k : Tag) (r : LNode) :
    flat (lntSeparate l k r) = flat l ++ [Tok.kw (lastTok l) k] ++ flat r := by
  simp [lntSeparate, flat, flatL]

theorem flat_wrap (o : Tag) (l : LNode) (c : Tag) :
    flat (lntWrap o l c) = [Tok.kw (firstTok l) o] ++ flat l ++ [Tok.kw (lastTok l) c] := by
  simp [lntWrap, flat, flatL]

@[simp] theorem Tok.kw_tag (o : Option Tok) (k : Tag) : (Tok.kw o k).tag = k := by
  cases o <;> rfl

theorem ftags_concat (l r : LNode) : ftags (lntConcat (some l) r) = ftags l ++ ftags r := by
  simp [ftags, flat_concat, List.filter_append]

theorem ftags_separate (l : LNode) (r : LNode) :
    ftags (lntSeparate l kwBackSet r) = ftags l ++ [kwBackSet] ++ ftags r := by
  have : (kwBackSet != kwNewLine) = true := by decide
  simp [ftags, flat_separate, List.filter_append, List.filter_cons, this]

theorem ftags_wrap (l : LNode) :
    ftags (lntWrap kwSetTab l kwBackTab) = [kwSetTab] ++ ftags l ++ [kwBackTab] := by
  have h1 : (kwSetTab != kwNewLine) = true := by decide
  have h2 : (kwBackTab != kwNewLine) = true := by decide
  simp [ftags, flat_wrap, List.filter_append, List.filter_cons, h1, h2]

theorem noPile_concat (l r : LNode) (hl : noPile l = true) (hr : noPile r = true) :
    noPile (lntConcat (some l) r) = true := by simp [lntConcat, noPile, noPileL, hl, hr]
theorem noPile_separate (l : LNode) (k : Tag) (r : LNode) (hl : noPile l = true) (hr : noPile r = true) :
    noPile (lntSeparate l k r) = true := by simp [lntSeparate, noPile, noPileL, hl, hr]
theorem noPile_wrap (o : Tag) (l : LNode) (c : Tag) (hl : noPile l = true) :
    noPile (lntWrap o l c) = true := by simp [lntWrap, noPile, noPileL, hl]

/-- a node between which and its neighbours a `BackSet` is always required -/
structure SN (n : LNode) : Prop where
  has   : n.has = ⟨true, true⟩
  first : ∃ t, firstTok n = some t ∧ isFollower t.tag = false ∧ isCloser t.tag = false
  last  : ∃ t, lastTokLessNL n = some t ∧ t.tag ≠ kwComma ∧ isOpener t.tag = false
  np    : noPile n = true

theorem isBackSetRequired_SN {a b : LNode} (ha : SN a) (hb : SN b) : isBackSetRequired a b = true := by
  obtain ⟨t1, h1, c1, o1⟩ := ha.last
  obtain ⟨t2, h2, f2, c2⟩ := hb.first
  simp [isBackSetRequired, backSetRule, LNode.isCom, LNode.isBlank, ha.has, hb.has, h1, h2, c1, o1, f2, c2]

/-- the nodes joined with `BackSet`s -/
def sepFold (lnt : LNode) (rest : List LNode) : LNode :=
  rest.foldl (fun acc t => lntSeparate acc kwBackSet t) lnt

theorem joinLoop_SN (lnt : LNode) (had : Bool) (t0 : LNode) (rest : List LNode)
    (h0 : SN t0) (hr : ∀ n ∈ rest, SN n) :
    joinLoop lnt had t0 rest = (sepFold lnt rest, had || !rest.isEmpty) := by
  induction rest generalizing lnt had t0 with
  | nil => simp [joinLoop, sepFold]
  | cons t1 r ih =>
    have h1 := hr t1 (by simp)
    simp only [joinLoop, isBackSetRequired_SN h0 h1, if_true]
    rw [ih _ _ _ h1 (fun n hn => hr n (by simp [hn]))]
    simp [sepFold]

theorem ftags_sepFold (lnt : LNode) (rest : List LNode) :
    ftags (sepFold lnt rest) = ftags lnt ++ (rest.flatMap fun t => kwBackSet :: ftags t) := by
  induction rest generalizing lnt with
  | nil => simp [sepFold]
  | cons t r ih =>
    have := ih (lntSeparate lnt kwBackSet t)
    simp only [sepFold, List.foldl_cons] at this ⊢
    rw [this, ftags_separate]
    simp

theorem noPile_sepFold (lnt : LNode) (rest : List LNode) (h0 : noPile lnt = true)
    (hr : ∀ n ∈ rest, noPile n = true) : noPile (sepFold lnt rest) = true := by
  induction rest generalizing lnt with
  | nil => simpa [sepFold] using h0
  | cons t r ih =>
    simp only [sepFold, List.foldl_cons]
    exact ih _ (noPile_separate _ _ _ h0 (hr t (by simp))) (fun n hn => hr n (by simp [hn]))


theorem lastNonNL_eq (l : List Tok) : lastNonNL l = (l.filter fun t => t.tag != kwNewLine).getLast? := by
  induction l with
  | nil => rfl
  | cons t r ih =>
    simp only [lastNonNL, ih, List.filter_cons]
    by_cases hn : t.tag = kwNewLine
    · simp only [hn, bne_self_eq_false, Bool.false_eq_true, if_false, beq_self_eq_true, if_true]
      cases (r.filter fun t => t.tag != kwNewLine).getLast? <;> rfl
    · have e1 : (t.tag != kwNewLine) = true := by simp [hn]
      have e2 : (t.tag == kwNewLine) = false := by simp [hn]
      simp only [e1, if_true, e2, Bool.false_eq_true, if_false]
      cases hq : r.filter (fun t => t.tag != kwNewLine) with
      | nil => simp
      | cons u q =>
        cases hg : (u :: q).getLast? with
        | none => simp at hg
        | some v => rw [List.getLast?_cons_cons, hg]

theorem lineNode_last (d : Nat) (ts : List Tag) (hp : ts.all plainTag = true) (b : Tag)
    (hb : ts.getLast? = some b) :
    ∃ t, lastTokLessNL (lineNode (d, ts)) = some t ∧ t.tag = b := by
  have hf : (lineToks d ts).filter (fun t => t.tag != kwNewLine) = lineBody d ts := by
    have hbody : (lineBody d ts).filter (fun t => t.tag != kwNewLine) = lineBody d ts := by
      rw [List.filter_eq_self]
      intro t ht
      have := (plain_tok_facts (lineBody_plain d ts hp t ht)).1
      simp [this]
    simp [lineToks, List.filter_append, hbody, lineNL]
  have hm : ((lineBody d ts).getLast?).map (·.tag) = some b := by
    rw [← List.getLast?_map, lineBody_tags, hb]
  cases hl : (lineBody d ts).getLast? with
  | none => simp [hl] at hm
  | some t =>
    refine ⟨t, ?_, by simpa [hl] using hm⟩
    simp [lineNode, lastTokLessNL, lastNonNL_eq, hf, hl]

theorem SN_lineNode (d : Nat) (ts : List Tag) (h : lineOk ts = true) : SN (lineNode (d, ts)) := by
  obtain ⟨hp, ⟨a, r, e, ha⟩, ⟨b, hb, hb1, hb2⟩⟩ := lineOk_unfold h
  refine ⟨by simp [lineNode, LNode.has], ?_, ?_, by simp [lineNode, noPile]⟩
  · refine ⟨⟨a, "", 1, d⟩, by simp [lineNode, firstTok, lineToks, e, lineBody], ?_, ?_⟩
    · simp only [isNonStarter, Bool.or_eq_false_iff] at ha; exact ha.1
    · simp only [isNonStarter, Bool.or_eq_false_iff] at ha; exact ha.2
  · obtain ⟨t, ht, htag⟩ := lineNode_last d ts hp b hb
    exact ⟨t, ht, by rw [htag]; exact hb1, by rw [htag]; exact hb2⟩

theorem isPileRequired_lineNode (d : Nat) (ts : List Tag) (h : lineOk ts = true) :
    isPileRequired (some (lineNode (d, ts))) = ts.getLast?.any pileKw := by
  obtain ⟨hp, _, ⟨b, hb, _, _⟩⟩ := lineOk_unfold h
  obtain ⟨t, ht, htag⟩ := lineNode_last d ts hp b hb
  simp [isPileRequired, ht, hb, htag, pileKw]

/-- `joinUp` of nodes between which `BackSet`s are required -/
theorem joinUp_SN (c : Option LNode) (first : LNode) (rest : List LNode) (h0 : SN first)
    (hr : ∀ n ∈ rest, SN n) :
    joinUp c (first :: rest) =
      if !rest.isEmpty || isPileRequired c then lntWrap kwSetTab (sepFold first rest) kwBackTab
      else sepFold first rest := by
  simp [joinUp, joinLoop_SN first false first rest h0 hr]

theorem lntConcat_has (l r : LNode) : (lntConcat (some l) r).has = l.has.or r.has := rfl
theorem lntSeparate_has (l : LNode) (k : Tag) (r : LNode) :
    (lntSeparate l k r).has = (l.has.or (tokHas k)).or r.has := rfl
theorem lntWrap_has (o : Tag) (l : LNode) (c : Tag) :
    (lntWrap o l c).has = ((tokHas o).or l.has).or (tokHas c) := rfl
theorem Has.tt_or (h : Has) : (⟨true, true⟩ : Has).or h = ⟨true, true⟩ := by simp [Has.or]
theorem Has.or_tt (h : Has) : h.or ⟨true, true⟩ = ⟨true, true⟩ := by simp [Has.or]

theorem SN_wrap (l : LNode) (hl : noPile l = true) : SN (lntWrap kwSetTab l kwBackTab) := by
  refine ⟨?_, ?_, ?_, noPile_wrap _ _ _ hl⟩
  · have t2 : tokHas kwBackTab = ⟨true, true⟩ := by decide
    rw [lntWrap_has, t2, Has.or_tt]
  · exact ⟨Tok.kw (firstTok l) kwSetTab, by simp [lntWrap, firstTok, firstTokL], by simp; decide, by simp; decide⟩
  · refine ⟨Tok.kw (lastTok l) kwBackTab, ?_, by simp; decide, by simp; decide⟩
    have e : kwBackTab ≠ kwNewLine := by decide
    simp [lntWrap, lastTokLessNL, lastTokLessNLL, e]

theorem SN_sepFold_single (first : LNode) (h : SN first) : SN (sepFold first []) := by
  simpa [sepFold] using h

/-- the block node `head ++ joined body` -/
theorem SN_block (hl J : LNode) (h1 : SN hl) (hJ : SN J) : SN (lntConcat (some hl) J) := by
  obtain ⟨t, ht, a1, a2⟩ := hJ.last
  refine ⟨?_, ?_, ⟨t, ?_, a1, a2⟩, noPile_concat _ _ h1.np hJ.np⟩
  · rw [lntConcat_has, h1.has, Has.tt_or]
  · obtain ⟨t1, ht1, b1, b2⟩ := h1.first
    exact ⟨t1, by simp [lntConcat, firstTok, firstTokL, ht1], b1, b2⟩
  · simp [lntConcat, lastTokLessNL, lastTokLessNLL, ht]

mutual
theorem SN_stmt (w : Nat) : ∀ (s : Stmt) (d : Nat), s.ok = true → SN (s.node w d)
  | .line ts, d, h => by
    simp only [Stmt.ok, Bool.and_eq_true] at h
    exact SN_lineNode d ts h.1
  | .block head body, d, h => by
    simp only [Stmt.ok, Bool.and_eq_true, Bool.not_eq_true', List.isEmpty_eq_false_iff] at h
    obtain ⟨⟨hh, hne⟩, hb⟩ := h
    have hall := SN_list w body (d + w) hb
    cases hbody : body with
    | nil => exact absurd hbody hne
    | cons x r =>
      rw [hbody] at hall
      simp only [nodesL] at hall
      have h0 := hall (x.node w (d + w)) (by simp)
      have hr : ∀ n ∈ nodesL w (d + w) r, SN n := fun n hn => hall n (by simp [hn])
      simp only [Stmt.node, nodesL]
      rw [joinUp_SN _ _ _ h0 hr]
      apply SN_block _ _ (SN_lineNode d head hh)
      split
      · exact SN_wrap _ (noPile_sepFold _ _ h0.np (fun n hn => (hr n hn).np))
      · rename_i hc
        simp only [Bool.or_eq_true, Bool.not_eq_true', not_or, Bool.not_eq_true] at hc
        have : nodesL w (d + w) r = [] := by
          have := hc.1
          cases hq : nodesL w (d + w) r with
          | nil => rfl
          | cons a b => simp [hq] at this
        rw [this]
        simpa [sepFold] using h0
theorem SN_list (w : Nat) : ∀ (l : List Stmt) (d : Nat), okL l = true → ∀ n ∈ nodesL w d l, SN n
  | [], _, _ => by simp [nodesL]
  | s :: r, d, h => by
    simp only [okL, Bool.and_eq_true] at h
    intro n hn
    simp only [nodesL, List.mem_cons] at hn
    rcases hn with rfl | hn
    · exact SN_stmt w s d h.1
    · exact SN_list w r d h.2 n hn
end


theorem seqG_cons (o sep c : Tag) (x : Stmt) (r : List Stmt) :
    seqG o sep c (x :: r) = x.tagsG o sep c ++ r.flatMap (fun y => sep :: y.tagsG o sep c) := by
  induction r generalizing x with
  | nil => simp [seqG]
  | cons y q ih => simp [seqG, ih y]

mutual
theorem ftags_stmt (w : Nat) : ∀ (s : Stmt) (d : Nat), s.ok = true →
    ftags (s.node w d) = s.tagsG kwSetTab kwBackSet kwBackTab
  | .line ts, d, h => by
    simp only [Stmt.ok, Bool.and_eq_true] at h
    obtain ⟨hp, ⟨a, r, e, _⟩, _⟩ := lineOk_unfold h.1
    simpa [Stmt.node, Stmt.tagsG] using ftags_lineNode (d, ts) ⟨by simp [e], hp⟩
  | .block head body, d, h => by
    have hok := h
    simp only [Stmt.ok, Bool.and_eq_true, Bool.not_eq_true', List.isEmpty_eq_false_iff] at h
    obtain ⟨⟨hh, hne⟩, hb⟩ := h
    obtain ⟨hp, ⟨a, q, e, _⟩, _⟩ := lineOk_unfold hh
    have hall := SN_list w body (d + w) hb
    have hfl := ftags_list w body (d + w) hb
    cases hbody : body with
    | nil => exact absurd hbody hne
    | cons x r =>
      rw [hbody] at hall hfl
      simp only [nodesL] at hall hfl
      have h0 := hall (x.node w (d + w)) (by simp)
      have hr : ∀ n ∈ nodesL w (d + w) r, SN n := fun n hn => hall n (by simp [hn])
      simp only [Stmt.node, nodesL, Stmt.tagsG]
      rw [joinUp_SN _ _ _ h0 hr, ftags_concat, ftags_lineNode (d, head) ⟨by simp [e], hp⟩,
        isPileRequired_lineNode d head hh]
      congr 1
      have hlen : (!(nodesL w (d + w) r).isEmpty) = decide (2 ≤ (x :: r).length) := by
        cases r <;> simp [nodesL]
      have hseq : ftags (sepFold (x.node w (d + w)) (nodesL w (d + w) r)) =
          seqG kwSetTab kwBackSet kwBackTab (x :: r) := by
        rw [ftags_sepFold, seqG_cons]
        simp only [List.map_cons, List.cons.injEq] at hfl
        rw [hfl.1]
        congr 1
        have gen : ∀ (ns : List LNode) (ss : List Stmt),
            ns.map ftags = ss.map (Stmt.tagsG kwSetTab kwBackSet kwBackTab) →
            ns.flatMap (fun t => kwBackSet :: ftags t) =
              ss.flatMap (fun y => kwBackSet :: y.tagsG kwSetTab kwBackSet kwBackTab) := by
          intro ns
          induction ns with
          | nil => intro ss h; cases ss <;> simp at h ⊢
          | cons n ns ih =>
            intro ss h
            cases ss with
            | nil => simp at h
            | cons s ss =>
              simp only [List.map_cons, List.cons.injEq] at h
              simp [h.1, ih ss h.2]
        exact gen _ _ hfl.2
      have hcond : (!(nodesL w (d + w) r).isEmpty || (head.getLast?.any pileKw)) = needsWrap head (x :: r) := by
        simp [needsWrap, hlen]
      rw [hcond]
      simp only [wrapT]
      cases needsWrap head (x :: r)
      · simpa using hseq
      · simp [ftags_wrap, hseq]
theorem ftags_list (w : Nat) : ∀ (l : List Stmt) (d : Nat), okL l = true →
    (nodesL w d l).map ftags = l.map (Stmt.tagsG kwSetTab kwBackSet kwBackTab)
  | [], _, _ => by simp [nodesL]
  | s :: r, d, h => by
    simp only [okL, Bool.and_eq_true] at h
    simp [nodesL, ftags_stmt w s d h.1, ftags_list w r d h.2]
end

/-! ### step E: nothing for the `;` passes to do -/

theorem iSep_id (l : List Tok) (h : ∀ t ∈ l, t.tag ≠ kwCCurly) : iSepAfterDontPiles l = l := by
  induction l with
  | nil => rfl
  | cons t r ih =>
    rw [iSep_cons_ne t r (h t (by simp)), ih (fun x hx => h x (by simp [hx]))]

theorem xSepLeading_id (l : List Tok) (h : ∀ t ∈ l, t.tag ≠ kwSemicolon) : xSepLeading l = l := by
  cases l with
  | nil => rfl
  | cons t r => simp [xSepLeading, h t (by simp)]

theorem xSepGo_id : ∀ (l : List Tok), (∀ t ∈ l, t.tag ≠ kwSemicolon) → xSepGo l = l
  | [], _ => by simp [xSepGo]
  | [t], _ => by simp [xSepGo]
  | t :: u :: r, h => by
    rw [xSepGo_skip t u r (h u (by simp)), xSepGo_id (u :: r) (fun x hx => h x (by simp [hx]))]

mutual
theorem tagsG_all (P : Tag → Bool) (o sep c : Tag) (hp : ∀ k, plainTag k = true → P k = true)
    (h1 : P o = true) (h2 : P sep = true) (h3 : P c = true) :
    ∀ s : Stmt, s.ok = true → (s.tagsG o sep c).all P = true
  | .line ts, h => by
    simp only [Stmt.ok, Bool.and_eq_true] at h
    simp only [Stmt.tagsG, List.all_eq_true]
    intro k hk
    exact hp k (List.all_eq_true.1 (lineOk_unfold h.1).1 k hk)
  | .block head body, h => by
    simp only [Stmt.ok, Bool.and_eq_true] at h
    have hh : head.all P = true := by
      rw [List.all_eq_true]; intro k hk
      exact hp k (List.all_eq_true.1 (lineOk_unfold h.1.1).1 k hk)
    have hb := seqG_all P o sep c hp h1 h2 h3 body h.2
    simp only [Stmt.tagsG, wrapT]
    split <;> simp [List.all_append, hh, hb, h1, h3]
theorem seqG_all (P : Tag → Bool) (o sep c : Tag) (hp : ∀ k, plainTag k = true → P k = true)
    (h1 : P o = true) (h2 : P sep = true) (h3 : P c = true) :
    ∀ l : List Stmt, okL l = true → (seqG o sep c l).all P = true
  | [], _ => rfl
  | [x], h => by
    simp only [okL, Bool.and_eq_true] at h
    simpa [seqG] using tagsG_all P o sep c hp h1 h2 h3 x h.1
  | x :: y :: r, h => by
    simp only [okL, Bool.and_eq_true] at h
    have q1 := tagsG_all P o sep c hp h1 h2 h3 x h.1
    have q2 := seqG_all P o sep c hp h1 h2 h3 (y :: r) (by simp [okL, h.2])
    simp [seqG, List.all_append, q1, q2, h2]
end

/-- **the piled side**: the piled text of a well-formed program is linearised to its tags with
`SetTab … BackSet … BackTab` around and between the statements of a block -/
theorem piled_tags (w d0 : Nat) (hw : 0 < w) (p : List Stmt) (h : okL p = true) (hne : p ≠ []) :
    (linearize (piledProg w d0 p)).map (·.tag) = progG kwSetTab kwBackSet kwBackTab p := by
  have hg := lnsL_good w p d0 h
  have hall := SN_list w p d0 h
  have hfl := ftags_list w p d0 h
  -- the tree after the 2-D rules
  have htree : rules (frTokenList (prepare false (piledProg w d0 p))) = joinUp none (nodesL w d0 p) := by
    rw [piledProg, piledL_eq_lnsL, prepare_piled _ hg, frTokenList_piled _ hg, rules_piled w hw p d0 h hne]
  obtain ⟨x, r, rfl⟩ : ∃ x r, p = x :: r := by
    cases p with
    | nil => exact absurd rfl hne
    | cons x r => exact ⟨x, r, rfl⟩
  simp only [nodesL] at hall hfl htree
  have h0 := hall (x.node w d0) (by simp)
  have hr : ∀ n ∈ nodesL w d0 r, SN n := fun n hn => hall n (by simp [hn])
  rw [joinUp_SN _ _ _ h0 hr] at htree
  have hnpS := noPile_sepFold _ _ h0.np (fun n hn => (hr n hn).np)
  have hseq : ftags (sepFold (x.node w d0) (nodesL w d0 r)) = seqG kwSetTab kwBackSet kwBackTab (x :: r) := by
    rw [ftags_sepFold, seqG_cons]
    simp only [List.map_cons, List.cons.injEq] at hfl
    rw [hfl.1]
    congr 1
    have gen : ∀ (ns : List LNode) (ss : List Stmt),
        ns.map ftags = ss.map (Stmt.tagsG kwSetTab kwBackSet kwBackTab) →
        ns.flatMap (fun t => kwBackSet :: ftags t) =
          ss.flatMap (fun y => kwBackSet :: y.tagsG kwSetTab kwBackSet kwBackTab) := by
      intro ns
      induction ns with
      | nil => intro ss h; cases ss <;> simp at h ⊢
      | cons n ns ih =>
        intro ss h
        cases ss with
        | nil => simp at h
        | cons s ss =>
          simp only [List.map_cons, List.cons.injEq] at h
          simp [h.1, ih ss h.2]
    exact gen _ _ hfl.2
  -- the tree J and its tags
  have hlen : (!(nodesL w d0 r).isEmpty) = decide (2 ≤ (x :: r).length) := by
    cases r <;> simp [nodesL]
  have hcond : (!(nodesL w d0 r).isEmpty || isPileRequired none) = decide (2 ≤ (x :: r).length) := by
    simp [isPileRequired, hlen]
  rw [hcond] at htree
  obtain ⟨J, hJ, hJnp, hJtags⟩ : ∃ J, rules (frTokenList (prepare false (piledProg w d0 (x :: r)))) = J ∧
      noPile J = true ∧ ftags J = progG kwSetTab kwBackSet kwBackTab (x :: r) := by
    refine ⟨_, htree, ?_, ?_⟩
    · cases decide (2 ≤ (x :: r).length)
      · simpa using hnpS
      · simpa using noPile_wrap _ _ _ hnpS
    · simp only [progG, wrapT]
      cases decide (2 ≤ (x :: r).length)
      · simpa using hseq
      · simp [ftags_wrap, hseq]
  -- every tag of the result is ordinary or a tab token
  have hP : ∀ k ∈ progG kwSetTab kwBackSet kwBackTab (x :: r), k ≠ kwCCurly ∧ k ≠ kwSemicolon := by
    intro k hk
    have hb := seqG_all (fun k => k != kwCCurly && k != kwSemicolon) kwSetTab kwBackSet kwBackTab (by
      intro k hk
      have := plain_free hk
      simp [this.1, this.2]) (by decide) (by decide) (by decide) (x :: r) h
    have hk' : (k != kwCCurly && k != kwSemicolon) = true := by
      simp only [progG, wrapT] at hk
      split at hk
      · simp only [List.mem_cons, List.mem_append, List.not_mem_nil, or_false] at hk
        rcases hk with (rfl | hk) | rfl
        · decide
        · exact List.all_eq_true.1 hb k hk
        · decide
      · exact List.all_eq_true.1 hb k hk
    simpa using hk'
  simp only [linearize, linearizeMode]
  rw [hJ, toTokenList_flat J hJnp]
  have hmap : (xTokens kwNewLine (flat J)).map (·.tag) = progG kwSetTab kwBackSet kwBackTab (x :: r) := by
    rw [← hJtags]; rfl
  have hne1 : ∀ t ∈ xTokens kwNewLine (flat J), t.tag ≠ kwCCurly ∧ t.tag ≠ kwSemicolon := by
    intro t ht
    exact hP t.tag (by rw [← hmap]; exact List.mem_map_of_mem ht)
  unfold useNeededSep xSep
  rw [iSep_id _ (fun t ht => (hne1 t ht).1), xSepLeading_id _ (fun t ht => (hne1 t ht).2),
    xSepGo_id _ (fun t ht => (hne1 t ht).2), hmap]

/-- **piles and braces**: for every well-formed program of the block language, every
indentation step and every start column, linearising the piled text and reading the tab
tokens as braces gives the token tags of the linearised braced text. -/
theorem pileEqBraces_all (w d0 : Nat) (hw : 0 < w) (p : List Stmt) (h : okL p = true) (hne : p ≠ []) :
    pileEqBraces w d0 p = true := by
  unfold pileEqBraces
  rw [beq_iff_eq]
  have h1 := piled_tags w d0 hw p h hne
  have h2 := braced_tags p h hne
  have : (linearize (piledProg w d0 p)).map (fun t => untab t.tag) =
      ((linearize (piledProg w d0 p)).map (·.tag)).map untab := by simp
  rw [this, h1, h2, progG_untab p h]

end AldorVerif.Linear
