import AldorVerif.Gen.JMap
import AldorVerif.Model.JSpec
/-! helper lemmas for `Props/C12.lean` (core Lean only) -/
namespace AldorVerif.C12
open AldorVerif AldorVerif.JSpec AldorVerif.Gen

theorem inI32_toInt (a : BitVec 32) : InI32 a.toInt := by
  have h1 := BitVec.toInt_lt (x := a)
  have h2 := BitVec.le_toInt a
  simp at h1 h2
  unfold InI32; omega

theorem toInt_ofInt32 {x : Int} (h : InI32 x) : (BitVec.ofInt 32 x).toInt = x := by
  rw [BitVec.toInt_ofInt]; unfold InI32 at h
  apply Int.bmod_eq_of_le <;> simp <;> omega

theorem toInt_ofInt64 {x : Int} (h : InI32 x) : (BitVec.ofInt 64 x).toInt = x := by
  rw [BitVec.toInt_ofInt]; unfold InI32 at h
  apply Int.bmod_eq_of_le <;> simp <;> omega

/-- widening a Java `int` to the C routes' 64-bit `long` keeps the integer it denotes -/
theorem toInt_sx (a : BitVec 32) : (a.signExtend 64).toInt = a.toInt :=
  BitVec.toInt_signExtend_of_le (by decide)

theorem toInt_ne_zero {w : Nat} {b : BitVec w} (h : b ≠ 0#w) : b.toInt ≠ 0 := by
  intro h0; apply h; apply BitVec.eq_of_toInt_eq; simpa using h0

theorem toInt_eq_zero_iff {w : Nat} (b : BitVec w) : b.toInt = 0 ↔ b = 0#w := by
  constructor
  · intro h0; apply BitVec.eq_of_toInt_eq; simpa using h0
  · intro h; subst h; simp

theorem inI32_tmod (x : Int) {y : Int} (hy : InI32 y) (hy0 : y ≠ 0) : InI32 (x.tmod y) := by
  unfold InI32 at *
  have h1 := Int.tmod_lt_of_pos x (b := y.natAbs) (by omega)
  have h2 : -(y.natAbs : Int) < x.tmod y.natAbs := by
    have := Int.lt_tmod_of_pos x (b := y.natAbs) (by omega); omega
  have h3 : x.tmod y = x.tmod (y.natAbs : Int) := by
    rcases Int.natAbs_eq y with h | h
    · rw [← h]
    · conv => lhs; rw [h]
      simp [Int.tmod_neg]
  omega

theorem c2i_toInt (a : BitVec 16) : (JSem.c2i a).toInt = a.toNat := by
  simp only [JSem.c2i, BitVec.toInt_setWidth]
  have ha := a.isLt
  apply Int.bmod_eq_of_le <;> simp <;> omega

theorem toInt_cases32 (a : BitVec 32) :
    a.toInt = a.toNat ∨ a.toInt = (a.toNat : Int) - 4294967296 := by
  rw [BitVec.toInt_eq_toNat_cond]; split <;> simp

theorem and_one_eq (a : BitVec 32) : (a &&& 1#32) = if a.toInt % 2 = 1 then 1#32 else 0#32 := by
  apply BitVec.eq_of_toNat_eq
  have h1 : a.toNat &&& 1 = a.toNat % 2 := Nat.and_one_is_mod a.toNat
  rcases toInt_cases32 a with h | h <;> split <;> simp [h1] <;> omega

theorem jsem_div_spec {w : Nat} (a b : BitVec w) : JSem.div a b = Spec.SIntQuo a b := by
  simp only [JSem.div, Spec.SIntQuo]
  by_cases h : b = 0#w
  · subst h; simp
  · simp only [h, toInt_ne_zero h, if_false]
    congr 1; apply BitVec.eq_of_toInt_eq
    simp [BitVec.toInt_sdiv, BitVec.toInt_ofInt]
theorem jsem_rem_spec {w : Nat} (a b : BitVec w) : JSem.rem a b = Spec.SIntRem a b := by
  simp only [JSem.rem, Spec.SIntRem]
  by_cases h : b = 0#w
  · subst h; simp
  · simp only [h, toInt_ne_zero h, if_false]
    congr 1; rw [← BitVec.toInt_srem, BitVec.ofInt_toInt]

theorem bit_toInt (a : BitVec 32) (i : Nat) (hi : i < 32) :
    (a.toInt / 2 ^ i) % 2 = ((a.toNat / 2 ^ i : Nat) : Int) % 2 := by
  have hc : ((a.toNat / 2 ^ i : Nat) : Int) = (a.toNat : Int) / 2 ^ i := by simp
  rw [hc]
  rcases toInt_cases32 a with h | h
  · rw [h]
  · rw [h]
    have hp : (4294967296 : Int) = 2 ^ i * (2 * 2 ^ (31 - i)) := by
      have : (4294967296 : Int) = 2 ^ (i + (1 + (31 - i))) := by
        have : i + (1 + (31 - i)) = 32 := by omega
        rw [this]; decide
      rw [this, Int.pow_add, Int.pow_add]; simp
    have hne : (2 : Int) ^ i ≠ 0 := by
      have : (0 : Int) < 2 ^ i := Int.pow_pos (by decide)
      omega
    have : ((a.toNat : Int) - 4294967296) = (a.toNat : Int) + 2 ^ i * (-(2 * 2 ^ (31 - i))) := by
      rw [hp]; rw [Int.mul_neg]; omega
    rw [this, Int.add_mul_ediv_left _ _ hne]
    generalize (a.toNat : Int) / 2 ^ i = q
    generalize (2 : Int) ^ (31 - i) = k
    omega

theorem inI32_shiftDn (a : BitVec 32) (k : Nat) : InI32 (a.toInt / 2 ^ k) := by
  have h := inI32_toInt (a.sshiftRight k)
  rw [BitVec.toInt_sshiftRight, Int.shiftRight_eq_div_pow] at h
  have hc : ((2 ^ k : Nat) : Int) = (2 : Int) ^ k := by simp
  rw [hc] at h; exact h

theorem xor_m1 (a : BitVec 32) : a ^^^ -1#32 = ~~~a := by
  have h : (-1#32 : BitVec 32) = BitVec.allOnes 32 := by decide
  rw [h, BitVec.xor_allOnes]
theorem toInt_not32 (a : BitVec 32) : (~~~a).toInt = -a.toInt - 1 := by
  rw [BitVec.toInt_not]
  have hl := a.isLt
  rcases toInt_cases32 a with h1 | h1
  · have hb : 2 * a.toNat < 2 ^ 32 := by
      rw [BitVec.toInt_eq_toNat_cond] at h1; split at h1 <;> omega
    rw [h1]; unfold Int.bmod; simp; omega
  · have hb : ¬ 2 * a.toNat < 2 ^ 32 := by
      rw [BitVec.toInt_eq_toNat_cond] at h1; split at h1 <;> omega
    rw [h1]; unfold Int.bmod; simp; omega

theorem bintLength_lt {v : Int} {k : Nat} (hv : v ≠ 0) (h : JSem.bintLength v < k + 1) :
    (v.natAbs : Int) < 2 ^ k := by
  unfold JSem.bintLength at h
  simp only [hv, if_false] at h
  have hn : v.natAbs ≠ 0 := by omega
  have : v.natAbs < 2 ^ k := (Nat.log2_lt hn).mp (by omega)
  exact_mod_cast this

theorem bint_literal_range (v p : Int) (h : JMap.bintLit v = .valueOf p) :
    (v.natAbs : Int) < 2 ^ 31 := by
  unfold JMap.bintLit at h
  split at h
  · exact absurd h (by simp)
  · rename_i hv
    split at h
    · rename_i hl
      have hb : JMap.bintLitBound ≤ 32 := by decide
      have h1 : JSem.bintLength v < 31 + 1 := by omega
      exact bintLength_lt hv h1
    · exact absurd h (by simp)

end AldorVerif.C12
