import AldorVerif.Model.Store

/-! # Lemmas about the model of `store.c`

Part 1: pieces of one section (zipper lemmas: `l = b ++ x :: t`).
Part 2: the flattened *view* of all pieces with their addresses.
Part 3: the invariant and its preservation. -/
namespace AldorVerif.Store

/-! ## Part 1: pieces of one section -/

@[simp] theorem sizes_nil : sizes [] = 0 := rfl
@[simp] theorem sizes_cons (p : Piece) (l : List Piece) : sizes (p :: l) = p.n + sizes l := by
  simp [sizes]
@[simp] theorem sizes_append (l1 l2 : List Piece) : sizes (l1 ++ l2) = sizes l1 + sizes l2 := by
  simp [sizes, List.sum_append]

def AllPos (l : List Piece) : Prop := ∀ p ∈ l, 0 < p.n

theorem AllPos.cons {p : Piece} {l : List Piece} (h : AllPos (p :: l)) : 0 < p.n ∧ AllPos l :=
  ⟨h p (by simp), fun q hq => h q (by simp [hq])⟩

theorem AllPos.append_left {l1 l2 : List Piece} (h : AllPos (l1 ++ l2)) : AllPos l1 :=
  fun q hq => h q (by simp [hq])
theorem AllPos.append_right {l1 l2 : List Piece} (h : AllPos (l1 ++ l2)) : AllPos l2 :=
  fun q hq => h q (by simp [hq])

/-- a piece found by `pcsAt` splits the list -/
theorem pcsAt_some {a : Nat} {x : Piece} : ∀ {cur : Nat} {l : List Piece},
    pcsAt a cur l = some x → ∃ b t, l = b ++ x :: t ∧ cur + sizes b = a := by
  intro cur l
  induction l generalizing cur with
  | nil => intro h; simp [pcsAt] at h
  | cons p r ih =>
    intro h
    simp only [pcsAt] at h
    split at h
    · next hc => cases h; exact ⟨[], r, rfl, by simpa using hc⟩
    · obtain ⟨b, t, hl, hs⟩ := ih h
      exact ⟨p :: b, t, by simp [hl], by simp; omega⟩

theorem pcsAt_zip {a : Nat} {x : Piece} {t : List Piece} : ∀ {b : List Piece} {cur : Nat},
    AllPos b → cur + sizes b = a → pcsAt a cur (b ++ x :: t) = some x := by
  intro b
  induction b with
  | nil => intro cur _ h; simp at h; simp [pcsAt, h]
  | cons p r ih =>
    intro cur hp h
    have ⟨hp0, hpr⟩ := hp.cons
    simp at h
    have : cur ≠ a := by omega
    simp only [List.cons_append, pcsAt, if_neg this]
    exact ih hpr (by omega)

theorem pcsNext_zip {a : Nat} {x : Piece} {t : List Piece} : ∀ {b : List Piece} {cur : Nat},
    AllPos b → cur + sizes b = a → pcsNext a cur (b ++ x :: t) = t.head? := by
  intro b
  induction b with
  | nil => intro cur _ h; simp at h; simp [pcsNext, h]
  | cons p r ih =>
    intro cur hp h
    have ⟨hp0, hpr⟩ := hp.cons
    simp at h
    have : cur ≠ a := by omega
    simp only [List.cons_append, pcsNext, if_neg this]
    exact ih hpr (by omega)

theorem pcsSetSt_zip {a : Nat} {st : PSt} {x : Piece} {t : List Piece} : ∀ {b : List Piece} {cur : Nat},
    AllPos b → cur + sizes b = a →
    pcsSetSt a st cur (b ++ x :: t) = b ++ { x with st := st } :: t := by
  intro b
  induction b with
  | nil => intro cur _ h; simp at h; simp [pcsSetSt, h]
  | cons p r ih =>
    intro cur hp h
    have ⟨hp0, hpr⟩ := hp.cons
    simp at h
    have : cur ≠ a := by omega
    simp only [List.cons_append, pcsSetSt, if_neg this]
    rw [ih hpr (by omega)]

theorem pcsSplit_zip {a k : Nat} {st2 : PSt} {x : Piece} {t : List Piece} :
    ∀ {b : List Piece} {cur : Nat}, AllPos b → cur + sizes b = a →
    pcsSplit a k st2 cur (b ++ x :: t) = b ++ ⟨k, x.st⟩ :: ⟨x.n - k, st2⟩ :: t := by
  intro b
  induction b with
  | nil => intro cur _ h; simp at h; simp [pcsSplit, h]
  | cons p r ih =>
    intro cur hp h
    have ⟨hp0, hpr⟩ := hp.cons
    simp at h
    have : cur ≠ a := by omega
    simp only [List.cons_append, pcsSplit, if_neg this]
    rw [ih hpr (by omega)]

theorem pcsMergeNext_cons_ne {a cur : Nat} {p q : Piece} {r : List Piece} (h : cur ≠ a) :
    pcsMergeNext a cur (p :: q :: r) = p :: pcsMergeNext a (cur + p.n) (q :: r) := by
  simp [pcsMergeNext, h]

theorem pcsMergeNext_zip {a : Nat} {x y : Piece} {t : List Piece} :
    ∀ {b : List Piece} {cur : Nat}, AllPos b → cur + sizes b = a →
    pcsMergeNext a cur (b ++ x :: y :: t) = b ++ ⟨x.n + y.n, x.st⟩ :: t := by
  intro b
  induction b with
  | nil => intro cur _ h; simp at h; simp [pcsMergeNext, h]
  | cons p r ih =>
    intro cur hp h
    have ⟨hp0, hpr⟩ := hp.cons
    simp at h
    have hne : cur ≠ a := by omega
    have := @ih (cur + p.n) hpr (by omega)
    cases r with
    | nil =>
      simp only [List.cons_append, List.nil_append] at this ⊢
      rw [pcsMergeNext_cons_ne hne, this]
    | cons q r' =>
      simp only [List.cons_append] at this ⊢
      rw [pcsMergeNext_cons_ne hne, this]

/-- the piece that ends at `a` when the piece at `a` is not the first one -/
theorem pcsPrev_zip {a : Nat} {q : Piece} {t : List Piece} : ∀ {b : List Piece} {cur : Nat},
    AllPos b → 0 < q.n → cur + sizes b + q.n = a → pcsPrev a cur (b ++ q :: t) = some q := by
  intro b
  induction b with
  | nil => intro cur _ _ h; simp at h; simp [pcsPrev, h]
  | cons p r ih =>
    intro cur hp hq h
    have ⟨hp0, hpr⟩ := hp.cons
    simp at h
    have : cur + p.n ≠ a := by omega
    simp only [List.cons_append, pcsPrev, if_neg this]
    exact ih hpr hq (by omega)

/-- no piece ends at the start of the list or before -/
theorem pcsPrev_none {a : Nat} : ∀ {l : List Piece} {cur : Nat},
    AllPos l → a ≤ cur → pcsPrev a cur l = none := by
  intro l
  induction l with
  | nil => intros; rfl
  | cons p r ih =>
    intro cur hp h
    have ⟨hp0, hpr⟩ := hp.cons
    have : cur + p.n ≠ a := by omega
    simp only [pcsPrev, if_neg this]
    exact ih hpr (by omega)

/-! ## Part 2: the view -/

/-- a piece together with its address and the kind of its section -/
structure VP where
  addr : Nat
  n : Nat
  st : PSt
  cls : Option Nat
deriving DecidableEq

def viewPcs (cls : Option Nat) : Nat → List Piece → List VP
  | _, [] => []
  | cur, p :: r => ⟨cur, p.n, p.st, cls⟩ :: viewPcs cls (cur + p.n) r

def Sect.view (sc : Sect) : List VP := viewPcs sc.cls sc.data sc.pieces
def viewSects (l : List Sect) : List VP := l.flatMap Sect.view
def State.view (s : State) : List VP := viewSects s.sects

@[simp] theorem viewPcs_nil (c : Option Nat) (cur : Nat) : viewPcs c cur [] = [] := rfl
@[simp] theorem viewPcs_cons (c : Option Nat) (cur : Nat) (p : Piece) (r : List Piece) :
    viewPcs c cur (p :: r) = ⟨cur, p.n, p.st, c⟩ :: viewPcs c (cur + p.n) r := rfl

theorem viewPcs_append (c : Option Nat) : ∀ (l1 l2 : List Piece) (cur : Nat),
    viewPcs c cur (l1 ++ l2) = viewPcs c cur l1 ++ viewPcs c (cur + sizes l1) l2 := by
  intro l1
  induction l1 with
  | nil => intro l2 cur; simp
  | cons p r ih => intro l2 cur; simp [ih, Nat.add_assoc]

theorem mem_viewPcs {c : Option Nat} {v : VP} : ∀ {l : List Piece} {cur : Nat},
    v ∈ viewPcs c cur l →
    cur ≤ v.addr ∧ v.addr + v.n ≤ cur + sizes l ∧ v.cls = c ∧ ∃ p ∈ l, p.n = v.n ∧ p.st = v.st := by
  intro l
  induction l with
  | nil => intro cur h; simp at h
  | cons p r ih =>
    intro cur h
    simp only [viewPcs_cons, List.mem_cons] at h
    rcases h with rfl | h
    · simp
    · obtain ⟨h1, h2, h3, q, hq, h4⟩ := ih h
      refine ⟨by omega, by simp; omega, h3, q, by simp [hq], h4⟩

theorem viewPcs_pairwise (c : Option Nat) : ∀ (l : List Piece) (cur : Nat),
    (viewPcs c cur l).Pairwise (fun v w => v.addr + v.n ≤ w.addr) := by
  intro l
  induction l with
  | nil => intro cur; simp
  | cons p r ih =>
    intro cur
    simp only [viewPcs_cons, List.pairwise_cons]
    refine ⟨fun w hw => ?_, ih _⟩
    have := (mem_viewPcs hw).1
    simpa using this

@[simp] theorem viewSects_nil : viewSects [] = [] := rfl
@[simp] theorem viewSects_cons (sc : Sect) (l : List Sect) :
    viewSects (sc :: l) = sc.view ++ viewSects l := by simp [viewSects]
@[simp] theorem viewSects_append (l1 l2 : List Sect) :
    viewSects (l1 ++ l2) = viewSects l1 ++ viewSects l2 := by simp [viewSects]

theorem mem_viewSects {v : VP} {l : List Sect} : v ∈ viewSects l ↔ ∃ sc ∈ l, v ∈ sc.view := by
  simp [viewSects, List.mem_flatMap]

/-! ### geometry of a section -/

theorem qm_fit (pages qm : Nat) : sectQmCount pages qm * qm ≤ pages * pgSize := by
  unfold sectQmCount qmInfoSize
  have h1 := Nat.div_mul_le_self (pages * pgSize - sectHead) (qm + 1)
  have h2 : (pages * pgSize - sectHead) / (qm + 1) * qm ≤ (pages * pgSize - sectHead) / (qm + 1) * (qm + 1) :=
    Nat.mul_le_mul_left _ (Nat.le_succ qm)
  omega

theorem Sect.data_add (sc : Sect) : sc.data + sc.qmCount * sc.qm = sc.lim := by
  have := qm_fit sc.pages sc.qm
  unfold Sect.data Sect.lim Sect.qmCount
  omega

theorem Sect.base_le_data (sc : Sect) : sc.base ≤ sc.data := by unfold Sect.data; omega

def NoAdj : List Piece → Prop
  | p :: q :: r => ¬(p.st = .free ∧ q.st = .free) ∧ NoAdj (q :: r)
  | _ => True

structure Sect.Geo (sc : Sect) : Prop where
  aligned : sc.base % pgSize = 0
  pages_pos : 0 < sc.pages
  total : sizes sc.pieces = sc.qmCount * sc.qm
  pos : AllPos sc.pieces
  quant : ∀ p ∈ sc.pieces, sc.qm ∣ p.n
  fixed_ok : ∀ i, sc.cls = some i → i < fixedSizes.length ∧ ∀ p ∈ sc.pieces, p.n = classSize i ∧ p.st ≠ .front
  mixed_ok : sc.cls = none → (∀ p ∈ sc.pieces, mxHead < p.n) ∧ NoAdj sc.pieces

def Sorted (l : List Sect) : Prop := l.Pairwise (fun s t => s.lim ≤ t.base)

theorem Sect.has_iff (sc : Sect) (a : Nat) : sc.has a = true ↔ sc.base ≤ a ∧ a < sc.lim := by
  simp [Sect.has]

theorem Sect.has_false_iff (sc : Sect) (a : Nat) : sc.has a = false ↔ ¬(sc.base ≤ a ∧ a < sc.lim) := by
  rw [← Sect.has_iff]; simp

/-- every view entry of a well-formed section lies in its data area -/
theorem Sect.Geo.mem_view {sc : Sect} (g : sc.Geo) {v : VP} (h : v ∈ sc.view) :
    sc.data ≤ v.addr ∧ v.addr + v.n ≤ sc.lim ∧ 0 < v.n ∧ v.cls = sc.cls := by
  obtain ⟨h1, h2, h3, p, hp, h4, _⟩ := mem_viewPcs h
  have := sc.data_add
  have hp0 := g.pos p hp
  rw [g.total] at h2
  exact ⟨h1, by omega, by omega, h3⟩

theorem view_sorted {l : List Sect} (hs : Sorted l) (hg : ∀ sc ∈ l, sc.Geo) :
    (viewSects l).Pairwise (fun v w => v.addr + v.n ≤ w.addr) := by
  unfold viewSects
  rw [List.pairwise_flatMap]
  refine ⟨fun sc _ => viewPcs_pairwise _ _ _, ?_⟩
  unfold Sorted at hs
  have : l.Pairwise (fun s t => s ∈ l ∧ t ∈ l ∧ s.lim ≤ t.base) := by
    rw [List.pairwise_iff_forall_sublist] at hs ⊢
    intro a b hab
    have := hab.subset
    exact ⟨this (by simp), this (by simp), hs hab⟩
  refine this.imp ?_
  intro s t ⟨hsm, htm, hle⟩ x hx y hy
  have h1 := (hg s hsm).mem_view hx
  have h2 := (hg t htm).mem_view hy
  have := t.base_le_data
  omega

/-! ### the section that contains an address -/

@[simp] theorem Sect.data_pieces (sc : Sect) (l : List Piece) : ({ sc with pieces := l } : Sect).data = sc.data := rfl
@[simp] theorem Sect.lim_pieces (sc : Sect) (l : List Piece) : ({ sc with pieces := l } : Sect).lim = sc.lim := rfl
@[simp] theorem Sect.has_pieces (sc : Sect) (l : List Piece) (a : Nat) : ({ sc with pieces := l } : Sect).has a = sc.has a := rfl
@[simp] theorem Sect.qm_pieces (sc : Sect) (l : List Piece) : ({ sc with pieces := l } : Sect).qm = sc.qm := rfl
@[simp] theorem Sect.qmCount_pieces (sc : Sect) (l : List Piece) : ({ sc with pieces := l } : Sect).qmCount = sc.qmCount := rfl
@[simp] theorem Sect.hdr_pieces (sc : Sect) (l : List Piece) : ({ sc with pieces := l } : Sect).hdr = sc.hdr := rfl
@[simp] theorem Sect.view_pieces (sc : Sect) (l : List Piece) :
    ({ sc with pieces := l } : Sect).view = viewPcs sc.cls sc.data l := rfl
theorem Sect.upd_eq (sc : Sect) (f : Nat → List Piece → List Piece) :
    sc.upd f = { sc with pieces := f sc.data sc.pieces } := rfl

theorem Sorted.sides {S1 S2 : List Sect} {sc : Sect} {a : Nat} (h : Sorted (S1 ++ sc :: S2))
    (ha : sc.has a = true) : (∀ u ∈ S1, u.has a = false) ∧ (∀ u ∈ S2, u.has a = false) := by
  unfold Sorted at h
  rw [List.pairwise_append] at h
  obtain ⟨_, h2, h3⟩ := h
  rw [List.pairwise_cons] at h2
  rw [Sect.has_iff] at ha
  constructor
  · intro u hu
    have := h3 u hu sc (by simp)
    rw [Sect.has_false_iff]; omega
  · intro u hu
    have := h2.1 u hu
    rw [Sect.has_false_iff]; omega

theorem Sorted.replace {S1 S2 : List Sect} {sc sc' : Sect} (h : Sorted (S1 ++ sc :: S2))
    (hb : sc'.base = sc.base) (hl : sc'.lim = sc.lim) : Sorted (S1 ++ sc' :: S2) := by
  unfold Sorted at h ⊢
  rw [List.pairwise_append, List.pairwise_cons] at h ⊢
  obtain ⟨h1, ⟨h2, h3⟩, h4⟩ := h
  refine ⟨h1, ⟨fun u hu => by rw [hl]; exact h2 u hu, h3⟩, fun u hu v hv => ?_⟩
  simp only [List.mem_cons] at hv
  rcases hv with rfl | hv
  · rw [hb]; exact h4 u hu sc (by simp)
  · exact h4 u hu v (by simp [hv])

theorem Sorted.remove {S1 S2 : List Sect} {sc : Sect} (h : Sorted (S1 ++ sc :: S2)) : Sorted (S1 ++ S2) := by
  unfold Sorted at h ⊢
  rw [List.pairwise_append, List.pairwise_cons] at h
  rw [List.pairwise_append]
  obtain ⟨h1, ⟨_, h3⟩, h4⟩ := h
  exact ⟨h1, h3, fun u hu v hv => h4 u hu v (by simp [hv])⟩

theorem findSect_some {a : Nat} {sects : List Sect} {sc : Sect} (h : findSect a sects = some sc) :
    ∃ S1 S2, sects = S1 ++ sc :: S2 ∧ sc.has a = true := by
  unfold findSect at h
  rw [List.find?_eq_some_iff_append] at h
  obtain ⟨h1, S1, S2, h2, _⟩ := h
  exact ⟨S1, S2, h2, h1⟩

theorem findSect_zip {a : Nat} {S1 S2 : List Sect} {sc : Sect} (h1 : ∀ u ∈ S1, u.has a = false)
    (hsc : sc.has a = true) : findSect a (S1 ++ sc :: S2) = some sc := by
  unfold findSect
  rw [List.find?_eq_some_iff_append]
  exact ⟨hsc, S1, S2, rfl, fun u hu => by simp [h1 u hu]⟩

theorem findSect_none_of {a : Nat} {S : List Sect} (h : ∀ u ∈ S, u.has a = false) : findSect a S = none := by
  unfold findSect
  rw [List.find?_eq_none]
  intro u hu; simp [h u hu]

theorem updAt_zip {a : Nat} {f : Nat → List Piece → List Piece} {S1 S2 : List Sect} {sc : Sect}
    (h1 : ∀ u ∈ S1, u.has a = false) (hsc : sc.has a = true) (h2 : ∀ u ∈ S2, u.has a = false) :
    updAt a f (S1 ++ sc :: S2) = S1 ++ sc.upd f :: S2 := by
  unfold updAt
  rw [List.map_append, List.map_cons, if_pos hsc]
  congr 1
  · conv => rhs; rw [← List.map_id S1]
    apply List.map_congr_left
    intro u hu; simp [h1 u hu]
  · congr 1
    conv => rhs; rw [← List.map_id S2]
    apply List.map_congr_left
    intro u hu; simp [h2 u hu]

/-- the result of a successful lookup of the piece at `a` -/
theorem focus {sects : List Sect} {a : Nat} {sc : Sect} {x : Piece} (hs : Sorted sects)
    (h : findSect a sects = some sc) (hx : pcsAt a sc.data sc.pieces = some x) :
    ∃ S1 S2 b t, sects = S1 ++ sc :: S2 ∧ sc.pieces = b ++ x :: t ∧ sc.data + sizes b = a ∧
      sc.has a = true ∧ (∀ u ∈ S1, u.has a = false) ∧ (∀ u ∈ S2, u.has a = false) := by
  obtain ⟨S1, S2, h1, h2⟩ := findSect_some h
  obtain ⟨b, t, h3, h4⟩ := pcsAt_some hx
  subst h1
  have := hs.sides h2
  exact ⟨S1, S2, b, t, rfl, h3, h4, h2, this.1, this.2⟩

/-! ### the free-piece index as a set of (address, size) pairs -/

def inTree (t : Tree) (a k : Nat) : Prop := ∃ e ∈ t, e.1 = k ∧ a ∈ e.2

structure TreeWF (t : Tree) : Prop where
  sorted : t.Pairwise (fun e f => e.1 < f.1)
  ne : ∀ e ∈ t, e.2 ≠ []
  nodup : ∀ e ∈ t, e.2.Nodup

theorem mem_dllInsert {a x : Nat} : ∀ {l : List Nat}, x ∈ dllInsert a l ↔ x = a ∨ x ∈ l := by
  intro l
  induction l with
  | nil => simp [dllInsert]
  | cons u r ih =>
    simp only [dllInsert]
    split
    · simp [ih]; grind
    · simp; grind

theorem nodup_dllInsert {a : Nat} : ∀ {l : List Nat}, a ∉ l → l.Nodup → (dllInsert a l).Nodup := by
  intro l
  induction l with
  | nil => simp [dllInsert]
  | cons u r ih =>
    intro ha hn
    simp only [dllInsert]
    rw [List.nodup_cons] at hn
    simp at ha
    split
    · rw [List.nodup_cons]
      exact ⟨by rw [mem_dllInsert]; grind, ih ha.2 hn.2⟩
    · simp [List.nodup_cons] at *; grind

theorem dllInsert_ne_nil (a : Nat) (l : List Nat) : dllInsert a l ≠ [] := by
  cases l with
  | nil => simp [dllInsert]
  | cons u r => simp only [dllInsert]; split <;> simp

theorem mem_tInsert {k : Nat} {l : List Nat} {e : Nat × List Nat} : ∀ {t : Tree},
    e ∈ tInsert k l t ↔ e = (k, l) ∨ e ∈ t := by
  intro t
  induction t with
  | nil => simp [tInsert]
  | cons f r ih =>
    simp only [tInsert]
    split
    · simp
    · simp [ih]; grind

theorem sorted_tInsert {k : Nat} {l : List Nat} : ∀ {t : Tree},
    t.Pairwise (fun e f => e.1 < f.1) → (∀ e ∈ t, e.1 ≠ k) →
    (tInsert k l t).Pairwise (fun e f => e.1 < f.1) := by
  intro t
  induction t with
  | nil => simp [tInsert]
  | cons f r ih =>
    intro hs hk
    simp only [tInsert]
    rw [List.pairwise_cons] at hs
    split
    · next hlt =>
      rw [List.pairwise_cons]
      refine ⟨fun e he => ?_, List.pairwise_cons.2 hs⟩
      simp at he
      rcases he with rfl | he
      · exact hlt
      · have := hs.1 e he; simp at *; omega
    · next hge =>
      rw [List.pairwise_cons]
      refine ⟨fun e he => ?_, ih hs.2 (fun e he => hk e (by simp [he]))⟩
      rw [mem_tInsert] at he
      rcases he with rfl | he
      · have := hk f (by simp); simp at *; omega
      · exact hs.1 e he

theorem tFindEQ_some {t : Tree} {k : Nat} {e : Nat × List Nat} (h : tFindEQ t k = some e) :
    e ∈ t ∧ e.1 = k := by
  unfold tFindEQ at h
  exact ⟨List.mem_of_find?_eq_some h, by simpa using List.find?_some h⟩

theorem tFindEQ_none {t : Tree} {k : Nat} (h : tFindEQ t k = none) : ∀ e ∈ t, e.1 ≠ k := by
  unfold tFindEQ at h
  rw [List.find?_eq_none] at h
  intro e he; simpa using h e he

theorem inTree_tLink {t : Tree} {k a a' k' : Nat} :
    inTree (tLink t k a) a' k' ↔ inTree t a' k' ∨ (a' = a ∧ k' = k) := by
  unfold tLink
  split
  · next e he =>
    obtain ⟨hm, hk⟩ := tFindEQ_some he
    unfold inTree
    constructor
    · rintro ⟨f, hf, h1, h2⟩
      rw [List.mem_map] at hf
      obtain ⟨g, hg, rfl⟩ := hf
      by_cases hgk : g.1 = k
      · simp only [if_pos hgk] at h1 h2
        rw [mem_dllInsert] at h2
        rcases h2 with rfl | h2
        · right; exact ⟨rfl, by omega⟩
        · left; exact ⟨g, hg, h1, h2⟩
      · simp only [if_neg hgk] at h1 h2
        left; exact ⟨g, hg, h1, h2⟩
    · rintro (⟨f, hf, h1, h2⟩ | ⟨rfl, rfl⟩)
      · by_cases hfk : f.1 = k
        · exact ⟨(f.1, dllInsert a f.2), List.mem_map.2 ⟨f, hf, by simp [hfk]⟩, h1, by simp [mem_dllInsert, h2]⟩
        · exact ⟨f, List.mem_map.2 ⟨f, hf, by simp [hfk]⟩, h1, h2⟩
      · exact ⟨(e.1, dllInsert a' e.2), List.mem_map.2 ⟨e, hm, by simp [hk]⟩, hk, by simp [mem_dllInsert]⟩
  · unfold inTree
    constructor
    · rintro ⟨f, hf, h1, h2⟩
      rw [mem_tInsert] at hf
      rcases hf with rfl | hf
      · right; simp at h1 h2; exact ⟨h2, h1.symm⟩
      · left; exact ⟨f, hf, h1, h2⟩
    · rintro (⟨f, hf, h1, h2⟩ | ⟨rfl, rfl⟩)
      · exact ⟨f, mem_tInsert.2 (Or.inr hf), h1, h2⟩
      · exact ⟨(k', [a']), mem_tInsert.2 (Or.inl rfl), rfl, by simp⟩

theorem TreeWF.tLink {t : Tree} {k a : Nat} (h : TreeWF t) (hn : ¬ inTree t a k) : TreeWF (tLink t k a) := by
  unfold AldorVerif.Store.tLink
  split
  · next e he =>
    constructor
    · rw [List.pairwise_map]
      refine h.sorted.imp ?_
      intro x y hxy
      split <;> split <;> simpa using hxy
    · intro f hf
      rw [List.mem_map] at hf
      obtain ⟨g, hg, rfl⟩ := hf
      split
      · exact dllInsert_ne_nil _ _
      · exact h.ne g hg
    · intro f hf
      rw [List.mem_map] at hf
      obtain ⟨g, hg, rfl⟩ := hf
      split
      · next hgk => exact nodup_dllInsert (fun hm => hn ⟨g, hg, hgk, hm⟩) (h.nodup g hg)
      · exact h.nodup g hg
  · next hnone =>
    have hk := tFindEQ_none hnone
    constructor
    · exact sorted_tInsert h.sorted hk
    · intro f hf
      rw [mem_tInsert] at hf
      rcases hf with rfl | hf
      · simp
      · exact h.ne f hf
    · intro f hf
      rw [mem_tInsert] at hf
      rcases hf with rfl | hf
      · simp
      · exact h.nodup f hf


/-- keys are unique in a sorted tree -/
theorem sorted_key_unique {t : Tree} (hs : t.Pairwise (fun e f => e.1 < f.1)) {e f : Nat × List Nat}
    (he : e ∈ t) (hf : f ∈ t) (hk : e.1 = f.1) : e = f := by
  apply Classical.byContradiction
  intro hne
  rcases List.mem_iff_getElem.1 he with ⟨i, hi, rfl⟩
  rcases List.mem_iff_getElem.1 hf with ⟨j, hj, rfl⟩
  have hij : i ≠ j := fun e => hne (by subst e; rfl)
  rcases Nat.lt_or_gt_of_ne hij with hlt | hlt
  · have := (List.pairwise_iff_getElem.1 hs) i j hi hj hlt; omega
  · have := (List.pairwise_iff_getElem.1 hs) j i hj hi hlt; omega

theorem mem_tUnlink {t : Tree} {k a : Nat} {e : Nat × List Nat} :
    e ∈ tUnlink t k a ↔ ∃ g ∈ t, e = (if g.1 = k then (g.1, g.2.erase a) else g) := by
  unfold tUnlink; rw [List.mem_map]; grind

theorem inTree_tUnlink {t : Tree} (h : TreeWF t) {k a a' k' : Nat} :
    inTree (tUnlink t k a) a' k' ↔ inTree t a' k' ∧ ¬(a' = a ∧ k' = k) := by
  unfold inTree
  constructor
  · rintro ⟨e, he, h1, h2⟩
    rw [mem_tUnlink] at he
    obtain ⟨g, hg, rfl⟩ := he
    by_cases hgk : g.1 = k
    · simp only [if_pos hgk] at h1 h2
      rw [(h.nodup g hg).mem_erase_iff] at h2
      exact ⟨⟨g, hg, h1, h2.2⟩, fun hh => h2.1 hh.1⟩
    · simp only [if_neg hgk] at h1 h2
      exact ⟨⟨g, hg, h1, h2⟩, fun hh => hgk (by omega)⟩
  · rintro ⟨⟨g, hg, h1, h2⟩, hne⟩
    by_cases hgk : g.1 = k
    · refine ⟨(g.1, g.2.erase a), mem_tUnlink.2 ⟨g, hg, by simp [hgk]⟩, h1, ?_⟩
      simp only
      rw [(h.nodup g hg).mem_erase_iff]
      exact ⟨fun hh => hne ⟨hh, by omega⟩, h2⟩
    · exact ⟨g, mem_tUnlink.2 ⟨g, hg, by simp [hgk]⟩, h1, h2⟩

theorem sorted_tUnlink {t : Tree} (h : t.Pairwise (fun e f => e.1 < f.1)) (k a : Nat) :
    (tUnlink t k a).Pairwise (fun e f => e.1 < f.1) := by
  unfold tUnlink
  rw [List.pairwise_map]
  refine h.imp ?_
  intro x y hxy
  split <;> split <;> simpa using hxy

theorem tEmptyAt_iff {t : Tree} (hs : t.Pairwise (fun e f => e.1 < f.1)) {k : Nat} :
    tEmptyAt t k = true ↔ (k, []) ∈ t := by
  unfold tEmptyAt
  split
  · next l he =>
    obtain ⟨hm, hk⟩ := tFindEQ_some he
    simp at hk; subst hk
    simp [hm]
  · next hne =>
    simp only [Bool.false_eq_true, false_iff]
    intro hm
    cases hfe : tFindEQ t k with
    | none => exact tFindEQ_none hfe _ hm rfl
    | some e =>
      obtain ⟨hem, hek⟩ := tFindEQ_some hfe
      have : e = (k, []) := by
        apply Classical.byContradiction
        intro hne'
        rcases List.mem_iff_getElem.1 hem with ⟨i, hi, rfl⟩
        rcases List.mem_iff_getElem.1 hm with ⟨j, hj, hj'⟩
        have hij : i ≠ j := fun e => hne' (by subst e; exact hj')
        rcases Nat.lt_or_gt_of_ne hij with hlt | hlt
        · have := (List.pairwise_iff_getElem.1 hs) i j hi hj hlt; rw [hj'] at this; simp at this; omega
        · have := (List.pairwise_iff_getElem.1 hs) j i hj hi hlt; rw [hj'] at this; simp at this; omega
      subst this
      exact hne k hfe

theorem inTree_tDelete_empty {t : Tree} (hs : t.Pairwise (fun e f => e.1 < f.1)) {k a' k' : Nat}
    (hm : (k, []) ∈ t) : inTree (tDelete t k) a' k' ↔ inTree t a' k' := by
  unfold inTree tDelete
  constructor
  · rintro ⟨e, he, h1, h2⟩
    rw [List.mem_filter] at he
    exact ⟨e, he.1, h1, h2⟩
  · rintro ⟨e, he, h1, h2⟩
    refine ⟨e, List.mem_filter.2 ⟨he, ?_⟩, h1, h2⟩
    simp only [bne_iff_ne, ne_eq]
    intro hek
    have : e = (k, []) := by
      apply Classical.byContradiction
      intro hne'
      rcases List.mem_iff_getElem.1 he with ⟨i, hi, rfl⟩
      rcases List.mem_iff_getElem.1 hm with ⟨j, hj, hj'⟩
      have hij : i ≠ j := fun e => hne' (by subst e; exact hj')
      rcases Nat.lt_or_gt_of_ne hij with hlt | hlt
      · have := (List.pairwise_iff_getElem.1 hs) i j hi hj hlt; rw [hj'] at this; simp at this; omega
      · have := (List.pairwise_iff_getElem.1 hs) j i hj hi hlt; rw [hj'] at this; simp at this; omega
    subst this
    simp at h2

theorem inTree_tUnlinkDel {t : Tree} (h : TreeWF t) {k a a' k' : Nat} :
    inTree (tUnlinkDel t k a) a' k' ↔ inTree t a' k' ∧ ¬(a' = a ∧ k' = k) := by
  unfold tUnlinkDel
  simp only
  split
  · next he =>
    rw [tEmptyAt_iff (sorted_tUnlink h.sorted k a)] at he
    rw [inTree_tDelete_empty (sorted_tUnlink h.sorted k a) he, inTree_tUnlink h]
  · exact inTree_tUnlink h

theorem TreeWF.tUnlinkDel {t : Tree} (h : TreeWF t) (k a : Nat) : TreeWF (tUnlinkDel t k a) := by
  have hs := sorted_tUnlink h.sorted k a
  have hnd : ∀ e ∈ tUnlink t k a, e.2.Nodup := by
    intro e he
    rw [mem_tUnlink] at he
    obtain ⟨g, hg, rfl⟩ := he
    split
    · exact (h.nodup g hg).erase a
    · exact h.nodup g hg
  have hne : ∀ e ∈ tUnlink t k a, e.1 ≠ k → e.2 ≠ [] := by
    intro e he hk
    rw [mem_tUnlink] at he
    obtain ⟨g, hg, rfl⟩ := he
    by_cases hgk : g.1 = k
    · simp [hgk] at hk
    · simp only [if_neg hgk]; exact h.ne g hg
  unfold AldorVerif.Store.tUnlinkDel
  simp only
  split
  · next he =>
    unfold tDelete
    constructor
    · exact hs.filter _
    · intro e he'
      rw [List.mem_filter] at he'
      exact hne e he'.1 (by simpa using he'.2)
    · intro e he'
      rw [List.mem_filter] at he'
      exact hnd e he'.1
  · next he =>
    constructor
    · exact hs
    · intro e he'
      by_cases hk : e.1 = k
      · intro hnil
        apply he
        rw [tEmptyAt_iff hs]
        have : e = (k, []) := by cases e; simp_all
        rw [← this]; exact he'
      · exact hne e he' hk
    · exact hnd

theorem tFindGE_some {t : Tree} {n : Nat} {e : Nat × List Nat} (h : tFindGE t n = some e) :
    e ∈ t ∧ n ≤ e.1 := by
  unfold tFindGE at h
  exact ⟨List.mem_of_find?_eq_some h, by simpa using List.find?_some h⟩


theorem tRekey_spec {t : Tree} (h : TreeWF t) {k a r mt : Nat}
    (he : tEmptyAt (tUnlink t k a) k = true)
    (hf : (tFindGE (tUnlink t k a) r).map (·.1) = some k) :
    TreeWF (tRekey (tUnlink t k a) k r mt) ∧
    ∀ a' k', inTree (tRekey (tUnlink t k a) k r mt) a' k' ↔
      (inTree t a' k' ∧ ¬(a' = a ∧ k' = k)) ∨ (a' = mt ∧ k' = r) := by
  have hs := sorted_tUnlink h.sorted k a
  have hin := @inTree_tUnlink t h k a
  have hnd : ∀ e ∈ tUnlink t k a, e.2.Nodup := by
    intro e he
    rw [mem_tUnlink] at he
    obtain ⟨g, hg, rfl⟩ := he
    split
    · exact (h.nodup g hg).erase a
    · exact h.nodup g hg
  have hne : ∀ e ∈ tUnlink t k a, e.1 ≠ k → e.2 ≠ [] := by
    intro e he hk
    rw [mem_tUnlink] at he
    obtain ⟨g, hg, rfl⟩ := he
    by_cases hgk : g.1 = k
    · simp [hgk] at hk
    · simp only [if_neg hgk]; exact h.ne g hg
  generalize tUnlink t k a = t1 at *
  rw [tEmptyAt_iff hs] at he
  cases hfe : tFindGE t1 r with
  | none => rw [hfe] at hf; simp at hf
  | some e =>
    rw [hfe] at hf
    simp at hf
    have hrk := (tFindGE_some hfe).2
    unfold tFindGE at hfe
    rw [List.find?_eq_some_iff_append] at hfe
    obtain ⟨_, as, bs, hsplit, has⟩ := hfe
    have hek : e = (k, []) := sorted_key_unique hs (by rw [hsplit]; simp) he (by simpa using hf)
    subst hek
    subst hsplit
    rw [List.pairwise_append, List.pairwise_cons] at hs
    obtain ⟨hs1, ⟨hs2, hs3⟩, hs4⟩ := hs
    have hask : ∀ e ∈ as, e.1 < r := by
      intro e hem; have := has e hem; simp at this; exact this
    have hbsk : ∀ e ∈ bs, k < e.1 := by
      intro e hem; exact hs2 e hem
    have hre : tRekey (as ++ (k, []) :: bs) k r mt = as ++ (r, [mt]) :: bs := by
      unfold tRekey
      rw [List.map_append, List.map_cons]
      simp only [if_true]
      congr 1
      · conv => rhs; rw [← List.map_id as]
        apply List.map_congr_left
        intro e hem; have := hask e hem; simp at hrk
        have : e.1 ≠ k := by omega
        simp [this]
      · congr 1
        conv => rhs; rw [← List.map_id bs]
        apply List.map_congr_left
        intro e hem; have := hbsk e hem
        have : e.1 ≠ k := by omega
        simp [this]
    rw [hre]
    simp at hrk
    constructor
    · constructor
      · rw [List.pairwise_append, List.pairwise_cons]
        refine ⟨hs1, ⟨fun e hem => ?_, hs3⟩, fun e hem f hfm => ?_⟩
        · have := hbsk e hem; simp; omega
        · simp at hfm
          rcases hfm with rfl | hfm
          · exact hask e hem
          · exact hs4 e hem f (by simp [hfm])
      · intro e hem
        simp at hem
        rcases hem with hem | rfl | hem
        · exact hne e (by simp [hem]) (by have := hask e hem; omega)
        · simp
        · exact hne e (by simp [hem]) (by have := hbsk e hem; omega)
      · intro e hem
        simp at hem
        rcases hem with hem | rfl | hem
        · exact hnd e (by simp [hem])
        · simp
        · exact hnd e (by simp [hem])
    · intro a' k'
      rw [← hin]
      unfold inTree
      constructor
      · rintro ⟨e, hem, h1, h2⟩
        simp at hem
        rcases hem with hem | rfl | hem
        · left; exact ⟨e, by simp [hem], h1, h2⟩
        · right; simp at h1 h2; exact ⟨h2, h1.symm⟩
        · left; exact ⟨e, by simp [hem], h1, h2⟩
      · rintro (⟨e, hem, h1, h2⟩ | ⟨rfl, rfl⟩)
        · simp at hem
          rcases hem with hem | rfl | hem
          · exact ⟨e, by simp [hem], h1, h2⟩
          · simp at h2
          · exact ⟨e, by simp [hem], h1, h2⟩
        · exact ⟨(k', [a']), by simp, rfl, by simp⟩


/-! ### toolkit -/

theorem getD_set {α} (l : List α) (i j : Nat) (v d : α) :
    (l.set i v).getD j d = if i = j ∧ i < l.length then v else l.getD j d := by
  simp only [List.getD_eq_getElem?_getD, List.getElem?_set]
  by_cases h : i = j
  · subst h
    by_cases h2 : i < l.length
    · simp [h2]
    · simp [h2]
  · simp [h]

def lastOK (b : List Piece) (x : Piece) : Prop := ∀ q, b.getLast? = some q → ¬(q.st = .free ∧ x.st = .free)
def headOK (x : Piece) (t : List Piece) : Prop := ∀ q, t.head? = some q → ¬(x.st = .free ∧ q.st = .free)

theorem NoAdj_cons (x : Piece) (t : List Piece) : NoAdj (x :: t) ↔ headOK x t ∧ NoAdj t := by
  cases t with
  | nil => simp [NoAdj, headOK]
  | cons q r => simp [NoAdj, headOK]

theorem NoAdj_append (b : List Piece) (x : Piece) (t : List Piece) :
    NoAdj (b ++ x :: t) ↔ NoAdj b ∧ lastOK b x ∧ headOK x t ∧ NoAdj t := by
  induction b with
  | nil => simp [NoAdj_cons, NoAdj, lastOK]
  | cons p r ih =>
    cases r with
    | nil =>
      simp only [List.cons_append, List.nil_append, NoAdj_cons] 
      simp [NoAdj, lastOK, headOK]
    | cons q r' =>
      have : (p :: q :: r' ++ x :: t) = p :: (q :: r' ++ x :: t) := rfl
      have e1 : headOK p (q :: r' ++ x :: t) ↔ headOK p (q :: r') := by simp [headOK]
      have e2 : lastOK (p :: q :: r') x ↔ lastOK (q :: r') x := by simp [lastOK, List.getLast?_cons_cons]
      rw [this, NoAdj_cons, ih, NoAdj_cons p (q :: r'), e1, e2]
      grind


theorem blockAt_some {s : State} {p : Nat} {sc : Sect} {x : Piece} {c : Nat}
    (h : s.blockAt p = some (sc, x, c)) :
    findSect p s.sects = some sc ∧ sc.hdr ≤ p ∧ pcsAt (p - sc.hdr) sc.data sc.pieces = some x ∧
      x.st = .busy c := by
  unfold State.blockAt at h
  split at h
  · next sc' hf =>
    split at h
    · next hh =>
      split at h
      · next n c' hx =>
        simp only [Option.some.injEq, Prod.mk.injEq] at h
        obtain ⟨rfl, rfl, rfl⟩ := h
        exact ⟨hf, hh, hx, rfl⟩
      · simp at h
    · simp at h
  · simp at h


theorem view_shape (sc : Sect) (S1 S2 : List Sect) (b : List Piece) (x : Piece) (t : List Piece) :
    viewSects (S1 ++ { sc with pieces := b ++ x :: t } :: S2) =
      (viewSects S1 ++ viewPcs sc.cls sc.data b) ++
        ⟨sc.data + sizes b, x.n, x.st, sc.cls⟩ ::
          (viewPcs sc.cls (sc.data + sizes b + x.n) t ++ viewSects S2) := by
  simp [viewPcs_append]

theorem Sect.eta_pieces {sc : Sect} {l : List Piece} (h : sc.pieces = l) : sc = { sc with pieces := l } := by
  cases sc; simp_all

/-- replacing one piece by a piece of the same size -/
theorem Sect.Geo.replace1 {sc : Sect} (g : sc.Geo) {b t : List Piece} {x x' : Piece}
    (hp : sc.pieces = b ++ x :: t) (hn : x'.n = x.n)
    (hfx : ∀ i, sc.cls = some i → x'.st ≠ .front)
    (hna : sc.cls = none → NoAdj (b ++ x' :: t)) :
    ({ sc with pieces := b ++ x' :: t } : Sect).Geo := by
  have hmem : ∀ q ∈ b ++ x' :: t, q = x' ∨ q ∈ sc.pieces := by
    intro q hq; rw [hp]; simp at hq ⊢; grind
  constructor
  · exact g.aligned
  · exact g.pages_pos
  · have := g.total; rw [hp] at this; simp at this ⊢; omega
  · intro q hq
    rcases hmem q hq with rfl | h
    · rw [hn]; exact g.pos x (by rw [hp]; simp)
    · exact g.pos q h
  · intro q hq
    rcases hmem q hq with rfl | h
    · rw [hn]; exact g.quant x (by rw [hp]; simp)
    · exact g.quant q h
  · intro i hi
    refine ⟨(g.fixed_ok i hi).1, fun q hq => ?_⟩
    rcases hmem q hq with rfl | h
    · exact ⟨by rw [hn]; exact ((g.fixed_ok i hi).2 x (by rw [hp]; simp)).1, hfx i hi⟩
    · exact (g.fixed_ok i hi).2 q h
  · intro hc
    refine ⟨fun q hq => ?_, hna hc⟩
    rcases hmem q hq with rfl | h
    · rw [hn]; exact (g.mixed_ok hc).1 x (by rw [hp]; simp)
    · exact (g.mixed_ok hc).1 q h

/-! ## Part 3: the invariant -/

/-- The invariant, with one possible exception `d`: the piece at address `d` may be in the
state `front` (isFree = false, tag QmFreeFirst) without being the frontier piece -- the state of
a piece between `mxmemSplit`/`mixedFrontier = 0` and `piecePutMixed`. -/
structure InvD (d : Option Nat) (s : State) : Prop where
  sorted : Sorted s.sects
  geo : ∀ sc ∈ s.sects, sc.Geo
  fl_len : s.fl.length = fixedSizes.length
  fl_nodup : ∀ i, (s.fl.getD i []).Nodup
  fl_iff : ∀ i a, a ∈ s.fl.getD i [] ↔ ∃ n, ⟨a, n, .free, some i⟩ ∈ s.view
  tree_wf : TreeWF s.tree
  tree_iff : ∀ a k, inTree s.tree a k ↔ ⟨a, k, .free, none⟩ ∈ s.view
  front_iff : ∀ a, s.frontier = some a ↔ (∃ n c, ⟨a, n, .front, c⟩ ∈ s.view) ∧ d ≠ some a

abbrev Inv (s : State) : Prop := InvD none s

theorem InvD.view_sorted {d : Option Nat} {s : State} (h : InvD d s) :
    s.view.Pairwise (fun v w => v.addr + v.n ≤ w.addr) := AldorVerif.Store.view_sorted h.sorted h.geo

theorem InvD.view_pos {d : Option Nat} {s : State} (h : InvD d s) {v : VP} (hv : v ∈ s.view) : 0 < v.n := by
  obtain ⟨sc, hsc, hv⟩ := mem_viewSects.1 hv
  exact ((h.geo sc hsc).mem_view hv).2.2.1

theorem sorted_inj {V : List VP} (hs : V.Pairwise (fun v w => v.addr + v.n ≤ w.addr))
    (hp : ∀ v ∈ V, 0 < v.n) {v w : VP} (hv : v ∈ V) (hw : w ∈ V) (ha : v.addr = w.addr) : v = w := by
  have hvp := hp v hv
  have hwp := hp w hw
  apply Classical.byContradiction
  intro hne
  rcases List.mem_iff_getElem.1 hv with ⟨i, hi, rfl⟩
  rcases List.mem_iff_getElem.1 hw with ⟨j, hj, rfl⟩
  have hij : i ≠ j := fun e => hne (by subst e; rfl)
  rcases Nat.lt_or_gt_of_ne hij with hlt | hlt
  · have := (List.pairwise_iff_getElem.1 hs) i j hi hj hlt
    omega
  · have := (List.pairwise_iff_getElem.1 hs) j i hj hi hlt
    omega

/-- two view entries with the same address are the same entry -/
theorem InvD.view_inj {d : Option Nat} {s : State} (h : InvD d s) {v w : VP} (hv : v ∈ s.view) (hw : w ∈ s.view)
    (ha : v.addr = w.addr) : v = w := sorted_inj h.view_sorted (fun _ hv => h.view_pos hv) hv hw ha

/-- replacing a window `E` of a sorted view by `E'` -/
theorem mem_window {V V' L E E' R : List VP} (hV : V = L ++ E ++ R) (hV' : V' = L ++ E' ++ R)
    (hs : V.Pairwise (fun v w => v.addr + v.n ≤ w.addr)) (hp : ∀ v ∈ V, 0 < v.n) (v : VP) :
    v ∈ V' ↔ (v ∈ V ∧ ∀ e ∈ E, v.addr ≠ e.addr) ∨ v ∈ E' := by
  subst hV hV'
  rw [List.pairwise_append, List.pairwise_append] at hs
  obtain ⟨⟨_, _, hLE⟩, _, hLER⟩ := hs
  simp only [List.mem_append]
  constructor
  · rintro ((h | h) | h)
    · left
      refine ⟨by simp [h], fun e he => ?_⟩
      have := hLE v h e he
      have := hp v (by simp [h])
      omega
    · right; exact h
    · left
      refine ⟨by simp [h], fun e he => ?_⟩
      have := hLER e (by simp [he]) v h
      have := hp e (by simp [he])
      omega
  · rintro (⟨(h | h) | h, hne⟩ | h)
    · exact Or.inl (Or.inl h)
    · exact absurd rfl (hne v h)
    · exact Or.inr h
    · exact Or.inl (Or.inr h)

/-- replacing a run of pieces by pieces of the same total size -/
theorem Sect.Geo.replace {sc : Sect} (g : sc.Geo) {b mid mid' t : List Piece}
    (hp : sc.pieces = b ++ mid ++ t) (hsz : sizes mid' = sizes mid) (hpos : AllPos mid')
    (hq : ∀ p ∈ mid', sc.qm ∣ p.n)
    (hfx : ∀ i, sc.cls = some i → ∀ p ∈ mid', p.n = classSize i ∧ p.st ≠ .front)
    (hmx : sc.cls = none → (∀ p ∈ mid', mxHead < p.n) ∧ NoAdj (b ++ mid' ++ t)) :
    ({ sc with pieces := b ++ mid' ++ t } : Sect).Geo := by
  have hmem : ∀ q ∈ b ++ mid' ++ t, q ∈ mid' ∨ q ∈ sc.pieces := by
    intro q hq; rw [hp]; simp at hq ⊢; grind
  constructor
  · exact g.aligned
  · exact g.pages_pos
  · have := g.total; rw [hp] at this; simp at this ⊢; omega
  · intro q hq
    rcases hmem q hq with h | h
    · exact hpos q h
    · exact g.pos q h
  · intro q hq'
    rcases hmem q hq' with h | h
    · exact hq q h
    · exact g.quant q h
  · intro i hi
    refine ⟨(g.fixed_ok i hi).1, fun q hq => ?_⟩
    rcases hmem q hq with h | h
    · exact hfx i hi q h
    · exact (g.fixed_ok i hi).2 q h
  · intro hc
    refine ⟨fun q hq => ?_, (hmx hc).2⟩
    rcases hmem q hq with h | h
    · exact (hmx hc).1 q h
    · exact (g.mixed_ok hc).1 q h

/-- the effect on the view of replacing a run of pieces of one section -/
theorem replace_view {d : Option Nat} {s : State} (h : InvD d s) {S1 S2 : List Sect} {sc : Sect}
    {b mid mid' t : List Piece} (hS : s.sects = S1 ++ sc :: S2) (hp : sc.pieces = b ++ mid ++ t)
    (hg : ({ sc with pieces := b ++ mid' ++ t } : Sect).Geo) :
    let sects' := S1 ++ { sc with pieces := b ++ mid' ++ t } :: S2
    Sorted sects' ∧ (∀ u ∈ sects', u.Geo) ∧
    (∀ v, v ∈ viewSects sects' ↔
      (v ∈ s.view ∧ ∀ e ∈ viewPcs sc.cls (sc.data + sizes b) mid, v.addr ≠ e.addr) ∨
        v ∈ viewPcs sc.cls (sc.data + sizes b) mid') ∧
    (∀ w ∈ viewPcs sc.cls (sc.data + sizes b) mid, w ∈ s.view) := by
  intro sects'
  have hV : s.view = (viewSects S1 ++ viewPcs sc.cls sc.data b) ++ viewPcs sc.cls (sc.data + sizes b) mid ++
      (viewPcs sc.cls (sc.data + sizes b + sizes mid) t ++ viewSects S2) := by
    unfold State.view
    rw [hS]; conv => lhs; rw [Sect.eta_pieces hp]
    simp [viewPcs_append]
  refine ⟨?_, ?_, ?_, fun w hw => by rw [hV]; simp [hw]⟩
  · have := h.sorted; rw [hS] at this; exact this.replace rfl rfl
  · intro u hu
    simp only [sects', List.mem_append, List.mem_cons] at hu
    rcases hu with hu | rfl | hu
    · exact h.geo u (by rw [hS]; simp [hu])
    · exact hg
    · exact h.geo u (by rw [hS]; simp [hu])
  · have hV' : viewSects sects' = (viewSects S1 ++ viewPcs sc.cls sc.data b) ++ viewPcs sc.cls (sc.data + sizes b) mid' ++
        (viewPcs sc.cls (sc.data + sizes b + sizes mid) t ++ viewSects S2) := by
      have e1 := hg.total
      have e2 := (h.geo sc (by rw [hS]; simp)).total
      rw [hp] at e2
      simp at e1 e2
      have : sizes mid' = sizes mid := by omega
      simp [sects', viewPcs_append, this]
    exact mem_window hV hV' h.view_sorted (fun _ hv => h.view_pos hv)


/-- a successful lookup at state level -/
theorem InvD.focus {d : Option Nat} {s : State} (h : InvD d s) {a : Nat} {sc : Sect} {x : Piece}
    (hf : findSect a s.sects = some sc) (hx : pcsAt a sc.data sc.pieces = some x) :
    ∃ S1 S2 b t, s.sects = S1 ++ sc :: S2 ∧ sc.pieces = b ++ x :: t ∧ sc.data + sizes b = a ∧
      sc.has a = true ∧ (∀ u ∈ S1, u.has a = false) ∧ (∀ u ∈ S2, u.has a = false) ∧
      sc.Geo ∧ AllPos b ∧ (⟨a, x.n, x.st, sc.cls⟩ : VP) ∈ s.view := by
  obtain ⟨S1, S2, b, t, hS, hP, ha, hhas, h1, h2⟩ := AldorVerif.Store.focus h.sorted hf hx
  have hg := h.geo sc (by rw [hS]; simp)
  have hbpos : AllPos b := by have := hg.pos; rw [hP] at this; exact this.append_left
  refine ⟨S1, S2, b, t, hS, hP, ha, hhas, h1, h2, hg, hbpos, ?_⟩
  unfold State.view
  have := view_shape sc S1 S2 b x t
  rw [← Sect.eta_pieces hP] at this
  rw [hS, this, ha]; simp

theorem inv_free_fixed {s : State} {p i : Nat} {sc : Sect} {x : Piece} {c : Nat} (h : Inv s)
    (hb : s.blockAt p = some (sc, x, c)) (hc : sc.cls = some i) :
    Inv { s with sects := updAt p (pcsSetSt p .free) s.sects,
                 fl := s.fl.set i (p :: s.fl.getD i []) } ∧
    (∀ v, v ∈ viewSects (updAt p (pcsSetSt p .free) s.sects) ↔
      (v ∈ s.view ∧ v.addr ≠ p) ∨ v = ⟨p, x.n, .free, some i⟩) ∧
    (⟨p, x.n, .busy c, some i⟩ : VP) ∈ s.view := by
  obtain ⟨hf, hh, hx, hst⟩ := blockAt_some hb
  have hdr0 : sc.hdr = 0 := by simp [Sect.hdr, hc]
  rw [hdr0, Nat.sub_zero] at hx
  obtain ⟨S1, S2, b, t, hS, hP, ha, hhas, h1, h2, hg, hbpos, hxv⟩ := h.focus hf hx
  have hsects' : updAt p (pcsSetSt p .free) s.sects =
      S1 ++ { sc with pieces := b ++ [{ x with st := .free }] ++ t } :: S2 := by
    rw [hS, updAt_zip h1 hhas h2, Sect.upd_eq, hP, pcsSetSt_zip hbpos ha]; simp
  have hxm : x ∈ sc.pieces := by rw [hP]; simp
  have hfx := (hg.fixed_ok i hc).2 x hxm
  have hg' : ({ sc with pieces := b ++ [{ x with st := .free }] ++ t } : Sect).Geo :=
    hg.replace (mid := [x]) (by simp [hP]) (by simp) (by intro q hq; simp at hq; subst hq; exact hg.pos x hxm)
      (by intro q hq; simp at hq; subst hq; exact hg.quant x hxm)
      (by intro j hj q hq; simp at hq; subst hq; rw [hc] at hj; cases hj; exact ⟨hfx.1, by simp⟩)
      (by intro hn; rw [hc] at hn; cases hn)
  obtain ⟨hso, hge, hmem, _⟩ := replace_view h (mid := [x]) hS (by simp [hP]) hg'
  rw [← hsects'] at hso hge hmem
  simp only [viewPcs_cons, viewPcs_nil, List.mem_singleton, forall_eq, ha] at hmem
  have hflen := h.fl_len
  have hilt : i < s.fl.length := by rw [hflen]; exact (hg.fixed_ok i hc).1
  have hpu : ∀ v ∈ s.view, v.addr = p → v = ⟨p, x.n, .busy c, some i⟩ := by
    intro v hv hvp
    have := h.view_inj hv hxv hvp
    rw [this, hst, hc]
  refine ⟨?_, fun v => by rw [hmem v, hc], by rw [← hst, ← hc]; exact hxv⟩
  constructor
  · exact hso
  · exact hge
  · simp [h.fl_len]
  · intro j
    show ((s.fl.set i (p :: s.fl.getD i [])).getD j []).Nodup
    rw [getD_set]
    split
    · rw [List.nodup_cons]
      refine ⟨fun hm => ?_, h.fl_nodup i⟩
      obtain ⟨n, hn⟩ := (h.fl_iff i p).1 hm
      have := h.view_inj hn hxv rfl
      rw [hst] at this; simp at this
    · exact h.fl_nodup j
  · intro j a
    show a ∈ (s.fl.set i (p :: s.fl.getD i [])).getD j [] ↔ ∃ n, _ ∈ viewSects (updAt p (pcsSetSt p .free) s.sects)
    rw [getD_set]
    have := h.fl_iff j a
    simp only [hmem]
    grind
  · exact h.tree_wf
  · intro a k
    show inTree s.tree a k ↔ _ ∈ viewSects (updAt p (pcsSetSt p .free) s.sects)
    rw [hmem, h.tree_iff a k]
    grind
  · intro a
    show s.frontier = some a ↔ (∃ n c, _ ∈ viewSects (updAt p (pcsSetSt p .free) s.sects)) ∧ _
    rw [h.front_iff a]
    simp only [hmem]
    grind

theorem mem_viewPcs_split {c : Option Nat} {v : VP} : ∀ {l : List Piece} {cur : Nat},
    v ∈ viewPcs c cur l → ∃ b x t, l = b ++ x :: t ∧ cur + sizes b = v.addr ∧ x.n = v.n ∧ x.st = v.st ∧ v.cls = c := by
  intro l
  induction l with
  | nil => intro cur h; simp at h
  | cons p r ih =>
    intro cur h
    simp only [viewPcs_cons, List.mem_cons] at h
    rcases h with rfl | h
    · exact ⟨[], p, r, rfl, by simp, rfl, rfl, rfl⟩
    · obtain ⟨b, x, t, h1, h2, h3⟩ := ih h
      exact ⟨p :: b, x, t, by simp [h1], by simp; omega, h3⟩

/-- a view entry can be looked up -/
theorem InvD.lookup {d : Option Nat} {s : State} (h : InvD d s) {v : VP} (hv : v ∈ s.view) :
    ∃ sc x, findSect v.addr s.sects = some sc ∧ pcsAt v.addr sc.data sc.pieces = some x ∧
      x.n = v.n ∧ x.st = v.st ∧ sc.cls = v.cls ∧ sc ∈ s.sects := by
  obtain ⟨sc, hsc, hvs⟩ := mem_viewSects.1 hv
  have hg := h.geo sc hsc
  obtain ⟨b, x, t, hl, hcur, hn, hst, hcls⟩ := mem_viewPcs_split hvs
  have hbpos : AllPos b := by have := hg.pos; rw [hl] at this; exact this.append_left
  obtain ⟨S1, S2, hS⟩ := List.append_of_mem hsc
  have hb := hg.mem_view hvs
  have hhas : sc.has v.addr = true := by
    rw [Sect.has_iff]; have := sc.base_le_data; omega
  have hs := h.sorted
  rw [hS] at hs
  have := hs.sides hhas
  refine ⟨sc, x, ?_, ?_, hn, hst, hcls.symm, hsc⟩
  · rw [hS]; exact findSect_zip this.1 hhas
  · rw [hl]; exact pcsAt_zip hbpos hcur

theorem insertSect_some {n : Sect} : ∀ {l l' : List Sect}, insertSect n l = some l' → Sorted l → n.base ≤ n.lim →
    ∃ S1 S2, l = S1 ++ S2 ∧ l' = S1 ++ n :: S2 ∧ Sorted l' := by
  intro l
  induction l with
  | nil =>
    intro l' h _ _
    simp [insertSect] at h; subst h
    exact ⟨[], [], rfl, rfl, by simp [Sorted]⟩
  | cons s r ih =>
    intro l' h hs hn
    simp only [insertSect] at h
    split at h
    · next h1 =>
      cases h
      refine ⟨[], s :: r, rfl, rfl, ?_⟩
      unfold Sorted at hs ⊢
      rw [List.pairwise_cons] at hs ⊢
      refine ⟨fun u hu => ?_, List.pairwise_cons.2 hs⟩
      simp at hu
      rcases hu with rfl | hu
      · exact h1
      · have := hs.1 u hu
        have : s.base ≤ s.lim := by unfold Sect.lim; omega
        omega
    · split at h
      · next h1 h2 =>
        cases hr : insertSect n r with
        | none => rw [hr] at h; simp at h
        | some r' =>
          rw [hr] at h; simp at h; subst h
          unfold Sorted at hs
          rw [List.pairwise_cons] at hs
          obtain ⟨S1, S2, e1, e2, e3⟩ := ih hr hs.2 hn
          refine ⟨s :: S1, S2, by simp [e1], by simp [e2], ?_⟩
          unfold Sorted at e3 ⊢
          rw [List.pairwise_cons]
          refine ⟨fun u hu => ?_, e3⟩
          rw [e2] at hu
          simp at hu
          rcases hu with hu | rfl | hu
          · exact hs.1 u (by rw [e1]; simp [hu])
          · exact h2
          · exact hs.1 u (by rw [e1]; simp [hu])
      · simp at h

theorem mem_viewPcs_replicate {c : Option Nat} {sz : Nat} {st : PSt} {v : VP} : ∀ {n cur : Nat},
    v ∈ viewPcs c cur (List.replicate n ⟨sz, st⟩) ↔ ∃ q < n, v = ⟨cur + q * sz, sz, st, c⟩ := by
  intro n
  induction n with
  | zero => intro cur; simp
  | succ n ih =>
    intro cur
    simp only [List.replicate_succ, viewPcs_cons, List.mem_cons, ih]
    constructor
    · rintro (rfl | ⟨q, hq, rfl⟩)
      · exact ⟨0, by omega, by simp⟩
      · exact ⟨q + 1, by omega, by simp [Nat.add_mul, Nat.add_assoc, Nat.add_comm sz]⟩
    · rintro ⟨q, hq, rfl⟩
      cases q with
      | zero => left; simp
      | succ q => right; exact ⟨q, by omega, by simp [Nat.add_mul, Nat.add_assoc, Nat.add_comm sz]⟩

theorem sizes_replicate (n : Nat) (p : Piece) : sizes (List.replicate n p) = n * p.n := by
  induction n with
  | zero => simp
  | succ n ih => simp [List.replicate_succ, ih, Nat.add_mul, Nat.add_comm]

theorem classIdx_lt {n : Nat} (h : n ≤ fixedSizeMax) : classIdx n < fixedSizes.length := by
  unfold classIdx
  rw [List.findIdx_lt_length]
  exact ⟨256, by simp [fixedSizes], by simpa [fixedSizeMax] using h⟩

theorem le_classSize {n : Nat} (h : n ≤ fixedSizeMax) : n ≤ classSize (classIdx n) := by
  have hlt := classIdx_lt h
  unfold classSize
  rw [List.getD_eq_getElem?_getD, List.getElem?_eq_getElem hlt]
  simp only [Option.getD_some]
  have := @List.findIdx_getElem _ (fun sz => decide (n ≤ sz)) fixedSizes hlt
  simp only [decide_eq_true_eq] at this
  exact this

theorem classSize_facts : ∀ i, i < fixedSizes.length → 0 < classSize i ∧ 8 ∣ classSize i ∧ classSize i ≤ fixedSizeMax := by
  decide


theorem InvD.tag {d : Option Nat} {s : State} (h : InvD d s) (t : String) : InvD d (s.tag t) :=
  ⟨h.sorted, h.geo, h.fl_len, h.fl_nodup, h.fl_iff, h.tree_wf, h.tree_iff, h.front_iff⟩

@[simp] theorem view_tag (s : State) (t : String) : (s.tag t).view = s.view := rfl
@[simp] theorem sects_tag (s : State) (t : String) : (s.tag t).sects = s.sects := rfl
@[simp] theorem fl_tag (s : State) (t : String) : (s.tag t).fl = s.fl := rfl
@[simp] theorem tree_tag (s : State) (t : String) : (s.tag t).tree = s.tree := rfl
@[simp] theorem frontier_tag (s : State) (t : String) : (s.tag t).frontier = s.frontier := rfl

def VP.busy (v : VP) : Prop := ∃ c, v.st = .busy c

theorem inv_piecesGetFixed {s s' : State} {i grant : Nat} (h : Inv s) (hi : i < fixedSizes.length)
    (hfl : s.fl.getD i [] = []) (hr : piecesGetFixed s i grant = some s') :
    Inv s' ∧ (∀ v, v.busy → (v ∈ s'.view ↔ v ∈ s.view)) ∧
      (∀ a ∈ s'.fl.getD i [], ∃ q, a = grant + (fixedPgGroup * pgSize - sectQmCount fixedPgGroup (classSize i) * classSize i) + q * classSize i) := by
  unfold piecesGetFixed at hr
  simp only at hr
  split at hr
  · simp at hr
  · next sects' hins =>
    split at hins
    · next hal =>
      simp only [Option.some.injEq] at hr
      subst hr
      obtain ⟨hcpos, hc8, _⟩ := classSize_facts i hi
      generalize hsc : (⟨grant, fixedPgGroup, some i,
        List.replicate (sectQmCount fixedPgGroup (classSize i)) ⟨classSize i, .free⟩⟩ : Sect) = sc at hins
      have hqm : sc.qm = classSize i := by subst hsc; rfl
      have hcls : sc.cls = some i := by subst hsc; rfl
      have hdata : sc.data = grant + (fixedPgGroup * pgSize - sectQmCount fixedPgGroup (classSize i) * classSize i) := by
        subst hsc; rfl
      have hpcs : sc.pieces = List.replicate (sectQmCount fixedPgGroup (classSize i)) ⟨classSize i, .free⟩ := by
        subst hsc; rfl
      have hqc : sc.qmCount = sectQmCount fixedPgGroup (classSize i) := by subst hsc; rfl
      have hgeo : sc.Geo := by
        constructor
        · subst hsc; exact hal
        · subst hsc; exact Nat.one_pos
        · rw [hpcs, sizes_replicate, hqc, hqm]
        · intro p hp; rw [hpcs, List.mem_replicate] at hp; rw [hp.2]; exact hcpos
        · intro p hp; rw [hpcs, List.mem_replicate] at hp; rw [hp.2, hqm]; exact Nat.dvd_refl _
        · intro j hj; rw [hcls] at hj; cases hj
          refine ⟨hi, fun p hp => ?_⟩
          rw [hpcs, List.mem_replicate] at hp; rw [hp.2]; simp
        · intro hn; rw [hcls] at hn; cases hn
      obtain ⟨S1, S2, e1, e2, e3⟩ := insertSect_some hins h.sorted (by unfold Sect.lim; omega)
      have hview : ∀ v, v ∈ viewSects sects' ↔ v ∈ s.view ∨ v ∈ sc.view := by
        intro v; unfold State.view; rw [e1, e2]; simp; grind
      have hscv : ∀ v, v ∈ sc.view ↔ ∃ q < sectQmCount fixedPgGroup (classSize i),
          v = ⟨sc.data + q * classSize i, classSize i, .free, some i⟩ := by
        intro v; unfold Sect.view; rw [hpcs, hcls]; exact mem_viewPcs_replicate
      have hnew : ∀ a, a ∈ (List.range (sectQmCount fixedPgGroup (classSize i))).map (fun q => sc.data + q * classSize i) ↔
          ∃ n, (⟨a, n, .free, some i⟩ : VP) ∈ sc.view := by
        intro a
        simp only [hscv, List.mem_map, List.mem_range]
        constructor
        · rintro ⟨q, hq, rfl⟩; exact ⟨_, q, hq, rfl⟩
        · rintro ⟨n, q, hq, he⟩; simp at he; exact ⟨q, hq, he.1.symm⟩
      have hilt : i < s.fl.length := by rw [h.fl_len]; exact hi
      refine ⟨(?_ : Inv _).tag _, ?_, ?_⟩
      · constructor
        · exact e3
        · intro u hu
          rw [e2] at hu; simp at hu
          rcases hu with hu | rfl | hu
          · exact h.geo u (by rw [e1]; simp [hu])
          · exact hgeo
          · exact h.geo u (by rw [e1]; simp [hu])
        · simp [h.fl_len]
        · intro j
          show ((s.fl.set i _).getD j []).Nodup
          rw [getD_set]
          split
          · rw [hfl, List.append_nil]
            unfold List.Nodup
            rw [List.pairwise_map]
            refine List.Pairwise.imp ?_ (List.nodup_range (n := sectQmCount fixedPgGroup (classSize i)))
            intro a b hab hne
            have : a * classSize i = b * classSize i := by omega
            exact hab (Nat.eq_of_mul_eq_mul_right hcpos this)
          · exact h.fl_nodup j
        · intro j a
          show a ∈ (s.fl.set i _).getD j [] ↔ ∃ n, _ ∈ viewSects sects'
          rw [getD_set]
          simp only [hview]
          have := h.fl_iff j a
          by_cases hij : i = j
          · subst hij
            simp only [hilt, and_self, if_true, hfl, List.append_nil, hnew]
            rw [hfl] at this; simp at this
            grind
          · simp only [hij, false_and, if_false, this]
            constructor
            · rintro ⟨n, hn⟩; exact ⟨n, Or.inl hn⟩
            · rintro ⟨n, hn | hn⟩
              · exact ⟨n, hn⟩
              · rw [hscv] at hn; obtain ⟨q, _, he⟩ := hn; simp at he; omega
        · exact h.tree_wf
        · intro a k
          show inTree s.tree a k ↔ _ ∈ viewSects sects'
          rw [hview, h.tree_iff a k, hscv]
          grind
        · intro a
          show s.frontier = some a ↔ (∃ n c, _ ∈ viewSects sects') ∧ _
          rw [h.front_iff a]
          simp only [hview, hscv]
          grind
      · intro v hv
        show v ∈ viewSects sects' ↔ _
        rw [hview, hscv]
        obtain ⟨c, hc⟩ := hv
        grind
      · intro a ha
        have : a ∈ (s.fl.set i ((List.range (sectQmCount fixedPgGroup (classSize i))).map (fun q => sc.data + q * classSize i) ++ s.fl.getD i [])).getD i [] := ha
        rw [getD_set, hfl] at this
        simp only [hilt, and_self, if_true, List.append_nil, List.mem_map, List.mem_range] at this
        obtain ⟨q, _, rfl⟩ := this
        exact ⟨q, by rw [hdata]⟩
    · simp at hins


theorem inv_pop {s : State} {i a code : Nat} {rest : List Nat} (h : Inv s)
    (hfl : s.fl.getD i [] = a :: rest) :
    Inv { s with fl := s.fl.set i rest, sects := updAt a (pcsSetSt a (.busy code)) s.sects } ∧
    (∃ n, (⟨a, n, .free, some i⟩ : VP) ∈ s.view ∧
      ∀ v, v ∈ viewSects (updAt a (pcsSetSt a (.busy code)) s.sects) ↔
        (v ∈ s.view ∧ v.addr ≠ a) ∨ v = ⟨a, n, .busy code, some i⟩) := by
  obtain ⟨n, hv⟩ := (h.fl_iff i a).1 (by rw [hfl]; simp)
  obtain ⟨sc, x, hf, hx, hxn, hxst, hcls, hscm⟩ := h.lookup hv
  simp only at hf hx hxn hxst hcls
  obtain ⟨S1, S2, b, t, hS, hP, ha, hhas, h1, h2, hg, hbpos, hxv⟩ := h.focus hf hx
  have hsects' : updAt a (pcsSetSt a (.busy code)) s.sects =
      S1 ++ { sc with pieces := b ++ [{ x with st := .busy code }] ++ t } :: S2 := by
    rw [hS, updAt_zip h1 hhas h2, Sect.upd_eq, hP, pcsSetSt_zip hbpos ha]; simp
  have hxm : x ∈ sc.pieces := by rw [hP]; simp
  have hfx := (hg.fixed_ok i hcls).2 x hxm
  have hg' : ({ sc with pieces := b ++ [{ x with st := .busy code }] ++ t } : Sect).Geo :=
    hg.replace (mid := [x]) (by simp [hP]) (by simp) (by intro q hq; simp at hq; subst hq; exact hg.pos x hxm)
      (by intro q hq; simp at hq; subst hq; exact hg.quant x hxm)
      (by intro j hj q hq; simp at hq; subst hq; rw [hcls] at hj; cases hj; exact ⟨hfx.1, by simp⟩)
      (by intro hn; rw [hcls] at hn; cases hn)
  obtain ⟨hso, hge, hmem, _⟩ := replace_view h (mid := [x]) hS (by simp [hP]) hg'
  rw [← hsects'] at hso hge hmem
  simp only [viewPcs_cons, viewPcs_nil, List.mem_singleton, forall_eq, ha] at hmem
  have hilt : i < s.fl.length := by rw [h.fl_len]; exact (hg.fixed_ok i hcls).1
  have hpu : ∀ v ∈ s.view, v.addr = a → v = ⟨a, n, .free, some i⟩ := by
    intro v hv' hvp
    exact h.view_inj hv' hv hvp
  have hnd := h.fl_nodup i
  rw [hfl, List.nodup_cons] at hnd
  refine ⟨?_, n, hv, ?_⟩
  · constructor
    · exact hso
    · exact hge
    · simp [h.fl_len]
    · intro j
      show ((s.fl.set i rest).getD j []).Nodup
      rw [getD_set]
      split
      · exact hnd.2
      · exact h.fl_nodup j
    · intro j a'
      show a' ∈ (s.fl.set i rest).getD j [] ↔ ∃ n, _ ∈ viewSects (updAt a (pcsSetSt a (.busy code)) s.sects)
      rw [getD_set]
      have := h.fl_iff j a'
      simp only [hmem]
      by_cases hij : i = j
      · subst hij
        simp only [hilt, and_self, if_true]
        rw [hfl] at this
        grind
      · simp only [hij, false_and, if_false]
        grind
    · exact h.tree_wf
    · intro a' k
      show inTree s.tree a' k ↔ _ ∈ viewSects (updAt a (pcsSetSt a (.busy code)) s.sects)
      rw [hmem, h.tree_iff a' k]
      grind
    · intro a'
      show s.frontier = some a' ↔ (∃ n c, _ ∈ viewSects (updAt a (pcsSetSt a (.busy code)) s.sects)) ∧ _
      rw [h.front_iff a']
      simp only [hmem]
      grind
  · intro v
    rw [hmem, hxn, hcls]

/-- the effect of an allocation on the busy pieces: exactly one new busy entry -/
structure AllocEff (s s' : State) (new : VP) : Prop where
  busy_iff : ∀ v, v.busy → (v ∈ s'.view ↔ v ∈ s.view ∨ v = new)
  fresh : new ∉ s.view
  is_busy : new.busy

theorem inv_allocFixed {s s' : State} {code n grant p : Nat} (h : Inv s) (hn : n ≤ fixedSizeMax)
    (hr : allocFixed s code n grant = some (s', p)) :
    Inv s' ∧ AllocEff s s' ⟨p, classSize (classIdx n), .busy code, some (classIdx n)⟩ := by
  unfold allocFixed at hr
  simp only at hr
  have hi := classIdx_lt hn
  split at hr
  · simp at hr
  · next s1 hs1 =>
    have key : Inv s1 ∧ (∀ v, v.busy → (v ∈ s1.view ↔ v ∈ s.view)) := by
      split at hs1
      · next hnil =>
        obtain ⟨h1, h2, _⟩ := inv_piecesGetFixed h hi hnil hs1
        exact ⟨h1, h2⟩
      · simp at hs1; subst hs1
        exact ⟨h.tag _, by intro v _; simp⟩
    obtain ⟨h1, hb1⟩ := key
    split at hr
    · simp at hr
    · next a rest hfl =>
      simp only [Option.some.injEq, Prod.mk.injEq] at hr
      obtain ⟨rfl, rfl⟩ := hr
      obtain ⟨h2, m, hm, hmem⟩ := inv_pop (code := code) h1 hfl
      obtain ⟨sc, x, _, hx, hxn, _, hcls, hscm⟩ := h1.lookup hm
      simp only at hx hxn hcls
      have hmeq : m = classSize (classIdx n) := by
        have hg := h1.geo sc hscm
        obtain ⟨b, t, hP, _⟩ := pcsAt_some hx
        have := ((hg.fixed_ok _ hcls).2 x (by rw [hP]; simp)).1
        omega
      subst hmeq
      refine ⟨h2, ?_, ?_, ⟨code, rfl⟩⟩
      · intro v hv
        show v ∈ viewSects _ ↔ _
        rw [hmem, ← hb1 v hv]
        constructor
        · rintro (⟨h3, _⟩ | h3)
          · exact Or.inl h3
          · exact Or.inr h3
        · rintro (h3 | h3)
          · left
            refine ⟨h3, fun hva => ?_⟩
            have := h1.view_inj h3 hm hva
            obtain ⟨c, hc⟩ := hv
            rw [this] at hc; simp at hc
          · exact Or.inr h3
      · intro hnew
        have := (hb1 _ ⟨code, rfl⟩).2 hnew
        have := h1.view_inj this hm rfl
        simp at this

theorem NoAdj_of_append : ∀ {l1 l2 : List Piece}, NoAdj (l1 ++ l2) → NoAdj l1 ∧ NoAdj l2 := by
  intro l1
  induction l1 with
  | nil => intro l2 h; exact ⟨trivial, h⟩
  | cons p r ih =>
    intro l2 h
    rw [List.cons_append, NoAdj_cons] at h
    obtain ⟨h1, h2⟩ := ih h.2
    refine ⟨?_, h2⟩
    rw [NoAdj_cons]
    refine ⟨?_, h1⟩
    intro q hq
    apply h.1 q
    cases r with
    | nil => simp at hq
    | cons r0 r' => simpa using hq

theorem dvd_sizes {d : Nat} : ∀ {l : List Piece}, (∀ p ∈ l, d ∣ p.n) → d ∣ sizes l := by
  intro l
  induction l with
  | nil => intro _; simp
  | cons p r ih =>
    intro h
    rw [sizes_cons]
    exact Nat.dvd_add (h p (by simp)) (ih (fun q hq => h q (by simp [hq])))

theorem le_sizes_of_mem {p : Piece} : ∀ {l : List Piece}, p ∈ l → p.n ≤ sizes l := by
  intro l
  induction l with
  | nil => intro h; simp at h
  | cons q r ih =>
    intro h
    simp at h
    rcases h with rfl | h
    · simp
    · have := ih h; simp; omega

/-- `piecePutMixed`, after the neighbours to be merged have been determined: the run `mid` of
pieces (the piece at `a`, which is not free, and its free neighbours) becomes one free piece that
is linked into the tree, from which the free neighbours have been unlinked already. -/
theorem inv_put_core {s : State} {a : Nat} {S1 S2 : List Sect} {sc : Sect} {b0 mid t0 : List Piece}
    {tree' : Tree} {stx : PSt} {nx : Nat}
    (h : InvD (some a) s) (hS : s.sects = S1 ++ sc :: S2) (hcls : sc.cls = none)
    (hP : sc.pieces = b0 ++ mid ++ t0)
    (hx : (⟨a, nx, stx, none⟩ : VP) ∈ viewPcs none (sc.data + sizes b0) mid)
    (hfree : ∀ w ∈ viewPcs none (sc.data + sizes b0) mid, w.addr ≠ a → w.st = .free)
    (hb0 : ∀ q, b0.getLast? = some q → q.st ≠ .free)
    (ht0 : ∀ q, t0.head? = some q → q.st ≠ .free)
    (htwf : TreeWF tree')
    (htree : ∀ a' k', inTree tree' a' k' ↔
      inTree s.tree a' k' ∧ ∀ w ∈ viewPcs none (sc.data + sizes b0) mid, w.addr ≠ a') :
    let s' : State := { s with tree := tLink tree' (sizes mid) (sc.data + sizes b0),
                               sects := S1 ++ { sc with pieces := b0 ++ [⟨sizes mid, .free⟩] ++ t0 } :: S2 }
    Inv s' ∧ (∀ v, v.busy → (v ∈ s'.view ↔ v ∈ s.view ∧ v.addr ≠ a)) := by
  intro s'
  have hg := h.geo sc (by rw [hS]; simp)
  have hmidne : mid ≠ [] := by intro e; subst e; simp at hx
  obtain ⟨m0, mr, rfl⟩ := List.exists_cons_of_ne_nil hmidne
  have hmidmem : ∀ p ∈ m0 :: mr, p ∈ sc.pieces := by intro p hp; rw [hP]; simp at hp ⊢; grind
  have hg' : ({ sc with pieces := b0 ++ [⟨sizes (m0 :: mr), .free⟩] ++ t0 } : Sect).Geo := by
    refine hg.replace hP (by simp) ?_ ?_ ?_ ?_
    · intro q hq; simp at hq; subst hq
      have := hg.pos m0 (hmidmem m0 (by simp)); simp; omega
    · intro q hq; simp at hq; subst hq
      exact dvd_sizes (fun p hp => hg.quant p (hmidmem p hp))
    · intro i hi; rw [hcls] at hi; cases hi
    · intro _
      constructor
      · intro q hq; simp at hq; subst hq
        have := (hg.mixed_ok hcls).1 m0 (hmidmem m0 (by simp)); simp; omega
      · have hna := (hg.mixed_ok hcls).2
        rw [hP] at hna
        have h1 := (NoAdj_of_append hna).1
        have h2 := (NoAdj_of_append hna).2
        have h3 := (NoAdj_of_append h1).1
        rw [List.append_assoc, List.singleton_append, NoAdj_append]
        refine ⟨h3, ?_, ?_, h2⟩
        · intro q hq hh; exact hb0 q hq hh.1
        · intro q hq hh; exact ht0 q hq hh.2
  have hrv := replace_view h hS hP hg'
  have hWeq : viewPcs sc.cls (sc.data + sizes b0) (m0 :: mr) = viewPcs none (sc.data + sizes b0) (m0 :: mr) := by
    rw [hcls]
  rw [hWeq] at hrv
  generalize hWdef : viewPcs none (sc.data + sizes b0) (m0 :: mr) = W at *
  obtain ⟨hso, hge, hmem, hW⟩ := hrv
  simp only [viewPcs_cons, viewPcs_nil, List.mem_singleton] at hmem
  have hnew : (⟨sc.data + sizes b0, sizes (m0 :: mr), .free, sc.cls⟩ : VP) =
      ⟨sc.data + sizes b0, sizes (m0 :: mr), .free, none⟩ := by rw [hcls]
  rw [hnew] at hmem
  replace hmem : ∀ v, v ∈ s'.view ↔ (v ∈ s.view ∧ ∀ e ∈ W, v.addr ≠ e.addr) ∨
      v = ⟨sc.data + sizes b0, sizes (m0 :: mr), .free, none⟩ := hmem
  have hfirst : (⟨sc.data + sizes b0, m0.n, m0.st, none⟩ : VP) ∈ W := by rw [← hWdef]; simp
  have hinj := @InvD.view_inj _ _ h
  have hxs := hW _ hx
  constructor
  · constructor
    · exact hso
    · exact hge
    · exact h.fl_len
    · exact h.fl_nodup
    · intro i a'
      show a' ∈ s.fl.getD i [] ↔ ∃ n, _ ∈ s'.view
      rw [h.fl_iff i a']
      simp only [hmem]
      constructor
      · rintro ⟨n, hn⟩
        refine ⟨n, Or.inl ⟨hn, fun e he hae => ?_⟩⟩
        have := hinj hn (hW e he) hae
        have hc := (mem_viewPcs (hWdef ▸ he)).2.2.1
        rw [← this] at hc; simp at hc
      · rintro ⟨n, ⟨hn, _⟩ | hn⟩
        · exact ⟨n, hn⟩
        · simp at hn
    · apply htwf.tLink
      intro hin
      rw [htree] at hin
      exact hin.2 _ hfirst rfl
    · intro a' k'
      show inTree (tLink tree' _ _) a' k' ↔ _ ∈ s'.view
      rw [inTree_tLink, htree, h.tree_iff, hmem]
      constructor
      · rintro (⟨h1, h2⟩ | ⟨rfl, rfl⟩)
        · exact Or.inl ⟨h1, fun e he hae => h2 e he hae.symm⟩
        · exact Or.inr rfl
      · rintro (⟨h1, h2⟩ | h1)
        · exact Or.inl ⟨h1, fun e he hae => h2 e he hae.symm⟩
        · simp at h1; exact Or.inr ⟨h1.1, h1.2⟩
    · intro a'
      show s.frontier = some a' ↔ (∃ n c, _ ∈ s'.view) ∧ _
      rw [h.front_iff a']
      simp only [hmem]
      constructor
      · rintro ⟨⟨n, c, hn⟩, hne⟩
        refine ⟨⟨n, c, Or.inl ⟨hn, fun e he hae => ?_⟩⟩, by simp⟩
        have := hinj hn (hW e he) hae
        have hfe := hfree e he (by intro hea; apply hne; have hae' : a' = e.addr := hae; rw [hae', hea])
        rw [← this] at hfe; simp at hfe
      · rintro ⟨⟨n, c, ⟨hn, hne⟩ | hn⟩, _⟩
        · refine ⟨⟨n, c, hn⟩, fun hea => ?_⟩
          simp at hea
          exact hne _ hx (by simp [hea])
        · simp at hn
  · intro v hv
    rw [hmem]
    obtain ⟨c, hc⟩ := hv
    constructor
    · rintro (⟨h1, h2⟩ | h1)
      · exact ⟨h1, fun hva => h2 _ hx hva⟩
      · rw [h1] at hc; simp at hc
    · rintro ⟨h1, h2⟩
      refine Or.inl ⟨h1, fun e he hae => ?_⟩
      have := hinj h1 (hW e he) hae
      have hfe := hfree e he (by rw [← hae]; exact h2)
      rw [← this, hc] at hfe; simp at hfe


theorem list_snoc_cases {α : Type} (l : List α) : l = [] ∨ ∃ l' x, l = l' ++ [x] := by
  induction l with
  | nil => exact Or.inl rfl
  | cons a r ih =>
    right
    rcases ih with rfl | ⟨l', x, rfl⟩
    · exact ⟨[], a, rfl⟩
    · exact ⟨a :: l', x, rfl⟩

theorem pcsPrev_zip_last {a : Nat} {x : Piece} {t : List Piece} {b : List Piece} {cur : Nat}
    (hp : AllPos (b ++ x :: t)) (h : cur + sizes b = a) : pcsPrev a cur (b ++ x :: t) = b.getLast? := by
  rcases list_snoc_cases b with rfl | ⟨b', q, rfl⟩
  · simp at h
    simp only [List.nil_append, List.getLast?_nil]
    exact pcsPrev_none hp (by omega)
  · have hq : 0 < q.n := hp q (by simp)
    have hb' : AllPos b' := fun p hp' => hp p (by simp [hp'])
    simp at h
    rw [List.append_assoc, List.singleton_append, pcsPrev_zip hb' hq (by omega)]
    simp

theorem pieceAt_eq {s : State} {a : Nat} {sc : Sect} {x : Piece} (hf : findSect a s.sects = some sc)
    (hx : pcsAt a sc.data sc.pieces = some x) : s.pieceAt a = some (sc, x) := by
  simp [State.pieceAt, hf, hx]


/-- `inv_put_core` with the resulting state given up to provable equalities -/
theorem inv_put_core' {s : State} {a : Nat} {S1 S2 : List Sect} {sc : Sect} {b0 mid t0 : List Piece}
    {tree' : Tree} {stx : PSt} {nx n2 mi : Nat} {sects' : List Sect}
    (h : InvD (some a) s) (hS : s.sects = S1 ++ sc :: S2) (hcls : sc.cls = none)
    (hP : sc.pieces = b0 ++ mid ++ t0)
    (hx : (⟨a, nx, stx, none⟩ : VP) ∈ viewPcs none (sc.data + sizes b0) mid)
    (hfree : ∀ w ∈ viewPcs none (sc.data + sizes b0) mid, w.addr ≠ a → w.st = .free)
    (hb0 : ∀ q, b0.getLast? = some q → q.st ≠ .free)
    (ht0 : ∀ q, t0.head? = some q → q.st ≠ .free)
    (htwf : TreeWF tree')
    (htree : ∀ a' k', inTree tree' a' k' ↔
      inTree s.tree a' k' ∧ ∀ w ∈ viewPcs none (sc.data + sizes b0) mid, w.addr ≠ a')
    (hn2 : n2 = sizes mid) (hmi : mi = sc.data + sizes b0)
    (hsects : sects' = S1 ++ { sc with pieces := b0 ++ [⟨sizes mid, .free⟩] ++ t0 } :: S2) :
    let s' : State := { s with tree := tLink tree' n2 mi, sects := sects' }
    Inv s' ∧ (∀ v, v.busy → (v ∈ s'.view ↔ v ∈ s.view ∧ v.addr ≠ a)) := by
  subst hn2 hmi hsects
  exact inv_put_core h hS hcls hP hx hfree hb0 ht0 htwf htree

theorem freeOnly_head (t : List Piece) :
    (freeOnly t.head? = none ∧ ∀ q, t.head? = some q → q.st ≠ .free) ∨
    (∃ y t', t = y :: t' ∧ y.st = .free ∧ freeOnly t.head? = some y) := by
  rcases t with _ | ⟨y, t'⟩
  · left; simp [freeOnly]
  · by_cases hy : y.st = .free
    · right; exact ⟨y, t', rfl, hy, by simp [freeOnly, hy]⟩
    · left; simp [freeOnly, hy]

theorem freeOnly_last (b : List Piece) :
    (freeOnly b.getLast? = none ∧ ∀ q, b.getLast? = some q → q.st ≠ .free) ∨
    (∃ q b', b = b' ++ [q] ∧ q.st = .free ∧ freeOnly b.getLast? = some q) := by
  rcases list_snoc_cases b with rfl | ⟨b', q, rfl⟩
  · left; simp [freeOnly]
  · by_cases hq : q.st = .free
    · right; exact ⟨q, b', rfl, hq, by simp [freeOnly, hq]⟩
    · left; simp [freeOnly, hq]

theorem inv_putMixed {s s' : State} {a : Nat} {sc : Sect} {x : Piece} (h : InvD (some a) s)
    (hf : findSect a s.sects = some sc) (hx : pcsAt a sc.data sc.pieces = some x)
    (hcls : sc.cls = none) (hst : x.st ≠ .free) (hr : putMixed s a = some s') :
    Inv s' ∧ (∀ v, v.busy → (v ∈ s'.view ↔ v ∈ s.view ∧ v.addr ≠ a)) ∧
      (∃ S1 S2 l, s.sects = S1 ++ sc :: S2 ∧ s'.sects = S1 ++ { sc with pieces := l } :: S2) := by
  obtain ⟨S1, S2, b, t, hS, hP, ha, hhas, h1, h2, hg, hbpos, hxv⟩ := h.focus hf hx
  rw [hcls] at hxv
  have hpos : AllPos (b ++ x :: t) := by rw [← hP]; exact hg.pos
  have hnext : pcsNext a sc.data sc.pieces = t.head? := by rw [hP]; exact pcsNext_zip hbpos ha
  have hprev : pcsPrev a sc.data sc.pieces = b.getLast? := by rw [hP]; exact pcsPrev_zip_last hpos ha
  have hna := (hg.mixed_ok hcls).2
  rw [hP, NoAdj_append] at hna
  obtain ⟨hnab, hlast, hhead, hnat⟩ := hna
  have hinj := @InvD.view_inj _ _ h
  have hwf := h.tree_wf
  have hti := h.tree_iff
  have hlim : a < sc.lim := by rw [Sect.has_iff] at hhas; exact hhas.2
  have hbase := sc.base_le_data
  have hsorted := h.sorted
  rw [hS] at hsorted
  -- no tree entry sits at `a`
  have htne : ∀ a' k', inTree s.tree a' k' → a' ≠ a := by
    intro a' k' hin heq
    rw [hti] at hin
    have := congrArg VP.st (hinj hin hxv heq)
    exact hst this.symm
  -- a tree entry at the address of a view entry has its size
  have htsz : ∀ a' k' n2 st2, inTree s.tree a' k' → (⟨a', n2, st2, none⟩ : VP) ∈ s.view → k' = n2 := by
    intro a' k' n2 st2 hin hv
    rw [hti] at hin
    exact congrArg VP.n (hinj hin hv rfl)
  have hscv : ∀ w ∈ viewPcs none sc.data sc.pieces, w ∈ s.view := by
    intro w hw
    unfold State.view
    rw [hS, viewSects_append, viewSects_cons]
    simp only [List.mem_append]
    right; left
    unfold Sect.view; rw [hcls]; exact hw
  have hupd : ∀ a' f, sc.base ≤ a' → a' < sc.lim → ∀ l, updAt a' f (S1 ++ { sc with pieces := l } :: S2) =
      S1 ++ { sc with pieces := f sc.data l } :: S2 := by
    intro a' f hb1 hb2 l
    have hh : ({ sc with pieces := l } : Sect).has a' = true := by
      rw [Sect.has_pieces, Sect.has_iff]; exact ⟨hb1, hb2⟩
    have hs' : Sorted (S1 ++ { sc with pieces := l } :: S2) := hsorted.replace rfl rfl
    have := hs'.sides hh
    rw [updAt_zip this.1 hh this.2]; rfl
  have hSeta : s.sects = S1 ++ { sc with pieces := b ++ x :: t } :: S2 := by
    rw [hS]; congr 2; exact Sect.eta_pieces hP
  unfold putMixed at hr
  rw [pieceAt_eq hf hx] at hr
  simp only [hnext, hprev] at hr
  rcases freeOnly_head t with ⟨hno, ht0⟩ | ⟨y, t', rfl, hy, hno⟩ <;>
  rcases freeOnly_last b with ⟨hpo, hb0⟩ | ⟨q, b', rfl, hq, hpo⟩ <;>
  simp only [hno, hpo] at hr <;> simp only [Option.some.injEq] at hr <;> subst hr
  · -- plain
    have hsects : updAt a (pcsSetSt a .free) s.sects =
        S1 ++ { sc with pieces := b ++ [⟨sizes [x], .free⟩] ++ t } :: S2 := by
      rw [hS, updAt_zip h1 hhas h2, Sect.upd_eq, hP, pcsSetSt_zip hbpos ha]
      simp
    have := inv_put_core' (n2 := x.n) (mi := a) (nx := x.n) (stx := x.st) h hS hcls
      (b0 := b) (mid := [x]) (t0 := t) (by simpa using hP)
      (by simp [ha]) (by simp [ha]) hb0 ht0 hwf
      (by
        intro a' k'
        simp only [viewPcs_cons, viewPcs_nil, List.mem_singleton, forall_eq, ha]
        exact ⟨fun hin => ⟨hin, (htne a' k' hin).symm⟩, fun hin => hin.1⟩)
      (by simp) ha.symm hsects
    exact ⟨(this.1.tag _).tag _, this.2, S1, S2, _, hS, hsects⟩
  · -- merge with the predecessor
    simp only [sizes_append, sizes_cons, sizes_nil] at ha
    have hb'pos : AllPos b' := hbpos.append_left
    have hqpos : 0 < q.n := hbpos q (by simp)
    have hap : a - q.n = sc.data + sizes b' := by omega
    have hsects : updAt (a - q.n) (pcsSetSt (a - q.n) .free) (updAt (a - q.n) (pcsMergeNext (a - q.n)) s.sects) =
        S1 ++ { sc with pieces := b' ++ [⟨sizes [q, x], .free⟩] ++ t } :: S2 := by
      rw [hSeta, hupd _ _ (by omega) (by omega), hupd _ _ (by omega) (by omega)]
      rw [List.append_assoc, List.singleton_append, pcsMergeNext_zip hb'pos hap.symm,
        pcsSetSt_zip hb'pos hap.symm]
      simp
    have hqv : (⟨a - q.n, q.n, q.st, none⟩ : VP) ∈ s.view := by
      apply hscv; rw [hP, hap]; simp [viewPcs_append]
    have hlastb' : ∀ p, b'.getLast? = some p → p.st ≠ .free := by
      have := (NoAdj_append b' q []).1 (by simpa using hnab)
      intro p hp hpf
      exact this.2.1 p hp ⟨hpf, hq⟩
    have := inv_put_core' (n2 := q.n + x.n) (mi := a - q.n) (nx := x.n) (stx := x.st)
      (tree' := tUnlinkDel s.tree q.n (a - q.n)) h hS hcls
      (b0 := b') (mid := [q, x]) (t0 := t) (by simpa using hP)
      (by simp; omega)
      (by
        intro w hw hwa
        simp at hw
        rcases hw with rfl | rfl
        · exact hq
        · exfalso; apply hwa; simp; omega)
      hlastb' ht0 (hwf.tUnlinkDel _ _)
      (by
        intro a' k'
        rw [inTree_tUnlinkDel hwf]
        simp only [viewPcs_cons, viewPcs_nil, List.mem_cons, List.not_mem_nil, or_false, forall_eq_or_imp, forall_eq]
        constructor
        · rintro ⟨hin, hne⟩
          refine ⟨hin, ?_, ?_⟩
          · intro he
            have hk : k' = q.n := htsz a' k' q.n q.st hin (by rw [← he, ← hap]; exact hqv)
            exact hne ⟨by omega, hk⟩
          · intro he; exact htne a' k' hin (by omega)
        · rintro ⟨hin, hne1, _⟩
          exact ⟨hin, fun hh => hne1 (by omega)⟩)
      (by simp) hap hsects
    exact ⟨(this.1.tag _).tag _, this.2, S1, S2, _, hS, hsects⟩
  · -- merge with the successor
    have hxpos : 0 < x.n := hpos x (by simp)
    have hsects : updAt a (pcsSetSt a .free) (updAt a (pcsMergeNext a) s.sects) =
        S1 ++ { sc with pieces := b ++ [⟨sizes [x, y], .free⟩] ++ t' } :: S2 := by
      rw [hSeta, hupd _ _ (by omega) (by omega), hupd _ _ (by omega) (by omega)]
      rw [pcsMergeNext_zip hbpos ha, pcsSetSt_zip hbpos ha]
      simp
    have hyv : (⟨a + x.n, y.n, y.st, none⟩ : VP) ∈ s.view := by
      apply hscv; rw [hP, ← ha]; simp [viewPcs_append]
    have hheadt' : ∀ p, t'.head? = some p → p.st ≠ .free := by
      have := (NoAdj_cons y t').1 hnat
      intro p hp hpf
      exact this.1 p hp ⟨hy, hpf⟩
    have := inv_put_core' (n2 := x.n + y.n) (mi := a) (nx := x.n) (stx := x.st)
      (tree' := tUnlinkDel s.tree y.n (a + x.n)) h hS hcls
      (b0 := b) (mid := [x, y]) (t0 := t') (by simpa using hP)
      (by simp [ha])
      (by
        intro w hw hwa
        simp at hw
        rcases hw with rfl | rfl
        · exfalso; apply hwa; simp [ha]
        · exact hy)
      hb0 hheadt' (hwf.tUnlinkDel _ _)
      (by
        intro a' k'
        rw [inTree_tUnlinkDel hwf]
        simp only [viewPcs_cons, viewPcs_nil, List.mem_cons, List.not_mem_nil, or_false, forall_eq_or_imp, forall_eq]
        constructor
        · rintro ⟨hin, hne⟩
          refine ⟨hin, ?_, ?_⟩
          · intro he; exact htne a' k' hin (by omega)
          · intro he
            have hk : k' = y.n := htsz a' k' y.n y.st hin (by rw [← he, ha]; exact hyv)
            exact hne ⟨by omega, hk⟩
        · rintro ⟨hin, _, hne2⟩
          exact ⟨hin, fun hh => hne2 (by omega)⟩)
      (by simp) ha.symm hsects
    exact ⟨(this.1.tag _).tag _, this.2, S1, S2, _, hS, hsects⟩
  · -- merge with both
    simp only [sizes_append, sizes_cons, sizes_nil] at ha
    have hb'pos : AllPos b' := hbpos.append_left
    have hqpos : 0 < q.n := hbpos q (by simp)
    have hxpos : 0 < x.n := hpos x (by simp)
    have hap : a - q.n = sc.data + sizes b' := by omega
    have ha' : sc.data + sizes (b' ++ [q]) = a := by simp; omega
    have hsects : updAt (a - q.n) (pcsSetSt (a - q.n) .free)
        (updAt (a - q.n) (pcsMergeNext (a - q.n)) (updAt a (pcsMergeNext a) s.sects)) =
        S1 ++ { sc with pieces := b' ++ [⟨sizes [q, x, y], .free⟩] ++ t' } :: S2 := by
      rw [hSeta, hupd _ _ (by omega) (by omega), hupd _ _ (by omega) (by omega), hupd _ _ (by omega) (by omega)]
      rw [pcsMergeNext_zip hbpos ha']
      rw [List.append_assoc, List.singleton_append, pcsMergeNext_zip hb'pos hap.symm,
        pcsSetSt_zip hb'pos hap.symm]
      simp
    have hqv : (⟨a - q.n, q.n, q.st, none⟩ : VP) ∈ s.view := by
      apply hscv; rw [hP, hap]; simp [viewPcs_append]
    have hyv : (⟨a + x.n, y.n, y.st, none⟩ : VP) ∈ s.view := by
      apply hscv; rw [hP, viewPcs_append, ha']; simp
    have hlastb' : ∀ p, b'.getLast? = some p → p.st ≠ .free := by
      have := (NoAdj_append b' q []).1 (by simpa using hnab)
      intro p hp hpf
      exact this.2.1 p hp ⟨hpf, hq⟩
    have hheadt' : ∀ p, t'.head? = some p → p.st ≠ .free := by
      have := (NoAdj_cons y t').1 hnat
      intro p hp hpf
      exact this.1 p hp ⟨hy, hpf⟩
    have := inv_put_core' (n2 := q.n + (x.n + y.n)) (mi := a - q.n) (nx := x.n) (stx := x.st)
      (tree' := tUnlinkDel (tUnlinkDel s.tree y.n (a + x.n)) q.n (a - q.n)) h hS hcls
      (b0 := b') (mid := [q, x, y]) (t0 := t') (by simpa using hP)
      (by simp; omega)
      (by
        intro w hw hwa
        simp at hw
        rcases hw with rfl | rfl | rfl
        · exact hq
        · exfalso; apply hwa; simp; omega
        · exact hy)
      hlastb' hheadt' ((hwf.tUnlinkDel _ _).tUnlinkDel _ _)
      (by
        intro a' k'
        rw [inTree_tUnlinkDel (hwf.tUnlinkDel _ _), inTree_tUnlinkDel hwf]
        simp only [viewPcs_cons, viewPcs_nil, List.mem_cons, List.not_mem_nil, or_false, forall_eq_or_imp, forall_eq]
        constructor
        · rintro ⟨⟨hin, hne1⟩, hne2⟩
          refine ⟨hin, ?_, ?_, ?_⟩
          · intro he
            have hk : k' = q.n := htsz a' k' q.n q.st hin (by rw [← he, ← hap]; exact hqv)
            exact hne2 ⟨by omega, hk⟩
          · intro he; exact htne a' k' hin (by omega)
          · intro he
            have hk : k' = y.n := htsz a' k' y.n y.st hin (by
              have : a' = a + x.n := by omega
              rw [this]; exact hyv)
            exact hne1 ⟨by omega, hk⟩
        · rintro ⟨hin, hn1, _, hn3⟩
          exact ⟨⟨hin, fun hh => hn3 (by omega)⟩, fun hh => hn1 (by omega)⟩)
      (by simp) hap hsects
    exact ⟨(this.1.tag _).tag _, this.2, S1, S2, _, hS, hsects⟩

/-- replacing the single piece `x` at `a` by the run `mid'`, together with new values of the
tree, the frontier and the exception, characterised relative to the old ones -/
theorem inv_window {d d' : Option Nat} {s : State} {S1 S2 : List Sect} {sc : Sect}
    {b t mid' : List Piece} {x : Piece} {tree' : Tree} {fr' : Option Nat}
    (h : InvD d s) (hS : s.sects = S1 ++ sc :: S2) (hP : sc.pieces = b ++ [x] ++ t)
    (hsz : sizes mid' = x.n) (hpos : AllPos mid') (hq : ∀ p ∈ mid', sc.qm ∣ p.n)
    (hfx : ∀ i, sc.cls = some i → x.st ≠ .free ∧ ∀ p ∈ mid', p.n = classSize i ∧ p.st ≠ .front ∧ p.st ≠ .free)
    (hmx : sc.cls = none → (∀ p ∈ mid', mxHead < p.n) ∧ NoAdj (b ++ mid' ++ t))
    (htwf : TreeWF tree')
    (htree : ∀ a' k', inTree tree' a' k' ↔ (inTree s.tree a' k' ∧ a' ≠ sc.data + sizes b) ∨
      (⟨a', k', .free, none⟩ : VP) ∈ viewPcs sc.cls (sc.data + sizes b) mid')
    (hfront : ∀ a', fr' = some a' ↔
      ((∃ n c, (⟨a', n, .front, c⟩ : VP) ∈ s.view ∧ a' ≠ sc.data + sizes b) ∨
        (∃ n c, (⟨a', n, .front, c⟩ : VP) ∈ viewPcs sc.cls (sc.data + sizes b) mid')) ∧ d' ≠ some a') :
    let s' : State := { s with tree := tree', frontier := fr',
                               sects := S1 ++ { sc with pieces := b ++ mid' ++ t } :: S2 }
    InvD d' s' ∧ (∀ v, v ∈ s'.view ↔ (v ∈ s.view ∧ v.addr ≠ sc.data + sizes b) ∨
      v ∈ viewPcs sc.cls (sc.data + sizes b) mid') := by
  intro s'
  have hg := h.geo sc (by rw [hS]; simp)
  have hg' : ({ sc with pieces := b ++ mid' ++ t } : Sect).Geo :=
    hg.replace hP (by simpa using hsz) hpos hq
      (fun i hi p hp => ⟨((hfx i hi).2 p hp).1, ((hfx i hi).2 p hp).2.1⟩) hmx
  obtain ⟨hso, hge, hmem, hW⟩ := replace_view h hS hP hg'
  simp only [viewPcs_cons, viewPcs_nil, List.mem_singleton, forall_eq] at hmem hW
  replace hmem : ∀ v, v ∈ s'.view ↔ (v ∈ s.view ∧ v.addr ≠ sc.data + sizes b) ∨
      v ∈ viewPcs sc.cls (sc.data + sizes b) mid' := hmem
  have hinj := @InvD.view_inj _ _ h
  have hcw : ∀ w ∈ viewPcs sc.cls (sc.data + sizes b) mid', w.cls = sc.cls ∧ ∃ p ∈ mid', p.n = w.n ∧ p.st = w.st := by
    intro w hw
    have := mem_viewPcs hw
    exact ⟨this.2.2.1, this.2.2.2⟩
  refine ⟨?_, hmem⟩
  constructor
  · exact hso
  · exact hge
  · exact h.fl_len
  · exact h.fl_nodup
  · intro i a'
    show a' ∈ s.fl.getD i [] ↔ ∃ n, _ ∈ s'.view
    rw [h.fl_iff i a']
    simp only [hmem]
    constructor
    · rintro ⟨n, hn⟩
      refine ⟨n, Or.inl ⟨hn, fun hae => ?_⟩⟩
      have := hinj hn hW hae
      have hc : sc.cls = some i := (congrArg VP.cls this).symm
      have hs : x.st = .free := (congrArg VP.st this).symm
      exact (hfx i hc).1 hs
    · rintro ⟨n, ⟨hn, _⟩ | hn⟩
      · exact ⟨n, hn⟩
      · obtain ⟨hc, p, hp, _, hps⟩ := hcw _ hn
        exact absurd hps ((hfx i hc.symm).2 p hp).2.2
  · exact htwf
  · intro a' k'
    show inTree tree' a' k' ↔ _ ∈ s'.view
    rw [htree, hmem, h.tree_iff]
  · intro a'
    show fr' = some a' ↔ (∃ n c, _ ∈ s'.view) ∧ _
    rw [hfront]
    simp only [hmem]
    constructor
    · rintro ⟨⟨n, c, hn, hne⟩ | ⟨n, c, hn⟩, hd⟩
      · exact ⟨⟨n, c, Or.inl ⟨hn, hne⟩⟩, hd⟩
      · exact ⟨⟨n, c, Or.inr hn⟩, hd⟩
    · rintro ⟨⟨n, c, ⟨hn, hne⟩ | hn⟩, hd⟩
      · exact ⟨Or.inl ⟨n, c, hn, hne⟩, hd⟩
      · exact ⟨Or.inr ⟨n, c, hn⟩, hd⟩


theorem inv_window' {d d' : Option Nat} {s : State} {S1 S2 : List Sect} {sc : Sect}
    {b t mid' : List Piece} {x : Piece} {tree' : Tree} {fr' : Option Nat} {a : Nat} {sects' : List Sect}
    (h : InvD d s) (hS : s.sects = S1 ++ sc :: S2) (hP : sc.pieces = b ++ [x] ++ t)
    (ha : sc.data + sizes b = a)
    (hsz : sizes mid' = x.n) (hpos : AllPos mid') (hq : ∀ p ∈ mid', sc.qm ∣ p.n)
    (hfx : ∀ i, sc.cls = some i → x.st ≠ .free ∧ ∀ p ∈ mid', p.n = classSize i ∧ p.st ≠ .front ∧ p.st ≠ .free)
    (hmx : sc.cls = none → (∀ p ∈ mid', mxHead < p.n) ∧ NoAdj (b ++ mid' ++ t))
    (htwf : TreeWF tree')
    (htree : ∀ a' k', inTree tree' a' k' ↔ (inTree s.tree a' k' ∧ a' ≠ a) ∨
      (⟨a', k', .free, none⟩ : VP) ∈ viewPcs sc.cls a mid')
    (hfront : ∀ a', fr' = some a' ↔
      ((∃ n c, (⟨a', n, .front, c⟩ : VP) ∈ s.view ∧ a' ≠ a) ∨
        (∃ n c, (⟨a', n, .front, c⟩ : VP) ∈ viewPcs sc.cls a mid')) ∧ d' ≠ some a')
    (hsects : sects' = S1 ++ { sc with pieces := b ++ mid' ++ t } :: S2) :
    let s' : State := { s with tree := tree', frontier := fr', sects := sects' }
    InvD d' s' ∧ (∀ v, v ∈ s'.view ↔ (v ∈ s.view ∧ v.addr ≠ a) ∨ v ∈ viewPcs sc.cls a mid') := by
  subst ha hsects
  exact inv_window h hS hP hsz hpos hq hfx hmx htwf htree hfront

/-- in a sorted view no entry starts strictly inside another one -/
theorem InvD.no_inside {d : Option Nat} {s : State} (h : InvD d s) {v w : VP} (hv : v ∈ s.view)
    (hw : w ∈ s.view) (hlt : v.addr < w.addr) : v.addr + v.n ≤ w.addr := by
  rcases List.mem_iff_getElem.1 hv with ⟨i, hi, rfl⟩
  rcases List.mem_iff_getElem.1 hw with ⟨j, hj, rfl⟩
  have hs := List.pairwise_iff_getElem.1 h.view_sorted
  rcases Nat.lt_trichotomy i j with hij | hij | hij
  · exact hs i j hi hj hij
  · subst hij; omega
  · have := hs j i hj hi hij
    have := h.view_pos (List.getElem_mem hj)
    omega

/-- everything we know about a free mixed piece that is in the view -/
theorem InvD.focus_view {d : Option Nat} {s : State} (h : InvD d s) {a n : Nat} {st : PSt} {c : Option Nat}
    (hv : (⟨a, n, st, c⟩ : VP) ∈ s.view) :
    ∃ sc x S1 S2 b t, findSect a s.sects = some sc ∧ pcsAt a sc.data sc.pieces = some x ∧
      x.n = n ∧ x.st = st ∧ sc.cls = c ∧
      s.sects = S1 ++ sc :: S2 ∧ sc.pieces = b ++ x :: t ∧ sc.data + sizes b = a ∧ sc.Geo ∧ AllPos b ∧
      sc.base ≤ a ∧ a + n ≤ sc.lim ∧
      (∀ a' f, sc.base ≤ a' → a' < sc.lim → ∀ l, updAt a' f (S1 ++ { sc with pieces := l } :: S2) =
        S1 ++ { sc with pieces := f sc.data l } :: S2) := by
  obtain ⟨sc, x, hf, hx, hxn, hxst, hcls, _⟩ := h.lookup hv
  simp only at hf hx hxn hxst hcls
  obtain ⟨S1, S2, b, t, hS, hP, ha, hhas, h1, h2, hg, hbpos, hxv⟩ := h.focus hf hx
  have hsorted := h.sorted
  rw [hS] at hsorted
  have hb := hg.mem_view (v := ⟨a, x.n, x.st, sc.cls⟩) (by
    unfold Sect.view; rw [hP, viewPcs_append, ha]; simp)
  have hbase := sc.base_le_data
  simp only at hb
  refine ⟨sc, x, S1, S2, b, t, hf, hx, hxn, hxst, hcls, hS, hP, ha, hg, hbpos, by omega, by omega, ?_⟩
  intro a' f hb1 hb2 l
  have hh : ({ sc with pieces := l } : Sect).has a' = true := by
    rw [Sect.has_pieces, Sect.has_iff]; exact ⟨hb1, hb2⟩
  have hs' : Sorted (S1 ++ { sc with pieces := l } :: S2) := hsorted.replace rfl rfl
  have := hs'.sides hh
  rw [updAt_zip this.1 hh this.2]; rfl

theorem NoAdj_replace1 {b t : List Piece} {x p : Piece} (h : NoAdj (b ++ [x] ++ t))
    (hp : p.st = .free → x.st = .free) : NoAdj (b ++ [p] ++ t) := by
  simp only [List.append_assoc, List.singleton_append, NoAdj_append] at h ⊢
  obtain ⟨h1, h2, h3, h4⟩ := h
  refine ⟨h1, ?_, ?_, h4⟩
  · intro q hq hh; exact h2 q hq ⟨hh.1, hp hh.2⟩
  · intro q hq hh; exact h3 q hq ⟨hp hh.1, hh.2⟩

theorem NoAdj_replace2 {b t : List Piece} {x p1 p2 : Piece} (h : NoAdj (b ++ [x] ++ t))
    (hp1 : p1.st ≠ .free) (hp2 : p2.st = .free → x.st = .free) : NoAdj (b ++ [p1, p2] ++ t) := by
  simp only [List.append_assoc, List.singleton_append, NoAdj_append] at h
  obtain ⟨h1, h2, h3, h4⟩ := h
  have : b ++ [p1, p2] ++ t = b ++ p1 :: (p2 :: t) := by simp
  rw [this, NoAdj_append, NoAdj_cons]
  refine ⟨h1, ?_, ?_, ?_, h4⟩
  · intro q hq hh; exact hp1 hh.2
  · intro q hq hh; exact hp1 hh.1
  · intro q hq hh; exact h3 q hq ⟨hp2 hh.1, hh.2⟩

/-- taking a free piece out of the tree, whole -/
theorem inv_take_whole {s : State} {a k code : Nat} (h : Inv s)
    (hv : (⟨a, k, .free, none⟩ : VP) ∈ s.view) :
    let s' : State := { s with tree := tUnlinkDel s.tree k a,
                               sects := updAt a (pcsSetSt a (.busy code)) s.sects }
    Inv s' ∧ (∀ v, v ∈ s'.view ↔ (v ∈ s.view ∧ v.addr ≠ a) ∨ v = ⟨a, k, .busy code, none⟩) := by
  obtain ⟨sc, x, S1, S2, b, t, hf, hx, hxn, hxst, hcls, hS, hP, ha, hg, hbpos, hb1, hb2, hupd⟩ := h.focus_view hv
  have hinj := @InvD.view_inj _ _ h
  have hkpos := h.view_pos hv
  simp only at hkpos
  have hsects : updAt a (pcsSetSt a (.busy code)) s.sects =
      S1 ++ { sc with pieces := b ++ [⟨x.n, .busy code⟩] ++ t } :: S2 := by
    rw [hS, Sect.eta_pieces hP, hupd _ _ hb1 (by omega), pcsSetSt_zip hbpos ha]; simp
  have hxm : x ∈ sc.pieces := by rw [hP]; simp
  have := inv_window' (d := none) (d' := none) (mid' := [⟨x.n, .busy code⟩]) (tree' := tUnlinkDel s.tree k a)
    (fr' := s.frontier) h hS (by simpa using hP) ha (by simp)
    (by intro p hp; simp at hp; subst hp; exact hg.pos x hxm)
    (by intro p hp; simp at hp; subst hp; exact hg.quant x hxm)
    (by intro i hi; rw [hcls] at hi; cases hi)
    (by intro _
        refine ⟨by intro p hp; simp at hp; subst hp; exact (hg.mixed_ok hcls).1 x hxm, ?_⟩
        have := (hg.mixed_ok hcls).2
        rw [hP] at this
        exact NoAdj_replace1 (x := x) (by simpa using this) (by simp))
    (h.tree_wf.tUnlinkDel _ _)
    (by
      intro a' k'
      rw [inTree_tUnlinkDel h.tree_wf, hcls]
      simp only [viewPcs_cons, viewPcs_nil, List.mem_singleton]
      constructor
      · rintro ⟨hin, hne⟩
        left
        refine ⟨hin, fun he => hne ⟨he, ?_⟩⟩
        subst he
        rw [h.tree_iff] at hin
        exact congrArg VP.n (hinj hin hv rfl)
      · rintro (⟨hin, hne⟩ | he)
        · exact ⟨hin, fun hh => hne hh.1⟩
        · simp at he)
    (by
      intro a'
      rw [h.front_iff a', hcls]
      simp only [viewPcs_cons, viewPcs_nil, List.mem_singleton]
      constructor
      · rintro ⟨⟨n, c, hn⟩, hd⟩
        refine ⟨Or.inl ⟨n, c, hn, fun he => ?_⟩, hd⟩
        subst he
        have := congrArg VP.st (hinj hn hv rfl)
        simp at this
      · rintro ⟨⟨n, c, hn, _⟩ | ⟨n, c, hn⟩, hd⟩
        · exact ⟨⟨n, c, hn⟩, hd⟩
        · simp at hn)
    hsects
  refine ⟨this.1, fun v => ?_⟩
  rw [this.2 v, hcls, hxn]
  simp


theorem qm_mixed {sc : Sect} (h : sc.cls = none) : sc.qm = mixedQuantum := by simp [Sect.qm, h]

/-- taking a free piece out of the tree and splitting it: the state in which `piecePutMixed`
is called for the remainder -/
theorem inv_take_split {s : State} {a k nb code : Nat} (h : Inv s)
    (hv : (⟨a, k, .free, none⟩ : VP) ∈ s.view) (hk : nb + mixedQuantum < k)
    (hnq : mixedQuantum ∣ nb) (hnbig : mxHead < nb) :
    let s' : State := { s with tree := tUnlinkDel s.tree k a,
                               sects := updAt a (pcsSplit a nb .front) (updAt a (pcsSetSt a (.busy code)) s.sects) }
    InvD (some (a + nb)) s' ∧
      (∀ v, v ∈ s'.view ↔ (v ∈ s.view ∧ v.addr ≠ a) ∨ v = ⟨a, nb, .busy code, none⟩ ∨
        v = ⟨a + nb, k - nb, .front, none⟩) := by
  obtain ⟨sc, x, S1, S2, b, t, hf, hx, hxn, hxst, hcls, hS, hP, ha, hg, hbpos, hb1, hb2, hupd⟩ := h.focus_view hv
  have hinj := @InvD.view_inj _ _ h
  have hsects : updAt a (pcsSplit a nb .front) (updAt a (pcsSetSt a (.busy code)) s.sects) =
      S1 ++ { sc with pieces := b ++ [⟨nb, .busy code⟩, ⟨x.n - nb, .front⟩] ++ t } :: S2 := by
    rw [hS, Sect.eta_pieces hP, hupd _ _ hb1 (by omega), hupd _ _ hb1 (by omega), pcsSetSt_zip hbpos ha,
      pcsSplit_zip hbpos ha]; simp
  have hxm : x ∈ sc.pieces := by rw [hP]; simp
  have hmq : mixedQuantum = 256 := rfl
  have hmh : mxHead = 32 := rfl
  have hxq : mixedQuantum ∣ x.n := by have := hg.quant x hxm; rwa [qm_mixed hcls] at this
  have := inv_window' (d := none) (d' := some (a + nb)) (mid' := [⟨nb, .busy code⟩, ⟨x.n - nb, .front⟩])
    (tree' := tUnlinkDel s.tree k a) (fr' := s.frontier) h hS (by simpa using hP) ha (by simp; omega)
    (by intro p hp; simp at hp; rcases hp with rfl | rfl <;> simp <;> omega)
    (by intro p hp; rw [qm_mixed hcls]; simp at hp
        rcases hp with rfl | rfl
        · exact hnq
        · exact Nat.dvd_sub hxq hnq)
    (by intro i hi; rw [hcls] at hi; cases hi)
    (by intro _
        refine ⟨by intro p hp; simp at hp; rcases hp with rfl | rfl <;> simp <;> omega, ?_⟩
        have := (hg.mixed_ok hcls).2
        rw [hP] at this
        exact NoAdj_replace2 (x := x) (by simpa using this) (by simp) (by simp))
    (h.tree_wf.tUnlinkDel _ _)
    (by
      intro a' k'
      rw [inTree_tUnlinkDel h.tree_wf, hcls]
      simp only [viewPcs_cons, viewPcs_nil, List.mem_cons, List.not_mem_nil, or_false]
      constructor
      · rintro ⟨hin, hne⟩
        left
        refine ⟨hin, fun he => hne ⟨he, ?_⟩⟩
        subst he
        rw [h.tree_iff] at hin
        exact congrArg VP.n (hinj hin hv rfl)
      · rintro (⟨hin, hne⟩ | he | he)
        · exact ⟨hin, fun hh => hne hh.1⟩
        · simp at he
        · simp at he)
    (by
      intro a'
      rw [h.front_iff a', hcls]
      simp only [viewPcs_cons, viewPcs_nil, List.mem_cons, List.not_mem_nil, or_false]
      constructor
      · rintro ⟨⟨n, c, hn⟩, _⟩
        have hne1 : a' ≠ a := by
          intro he; subst he
          have := congrArg VP.st (hinj hn hv rfl)
          simp at this
        have hne2 : a' ≠ a + nb := by
          intro he
          have := h.no_inside hv hn (by simp; omega)
          simp at this; omega
        exact ⟨Or.inl ⟨n, c, hn, hne1⟩, by simp; omega⟩
      · rintro ⟨⟨n, c, hn, _⟩ | ⟨n, c, hn | hn⟩, hd⟩
        · exact ⟨⟨n, c, hn⟩, by simp⟩
        · simp at hn
        · simp at hn hd; omega)
    hsects
  refine ⟨this.1, fun v => ?_⟩
  rw [this.2 v, hcls, hxn]
  simp


/-- "Reuse btree entry" -/
theorem inv_take_reuse {s : State} {a k nb code : Nat} (h : Inv s)
    (hv : (⟨a, k, .free, none⟩ : VP) ∈ s.view) (hk : nb + mixedQuantum < k)
    (hnq : mixedQuantum ∣ nb) (hnbig : mxHead < nb)
    (he : tEmptyAt (tUnlink s.tree k a) k = true)
    (hfge : (tFindGE (tUnlink s.tree k a) (k - nb)).map (·.1) = some k) :
    let s' : State := { s with tree := tRekey (tUnlink s.tree k a) k (k - nb) (a + nb),
                               sects := updAt (a + nb) (pcsSetSt (a + nb) .free)
                                  (updAt a (pcsSplit a nb .front) (updAt a (pcsSetSt a (.busy code)) s.sects)) }
    Inv s' ∧
      (∀ v, v ∈ s'.view ↔ (v ∈ s.view ∧ v.addr ≠ a) ∨ v = ⟨a, nb, .busy code, none⟩ ∨
        v = ⟨a + nb, k - nb, .free, none⟩) := by
  obtain ⟨sc, x, S1, S2, b, t, hf, hx, hxn, hxst, hcls, hS, hP, ha, hg, hbpos, hb1, hb2, hupd⟩ := h.focus_view hv
  have hinj := @InvD.view_inj _ _ h
  have hmq : mixedQuantum = 256 := rfl
  have hmh : mxHead = 32 := rfl
  have hsects : updAt (a + nb) (pcsSetSt (a + nb) .free)
      (updAt a (pcsSplit a nb .front) (updAt a (pcsSetSt a (.busy code)) s.sects)) =
      S1 ++ { sc with pieces := b ++ [⟨nb, .busy code⟩, ⟨x.n - nb, .free⟩] ++ t } :: S2 := by
    rw [hS, Sect.eta_pieces hP, hupd _ _ hb1 (by omega), hupd _ _ hb1 (by omega),
      hupd _ _ (by omega) (by omega), pcsSetSt_zip hbpos ha, pcsSplit_zip hbpos ha]
    have hb' : AllPos (b ++ [⟨nb, .busy code⟩]) := by
      intro p hp; simp at hp; rcases hp with hp | rfl
      · exact hbpos p hp
      · simp; omega
    have : b ++ ({ n := nb, st := PSt.busy code } : Piece) :: { n := x.n - nb, st := PSt.front } :: t =
        (b ++ [⟨nb, .busy code⟩]) ++ ⟨x.n - nb, .front⟩ :: t := by simp
    simp only
    rw [this, pcsSetSt_zip hb' (by simp; omega)]
    simp
  have hxm : x ∈ sc.pieces := by rw [hP]; simp
  have hxq : mixedQuantum ∣ x.n := by have := hg.quant x hxm; rwa [qm_mixed hcls] at this
  obtain ⟨hrwf, hrin⟩ := tRekey_spec (mt := a + nb) h.tree_wf he hfge
  have := inv_window' (d := none) (d' := none) (mid' := [⟨nb, .busy code⟩, ⟨x.n - nb, .free⟩])
    (tree' := tRekey (tUnlink s.tree k a) k (k - nb) (a + nb)) (fr' := s.frontier) h hS (by simpa using hP) ha
    (by simp; omega)
    (by intro p hp; simp at hp; rcases hp with rfl | rfl <;> simp <;> omega)
    (by intro p hp; rw [qm_mixed hcls]; simp at hp
        rcases hp with rfl | rfl
        · exact hnq
        · exact Nat.dvd_sub hxq hnq)
    (by intro i hi; rw [hcls] at hi; cases hi)
    (by intro _
        refine ⟨by intro p hp; simp at hp; rcases hp with rfl | rfl <;> simp <;> omega, ?_⟩
        have := (hg.mixed_ok hcls).2
        rw [hP] at this
        exact NoAdj_replace2 (x := x) (by simpa using this) (by simp) (by intro _; exact hxst))
    hrwf
    (by
      intro a' k'
      rw [hrin, hcls]
      simp only [viewPcs_cons, viewPcs_nil, List.mem_cons, List.not_mem_nil, or_false]
      constructor
      · rintro (⟨hin, hne⟩ | ⟨rfl, rfl⟩)
        · left
          refine ⟨hin, fun he => hne ⟨he, ?_⟩⟩
          subst he
          rw [h.tree_iff] at hin
          exact congrArg VP.n (hinj hin hv rfl)
        · right; right; simp; omega
      · rintro (⟨hin, hne⟩ | he | he)
        · exact Or.inl ⟨hin, fun hh => hne hh.1⟩
        · simp at he
        · simp at he; right; omega)
    (by
      intro a'
      rw [h.front_iff a', hcls]
      simp only [viewPcs_cons, viewPcs_nil, List.mem_cons, List.not_mem_nil, or_false]
      constructor
      · rintro ⟨⟨n, c, hn⟩, hd⟩
        refine ⟨Or.inl ⟨n, c, hn, fun he => ?_⟩, hd⟩
        subst he
        have := congrArg VP.st (hinj hn hv rfl)
        simp at this
      · rintro ⟨⟨n, c, hn, _⟩ | ⟨n, c, hn | hn⟩, hd⟩
        · exact ⟨⟨n, c, hn⟩, hd⟩
        · simp at hn
        · simp at hn)
    hsects
  refine ⟨this.1, fun v => ?_⟩
  rw [this.2 v, hcls, hxn]
  simp


theorem InvD.front_cls {d : Option Nat} {s : State} (h : InvD d s) {a n : Nat} {c : Option Nat}
    (hv : (⟨a, n, .front, c⟩ : VP) ∈ s.view) : c = none := by
  obtain ⟨sc, x, _, hx, _, hxst, hcls, hscm⟩ := h.lookup hv
  simp only at hx hxst hcls
  cases c with
  | none => rfl
  | some i =>
    obtain ⟨b, t, hP, _⟩ := pcsAt_some hx
    have := ((h.geo sc hscm).fixed_ok i hcls).2 x (by rw [hP]; simp)
    exact absurd hxst this.2

theorem Inv.frontier_view {s : State} (h : Inv s) {f : Nat} (hf : s.frontier = some f) :
    ∃ n, (⟨f, n, .front, none⟩ : VP) ∈ s.view := by
  obtain ⟨⟨n, c, hn⟩, _⟩ := (h.front_iff f).1 hf
  have := h.front_cls hn
  subst this
  exact ⟨n, hn⟩

/-- the frontier piece is used up -/
theorem inv_front_whole {s : State} {f n code : Nat} (h : Inv s) (hfr : s.frontier = some f)
    (hv : (⟨f, n, .front, none⟩ : VP) ∈ s.view) :
    let s' : State := { s with frontier := none, sects := updAt f (pcsSetSt f (.busy code)) s.sects }
    Inv s' ∧ (∀ v, v ∈ s'.view ↔ (v ∈ s.view ∧ v.addr ≠ f) ∨ v = ⟨f, n, .busy code, none⟩) := by
  obtain ⟨sc, x, S1, S2, b, t, hf, hx, hxn, hxst, hcls, hS, hP, ha, hg, hbpos, hb1, hb2, hupd⟩ := h.focus_view hv
  have hinj := @InvD.view_inj _ _ h
  have hnpos := h.view_pos hv
  simp only at hnpos
  have hsects : updAt f (pcsSetSt f (.busy code)) s.sects =
      S1 ++ { sc with pieces := b ++ [⟨x.n, .busy code⟩] ++ t } :: S2 := by
    rw [hS, Sect.eta_pieces hP, hupd _ _ hb1 (by omega), pcsSetSt_zip hbpos ha]; simp
  have hxm : x ∈ sc.pieces := by rw [hP]; simp
  have := inv_window' (d := none) (d' := none) (mid' := [⟨x.n, .busy code⟩]) (tree' := s.tree)
    (fr' := none) h hS (by simpa using hP) ha (by simp)
    (by intro p hp; simp at hp; subst hp; exact hg.pos x hxm)
    (by intro p hp; simp at hp; subst hp; exact hg.quant x hxm)
    (by intro i hi; rw [hcls] at hi; cases hi)
    (by intro _
        refine ⟨by intro p hp; simp at hp; subst hp; exact (hg.mixed_ok hcls).1 x hxm, ?_⟩
        have := (hg.mixed_ok hcls).2
        rw [hP] at this
        exact NoAdj_replace1 (x := x) (by simpa using this) (by simp))
    h.tree_wf
    (by
      intro a' k'
      rw [hcls]
      simp only [viewPcs_cons, viewPcs_nil, List.mem_singleton]
      constructor
      · intro hin
        left
        refine ⟨hin, fun he => ?_⟩
        subst he
        rw [h.tree_iff] at hin
        have := congrArg VP.st (hinj hin hv rfl)
        simp at this
      · rintro (⟨hin, _⟩ | he)
        · exact hin
        · simp at he)
    (by
      intro a'
      rw [hcls]
      simp only [viewPcs_cons, viewPcs_nil, List.mem_singleton]
      constructor
      · intro hh; simp at hh
      · rintro ⟨⟨n', c, hn, hne⟩ | ⟨n', c, hn⟩, _⟩
        · exfalso
          have := (h.front_iff a').2 ⟨⟨n', c, hn⟩, by simp⟩
          rw [hfr] at this; simp at this; exact hne this.symm
        · simp at hn)
    hsects
  refine ⟨this.1, fun v => ?_⟩
  rw [this.2 v, hcls, hxn]
  simp

/-- the frontier piece is split -/
theorem inv_front_split {s : State} {f n nb code : Nat} (h : Inv s) (hfr : s.frontier = some f)
    (hv : (⟨f, n, .front, none⟩ : VP) ∈ s.view) (hk : nb + mixedQuantum < n)
    (hnq : mixedQuantum ∣ nb) (hnbig : mxHead < nb) :
    let s' : State := { s with frontier := some (f + nb),
                               sects := updAt f (pcsSplit f nb .front) (updAt f (pcsSetSt f (.busy code)) s.sects) }
    Inv s' ∧ (∀ v, v ∈ s'.view ↔ (v ∈ s.view ∧ v.addr ≠ f) ∨ v = ⟨f, nb, .busy code, none⟩ ∨
        v = ⟨f + nb, n - nb, .front, none⟩) := by
  obtain ⟨sc, x, S1, S2, b, t, hf, hx, hxn, hxst, hcls, hS, hP, ha, hg, hbpos, hb1, hb2, hupd⟩ := h.focus_view hv
  have hinj := @InvD.view_inj _ _ h
  have hmq : mixedQuantum = 256 := rfl
  have hmh : mxHead = 32 := rfl
  have hsects : updAt f (pcsSplit f nb .front) (updAt f (pcsSetSt f (.busy code)) s.sects) =
      S1 ++ { sc with pieces := b ++ [⟨nb, .busy code⟩, ⟨x.n - nb, .front⟩] ++ t } :: S2 := by
    rw [hS, Sect.eta_pieces hP, hupd _ _ hb1 (by omega), hupd _ _ hb1 (by omega), pcsSetSt_zip hbpos ha,
      pcsSplit_zip hbpos ha]; simp
  have hxm : x ∈ sc.pieces := by rw [hP]; simp
  have hxq : mixedQuantum ∣ x.n := by have := hg.quant x hxm; rwa [qm_mixed hcls] at this
  have := inv_window' (d := none) (d' := none) (mid' := [⟨nb, .busy code⟩, ⟨x.n - nb, .front⟩])
    (tree' := s.tree) (fr' := some (f + nb)) h hS (by simpa using hP) ha (by simp; omega)
    (by intro p hp; simp at hp; rcases hp with rfl | rfl <;> simp <;> omega)
    (by intro p hp; rw [qm_mixed hcls]; simp at hp
        rcases hp with rfl | rfl
        · exact hnq
        · exact Nat.dvd_sub hxq hnq)
    (by intro i hi; rw [hcls] at hi; cases hi)
    (by intro _
        refine ⟨by intro p hp; simp at hp; rcases hp with rfl | rfl <;> simp <;> omega, ?_⟩
        have := (hg.mixed_ok hcls).2
        rw [hP] at this
        exact NoAdj_replace2 (x := x) (by simpa using this) (by simp) (by simp))
    h.tree_wf
    (by
      intro a' k'
      rw [hcls]
      simp only [viewPcs_cons, viewPcs_nil, List.mem_cons, List.not_mem_nil, or_false]
      constructor
      · intro hin
        left
        refine ⟨hin, fun he => ?_⟩
        subst he
        rw [h.tree_iff] at hin
        have := congrArg VP.st (hinj hin hv rfl)
        simp at this
      · rintro (⟨hin, _⟩ | he | he)
        · exact hin
        · simp at he
        · simp at he)
    (by
      intro a'
      rw [hcls]
      simp only [viewPcs_cons, viewPcs_nil, List.mem_cons, List.not_mem_nil, or_false]
      constructor
      · intro hh; simp at hh; subst hh
        exact ⟨Or.inr ⟨x.n - nb, none, Or.inr rfl⟩, by simp⟩
      · rintro ⟨⟨n', c, hn, hne⟩ | ⟨n', c, hn | hn⟩, _⟩
        · exfalso
          have := (h.front_iff a').2 ⟨⟨n', c, hn⟩, by simp⟩
          rw [hfr] at this; simp at this; exact hne this.symm
        · simp at hn
        · simp at hn; simp [hn.1])
    hsects
  refine ⟨this.1, fun v => ?_⟩
  rw [this.2 v, hcls, hxn]
  simp

/-- `mixedFrontier = 0` before the old frontier piece is put into the tree -/
theorem inv_front_drop {s : State} {f : Nat} (h : Inv s) (hfr : s.frontier = some f) :
    InvD (some f) { s with frontier := none } := by
  refine ⟨h.sorted, h.geo, h.fl_len, h.fl_nodup, h.fl_iff, h.tree_wf, h.tree_iff, ?_⟩
  intro a'
  show none = some a' ↔ _
  constructor
  · intro hh; simp at hh
  · rintro ⟨hex, hne⟩
    exfalso
    have := (h.front_iff a').2 ⟨hex, by simp⟩
    rw [hfr] at this; simp at this; subst this; exact hne rfl


theorem newsect_fits (nb : Nat) :
    let nq := quoRoundUp nb mixedQuantum
    let np := quoRoundUp (sectHead + nq * (qmInfoSize + mixedQuantum)) pgSize
    let npages := if np < mixedPgGroup then mixedPgGroup else np
    nb ≤ sectQmCount npages mixedQuantum * mixedQuantum ∧ 1 ≤ sectQmCount npages mixedQuantum ∧
      2 ≤ npages := by
  intro nq np npages
  have h1 : nb ≤ nq * 256 := by
    show nb ≤ quoRoundUp nb mixedQuantum * 256
    unfold quoRoundUp mixedQuantum; split <;> omega
  have h2 : 46 + nq * 257 ≤ np * 4096 := by
    show 46 + nq * 257 ≤ quoRoundUp (sectHead + nq * (qmInfoSize + mixedQuantum)) pgSize * 4096
    unfold quoRoundUp sectHead qmInfoSize mixedQuantum pgSize; split <;> omega
  have h3 : np ≤ npages ∧ 2 ≤ npages := by
    show np ≤ (if np < mixedPgGroup then mixedPgGroup else np) ∧ 2 ≤ (if np < mixedPgGroup then mixedPgGroup else np)
    unfold mixedPgGroup; split <;> omega
  show nb ≤ (npages * pgSize - sectHead) / (mixedQuantum + qmInfoSize) * mixedQuantum ∧
    1 ≤ (npages * pgSize - sectHead) / (mixedQuantum + qmInfoSize) ∧ 2 ≤ npages
  simp only [pgSize, sectHead, mixedQuantum, qmInfoSize]
  omega

theorem inv_newMixedSect {s s' : State} {nb grant : Nat} (h : Inv s) (hfr : s.frontier = none)
    (hr : newMixedSect s nb grant = some s') :
    Inv s' ∧ ∃ f n, s'.frontier = some f ∧ nb ≤ n ∧ (⟨f, n, .front, none⟩ : VP) ∉ s.view ∧
      (∀ v, v ∈ s'.view ↔ v ∈ s.view ∨ v = ⟨f, n, .front, none⟩) := by
  unfold newMixedSect at hr
  simp only at hr
  obtain ⟨hfit, hq1, hnp2⟩ := newsect_fits nb
  generalize hnp : (if quoRoundUp (sectHead + quoRoundUp nb mixedQuantum * (qmInfoSize + mixedQuantum)) pgSize < mixedPgGroup
    then mixedPgGroup else quoRoundUp (sectHead + quoRoundUp nb mixedQuantum * (qmInfoSize + mixedQuantum)) pgSize) = npages at hr hfit hq1 hnp2
  split at hr
  · simp at hr
  · next sects' hins =>
    split at hins
    · next hal =>
      simp only [Option.some.injEq] at hr
      subst hr
      generalize hsc : ({ base := grant, pages := npages, cls := none,
                          pieces := [⟨({ base := grant, pages := npages, cls := none, pieces := [] } : Sect).qmCount * mixedQuantum, .front⟩] } : Sect) = sc at hins
      have hqc : sc.qmCount = sectQmCount npages mixedQuantum := by subst hsc; rfl
      have hqm : sc.qm = mixedQuantum := by subst hsc; rfl
      have hcls : sc.cls = none := by subst hsc; rfl
      have hpcs : sc.pieces = [⟨sectQmCount npages mixedQuantum * mixedQuantum, .front⟩] := by subst hsc; rfl
      have hmq : mixedQuantum = 256 := rfl
      have hmh : mxHead = 32 := rfl
      have hq1' : 1 ≤ sectQmCount npages 256 := hq1
      have hgeo : sc.Geo := by
        constructor
        · subst hsc; exact hal
        · subst hsc; simp only; omega
        · rw [hpcs, hqc, hqm]; simp
        · intro p hp; rw [hpcs] at hp; simp at hp; subst hp; simp [mixedQuantum]; omega
        · intro p hp; rw [hpcs] at hp; simp at hp; subst hp; rw [hqm]; exact Nat.dvd_mul_left _ _
        · intro j hj; rw [hcls] at hj; cases hj
        · intro _
          refine ⟨?_, by rw [hpcs]; trivial⟩
          intro p hp; rw [hpcs] at hp; simp at hp; subst hp; simp [mixedQuantum, mxHead]; omega
      obtain ⟨S1, S2, e1, e2, e3⟩ := insertSect_some hins h.sorted (by unfold Sect.lim; omega)
      have hscv : sc.view = [⟨sc.data, sectQmCount npages mixedQuantum * mixedQuantum, .front, none⟩] := by
        unfold Sect.view; rw [hpcs, hcls]; rfl
      have hview : ∀ v, v ∈ viewSects sects' ↔ v ∈ s.view ∨ v = ⟨sc.data, sectQmCount npages mixedQuantum * mixedQuantum, .front, none⟩ := by
        intro v; unfold State.view; rw [e1, e2]; simp [hscv]; grind
      have hnot : ∀ n c, (⟨sc.data, n, .front, c⟩ : VP) ∉ s.view := by
        intro n c hn
        have := (h.front_iff sc.data).2 ⟨⟨n, c, hn⟩, by simp⟩
        rw [hfr] at this; simp at this
      refine ⟨(?_ : Inv _).tag _, sc.data, sectQmCount npages mixedQuantum * mixedQuantum, rfl, hfit, hnot _ _, hview⟩
      constructor
      · exact e3
      · intro u hu
        rw [e2] at hu; simp at hu
        rcases hu with hu | rfl | hu
        · exact h.geo u (by rw [e1]; simp [hu])
        · exact hgeo
        · exact h.geo u (by rw [e1]; simp [hu])
      · exact h.fl_len
      · exact h.fl_nodup
      · intro i a'
        show a' ∈ s.fl.getD i [] ↔ ∃ n, _ ∈ viewSects sects'
        rw [h.fl_iff i a']
        simp only [hview]
        grind
      · exact h.tree_wf
      · intro a' k'
        show inTree s.tree a' k' ↔ _ ∈ viewSects sects'
        rw [hview, h.tree_iff a' k']
        grind
      · intro a'
        show some sc.data = some a' ↔ (∃ n c, _ ∈ viewSects sects') ∧ _
        simp only [hview]
        constructor
        · intro hh; simp at hh; subst hh
          exact ⟨⟨_, none, Or.inr rfl⟩, by simp⟩
        · rintro ⟨⟨n, c, hn | hn⟩, _⟩
          · exfalso
            have := (h.front_iff a').2 ⟨⟨n, c, hn⟩, by simp⟩
            rw [hfr] at this; simp at this
          · simp at hn; simp [hn.1]
    · simp at hins

theorem tUnlinkDel_empty {t : Tree} {k a : Nat} (h : tEmptyAt (tUnlink t k a) k = true) :
    tUnlinkDel t k a = tDelete (tUnlink t k a) k := by
  unfold tUnlinkDel; simp [h]

theorem tUnlinkDel_nonempty {t : Tree} {k a : Nat} (h : tEmptyAt (tUnlink t k a) k = false) :
    tUnlinkDel t k a = tUnlink t k a := by
  unfold tUnlinkDel; simp [h]

/-- an allocation effect from a window description -/
theorem AllocEff.of_window {s s' : State} {d : Option Nat} (h : InvD d s) {a n0 : Nat} {st0 : PSt} {c0 : Option Nat} {new : VP}
    (h0 : (⟨a, n0, st0, c0⟩ : VP) ∈ s.view) (hst0 : ∀ c, st0 ≠ .busy c) (hnew : new.busy) (hna : new.addr = a)
    (hw : ∀ v, v.busy → (v ∈ s'.view ↔ (v ∈ s.view ∧ v.addr ≠ a) ∨ v = new)) : AllocEff s s' new := by
  have hnb : ∀ v, v.busy → v ∈ s.view → v.addr ≠ a := by
    intro v ⟨c, hc⟩ hv hva
    have := congrArg VP.st (h.view_inj hv h0 hva)
    rw [hc] at this; exact hst0 c this.symm
  refine ⟨fun v hv => ?_, fun hin => hnb new hnew hin hna, hnew⟩
  rw [hw v hv]
  constructor
  · rintro (⟨h1, _⟩ | h1)
    · exact Or.inl h1
    · exact Or.inr h1
  · rintro (h1 | h1)
    · exact Or.inl ⟨h1, hnb v hv h1⟩
    · exact Or.inr h1

theorem AllocEff.trans_same {s s1 s' : State} {new : VP} (h1 : ∀ v, v.busy → (v ∈ s1.view ↔ v ∈ s.view))
    (h2 : AllocEff s1 s' new) : AllocEff s s' new :=
  ⟨fun v hv => by rw [h2.busy_iff v hv, h1 v hv], fun hin => h2.fresh ((h1 new h2.is_busy).2 hin), h2.is_busy⟩

theorem AllocEff.then_same {s s1 s' : State} {new : VP} (h1 : AllocEff s s1 new)
    (h2 : ∀ v, v.busy → (v ∈ s'.view ↔ v ∈ s1.view)) : AllocEff s s' new :=
  ⟨fun v hv => by rw [h2 v hv, h1.busy_iff v hv], h1.fresh, h1.is_busy⟩

/-- split a tree piece and put the remainder back with `piecePutMixed` -/
theorem inv_split_put {s s' : State} {a k nb code : Nat} {tg : String} (h : Inv s)
    (hv : (⟨a, k, .free, none⟩ : VP) ∈ s.view) (hk : nb + mixedQuantum < k)
    (hnq : mixedQuantum ∣ nb) (hnbig : mxHead < nb)
    (hr : putMixed ({ s with tree := tUnlinkDel s.tree k a,
                             sects := updAt a (pcsSplit a nb .front) (updAt a (pcsSetSt a (.busy code)) s.sects) }.tag tg)
            (a + nb) = some s') :
    Inv s' ∧ AllocEff s s' ⟨a, nb, .busy code, none⟩ := by
  obtain ⟨h2, hview2⟩ := inv_take_split (code := code) h hv hk hnq hnbig
  have h2t := h2.tag tg
  have hrem : (⟨a + nb, k - nb, .front, none⟩ : VP) ∈ State.view (State.tag { s with tree := tUnlinkDel s.tree k a, sects := updAt a (pcsSplit a nb .front) (updAt a (pcsSetSt a (.busy code)) s.sects) } tg) := by
    rw [view_tag, hview2]; simp
  obtain ⟨sc, x, hf, hx, hxn, hxst, hcls, _⟩ := h2t.lookup hrem
  simp only at hf hx hxn hxst hcls
  obtain ⟨h3, hb3, _⟩ := inv_putMixed h2t hf hx hcls (by rw [hxst]; simp) hr
  refine ⟨h3, AllocEff.of_window h hv (by simp) ⟨code, rfl⟩ rfl ?_⟩
  intro v hvb
  rw [hb3 v hvb, view_tag, hview2]
  have hmh : mxHead = 32 := rfl
  obtain ⟨c, hc⟩ := hvb
  constructor
  · rintro ⟨⟨h1, h2'⟩ | h1 | h1, _⟩
    · exact Or.inl ⟨h1, h2'⟩
    · exact Or.inr h1
    · rw [h1] at hc; simp at hc
  · rintro (⟨h1, h2'⟩ | h1)
    · refine ⟨Or.inl ⟨h1, h2'⟩, fun he => ?_⟩
      rcases Nat.lt_or_ge v.addr a with hlt | hge
      · omega
      · have := h.no_inside hv h1 (by simp; omega)
        simp at this; omega
    · refine ⟨Or.inr (Or.inl h1), ?_⟩
      rw [h1]; simp; omega

theorem putMixed_frontier {s s' : State} {a : Nat} (h : putMixed s a = some s') : s'.frontier = s.frontier := by
  unfold putMixed at h
  split at h
  · simp at h
  · simp only [Option.some.injEq] at h
    subst h
    simp only [frontier_tag]
    split <;> split <;> rfl

theorem inv_frontDiscard {s s0 : State} {nb : Nat} (h : Inv s) (hA : frontDiscard s nb = some s0) :
    Inv s0 ∧ (∀ v, v.busy → (v ∈ s0.view ↔ v ∈ s.view)) ∧
      (∀ f n, s0.frontier = some f → (⟨f, n, .front, none⟩ : VP) ∈ s0.view → nb ≤ n) := by
  unfold frontDiscard at hA
  cases hfr : s.frontier with
  | none =>
    rw [hfr] at hA; simp at hA; subst hA
    exact ⟨h, fun _ _ => Iff.rfl, fun f n hf => by rw [hfr] at hf; simp at hf⟩
  | some f =>
    rw [hfr] at hA; simp only at hA
    obtain ⟨n, hn⟩ := h.frontier_view hfr
    obtain ⟨sc, x, hf, hx, hxn, hxst, hcls, _⟩ := h.lookup hn
    simp only at hf hx hxn hxst hcls
    rw [pieceAt_eq hf hx] at hA
    simp only [hxn] at hA
    by_cases hlt : n < nb
    · simp only [hlt, if_true] at hA
      have hd := (inv_front_drop h hfr).tag "mx-front-discard"
      obtain ⟨h0, hb0, _⟩ := inv_putMixed hd hf hx hcls (by rw [hxst]; simp) hA
      have hfr0 := putMixed_frontier hA
      refine ⟨h0, fun v hv => ?_, fun f' n' hf' => ?_⟩
      · rw [hb0 v hv]
        simp only [view_tag]
        constructor
        · exact fun hh => hh.1
        · intro hh
          refine ⟨hh, fun he => ?_⟩
          obtain ⟨c, hc⟩ := hv
          have := congrArg VP.st (h.view_inj hh hn he)
          rw [hc] at this; simp at this
      · rw [hfr0] at hf'; simp at hf'
    · simp only [hlt, if_false, Option.some.injEq] at hA
      subst hA
      refine ⟨h, fun _ _ => Iff.rfl, fun f' n' hf' hn' => ?_⟩
      rw [hfr] at hf'; simp at hf'; subst hf'
      have := congrArg VP.n (h.view_inj hn' hn rfl)
      simp at this; omega

theorem inv_frontEnsure {s0 s1 : State} {nb grant : Nat} (h0 : Inv s0)
    (hfit0 : ∀ f n, s0.frontier = some f → (⟨f, n, .front, none⟩ : VP) ∈ s0.view → nb ≤ n)
    (hB : frontEnsure s0 nb grant = some s1) :
    Inv s1 ∧ (∀ v, v.busy → (v ∈ s1.view ↔ v ∈ s0.view)) ∧
      ∃ f n, s1.frontier = some f ∧ (⟨f, n, .front, none⟩ : VP) ∈ s1.view ∧ nb ≤ n := by
  unfold frontEnsure at hB
  cases hfr : s0.frontier with
  | some f =>
    rw [hfr] at hB; simp at hB; subst hB
    obtain ⟨n, hn⟩ := h0.frontier_view hfr
    exact ⟨h0.tag _, fun _ _ => by simp, f, n, by simpa using hfr, by simpa using hn, hfit0 f n hfr hn⟩
  | none =>
    rw [hfr] at hB; simp only at hB
    obtain ⟨h1, f, n, hf1, hn1, hnot, hview1⟩ := inv_newMixedSect h0 hfr hB
    refine ⟨h1, fun v hv => ?_, f, n, hf1, by rw [hview1]; simp, hn1⟩
    rw [hview1]
    obtain ⟨c, hc⟩ := hv
    constructor
    · rintro (hh | hh)
      · exact hh
      · rw [hh] at hc; simp at hc
    · exact Or.inl

theorem inv_frontTake {s1 s' : State} {code nb a f n : Nat} (h1 : Inv s1)
    (hnq : mixedQuantum ∣ nb) (hnbig : mxHead < nb)
    (hfr1 : s1.frontier = some f) (hn1 : (⟨f, n, .front, none⟩ : VP) ∈ s1.view) (hfit1 : nb ≤ n)
    (hr : frontTake s1 code nb = some (s', a)) :
    Inv s' ∧ ∃ m, nb ≤ m ∧ AllocEff s1 s' ⟨a, m, .busy code, none⟩ := by
  unfold frontTake at hr
  rw [hfr1] at hr
  simp only at hr
  obtain ⟨sc, x, hf, hx, hxn, hxst, hcls, _⟩ := h1.lookup hn1
  simp only at hf hx hxn hxst hcls
  rw [pieceAt_eq hf hx] at hr
  simp only [hxn] at hr
  by_cases hk : n > nb + mixedQuantum
  · simp only [hk, if_true, Option.some.injEq, Prod.mk.injEq] at hr
    obtain ⟨rfl, rfl⟩ := hr
    obtain ⟨h2, hview2⟩ := inv_front_split (code := code) h1 hfr1 hn1 hk hnq hnbig
    refine ⟨h2.tag _, nb, Nat.le_refl _, AllocEff.of_window h1 hn1 (by simp) ⟨code, rfl⟩ rfl ?_⟩
    intro v ⟨c, hc⟩
    rw [view_tag, hview2]
    constructor
    · rintro (h3 | h3 | h3)
      · exact Or.inl h3
      · exact Or.inr h3
      · rw [h3] at hc; simp at hc
    · rintro (h3 | h3)
      · exact Or.inl h3
      · exact Or.inr (Or.inl h3)
  · simp only [hk, if_false, Option.some.injEq, Prod.mk.injEq] at hr
    obtain ⟨rfl, rfl⟩ := hr
    obtain ⟨h2, hview2⟩ := inv_front_whole (code := code) h1 hfr1 hn1
    refine ⟨h2.tag _, n, hfit1, AllocEff.of_window h1 hn1 (by simp) ⟨code, rfl⟩ rfl ?_⟩
    intro v _
    rw [view_tag, hview2]

theorem inv_pieceGetMixed {s s' : State} {code nb grant a : Nat} (h : Inv s)
    (hnq : mixedQuantum ∣ nb) (hnbig : mxHead < nb)
    (hr : pieceGetMixed s code nb grant = some (s', a)) :
    Inv s' ∧ ∃ m, nb ≤ m ∧ AllocEff s s' ⟨a, m, .busy code, none⟩ := by
  unfold pieceGetMixed at hr
  split at hr
  · -- a piece from the tree
    next k a0 rest hfind =>
    obtain ⟨hmem, hle⟩ := tFindGE_some hfind
    simp only at hle
    have hin : inTree s.tree a0 k := ⟨_, hmem, rfl, by simp⟩
    have hv := (h.tree_iff a0 k).1 hin
    obtain ⟨sc, x, hf, hx, hxn, hxst, hcls, _⟩ := h.lookup hv
    simp only at hf hx hxn hxst hcls
    rw [pieceAt_eq hf hx] at hr
    simp only [hxn] at hr
    have hmq : mixedQuantum = 256 := rfl
    by_cases hk : k > nb + mixedQuantum
    · simp only [hk, if_true] at hr
      cases he : tEmptyAt (tUnlink s.tree k a0) k with
      | false =>
        simp only [he, Bool.not_false, if_true] at hr
        rw [← tUnlinkDel_nonempty he] at hr
        cases hp : putMixed _ (a0 + nb) with
        | none => rw [hp] at hr; simp at hr
        | some s2 =>
          rw [hp] at hr; simp at hr
          obtain ⟨rfl, rfl⟩ := hr
          obtain ⟨h3, he3⟩ := inv_split_put h hv hk hnq hnbig hp
          exact ⟨h3, nb, Nat.le_refl _, he3⟩
      | true =>
        simp only [he, Bool.not_true, Bool.false_eq_true, if_false] at hr
        by_cases hg : (Option.map (fun x => x.fst) (tFindGE (tUnlink s.tree k a0) (k - nb)) != some k) = true
        · simp only [hg, if_true] at hr
          rw [← tUnlinkDel_empty he] at hr
          cases hp : putMixed _ (a0 + nb) with
          | none => rw [hp] at hr; simp at hr
          | some s2 =>
            rw [hp] at hr; simp at hr
            obtain ⟨rfl, rfl⟩ := hr
            obtain ⟨h3, he3⟩ := inv_split_put h hv hk hnq hnbig hp
            exact ⟨h3, nb, Nat.le_refl _, he3⟩
        · simp only [hg] at hr
          simp at hr
          obtain ⟨rfl, rfl⟩ := hr
          have hg' : (tFindGE (tUnlink s.tree k a0) (k - nb)).map (·.1) = some k := by
            simpa using hg
          obtain ⟨h3, hview3⟩ := inv_take_reuse (code := code) h hv hk hnq hnbig he hg'
          refine ⟨h3.tag _, nb, Nat.le_refl _, AllocEff.of_window h hv (by simp) ⟨code, rfl⟩ rfl ?_⟩
          intro v ⟨c, hc⟩
          rw [view_tag, hview3]
          constructor
          · rintro (h1 | h1 | h1)
            · exact Or.inl h1
            · exact Or.inr h1
            · rw [h1] at hc; simp at hc
          · rintro (h1 | h1)
            · exact Or.inl h1
            · exact Or.inr (Or.inl h1)
    · simp only [hk, if_false] at hr
      have hfin : s' = (State.tag { s with tree := tUnlinkDel s.tree k a0, sects := updAt a0 (pcsSetSt a0 (.busy code)) s.sects }
            (if tEmptyAt (tUnlink s.tree k a0) k = true then "mx-tree-whole-last" else "mx-tree-whole-more")) ∧ a = a0 := by
        cases he : tEmptyAt (tUnlink s.tree k a0) k with
        | false =>
          simp only [he, Bool.false_eq_true, if_false, Option.some.injEq, Prod.mk.injEq] at hr
          rw [tUnlinkDel_nonempty he]; exact ⟨hr.1.symm, hr.2.symm⟩
        | true =>
          simp only [he, if_true, Option.some.injEq, Prod.mk.injEq] at hr
          rw [tUnlinkDel_empty he]; exact ⟨hr.1.symm, hr.2.symm⟩
      obtain ⟨rfl, rfl⟩ := hfin
      obtain ⟨h3, hview3⟩ := inv_take_whole (code := code) h hv
      refine ⟨h3.tag _, k, hle, AllocEff.of_window h hv (by simp) ⟨code, rfl⟩ rfl ?_⟩
      intro v _
      rw [view_tag, hview3]
  · simp at hr
  · -- no piece in the tree is big enough
    cases hA : frontDiscard s nb with
    | none => rw [hA] at hr; simp at hr
    | some s0 =>
      rw [hA] at hr; simp only at hr
      obtain ⟨h0, hb0, hfit0⟩ := inv_frontDiscard h hA
      cases hB : frontEnsure s0 nb grant with
      | none => rw [hB] at hr; simp at hr
      | some s1 =>
        rw [hB] at hr; simp only at hr
        obtain ⟨h1, hb1, f, n, hfr1, hn1, hfit1⟩ := inv_frontEnsure h0 hfit0 hB
        obtain ⟨h2, m, hm, he2⟩ := inv_frontTake h1 hnq hnbig hfr1 hn1 hfit1 hr
        exact ⟨h2, m, hm, AllocEff.trans_same (fun v hv => by rw [hb1 v hv, hb0 v hv]) he2⟩

end AldorVerif.Store
