import AldorVerif.Model.Foam.Spec
set_option linter.unusedSimpArgs false
/-!
# `Spec.X` is the mathematical definition (C04)

For every integer / boolean / character builtin of `Model/Foam/Spec.lean` whose definition is not
already literally the mathematical statement: the value over `Int` (`toInt` for `SInt`/`HInt`,
`toNat` for `Char`/`Byte`).  Fixed-size arithmetic is arithmetic modulo 2^64 into the signed range
(`BitVec.ofInt 64`).
-/
namespace AldorVerif.C04Math
open AldorVerif

/-! ## Bool: truth tables -/
theorem bool_tables :
    (∀ a, Spec.BoolNot a = some (!a)) ∧
    (∀ a b, Spec.BoolAnd a b = some (a && b)) ∧ (∀ a b, Spec.BoolOr a b = some (a || b)) ∧
    (∀ a b, Spec.BoolEQ a b = some (decide (a = b))) ∧ (∀ a b, Spec.BoolNE a b = some (decide (a ≠ b))) := by
  refine ⟨fun _ => rfl, fun _ _ => rfl, fun _ _ => rfl, ?_, ?_⟩ <;> intro a b <;> cases a <;> cases b <;> rfl

/-! ## SInt ring operations: the integer result reduced into the 64-bit signed range -/
theorem SIntPlus_math (a b : BitVec 64) : Spec.SIntPlus a b = some (BitVec.ofInt 64 (a.toInt + b.toInt)) := by
  simp [Spec.SIntPlus, BitVec.ofInt_add]
theorem SIntMinus_math (a b : BitVec 64) : Spec.SIntMinus a b = some (BitVec.ofInt 64 (a.toInt - b.toInt)) := by
  simp only [Spec.SIntMinus]; congr 1; apply BitVec.eq_of_toInt_eq; simp [BitVec.toInt_sub, BitVec.toInt_ofInt]
theorem SIntTimes_math (a b : BitVec 64) : Spec.SIntTimes a b = some (BitVec.ofInt 64 (a.toInt * b.toInt)) := by
  simp [Spec.SIntTimes, BitVec.ofInt_mul]
theorem SIntNegate_math (a : BitVec 64) : Spec.SIntNegate a = some (BitVec.ofInt 64 (-a.toInt)) := by
  simp only [Spec.SIntNegate]; congr 1; apply BitVec.eq_of_toInt_eq; simp [BitVec.toInt_neg, BitVec.toInt_ofInt]
theorem SIntNext_math (a : BitVec 64) : Spec.SIntNext a = some (BitVec.ofInt 64 (a.toInt + 1)) := by
  simp only [Spec.SIntNext]; congr 1; apply BitVec.eq_of_toInt_eq; simp [BitVec.toInt_add, BitVec.toInt_ofInt]
theorem SIntPrev_math (a : BitVec 64) : Spec.SIntPrev a = some (BitVec.ofInt 64 (a.toInt - 1)) := by
  simp only [Spec.SIntPrev]; congr 1; apply BitVec.eq_of_toInt_eq; simp [BitVec.toInt_sub, BitVec.toInt_ofInt]
theorem SIntTimesPlus_math (a b c : BitVec 64) :
    Spec.SIntTimesPlus a b c = some (BitVec.ofInt 64 (a.toInt * b.toInt + c.toInt)) := by
  simp [Spec.SIntTimesPlus, BitVec.ofInt_add, BitVec.ofInt_mul]
/-- no wrap happens when the exact result is representable -/
theorem ofInt_toInt_of_range (x : Int) (h : -(2 ^ 63) ≤ x ∧ x < 2 ^ 63) : (BitVec.ofInt 64 x).toInt = x := by
  rw [BitVec.toInt_ofInt]; simp only [Int.bmod]; omega

/-! ## comparisons and tests -/
theorem SIntEQ_math (a b : BitVec 64) : Spec.SIntEQ a b = some (decide (a.toInt = b.toInt)) := by
  simp [Spec.SIntEQ, BitVec.toInt_inj, Bool.beq_eq_decide_eq]
theorem SIntNE_math (a b : BitVec 64) : Spec.SIntNE a b = some (decide (a.toInt ≠ b.toInt)) := by
  simp [Spec.SIntNE, BitVec.toInt_inj, bne, Bool.beq_eq_decide_eq]
theorem SIntIsZero_math (a : BitVec 64) : Spec.SIntIsZero a = some (decide (a.toInt = 0)) := by
  have : a.toInt = 0 ↔ a = 0#64 := by rw [← BitVec.toInt_inj]; simp
  simp [Spec.SIntIsZero, this, Bool.beq_eq_decide_eq]
theorem SIntLT_math (a b : BitVec 64) : Spec.SIntLT a b = some (decide (a.toInt < b.toInt)) := rfl
theorem SIntLE_math (a b : BitVec 64) : Spec.SIntLE a b = some (decide (a.toInt ≤ b.toInt)) := rfl
theorem SIntIsOdd_math (a : BitVec 64) : Spec.SIntIsOdd a = some (decide (a.toInt % 2 ≠ 0)) := rfl
theorem SIntIsEven_math (a : BitVec 64) : Spec.SIntIsEven a = some (decide (a.toInt % 2 = 0)) := rfl
theorem SIntMinMax_math : (∀ r, Spec.SIntMin = some r → r.toInt = -(2 ^ 63)) ∧ (∀ r, Spec.SIntMax = some r → r.toInt = 2 ^ 63 - 1) := by
  constructor <;> intro r h <;> simp [Spec.SIntMin, Spec.SIntMax] at h <;> subst h <;> decide

/-! ## division: truncation toward zero, `a = q*b + r` -/
theorem divDom_iff (a b : BitVec 64) :
    Spec.divDom a b = true ↔ b.toInt ≠ 0 ∧ ¬ (a.toInt = -(2 ^ 63) ∧ b.toInt = -1) := by
  have h0 : b = 0#64 ↔ b.toInt = 0 := by rw [← BitVec.toInt_inj]; simp
  have h1 : b = -1#64 ↔ b.toInt = -1 := by rw [← BitVec.toInt_inj]; simp
  have h2 : a = BitVec.intMin 64 ↔ a.toInt = -(2 ^ 63) := by
    rw [← BitVec.toInt_inj]; simp [BitVec.toInt_intMin]
  simp only [Spec.divDom, Bool.and_eq_true, bne_iff_ne, ne_eq, Bool.not_eq_true', beq_iff_eq,
             Bool.and_eq_false_iff, beq_eq_false_iff_ne, h0, h1, h2]
  constructor
  · rintro ⟨hb, h⟩; refine ⟨hb, ?_⟩; rintro ⟨ha, hb1⟩; cases h with
    | inl h => exact h ha
    | inr h => exact h hb1
  · rintro ⟨hb, h⟩; refine ⟨hb, ?_⟩
    by_cases ha : a.toInt = -(2 ^ 63)
    · right; intro hb1; exact h ⟨ha, hb1⟩
    · left; exact ha

theorem quo_in_range (a b : BitVec 64) (h : Spec.divDom a b = true) :
    -(2 ^ 63) ≤ a.toInt.tdiv b.toInt ∧ a.toInt.tdiv b.toInt < 2 ^ 63 := by
  rw [divDom_iff] at h
  have ha1 := BitVec.le_toInt (x := a); have ha2 := BitVec.toInt_lt (x := a)
  have hb1 := BitVec.le_toInt (x := b); have hb2 := BitVec.toInt_lt (x := b)
  simp at ha1 ha2 hb1 hb2
  have habs : (a.toInt.tdiv b.toInt).natAbs ≤ a.toInt.natAbs := by
    rw [Int.natAbs_tdiv]; exact Nat.div_le_self _ _
  by_cases hb : b.toInt = -1
  · have hne : a.toInt ≠ -(2 ^ 63) := fun x => h.2 ⟨x, hb⟩
    rw [hb, Int.tdiv_neg, Int.tdiv_one]; omega
  · by_cases hb' : b.toInt = 1
    · rw [hb', Int.tdiv_one]; omega
    · have h2 : 2 ≤ b.toInt.natAbs := by omega
      have : (a.toInt.tdiv b.toInt).natAbs ≤ a.toInt.natAbs / 2 := by
        rw [Int.natAbs_tdiv]
        exact Nat.div_le_div_left h2 (by omega)
      omega

/-- `quo` is the quotient truncated toward zero -/
theorem SIntQuo_math (a b q : BitVec 64) (h : Spec.SIntQuo a b = some q) : q.toInt = a.toInt.tdiv b.toInt := by
  simp only [Spec.SIntQuo] at h
  split at h
  · rename_i hd; injection h with h; subst h
    exact ofInt_toInt_of_range _ (quo_in_range a b hd)
  · cases h

/-- `rem` is the remainder of that division -/
theorem SIntRem_math (a b r : BitVec 64) (h : Spec.SIntRem a b = some r) : r.toInt = a.toInt.tmod b.toInt := by
  simp only [Spec.SIntRem] at h
  split at h
  · rename_i hd; injection h with h; subst h
    rw [divDom_iff] at hd
    have ha1 := BitVec.le_toInt (x := a); have ha2 := BitVec.toInt_lt (x := a)
    have hb1 := BitVec.le_toInt (x := b); have hb2 := BitVec.toInt_lt (x := b)
    simp at ha1 ha2 hb1 hb2
    apply ofInt_toInt_of_range
    have h1 := Int.tmod_lt_of_pos a.toInt (b := b.toInt.natAbs) (by omega)
    have habs : (a.toInt.tmod b.toInt).natAbs < b.toInt.natAbs := by
      rw [Int.natAbs_tmod]; exact Nat.mod_lt _ (by omega)
    omega
  · cases h

/-- division algorithm: `a = quo * b + rem`, `|rem| < |b|`, `rem` has the sign of `a` -/
theorem quo_rem_math (a b q r : BitVec 64) (hq : Spec.SIntQuo a b = some q) (hr : Spec.SIntRem a b = some r) :
    a.toInt = q.toInt * b.toInt + r.toInt ∧ r.toInt.natAbs < b.toInt.natAbs ∧
      (0 ≤ a.toInt → 0 ≤ r.toInt) ∧ (a.toInt ≤ 0 → r.toInt ≤ 0) := by
  have h1 := SIntQuo_math a b q hq
  have h2 := SIntRem_math a b r hr
  have hd : Spec.divDom a b = true := by
    simp only [Spec.SIntQuo] at hq; split at hq
    · assumption
    · cases hq
  rw [divDom_iff] at hd
  rw [h1, h2]
  refine ⟨?_, ?_, ?_, ?_⟩
  · exact (Int.tdiv_mul_add_tmod a.toInt b.toInt).symm
  · rw [Int.natAbs_tmod]; exact Nat.mod_lt _ (by omega)
  · intro h; exact Int.tmod_nonneg _ h
  · intro h
    have := Int.tmod_nonneg b.toInt (show 0 ≤ -a.toInt by omega)
    rw [Int.neg_tmod] at this; omega

/-! ## mod and modular arithmetic: the residue in `[0, n)` -/
theorem SIntMod_math (a n r : BitVec 64) (h : Spec.SIntMod a n = some r) :
    r.toInt = a.toInt % n.toInt ∧ 0 ≤ r.toInt ∧ r.toInt < n.toInt := by
  simp only [Spec.SIntMod] at h
  split at h
  · rename_i hd; injection h with h; subst h
    have hn2 := BitVec.toInt_lt (x := n); simp at hn2
    have h1 := Int.emod_nonneg a.toInt (show n.toInt ≠ 0 by omega)
    have h2 := Int.emod_lt_of_pos a.toInt hd.2
    rw [ofInt_toInt_of_range _ (by omega)]; omega
  · cases h

theorem modDom_iff (a b n : BitVec 64) : Spec.modDom a b n = true ↔
    0 < n.toInt ∧ 0 ≤ a.toInt ∧ a.toInt < n.toInt ∧ 0 ≤ b.toInt ∧ b.toInt < n.toInt := by
  simp [Spec.modDom]

theorem residue_math (x : Int) (n r : BitVec 64) (hn : 0 < n.toInt) (h : BitVec.ofInt 64 (x % n.toInt) = r) :
    r.toInt = x % n.toInt ∧ 0 ≤ r.toInt ∧ r.toInt < n.toInt := by
  subst h
  have hn2 := BitVec.toInt_lt (x := n); simp at hn2
  have h1 := Int.emod_nonneg x (show n.toInt ≠ 0 by omega)
  have h2 := Int.emod_lt_of_pos x hn
  rw [ofInt_toInt_of_range _ (by omega)]; omega

theorem SIntPlusMod_math (a b n r : BitVec 64) (h : Spec.SIntPlusMod a b n = some r) :
    r.toInt = (a.toInt + b.toInt) % n.toInt ∧ 0 ≤ r.toInt ∧ r.toInt < n.toInt := by
  simp only [Spec.SIntPlusMod] at h
  split at h
  · rename_i hd; injection h with h; exact residue_math _ n r ((modDom_iff a b n).mp hd).1 h
  · cases h
theorem SIntMinusMod_math (a b n r : BitVec 64) (h : Spec.SIntMinusMod a b n = some r) :
    r.toInt = (a.toInt - b.toInt) % n.toInt ∧ 0 ≤ r.toInt ∧ r.toInt < n.toInt := by
  simp only [Spec.SIntMinusMod] at h
  split at h
  · rename_i hd; injection h with h; exact residue_math _ n r ((modDom_iff a b n).mp hd).1 h
  · cases h
theorem SIntTimesMod_math (a b n r : BitVec 64) (h : Spec.SIntTimesMod a b n = some r) :
    r.toInt = (a.toInt * b.toInt) % n.toInt ∧ 0 ≤ r.toInt ∧ r.toInt < n.toInt := by
  simp only [Spec.SIntTimesMod] at h
  split at h
  · rename_i hd; injection h with h; exact residue_math _ n r ((modDom_iff a b n).mp hd).1 h
  · cases h

/-! ## shifts, bits, bitwise logic -/
theorem SIntShiftUp_math (a k r : BitVec 64) (h : Spec.SIntShiftUp a k = some r) :
    0 ≤ k.toInt ∧ k.toInt < 64 ∧ r = BitVec.ofInt 64 (a.toInt * 2 ^ k.toInt.toNat) := by
  simp only [Spec.SIntShiftUp] at h
  split at h
  · rename_i hd; injection h with h; simp [Spec.shiftDom] at hd; exact ⟨hd.1, hd.2, h.symm⟩
  · cases h
theorem SIntShiftDn_math (a k r : BitVec 64) (h : Spec.SIntShiftDn a k = some r) :
    0 ≤ k.toInt ∧ k.toInt < 64 ∧ r.toInt = a.toInt / 2 ^ k.toInt.toNat := by
  simp only [Spec.SIntShiftDn] at h
  split at h
  · rename_i hd; injection h with h; simp [Spec.shiftDom] at hd
    refine ⟨hd.1, hd.2, ?_⟩
    subst h
    have ha1 := BitVec.le_toInt (x := a); have ha2 := BitVec.toInt_lt (x := a)
    simp at ha1 ha2
    have hp : (0 : Int) < 2 ^ k.toInt.toNat := Int.pow_pos (by omega)
    apply ofInt_toInt_of_range
    by_cases h0 : 0 ≤ a.toInt
    · have h1 := Int.ediv_le_self (2 ^ k.toInt.toNat) h0
      have h2 := Int.ediv_nonneg h0 (Int.le_of_lt hp)
      omega
    · have h1 : a.toInt / 2 ^ k.toInt.toNat < 0 := Int.ediv_neg_of_neg_of_pos (by omega) hp
      have h2 : a.toInt ≤ a.toInt / 2 ^ k.toInt.toNat := by
        rw [Int.le_ediv_iff_mul_le hp]
        have := Int.mul_le_mul_of_nonpos_left (a := a.toInt) (b := 2 ^ k.toInt.toNat) (c := 1) (by omega) hp
        omega
      omega
  · cases h
theorem SIntBit_math (a k : BitVec 64) (r : Bool) (h : Spec.SIntBit a k = some r) :
    0 ≤ k.toInt ∧ k.toInt < 64 ∧ r = a.getLsbD k.toInt.toNat := by
  simp only [Spec.SIntBit] at h
  split at h
  · rename_i hd; injection h with h; simp [Spec.shiftDom] at hd; exact ⟨hd.1, hd.2, h.symm⟩
  · cases h
theorem bitwise_math (a b : BitVec 64) (i : Nat) (hi : i < 64) :
    (∀ r, Spec.SIntAnd a b = some r → r.getLsbD i = (a.getLsbD i && b.getLsbD i)) ∧
    (∀ r, Spec.SIntOr a b = some r → r.getLsbD i = (a.getLsbD i || b.getLsbD i)) ∧
    (∀ r, Spec.SIntXOr a b = some r → r.getLsbD i = (a.getLsbD i ^^ b.getLsbD i)) ∧
    (∀ r, Spec.SIntNot a = some r → r.getLsbD i = !a.getLsbD i) := by
  refine ⟨?_, ?_, ?_, ?_⟩ <;> intro r h <;>
    simp [Spec.SIntAnd, Spec.SIntOr, Spec.SIntXOr, Spec.SIntNot] at h <;> subst h <;> simp [hi]

/-! ## characters (ASCII) -/
theorem CharIsDigit_math (c : BitVec 8) : Spec.CharIsDigit c = some (decide ('0'.toNat ≤ c.toNat ∧ c.toNat ≤ '9'.toNat)) := rfl
theorem CharIsLetter_math (c : BitVec 8) : Spec.CharIsLetter c =
    some (decide (('A'.toNat ≤ c.toNat ∧ c.toNat ≤ 'Z'.toNat) ∨ ('a'.toNat ≤ c.toNat ∧ c.toNat ≤ 'z'.toNat))) := by
  simp [Spec.CharIsLetter, Spec.isUpperCode, Spec.isLowerCode]
theorem CharOrder_math (a b : BitVec 8) :
    Spec.CharLT a b = some (decide (a.toNat < b.toNat)) ∧ Spec.CharLE a b = some (decide (a.toNat ≤ b.toNat)) ∧
    Spec.CharEQ a b = some (decide (a.toNat = b.toNat)) ∧ Spec.CharNE a b = some (decide (a.toNat ≠ b.toNat)) := by
  refine ⟨rfl, rfl, ?_, ?_⟩ <;> simp [Spec.CharEQ, Spec.CharNE, bne, Bool.beq_eq_decide_eq, BitVec.toNat_eq]
theorem CharLower_math (c r : BitVec 8) (h : Spec.CharLower c = some r) :
    r.toNat = if 'A'.toNat ≤ c.toNat ∧ c.toNat ≤ 'Z'.toNat then c.toNat + ('a'.toNat - 'A'.toNat) else c.toNat := by
  simp [Spec.CharLower, Spec.isUpperCode] at h
  subst h
  have := c.isLt
  by_cases hc : 65 ≤ c.toNat ∧ c.toNat ≤ 90
  · simp [hc]; have e : 'A'.toNat = 65 := rfl; have e2 : 'Z'.toNat = 90 := rfl; have e3 : 'a'.toNat = 97 := rfl
    simp [e, e2, e3, hc]; omega
  · have e : 'A'.toNat = 65 := rfl; have e2 : 'Z'.toNat = 90 := rfl
    simp [hc, e, e2]
theorem CharUpper_math (c r : BitVec 8) (h : Spec.CharUpper c = some r) :
    r.toNat = if 'a'.toNat ≤ c.toNat ∧ c.toNat ≤ 'z'.toNat then c.toNat - ('a'.toNat - 'A'.toNat) else c.toNat := by
  simp [Spec.CharUpper, Spec.isLowerCode] at h
  subst h
  have := c.isLt
  by_cases hc : 97 ≤ c.toNat ∧ c.toNat ≤ 122
  · have e : 'a'.toNat = 97 := rfl; have e2 : 'z'.toNat = 122 := rfl; have e3 : 'A'.toNat = 65 := rfl
    simp [e, e2, e3, hc]; omega
  · have e : 'a'.toNat = 97 := rfl; have e2 : 'z'.toNat = 122 := rfl
    simp [hc, e, e2]
/-- `ord` and `char` are inverse operations -/
theorem ord_char_inverse (c : BitVec 8) (n : BitVec 64) (h : Spec.CharOrd c = some n) :
    n.toInt = c.toNat ∧ Spec.CharNum n = some c := by
  simp only [Spec.CharOrd, Option.some.injEq] at h; subst h
  have := c.isLt
  have e : (BitVec.ofNat 64 c.toNat).toInt = c.toNat := by
    rw [BitVec.toInt_eq_toNat_cond, BitVec.toNat_ofNat]; omega
  refine ⟨e, ?_⟩
  simp only [Spec.CharNum, e]
  have h2 : (0 : Int) ≤ c.toNat ∧ (c.toNat : Int) ≤ 255 := by omega
  rw [if_pos h2]
  congr 1
  apply BitVec.eq_of_toNat_eq
  simp [BitVec.toNat_ofInt]
theorem char_ord_inverse (n : BitVec 64) (c : BitVec 8) (h : Spec.CharNum n = some c) :
    Spec.CharOrd c = some n := by
  simp only [Spec.CharNum] at h
  split at h
  · rename_i hd; injection h with h; subst h
    simp only [Spec.CharOrd]; congr 1
    apply BitVec.eq_of_toInt_eq
    have e : (BitVec.ofInt 8 n.toInt).toNat = n.toInt.toNat := by
      simp [BitVec.toNat_ofInt]; omega
    rw [e, BitVec.toInt_eq_toNat_cond]; simp; omega
  · cases h

/-! ## conversions -/
theorem ByteToSInt_math (b : BitVec 8) (r : BitVec 64) (h : Spec.ByteToSInt b = some r) : r.toInt = b.toNat := by
  simp [Spec.ByteToSInt] at h; subst h
  have := b.isLt
  rw [BitVec.toInt_eq_toNat_cond]; simp; omega
theorem SIntToByte_math (n : BitVec 64) (r : BitVec 8) (h : Spec.SIntToByte n = some r) : (r.toNat : Int) = n.toInt := by
  simp only [Spec.SIntToByte] at h
  split at h
  · rename_i hd; injection h with h; subst h; simp [BitVec.toNat_ofInt]; omega
  · cases h
theorem HIntToSInt_math (x : BitVec 16) (r : BitVec 64) (h : Spec.HIntToSInt x = some r) : r.toInt = x.toInt := by
  simp [Spec.HIntToSInt] at h; subst h
  have h1 := BitVec.le_toInt (x := x); have h2 := BitVec.toInt_lt (x := x)
  simp at h1 h2
  exact ofInt_toInt_of_range _ (by omega)
theorem SIntToHInt_math (n : BitVec 64) (r : BitVec 16) (h : Spec.SIntToHInt n = some r) : r.toInt = n.toInt := by
  simp only [Spec.SIntToHInt] at h
  split at h
  · rename_i hd; injection h with h; subst h
    rw [BitVec.toInt_ofInt]; simp only [Int.bmod]; omega
  · cases h

end AldorVerif.C04Math
